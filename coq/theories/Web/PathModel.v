(** Model of the path logic of sqllineage/drawing.py (SQLLineageApp.__call__ and
    the three POST routes), after fix F2.  pathlib is modelled on segment lists:
    [parse] = PurePosixPath parsing, [resolve] = Path.resolve() in the absence of
    symbolic links (purely lexical), [parent] = the lexical [.parent]. *)
From SV Require Export Base.Util.

Definition seg := string.
Record path := { is_abs : bool; segs : list seg }.

(** split a string at every [c]; always returns at least one piece *)
Fixpoint split_on (c : ascii) (s : string) : list string :=
  match s with
  | EmptyString => [EmptyString]
  | String a r =>
      if Ascii.eqb a c then EmptyString :: split_on c r
      else match split_on c r with
           | [] => [String a EmptyString]
           | x :: xs => String a x :: xs
           end
  end.

Definition keep_seg (x : seg) : bool := negb (String.eqb x "") && negb (String.eqb x ".").

Definition starts_with_slash (s : string) : bool :=
  match s with String c _ => Ascii.eqb c "/"%char | EmptyString => false end.

(** Path(s): empty and "." components vanish, ".." is kept. (A leading "//" is
    treated as "/": both resolve to the same place.) *)
Definition parse (s : string) : path :=
  {| is_abs := starts_with_slash s; segs := filter keep_seg (split_on "/"%char s) |}.

(** Path.absolute(): prefix the working directory when relative *)
Definition absolute (cwd : list seg) (p : path) : list seg :=
  if is_abs p then segs p else cwd ++ segs p.

(** lexical resolution of an absolute segment list; [acc] is reversed *)
Fixpoint resolve_segs (acc : list seg) (rest : list seg) : list seg :=
  match rest with
  | [] => rev acc
  | x :: r =>
      if String.eqb x ".." then resolve_segs (tl acc) r
      else if keep_seg x then resolve_segs (x :: acc) r
      else resolve_segs acc r
  end.

Definition resolve (cwd : list seg) (p : path) : list seg := resolve_segs [] (absolute cwd p).

(** Path.parent (lexical): drop the last component, if any *)
Definition parent (p : path) : path := {| is_abs := is_abs p; segs := removelast (segs p) |}.

Fixpoint list_prefixb (a b : list seg) : bool :=
  match a, b with
  | [], _ => true
  | x :: a', y :: b' => String.eqb x y && list_prefixb a' b'
  | _ :: _, [] => false
  end.

(** is_under_root: path.resolve().is_relative_to(root.resolve()) *)
Definition under_root (cwd : list seg) (root p : path) : bool :=
  list_prefixb (resolve cwd root) (resolve cwd p).

Inductive route := RScript | RLineage | RDirectory | ROther.

Record request := { rt : route; pf : option string; pd : option string }.

Definition truthy (o : option string) : bool :=
  match o with Some s => negb (String.eqb s "") | None => false end.

(** every path the handler checks *)
Definition checked (r : request) : list path :=
  (match pd r with Some d => [parse d] | None => [] end) ++
  (match pf r with Some f => [parse f] | None => [] end) ++
  (match rt r, pf r with
   | RDirectory, Some f => if truthy (pf r) then [parent (parse f)] else []
   | _, _ => []
   end).

(** what the route then reads: a file (script, lineage) or a directory listing *)
Inductive touched := TFile (p : path) | TDir (p : path) | TDefaultDir | TNone.

Definition touches (r : request) : touched :=
  match rt r with
  | RScript | RLineage =>
      match pf r with Some f => if truthy (pf r) then TFile (parse f) else TNone | None => TNone end
  | RDirectory =>
      match pf r, pd r with
      | Some f, _ => if truthy (pf r) then TDir (parent (parse f))
                     else match pd r with
                          | Some d => if truthy (pd r) then TDir (parse d) else TDefaultDir
                          | None => TDefaultDir end
      | None, Some d => if truthy (pd r) then TDir (parse d) else TDefaultDir
      | None, None => TDefaultDir
      end
  | ROther => TNone
  end.

Inductive decision := D404 | D403 | DPass (t : touched).

Definition post (cwd : list seg) (root : path) (r : request) : decision :=
  match rt r with
  | ROther => D404
  | _ => if forallb (under_root cwd root) (checked r) then DPass (touches r) else D403
  end.

(** * GET *)
Fixpoint has_dotdot (s : string) : bool :=
  match s with
  | String a (String b r as t) => (Ascii.eqb a "."%char && Ascii.eqb b "."%char) || has_dotdot t
  | _ => false
  end.

Definition is_slash (c : ascii) : bool := Ascii.eqb c "/"%char.

Inductive get_result := GIndex | G404 | GServe (p : list seg).

(** [static] is the absolute static folder; PATH_INFO is stripped of slashes and joined *)
Definition get (static : list seg) (path_info : string) : get_result :=
  if String.eqb path_info "/" then GIndex
  else if has_dotdot path_info then G404
  else GServe (static ++ segs (parse (strip is_slash path_info))).

(** * The handler before fix F2 (string prefix of unresolved absolute paths),
    kept for the refutation witnesses. *)
Definition render_abs (l : list seg) : string := "/" ++ join "/" l.
Fixpoint sprefix (a b : string) : bool :=
  match a, b with
  | EmptyString, _ => true
  | String x a', String y b' => Ascii.eqb x y && sprefix a' b'
  | String _ _, EmptyString => false
  end.
Definition allowed0 (cwd : list seg) (root p : path) : bool :=
  sprefix (render_abs (absolute cwd root)) (render_abs (absolute cwd p)).
Definition checked0 (r : request) : list path :=
  (match pd r with Some d => [parse d] | None => [] end) ++
  (match pf r with Some f => [parse f] | None => [] end).
Definition post0 (cwd : list seg) (root : path) (r : request) : decision :=
  match rt r with
  | ROther => D404
  | _ => if forallb (allowed0 cwd root) (checked0 r) then DPass (touches r) else D403
  end.

(** * Printing *)
Definition show_segs (l : list seg) : string := "/" ++ join "/" l.
Definition show_touched (cwd : list seg) (t : touched) : string :=
  match t with
  | TFile p => "F" ++ show_segs (resolve cwd p)
  | TDir p => "L" ++ show_segs (resolve cwd p)
  | TDefaultDir => "DEFAULT"
  | TNone => "NONE"
  end.
Definition show_decision (cwd : list seg) (d : decision) : string :=
  match d with
  | D404 => "404"
  | D403 => "403"
  | DPass t => "PASS:" ++ show_touched cwd t
  end.
Definition show_post (cwd root : string) (r : request) : string :=
  show_decision (segs (parse cwd)) (post (segs (parse cwd)) (parse root) r).
Definition show_get (static : string) (pinfo : string) : string :=
  match get (segs (parse static)) pinfo with
  | GIndex => "INDEX"
  | G404 => "404"
  | GServe p => "SERVE" ++ show_segs p
  end.
