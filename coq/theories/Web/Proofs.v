(** Proofs about Web/PathModel.v.  Statements are fixed; see Props/C17.v. *)
From SV Require Import Web.PathModel.

Definition normal_seg (x : seg) : Prop := keep_seg x = true /\ x <> "..".
Definition normal (l : list seg) : Prop := Forall normal_seg l.

Fixpoint list_prefix (a b : list seg) : Prop :=
  match a, b with
  | [], _ => True
  | x :: a', y :: b' => x = y /\ list_prefix a' b'
  | _ :: _, [] => False
  end.

Lemma list_prefixb_spec a b : list_prefixb a b = true <-> list_prefix a b.
Proof.
  revert b. induction a as [|x a IH]; intros [|y b]; simpl.
  - split; auto.
  - split; auto.
  - split; [discriminate | tauto].
  - rewrite andb_true_iff, String.eqb_eq, IH. tauto.
Qed.

Lemma list_prefix_app a t : list_prefix a (a ++ t).
Proof. induction a as [|x a IH]; simpl; auto. Qed.

(** resolution yields a normal form: no "", ".", ".." *)
Lemma resolve_segs_normal rest : forall acc, normal acc -> normal (resolve_segs acc rest).
Proof.
  induction rest as [|x rest IH]; intros acc H; simpl.
  - apply Forall_rev. exact H.
  - destruct (String.eqb x "..") eqn:E.
    + apply IH. destruct acc as [|y acc]; simpl; auto.
      inversion H; auto.
    + destruct (keep_seg x) eqn:K.
      * apply IH. constructor; auto. split; auto. apply String.eqb_neq; auto.
      * apply IH; auto.
Qed.

Lemma resolve_normal cwd p : normal (resolve cwd p).
Proof. unfold resolve. apply resolve_segs_normal. constructor. Qed.

(** a normal path resolves to itself *)
Lemma resolve_segs_of_normal l : forall acc, normal l -> resolve_segs acc l = rev acc ++ l.
Proof.
  induction l as [|x l IH]; intros acc H; simpl.
  - rewrite app_nil_r; reflexivity.
  - inversion H as [|? ? [K N] H']; subst.
    apply String.eqb_neq in N. rewrite N, K.
    rewrite IH by auto. simpl. rewrite <- app_assoc. reflexivity.
Qed.

(** resolution is idempotent *)
Lemma resolve_idem cwd p :
  resolve cwd {| is_abs := true; segs := resolve cwd p |} = resolve cwd p.
Proof.
  unfold resolve at 1. unfold absolute; simpl.
  rewrite resolve_segs_of_normal; [reflexivity | apply resolve_normal].
Qed.

(** "x/.." cancels, wherever it occurs *)
Lemma resolve_segs_cancel a x b : forall acc,
  normal_seg x -> resolve_segs acc (a ++ x :: ".." :: b) = resolve_segs acc (a ++ b).
Proof.
  induction a as [|y a IH]; intros acc H; simpl.
  - destruct H as [K N]. apply String.eqb_neq in N. rewrite N, K. reflexivity.
  - destruct (String.eqb y ".."); [apply IH; auto|].
    destruct (keep_seg y); apply IH; auto.
Qed.

(** POST: whatever a passing request makes the route read lies under the root *)
Definition touched_contained (cwd : list seg) (root : path) (t : touched) : Prop :=
  match t with
  | TFile p | TDir p => list_prefix (resolve cwd root) (resolve cwd p)
  | TDefaultDir | TNone => True
  end.

Theorem post_contained cwd root r t :
  post cwd root r = DPass t -> touched_contained cwd root t.
Proof.
  unfold post, checked, touches, under_root.
  destruct r as [rt0 pf0 pd0]; simpl.
  destruct rt0; try discriminate;
  destruct pf0 as [f|]; destruct pd0 as [d|]; simpl;
  try destruct (negb (String.eqb f "")) eqn:Ef; simpl;
  try destruct (negb (String.eqb d "")) eqn:Ed; simpl;
  repeat match goal with
  | |- context [if ?c then _ else _] => destruct c eqn:?; try discriminate
  end;
  intros HH; inversion HH; subst; simpl; auto;
  repeat match goal with
  | H : _ && _ = true |- _ => apply andb_true_iff in H; destruct H
  end;
  try (apply list_prefixb_spec; assumption).
Qed.

(** GET: without a ".." substring in PATH_INFO, the served path stays under the static folder *)
Lemma has_dotdot_tail a s : has_dotdot (String a s) = false -> has_dotdot s = false.
Proof.
  destruct s as [|b s]; simpl; auto.
  intros H. apply orb_false_iff in H. destruct H; auto.
Qed.

Lemma split_on_nonempty c s : split_on c s <> [].
Proof.
  destruct s as [|a s]; simpl; try discriminate.
  destruct (Ascii.eqb a c); try discriminate.
  destruct (split_on c s); discriminate.
Qed.

Lemma has_dotdot_split s : has_dotdot s = false -> ~ In ".." (split_on "/"%char s).
Proof.
  induction s as [|a s IH]; intros H.
  - simpl. intros [E|[]]. discriminate.
  - pose proof (has_dotdot_tail _ _ H) as Ht. specialize (IH Ht).
    simpl. destruct (Ascii.eqb a "/") eqn:Ea.
    + intros [E|Hin]; [discriminate | auto].
    + destruct (split_on "/" s) as [|x xs] eqn:Es.
      * exfalso. eapply split_on_nonempty; eauto.
      * intros [E|Hin]; [| apply IH; right; exact Hin].
        inversion E; subst.
        destruct s as [|b s'].
        -- simpl in Es. inversion Es.
        -- simpl in Es. destruct (Ascii.eqb b "/") eqn:Eb.
           ++ inversion Es.
           ++ destruct (split_on "/" s') as [|x' xs']; inversion Es; subst.
              simpl in H. destruct s'; discriminate.
              simpl in H. destruct s'; discriminate.
Qed.

Lemma has_dotdot_lstrip p s : has_dotdot s = false -> has_dotdot (lstrip p s) = false.
Proof.
  induction s as [|a s IH]; intros H; simpl; auto.
  destruct (p a); auto. apply IH. eapply has_dotdot_tail; eauto.
Qed.

Lemma rstrip_head p s d r : rstrip p s = String d r -> exists s', s = String d s'.
Proof.
  destruct s as [|a s]; simpl; try discriminate.
  destruct (rstrip p s).
  - destruct (p a); try discriminate. intros E; inversion E; subst; eauto.
  - intros E; inversion E; subst; eauto.
Qed.

Lemma has_dotdot_rstrip p s : has_dotdot s = false -> has_dotdot (rstrip p s) = false.
Proof.
  induction s as [|a s IH]; intros H; auto.
  pose proof (has_dotdot_tail _ _ H) as Ht. specialize (IH Ht).
  simpl. destruct (rstrip p s) as [|d r] eqn:Er.
  - destruct (p a); reflexivity.
  - destruct (rstrip_head _ _ _ _ Er) as [s' Es]. subst s.
    simpl in H. apply orb_false_iff in H. destruct H as [H1 H2].
    change (has_dotdot (String a (String d r)))
      with ((Ascii.eqb a "." && Ascii.eqb d ".") || has_dotdot (String d r)).
    rewrite H1, IH. reflexivity.
Qed.

Lemma has_dotdot_strip p s : has_dotdot s = false -> has_dotdot (strip p s) = false.
Proof.
  intros H. unfold strip. apply has_dotdot_rstrip. apply has_dotdot_lstrip. exact H.
Qed.

Theorem get_contained static pinfo q :
  normal static ->
  get static pinfo = GServe q ->
  exists tail, q = static ++ tail /\ normal tail /\
               resolve_segs [] q = q /\ list_prefix static (resolve_segs [] q).
Proof.
  intros Hs. unfold get.
  destruct (String.eqb pinfo "/"); try discriminate.
  destruct (has_dotdot pinfo) eqn:Hd; try discriminate.
  intros E. inversion E as [Eq]. clear E. clear Eq.
  set (tail := segs (parse (strip is_slash pinfo))).
  assert (Ht : normal tail).
  { unfold tail, parse; simpl. apply Forall_forall. intros x Hin.
    apply filter_In in Hin. destruct Hin as [Hin K].
    split; auto. intros ->.
    eapply has_dotdot_split; [| exact Hin].
    apply has_dotdot_strip. exact Hd. }
  assert (Hr : resolve_segs [] (static ++ tail) = static ++ tail).
  { rewrite resolve_segs_of_normal; [reflexivity|].
    apply Forall_app. split; assumption. }
  exists tail. split; [reflexivity|]. split; [exact Ht|]. split; [exact Hr|].
  unfold tail in *; simpl in *. rewrite Hr. apply list_prefix_app.
Qed.
