(** C17 over request histories: the server object lives across requests, and both the configured root
    ([app.root_path], re-assigned by [draw_lineage_graph] and by embedding code) and the process working
    directory may change between two requests.  The handler keeps no state of its own: each answer is
    [post] at the root and working directory in force when the request arrives.  This file states that as
    a state machine and lifts the containment theorem to every history. *)
From SV Require Import Web.PathModel Web.Proofs.

Inductive wop :=
| WSetRoot (root : string)        (* app.root_path = Path(root) *)
| WChdir (dir : string)           (* os.chdir(dir) *)
| WPost (r : request).

Record wstate := { w_cwd : list seg; w_root : path }.

Definition wstep (s : wstate) (o : wop) : wstate * option decision :=
  match o with
  | WSetRoot r => ({| w_cwd := w_cwd s; w_root := parse r |}, None)
  | WChdir d => ({| w_cwd := resolve (w_cwd s) (parse d); w_root := w_root s |}, None)
  | WPost r => (s, Some (post (w_cwd s) (w_root s) r))
  end.

(** the answers of a history, each with the state it was given in *)
Fixpoint wrun (s : wstate) (ops : list wop) : list (wstate * decision) :=
  match ops with
  | [] => []
  | o :: rest =>
      match wstep s o with
      | (s', Some d) => (s, d) :: wrun s' rest
      | (s', None) => wrun s' rest
      end
  end.

Definition wstate_after (s : wstate) (ops : list wop) : wstate :=
  fold_left (fun st o => fst (wstep st o)) ops s.

Lemma wrun_app s a b : wrun s (a ++ b) = wrun s a ++ wrun (wstate_after s a) b.
Proof.
  revert s. induction a as [|o a IH]; intros s; [reflexivity|].
  cbn [app wrun wstate_after fold_left]. destruct (wstep s o) as [s' [d|]] eqn:E; cbn [fst];
    rewrite IH; unfold wstate_after; reflexivity.
Qed.

(** every answer of every history is the stateless answer at the state in force *)
Theorem history_answers_are_stateless s pre r rest :
  exists before after,
    wrun s (pre ++ WPost r :: rest) = before ++ (wstate_after s pre, post (w_cwd (wstate_after s pre)) (w_root (wstate_after s pre)) r) :: after
    /\ before = wrun s pre.
Proof.
  exists (wrun s pre), (wrun (wstate_after s pre) rest). split; [|reflexivity].
  rewrite wrun_app. cbn [wrun wstep]. reflexivity.
Qed.

Lemma wrun_in s ops st d :
  In (st, d) (wrun s ops) -> exists pre r rest, ops = pre ++ WPost r :: rest /\ st = wstate_after s pre /\ d = post (w_cwd st) (w_root st) r.
Proof.
  revert s. induction ops as [|o ops IH]; intros s H; [destruct H|].
  cbn [wrun] in H. destruct o as [rt|dr|r]; cbn [wstep] in H.
  - destruct (IH _ H) as (pre & r & rest & E & Es & Ed). exists (WSetRoot rt :: pre), r, rest. subst ops. repeat split; assumption.
  - destruct (IH _ H) as (pre & r & rest & E & Es & Ed). exists (WChdir dr :: pre), r, rest. subst ops. repeat split; assumption.
  - destruct H as [H|H].
    + inversion H; subst. exists [], r, ops. repeat split.
    + destruct (IH _ H) as (pre & r' & rest & E & Es & Ed). exists (WPost r :: pre), r', rest. subst ops. repeat split; assumption.
Qed.

(** containment for every history: whatever any request of any history is allowed to read lies under the
    root that is configured at that moment, resolved against the working directory of that moment -
    never under an earlier root *)
Theorem history_contained s ops st t :
  In (st, DPass t) (wrun s ops) ->
  touched_contained (w_cwd st) (w_root st) t /\
  exists pre r rest, ops = pre ++ WPost r :: rest /\ st = wstate_after s pre.
Proof.
  intros H. destruct (wrun_in _ _ _ _ H) as (pre & r & rest & E & Es & Ed). split.
  - apply (post_contained _ _ r). symmetry. exact Ed.
  - exists pre, r, rest. split; assumption.
Qed.

(** the last SetRoot decides: requests after it are judged against it alone *)
Lemma wstate_after_setroot s pre root : w_root (wstate_after s (pre ++ [WSetRoot root])) = parse root.
Proof. unfold wstate_after. rewrite fold_left_app. reflexivity. Qed.

(** printing, for the correspondence suite: one line per request *)
Definition show_history (cwd root : string) (ops : list wop) : string :=
  join ";" (map (fun sd => show_decision (w_cwd (fst sd)) (snd sd))
                (wrun {| w_cwd := segs (parse cwd); w_root := parse root |} ops)).

(** non-vacuity: a file under the first root is refused after the root moved, one under the new root is served *)
Example history_nonvacuous :
  show_history "/srv" "rootA"
    [WPost {| rt := RScript; pf := Some "rootA/a.sql"; pd := None |};
     WSetRoot "/srv/rootB";
     WPost {| rt := RScript; pf := Some "rootA/a.sql"; pd := None |};
     WPost {| rt := RScript; pf := Some "/srv/rootB/x/../b.sql"; pd := None |};
     WChdir "rootB";
     WPost {| rt := RDirectory; pf := None; pd := Some "." |}]
  = "PASS:F/srv/rootA/a.sql;403;PASS:F/srv/rootB/b.sql;PASS:L/srv/rootB".
Proof. vm_compute. reflexivity. Qed.
