(** Model of sqlparse's StatementSplitter.process (engine/statement_splitter.py, 0.6.0)
    restricted to the token classes of core SQL, and of helpers.split's filter
    (sqllineage/utils/helpers.py).  BEGIN / DECLARE / GO and the loop keywords are
    outside this model (they only matter inside procedural blocks). *)
From SV Require Export Base.Util.
From Coq Require Import ZArith.

Inductive tok :=
| TCode (s : string)          (* any other token: names, operators, literals (a ';' inside a literal is here) *)
| TSemi                       (* Punctuation ';' *)
| TLParen | TRParen           (* Punctuation '(' / ')' *)
| TWs (s : string)            (* Whitespace (blanks, tabs) *)
| TNl (s : string)            (* Newline *)
| TLineComment (s : string)   (* Comment.Single, includes its line end *)
| TBlockComment (s : string)  (* Comment.Multiline *)
| TEnd (s : string).          (* keyword END: lowers the split level by one *)

Definition tok_text (t : tok) : string :=
  match t with
  | TCode s | TWs s | TNl s | TLineComment s | TBlockComment s | TEnd s => s
  | TSemi => ";" | TLParen => "(" | TRParen => ")"
  end.

Definition level_change (t : tok) : Z :=
  match t with TLParen => 1 | TRParen => -1 | TEnd _ => -1 | _ => 0 end%Z.

(** tokens that keep being appended to a statement after its closing ';' *)
Definition is_eos_filler (t : tok) : bool :=
  match t with TWs _ | TLineComment _ => true | _ => false end.
Definition is_whitespace (t : tok) : bool :=
  match t with TWs _ | TNl _ => true | _ => false end.
Definition is_trivia (t : tok) : bool :=
  match t with TWs _ | TNl _ | TLineComment _ | TBlockComment _ => true | _ => false end.

(** process: [cur] is the statement under construction (reversed), [level] the split level,
    [consume] the consume_ws flag *)
Fixpoint process (ts : list tok) (cur : list tok) (level : Z) (consume : bool) : list (list tok) :=
  match ts with
  | [] => if forallb is_whitespace cur then [] else [rev cur]
  | t :: r =>
      if consume && negb (is_eos_filler t) then
        (* yield the finished statement, reset, then handle t in the fresh state *)
        rev cur ::
          (let level' := level_change t in
           let consume' := match t with TSemi => Z.leb level' 0 | _ => false end in
           process r [t] level' consume')
      else
        let level' := (level + level_change t)%Z in
        let consume' := match t with TSemi => consume || Z.leb level' 0 | _ => consume end in
        process r (t :: cur) level' consume'
  end.

Definition sqlparse_split (ts : list tok) : list (list tok) := process ts [] 0%Z false.

(** helpers.split: drop pieces whose first non-blank, non-comment token is ';' or that have none *)
Definition first_code (p : list tok) : option tok :=
  match filter (fun t => negb (is_trivia t)) p with t :: _ => Some t | [] => None end.
Definition keep_piece (p : list tok) : bool :=
  match first_code p with Some TSemi => false | Some _ => true | None => false end.
Definition split (ts : list tok) : list (list tok) := filter keep_piece (sqlparse_split ts).

(** what a statement says, ignoring layout and its closing semicolons *)
Definition code_of (p : list tok) : list tok :=
  filter (fun t => negb (is_trivia t) && match t with TSemi => false | _ => true end) p.

Definition text_of (p : list tok) : string := concat_str (map tok_text p).
Definition show_split (ts : list tok) : string := join "<|>" (map text_of (split ts)).
