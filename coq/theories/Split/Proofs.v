(** Statements about Split/Tokens.v (C05, C07 separators). *)
From SV Require Import Split.Tokens.
From Coq Require Import ZArith.

Definition is_semi (t : tok) : bool := match t with TSemi => true | _ => false end.
Definition is_sep_tok (t : tok) : bool := is_trivia t || is_semi t.

Definition level_sum (l : list tok) : Z := fold_right (fun t z => (level_change t + z)%Z) 0%Z l.

(** a statement body: no semicolon, parentheses closed (split level back to <= 0), some code *)
Definition stmt_ok (b : list tok) : Prop :=
  forallb (fun t => negb (is_semi t)) b = true /\
  (level_sum b <= 0)%Z /\
  existsb (fun t => negb (is_trivia t)) b = true.

(** script = leading layout, then every body followed by ';' and any separator:
    blanks, newlines, line/block comments (possibly containing ';'), further ';' *)
Fixpoint assemble (items : list (list tok * list tok)) : list tok :=
  match items with
  | [] => []
  | (b, sep) :: r => b ++ TSemi :: sep ++ assemble r
  end.

Definition items_ok (items : list (list tok * list tok)) : Prop :=
  Forall (fun p => stmt_ok (fst p) /\ forallb is_sep_tok (snd p) = true) items.


(* ------------------------------------------------------------------ *)
(** * Auxiliary lemmas *)

Lemma filler_trivia t : is_eos_filler t = true -> is_trivia t = true.
Proof. destruct t; simpl; intro H; try discriminate; reflexivity. Qed.

Lemma fillers_trivia l : forallb is_eos_filler l = true -> forallb is_trivia l = true.
Proof.
  induction l as [|t l IH]; simpl; intro H; [reflexivity|].
  apply andb_true_iff in H. destruct H as [Ht Hl].
  rewrite (filler_trivia t Ht), (IH Hl). reflexivity.
Qed.

Lemma ws_trivia l : forallb is_whitespace l = true -> forallb is_trivia l = true.
Proof.
  induction l as [|t l IH]; simpl; intro H; [reflexivity|].
  apply andb_true_iff in H. destruct H as [Ht Hl].
  rewrite (IH Hl). destruct t; simpl in *; try discriminate; reflexivity.
Qed.

Lemma trivia_nosemi l : forallb is_trivia l = true ->
  forallb (fun t => negb (is_semi t)) l = true.
Proof.
  induction l as [|t l IH]; simpl; intro H; [reflexivity|].
  apply andb_true_iff in H. destruct H as [Ht Hl].
  rewrite (IH Hl). destruct t; simpl in *; try discriminate; reflexivity.
Qed.

Lemma trivia_level l : forallb is_trivia l = true -> level_sum l = 0%Z.
Proof.
  induction l as [|t l IH]; simpl; intro H; [reflexivity|].
  apply andb_true_iff in H. destruct H as [Ht Hl].
  rewrite (IH Hl). destruct t; simpl in *; try discriminate; reflexivity.
Qed.

Lemma level_sum_app a b : level_sum (a ++ b) = (level_sum a + level_sum b)%Z.
Proof.
  induction a as [|t a IH]; simpl; [reflexivity|]. rewrite IH. lia.
Qed.

Lemma forallb_rev {A} (f : A -> bool) l : forallb f (rev l) = forallb f l.
Proof.
  induction l as [|x l IH]; simpl; [reflexivity|].
  rewrite forallb_app, IH. simpl. rewrite andb_true_r. apply andb_comm.
Qed.

Lemma trivia_filter_nt l : forallb is_trivia l = true ->
  filter (fun t => negb (is_trivia t)) l = [].
Proof.
  induction l as [|t l IH]; simpl; intro H; [reflexivity|].
  apply andb_true_iff in H. destruct H as [Ht Hl].
  rewrite Ht. simpl. exact (IH Hl).
Qed.

Lemma code_of_app a b : code_of (a ++ b) = code_of a ++ code_of b.
Proof. unfold code_of. apply filter_app. Qed.

Lemma code_of_trivia l : forallb is_trivia l = true -> code_of l = [].
Proof.
  induction l as [|t l IH]; simpl; intro H; [reflexivity|].
  apply andb_true_iff in H. destruct H as [Ht Hl].
  unfold code_of in *. simpl. rewrite Ht. simpl. exact (IH Hl).
Qed.

Lemma first_code_trivia_l a p : forallb is_trivia a = true -> first_code (a ++ p) = first_code p.
Proof.
  intro H. unfold first_code. rewrite filter_app, (trivia_filter_nt a H). reflexivity.
Qed.

Lemma first_code_trivia_r p a : forallb is_trivia a = true -> first_code (p ++ a) = first_code p.
Proof.
  intro H. unfold first_code. rewrite filter_app, (trivia_filter_nt a H), app_nil_r. reflexivity.
Qed.

Lemma keep_trivia_r p a : forallb is_trivia a = true -> keep_piece (p ++ a) = keep_piece p.
Proof. intro H. unfold keep_piece. rewrite first_code_trivia_r by exact H. reflexivity. Qed.

Lemma keep_trivia a : forallb is_trivia a = true -> keep_piece a = false.
Proof.
  intro H. unfold keep_piece, first_code. rewrite (trivia_filter_nt a H). reflexivity.
Qed.

Lemma keep_trivia_semi a x : forallb is_trivia a = true -> keep_piece (a ++ TSemi :: x) = false.
Proof.
  intro H. unfold keep_piece. rewrite first_code_trivia_l by exact H. reflexivity.
Qed.

(** first non-trivia token of a body *)
Lemma first_nt b : existsb (fun t => negb (is_trivia t)) b = true ->
  exists x l, filter (fun t => negb (is_trivia t)) b = x :: l /\ In x b /\ is_trivia x = false.
Proof.
  induction b as [|t b IH]; simpl; intro H; [discriminate|].
  destruct (is_trivia t) eqn:Et; simpl in *.
  - destruct (IH H) as [x [l [H1 [H2 H3]]]]. exists x, l. auto.
  - exists t, (filter (fun t => negb (is_trivia t)) b). auto.
Qed.

Lemma keep_tb t0 b x : forallb is_trivia t0 = true -> stmt_ok b -> keep_piece (t0 ++ b ++ x) = true.
Proof.
  intros Ht [Hns [_ Hex]]. unfold keep_piece. rewrite first_code_trivia_l by exact Ht.
  unfold first_code. rewrite filter_app.
  destruct (first_nt b Hex) as [y [l [H1 [H2 H3]]]]. rewrite H1. simpl.
  rewrite forallb_forall in Hns. specialize (Hns y H2).
  destruct y; simpl in *; try reflexivity; discriminate.
Qed.

Lemma nt_not_all_trivia l : existsb (fun t => negb (is_trivia t)) l = true -> forallb is_trivia l = false.
Proof.
  induction l as [|t l IH]; simpl; intro H; [discriminate|].
  destruct (is_trivia t); simpl in *; [exact (IH H)|reflexivity].
Qed.

Lemma not_ws_of_body a b c : stmt_ok b -> forallb is_whitespace (a ++ rev b ++ c) = false.
Proof.
  intros [_ [_ Hex]].
  destruct (forallb is_whitespace (a ++ rev b ++ c)) eqn:E; [|reflexivity].
  apply ws_trivia in E. rewrite !forallb_app, forallb_rev in E.
  rewrite (nt_not_all_trivia b Hex) in E. rewrite andb_false_r in E. discriminate.
Qed.

(* ------------------------------------------------------------------ *)
(** * One-step and multi-step behaviour of [process] *)

Lemma process_nosemi l : forall r cur level,
  forallb (fun t => negb (is_semi t)) l = true ->
  process (l ++ r) cur level false = process r (rev l ++ cur) (level + level_sum l)%Z false.
Proof.
  induction l as [|t l IH]; intros r cur level H.
  - simpl. rewrite Z.add_0_r. reflexivity.
  - simpl in H. apply andb_true_iff in H. destruct H as [Ht Hl].
    change (level_sum (t :: l)) with (level_change t + level_sum l)%Z.
    simpl rev. rewrite <- app_assoc. simpl app.
    rewrite Z.add_assoc. rewrite <- (IH r (t :: cur) (level + level_change t)%Z Hl).
    destruct t; simpl in Ht; try discriminate; reflexivity.
Qed.

Lemma process_filler_step t r cur level : is_eos_filler t = true ->
  process (t :: r) cur level true = process r (t :: cur) level true.
Proof.
  intro H. destruct t; simpl in H; try discriminate; simpl; rewrite Z.add_0_r; reflexivity.
Qed.

Lemma process_emit_step t r cur level : is_eos_filler t = false ->
  process (t :: r) cur level true = rev cur :: process r [t] (level_change t) (is_semi t).
Proof.
  intro H. destruct t; simpl in H; try discriminate; reflexivity.
Qed.

Lemma process_fillers fl : forall r cur level,
  forallb is_eos_filler fl = true ->
  process (fl ++ r) cur level true = process r (rev fl ++ cur) level true.
Proof.
  induction fl as [|t fl IH]; intros r cur level H; [reflexivity|].
  simpl in H. apply andb_true_iff in H. destruct H as [Ht Hl].
  simpl app. rewrite process_filler_step by exact Ht. rewrite IH by exact Hl.
  simpl rev. rewrite <- app_assoc. reflexivity.
Qed.

Lemma process_semi_close r cur level : (level <= 0)%Z ->
  process (TSemi :: r) cur level false = process r (TSemi :: cur) level true.
Proof.
  intro H. simpl. rewrite Z.add_0_r.
  replace (level <=? 0)%Z with true by (symmetry; apply Z.leb_le; exact H). reflexivity.
Qed.

(* ------------------------------------------------------------------ *)
(** * Shape of a reported statement *)

Definition shape (p : list tok) : Prop :=
  exists t b f, p = t ++ b ++ TSemi :: f /\ forallb is_trivia t = true /\ stmt_ok b /\
                forallb is_eos_filler f = true.

Lemma shape_keep p : shape p -> keep_piece p = true.
Proof. intros [t [b [f [E [Ht [Hb _]]]]]]. subst p. apply keep_tb; assumption. Qed.

Lemma shape_app_fillers p f : shape p -> forallb is_eos_filler f = true -> shape (p ++ f).
Proof.
  intros [t [b [f0 [E [Ht [Hb Hf0]]]]]] Hf. subst p.
  exists t, b, (f0 ++ f). refine (conj _ (conj Ht (conj Hb _))).
  - rewrite <- !app_assoc. reflexivity.
  - rewrite forallb_app, Hf0, Hf. reflexivity.
Qed.

Lemma shape_idem p : shape p -> split p = [p].
Proof.
  intros Hs. pose proof (shape_keep p Hs) as Hk.
  destruct Hs as [t [b [f [E [Ht [Hb Hf]]]]]].
  unfold split, sqlparse_split.
  assert (Hp : process p [] 0%Z false = [p]).
  { subst p. rewrite process_nosemi by (apply trivia_nosemi; exact Ht).
    rewrite process_nosemi by apply Hb.
    rewrite process_semi_close
      by (rewrite (trivia_level t Ht); destruct Hb as [_ [Hl _]]; lia).
    rewrite <- (app_nil_r f). rewrite process_fillers by exact Hf.
    simpl process. rewrite !app_nil_r.
    change (rev f ++ TSemi :: rev b ++ rev t) with (rev f ++ [TSemi] ++ rev b ++ rev t).
    rewrite (app_assoc (rev f)). rewrite (not_ws_of_body (rev f ++ [TSemi]) b (rev t) Hb).
    f_equal. rewrite !rev_app_distr. simpl. rewrite !rev_involutive.
    rewrite <- !app_assoc. reflexivity. }
  rewrite Hp. simpl. rewrite Hk. reflexivity.
Qed.

(* ------------------------------------------------------------------ *)
(** * The filtered, code-only view of an output *)

Definition out (l : list (list tok)) : list (list tok) := map code_of (filter keep_piece l).

Lemma out_app a b : out (a ++ b) = out a ++ out b.
Proof. unfold out. rewrite filter_app, map_app. reflexivity. Qed.

Lemma out_cons p l : out (p :: l) = out [p] ++ out l.
Proof. apply (out_app [p] l). Qed.

Lemma out_nokeep p : keep_piece p = false -> out [p] = [].
Proof. intro H. unfold out. simpl. rewrite H. reflexivity. Qed.

Lemma out_keep p : keep_piece p = true -> out [p] = [code_of p].
Proof. intro H. unfold out. simpl. rewrite H. reflexivity. Qed.

Lemma out_trivia_r p f : forallb is_trivia f = true -> out [p ++ f] = out [p].
Proof.
  intro H. unfold out. simpl. rewrite keep_trivia_r by exact H.
  destruct (keep_piece p); [|reflexivity]. simpl.
  rewrite code_of_app, (code_of_trivia f H), app_nil_r. reflexivity.
Qed.

Lemma process_nil_out cur level c : out (process [] cur level c) = out [rev cur].
Proof.
  simpl. destruct (forallb is_whitespace cur) eqn:E; [|reflexivity].
  rewrite out_nokeep; [reflexivity|]. apply keep_trivia. rewrite forallb_rev.
  apply ws_trivia. exact E.
Qed.

(* ------------------------------------------------------------------ *)
(** * State invariant at statement boundaries *)

Definition st_ok (cur : list tok) (level : Z) (consume : bool) : Prop :=
  if consume then keep_piece (rev cur) = true -> shape (rev cur)
  else level = 0%Z /\ forallb is_trivia cur = true.

Definition pieces_ok (pieces : list (list tok)) : Prop :=
  Forall (fun p => keep_piece p = true -> shape p) pieces.

Lemma st_ok_pending cur level c : st_ok cur level c -> keep_piece (rev cur) = true -> shape (rev cur).
Proof.
  destruct c; simpl; intros H K; [exact (H K)|].
  destruct H as [_ H]. rewrite keep_trivia in K; [discriminate|].
  rewrite forallb_rev. exact H.
Qed.

Lemma step_sep sep : forall cur level c,
  forallb is_sep_tok sep = true -> st_ok cur level c ->
  exists pieces cur' level' c',
    st_ok cur' level' c' /\
    (forall rest, process (sep ++ rest) cur level c = pieces ++ process rest cur' level' c') /\
    out pieces ++ out [rev cur'] = out [rev cur] /\
    pieces_ok pieces.
Proof.
  induction sep as [|t sep IH]; intros cur level c Hsep Hst.
  - exists [], cur, level, c.
    split; [|split; [|split]]; [assumption | intro; reflexivity | reflexivity | constructor].
  - simpl in Hsep. apply andb_true_iff in Hsep. destruct Hsep as [Ht Hsep].
    destruct c.
    + (* a statement is pending *)
      destruct (is_eos_filler t) eqn:Ef.
      * assert (Hst' : st_ok (t :: cur) level true).
        { simpl. intro K. rewrite keep_trivia_r in K
            by (simpl; rewrite (filler_trivia t Ef); reflexivity).
          apply shape_app_fillers; [exact (Hst K)|]. simpl. rewrite Ef. reflexivity. }
        destruct (IH (t :: cur) level true Hsep Hst')
          as [pieces [cur' [level' [c' [H1 [H2 [H3 H4]]]]]]].
        exists pieces, cur', level', c'. split; [|split; [|split]]; try assumption.
        -- intro rest. simpl app. rewrite process_filler_step by exact Ef. apply H2.
        -- rewrite H3. simpl rev. apply out_trivia_r. simpl.
           rewrite (filler_trivia t Ef). reflexivity.
      * assert (Hst' : st_ok [t] (level_change t) (is_semi t) /\ out [rev [t]] = []).
        { unfold is_sep_tok in Ht. destruct t; simpl in Ht; try discriminate;
            simpl; (split; [auto; intro K; discriminate | reflexivity]). }
        destruct Hst' as [Hst' Ho].
        destruct (IH [t] (level_change t) (is_semi t) Hsep Hst')
          as [pieces [cur' [level' [c' [H1 [H2 [H3 H4]]]]]]].
        exists (rev cur :: pieces), cur', level', c'. split; [|split; [|split]]; try assumption.
        -- intro rest. simpl app. rewrite process_emit_step by exact Ef.
           rewrite H2. reflexivity.
        -- rewrite out_cons, <- app_assoc, H3, Ho, app_nil_r. reflexivity.
        -- constructor; [exact Hst | exact H4].
    + (* between statements *)
      destruct Hst as [Hl Hcur]. subst level.
      assert (Hold : out [rev cur] = []).
      { apply out_nokeep, keep_trivia. rewrite forallb_rev. exact Hcur. }
      destruct (is_semi t) eqn:Es.
      * destruct t; simpl in Es; try discriminate.
        assert (Hk : keep_piece (rev (TSemi :: cur)) = false).
        { simpl. apply keep_trivia_semi. rewrite forallb_rev. exact Hcur. }
        assert (Hst' : st_ok (TSemi :: cur) 0%Z true).
        { simpl. intro K. simpl in Hk. rewrite Hk in K. discriminate. }
        destruct (IH (TSemi :: cur) 0%Z true Hsep Hst')
          as [pieces [cur' [level' [c' [H1 [H2 [H3 H4]]]]]]].
        exists pieces, cur', level', c'. split; [|split; [|split]]; try assumption.
        rewrite H3, Hold. apply out_nokeep. exact Hk.
      * assert (Htr : is_trivia t = true).
        { unfold is_sep_tok in Ht. rewrite Es, orb_false_r in Ht. exact Ht. }
        assert (Hst' : st_ok (t :: cur) 0%Z false).
        { simpl. split; [reflexivity|]. rewrite Htr, Hcur. reflexivity. }
        destruct (IH (t :: cur) 0%Z false Hsep Hst')
          as [pieces [cur' [level' [c' [H1 [H2 [H3 H4]]]]]]].
        exists pieces, cur', level', c'. split; [|split; [|split]]; try assumption.
        -- intro rest. rewrite <- H2.
           destruct t; simpl in Htr; try discriminate; reflexivity.
        -- rewrite H3, Hold. apply out_nokeep, keep_trivia. rewrite forallb_rev.
           simpl. rewrite Htr, Hcur. reflexivity.
Qed.

(** splitting a body at its first token that is not an end-of-statement filler *)
Lemma body_split b : existsb (fun t => negb (is_trivia t)) b = true ->
  exists fl t r, b = fl ++ t :: r /\ forallb is_eos_filler fl = true /\ is_eos_filler t = false.
Proof.
  induction b as [|x b IH]; simpl; intro H; [discriminate|].
  destruct (is_eos_filler x) eqn:Ef.
  - rewrite (filler_trivia x Ef) in H. simpl in H.
    destruct (IH H) as [fl [t [r [E [H1 H2]]]]].
    exists (x :: fl), t, r. subst b. simpl. rewrite Ef, H1. auto.
  - exists [], x, b. auto.
Qed.

Lemma body_enter b cur level c : stmt_ok b -> st_ok cur level c ->
  exists pieces t0 b',
    forallb is_trivia t0 = true /\ stmt_ok b' /\ code_of b' = code_of b /\
    out pieces = out [rev cur] /\ pieces_ok pieces /\
    forall tl, forallb (fun t => negb (is_semi t)) tl = true -> forall rest,
      process (b ++ tl ++ rest) cur level c =
      pieces ++ process rest (rev tl ++ rev b' ++ rev t0) (level_sum b' + level_sum tl)%Z false.
Proof.
  intros Hb Hst. destruct c.
  - destruct Hb as [Hns [Hlv Hex]].
    destruct (body_split b Hex) as [fl [t [r [E [Hfl Ht]]]]]. subst b.
    pose proof (fillers_trivia fl Hfl) as Hfltr.
    rewrite forallb_app in Hns. apply andb_true_iff in Hns. destruct Hns as [Hns1 Hns2].
    assert (Hts : is_semi t = false).
    { simpl in Hns2. apply andb_true_iff in Hns2. destruct Hns2 as [Hns2 _].
      destruct (is_semi t); [discriminate|reflexivity]. }
    exists [rev cur ++ fl], [], (t :: r).
    refine (conj _ (conj (conj _ (conj _ _)) (conj _ (conj _ (conj _ _))))).
    + reflexivity.
    + exact Hns2.
    + rewrite level_sum_app, (trivia_level fl Hfltr) in Hlv. exact Hlv.
    + rewrite existsb_app in Hex.
      replace (existsb (fun t => negb (is_trivia t)) fl) with false in Hex; [exact Hex|].
      symmetry. clear -Hfltr. induction fl as [|x fl IH]; simpl in *; [reflexivity|].
      apply andb_true_iff in Hfltr. destruct Hfltr as [H1 H2]. rewrite H1. simpl. auto.
    + rewrite code_of_app, (code_of_trivia fl Hfltr). reflexivity.
    + apply out_trivia_r. exact Hfltr.
    + constructor; [|constructor]. intro K. apply shape_app_fillers; [|exact Hfl].
      simpl in Hst. apply Hst. rewrite keep_trivia_r in K by exact Hfltr. exact K.
    + intros tl Htl rest. rewrite <- app_assoc. rewrite process_fillers by exact Hfl.
      simpl app. rewrite process_emit_step by exact Ht. rewrite Hts.
      rewrite rev_app_distr, rev_involutive. simpl app.
      f_equal. simpl in Hns2. apply andb_true_iff in Hns2. destruct Hns2 as [_ Hns2].
      rewrite process_nosemi by exact Hns2. rewrite process_nosemi by exact Htl.
      simpl rev. rewrite app_nil_r. reflexivity.
  - destruct Hst as [Hl Hcur]. subst level.
    exists [], (rev cur), b. refine (conj _ (conj Hb (conj eq_refl (conj _ (conj _ _))))).
    + rewrite forallb_rev. exact Hcur.
    + symmetry. apply out_nokeep, keep_trivia. rewrite forallb_rev. exact Hcur.
    + constructor.
    + intros tl Htl rest. rewrite process_nosemi by apply Hb.
      rewrite process_nosemi by exact Htl. rewrite rev_involutive. simpl.
      reflexivity.
Qed.

Lemma step_body b cur level c : stmt_ok b -> st_ok cur level c ->
  exists pieces cur' level',
    (forall rest, process (b ++ TSemi :: rest) cur level c = pieces ++ process rest cur' level' true) /\
    shape (rev cur') /\ code_of (rev cur') = code_of b /\
    out pieces = out [rev cur] /\ pieces_ok pieces.
Proof.
  intros Hb Hst.
  destruct (body_enter b cur level c Hb Hst)
    as [pieces [t0 [b' [Ht0 [Hb' [Hc [Ho [Hp Hrun]]]]]]]].
  exists pieces, (TSemi :: rev b' ++ rev t0), (level_sum b' + 0)%Z.
  refine (conj _ (conj _ (conj _ (conj Ho Hp)))).
  - intro rest. change (b ++ TSemi :: rest) with (b ++ [] ++ TSemi :: rest).
    rewrite (Hrun [] eq_refl (TSemi :: rest)). f_equal.
    change (rev [] ++ rev b' ++ rev t0) with (rev b' ++ rev t0).
    change (level_sum []) with 0%Z.
    apply process_semi_close. destruct Hb' as [_ [Hl _]]. lia.
  - exists t0, b', []. refine (conj _ (conj Ht0 (conj Hb' eq_refl))).
    simpl. rewrite rev_app_distr, !rev_involutive, <- app_assoc. reflexivity.
  - simpl. rewrite rev_app_distr, !rev_involutive, !code_of_app, (code_of_trivia t0 Ht0).
    rewrite <- Hc. simpl. apply app_nil_r.
Qed.

Lemma step_open b trail cur level c : stmt_ok b -> forallb is_trivia trail = true ->
  st_ok cur level c ->
  out (process (b ++ trail) cur level c) = out [rev cur] ++ [code_of b].
Proof.
  intros Hb Htr Hst.
  destruct (body_enter b cur level c Hb Hst)
    as [pieces [t0 [b' [Ht0 [Hb' [Hc [Ho [Hp Hrun]]]]]]]].
  rewrite <- (app_nil_r trail) at 1. rewrite (Hrun trail (trivia_nosemi trail Htr) []).
  rewrite out_app, Ho, process_nil_out. f_equal.
  rewrite !rev_app_distr, !rev_involutive, <- !app_assoc.
  rewrite out_keep by (apply keep_tb; assumption).
  rewrite !code_of_app, (code_of_trivia t0 Ht0), (code_of_trivia trail Htr), Hc, app_nil_r.
  reflexivity.
Qed.

Lemma process_items items : items_ok items -> forall cur level c, st_ok cur level c ->
  exists pieces cur' level' c',
    st_ok cur' level' c' /\
    (forall rest, process (assemble items ++ rest) cur level c = pieces ++ process rest cur' level' c') /\
    out pieces ++ out [rev cur'] = out [rev cur] ++ map (fun p => code_of (fst p)) items /\
    pieces_ok pieces.
Proof.
  intro Hok. induction Hok as [|[b sep] items [Hb Hsep] Hok IH]; intros cur level c Hst.
  - exists [], cur, level, c.
    split; [|split; [|split]]; [assumption | intro; reflexivity | | constructor].
    simpl. rewrite app_nil_r. reflexivity.
  - simpl in Hb, Hsep.
    destruct (step_body b cur level c Hb Hst)
      as [p1 [cur1 [level1 [R1 [S1 [C1 [O1 P1]]]]]]].
    assert (Hst1 : st_ok cur1 level1 true) by (simpl; intros _; exact S1).
    destruct (step_sep sep cur1 level1 true Hsep Hst1)
      as [p2 [cur2 [level2 [c2 [Hst2 [R2 [O2 P2]]]]]]].
    destruct (IH cur2 level2 c2 Hst2)
      as [p3 [cur3 [level3 [c3 [Hst3 [R3 [O3 P3]]]]]]].
    exists (p1 ++ p2 ++ p3), cur3, level3, c3. split; [|split; [|split]]; try assumption.
    + intro rest. simpl assemble. rewrite <- app_assoc. simpl app.
      rewrite R1. rewrite <- app_assoc. rewrite R2, R3. rewrite <- !app_assoc. reflexivity.
    + rewrite !out_app, <- !app_assoc, O3, O1. simpl map. simpl fst.
      rewrite (app_assoc (out p2)), O2. rewrite (out_keep _ (shape_keep _ S1)), C1.
      reflexivity.
    + unfold pieces_ok in *. rewrite !Forall_app. auto.
Qed.

Lemma lead_state lead rest : forallb is_trivia lead = true ->
  process (lead ++ rest) [] 0%Z false = process rest (rev lead) 0%Z false /\
  st_ok (rev lead) 0%Z false /\ out [rev (rev lead)] = [].
Proof.
  intro H. split; [|split; [split; [reflexivity|]|]].
  - rewrite process_nosemi by (apply trivia_nosemi; exact H).
    rewrite (trivia_level lead H), app_nil_r. reflexivity.
  - rewrite forallb_rev. exact H.
  - apply out_nokeep, keep_trivia. rewrite rev_involutive. exact H.
Qed.

(** the statements reported are exactly the non-empty statements, in order *)
Theorem split_assemble lead items :
  forallb is_trivia lead = true -> items_ok items ->
  map code_of (split (lead ++ assemble items)) = map (fun p => code_of (fst p)) items.
Proof.
  intros Hlead Hok.
  destruct (lead_state lead (assemble items) Hlead) as [E [Hst Ho]].
  destruct (process_items items Hok (rev lead) 0%Z false Hst)
    as [pieces [cur' [level' [c' [Hst' [R [O P]]]]]]].
  unfold split, sqlparse_split. rewrite E.
  rewrite <- (app_nil_r (assemble items)). rewrite R.
  change (out (pieces ++ process [] cur' level' c') = map (fun p => code_of (fst p)) items).
  rewrite out_app, process_nil_out, O, Ho. reflexivity.
Qed.

(** ... also when the last statement has no closing semicolon *)
Theorem split_assemble_open lead items last_body trail :
  forallb is_trivia lead = true -> items_ok items -> stmt_ok last_body ->
  forallb is_trivia trail = true ->
  map code_of (split (lead ++ assemble items ++ last_body ++ trail)) =
  map (fun p => code_of (fst p)) items ++ [code_of last_body].
Proof.
  intros Hlead Hok Hb Htr.
  destruct (lead_state lead (assemble items ++ last_body ++ trail) Hlead) as [E [Hst Ho]].
  destruct (process_items items Hok (rev lead) 0%Z false Hst)
    as [pieces [cur' [level' [c' [Hst' [R [O P]]]]]]].
  unfold split, sqlparse_split. rewrite E, R.
  change (out (pieces ++ process (last_body ++ trail) cur' level' c') =
          map (fun p => code_of (fst p)) items ++ [code_of last_body]).
  rewrite out_app, (step_open last_body trail cur' level' c' Hb Htr Hst').
  rewrite app_assoc, O, Ho. reflexivity.
Qed.

(** every piece, analysed on its own, is one statement: splitting is idempotent *)
Theorem split_idem_assembled lead items p :
  forallb is_trivia lead = true -> items_ok items ->
  In p (split (lead ++ assemble items)) -> split p = [p].
Proof.
  intros Hlead Hok Hin.
  destruct (lead_state lead (assemble items) Hlead) as [E [Hst Ho]].
  destruct (process_items items Hok (rev lead) 0%Z false Hst)
    as [pieces [cur' [level' [c' [Hst' [R [O P]]]]]]].
  unfold split, sqlparse_split in Hin. rewrite E in Hin.
  rewrite <- (app_nil_r (assemble items)) in Hin. rewrite R in Hin.
  apply filter_In in Hin. destruct Hin as [Hin Hk].
  apply shape_idem. apply in_app_or in Hin. destruct Hin as [Hin|Hin].
  - unfold pieces_ok in P. rewrite Forall_forall in P. exact (P p Hin Hk).
  - simpl in Hin. destruct (forallb is_whitespace cur'); simpl in Hin; [contradiction|].
    destruct Hin as [Hin|[]]. subst p. exact (st_ok_pending cur' level' c' Hst' Hk).
Qed.


Lemma process_concat ts : forall cur level c,
  exists pre trail, rev cur ++ ts = pre ++ trail /\
    List.concat (process ts cur level c) = pre /\ forallb is_whitespace trail = true.
Proof.
  induction ts as [|t r IH]; intros cur level c.
  - simpl process. destruct (forallb is_whitespace cur) eqn:E.
    + exists [], (rev cur). split; [|split].
      * rewrite app_nil_r. reflexivity.
      * reflexivity.
      * rewrite forallb_rev. exact E.
    + exists (rev cur), []. split; [|split]; [reflexivity| |reflexivity].
      simpl. rewrite app_nil_r. reflexivity.
  - simpl process. destruct (c && negb (is_eos_filler t)).
    + match goal with |- context [process r [t] ?l ?c'] =>
        destruct (IH [t] l c') as [pre [trail [H1 [H2 H3]]]] end.
      exists (rev cur ++ pre), trail. split; [|split].
      * simpl in H1. rewrite <- app_assoc, <- H1. reflexivity.
      * simpl. rewrite H2. reflexivity.
      * exact H3.
    + match goal with |- context [process r (t :: cur) ?l ?c'] =>
        destruct (IH (t :: cur) l c') as [pre [trail [H1 [H2 H3]]]] end.
      exists pre, trail. split; [|split]; try assumption.
      simpl in H1. rewrite <- app_assoc in H1. exact H1.
Qed.

(** nothing is lost or invented: the pieces concatenate back to the script (before filtering) *)
Theorem sqlparse_split_concat ts :
  List.concat (sqlparse_split ts) = ts \/ (forallb is_whitespace ts = true /\ sqlparse_split ts = []) \/
  exists pre trail, ts = pre ++ trail /\ List.concat (sqlparse_split ts) = pre /\ forallb is_whitespace trail = true.
Proof.
  right. right. unfold sqlparse_split.
  destruct (process_concat ts [] 0%Z false) as [pre [trail [H1 [H2 H3]]]].
  exists pre, trail. auto.
Qed.
