(** L0/L1: entity values as graph nodes (sqllineage/core/models.py) and the subset
    of networkx.DiGraph the library uses, as insertion-ordered lists keyed by
    *Python equality* of the nodes (the first representative is kept). *)
From SV Require Export Ident.Escape Tree.Seg.

(** * Entities *)
Inductive dkind := KTable | KPath | KSubq.
Scheme Equality for dkind.

(** [deq] is what Python equality compares (str(table), uri, raw query text);
    [dstr] is what str() prints (for a SubQuery: its alias); [dschema] the schema
    of a Table ("" otherwise). *)
Record dataset := {
  dk : dkind; deq : string; dstr : string; dschema : string;
  draw : string;            (* Table.raw_name *)
  dalias : string;          (* Table.alias / SubQuery.alias *)
  dquery : option seg       (* SubQuery.query (the segment), never compared *)
}.

Definition dataset_eqb (a b : dataset) : bool := dkind_beq (dk a) (dk b) && String.eqb (deq a) (deq b).

(** Column: printed name and the set of parents (a list without duplicates up to
    dataset_eqb, sorted by str as [parent_candidates] returns them). *)
Record column := { craw : string; cparents : list dataset }.

Definition col_parent (c : column) : option dataset :=
  match cparents c with [d] => Some d | _ => None end.

Definition col_str (c : column) : string :=
  match col_parent c with
  | Some d => match dk d with KPath => craw c | _ => dstr d ++ "." ++ craw c end
  | None => craw c
  end.

Definition opt_dataset_eqb (a b : option dataset) : bool :=
  match a, b with
  | Some x, Some y => dataset_eqb x y
  | None, None => true
  | _, _ => false
  end.

Definition col_eqb (a b : column) : bool :=
  String.eqb (col_str a) (col_str b) && opt_dataset_eqb (col_parent a) (col_parent b).

Inductive node := NData (d : dataset) | NCol (c : column) | NStr (s : string).

Definition node_eqb (a b : node) : bool :=
  match a, b with
  | NData x, NData y => dataset_eqb x y
  | NCol x, NCol y => col_eqb x y
  | NStr x, NStr y => String.eqb x y
  | _, _ => false
  end.

Definition node_str (n : node) : string :=
  match n with NData d => dstr d | NCol c => col_str c | NStr s => s end.

Definition is_dataset (n : node) : bool :=
  match n with NData d => match dk d with KSubq => false | _ => true end | _ => false end.
Definition is_table (n : node) : bool :=
  match n with NData d => match dk d with KTable => true | _ => false end | _ => false end.
Definition is_column (n : node) : bool := match n with NCol _ => true | _ => false end.

(** * Graph *)
Definition nattrs := list (string * bool).             (* tag -> True/False *)
Record eattrs := { etype : string; eindex : option nat }.
Record graph := { gnodes : list (node * nattrs); gedges : list (node * node * eattrs) }.

Definition empty_graph : graph := {| gnodes := []; gedges := [] |}.

Fixpoint attr_get (k : string) (a : nattrs) : option bool :=
  match a with [] => None | (k', v) :: r => if String.eqb k k' then Some v else attr_get k r end.
Fixpoint attr_set (k : string) (v : bool) (a : nattrs) : nattrs :=
  match a with
  | [] => [(k, v)]
  | (k', v') :: r => if String.eqb k k' then (k, v) :: r else (k', v') :: attr_set k v r
  end.
(** dict.update(b) on a *)
Fixpoint attr_update (a b : nattrs) : nattrs :=
  match b with [] => a | (k, v) :: r => attr_update (attr_set k v a) r end.
Definition attr_true (k : string) (a : nattrs) : bool :=
  match attr_get k a with Some true => true | _ => false end.

Definition eattr_update (a b : eattrs) : eattrs :=
  {| etype := etype b; eindex := match eindex b with Some i => Some i | None => eindex a end |}.

Fixpoint has_node_l (n : node) (l : list (node * nattrs)) : bool :=
  match l with [] => false | (m, _) :: r => node_eqb n m || has_node_l n r end.
Definition has_node (g : graph) (n : node) : bool := has_node_l n (gnodes g).

Fixpoint node_attrs_l (n : node) (l : list (node * nattrs)) : nattrs :=
  match l with [] => [] | (m, a) :: r => if node_eqb n m then a else node_attrs_l n r end.
Definition node_attrs (g : graph) (n : node) : nattrs := node_attrs_l n (gnodes g).

Fixpoint upsert_node (n : node) (a : nattrs) (l : list (node * nattrs)) : list (node * nattrs) :=
  match l with
  | [] => [(n, a)]
  | (m, b) :: r => if node_eqb n m then (m, attr_update b a) :: r else (m, b) :: upsert_node n a r
  end.

Definition add_node (g : graph) (n : node) (a : nattrs) : graph :=
  {| gnodes := upsert_node n a (gnodes g); gedges := gedges g |}.

Definition edge_is (u v : node) (e : node * node * eattrs) : bool :=
  node_eqb u (fst (fst e)) && node_eqb v (snd (fst e)).

Fixpoint has_edge_l (u v : node) (l : list (node * node * eattrs)) : bool :=
  match l with [] => false | e :: r => edge_is u v e || has_edge_l u v r end.
Definition has_edge (g : graph) (u v : node) : bool := has_edge_l u v (gedges g).

Fixpoint upsert_edge (u v : node) (a : eattrs) (l : list (node * node * eattrs)) :=
  match l with
  | [] => [(u, v, a)]
  | e :: r => if edge_is u v e then (fst e, eattr_update (snd e) a) :: r else e :: upsert_edge u v a r
  end.

(** the node object stored for a key is the first one inserted *)
Fixpoint canon_l (n : node) (l : list (node * nattrs)) : node :=
  match l with [] => n | (m, _) :: r => if node_eqb n m then m else canon_l n r end.

Definition add_edge (g : graph) (u v : node) (a : eattrs) : graph :=
  let g1 := add_node (add_node g u []) v [] in
  {| gnodes := gnodes g1;
     gedges := upsert_edge (canon_l u (gnodes g1)) (canon_l v (gnodes g1)) a (gedges g1) |}.

Definition remove_node (g : graph) (n : node) : graph :=
  {| gnodes := filter (fun p => negb (node_eqb n (fst p))) (gnodes g);
     gedges := filter (fun e => negb (node_eqb n (fst (fst e))) && negb (node_eqb n (snd (fst e)))) (gedges g) |}.

Definition remove_edge (g : graph) (u v : node) : option graph :=
  if has_edge g u v
  then Some {| gnodes := gnodes g; gedges := filter (fun e => negb (edge_is u v e)) (gedges g) |}
  else None.

Definition out_edges (g : graph) (n : node) := filter (fun e => node_eqb n (fst (fst e))) (gedges g).
Definition in_edges (g : graph) (n : node) := filter (fun e => node_eqb n (snd (fst e))) (gedges g).
Definition degree (g : graph) (n : node) : nat := List.length (out_edges g n) + List.length (in_edges g n).

Definition set_attr (g : graph) (ns : list node) (k : string) (v : bool) : graph :=
  {| gnodes := map (fun p => if existsb (node_eqb (fst p)) ns then (fst p, attr_set k v (snd p)) else p) (gnodes g);
     gedges := gedges g |}.

(** nx.compose(G, H) *)
Definition compose (g h : graph) : graph :=
  let ns := fold_left (fun l p => upsert_node (fst p) (snd p) l) (gnodes h) (gnodes g) in
  {| gnodes := ns;
     gedges := fold_left (fun l e => upsert_edge (canon_l (fst (fst e)) ns) (canon_l (snd (fst e)) ns) (snd e) l)
                         (gedges h) (gedges g) |}.

(** nx.relabel_nodes(G, {old: new}, copy=True) *)
Definition rename_node (old new n : node) : node := if node_eqb n old then new else n.

Fixpoint merge_nodes (l acc : list (node * nattrs)) : list (node * nattrs) :=
  (* positions from first occurrence; attribute dict replaced wholesale by later occurrences *)
  match l with
  | [] => acc
  | (n, a) :: r =>
      merge_nodes r (if has_node_l n acc
                     then map (fun p => if node_eqb n (fst p) then (fst p, a) else p) acc
                     else acc ++ [(n, a)])
  end.

Definition relabel (g : graph) (old new : node) : graph :=
  if negb (has_node g old) then g
  else
    let ns := merge_nodes (map (fun p => (rename_node old new (fst p), snd p)) (gnodes g)) [] in
    {| gnodes := ns;
       gedges := fold_left (fun l e => upsert_edge (canon_l (rename_node old new (fst (fst e))) ns)
                                                  (canon_l (rename_node old new (snd (fst e))) ns) (snd e) l)
                           (gedges g) [] |}.

Definition subgraph (g : graph) (keep : node -> bool) : graph :=
  {| gnodes := filter (fun p => keep (fst p)) (gnodes g);
     gedges := filter (fun e => keep (fst (fst e)) && keep (snd (fst e))) (gedges g) |}.

(** successors in adjacency order *)
Definition successors (g : graph) (n : node) : list node := map (fun e => snd (fst e)) (out_edges g n).
