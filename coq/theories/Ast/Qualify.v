(** Explicit qualification: every unqualified table name that is not a CTE reference gets the schema [ds].
    Table-level theorem of C14 on the specification: analysing with default schema [ds] is analysing the
    explicitly qualified statement without a default. *)
From SV Require Export Ast.Spec.

Definition qual_tref (ds : string) (ctes : list string) (t : tref) : tref :=
  match fst t with
  | Some _ => t
  | None => if mem_string (snd t) ctes then t else (Some ds, snd t)
  end.

Fixpoint qual_rel (fq : query -> query) (ds : string) (ctes : list string) (r : rel) : rel :=
  match r with
  | RTable tr al => RTable (qual_tref ds ctes tr) al
  | RDerived q' al => RDerived (fq q') al
  | RGroup a b => RGroup (qual_rel fq ds ctes a) (qual_rel fq ds ctes b)
  end.

Fixpoint qual_q (fuel : nat) (ds : string) (ctes : list string) (q : query) : query :=
  match fuel with
  | O => q
  | S k =>
      match q with
      | QSelect items from cj wh =>
          QSelect items (map (qual_rel (qual_q k ds ctes) ds ctes) from) cj
                  (match wh with Some (c, sq) => Some (c, qual_q k ds ctes sq) | None => None end)
      | QUnion a b => QUnion (qual_q k ds ctes a) (qual_q k ds ctes b)
      | QWith n c b => QWith n (qual_q k ds ctes c) (qual_q k ds (n :: ctes) b)
      end
  end.

Definition qual_stmt (ds : string) (s : stmt) : stmt :=
  let qt (t : tref) := match fst t with Some _ => t | None => (Some ds, snd t) end in
  match s with
  | SInsert t cols q => SInsert (qt t) cols (qual_q (S (q_size q)) ds [] q)
  | SCtas t q => SCtas (qt t) (qual_q (S (q_size q)) ds [] q)
  | SView t q => SView (qt t) (qual_q (S (q_size q)) ds [] q)
  | SQuery q => SQuery (qual_q (S (q_size q)) ds [] q)
  | SNoData k => SNoData k
  end.

Lemma rels_flat_qual fq ds ctes r :
  rels_flat (qual_rel fq ds ctes r) = map (qual_rel fq ds ctes) (rels_flat r).
Proof.
  induction r as [t al | q al | a IHa b IHb]; cbn [qual_rel rels_flat map]; try reflexivity.
  rewrite IHa, IHb, map_app. reflexivity.
Qed.

Lemma flat_rels_qual fq ds ctes from :
  flat_map rels_flat (map (qual_rel fq ds ctes) from) = map (qual_rel fq ds ctes) (flat_map rels_flat from).
Proof.
  induction from as [|r t IH]; [reflexivity|].
  cbn [map flat_map]. rewrite rels_flat_qual, IH, map_app. reflexivity.
Qed.

Lemma flat_map_map' {A B C} (g : A -> B) (f : B -> list C) l : flat_map f (map g l) = flat_map (fun x => f (g x)) l.
Proof. induction l as [|x t IH]; cbn [map flat_map]; [reflexivity | rewrite IH; reflexivity]. Qed.

Lemma flat_map_ext' {A B} (f g : A -> list B) l : (forall x, f x = g x) -> flat_map f l = flat_map g l.
Proof. intros H. induction l as [|x t IH]; cbn [flat_map]; [reflexivity | rewrite H, IH; reflexivity]. Qed.

Lemma tref_str_default ds n : ds <> "" -> tref_str ds (None, n) = tref_str "" (Some ds, n).
Proof. intros H. unfold tref_str. cbn [fst snd]. destruct (String.eqb ds "") eqn:E; [apply String.eqb_eq in E; contradiction | reflexivity]. Qed.

Lemma tref_str_some ds ds' s n : tref_str ds (Some s, n) = tref_str ds' (Some s, n).
Proof. reflexivity. Qed.

(** the fuel needed by the qualified query is the same *)
Lemma rel_size_qual fq ds ctes r : (forall q, q_size (fq q) = q_size q) -> rel_size (qual_rel fq ds ctes r) = rel_size r.
Proof.
  intros H. induction r as [t al | q al | a IHa b IHb]; cbn [qual_rel rel_size]; try reflexivity.
  - rewrite H. reflexivity.
  - rewrite IHa, IHb. reflexivity.
Qed.

Lemma q_size_qual : forall k ds ctes q, q_size (qual_q k ds ctes q) = q_size q.
Proof.
  induction k as [|k IH]; intros ds ctes q; [reflexivity|].
  destruct q as [items from cj wh | a b | n c b]; cbn [qual_q q_size].
  - f_equal. f_equal.
    + induction from as [|r t IHt]; [reflexivity|]. cbn [map]. rewrite rel_size_qual, IHt; [reflexivity|]. intros q. apply IH.
    + destruct wh as [[c sq]|]; [apply IH | reflexivity].
  - rewrite !IH. reflexivity.
  - rewrite !IH. reflexivity.
Qed.

(** reading the qualified query without a default = reading the query with the default; the fuel of the
    qualification and of the reader are independent as long as both suffice *)
Lemma q_reads_qual : forall k ds ctes q, ds <> "" ->
  q_reads k "" ctes (qual_q k ds ctes q) = q_reads k ds ctes q.
Proof.
  induction k as [|k IH]; intros ds ctes q Hds; [reflexivity|].
  destruct q as [items from cj wh | a b | n c b]; cbn [qual_q q_reads].
  - f_equal.
    + rewrite flat_rels_qual, flat_map_map'. apply flat_map_ext'. intros r.
      destruct r as [t al | q' al | x y]; cbn [qual_rel]; [|apply IH; exact Hds|reflexivity].
      destruct t as [[s|] n]; unfold qual_tref; cbn [fst snd]; [reflexivity|].
      destruct (mem_string n ctes) eqn:E; cbn [fst snd]; [rewrite E; reflexivity|].
      rewrite (tref_str_default ds n Hds). reflexivity.
    + destruct wh as [[c sq]|]; [apply IH; exact Hds | reflexivity].
  - rewrite !IH by exact Hds. reflexivity.
  - rewrite !IH by exact Hds. reflexivity.
Qed.

Theorem spec_default_is_qualification : forall ds s, ds <> "" ->
  spec_reads "" (qual_stmt ds s) = spec_reads ds s /\ spec_writes "" (qual_stmt ds s) = spec_writes ds s.
Proof.
  intros ds s Hds.
  assert (Hw : forall t : tref, tref_str "" (match fst t with Some _ => t | None => (Some ds, snd t) end) = tref_str ds t).
  { intros [[sc|] n]; cbn [fst snd]; [reflexivity | symmetry; apply tref_str_default; exact Hds]. }
  destruct s as [t cols q | t q | t q | q | k]; cbn [qual_stmt spec_reads spec_writes];
    try rewrite q_size_qual; try rewrite (q_reads_qual _ ds [] q Hds); try rewrite Hw; split; reflexivity.
Qed.

Example qualification_example :
  qual_stmt "dw" (SInsert (None, "o") None
     (QWith "c" (QSelect [IStar None] [RTable (None, "a") None; RTable (Some "x", "b") (Some "p")] false None)
                (QSelect [IStar None] [RTable (None, "c") None; RGroup (RTable (None, "d") None) (RTable (None, "c") (Some "z"))] false None)))
  = SInsert (Some "dw", "o") None
     (QWith "c" (QSelect [IStar None] [RTable (Some "dw", "a") None; RTable (Some "x", "b") (Some "p")] false None)
                (QSelect [IStar None] [RTable (None, "c") None; RGroup (RTable (Some "dw", "d") None) (RTable (None, "c") (Some "z"))] false None)).
Proof. reflexivity. Qed.
