(** Renaming of statement-local names (table aliases, derived-table aliases, CTE names) in the core
    abstract syntax, and the statement of alpha-equivalence for the specification (C08). *)
From SV Require Export Ast.Spec.

Section Rename.
  Variable rho : string -> string.
  Variable locals : list string.       (* the local names of the statement *)

  Definition rn (n : string) : string := if mem_string n locals then rho n else n.
  Definition rn_opt (o : option string) : option string := option_map rn o.

  Fixpoint rename_expr (e : expr) : expr :=
    match e with
    | EColRef q c => EColRef (rn_opt q) c
    | ELit => ELit
    | EFun a b => EFun (rename_expr a) (rename_expr b)
    | EBin a b => EBin (rename_expr a) (rename_expr b)
    | ECase c t f => ECase (rename_expr c) (rename_expr t) (rename_expr f)
    | ECast a => ECast (rename_expr a)
    | EWin a p o => EWin (rename_expr a) (rename_expr p) (rename_expr o)
    end.

  Definition rename_item (i : item) : item :=
    match i with
    | IExpr e a => IExpr (rename_expr e) a        (* column aliases are not statement-local table names *)
    | IStar q => IStar (rn_opt q)
    end.

  (** [ctes]: CTE names in scope (already in their original spelling) *)
  Fixpoint rename_query (ctes : list string) (q : query) : query :=
    match q with
    | QSelect items from comma wh =>
        QSelect (map rename_item items)
                ((fix rs (l : list rel) : list rel :=
                    match l with [] => [] | r :: t => rename_rel ctes r :: rs t end) from)
                comma
                (match wh with Some (c, sq) => Some (c, rename_query ctes sq) | None => None end)
    | QUnion a b => QUnion (rename_query ctes a) (rename_query ctes b)
    | QWith n c b => QWith (rn n) (rename_query ctes c) (rename_query (n :: ctes) b)
    end
  with rename_rel (ctes : list string) (r : rel) : rel :=
    match r with
    | RTable (None, n) al => RTable (None, if mem_string n ctes then rn n else n) (rn_opt al)
    | RTable (Some s, n) al => RTable (Some s, n) (rn_opt al)
    | RDerived q al => RDerived (rename_query ctes q) (rn al)
    | RGroup a b => RGroup (rename_rel ctes a) (rename_rel ctes b)
    end.

  Definition rename_stmt (s : stmt) : stmt :=
    match s with
    | SInsert t cols q => SInsert t cols (rename_query [] q)
    | SCtas t q => SCtas t (rename_query [] q)
    | SView t q => SView t (rename_query [] q)
    | SQuery q => SQuery (rename_query [] q)
    | SNoData k => SNoData k
    end.
End Rename.

(** names occurring in a statement *)
Fixpoint rel_locals (r : rel) : list string :=
  match r with
  | RTable _ al => match al with Some a => [a] | None => [] end
  | RDerived q al => al :: query_locals q
  | RGroup a b => rel_locals a ++ rel_locals b
  end
with query_locals (q : query) : list string :=
  match q with
  | QSelect _ from _ wh =>
      (fix rs (l : list rel) : list string := match l with [] => [] | r :: t => rel_locals r ++ rs t end) from
      ++ match wh with Some (_, sq) => query_locals sq | None => [] end
  | QUnion a b => query_locals a ++ query_locals b
  | QWith n c b => n :: query_locals c ++ query_locals b
  end.

(** names of base tables and schemas (a reference to a CTE in scope is not a table) *)
Fixpoint rel_tables (ctes : list string) (r : rel) : list string :=
  match r with
  | RTable (None, n) _ => if mem_string n ctes then [] else [n]
  | RTable (Some x, n) _ => [n; x]
  | RDerived q _ => query_tables ctes q
  | RGroup a b => rel_tables ctes a ++ rel_tables ctes b
  end
with query_tables (ctes : list string) (q : query) : list string :=
  match q with
  | QSelect _ from _ wh =>
      (fix rs (l : list rel) : list string := match l with [] => [] | r :: t => rel_tables ctes r ++ rs t end) from
      ++ match wh with Some (_, sq) => query_tables ctes sq | None => [] end
  | QUnion a b => query_tables ctes a ++ query_tables ctes b
  | QWith n c b => query_tables ctes c ++ query_tables (n :: ctes) b
  end.

Definition stmt_locals (s : stmt) : list string :=
  match stmt_query s with Some q => query_locals q | None => [] end.
Definition stmt_tables (s : stmt) : list string :=
  match stmt_query s with Some q => query_tables [] q | None => [] end.

(** a renaming is admissible for a statement: injective on its local names, and the new names clash
    neither with each other, nor with an old local name, nor with a table or schema name of the statement;
    local names are not table names to begin with *)
Definition admissible (rho : string -> string) (s : stmt) : Prop :=
  let L := stmt_locals s in
  let T := stmt_tables s in
  (forall a b, In a L -> In b L -> rho a = rho b -> a = b) /\
  (forall a, In a L -> ~ In (rho a) T) /\
  (forall a, In a L -> ~ In a T) /\
  (forall a b, In a L -> In b L -> rho a = b -> a = b).

(** the statement of alpha-equivalence for the specification *)
Definition spec_alpha_statement : Prop :=
  forall rho ds s, admissible rho s ->
    show_spec ds (rename_stmt rho (stmt_locals s) s) = show_spec ds s.

(** table-level part of the statement *)
Definition spec_alpha_tables_statement : Prop :=
  forall rho ds s, admissible rho s ->
    show_tables ds (rename_stmt rho (stmt_locals s) s) = show_tables ds s.
