(** L3 with a catalog: the column-level specification of Ast/Spec.v when table metadata is supplied (property C13).

    [md] maps printed table names ([tref_str ds t], e.g. "main.t", "<default>.t") to their column names; a table
    is KNOWN when it has an entry with a non-empty column list (first entry wins).  Relative to Ast/Spec.v:
    (a) a star over a known base table contributes exactly the catalog columns, each depending on that column of the table
        ([item_cols_md]);
    (b) an unqualified reference over several base tables is attributed to exactly those in-scope tables whose catalog
        entry lists the column (unknown tables are then dropped); only if no table lists it does it stay unresolved, with
        all tables of the scope as printed candidates, as without metadata ([resolve_md]);
    (c) an INSERT without column list into a known target names the output positions by the catalog ([spec_flows_md]);
    (d) with an empty catalog everything is as in Ast/Spec.v ([spec_md_nil]); the same holds when the catalog knows none
        of the tables of the statement (Tree/LemmaBMeta.v, [spec_md_unknown]).
    Qualified references, and unqualified references over a single relation, do not consult the catalog. *)
From SV Require Export Ast.Spec.

Definition catalog := list (string * list string).

Definition known (md : catalog) (t : string) : option (list string) :=
  match assoc_s t md with Some (c :: cs) => Some (c :: cs) | _ => None end.

Definition is_known (md : catalog) (t : string) : bool := match known md t with Some _ => true | None => false end.

(** the tables of the scope whose catalog entry lists the unqualified column [c] *)
Definition rel_lister (md : catalog) (c : string) (b : binding) : list string :=
  match b_rel b with
  | RelBase t => match known md t with
                 | Some cols => if mem_string c cols then [t] else []
                 | None => []
                 end
  | RelCols _ => []
  end.

Definition base_b (b : binding) : bool := match b_rel b with RelBase _ => true | RelCols _ => false end.
Definition is_nil {A} (l : list A) : bool := match l with [] => true | _ => false end.

Definition resolve_md (md : catalog) (scope : list binding) (r : option string * string) : list src :=
  match fst r with
  | Some q => match find_binding q scope with Some b => rel_col (b_rel b) (snd r) | None => [] end
  | None =>
      match scope with
      | [b] => rel_col (b_rel b) (snd r)
      | _ =>
          let listers := dedup_s (flat_map (rel_lister md (snd r)) scope) [] in
          if forallb base_b scope && negb (is_nil listers)
          then (* attributed to exactly the tables that list the column *)
               map (fun t => SCol t (snd r)) listers
          else (* nobody lists it: as without metadata *)
               let cands := dedup_s (flat_map (fun b => match b_rel b with RelBase t => [t] | RelCols _ => [] end) scope) [] in
               match cands with
               | [t] => if forallb base_b scope then [SCol t (snd r)] else [SUnres (snd r) cands]
               | _ => [SUnres (snd r) cands]
               end
      end
  end.

Definition item_cols_md (md : catalog) (scope : list binding) (i : item) : list colspec :=
  match i with
  | IExpr e alias =>
      let name := match alias with
                  | Some a => a
                  | None => match e with EColRef _ c => c | _ => "<expr>" end
                  end in
      [(name, dedup_src (flat_map (resolve_md md scope) (col_refs e)) [])]
  | IStar q =>
      let bs := match q with
                | Some qq => match find_binding qq scope with Some b => [b] | None => [] end
                | None => scope
                end in
      flat_map (fun b => match b_rel b with
                         | RelBase t => match known md t with
                                        | Some cols => map (fun c => (c, [SCol t c])) cols
                                        | None => [("*", [SStar t])]
                                        end
                         | RelCols cols => cols
                         end) bs
  end.

Fixpoint q_cols_md (fuel : nat) (ds : string) (md : catalog) (ctes : list (string * list colspec)) (q : query) : list colspec :=
  match fuel with
  | O => []
  | S k =>
      match q with
      | QSelect items from _ _ =>
          let scope :=
            map (fun r => match r with
                          | RTable t alias =>
                              match fst t, assoc_s (snd t) ctes with
                              | None, Some cols =>
                                  {| b_alias := alias; b_names := match alias with Some _ => [] | None => [snd t] end;
                                     b_rel := RelCols cols |}
                              | _, _ =>
                                  {| b_alias := alias;
                                     b_names := match alias with Some _ => [] | None => [snd t; tref_str ds t] end;
                                     b_rel := RelBase (tref_str ds t) |}
                              end
                          | RDerived q' alias =>
                              {| b_alias := Some alias; b_names := []; b_rel := RelCols (q_cols_md k ds md ctes q') |}
                          | RGroup _ _ => {| b_alias := None; b_names := []; b_rel := RelCols [] |}
                          end) (flat_map rels_flat from) in
          flat_map (item_cols_md md scope) items
      | QUnion a b => zip_union (q_cols_md k ds md ctes a) (q_cols_md k ds md ctes b)
      | QWith n c b => q_cols_md k ds md ((n, q_cols_md k ds md ctes c) :: ctes) b
      end
  end.

Definition spec_flows_md (ds : string) (md : catalog) (s : stmt) : list (src * string) :=
  match s with
  | SInsert t cols q =>
      let qc := q_cols_md (S (q_size q)) ds md [] q in
      let names := match cols with
                   | Some cs => if Nat.eqb (List.length cs) (List.length qc) then cs else map fst qc
                   | None => match known md (tref_str ds t) with
                             | Some tc => if Nat.eqb (List.length tc) (List.length qc) then tc else map fst qc
                             | None => map fst qc
                             end
                   end in
      flat_map (fun p => map (fun sr => (sr, (tref_str ds t ++ "." ++ fst p)%string)) (snd (snd p))) (combine names qc)
  | SCtas t q | SView t q =>
      let qc := q_cols_md (S (q_size q)) ds md [] q in
      flat_map (fun c => map (fun sr => (sr, (tref_str ds t ++ "." ++ fst c)%string)) (snd c)) qc
  | SQuery _ | SNoData _ => []
  end.

Definition spec_pairs_md (ds : string) (md : catalog) (s : stmt) : list string :=
  uniq_sorted (sort_strings (map (fun p => (show_src (fst p) ++ ">" ++ snd p)%string) (spec_flows_md ds md s))).

(** * With an empty catalog the specification is that of Ast/Spec.v *)
Lemma known_nil t : known [] t = None.
Proof. reflexivity. Qed.

Lemma resolve_md_nil scope r : resolve_md [] scope r = resolve scope r.
Proof.
  unfold resolve_md, resolve. destruct (fst r) as [q|]; [reflexivity|].
  destruct scope as [|b [|b' rest]]; [reflexivity|reflexivity|].
  assert (El : flat_map (rel_lister [] (snd r)) (b :: b' :: rest) = []).
  { induction (b :: b' :: rest) as [|x l IH]; [reflexivity|]. cbn [flat_map]. rewrite IH. unfold rel_lister. destruct (b_rel x); reflexivity. }
  rewrite El. cbn [dedup_s is_nil negb]. rewrite andb_false_r. reflexivity.
Qed.

Lemma item_cols_md_nil scope i : item_cols_md [] scope i = item_cols scope i.
Proof.
  destruct i as [e al|q]; cbn [item_cols_md item_cols].
  - f_equal. f_equal. f_equal. apply flat_map_ext. intros r. apply resolve_md_nil.
  - apply flat_map_ext. intros b. destruct (b_rel b); reflexivity.
Qed.

Lemma q_cols_md_nil fuel : forall ds ctes q, q_cols_md fuel ds [] ctes q = q_cols fuel ds ctes q.
Proof.
  induction fuel as [|k IH]; intros ds ctes q; [reflexivity|]. destruct q as [items from cj wh|a b|n c b]; cbn [q_cols_md q_cols].
  - match goal with |- flat_map (item_cols_md [] ?S1) items = flat_map (item_cols ?S2) items => assert (E : S1 = S2) end.
    { apply map_ext. intros r. destruct r as [t al|q' al|x y]; [reflexivity| |reflexivity]. rewrite IH. reflexivity. }
    rewrite E. apply flat_map_ext. intros i. apply item_cols_md_nil.
  - rewrite !IH. reflexivity.
  - rewrite !IH. reflexivity.
Qed.

Theorem spec_md_nil ds s : spec_flows_md ds [] s = spec_flows ds s.
Proof.
  destruct s as [t cols q|t q|t q|q|k]; cbn [spec_flows_md spec_flows]; rewrite ?q_cols_md_nil, ?known_nil; reflexivity.
Qed.

Corollary spec_pairs_md_nil ds s : spec_pairs_md ds [] s = uniq_sorted (sort_strings (map (fun p => (show_src (fst p) ++ ">" ++ snd p)%string) (spec_flows ds s))).
Proof. unfold spec_pairs_md. rewrite spec_md_nil. reflexivity. Qed.

Print Assumptions spec_md_nil.
