(** L3: a core-SQL abstract syntax and the denotational lineage specification the
    properties C01 / C02 state: which base tables a statement reads and writes, and which
    base-table columns each target column depends on.  Identifiers are unquoted lower-case
    names (quoting and case belong to C16 / C07). *)
From SV Require Export Base.Util.

Definition tref := (option string * string)%type.       (* schema?, table name *)

Inductive expr :=
| EColRef (q : option string) (c : string)   (* [q.]c *)
| ELit                                       (* 1 *)
| EFun (a b : expr)                          (* coalesce(a, b) *)
| EBin (a b : expr)                          (* a + b *)
| ECase (c t e : expr)                       (* case when c > 0 then t else e end *)
| ECast (a : expr)                           (* cast(a as int) *)
| EWin (a p o : expr).                       (* sum(a) over (partition by p order by o) *)

Inductive item :=
| IExpr (e : expr) (alias : option string)
| IStar (q : option string).

Inductive rel :=
| RTable (t : tref) (alias : option string)
| RDerived (q : query) (alias : string)
| RGroup (a b : rel)                           (* ( a JOIN b ON ... ) used as a join operand *)
with query :=
| QSelect (items : list item) (from : list rel) (comma_join : bool) (wh : option (string * query))
          (* WHERE c IN (sub-query) *)
| QUnion (a b : query)
| QWith (name : string) (cte : query) (body : query).

Inductive stmt :=
| SInsert (tgt : tref) (cols : option (list string)) (q : query)
| SCtas (tgt : tref) (q : query)
| SView (tgt : tref) (q : query)
| SQuery (q : query)
| SNoData (kind : nat).     (* DELETE / TRUNCATE / SHOW / USE ... *)

(** parenthesised join groups contribute their members to the enclosing FROM scope *)
Fixpoint rels_flat (r : rel) : list rel :=
  match r with RGroup a b => rels_flat a ++ rels_flat b | _ => [r] end.

(** * Printed names, as the library reports them *)
Definition placeholder : string := "<default>".
Definition tref_str (default_schema : string) (t : tref) : string :=
  (match fst t with Some s => s | None => if String.eqb default_schema "" then placeholder else default_schema end)
  ++ "." ++ snd t.

(** * Table-level specification (C01) *)
Fixpoint dedup_s (l seen : list string) : list string :=
  match l with
  | [] => []
  | x :: r => if mem_string x seen then dedup_s r seen else x :: dedup_s r (x :: seen)
  end.

(** base tables read at any depth; names bound by an enclosing WITH are not tables *)
Fixpoint q_reads (fuel : nat) (ds : string) (ctes : list string) (q : query) : list string :=
  match fuel with
  | O => []
  | S k =>
      match q with
      | QSelect _ from _ wh =>
          flat_map (fun r => match r with
                             | RTable t _ => match fst t with
                                             | None => if mem_string (snd t) ctes then [] else [tref_str ds t]
                                             | Some _ => [tref_str ds t]
                                             end
                             | RDerived q' _ => q_reads k ds ctes q'
                             | RGroup _ _ => []
                             end) (flat_map rels_flat from)
          ++ match wh with Some (_, sq) => q_reads k ds ctes sq | None => [] end
      | QUnion a b => q_reads k ds ctes a ++ q_reads k ds ctes b
      | QWith n c b => q_reads k ds ctes c ++ q_reads k ds (n :: ctes) b
      end
  end.

Fixpoint q_size (q : query) : nat :=
  match q with
  | QSelect _ from _ wh =>
      S ((fix rs (l : list rel) : nat := match l with [] => 0 | r :: t => rel_size r + rs t end) from
         + match wh with Some (_, sq) => q_size sq | None => 0 end)
  | QUnion a b => S (q_size a + q_size b)
  | QWith _ c b => S (q_size c + q_size b)
  end
with rel_size (r : rel) : nat :=
  match r with
  | RTable _ _ => 1
  | RDerived q _ => S (q_size q)
  | RGroup a b => S (rel_size a + rel_size b)
  end.

Definition spec_reads (ds : string) (s : stmt) : list string :=
  match s with
  | SInsert _ _ q | SCtas _ q | SView _ q | SQuery q => dedup_s (q_reads (S (q_size q)) ds [] q) []
  | SNoData _ => []
  end.
Definition spec_writes (ds : string) (s : stmt) : list string :=
  match s with
  | SInsert t _ _ | SCtas t _ | SView t _ => [tref_str ds t]
  | SQuery _ | SNoData _ => []
  end.

(** * Column-level specification (C02) *)
Inductive src :=
| SCol (table : string) (c : string)                 (* resolved: base table column *)
| SUnres (c : string) (cands : list string)          (* unresolved, with its candidates *)
| SStar (table : string).                            (* all columns of a base table *)

Definition colspec := (string * list src)%type.      (* output column name, what it depends on *)

(** a relation in scope: the names it answers to, and what it is *)
Inductive relation := RelBase (table : string) | RelCols (cols : list colspec).
Record binding := { b_alias : option string; b_names : list string; b_rel : relation }.

Fixpoint col_refs (e : expr) : list (option string * string) :=
  match e with
  | EColRef q c => [(q, c)]
  | ELit => []
  | EFun a b | EBin a b => col_refs a ++ col_refs b
  | ECase c t f => col_refs c ++ col_refs t ++ col_refs f
  | ECast a => col_refs a
  | EWin a p o => col_refs a ++ col_refs p ++ col_refs o
  end.

Definition lookup_col (c : string) (cols : list colspec) : list src :=
  flat_map (fun cs => if String.eqb (fst cs) c then snd cs else []) cols.

Definition rel_col (r : relation) (c : string) : list src :=
  match r with RelBase t => [SCol t c] | RelCols cols => lookup_col c cols end.

(** a qualified reference resolves to the relation carrying that alias, else that name:
    an alias shadows a bare table name *)
Definition find_binding (q : string) (scope : list binding) : option binding :=
  match filter (fun b => match b_alias b with Some a => String.eqb a q | None => false end) scope with
  | b :: _ => Some b
  | [] => match filter (fun b => mem_string q (b_names b)) scope with b :: _ => Some b | [] => None end
  end.

Definition resolve (scope : list binding) (r : option string * string) : list src :=
  match fst r with
  | Some q => match find_binding q scope with Some b => rel_col (b_rel b) (snd r) | None => [] end
  | None =>
      match scope with
      | [b] => rel_col (b_rel b) (snd r)
      | _ =>
          (* several relations in scope and nothing disambiguates: unresolved, never guessed -
             unless they all are the same base table (a self join), which leaves no doubt about the table *)
          let cands := dedup_s (flat_map (fun b => match b_rel b with RelBase t => [t] | RelCols _ => [] end) scope) [] in
          match cands with
          | [t] => if forallb (fun b => match b_rel b with RelBase _ => true | RelCols _ => false end) scope
                   then [SCol t (snd r)] else [SUnres (snd r) cands]
          | _ => [SUnres (snd r) cands]
          end
      end
  end.

Definition src_eqb (a b : src) : bool :=
  match a, b with
  | SCol t c, SCol t' c' => String.eqb t t' && String.eqb c c'
  | SUnres c _, SUnres c' _ => String.eqb c c'
  | SStar t, SStar t' => String.eqb t t'
  | _, _ => false
  end.
Fixpoint dedup_src (l seen : list src) : list src :=
  match l with
  | [] => []
  | x :: r => if existsb (src_eqb x) seen then dedup_src r seen else x :: dedup_src r (x :: seen)
  end.

Definition item_cols (scope : list binding) (i : item) : list colspec :=
  match i with
  | IExpr e alias =>
      let name := match alias with
                  | Some a => a
                  | None => match e with EColRef _ c => c | _ => "<expr>" end
                  end in
      [(name, dedup_src (flat_map (resolve scope) (col_refs e)) [])]
  | IStar q =>
      let bs := match q with
                | Some qq => match find_binding qq scope with Some b => [b] | None => [] end
                | None => scope
                end in
      flat_map (fun b => match b_rel b with
                         | RelBase t => [("*", [SStar t])]
                         | RelCols cols => cols
                         end) bs
  end.

(** set operations combine position by position, named after the first branch *)
Fixpoint zip_union (a b : list colspec) : list colspec :=
  match a, b with
  | (n, s) :: ra, (_, s') :: rb => (n, dedup_src (s ++ s') []) :: zip_union ra rb
  | _, _ => a
  end.

Fixpoint assoc_s {A} (k : string) (l : list (string * A)) : option A :=
  match l with [] => None | (k', v) :: r => if String.eqb k k' then Some v else assoc_s k r end.

Fixpoint q_cols (fuel : nat) (ds : string) (ctes : list (string * list colspec)) (q : query) : list colspec :=
  match fuel with
  | O => []
  | S k =>
      match q with
      | QSelect items from _ _ =>
          let scope :=
            map (fun r => match r with
                          | RTable t alias =>
                              match fst t, assoc_s (snd t) ctes with
                              | None, Some cols =>
                                  {| b_alias := alias; b_names := match alias with Some _ => [] | None => [snd t] end;
                                     b_rel := RelCols cols |}
                              | _, _ =>
                                  (* once aliased, a table no longer answers to its own name *)
                                  {| b_alias := alias;
                                     b_names := match alias with Some _ => [] | None => [snd t; tref_str ds t] end;
                                     b_rel := RelBase (tref_str ds t) |}
                              end
                          | RDerived q' alias =>
                              {| b_alias := Some alias; b_names := []; b_rel := RelCols (q_cols k ds ctes q') |}
                          | RGroup _ _ => {| b_alias := None; b_names := []; b_rel := RelCols [] |}
                          end) (flat_map rels_flat from) in
          flat_map (item_cols scope) items
      | QUnion a b => zip_union (q_cols k ds ctes a) (q_cols k ds ctes b)
      | QWith n c b => q_cols k ds ((n, q_cols k ds ctes c) :: ctes) b
      end
  end.

Definition stmt_query (s : stmt) : option query :=
  match s with SInsert _ _ q | SCtas _ q | SView _ q | SQuery q => Some q | SNoData _ => None end.

(** end-to-end (source, target column) pairs of a statement; the target column is named by the
    explicit column list if one is given (and fits), else by the select alias, else by the column's own name *)
Definition spec_flows (ds : string) (s : stmt) : list (src * string) :=
  match s with
  | SInsert t cols q =>
      let qc := q_cols (S (q_size q)) ds [] q in
      let names := match cols with
                   | Some cs => if Nat.eqb (List.length cs) (List.length qc) then cs else map fst qc
                   | None => map fst qc
                   end in
      flat_map (fun p => map (fun sr => (sr, (tref_str ds t ++ "." ++ fst p)%string)) (snd (snd p))) (combine names qc)
  | SCtas t q | SView t q =>
      let qc := q_cols (S (q_size q)) ds [] q in
      flat_map (fun c => map (fun sr => (sr, (tref_str ds t ++ "." ++ fst c)%string)) (snd c)) qc
  | SQuery _ | SNoData _ => []
  end.

(** * Printing *)
Fixpoint insert_sorted (x : string) (l : list string) : list string :=
  match l with [] => [x] | y :: r => if String.leb x y then x :: l else y :: insert_sorted x r end.
Definition sort_strings (l : list string) : list string := fold_right insert_sorted [] l.
Fixpoint uniq_sorted (l : list string) : list string :=
  match l with
  | x :: ((y :: _) as r) => if String.eqb x y then uniq_sorted r else x :: uniq_sorted r
  | _ => l
  end.

Definition show_src (s : src) : string :=
  match s with
  | SCol t c => t ++ "." ++ c
  | SUnres c cands => c ++ "{" ++ join "," (sort_strings cands) ++ "}"
  | SStar t => t ++ ".*"
  end.
Definition show_tables (ds : string) (s : stmt) : string :=
  "R=" ++ join "," (sort_strings (spec_reads ds s)) ++ ";W=" ++ join "," (sort_strings (spec_writes ds s)).
Definition show_flows (ds : string) (s : stmt) : string :=
  join ";" (uniq_sorted (sort_strings (map (fun p => (show_src (fst p) ++ ">" ++ snd p)%string) (spec_flows ds s)))).
Definition show_spec (ds : string) (s : stmt) : string := show_tables ds s ++ "#" ++ show_flows ds s.
