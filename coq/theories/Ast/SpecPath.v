(** L3 (continued): the statements of property C01 that read or write FILE PATHS:
    COPY (postgres / redshift layout and snowflake layout), INSERT OVERWRITE [LOCAL] DIRECTORY (sparksql / hive) and
    a SELECT from a file reference (sparksql: fmt.`path`).  A path is reported by its text, verbatim. *)
From SV Require Export Ast.Spec.

Inductive pstmt :=
| PCopy (tgt : tref) (cols : option (list string)) (path : string)
    (* COPY tgt [(cols)] FROM 'path'                      postgres, redshift *)
| PCopyInto (tgt : tref) (loc : string) (quoted : bool)
    (* COPY INTO tgt FROM @stage/file | 's3://bucket/key'   snowflake *)
| PInsertDir (loc : bool) (path : string) (q : query)
    (* INSERT OVERWRITE [LOCAL] DIRECTORY 'path' SELECT ...  sparksql, hive *)
| PSelectFile (items : list item) (fmt path : string) (alias : option string).
    (* SELECT items FROM fmt.`path` [AS alias]              sparksql *)

Definition p_reads (ds : string) (p : pstmt) : list string :=
  match p with
  | PCopy _ _ path | PCopyInto _ path _ | PSelectFile _ _ path _ => [path]
  | PInsertDir _ _ q => dedup_s (q_reads (S (q_size q)) ds [] q) []
  end.
Definition p_writes (ds : string) (p : pstmt) : list string :=
  match p with
  | PCopy t _ _ | PCopyInto t _ _ => [tref_str ds t]
  | PInsertDir _ path _ => [path]
  | PSelectFile _ _ _ _ => []
  end.
Definition show_tables_p (ds : string) (p : pstmt) : string :=
  "R=" ++ join "," (sort_strings (p_reads ds p)) ++ ";W=" ++ join "," (sort_strings (p_writes ds p)).
