(** L3 (continued): column-level specification (property C02) of UPDATE, MERGE and SELECT ... INTO, in the style of
    [spec_flows] (Ast/Spec.v): every assignment  a = [q.]b  makes the target column tgt.a depend on the column b
    resolved in the scope of the relations the statement reads (the FROM list of an UPDATE, the USING relation of a
    MERGE): a qualified reference goes to the relation carrying that alias, else that name; an unqualified one to the
    only relation, else it is unresolved with the base tables of the scope as candidates; derived tables are looked
    through ([q_cols]).  In other words the dataflow of
        UPDATE t SET a1 = r1, ... FROM rels          is that of   CREATE TABLE t AS SELECT r1 AS a1, ... FROM rels
        MERGE INTO t USING src ... SET a = r ... INSERT (k, ..) VALUES (v, ..)
                                                     is that of   CREATE TABLE t AS SELECT r AS a, ..., v AS k, ... FROM src. *)
From SV Require Export Ast.SpecDml.

Definition set_item (s : setc) : item := IExpr (EColRef (snd (fst s)) (snd s)) (Some (fst (fst s))).

(** INSERT (cols) VALUES (vals): position by position; a value beyond the column list (or a column without value) flows nowhere *)
Definition ins_items (ins : option (list string * list (option string * string))) : list item :=
  match ins with
  | Some (cols, vals) => map (fun p => IExpr (EColRef (fst (snd p)) (snd (snd p))) (Some (fst p))) (combine cols vals)
  | None => []
  end.

(** the query whose select list is the statement's dataflow *)
Definition dml_flow_query (d : dml) : query :=
  match d with
  | DUpdate _ _ sets from cj _ => QSelect (map set_item sets) from cj None
  | DMerge _ _ src upd ins => QSelect (map set_item upd ++ ins_items ins) [src] false None
  | DSelectInto _ items from cj wh => QSelect items from cj wh
  end.

Definition dml_flows (ds : string) (d : dml) : list (src * string) :=
  let q := dml_flow_query d in
  flat_map (fun c : colspec => map (fun sr => (sr, (tref_str ds (dml_target d) ++ "." ++ fst c)%string)) (snd c))
           (q_cols (S (q_size q)) ds [] q).

(** printed like [spec_pairs] (Tree/LemmaB.v) / [show_flows] (Ast/Spec.v) *)
Definition dml_pairs (ds : string) (d : dml) : list string :=
  uniq_sorted (sort_strings (map (fun p => (show_src (fst p) ++ ">" ++ snd p)%string) (dml_flows ds d))).
Definition show_pairs_dml (ds : string) (d : dml) : string := join ";" (dml_pairs ds d).
Definition show_spec_dml (ds : string) (d : dml) : string := show_tables_dml ds d ++ "#" ++ show_pairs_dml ds d.
