From SV Require Import Ast.Rename.

(** * Generic list / string helpers *)
Lemma mem_string_In : forall x l, mem_string x l = true <-> In x l.
Proof.
  intros x l; induction l as [|y l IHl]; cbn [mem_string In].
  - split; [discriminate | intros []].
  - rewrite Bool.orb_true_iff, IHl, String.eqb_eq. split; intros [H|H]; auto.
Qed.

Lemma mem_string_nIn : forall x l, mem_string x l = false <-> ~ In x l.
Proof.
  intros x l. rewrite <- mem_string_In. destruct (mem_string x l); split; intro H; try discriminate; auto.
  exfalso; apply H; reflexivity.
Qed.

Lemma flat_map_map {A B C} (g : A -> B) (f : B -> list C) l :
  flat_map f (map g l) = flat_map (fun x => f (g x)) l.
Proof. induction l as [|x l IHl]; cbn; [reflexivity | now rewrite IHl]. Qed.

Lemma flat_map_ext_in {A B} (f g : A -> list B) l :
  (forall x, In x l -> f x = g x) -> flat_map f l = flat_map g l.
Proof.
  induction l as [|x l IHl]; intros H; cbn; [reflexivity|].
  rewrite (H x (or_introl eq_refl)), IHl; [reflexivity|].
  intros y Hy; apply H; right; exact Hy.
Qed.

(** * The nested fixes are maps / flat_maps *)
Lemma rename_query_select rho L ctes items from cj wh :
  rename_query rho L ctes (QSelect items from cj wh)
  = QSelect (map (rename_item rho L) items) (map (rename_rel rho L ctes) from) cj
      (match wh with Some (c, sq) => Some (c, rename_query rho L ctes sq) | None => None end).
Proof. reflexivity. Qed.

Lemma query_locals_select items from cj wh :
  query_locals (QSelect items from cj wh)
  = flat_map rel_locals from ++ match wh with Some (_, sq) => query_locals sq | None => [] end.
Proof. reflexivity. Qed.

Lemma query_tables_select ctes items from cj wh :
  query_tables ctes (QSelect items from cj wh)
  = flat_map (rel_tables ctes) from ++ match wh with Some (_, sq) => query_tables ctes sq | None => [] end.
Proof. reflexivity. Qed.

Lemma q_size_select items from cj wh :
  q_size (QSelect items from cj wh)
  = S (list_sum (map rel_size from) + match wh with Some (_, sq) => q_size sq | None => 0 end).
Proof.
  cbn [q_size]. f_equal. f_equal.
  induction from as [|r t IHt]; [reflexivity|]. cbn. f_equal. exact IHt.
Qed.

(** * Size is invariant under renaming (by strong induction on a bound) *)
Lemma rename_size_aux rho L : forall n,
  (forall q ctes, q_size q <= n -> q_size (rename_query rho L ctes q) = q_size q) /\
  (forall r ctes, rel_size r <= n -> rel_size (rename_rel rho L ctes r) = rel_size r).
Proof.
  induction n as [|n [IHq IHr]].
  - split.
    + intros q ctes Hle. destruct q; cbn [q_size] in Hle; lia.
    + intros r ctes Hle. destruct r; cbn [rel_size] in Hle; lia.
  - assert (Hr : forall r ctes, rel_size r <= S n -> rel_size (rename_rel rho L ctes r) = rel_size r).
    { induction r as [t al | q al | a IHa b IHb]; intros ctes Hle.
      - destruct t as [[s|] nm]; reflexivity.
      - cbn [rename_rel rel_size] in *. rewrite IHq by lia. reflexivity.
      - cbn [rename_rel rel_size] in *. rewrite IHa, IHb by lia. reflexivity. }
    split; [|exact Hr].
    intros q ctes Hle. destruct q as [items from cj wh | a b | nm c b].
    + rewrite rename_query_select, !q_size_select. rewrite q_size_select in Hle.
      f_equal. f_equal.
      * rewrite map_map. f_equal.
        assert (Hs : list_sum (map rel_size from) <= n) by lia. clear Hle.
        induction from as [|r t IHt]; cbn [map]; [reflexivity|].
        change (rel_size r + list_sum (map rel_size t) <= n) in Hs. rewrite Hr by lia. rewrite IHt by lia. reflexivity.
      * destruct wh as [[c sq]|]; [|reflexivity]. apply IHq. lia.
    + cbn [rename_query q_size] in *. rewrite !IHq by lia. reflexivity.
    + cbn [rename_query q_size] in *. rewrite !IHq by lia. reflexivity.
Qed.

Lemma rename_query_size rho L ctes q : q_size (rename_query rho L ctes q) = q_size q.
Proof. apply (proj1 (rename_size_aux rho L (q_size q))). apply le_n. Qed.

(** * Flattening of groups commutes with renaming *)
Lemma rels_flat_rename rho L ctes r :
  rels_flat (rename_rel rho L ctes r) = map (rename_rel rho L ctes) (rels_flat r).
Proof.
  induction r as [t al | q al | a IHa b IHb].
  - destruct t as [[s|] nm]; reflexivity.
  - reflexivity.
  - cbn [rename_rel rels_flat]. rewrite IHa, IHb, map_app. reflexivity.
Qed.

Lemma flat_rels_rename rho L ctes from :
  flat_map rels_flat (map (rename_rel rho L ctes) from)
  = map (rename_rel rho L ctes) (flat_map rels_flat from).
Proof.
  induction from as [|r t IHt]; cbn [map flat_map]; [reflexivity|].
  rewrite IHt, rels_flat_rename, map_app. reflexivity.
Qed.

(** the names of a flattened member are names of the group *)
Lemma rels_flat_locals r x : In x (rels_flat r) -> incl (rel_locals x) (rel_locals r).
Proof.
  induction r as [t al | q al | a IHa b IHb]; cbn [rels_flat].
  - intros [<-|[]]. apply incl_refl.
  - intros [<-|[]]. apply incl_refl.
  - intros Hin. apply in_app_or in Hin. cbn [rel_locals]. destruct Hin as [Hin|Hin].
    + apply incl_appl. auto.
    + apply incl_appr. auto.
Qed.

Lemma rels_flat_tables ctes r x : In x (rels_flat r) -> incl (rel_tables ctes x) (rel_tables ctes r).
Proof.
  induction r as [t al | q al | a IHa b IHb]; cbn [rels_flat].
  - intros [<-|[]]. apply incl_refl.
  - intros [<-|[]]. apply incl_refl.
  - intros Hin. apply in_app_or in Hin. cbn [rel_tables]. destruct Hin as [Hin|Hin].
    + apply incl_appl. auto.
    + apply incl_appr. auto.
Qed.

Lemma flat_rels_incl (f : rel -> list string) from x :
  (forall r y, In y (rels_flat r) -> incl (f y) (f r)) ->
  In x (flat_map rels_flat from) -> incl (f x) (flat_map f from).
Proof.
  intros Hf Hin. apply in_flat_map in Hin. destruct Hin as [r [Hr Hx]].
  intros z Hz. apply in_flat_map. exists r. split; [exact Hr|]. exact (Hf r x Hx z Hz).
Qed.

(** * Table level *)
Section Tables.
  Variable rho : string -> string.
  Variable L T : list string.
  Variable ds : string.
  Hypothesis HnewT : forall a, In a L -> ~ In (rho a) T.

  Notation rnL := (rn rho L).

  Lemma rn_in a : In a L -> rnL a = rho a.
  Proof. intros Ha. unfold rn. apply mem_string_In in Ha. rewrite Ha. reflexivity. Qed.

  Lemma rn_notin a : ~ In a L -> rnL a = a.
  Proof. intros Ha. unfold rn. apply mem_string_nIn in Ha. rewrite Ha. reflexivity. Qed.

  Lemma mem_map_rn_table n ctes : incl ctes L -> In n T -> mem_string n (map rnL ctes) = false.
  Proof.
    intros Hc Hn. apply mem_string_nIn. intros Hin. apply in_map_iff in Hin.
    destruct Hin as [m [Hm Hin]]. rewrite rn_in in Hm by auto. subst n.
    exact (HnewT m (Hc m Hin) Hn).
  Qed.

  Lemma mem_map_rn_cte n ctes : In n ctes -> mem_string (rnL n) (map rnL ctes) = true.
  Proof. intros Hn. apply mem_string_In. apply in_map. exact Hn. Qed.

  Lemma q_reads_rename : forall fuel ctes q,
    incl ctes L -> incl (query_locals q) L -> incl (query_tables ctes q) T ->
    q_reads fuel ds (map rnL ctes) (rename_query rho L ctes q) = q_reads fuel ds ctes q.
  Proof.
    induction fuel as [|k IHk]; intros ctes q Hc Hl Ht; [reflexivity|].
    destruct q as [items from cj wh | a b | nm c b].
    - rewrite rename_query_select. rewrite query_tables_select in Ht. rewrite query_locals_select in Hl.
      apply incl_app_inv in Ht. destruct Ht as [Htf Htw].
      apply incl_app_inv in Hl. destruct Hl as [Hlf Hlw].
      cbn [q_reads]. f_equal.
      + rewrite flat_rels_rename, flat_map_map. apply flat_map_ext_in.
        intros r Hr.
        assert (Htr : incl (rel_tables ctes r) T).
        { eapply incl_tran; [|exact Htf]. apply flat_rels_incl; [|exact Hr].
          intros r0 y. apply rels_flat_tables. }
        assert (Hlr : incl (rel_locals r) L).
        { eapply incl_tran; [|exact Hlf]. apply flat_rels_incl; [|exact Hr].
          intros r0 y. apply rels_flat_locals. }
        destruct r as [t al | q' al | a b].
        * destruct t as [[s|] n]; [reflexivity|].
          cbn [rename_rel fst snd rel_tables] in *.
          destruct (mem_string n ctes) eqn:Hm.
          -- apply mem_string_In in Hm. rewrite mem_map_rn_cte by exact Hm. reflexivity.
          -- rewrite mem_map_rn_table; [reflexivity | exact Hc | apply Htr; left; reflexivity].
        * cbn [rename_rel rel_locals rel_tables] in *. apply IHk; [assumption | | assumption].
          intros x Hx. apply Hlr. right. exact Hx.
        * reflexivity.
      + destruct wh as [[c sq]|]; [|reflexivity]. apply IHk; assumption.
    - cbn [rename_query q_reads query_tables query_locals] in *.
      apply incl_app_inv in Ht. destruct Ht as [Hta Htb].
      apply incl_app_inv in Hl. destruct Hl as [Hla Hlb].
      rewrite !IHk by assumption. reflexivity.
    - cbn [rename_query q_reads query_tables query_locals] in *.
      apply incl_app_inv in Ht. destruct Ht as [Hta Htb].
      assert (Hnm : In nm L) by (apply Hl; left; reflexivity).
      assert (Hl' : incl (query_locals c ++ query_locals b) L) by (intros x Hx; apply Hl; right; exact Hx).
      apply incl_app_inv in Hl'. destruct Hl' as [Hla Hlb].
      rewrite IHk by assumption. f_equal.
      apply (IHk (nm :: ctes) b); [|assumption|assumption].
      intros x [<-|Hx]; auto.
  Qed.
End Tables.

Lemma stmt_query_rename rho L s :
  stmt_query (rename_stmt rho L s) = option_map (rename_query rho L []) (stmt_query s).
Proof. destruct s; reflexivity. Qed.

Lemma spec_reads_alpha rho ds s : admissible rho s ->
  spec_reads ds (rename_stmt rho (stmt_locals s) s) = spec_reads ds s.
Proof.
  intros [_ [Hnew _]].
  assert (H : forall q, stmt_query s = Some q ->
            q_reads (S (q_size (rename_query rho (stmt_locals s) [] q))) ds [] (rename_query rho (stmt_locals s) [] q)
            = q_reads (S (q_size q)) ds [] q).
  { intros q Hq. rewrite rename_query_size.
    unfold stmt_locals, stmt_tables in *. rewrite Hq in *.
    apply (q_reads_rename rho (query_locals q) (query_tables [] q) ds Hnew (S (q_size q)) [] q).
    - intros x [].
    - apply incl_refl.
    - apply incl_refl. }
  destruct s as [t cols q | t q | t q | q | k]; cbn [rename_stmt spec_reads];
    try (rewrite (H q eq_refl); reflexivity).
  reflexivity.
Qed.

Lemma spec_writes_rename rho L ds s : spec_writes ds (rename_stmt rho L s) = spec_writes ds s.
Proof. destruct s; reflexivity. Qed.

(** the specification does not depend on the spelling of statement-local names *)
Theorem spec_alpha_tables : spec_alpha_tables_statement.
Proof.
  intros rho ds s Hadm. unfold show_tables.
  rewrite spec_reads_alpha by exact Hadm. rewrite spec_writes_rename. reflexivity.
Qed.

(** * [spec_alpha_statement] is FALSE as written: a new name may capture a dangling qualifier.
      [CREATE TABLE tgt AS SELECT x.c FROM t a] with [rho a = x]: the qualifier [x] is bound to nothing
      (no flow); after renaming the alias [a] to [x] it is bound to [t]. *)
Definition alpha_ce : stmt :=
  SCtas (None, "tgt") (QSelect [IExpr (EColRef (Some "x") "c") None] [RTable (None, "t") (Some "a")] false None).
Definition alpha_ce_rho (n : string) : string := "x".

Lemma alpha_ce_admissible : admissible alpha_ce_rho alpha_ce.
Proof.
  unfold admissible. cbn.
  repeat split.
  - intros a b [<-|[]] [<-|[]] _. reflexivity.
  - intros a [<-|[]] [H|[]]. discriminate H.
  - intros a [<-|[]] [H|[]]. discriminate H.
  - intros a b [<-|[]] [<-|[]] H. discriminate H.
Qed.

Lemma alpha_ce_differs :
  show_spec "" (rename_stmt alpha_ce_rho (stmt_locals alpha_ce) alpha_ce) <> show_spec "" alpha_ce.
Proof. vm_compute. discriminate. Qed.

Theorem spec_alpha_statement_false : ~ spec_alpha_statement.
Proof. intros H. exact (alpha_ce_differs (H alpha_ce_rho "" alpha_ce alpha_ce_admissible)). Qed.

(** * Column level: the corrected statement *)

(** qualifiers used in column references and qualified stars *)
Definition ref_quals (l : list (option string * string)) : list string :=
  flat_map (fun r => match fst r with Some q => [q] | None => [] end) l.
Definition expr_quals (e : expr) : list string := ref_quals (col_refs e).
Definition item_quals (i : item) : list string :=
  match i with
  | IExpr e _ => expr_quals e
  | IStar (Some q) => [q]
  | IStar None => []
  end.
Fixpoint rel_quals (r : rel) : list string :=
  match r with
  | RTable _ _ => []
  | RDerived q _ => query_quals q
  | RGroup a b => rel_quals a ++ rel_quals b
  end
with query_quals (q : query) : list string :=
  match q with
  | QSelect items from _ wh =>
      flat_map item_quals items ++ flat_map rel_quals from
      ++ match wh with Some (_, sq) => query_quals sq | None => [] end
  | QUnion a b => query_quals a ++ query_quals b
  | QWith _ c b => query_quals c ++ query_quals b
  end.

(** printed names of the un-aliased base tables: the second name such a table answers to *)
Fixpoint rel_tstrs (ds : string) (ctes : list string) (r : rel) : list string :=
  match r with
  | RTable (None, n) None => if mem_string n ctes then [] else [tref_str ds (None, n)]
  | RTable (Some x, n) None => [tref_str ds (Some x, n)]
  | RTable _ (Some _) => []
  | RDerived q _ => query_tstrs ds ctes q
  | RGroup a b => rel_tstrs ds ctes a ++ rel_tstrs ds ctes b
  end
with query_tstrs (ds : string) (ctes : list string) (q : query) : list string :=
  match q with
  | QSelect _ from _ wh =>
      flat_map (rel_tstrs ds ctes) from
      ++ match wh with Some (_, sq) => query_tstrs ds ctes sq | None => [] end
  | QUnion a b => query_tstrs ds ctes a ++ query_tstrs ds ctes b
  | QWith n c b => query_tstrs ds ctes c ++ query_tstrs ds (n :: ctes) b
  end.

Definition stmt_quals (s : stmt) : list string :=
  match stmt_query s with Some q => query_quals q | None => [] end.
Definition stmt_tstrs (ds : string) (s : stmt) : list string :=
  match stmt_query s with Some q => query_tstrs ds [] q | None => [] end.

(** what [admissible] forgot: a new name must not capture a qualifier that is not a local name,
    and neither the local names nor the new names may be spelled like the printed
    [schema.table] name of an un-aliased base table of the statement *)
Definition admissible_cols (rho : string -> string) (ds : string) (s : stmt) : Prop :=
  let L := stmt_locals s in
  (forall a q, In a L -> In q (stmt_quals s) -> ~ In q L -> rho a <> q) /\
  (forall a, In a L -> ~ In a (stmt_tstrs ds s)) /\
  (forall a, In a L -> ~ In (rho a) (stmt_tstrs ds s)).

Lemma query_quals_select items from cj wh :
  query_quals (QSelect items from cj wh)
  = flat_map item_quals items ++ flat_map rel_quals from
    ++ match wh with Some (_, sq) => query_quals sq | None => [] end.
Proof. reflexivity. Qed.

Lemma query_tstrs_select ds ctes items from cj wh :
  query_tstrs ds ctes (QSelect items from cj wh)
  = flat_map (rel_tstrs ds ctes) from
    ++ match wh with Some (_, sq) => query_tstrs ds ctes sq | None => [] end.
Proof. reflexivity. Qed.

Lemma rels_flat_quals r x : In x (rels_flat r) -> incl (rel_quals x) (rel_quals r).
Proof.
  induction r as [t al | q al | a IHa b IHb]; cbn [rels_flat].
  - intros [<-|[]]. apply incl_refl.
  - intros [<-|[]]. apply incl_refl.
  - intros Hin. apply in_app_or in Hin. cbn [rel_quals]. destruct Hin as [Hin|Hin].
    + apply incl_appl. auto.
    + apply incl_appr. auto.
Qed.

Lemma rels_flat_tstrs ds ctes r x : In x (rels_flat r) -> incl (rel_tstrs ds ctes x) (rel_tstrs ds ctes r).
Proof.
  induction r as [t al | q al | a IHa b IHb]; cbn [rels_flat].
  - intros [<-|[]]. apply incl_refl.
  - intros [<-|[]]. apply incl_refl.
  - intros Hin. apply in_app_or in Hin. cbn [rel_tstrs]. destruct Hin as [Hin|Hin].
    + apply incl_appl. auto.
    + apply incl_appr. auto.
Qed.

Lemma col_refs_rename rho L e :
  col_refs (rename_expr rho L e) = map (fun r => (rn_opt rho L (fst r), snd r)) (col_refs e).
Proof.
  induction e as [q c | | a IHa b IHb | a IHa b IHb | c IHc t IHt f IHf | a IHa | a IHa p IHp o IHo];
    cbn [rename_expr col_refs map fst snd]; rewrite ?map_app; congruence.
Qed.

Lemma filter_Forall2 {A B} (R : A -> B -> Prop) (p : A -> bool) (p' : B -> bool) l l' :
  Forall2 R l l' -> (forall x y, R x y -> p x = p' y) ->
  Forall2 R (filter p l) (filter p' l').
Proof.
  intros H Hp. induction H as [|x y l l' Hxy Hl IH]; cbn [filter]; [constructor|].
  rewrite <- (Hp x y Hxy). destruct (p x); [constructor; assumption | assumption].
Qed.

Lemma Forall2_map_in {A B C} (R : B -> C -> Prop) (f : A -> B) (g : A -> C) l :
  (forall x, In x l -> R (f x) (g x)) -> Forall2 R (map f l) (map g l).
Proof.
  induction l as [|x l IHl]; intros H; cbn [map]; constructor.
  - apply H. left. reflexivity.
  - apply IHl. intros y Hy. apply H. right. exact Hy.
Qed.

Lemma forallb_map {A B} (g : A -> B) (f : B -> bool) l : forallb f (map g l) = forallb (fun x => f (g x)) l.
Proof. induction l as [|x l IHl]; cbn; [reflexivity | now rewrite IHl]. Qed.

Lemma assoc_s_mem {A} n (ctes : list (string * A)) :
  mem_string n (map fst ctes) = match assoc_s n ctes with Some _ => true | None => false end.
Proof.
  induction ctes as [|[k v] ctes IH]; [reflexivity|].
  cbn [map fst mem_string assoc_s]. destruct (String.eqb n k); [reflexivity | exact IH].
Qed.

(** the unqualified case of [resolve] only looks at the relations in scope *)
Definition resolve_unq (rs : list relation) (c : string) : list src :=
  match rs with
  | [r] => rel_col r c
  | _ =>
      let cands := dedup_s (flat_map (fun r => match r with RelBase t => [t] | RelCols _ => [] end) rs) [] in
      match cands with
      | [t] => if forallb (fun r => match r with RelBase _ => true | RelCols _ => false end) rs
               then [SCol t c] else [SUnres c cands]
      | _ => [SUnres c cands]
      end
  end.

Lemma resolve_None sc c : resolve sc (None, c) = resolve_unq (map b_rel sc) c.
Proof.
  destruct sc as [|b [|b2 l]]; [reflexivity | reflexivity |].
  unfold resolve. cbn [fst snd].
  change (map b_rel (b :: b2 :: l)) with (b_rel b :: b_rel b2 :: map b_rel l).
  unfold resolve_unq.
  change (b_rel b :: b_rel b2 :: map b_rel l) with (map b_rel (b :: b2 :: l)).
  rewrite flat_map_map, forallb_map. reflexivity.
Qed.

Lemma rename_rel_derived rho L ctes q al :
  rename_rel rho L ctes (RDerived q al) = RDerived (rename_query rho L ctes q) (rn rho L al).
Proof. reflexivity. Qed.

Lemma rename_rel_group rho L ctes a b :
  rename_rel rho L ctes (RGroup a b) = RGroup (rename_rel rho L ctes a) (rename_rel rho L ctes b).
Proof. reflexivity. Qed.

Section Flows.
  Variable rho : string -> string.
  Variable L T TS Q : list string.
  Variable ds : string.
  Hypothesis Hinj : forall a b, In a L -> In b L -> rho a = rho b -> a = b.
  Hypothesis HnewT : forall a, In a L -> ~ In (rho a) T.
  Hypothesis HoldT : forall a, In a L -> ~ In a T.
  Hypothesis HnewS : forall a, In a L -> ~ In (rho a) TS.
  Hypothesis HoldS : forall a, In a L -> ~ In a TS.
  Hypothesis HQ : forall a q, In a L -> In q Q -> ~ In q L -> rho a <> q.

  Notation rnL := (rn rho L).

  Lemma eqb_rn_locals a b : In a L -> In b L -> String.eqb (rnL a) (rnL b) = String.eqb a b.
  Proof.
    intros Ha Hb. rewrite !(rn_in rho L) by assumption.
    destruct (String.eqb a b) eqn:E.
    - apply String.eqb_eq in E. subst b. apply String.eqb_refl.
    - apply String.eqb_neq. intros H. apply String.eqb_neq in E. apply E. apply Hinj; assumption.
  Qed.

  Lemma eqb_rn_qual a q : In a L -> In q Q -> String.eqb (rnL a) (rnL q) = String.eqb a q.
  Proof.
    intros Ha Hq. destruct (mem_string q L) eqn:Hm.
    - apply mem_string_In in Hm. apply eqb_rn_locals; assumption.
    - apply mem_string_nIn in Hm. rewrite (rn_notin rho L q Hm), (rn_in rho L a Ha).
      transitivity false; [|symmetry]; apply String.eqb_neq.
      + apply HQ; assumption.
      + intros ->. apply Hm. exact Ha.
  Qed.

  Lemma eqb_rn_base x q : In x T \/ In x TS -> String.eqb (rnL q) x = String.eqb q x.
  Proof.
    intros Hx. destruct (mem_string q L) eqn:Hm.
    - apply mem_string_In in Hm. rewrite (rn_in rho L q Hm).
      transitivity false; [|symmetry]; apply String.eqb_neq.
      + intros E. subst x. destruct Hx as [Hx|Hx]; [exact (HnewT q Hm Hx) | exact (HnewS q Hm Hx)].
      + intros E. subst x. destruct Hx as [Hx|Hx]; [exact (HoldT q Hm Hx) | exact (HoldS q Hm Hx)].
    - apply mem_string_nIn in Hm. rewrite (rn_notin rho L q Hm). reflexivity.
  Qed.

  (** a name a relation answers to, before and after renaming *)
  Definition name_ok (x x' : string) : Prop :=
    (x' = x /\ (In x T \/ In x TS)) \/ (x' = rnL x /\ In x L).

  Lemma mem_names_rel q ns ns' :
    In q Q -> Forall2 name_ok ns ns' -> mem_string (rnL q) ns' = mem_string q ns.
  Proof.
    intros Hq H. induction H as [|x x' l l' Hx Hl IH]; [reflexivity|].
    cbn [mem_string]. rewrite IH. f_equal.
    destruct Hx as [[-> Hx]|[-> Hx]].
    - apply eqb_rn_base; exact Hx.
    - rewrite String.eqb_sym, (String.eqb_sym q x). apply eqb_rn_qual; assumption.
  Qed.

  Record brel (b b' : binding) : Prop := {
    br_rel : b_rel b' = b_rel b;
    br_alias : b_alias b' = rn_opt rho L (b_alias b);
    br_aliasL : forall a, b_alias b = Some a -> In a L;
    br_names : Forall2 name_ok (b_names b) (b_names b') }.

  Lemma scope_rels sc sc' : Forall2 brel sc sc' -> map b_rel sc' = map b_rel sc.
  Proof.
    intros H. induction H as [|b b' l l' Hb Hl IH]; [reflexivity|].
    cbn [map]. rewrite IH, (br_rel _ _ Hb). reflexivity.
  Qed.

  Lemma find_binding_rel q sc sc' : In q Q -> Forall2 brel sc sc' ->
    match find_binding q sc, find_binding (rnL q) sc' with
    | Some b, Some b' => brel b b'
    | None, None => True
    | _, _ => False
    end.
  Proof.
    intros Hq Hsc. unfold find_binding.
    assert (H1 : Forall2 brel
                   (filter (fun b => match b_alias b with Some a => String.eqb a q | None => false end) sc)
                   (filter (fun b => match b_alias b with Some a => String.eqb a (rnL q) | None => false end) sc')).
    { apply filter_Forall2; [exact Hsc|]. intros b b' Hb. rewrite (br_alias _ _ Hb).
      destruct (b_alias b) as [a|] eqn:Ea; cbn [rn_opt option_map]; [|reflexivity].
      symmetry. apply eqb_rn_qual; [|exact Hq]. apply (br_aliasL _ _ Hb). exact Ea. }
    assert (H2 : Forall2 brel (filter (fun b => mem_string q (b_names b)) sc)
                   (filter (fun b => mem_string (rnL q) (b_names b)) sc')).
    { apply filter_Forall2; [exact Hsc|]. intros b b' Hb. symmetry.
      apply mem_names_rel; [exact Hq|]. apply (br_names _ _ Hb). }
    destruct H1 as [|b b' l l' Hb _].
    - destruct H2 as [|b b' l l' Hb _]; [exact I | exact Hb].
    - exact Hb.
  Qed.

  Lemma resolve_rel sc sc' q c : Forall2 brel sc sc' -> (forall x, q = Some x -> In x Q) ->
    resolve sc' (rn_opt rho L q, c) = resolve sc (q, c).
  Proof.
    intros Hsc Hq. destruct q as [x|].
    - unfold resolve. cbn [rn_opt option_map fst snd].
      pose proof (find_binding_rel x sc sc' (Hq x eq_refl) Hsc) as Hf.
      destruct (find_binding x sc) as [b|], (find_binding (rnL x) sc') as [b'|]; try contradiction.
      + rewrite (br_rel _ _ Hf). reflexivity.
      + reflexivity.
    - cbn [rn_opt option_map]. rewrite !resolve_None, (scope_rels _ _ Hsc). reflexivity.
  Qed.

  Lemma item_cols_rel sc sc' i : Forall2 brel sc sc' -> incl (item_quals i) Q ->
    item_cols sc' (rename_item rho L i) = item_cols sc i.
  Proof.
    intros Hsc Hi. destruct i as [e al | q].
    - assert (Hf : flat_map (resolve sc') (col_refs (rename_expr rho L e)) = flat_map (resolve sc) (col_refs e)).
      { rewrite col_refs_rename, flat_map_map. apply flat_map_ext_in.
        intros [q c] Hin. cbn [fst snd]. apply resolve_rel; [exact Hsc|].
        intros x ->. apply Hi. cbn [item_quals]. unfold expr_quals, ref_quals.
        apply in_flat_map. exists (Some x, c). split; [exact Hin | left; reflexivity]. }
      cbn [rename_item item_cols]. rewrite Hf. destruct e; reflexivity.
    - destruct q as [x|]; cbn [rename_item item_cols rn_opt option_map].
      + assert (Hx : In x Q) by (apply Hi; left; reflexivity).
        pose proof (find_binding_rel x sc sc' Hx Hsc) as Hf.
        destruct (find_binding x sc) as [b|], (find_binding (rnL x) sc') as [b'|]; try contradiction.
        * cbn [flat_map]. rewrite (br_rel _ _ Hf). reflexivity.
        * reflexivity.
      + rewrite <- (flat_map_map b_rel (fun r => match r with RelBase t => [("*", [SStar t])] | RelCols cols => cols end) sc').
        rewrite <- (flat_map_map b_rel (fun r => match r with RelBase t => [("*", [SStar t])] | RelCols cols => cols end) sc).
        rewrite (scope_rels _ _ Hsc). reflexivity.
  Qed.

  (** ** CTE environments *)
  Definition ren_ctes (ctes : list (string * list colspec)) : list (string * list colspec) :=
    map (fun p => (rnL (fst p), snd p)) ctes.

  Lemma assoc_ren_cte n ctes : incl (map fst ctes) L -> In n L ->
    assoc_s (rnL n) (ren_ctes ctes) = assoc_s n ctes.
  Proof.
    induction ctes as [|[k v] ctes IH]; intros Hc Hn; [reflexivity|].
    cbn [ren_ctes map assoc_s fst snd] in *.
    rewrite eqb_rn_locals; [|exact Hn|apply Hc; left; reflexivity].
    destruct (String.eqb n k); [reflexivity|].
    apply IH; [|exact Hn]. intros x Hx. apply Hc. right. exact Hx.
  Qed.

  Lemma assoc_ren_table n ctes : incl (map fst ctes) L -> In n T ->
    assoc_s n (ren_ctes ctes) = None.
  Proof.
    induction ctes as [|[k v] ctes IH]; intros Hc Hn; [reflexivity|].
    cbn [ren_ctes map assoc_s fst snd] in *.
    assert (Hk : In k L) by (apply Hc; left; reflexivity).
    replace (String.eqb n (rnL k)) with false.
    - apply IH; [|exact Hn]. intros x Hx. apply Hc. right. exact Hx.
    - symmetry. apply String.eqb_neq. intros ->. rewrite (rn_in rho L k Hk) in Hn. exact (HnewT k Hk Hn).
  Qed.

  (** ** The binding a FROM member contributes *)
  Definition mk_binding (qc : query -> list colspec) (ctes : list (string * list colspec)) (r : rel) : binding :=
    match r with
    | RTable t alias =>
        match fst t, assoc_s (snd t) ctes with
        | None, Some cols =>
            {| b_alias := alias; b_names := match alias with Some _ => [] | None => [snd t] end;
               b_rel := RelCols cols |}
        | _, _ =>
            {| b_alias := alias;
               b_names := match alias with Some _ => [] | None => [snd t; tref_str ds t] end;
               b_rel := RelBase (tref_str ds t) |}
        end
    | RDerived q' alias => {| b_alias := Some alias; b_names := []; b_rel := RelCols (qc q') |}
    | RGroup _ _ => {| b_alias := None; b_names := []; b_rel := RelCols [] |}
    end.

  Lemma q_cols_select k ctes items from cj wh :
    q_cols (S k) ds ctes (QSelect items from cj wh)
    = flat_map (item_cols (map (mk_binding (q_cols k ds ctes) ctes) (flat_map rels_flat from))) items.
  Proof. reflexivity. Qed.

  Lemma mk_binding_rel qc qc' ctes r :
    incl (map fst ctes) L -> incl (rel_locals r) L ->
    incl (rel_tables (map fst ctes) r) T -> incl (rel_tstrs ds (map fst ctes) r) TS ->
    (forall q' al, r = RDerived q' al -> qc' (rename_query rho L (map fst ctes) q') = qc q') ->
    brel (mk_binding qc ctes r) (mk_binding qc' (ren_ctes ctes) (rename_rel rho L (map fst ctes) r)).
  Proof.
    intros Hc Hl Ht Hs Hqc.
    destruct r as [[[x|] n] al | q' al | a b].
    - (* schema-qualified table *)
      cbn [rename_rel mk_binding fst snd rel_tables rel_tstrs rel_locals] in *.
      constructor; cbn [b_rel b_alias b_names].
      + reflexivity.
      + reflexivity.
      + intros a ->. apply Hl. left. reflexivity.
      + destruct al as [a|]; cbn [rn_opt option_map]; [constructor|].
        constructor; [|constructor; [|constructor]].
        * left. split; [reflexivity|]. left. apply Ht. left. reflexivity.
        * left. split; [reflexivity|]. right. apply Hs. left. reflexivity.
    - (* unqualified name: a CTE in scope, or a base table *)
      cbn [rename_rel fst snd rel_tables rel_tstrs rel_locals] in *.
      rewrite assoc_s_mem in *.
      destruct (assoc_s n ctes) as [cols|] eqn:E.
      + assert (Hn : In n L).
        { apply Hc. apply mem_string_In. rewrite assoc_s_mem, E. reflexivity. }
        cbn [mk_binding fst snd]. rewrite (assoc_ren_cte n ctes Hc Hn), E.
        constructor; cbn [b_rel b_alias b_names].
        * reflexivity.
        * reflexivity.
        * intros a ->. apply Hl. left. reflexivity.
        * destruct al as [a|]; cbn [rn_opt option_map]; [constructor|].
          constructor; [|constructor]. right. split; [reflexivity | exact Hn].
      + assert (Hn : In n T) by (apply Ht; left; reflexivity).
        cbn [mk_binding fst snd]. rewrite (assoc_ren_table n ctes Hc Hn), E.
        constructor; cbn [b_rel b_alias b_names].
        * reflexivity.
        * reflexivity.
        * intros a ->. apply Hl. left. reflexivity.
        * destruct al as [a|]; cbn [rn_opt option_map]; [constructor|].
          constructor; [|constructor; [|constructor]].
          -- left. split; [reflexivity|]. left. exact Hn.
          -- left. split; [reflexivity|]. right. apply Hs. left. reflexivity.
    - rewrite rename_rel_derived. cbn [mk_binding rel_locals] in *.
      constructor; cbn [b_rel b_alias b_names].
      + rewrite (Hqc q' al eq_refl). reflexivity.
      + reflexivity.
      + intros a [= <-]. apply Hl. left. reflexivity.
      + constructor.
    - rewrite rename_rel_group. cbn [mk_binding].
      constructor; cbn [b_rel b_alias b_names]; [reflexivity | reflexivity | discriminate | constructor].
  Qed.

  Lemma q_cols_rename : forall fuel ctes q,
    incl (map fst ctes) L -> incl (query_locals q) L ->
    incl (query_tables (map fst ctes) q) T -> incl (query_tstrs ds (map fst ctes) q) TS ->
    incl (query_quals q) Q ->
    q_cols fuel ds (ren_ctes ctes) (rename_query rho L (map fst ctes) q) = q_cols fuel ds ctes q.
  Proof.
    induction fuel as [|k IHk]; intros ctes q Hc Hl Ht Hs Hq; [reflexivity|].
    destruct q as [items from cj wh | a b | nm c b].
    - rewrite rename_query_select, !q_cols_select.
      rewrite query_locals_select in Hl. rewrite query_tables_select in Ht.
      rewrite query_tstrs_select in Hs. rewrite query_quals_select in Hq.
      apply incl_app_inv in Hl. destruct Hl as [Hlf _].
      apply incl_app_inv in Ht. destruct Ht as [Htf _].
      apply incl_app_inv in Hs. destruct Hs as [Hsf _].
      apply incl_app_inv in Hq. destruct Hq as [Hqi Hq'].
      apply incl_app_inv in Hq'. destruct Hq' as [Hqf _].
      rewrite flat_rels_rename, map_map, flat_map_map.
      apply flat_map_ext_in. intros i Hi. apply item_cols_rel.
      + apply Forall2_map_in. intros r Hr.
        assert (Hlr : incl (rel_locals r) L).
        { eapply incl_tran; [|exact Hlf]. apply flat_rels_incl; [|exact Hr].
          intros r0 y. apply rels_flat_locals. }
        assert (Htr : incl (rel_tables (map fst ctes) r) T).
        { eapply incl_tran; [|exact Htf]. apply flat_rels_incl; [|exact Hr].
          intros r0 y. apply rels_flat_tables. }
        assert (Hsr : incl (rel_tstrs ds (map fst ctes) r) TS).
        { eapply incl_tran; [|exact Hsf]. apply flat_rels_incl; [|exact Hr].
          intros r0 y. apply rels_flat_tstrs. }
        assert (Hqr : incl (rel_quals r) Q).
        { eapply incl_tran; [|exact Hqf]. apply flat_rels_incl; [|exact Hr].
          intros r0 y. apply rels_flat_quals. }
        apply mk_binding_rel; try assumption.
        intros q' al ->. cbn [rel_locals rel_tables rel_tstrs rel_quals] in *.
        apply IHk; try assumption.
        intros x Hx. apply Hlr. right. exact Hx.
      + intros x Hx. apply Hqi. apply in_flat_map. exists i. split; assumption.
    - cbn [rename_query q_cols query_locals query_tables query_tstrs query_quals] in *.
      apply incl_app_inv in Hl. destruct Hl as [Hla Hlb].
      apply incl_app_inv in Ht. destruct Ht as [Hta Htb].
      apply incl_app_inv in Hs. destruct Hs as [Hsa Hsb].
      apply incl_app_inv in Hq. destruct Hq as [Hqa Hqb].
      rewrite !IHk by assumption. reflexivity.
    - cbn [rename_query q_cols query_locals query_tables query_tstrs query_quals] in *.
      assert (Hnm : In nm L) by (apply Hl; left; reflexivity).
      assert (Hl' : incl (query_locals c ++ query_locals b) L) by (intros x Hx; apply Hl; right; exact Hx).
      apply incl_app_inv in Hl'. destruct Hl' as [Hla Hlb].
      apply incl_app_inv in Ht. destruct Ht as [Hta Htb].
      apply incl_app_inv in Hs. destruct Hs as [Hsa Hsb].
      apply incl_app_inv in Hq. destruct Hq as [Hqa Hqb].
      rewrite (IHk ctes c) by assumption.
      change ((rnL nm, q_cols k ds ctes c) :: ren_ctes ctes)
        with (ren_ctes ((nm, q_cols k ds ctes c) :: ctes)).
      apply (IHk ((nm, q_cols k ds ctes c) :: ctes) b); cbn [map fst]; try assumption.
      intros x [<-|Hx]; auto.
  Qed.
End Flows.

Lemma spec_flows_alpha rho ds s : admissible rho s -> admissible_cols rho ds s ->
  spec_flows ds (rename_stmt rho (stmt_locals s) s) = spec_flows ds s.
Proof.
  intros [Hinj [HnewT [HoldT _]]] [HQ [HoldS HnewS]].
  assert (H : forall q, stmt_query s = Some q ->
            q_cols (S (q_size (rename_query rho (stmt_locals s) [] q))) ds [] (rename_query rho (stmt_locals s) [] q)
            = q_cols (S (q_size q)) ds [] q).
  { intros q Hq. rewrite rename_query_size.
    unfold stmt_locals, stmt_tables, stmt_quals, stmt_tstrs in *. rewrite Hq in *.
    apply (q_cols_rename rho (query_locals q) (query_tables [] q) (query_tstrs ds [] q) (query_quals q) ds
             Hinj HnewT HoldT HnewS HoldS HQ (S (q_size q)) [] q).
    - intros x [].
    - apply incl_refl.
    - apply incl_refl.
    - apply incl_refl.
    - apply incl_refl. }
  destruct s as [t cols q | t q | t q | q | k]; cbn [rename_stmt spec_flows];
    try (rewrite (H q eq_refl); reflexivity).
  - reflexivity.
  - reflexivity.
Qed.

(** the corrected statement: under the two extra freshness conditions the whole specification,
    flows included, is invariant (the flows are even equal as lists, not just as printed sets) *)
Theorem spec_alpha_fixed : forall rho ds s, admissible rho s -> admissible_cols rho ds s ->
  show_spec ds (rename_stmt rho (stmt_locals s) s) = show_spec ds s.
Proof.
  intros rho ds s Hadm Hcols. unfold show_spec, show_flows.
  rewrite (spec_alpha_tables rho ds s Hadm), (spec_flows_alpha rho ds s Hadm Hcols). reflexivity.
Qed.

(** the table-level statement was true as written *)
Definition spec_alpha_tables_fixed : spec_alpha_tables_statement := spec_alpha_tables.

(** * Each of the extra conditions is needed: two more admissible counterexamples to the original
      statement, each violating exactly one other conjunct of [admissible_cols]
      ([alpha_ce] above violates only the first: [rho a = x] captures the dangling qualifier [x]) *)

(** a local name spelled like the printed name of an un-aliased table, used as a qualifier for it:
    [SELECT "s.t".c FROM s.t UNION SELECT d FROM u AS "s.t"], any [rho] moving "s.t" *)
Definition alpha_ce_old : stmt :=
  SCtas (None, "tgt")
    (QUnion (QSelect [IExpr (EColRef (Some "s.t") "c") None] [RTable (Some "s", "t") None] false None)
            (QSelect [IExpr (EColRef None "d") None] [RTable (None, "u") (Some "s.t")] false None)).
Definition alpha_ce_old_rho (n : string) : string := "zz_" ++ n.

Lemma alpha_ce_old_spec :
  admissible alpha_ce_old_rho alpha_ce_old /\
  (forall a q, In a (stmt_locals alpha_ce_old) -> In q (stmt_quals alpha_ce_old) ->
               ~ In q (stmt_locals alpha_ce_old) -> alpha_ce_old_rho a <> q) /\
  (forall a, In a (stmt_locals alpha_ce_old) -> ~ In (alpha_ce_old_rho a) (stmt_tstrs "" alpha_ce_old)) /\
  show_spec "" (rename_stmt alpha_ce_old_rho (stmt_locals alpha_ce_old) alpha_ce_old) <> show_spec "" alpha_ce_old.
Proof.
  unfold admissible. cbn.
  repeat split.
  - intros a b [<-|[]] [<-|[]] _. reflexivity.
  - intros a [<-|[]] [H|[H|[H|[]]]]; discriminate H.
  - intros a [<-|[]] [H|[H|[H|[]]]]; discriminate H.
  - intros a b [<-|[]] [<-|[]] H. discriminate H.
  - intros a q [<-|[]] [<-|[]] Hq _. apply Hq. left. reflexivity.
  - intros a [<-|[]] [H|[]]. discriminate H.
  - vm_compute. discriminate.
Qed.

(** a new name spelled like the printed name of an un-aliased table:
    [SELECT a.c FROM s.t UNION SELECT d FROM u a] with [rho a = "s.t"]: the dangling [a.c] becomes [s.t.c] *)
Definition alpha_ce_new : stmt :=
  SCtas (None, "tgt")
    (QUnion (QSelect [IExpr (EColRef (Some "a") "c") None] [RTable (Some "s", "t") None] false None)
            (QSelect [IExpr (EColRef None "d") None] [RTable (None, "u") (Some "a")] false None)).
Definition alpha_ce_new_rho (n : string) : string := "s.t".

Lemma alpha_ce_new_spec :
  admissible alpha_ce_new_rho alpha_ce_new /\
  (forall a q, In a (stmt_locals alpha_ce_new) -> In q (stmt_quals alpha_ce_new) ->
               ~ In q (stmt_locals alpha_ce_new) -> alpha_ce_new_rho a <> q) /\
  (forall a, In a (stmt_locals alpha_ce_new) -> ~ In a (stmt_tstrs "" alpha_ce_new)) /\
  show_spec "" (rename_stmt alpha_ce_new_rho (stmt_locals alpha_ce_new) alpha_ce_new) <> show_spec "" alpha_ce_new.
Proof.
  unfold admissible. cbn.
  repeat split.
  - intros a b [<-|[]] [<-|[]] _. reflexivity.
  - intros a [<-|[]] [H|[H|[H|[]]]]; discriminate H.
  - intros a [<-|[]] [H|[H|[H|[]]]]; discriminate H.
  - intros a b [<-|[]] [<-|[]] H. discriminate H.
  - intros a q [<-|[]] [<-|[]] Hq _. apply Hq. left. reflexivity.
  - intros a [<-|[]] [H|[]]. discriminate H.
  - vm_compute. discriminate.
Qed.

(** [spec_alpha_statement] is refuted above ([spec_alpha_statement_false]); the statement is left as it
    was given and cannot be proved - use [spec_alpha_fixed] instead. *)
