(** Explicit qualification, column level (C14 on the specification): the column flows of a statement analysed
    under the default schema [ds] are the column flows of the explicitly qualified statement [qual_stmt ds s]
    analysed without a default.  Holds for ALL statements of the abstract syntax (CTEs, derived tables, set
    operations, dangling qualifiers, stars, INSERT column lists): the two analyses build literally the same scopes,
    so the flows are equal as lists, not only as printed sets.  The only side condition is [ds <> ""] (as at table
    level); it is needed ([spec_flows_qualification_empty_refuted]). *)
From SV Require Export Ast.Qualify.
From SV Require Import Ast.RenameProofs.

(** * Tests before proving: a dozen varied statements, several default schemas *)
Module QualTests.
  Definition c (q : option string) (n : string) := IExpr (EColRef q n) None.
  Definition ca (q : option string) (n a : string) := IExpr (EColRef q n) (Some a).
  Definition T (n : string) := RTable (None, n) None.
  Definition TA (n a : string) := RTable (None, n) (Some a).
  Definition TS (s n : string) := RTable (Some s, n) None.
  Definition sel (items : list item) (from : list rel) := QSelect items from false None.

  Definition tests : list stmt :=
    [ (* two-table join, aliases, unqualified column, star, INSERT column list *)
      SInsert (None, "o") (Some ["x"; "y"; "z"; "w"])
        (sel [c (Some "p") "a"; c None "u"; IStar (Some "q"); ca (Some "q") "b" "bb"] [TA "t1" "p"; RTable (Some "s", "t2") (Some "q")]);
      (* dangling qualifier zz.a *)
      SCtas (None, "o") (sel [c (Some "zz") "a"; c None "b"] [T "t1"]);
      (* qualifier equal to a bare table name, and to the printed schema.table name *)
      SCtas (None, "o") (sel [c (Some "t1") "a"; c (Some "dw.t1") "b"; c (Some "<default>.t1") "d"; c (Some "t2") "e"] [T "t1"; TS "s" "t2"]);
      (* q.* over an unaliased table, * over two tables *)
      SView (None, "v") (sel [IStar (Some "t1"); IStar None; IStar (Some "dw.t2")] [T "t1"; T "t2"]);
      (* CTE: reference to the CTE is not qualified, the table inside is *)
      SInsert (None, "o") None
        (QWith "c1" (sel [c None "a"; ca (Some "t") "b" "k"] [TA "base" "t"])
                    (sel [c (Some "c1") "a"; c None "k"; IStar None] [T "c1"; T "other"]));
      (* CTE shadowing a table name, nested WITH, CTE body using a table with the CTE's name *)
      SCtas (None, "o")
        (QWith "t1" (sel [c None "a"] [T "t1"])
            (QWith "t2" (sel [IStar None] [T "t1"; T "t3"]) (sel [c (Some "t2") "a"; IStar (Some "t1")] [T "t2"; T "t1"; T "t4"])));
      (* derived tables *)
      SInsert (Some "x", "o") (Some ["only"])
        (sel [c (Some "d") "a"] [RDerived (sel [ca None "z" "a"] [T "inner1"; T "inner2"]) "d"]);
      SCtas (None, "o")
        (sel [IStar None; c (Some "d") "q"] [RDerived (QUnion (sel [c None "a"; c None "b"] [T "u1"]) (sel [c None "e"; c None "f"] [TS "s" "u2"])) "d"; T "t9"]);
      (* unions, self join, join group *)
      SView (None, "v") (QUnion (sel [c None "a"] [T "t1"; TA "t1" "b"]) (sel [c (Some "b") "a"] [RGroup (T "t5") (TA "t6" "b")]));
      (* column list of the wrong length; WHERE sub-query *)
      SInsert (None, "o") (Some ["x"]) (QSelect [c None "a"; c None "b"] [T "t1"] true (Some ("a", sel [c None "z"] [T "w"])));
      (* a table spelled like the placeholder / like the default schema *)
      SCtas (None, "dw") (sel [c (Some "dw") "a"; c (Some "<default>") "b"] [T "dw"; T "<default>"]);
      SQuery (sel [IStar None] [T "t1"]);
      SNoData 3 ].

  Definition flows_eqb (ds : string) (s : stmt) : bool :=
    String.eqb (show_flows "" (qual_stmt ds s)) (show_flows ds s)
    && Nat.eqb (List.length (spec_flows "" (qual_stmt ds s))) (List.length (spec_flows ds s)).

  Example qual_flows_tests :
    forallb (fun ds => forallb (flows_eqb ds) tests) ["dw"; "<default>"; "a.b"; "t1"; "s"] = true.
  Proof. vm_compute. reflexivity. Qed.

  (** the tests are not trivial: many flows, and the default schema shows in them *)
  Example qual_flows_tests_nontrivial :
    map (fun s => List.length (spec_flows "dw" s)) tests = [4; 1; 3; 4; 5; 2; 1; 5; 2; 2; 2; 0; 0]
    /\ show_flows "dw" (nth 0 tests (SNoData 0)) = "dw.t1.a>dw.o.x;s.t2.*>dw.o.z;s.t2.b>dw.o.w;u{dw.t1,s.t2}>dw.o.y"
    /\ show_flows "" (nth 0 tests (SNoData 0)) <> show_flows "dw" (nth 0 tests (SNoData 0)).
  Proof. vm_compute. repeat split. discriminate. Qed.
End QualTests.

(** * The theorem *)

Definition qual_target (ds : string) (t : tref) : tref := match fst t with Some _ => t | None => (Some ds, snd t) end.

(** a qualified name is printed the same under every default schema [ds0] *)
Lemma tref_str_qualified ds0 ds (t : tref) : ds <> "" -> tref_str ds0 (qual_target ds t) = tref_str ds t.
Proof.
  intros Hds. destruct t as [[sc|] n]; unfold qual_target; cbn [fst snd]; [reflexivity|].
  rewrite (tref_str_default ds n Hds). reflexivity.
Qed.

(** the qualified query analysed under any default [ds0] has, scope by scope, the bindings of the original query analysed
    under [ds]; the CTE names the qualification skips are the keys of the CTE environment of the analysis *)
Lemma q_cols_qual : forall k ds0 ds (ctes : list (string * list colspec)) q, ds <> "" ->
  q_cols k ds0 ctes (qual_q k ds (map fst ctes) q) = q_cols k ds ctes q.
Proof.
  induction k as [|k IH]; intros ds0 ds ctes q Hds; [reflexivity|].
  destruct q as [items from cj wh | a b | n c b]; cbn [qual_q q_cols].
  - f_equal. f_equal. rewrite flat_rels_qual, map_map. apply map_ext. intros r.
    destruct r as [t al | q' al | x y]; cbn [qual_rel].
    + destruct t as [[sc|] n]; unfold qual_tref; cbn [fst snd]; [reflexivity|].
      rewrite (assoc_s_mem n ctes). destruct (assoc_s n ctes) as [cols|] eqn:E; cbn [fst snd].
      * rewrite E. reflexivity.
      * rewrite (tref_str_default ds n Hds). reflexivity.
    + rewrite (IH ds0 ds ctes q' Hds). reflexivity.
    + reflexivity.
  - rewrite !IH by exact Hds. reflexivity.
  - rewrite (IH ds0 ds ctes c Hds).
    change (n :: map fst ctes) with (map fst ((n, q_cols k ds ctes c) :: ctes)).
    apply IH. exact Hds.
Qed.

(** the explicitly qualified statement has, under ANY default schema, the flows of the original under [ds] *)
Theorem spec_flows_qualified_any_default : forall ds0 ds s, ds <> "" ->
  spec_flows ds0 (qual_stmt ds s) = spec_flows ds s.
Proof.
  intros ds0 ds s Hds.
  assert (H : forall q, q_cols (S (q_size q)) ds0 [] (qual_q (S (q_size q)) ds [] q) = q_cols (S (q_size q)) ds [] q)
    by (intros q; exact (q_cols_qual (S (q_size q)) ds0 ds [] q Hds)).
  assert (Hw : forall t : tref, tref_str ds0 (match fst t with Some _ => t | None => (Some ds, snd t) end) = tref_str ds t)
    by (intros t; exact (tref_str_qualified ds0 ds t Hds)).
  destruct s as [t cols q | t q | t q | q | k]; cbn [qual_stmt]; unfold spec_flows; try reflexivity;
    rewrite q_size_qual, (H q), (Hw t); reflexivity.
Qed.
Print Assumptions spec_flows_qualified_any_default.

(** C14 at column level on the specification: the flows are equal as lists *)
Theorem spec_flows_default_is_qualification : forall ds s, ds <> "" ->
  spec_flows "" (qual_stmt ds s) = spec_flows ds s.
Proof. intros ds s. apply spec_flows_qualified_any_default. Qed.
Print Assumptions spec_flows_default_is_qualification.

Corollary show_flows_default_is_qualification : forall ds s, ds <> "" ->
  show_flows "" (qual_stmt ds s) = show_flows ds s.
Proof. intros ds s Hds. unfold show_flows. rewrite (spec_flows_default_is_qualification ds s Hds). reflexivity. Qed.
Print Assumptions show_flows_default_is_qualification.

(** the whole printed specification (tables and flows) *)
Corollary show_spec_default_is_qualification : forall ds s, ds <> "" ->
  show_spec "" (qual_stmt ds s) = show_spec ds s.
Proof.
  intros ds s Hds. unfold show_spec, show_tables.
  destruct (spec_default_is_qualification ds s Hds) as [R W].
  rewrite R, W, (show_flows_default_is_qualification ds s Hds). reflexivity.
Qed.
Print Assumptions show_spec_default_is_qualification.

(** the side condition is needed: "qualifying" with the empty schema writes [.t], not [<default>.t] *)
Theorem spec_flows_qualification_empty_refuted :
  ~ (forall ds s, spec_flows "" (qual_stmt ds s) = spec_flows ds s).
Proof.
  intros H.
  specialize (H "" (SCtas (None, "o") (QSelect [IExpr (EColRef None "a") None] [RTable (None, "t") None] false None))).
  vm_compute in H. discriminate H.
Qed.
Print Assumptions spec_flows_qualification_empty_refuted.

(** non-vacuity: a statement with a CTE, a derived table, a dangling qualifier, a qualifier spelled like a bare table
    name, a qualified star and an INSERT column list *)
Example spec_flows_qualification_nonvacuous :
  let s := SInsert (None, "o") (Some ["x"; "y"; "z"; "w"; "v"; "r"])
             (QWith "c1" (QSelect [IExpr (EColRef None "a") None] [RTable (None, "base") None] false None)
                (QSelect [IExpr (EColRef (Some "t1") "a") None; IExpr (EColRef (Some "zz") "q") None; IStar (Some "p");
                          IExpr (EColRef (Some "c1") "a") None; IExpr (EColRef (Some "d") "k") None; IExpr (EColRef None "u") None]
                         [RTable (None, "t1") None; RTable (Some "s", "t2") (Some "p"); RTable (None, "c1") None;
                          RDerived (QSelect [IExpr (EColRef None "m") (Some "k")] [RTable (None, "inner") None] false None) "d"] false None)) in
  "dw" <> "" /\
  qual_stmt "dw" s <> s /\
  show_flows "dw" s = "dw.base.a>dw.o.w;dw.inner.m>dw.o.v;dw.t1.a>dw.o.x;s.t2.*>dw.o.z;u{dw.t1,s.t2}>dw.o.r" /\
  show_flows "" (qual_stmt "dw" s) = show_flows "dw" s.
Proof. cbv zeta. split; [discriminate|]. split; [discriminate|]. split; vm_compute; reflexivity. Qed.

(** table level, same generality: the reads and writes of the qualified statement do not depend on the default *)
Lemma q_reads_qual_any : forall k ds0 ds ctes q, ds <> "" ->
  q_reads k ds0 ctes (qual_q k ds ctes q) = q_reads k ds ctes q.
Proof.
  induction k as [|k IH]; intros ds0 ds ctes q Hds; [reflexivity|].
  destruct q as [items from cj wh | a b | n c b]; cbn [qual_q q_reads].
  - f_equal.
    + rewrite flat_rels_qual, flat_map_map'. apply flat_map_ext'. intros r.
      destruct r as [t al | q' al | x y]; cbn [qual_rel]; [|apply IH; exact Hds|reflexivity].
      destruct t as [[sc|] n]; unfold qual_tref; cbn [fst snd]; [reflexivity|].
      destruct (mem_string n ctes) eqn:E; cbn [fst snd]; [rewrite E; reflexivity|].
      rewrite (tref_str_default ds n Hds). reflexivity.
    + destruct wh as [[c sq]|]; [apply IH; exact Hds | reflexivity].
  - rewrite !IH by exact Hds. reflexivity.
  - rewrite !IH by exact Hds. reflexivity.
Qed.

Theorem show_spec_qualified_any_default : forall ds0 ds s, ds <> "" ->
  show_spec ds0 (qual_stmt ds s) = show_spec ds s.
Proof.
  intros ds0 ds s Hds. unfold show_spec, show_tables, show_flows.
  rewrite (spec_flows_qualified_any_default ds0 ds s Hds). f_equal.
  assert (Hw : forall t : tref, tref_str ds0 (match fst t with Some _ => t | None => (Some ds, snd t) end) = tref_str ds t)
    by (intros t; exact (tref_str_qualified ds0 ds t Hds)).
  destruct s as [t cols q | t q | t q | q | k]; cbn [qual_stmt spec_reads spec_writes];
    try rewrite q_size_qual; try rewrite (q_reads_qual_any _ ds0 ds [] q Hds); try rewrite Hw; reflexivity.
Qed.
Print Assumptions show_spec_qualified_any_default.
