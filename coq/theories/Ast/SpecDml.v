(** L3 (continued): abstract syntax and table-level specification of the data-moving statements that
    property C01 lists besides INSERT / CREATE ... AS / bare queries: UPDATE, MERGE and SELECT ... INTO.
    [Ast/Spec.v] is left untouched; the new statement kinds live in their own type [dml]. *)
From SV Require Export Ast.Spec.

(** one assignment of a SET list:  a = [q.]b  (target column, qualifier of the source column, source column) *)
Definition setc := (string * option string * string)%type.

Inductive dml :=
| DUpdate (tgt : tref) (alias : option string) (sets : list setc)
          (from : list rel) (comma_join : bool) (wh : option (string * query))
    (* UPDATE tgt [AS alias] SET a = b, ... [FROM from] [WHERE c IN (sub-query)] *)
| DMerge (tgt : tref) (talias : option string) (src : rel)
         (upd : list setc) (ins : option (list string * list (option string * string)))
    (* MERGE INTO tgt [AS talias] USING src ON 1 = 1
       [WHEN MATCHED THEN UPDATE SET upd] [WHEN NOT MATCHED THEN INSERT (cols) VALUES ([q.]c, ...)];
       src is a table or a derived table *)
| DSelectInto (tgt : tref) (items : list item) (from : list rel) (comma_join : bool) (wh : option (string * query)).
    (* SELECT items INTO tgt FROM from [WHERE c IN (sub-query)] *)

(** everything a statement reads is read through a query: the FROM relations and the WHERE-IN sub-query of
    an UPDATE, the USING relation of a MERGE, the whole query of a SELECT ... INTO.  The target of an UPDATE /
    MERGE is written, not read (it is read only if it also occurs among the relations read). *)
Definition dml_query (d : dml) : query :=
  match d with
  | DUpdate _ _ _ from cj wh => QSelect [] from cj wh
  | DMerge _ _ src _ _ => QSelect [] [src] false None
  | DSelectInto _ items from cj wh => QSelect items from cj wh
  end.

Definition dml_target (d : dml) : tref :=
  match d with DUpdate t _ _ _ _ _ | DMerge t _ _ _ _ | DSelectInto t _ _ _ _ => t end.

(** * Table-level specification (C01): base tables read at any depth, the table written *)
Definition dml_reads (ds : string) (d : dml) : list string :=
  dedup_s (q_reads (S (q_size (dml_query d))) ds [] (dml_query d)) [].
Definition dml_writes (ds : string) (d : dml) : list string := [tref_str ds (dml_target d)].

Definition show_tables_dml (ds : string) (d : dml) : string :=
  "R=" ++ join "," (sort_strings (dml_reads ds d)) ++ ";W=" ++ join "," (sort_strings (dml_writes ds d)).
