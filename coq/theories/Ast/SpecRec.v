(** Table-level specification of statements written with WITH RECURSIVE: the name a WITH clause
    binds is visible in its own body too, so a self reference is not a table.  Same abstract syntax
    as Ast/Spec.v; [q_reads_rec] differs from [q_reads] only in the scope of the CTE body, and the two
    agree on every query in which no CTE body mentions an unqualified table called like the CTE. *)
From SV Require Export Ast.Spec.

Fixpoint q_reads_rec (fuel : nat) (ds : string) (ctes : list string) (q : query) : list string :=
  match fuel with
  | O => []
  | S k =>
      match q with
      | QSelect _ from _ wh =>
          flat_map (fun r => match r with
                             | RTable t _ => match fst t with
                                             | None => if mem_string (snd t) ctes then [] else [tref_str ds t]
                                             | Some _ => [tref_str ds t]
                                             end
                             | RDerived q' _ => q_reads_rec k ds ctes q'
                             | RGroup _ _ => []
                             end) (flat_map rels_flat from)
          ++ match wh with Some (_, sq) => q_reads_rec k ds ctes sq | None => [] end
      | QUnion a b => q_reads_rec k ds ctes a ++ q_reads_rec k ds ctes b
      | QWith n c b => q_reads_rec k ds (n :: ctes) c ++ q_reads_rec k ds (n :: ctes) b
      end
  end.

Definition spec_reads_rec (ds : string) (s : stmt) : list string :=
  match s with
  | SInsert _ _ q | SCtas _ q | SView _ q | SQuery q => dedup_s (q_reads_rec (S (q_size q)) ds [] q) []
  | SNoData _ => []
  end.

Definition show_tables_rec (ds : string) (s : stmt) : string :=
  "R=" ++ join "," (sort_strings (spec_reads_rec ds s)) ++ ";W=" ++ join "," (sort_strings (spec_writes ds s)).

(** [self_free k ds ctes q]: every CTE body of [q] (explored with fuel [k], like the readers) reads the
    same tables whether or not its own name is in scope, i.e. the statement makes no use of recursion. *)
Fixpoint self_free (fuel : nat) (ds : string) (ctes : list string) (q : query) : Prop :=
  match fuel with
  | O => True
  | S k =>
      match q with
      | QSelect _ from _ wh =>
          (fix all (l : list rel) : Prop :=
             match l with
             | [] => True
             | RDerived q' _ :: t => self_free k ds ctes q' /\ all t
             | _ :: t => all t
             end) (flat_map rels_flat from)
          /\ match wh with Some (_, sq) => self_free k ds ctes sq | None => True end
      | QUnion a b => self_free k ds ctes a /\ self_free k ds ctes b
      | QWith n c b =>
          q_reads k ds (n :: ctes) c = q_reads k ds ctes c
          /\ self_free k ds (n :: ctes) c /\ self_free k ds (n :: ctes) b
      end
  end.

Lemma q_reads_rec_self_free : forall fuel ds ctes q,
  self_free fuel ds ctes q -> q_reads_rec fuel ds ctes q = q_reads fuel ds ctes q.
Proof.
  induction fuel as [|k IH]; intros ds ctes q H; [reflexivity|].
  destruct q as [items from cj wh | a b | n c b]; cbn [q_reads_rec q_reads self_free] in *.
  - destruct H as [Hall Hwh]. f_equal.
    + induction (flat_map rels_flat from) as [|r t IHt]; [reflexivity|].
      cbn [flat_map]. destruct r as [tr al | q' al | x y].
      * f_equal. apply IHt. exact Hall.
      * destruct Hall as [Hq Ht]. rewrite (IH _ _ _ Hq). f_equal. apply IHt. exact Ht.
      * f_equal. apply IHt. exact Hall.
    + destruct wh as [[c sq]|]; [apply IH; exact Hwh | reflexivity].
  - destruct H as [Ha Hb]. rewrite (IH _ _ _ Ha), (IH _ _ _ Hb). reflexivity.
  - destruct H as [Heq [Hc Hb]]. rewrite (IH _ _ _ Hc), (IH _ _ _ Hb), Heq. reflexivity.
Qed.

(** a recursive CTE: the self reference [r] is not a table, under the recursive reading only *)
Example rec_example :
  let q := QWith "r" (QUnion (QSelect [IExpr (EColRef None "id") None] [RTable (None, "base") None] false None)
                             (QSelect [IExpr (EColRef (Some "e") "id") None]
                                      [RTable (None, "emp") (Some "e"); RTable (None, "r") None] false None))
                     (QSelect [IExpr (EColRef None "id") None] [RTable (None, "r") None] false None) in
  spec_reads_rec "" (SQuery q) = ["<default>.base"; "<default>.emp"]
  /\ spec_reads "" (SQuery q) = ["<default>.base"; "<default>.emp"; "<default>.r"].
Proof. split; reflexivity. Qed.
