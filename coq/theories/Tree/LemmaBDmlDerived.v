(** Lemma B (columns) for MERGE with a derived-table source.  Summary at the end of the file. *)
From Coq Require Import Lia Permutation.
From SV Require Import Ast.SpecDmlCols Tree.RenderDml Tree.LemmaA Tree.LemmaAProofs Tree.LemmaADmlDefs Tree.LemmaADml
     Tree.LemmaB Tree.LemmaBProofs Tree.LemmaB5cPaths Tree.LemmaB5c Tree.LemmaBDml Ident.Escape Ident.EscapeProofs Holder.PathProofs Holder.SortProofs.
From SV Require TriviaProofs.

(* ================================================================== *)
Definition PCm (ts' : list dataset) (NM : list string) (sq d : dataset) (c : column) : Prop :=
  PC4 ts' NM c \/ cparents c = [sq] \/ cparents c = [d].

(** * Part R2: [realises_one_derived] (Tree/LemmaB5c.v) for any holder with the same edges, nodes and literals
    (MERGE builds its holder in place: the sub-query holder is composed into the holder that already reads the source) *)
Theorem realises_two_layer_g d sq ts' xs' xs G :
  dk d = KTable -> dk sq = KSubq -> group_ok d ts' -> ts_inj ts' ->
  (forall x, In x xs' -> xref_ok ts' x) -> (forall x, In x xs -> cparents (xc x) = []) ->
  let NM := unres_names ts' xs' in
  (forall nm, In nm NM -> exists x, In x xs' /\ In (Ucol ts' nm) (S_of ts' x)) ->
  (forall x' s' nm v, In nm NM -> In x' xs' -> In s' (S_of ts' x') -> cparents s' = [v] -> craw s' <> nm) ->
  (forall x s, In x xs -> In s (S_of [sq] x) -> exists x', In x' xs' /\ craw (xc x') = craw s /\ S_of ts' x' <> []) ->
  (forall x y, has_edge G x y = ematch x y (EL_of sq ts' xs') || ematch x y (EL_of d [sq] xs)) ->
  (forall p, In p (EL_of sq ts' xs' ++ EL_of d [sq] xs) -> has_node G (fst p) = true /\ has_node G (snd p) = true) ->
  lits_in (QK (d :: sq :: ts') (PCm ts' NM sq d)) G -> edges_inv (sq :: ts') G -> drop_free G ->
  let FI := flows_of (S_of ts') (own_pairs sq xs') in
  let FO := flows_of (S_of [sq]) (own_pairs d xs) in
  clean_holder G /\ lits_in (unres_ok G) G /\ realises G (FI ++ FO) /\ two_layer FI FO.
Proof.
  intros Hkd Hks Hgo Hinj Hxs' Hxs0 NM HNM HNQ Hfed HE HN LG Esub Dsub FI FO.
  assert (Hsqd : forall v, In v ts' -> dataset_eqb v sq = false).
  { intros v Hv. unfold dataset_eqb. rewrite (go_tables _ _ Hgo v Hv), Hks. reflexivity. }
  assert (HEc : forall x y, is_column x = true ->
                has_edge G x y = ematch x y (map (fun f : flow => (NCol (fst f), NCol (snd f))) (FI ++ FO))).
  { intros x y Hx. rewrite HE. unfold EL_of. rewrite !ematch_app, !(ematch_alias_col x y _ Hx), !(ematch_sel_col _ _ _ x y Hx).
    rewrite map_app, ematch_app. reflexivity. }
  (* the shape of the flows *)
  assert (HFI : forall f, In f FI -> exists x s, In x xs' /\ In s (S_of ts' x) /\ f = (s, {| craw := craw (xc x); cparents := [sq] |}) /\
                  ((exists v, In v ts' /\ cparents s = [v]) \/
                   (exists nm, In nm NM /\ s = Ucol ts' nm /\ escape nm = nm /\ 2 <= List.length (cparents s)))).
  { intros f Hf. apply flows_of_In in Hf. destruct Hf as (p & s & Hp & Hs & ->). unfold own_pairs in Hp. apply in_map_iff in Hp.
    destruct Hp as (x & <- & Hx). cbn [fst snd] in *. exists x, s. split; [exact Hx|]. split; [exact Hs|].
    destruct (S_of_props d ts' xs' x Hgo Hinj Hkd Hx (Hxs' x Hx)) as (A1 & _ & _ & _ & A5). split; [|exact (A5 s Hs)].
    rewrite (own_col_eq sq x A1). reflexivity. }
  assert (HFO : forall f, In f FO -> exists x s, In x xs /\ In s (S_of [sq] x) /\ cparents s = [sq] /\
                                              f = (s, {| craw := craw (xc x); cparents := [d] |})).
  { intros f Hf. apply flows_of_In in Hf. destruct Hf as (p & s & Hp & Hs & ->). unfold own_pairs in Hp. apply in_map_iff in Hp.
    destruct Hp as (x & <- & Hx). cbn [fst snd] in *. exists x, s. split; [exact Hx|]. split; [exact Hs|]. split; [exact (S_of_single_parent sq x s Hs)|].
    rewrite (own_col_eq d x (Hxs0 x Hx)). reflexivity. }
  assert (Rc : forall f, In f (FI ++ FO) -> has_edge G (NCol (fst f)) (NCol (snd f)) = true).
  { intros f Hf. rewrite HEc by reflexivity. unfold ematch. apply existsb_exists. exists (NCol (fst f), NCol (snd f)).
    split; [apply in_map_iff; exists f; auto|]. cbn [fst snd]. rewrite !node_eqb_refl. reflexivity. }
  assert (Hmid : forall c, cparents c = [sq] -> is_mid c = true).
  { intros c Ec. unfold is_mid. cbn [parent_is]. unfold col_parent. rewrite Ec, Hks. reflexivity. }
  assert (Hnomid : forall s, ((exists v, In v ts' /\ cparents s = [v]) \/ 2 <= List.length (cparents s)) -> is_mid s = false).
  { intros s [(v & Hv & Ev)|Hl]; unfold is_mid; cbn [parent_is].
    - unfold col_parent. rewrite Ev, (go_tables _ _ Hgo v Hv). reflexivity.
    - rewrite (col_parent_none _ Hl). reflexivity. }
  (* a column of the target or of the sub-query is no source column of the inner SELECT *)
  assert (Hfresh : forall s c, ((exists v, In v ts' /\ cparents s = [v]) \/ 2 <= List.length (cparents s)) ->
                               (cparents c = [sq] \/ cparents c = [d]) -> col_eqb c s = false).
  { intros s c Hs Hc. unfold col_eqb. apply andb_false_iff. right.
    destruct Hs as [(v & Hv & Ev)|Hl].
    - unfold col_parent. rewrite Ev. destruct Hc as [-> | ->]; cbn [opt_dataset_eqb]; rewrite dataset_eqb_sym; [apply Hsqd|apply (go_target _ _ Hgo)]; exact Hv.
    - rewrite (col_parent_none _ Hl). unfold col_parent. destruct Hc as [-> | ->]; reflexivity. }
  split; [|split; [|split]].
  - (* clean_holder *)
    split.
    + intros n a Hin. destruct (attr_true "drop" a) eqn:E; [|reflexivity]. exfalso. apply attr_true_In in E.
      exact (Dsub n a Hin E).
    + intros e0 He0. pose proof (Esub e0 He0) as Hi. unfold edge_inv in Hi.
      destruct (snd (fst e0)); [destruct Hi as [-> | ->]; reflexivity|destruct Hi as [-> | ->]; reflexivity|destruct Hi as [-> _]; reflexivity].
  - (* unresolved columns *)
    apply (lits_weaken (QK (d :: sq :: ts') (PCm ts' NM sq d))); [|exact LG]. intros n Hn u Hu. destruct n as [|c|]; cbn [unresolved] in Hu; try discriminate.
    cbn [QK] in Hn. destruct Hn as [[(p & Ep & _)|(nm & Hnm & -> & Enm & Hlen)]|[Ep|Ep]]; try (rewrite Ep in Hu; cbn in Hu; discriminate).
    destruct (Nat.ltb 1 (List.length (cparents (Ucol ts' nm)))); [|discriminate]. inversion Hu. subst u. clear Hu.
    destruct (Ucol_props ts' nm Hinj) as (U1 & _ & U3). split.
    + unfold candidates_in_graph. apply flat_map_none. intros p Hp. rewrite U1.
      destruct (has_edge G (NData p) (NCol (mk_col nm p))) eqn:Ehe; [|reflexivity]. exfalso.
      apply U3 in Hp. rewrite HE in Ehe. unfold EL_of in Ehe. rewrite !ematch_app, !ematch_alias_ycol in Ehe. cbn [orb] in Ehe.
      apply orb_true_iff in Ehe. destruct Ehe as [Ehe|Ehe]; apply ematch_sel_data in Ehe;
        destruct Ehe as (x' & s' & Hx' & Hs' & [[K _]|(sp & Esp & K1 & K2)]).
      * rewrite (Hsqd p Hp) in K. discriminate.
      * unfold own_pairs in Hx'. apply in_map_iff in Hx'. destruct Hx' as (x1 & <- & Hx1). cbn [fst] in Hs'.
        destruct (S_of_props d ts' xs' x1 Hgo Hinj Hkd Hx1 (Hxs' x1 Hx1)) as (_ & _ & _ & _ & A5).
        destruct (A5 s' Hs') as [(v & Hv & Ev)|(nm' & _ & -> & _ & Hl')].
        -- unfold col_parent in Esp. rewrite Ev in Esp. inversion Esp. subst sp.
           pose proof (proj1 Hinj p v Hp Hv K1) as Epv. subst v.
           cbn [node_eqb] in K2. unfold col_eqb in K2. apply andb_true_iff in K2. destruct K2 as [K2 _]. apply String.eqb_eq in K2.
           unfold col_str, col_parent, mk_col in K2. cbn [cparents craw] in K2. rewrite Ev, (go_tables _ _ Hgo p Hp), Enm in K2.
           apply append_cancel in K2. apply append_cancel in K2. apply (HNQ x1 s' nm p Hnm Hx1 Hs' Ev). symmetry. exact K2.
        -- rewrite (col_parent_none _ Hl') in Esp. discriminate.
      * rewrite (go_target _ _ Hgo p Hp) in K. discriminate.
      * unfold own_pairs in Hx'. apply in_map_iff in Hx'. destruct Hx' as (x1 & <- & Hx1). cbn [fst] in Hs'.
        pose proof (S_of_single_parent sq x1 s' Hs') as Ep'. unfold col_parent in Esp. rewrite Ep' in Esp. inversion Esp. subst sp.
        rewrite (Hsqd p Hp) in K1. discriminate.
    + destruct (HNM nm Hnm) as (x & Hx & Hs). exists (NCol (own_col sq x)).
      apply (Rc (Ucol ts' nm, own_col sq x)). apply in_app_iff. left. apply flows_of_In. exists (x, own_col sq x), (Ucol ts' nm).
      split; [unfold own_pairs; apply in_map_iff; exists x; auto|]. auto.
  - (* realises *)
    constructor.
    + intros x y Hx Hxy. rewrite (HEc x y Hx) in Hxy. unfold ematch in Hxy. apply existsb_exists in Hxy.
      destruct Hxy as (p & Hp & E). apply in_map_iff in Hp. destruct Hp as (f & <- & Hf). cbn [fst snd] in E.
      apply andb_true_iff in E. exists f. tauto.
    + exact Rc.
    + intros f Hf. apply in_app_iff in Hf. destruct Hf as [Hf|Hf].
      * apply flows_of_In in Hf. destruct Hf as (p & s & Hp & Hs & ->). cbn [fst snd].
        apply (HN (NCol s, NCol (snd p))). apply in_app_iff. left.
        unfold EL_of. apply in_app_iff. right. unfold sel_edges. apply in_flat_map. exists p. split; [exact Hp|]. apply in_flat_map. exists s.
        split; [exact Hs|]. left. reflexivity.
      * apply flows_of_In in Hf. destruct Hf as (p & s & Hp & Hs & ->). cbn [fst snd].
        apply (HN (NCol s, NCol (snd p))). apply in_app_iff. right.
        unfold EL_of. apply in_app_iff. right. unfold sel_edges. apply in_flat_map. exists p. split; [exact Hp|]. apply in_flat_map. exists s.
        split; [exact Hs|]. left. reflexivity.
    + apply (lits_weaken (QK (d :: sq :: ts') (PCm ts' NM sq d))); [|exact LG]. intros n Hn f Hf E.
      apply in_app_iff in Hf. destruct Hf as [Hf|Hf].
      * destruct (HFI f Hf) as (x & s & _ & _ & -> & [(v & _ & Ev)|(nm & _ & -> & _ & Hl)]); cbn [fst] in *.
        -- apply (src_str_eqb_single n s v); [unfold col_parent; rewrite Ev; reflexivity|exact E].
        -- destruct n as [|c|]; cbn [node_eqb] in E; try discriminate. cbn [QK] in Hn.
           unfold col_eqb in E. apply andb_true_iff in E. destruct E as [E1 E2]. rewrite (col_parent_none _ Hl) in E2.
           destruct Hn as [[(p & Ep & _)|(nm' & _ & -> & _ & Hl')]|[Ep|Ep]]; try (unfold col_parent in E2; rewrite Ep in E2; discriminate).
           apply String.eqb_eq in E1. unfold col_str in E1. rewrite (col_parent_none _ Hl), (col_parent_none _ Hl') in E1.
           rewrite (proj1 (Ucol_props ts' nm Hinj)), (proj1 (Ucol_props ts' nm' Hinj)) in E1. subst nm'. reflexivity.
      * destruct (HFO f Hf) as (x & s & _ & _ & Ep & ->). cbn [fst] in *.
        apply (src_str_eqb_single n s sq); [unfold col_parent; rewrite Ep; reflexivity|exact E].
  - (* two layers *)
    assert (KI : forall f, In f FI -> ((exists v, In v ts' /\ cparents (fst f) = [v]) \/ 2 <= List.length (cparents (fst f))) /\ cparents (snd f) = [sq]).
    { intros f Hf. destruct (HFI f Hf) as (x & s & _ & _ & -> & [H|(nm & _ & _ & _ & Hl)]); cbn [fst snd cparents]; auto. }
    assert (KO : forall f, In f FO -> cparents (fst f) = [sq] /\ cparents (snd f) = [d]).
    { intros f Hf. destruct (HFO f Hf) as (x & s & _ & _ & Ep & ->). cbn [fst snd cparents]. auto. }
    constructor.
    + intros f Hf. apply Hnomid. exact (proj1 (KI f Hf)).
    + intros f Hf. apply Hmid. exact (proj2 (KI f Hf)).
    + intros f Hf. cbn [parent_is]. unfold col_parent. rewrite (proj2 (KO f Hf)), Hkd. reflexivity.
    + intros f f' Hf Hf'. apply in_app_iff in Hf'. destruct Hf' as [Hf'|Hf'].
      * apply Hfresh; [exact (proj1 (KI f' Hf'))|right; exact (proj2 (KO f Hf))].
      * unfold col_eqb. apply andb_false_iff. right. unfold col_parent. rewrite (proj2 (KO f Hf)), (proj1 (KO f' Hf')).
        cbn [opt_dataset_eqb]. unfold dataset_eqb. rewrite Hkd, Hks. reflexivity.
    + intros f f' Hf Hm. rewrite (Hmid _ (proj1 (KO f Hf))) in Hm. discriminate.
    + intros f f' Hf Hf'. apply Hfresh; [exact (proj1 (KI f Hf))|]. apply in_app_iff in Hf'. destruct Hf' as [Hf'|Hf'].
      * left. exact (proj2 (KI f' Hf')).
      * right. exact (proj2 (KO f' Hf')).
    + intros f Hf _. destruct (HFO f Hf) as (x & s & Hx & Hs & Ep & ->). cbn [fst].
      destruct (Hfed x s Hx Hs) as (x' & Hx' & Ec & Hne). destruct (S_of ts' x') as [|s' r] eqn:ES; [congruence|].
      exists (s', own_col sq x'). split.
      * apply flows_of_In. exists (x', own_col sq x'), s'. split; [unfold own_pairs; apply in_map_iff; exists x'; auto|].
        cbn [fst snd]. rewrite ES. split; [left; reflexivity|reflexivity].
      * cbn [snd]. destruct (Hxs' x' Hx') as (A1 & _). rewrite (own_col_eq sq x' A1), Ec.
        destruct s as [cs ps]. cbn [cparents craw] in *. subst ps. apply col_eqb_refl.
Qed.

(* ================================================================== *)
(** * Part F: the WHEN clauses of a MERGE, for any holder invariant that [add_column_lineage] maintains
    ([mrg_sets_exact] / [mrg_values_exact] of Tree/LemmaBDml.v are the instance for a base-table source) *)
Section MergeFolds.
Variable noise : list seg.
Hypothesis Hnoise : noise_ok noise = true.
Variables d d1 : dataset.
Hypothesis Hd : dk d = KTable.
Variable Inv : graph -> Prop.
Hypothesis Hacl : forall g a b, Inv g ->
  exists g', add_column_lineage g (plain_col b (Some d1)) (plain_col a (Some d)) = Ok g' /\
             ext g g' (acl_edges (plain_col b (Some d1)) (plain_col a (Some d)) d) /\ Inv g' /\
             (forall k, holder_nodes g' k = holder_nodes g k).

Lemma st_write_same g g' : (forall k, holder_nodes g' k = holder_nodes g k) -> st_write g' = st_write g.
Proof. intros H. unfold st_write, sq_write. rewrite H. reflexivity. Qed.

Lemma sel_edges_cons1' x s l :
  S_m d1 x = [s] -> sel_edges d (S_m d1) (own_pairs d (x :: l)) = acl_edges s (own_col d x) d ++ sel_edges d (S_m d1) (own_pairs d l).
Proof. intros H. unfold sel_edges, own_pairs. cbn [map flat_map fst snd]. rewrite H. cbn [flat_map]. rewrite app_nil_r. reflexivity. Qed.

Lemma mrg_sets_gen sets : forall g,
  Inv g -> nth_res (st_write g) 0 = Ok d ->
  exists g', fold_left (mrg_set (Some d1)) (map (r_setc noise) sets) (Ok g) = Ok g' /\
             ext g g' (sel_edges d (S_m d1) (own_pairs d (map setc_xcol sets))) /\ Inv g' /\
             (forall k, holder_nodes g' k = holder_nodes g k).
Proof.
  induction sets as [|s r IH]; intros g Hinv Hw.
  - exists g. split; [reflexivity|]. split; [apply ext_refl|]. split; [exact Hinv|reflexivity].
  - cbn [map fold_left]. unfold mrg_set at 2. unfold mrg_set_body.
    assert (E : get_children (r_setc noise s) ["column_reference"] = [r_colref None (fst (fst s)); r_colref (snd (fst s)) (snd s)]).
    { unfold r_setc. rewrite (get_children_sep noise Hnoise) by reflexivity. reflexivity. }
    rewrite E, !ecq_colref. destruct (st_write g) as [|w' r'] eqn:Ew; [discriminate Hw|]. inversion Hw. subst w'. cbn [fst].
    destruct (Hacl g (fst (fst s)) (snd s) Hinv) as (g1 & E1 & X1 & I1 & T1). rewrite E1.
    destruct (IH g1 I1) as (g' & E' & X' & I'' & T'); [rewrite (st_write_same g g1 T1), Ew; reflexivity|].
    exists g'. split; [exact E'|]. split.
    + rewrite (sel_edges_cons1' (setc_xcol s) (plain_col (snd s) (Some d1))) by reflexivity.
      apply (ext_trans g g1 g'); [exact X1|exact X'].
    + split; [exact I''|]. intros k. rewrite T', T1. reflexivity.
Qed.

Lemma mrg_values_gen cols vals : forall j g,
  Inv g -> nth_res (st_write g) 0 = Ok d ->
  exists g', fst (fold_left (mrg_value (Some d1) (map (fun c => plain_col c (Some d)) cols)) (map r_valx vals) (Ok g, j)) = Ok g' /\
             ext g g' (sel_edges d (S_m d1) (own_pairs d (map ins_xcol (combine (skipn j cols) vals)))) /\ Inv g' /\
             (forall k, holder_nodes g' k = holder_nodes g k).
Proof.
  induction vals as [|v r IH]; intros j g Hinv Hw.
  - exists g. split; [reflexivity|]. rewrite combine_nil. split; [apply ext_refl|]. split; [exact Hinv|reflexivity].
  - cbn [map fold_left]. unfold mrg_value at 2. unfold mrg_value_body.
    change (get_child (r_valx v) ["column_reference"]) with (Some (r_colref (fst v) (snd v))). cbn iota. rewrite ecq_colref. cbn [fst].
    rewrite nth_error_map. destruct (nth_error cols j) as [c|] eqn:En; cbn [option_map].
    + rewrite (skipn_nth cols j c En).
      destruct (Hacl g c (snd v) Hinv) as (g1 & E1 & X1 & I1 & T1). rewrite E1.
      destruct (IH (S j) g1 I1) as (g' & E' & X' & I'' & T'); [rewrite (st_write_same g g1 T1); exact Hw|].
      exists g'. split; [exact E'|]. split.
      * cbn [combine map]. rewrite (sel_edges_cons1' (ins_xcol (c, v)) (plain_col (snd v) (Some d1))) by reflexivity.
        apply (ext_trans g g1 g'); [exact X1|exact X'].
      * split; [exact I''|]. intros k. rewrite T', T1. reflexivity.
    + assert (Es : skipn j cols = []) by (apply nth_error_None in En; apply skipn_all2; exact En).
      rewrite Es. cbn [combine map]. destruct (IH (S j) g Hinv Hw) as (g' & E' & X' & I'' & T').
      assert (Es' : skipn (S j) cols = []) by (apply nth_error_None in En; apply skipn_all2; lia).
      rewrite Es' in X'. cbn [combine map] in X'. exists g'. auto.
Qed.

(** the whole merge_match step *)
Lemma mrg_mm_gen F e segs g i upd ins :
  Inv g -> nth_res (st_write g) 0 = Ok d ->
  exists G, mrg_step F e segs (Ok (g, false, false, Some d1), i) (r_merge_match noise upd ins) = (Ok (G, false, false, Some d1), S i) /\
            ext g G (sel_edges d (S_m d1) (own_pairs d (mrg_xs upd ins))) /\ Inv G /\ (forall k, holder_nodes G k = holder_nodes g k).
Proof.
  intros Hinv Hw. rewrite (mrg_mm noise Hnoise), (matched_fold_eq noise Hnoise).
  destruct (mrg_sets_gen upd g Hinv Hw) as (g2 & E2 & X2 & I2 & T2). rewrite E2.
  assert (Hw2 : nth_res (st_write g2) 0 = Ok d) by (rewrite (st_write_same g g2 T2); exact Hw).
  rewrite (not_matched_fold_eq noise Hnoise (Some d1) g2 d ins Hw2).
  assert (Hfin : exists G, match ins with
                           | None => Ok g2
                           | Some (cols, vals) => fst (fold_left (mrg_value (Some d1) (map (fun c => plain_col c (Some d)) cols)) (map r_valx vals) (Ok g2, 0))
                           end = Ok G /\
                           ext g2 G (sel_edges d (S_m d1) (own_pairs d (map ins_xcol (ins_pairs ins)))) /\ Inv G /\
                           (forall k, holder_nodes G k = holder_nodes g2 k)).
  { destruct ins as [[cols vals]|].
    - destruct (mrg_values_gen cols vals 0 g2 I2 Hw2) as (G & EG & XG & IG & TG). exists G. auto.
    - exists g2. split; [reflexivity|]. split; [apply ext_refl|]. split; [exact I2|reflexivity]. }
  destruct Hfin as (G & EG & XG & IG & TG). rewrite EG. exists G. split; [reflexivity|]. split; [|split; [exact IG|]].
  - unfold mrg_xs, own_pairs, sel_edges. rewrite map_app, flat_map_app. apply (ext_trans g g2 G); [exact X2|exact XG].
  - intros k. rewrite TG, T2. reflexivity.
Qed.
End MergeFolds.

(* ================================================================== *)
(** * Part H: the holder of MERGE INTO t USING (SELECT items' FROM base tables) a ... *)
Section NavMD.
Variable noise : list seg.
Hypothesis Hnoise : noise_ok noise = true.
Variable e : env.
Hypothesis Henv : env_ok e = true.

Lemma merge_derived_holder t al a items' from' cj' upd ins :
  tref_ok t = true -> opt_id_ok al = true -> id_ok a = true ->
  let q' := QSelect items' from' cj' None in
  iq_ok q' = true ->
  let d := tbl e t None in let ts' := map (tbl_of e) from' in let xs' := map xcol_of items' in let xs := mrg_xs upd ins in
  let sq := sqd noise (q_size (QSelect [] [RDerived q' a] false None)) q' a in
  group_ok d ts' -> ts_inj ts' -> names_nodot ts' -> (forall x, In x xs' -> xref_ok ts' x /\ nostar_x x) ->
  let NM := unres_names ts' xs' in
  exists G, analyze e false (r_dml noise (DMerge t al (RDerived q' a) upd ins)) = Ok G /\
            (forall x y, has_edge G x y = ematch x y (EL_of sq ts' xs') ||
                                          ematch x y ([(NData sq, NStr (dalias sq))] ++ sel_edges d (S_m sq) (own_pairs d xs))) /\
            (forall p, In p (EL_of sq ts' xs' ++ ([(NData sq, NStr (dalias sq))] ++ sel_edges d (S_m sq) (own_pairs d xs))) ->
                       has_node G (fst p) = true /\ has_node G (snd p) = true) /\
            lits_in (QK (d :: sq :: ts') (PCm ts' NM sq d)) G /\ edges_inv (sq :: ts') G /\ drop_free G.
Proof.
  intros Ht Hal Ha q' Hq' d ts' xs' xs sq Hgo Hinj Hnd Hxs' NM.
  set (k := q_size (QSelect [] [RDerived q' a] false None)) in *.
  assert (Ek : exists k0, k = S k0) by (eexists; reflexivity). destruct Ek as (k0 & Ek).
  pose proof Hq' as Hq'0. unfold q' in Hq'0. cbn [iq_ok] in Hq'0. apply andb_true_iff in Hq'0. destruct Hq'0 as [Hq'0 Hrel'].
  apply andb_true_iff in Hq'0. destruct Hq'0 as [Hit' Hne'].
  assert (Hne'' : from' <> []) by (destruct from'; [discriminate|discriminate]).
  assert (Hbq : body_ok k q' = true) by (rewrite Ek; apply iq_ok_body; exact Hq').
  assert (Hdo : Forall data_ok ts').
  { apply Forall_forall. intros v Hv. unfold data_ok. rewrite (go_tables _ _ Hgo v Hv).
    apply in_map_iff in Hv. destruct Hv as (r & <- & _). destruct r; reflexivity. }
  assert (Hxo : Forall xcol_ok xs').
  { apply Forall_forall. intros x Hx. apply in_map_iff in Hx. destruct Hx as (i & <- & Hi). apply xcol_ok_of.
    rewrite forallb_forall in Hit'. apply Hit'. exact Hi. }
  assert (Hks : dk sq = KSubq) by reflexivity.
  assert (Hds : data_ok sq) by (unfold data_ok, sq, sqd, mk_subquery; cbn [dk dquery]; discriminate).
  assert (Hdd : data_ok d) by reflexivity.
  assert (Hsqd : forall v, In v ts' -> dataset_eqb v sq = false).
  { intros v Hv. unfold dataset_eqb. rewrite (go_tables _ _ Hgo v Hv), Hks. reflexivity. }
  set (PC := PCg ts' NM sq d). set (DS := d :: sq :: ts').
  (* the statement *)
  set (suf := [on_clause noise; r_merge_match noise upd ins]).
  set (tail := d_using noise k (RDerived q' a) ++ suf).
  set (L := [kw "merge"; kw "into"; r_tref t] ++ al_list noise al ++ kw "using" :: tail).
  set (stmt := node "merge_statement" ["merge_statement"] (sep noise L)).
  assert (Es : r_dml noise (DMerge t al (RDerived q' a) upd ins) = stmt) by reflexivity. rewrite Es.
  assert (Ea : analyze e false stmt = extract_merge (S (S (3 * depth stmt + 8))) e stmt).
  { replace (S (S (3 * depth stmt + 8))) with (3 * depth stmt + 10) by lia. reflexivity. }
  assert (Elcs : list_child_segments stmt true = L).
  { unfold stmt. rewrite (lcs_node noise Hnoise) by reflexivity. unfold L, tail, suf. destruct al; reflexivity. }
  assert (Hnx : nth_error L (S (4 + List.length (al_list noise al))) = Some (r_alias noise a)).
  { unfold L, tail. destruct al; reflexivity. }
  assert (Hfuel : qd k q' < S (S (3 * depth stmt + 8))).
  { assert (Hb : In (r_brq noise k q') L).
    { unfold L, tail. apply in_app_iff. right. apply in_app_iff. right. right. apply in_app_iff. left. left. reflexivity. }
    assert (Hin : S (depth (r_brq noise k q')) <= depth stmt).
    { apply depth_child. unfold stmt. cbn [children node]. apply (In_sep noise). exact Hb. }
    pose proof (depth_sub _ _ (sub_rq_brq noise k q')). pose proof (depth_qd noise k q'). lia. }
  rewrite Ea, extract_merge_eq, Elcs. clearbody stmt. set (f := 3 * depth stmt + 8) in *. clearbody f. set (segs := L) at 1.
  assert (Hnx' : nth_error segs (S (4 + List.length (al_list noise al))) = Some (r_alias noise a)) by exact Hnx.
  clearbody segs. clear Hnx.
  unfold L. cbn [app fold_left]. rewrite mrg_kw_merge, mrg_kw_into, mrg_tref_tgt, (table_of_seg_exact e Henv t None Ht I).
  fold d. set (g_b := add_write empty_graph d).
  assert (Epre : fold_left (mrg_step (S (S f)) e segs) (al_list noise al ++ kw "using" :: tail) (Ok (g_b, false, false, None), 3) =
                 fold_left (mrg_step (S (S f)) e segs) tail (Ok (g_b, false, true, None), 4 + List.length (al_list noise al))).
  { destruct al as [a0|]; cbn [al_list app fold_left List.length]; [rewrite mrg_alias|]; rewrite mrg_kw_using; reflexivity. }
  rewrite Epre. unfold tail. cbn [d_using app fold_left]. rewrite (d_brq_eq noise).
  revert Hbq Hfuel. rewrite Ek. intros Hbq Hfuel.
  rewrite (mrg_brq_src noise Hnoise e (S (S f)) segs g_b None _ k0 q' a Hnx' Hbq). cbv zeta.
  change (mk_sq noise (S k0, q', Some a)) with (sqd noise (S k0) q' a). rewrite <- Ek. fold sq.
  set (g3 := add_read g_b sq).
  assert (Ecte : sq_cte g3 = []) by (unfold sq_cte, g3; rewrite (tag_add_read_other g_b sq "cte" Hds) by discriminate; reflexivity).
  rewrite Ecte. rewrite Ek.
  rewrite (select_tables_extract noise Hnoise e Henv f _ items' from' cj' k0); [|apply (sel_segments_brq_select noise Hnoise)|exact Hit'|exact Hne''|exact Hrel'|reflexivity].
  cbn [init_holder c_cte c_write c_write_columns fold_left]. fold (add_write empty_graph sq). fold ts' xs'.
  (* the inner SELECT *)
  assert (Gin : group2 (sq :: ts') ts' ts' sq).
  { constructor; auto.
    - intros v Hv. right. exact Hv.
    - left. reflexivity.
    - rewrite Forall_forall in Hdo. exact Hdo.
    - intros v w [<-|Hv] [<-|Hw] E; [reflexivity| | |exact (go_distinct _ _ Hgo v w Hv Hw E)].
      + rewrite dataset_eqb_sym, (Hsqd w Hw) in E. discriminate.
      + rewrite (Hsqd v Hv) in E. discriminate. }
  assert (HPCstar : forall c, PC c -> String.eqb (craw c) "*" = false) by (intros c [H _]; exact H).
  destruct (select_core2 PC e (sq :: ts') ts' sq ts' xs' (S_of ts') (add_write empty_graph sq) Gin HPCstar) as (sh & Esh & Xsh & Ish & Tsh).
  { split; [intros n [<-|[]]; left; reflexivity|intros e0 []]. }
  { intros e0 []. }
  { intros n a0 [H|[]]. inversion H. intros [K|[]]. discriminate K. }
  { reflexivity. }
  { reflexivity. }
  { intros g2 Hinv x Hx. apply (HS_of PC e sq ts' g2 x); auto.
    - constructor; [exact (go_tables _ _ Hgo)|exact (go_distinct _ _ Hgo)|exact Hsqd].
    - apply sel_inv2_sel_inv. exact Hinv.
    - exact (proj1 (Hxs' x Hx)). }
  { intros x Hx. destruct (Hxs' x Hx) as [Hxr Hxn].
    destruct (S_of_props d ts' xs' x Hgo Hinj eq_refl Hx Hxr) as (A1 & _ & A3 & A4 & _). split; [exact A1|]. split; [|split; [exact A3|]].
    - split; [rewrite (own_col_eq sq x A1); exact (proj1 Hxn)|]. right. left. rewrite (own_col_eq sq x A1). reflexivity.
    - intros s Hs. destruct (A4 s Hs) as [B1 B2]. split; [|exact B2]. split; [exact (S_of_nostar ts' x s Hxn Hs)|left; exact B1]. }
  rewrite Esh. rewrite mrg_alias.
  set (G1 := compose g3 sh).
  (* the holder before the WHEN clauses *)
  set (PCM := PCm ts' NM sq d).
  assert (HPCw : forall n, QK (sq :: ts') PC n -> QK DS PCM n).
  { intros n. destruct n as [v|c|s0]; cbn [QK]; [intros H; right; exact H|intros [_ H]; exact H|auto]. }
  assert (X3 : ext g_b g3 [(NData sq, NStr (dalias sq))]).
  { unfold g3. rewrite (add_read_eq g_b sq Hds).
    apply (ext_trans g_b (add_node g_b (NData sq) [("read", true)]) _ [] [(NData sq, NStr (dalias sq))]); [apply ext_add_node|apply ext_add_edge]. }
  assert (L3 : lits_in (QK DS PCM) g3).
  { unfold g3. apply lits_add_read; [|right; left; reflexivity|exact I]. split; [intros n [<-|[]]; left; reflexivity|intros e0 []]. }
  assert (E3 : edges_inv (sq :: ts') g3).
  { unfold g3. rewrite (add_read_eq g_b sq Hds). apply edges_inv_add_edge; [apply edges_inv_add_node; intros e0 []|].
    split; [reflexivity|]. exists sq. split; [reflexivity|]. split; [left; reflexivity|reflexivity]. }
  assert (D3 : drop_free g3).
  { unfold g3. rewrite (add_read_eq g_b sq Hds). apply drop_free_add_edge. apply drop_free_add_node.
    - intros n a0 [H|[]]. inversion H. intros [K|[]]. discriminate K.
    - intros [K|[]]. discriminate K. }
  assert (L1 : lits_in (QK DS PCM) G1).
  { apply lits_compose; [exact L3|]. apply (lits_weaken (QK (sq :: ts') PC)); [exact HPCw|exact (si2_lits _ _ _ _ _ Ish)]. }
  assert (E1 : edges_inv (sq :: ts') G1).
  { apply edges_inv_compose; [exact E3|]. apply (edges_inv_mono ts'); [intros v Hv; right; exact Hv|exact (si2_edges _ _ _ _ _ Ish)]. }
  assert (D1 : drop_free G1) by (apply drop_free_compose; [exact D3|exact (si2_drop _ _ _ _ _ Ish)]).
  assert (HE1 : forall x y, has_edge G1 x y = ematch x y [(NData sq, NStr (dalias sq))] || ematch x y (EL_of sq ts' xs')).
  { intros x y. unfold G1. rewrite has_edge_compose, (ext_edges _ _ _ X3), (ext_edges _ _ _ Xsh), !has_edge_add_write. reflexivity. }
  (* its first non-sub-query write is the target *)
  assert (Hw1 : nth_res (st_write G1) 0 = Ok d).
  { destruct (merge_sub noise Hnoise e Henv (S (S f)) k q' a g_b d [] (UF_init d Hdd) Hdd eq_refl) as (sub' & Es' & HM & _).
    - rewrite Ek. exact Hbq.
    - rewrite Ek. exact Hfuel.
    - change (mk_sq noise (k, q', Some a)) with sq in Es', HM. fold g3 in Es', HM. rewrite Ecte in Es'.
      revert Es'. rewrite Ek.
      rewrite (select_tables_extract noise Hnoise e Henv f _ items' from' cj' k0); [|apply (sel_segments_brq_select noise Hnoise)|exact Hit'|exact Hne''|exact Hrel'|reflexivity].
      cbn [init_holder c_cte c_write c_write_columns fold_left]. fold (add_write empty_graph sq). fold ts' xs'. rewrite Esh.
      intros Es'. inversion Es'. subst sub'. exact (MF_w0 _ _ _ HM). }
  (* the WHEN clauses *)
  assert (Gout : group2 DS (sq :: ts') [sq] d).
  { constructor.
    - intros v [<-|[]]. left. reflexivity.
    - intros v Hv. right. exact Hv.
    - left. reflexivity.
    - intros v [<-|[]]. exact Hds.
    - intros v w Hv Hw E. destruct Hv as [<-|Hv], Hw as [<-|Hw]; [reflexivity| | |exact (g2_distinct _ _ _ _ Gin v w Hv Hw E)].
      + destruct Hw as [<-|Hw]; [discriminate E|]. rewrite dataset_eqb_sym, (go_target _ _ Hgo w Hw) in E. discriminate.
      + destruct Hv as [<-|Hv]; [discriminate E|]. rewrite (go_target _ _ Hgo v Hv) in E. discriminate.
    - intros v [<-|[]]. reflexivity. }
  set (Inv := fun g => lits_in (QK DS PCM) g /\ edges_inv (sq :: ts') g /\ drop_free g).
  assert (Hacl : forall g a0 b, Inv g ->
            exists g', add_column_lineage g (plain_col b (Some sq)) (plain_col a0 (Some d)) = Ok g' /\
                       ext g g' (acl_edges (plain_col b (Some sq)) (plain_col a0 (Some d)) d) /\ Inv g' /\
                       (forall k1, holder_nodes g' k1 = holder_nodes g k1)).
  { intros g a0 b (I1 & I2 & I3).
    destruct (acl_ok2 PCM DS (sq :: ts') [sq] d g (plain_col b (Some sq)) (plain_col a0 (Some d)) Gout eq_refl) as (g' & E' & X' & L' & I' & T' & _ & D').
    - right. right. reflexivity.
    - right. left. reflexivity.
    - intros p [<-|[]]. left. reflexivity.
    - exact I1.
    - exact I2.
    - exists g'. split; [exact E'|]. split; [exact X'|]. split; [|exact T']. split; [exact L'|]. split; [exact I'|exact (D' I3)]. }
  assert (Eal : forall g i, fold_left (mrg_step (S (S f)) e segs) suf (Ok (g, false, false, Some sq), i) =
                            fold_left (mrg_step (S (S f)) e segs) [r_merge_match noise upd ins] (Ok (g, false, false, Some sq), S i)).
  { intros g i. unfold suf. cbn [fold_left]. rewrite mrg_on. reflexivity. }
  match goal with |- context [fold_left _ suf (_, ?i)] => set (idx := i) end.
  rewrite Eal. cbn [fold_left].
  destruct (mrg_mm_gen noise Hnoise d sq Inv Hacl (S (S f)) e segs G1 (S idx) upd ins (conj L1 (conj E1 D1)) Hw1) as (G & EG & XG & (LG & IG & DG) & TG).
  rewrite EG. exists G. split; [reflexivity|]. split; [|split; [|split; [exact LG|split; [exact IG|exact DG]]]].
  - intros x y. unfold xs. rewrite (ext_edges _ _ _ XG), HE1, !ematch_cons. change (ematch x y []) with false. rewrite orb_false_r.
    destruct (node_eqb x (fst (NData sq, NStr (dalias sq))) && node_eqb y (snd (NData sq, NStr (dalias sq))));
      destruct (ematch x y (EL_of sq ts' xs')); destruct (ematch x y (sel_edges d (S_m sq) (own_pairs d (mrg_xs upd ins)))); reflexivity.
  - intros p Hp. apply in_app_iff in Hp. destruct Hp as [Hp|[Hp|Hp]].
    + destruct (ext_new _ _ _ Xsh p Hp) as [N1 N2]. split; apply (ext_mono _ _ _ XG); unfold G1; rewrite has_node_compose; [rewrite N1|rewrite N2]; apply orb_true_r.
    + destruct (ext_new _ _ _ X3 p (or_introl Hp)) as [N1 N2]. split; apply (ext_mono _ _ _ XG); unfold G1; rewrite has_node_compose; [rewrite N1|rewrite N2]; reflexivity.
    + exact (ext_new _ _ _ XG p Hp).
Qed.
End NavMD.

(* ================================================================== *)
(** * the model side: the reported pairs are the inner flows composed with the flows of the WHEN clauses *)
Lemma S_m_S_of sq x : xref_ok [sq] x -> S_m sq x = S_of [sq] x.
Proof.
  intros (_ & c & qq & Ex & _ & Hq). unfold S_m, S_of. rewrite Ex. destruct qq as [q0|]; [|reflexivity].
  destruct Hq as (v & [<-|[]] & Eq & _). cbn [find]. rewrite Eq, String.eqb_refl. reflexivity.
Qed.

Lemma sel_edges_S_ext d S S' l : (forall p, In p l -> S (fst p) = S' (fst p)) -> sel_edges d S l = sel_edges d S' l.
Proof. intros H. unfold sel_edges. apply flat_map_ext_in'. intros p Hp. rewrite (H p Hp). reflexivity. Qed.

Theorem model_pairs_merge_derived noise e t al a items' from' cj' upd ins :
  noise_ok noise = true -> env_ok e = true ->
  tref_ok t = true -> opt_id_ok al = true -> id_ok a = true ->
  let q' := QSelect items' from' cj' None in
  iq_ok q' = true ->
  let d := tbl e t None in let ts' := map (tbl_of e) from' in
  let xs' := map xcol_of items' in let xs := mrg_xs upd ins in
  let sq := sqd noise (q_size (QSelect [] [RDerived q' a] false None)) q' a in
  group_ok d ts' -> ts_inj ts' -> names_nodot ts' ->
  (forall x, In x xs' -> xref_ok ts' x /\ nostar_x x) -> noqual ts' xs' ->
  (forall x, In x xs -> xref_ok [sq] x) ->
  (forall x s0, In x xs -> In s0 (S_of [sq] x) -> exists x', In x' xs' /\ craw (xc x') = craw s0 /\ S_of ts' x' <> []) ->
  script_pairs e false [] [r_dml noise (DMerge t al (RDerived q' a) upd ins)] =
  uniq_sorted (sort_strings (map flow_str (compose_flows (flows_of (S_of ts') (own_pairs sq xs')) (flows_of (S_of [sq]) (own_pairs d xs))))).
Proof.
  intros Hn He Ht Hal Ha q' Hq' d ts' xs' xs sq Hgo Hinj Hnd Hxs' Hnq Hxs Hfed.
  set (e' := with_cols e (view_cols [] [])).
  assert (He' : env_ok e' = true) by exact He.
  destruct (merge_derived_holder noise Hn e' He' t al a items' from' cj' upd ins Ht Hal Ha Hq' Hgo Hinj Hnd Hxs') as (G & Ea & HE & HN & LG & IG & DG).
  assert (HE' : forall x y, has_edge G x y = ematch x y (EL_of sq ts' xs') ||
                                          ematch x y ([(NData sq, NStr (dalias sq))] ++ sel_edges d (S_m sq) (own_pairs d xs))) by exact HE.
  assert (HN' : forall p, In p (EL_of sq ts' xs' ++ ([(NData sq, NStr (dalias sq))] ++ sel_edges d (S_m sq) (own_pairs d xs))) ->
                          has_node G (fst p) = true /\ has_node G (snd p) = true) by exact HN.
  assert (LG' : lits_in (QK (d :: sq :: ts') (PCm ts' (unres_names ts' xs') sq d)) G) by exact LG.
  assert (IG' : edges_inv (sq :: ts') G) by exact IG.
  clear HE HN LG IG. rename HE' into HE. rename HN' into HN. rename LG' into LG. rename IG' into IG.
  assert (ES : sel_edges d (S_m sq) (own_pairs d xs) = sel_edges d (S_of [sq]) (own_pairs d xs)).
  { apply sel_edges_S_ext. intros p Hp. unfold own_pairs in Hp. apply in_map_iff in Hp. destruct Hp as (x & <- & Hx). cbn [fst].
    apply S_m_S_of. exact (Hxs x Hx). }
  rewrite ES in HE, HN.
  destruct (realises_two_layer_g d sq ts' xs' xs G eq_refl eq_refl Hgo Hinj (fun x Hx => proj1 (Hxs' x Hx))) as (C1 & C2 & C3 & C4); auto.
  - intros x Hx. exact (proj1 (Hxs x Hx)).
  - intros nm Hnm. unfold unres_names in Hnm.
    assert (Hns : forall (A : Type) (f : dataset -> A) (g : A), In nm (match ts' with [_] => [] | _ => [nm] end) -> match ts' with [d1] => f d1 | _ => g end = g).
    { intros A f g. destruct ts' as [|a0 [|b r]]; [reflexivity|intros []|reflexivity]. }
    assert (Hin : In nm (flat_map (fun x => match xsrc x with [(c, None)] => [c] | _ => [] end) xs') /\ In nm (match ts' with [_] => [] | _ => [nm] end)).
    { destruct ts' as [|a0 [|b r]]; [split; [exact Hnm|left; reflexivity]|destruct Hnm|split; [exact Hnm|left; reflexivity]]. }
    destruct Hin as [Hin Hsh]. apply in_flat_map in Hin. destruct Hin as (x & Hx & Hin). exists x. split; [exact Hx|].
    unfold S_of. destruct (xsrc x) as [|[c qq] rest]; [destruct Hin|]. destruct qq as [q0|]; [destruct Hin|].
    destruct rest as [|p r]; [|destruct Hin]. destruct Hin as [->|[]].
    rewrite (Hns _ _ _ Hsh). left. reflexivity.
  - intros x' s' nm v Hnm Hx' Hs' Ev. unfold unres_names in Hnm.
    assert (Hm : In nm (flat_map (fun x => match xsrc x with [(c, None)] => [c] | _ => [] end) xs') /\ (forall d1, ts' <> [d1])).
    { destruct ts' as [|a0 [|b r]]; [split; [exact Hnm|discriminate]|destruct Hnm|split; [exact Hnm|discriminate]]. }
    destruct Hm as [Hin Hns]. apply in_flat_map in Hin. destruct Hin as (x & Hx & Hin).
    destruct (proj1 (Hxs' x Hx)) as (_ & c & qq & Ex & _ & Hq). rewrite Ex in Hin. destruct qq as [q0|]; [destruct Hin|]. destruct Hin as [->|[]].
    destruct Hq as [(d1 & Ed)|[Hmul _]]; [exfalso; exact (Hns d1 Ed)|].
    destruct (proj1 (Hxs' x' Hx')) as (_ & c' & qq' & Ex' & _ & Hq''). unfold S_of in Hs'. rewrite Ex' in Hs'. destruct qq' as [q0'|].
    + destruct Hq'' as (v' & Hv' & Eq' & Hu'). rewrite (find_dalias ts' q0' v' Hv' Eq' (fun w Hw E => Hu' w Hw (or_introl E))) in Hs'.
      destruct Hs' as [<-|[]]. cbn [craw]. apply (Hnq x x' nm c' q0' Hx Hx' Ex Ex' Hmul).
    + rewrite (multi_not_single ts' _ _ _ Hmul) in Hs'. destruct Hs' as [<-|[]].
      destruct (Ucol_props ts' c' Hinj) as (_ & _ & U3). destruct Hmul as (a0 & b & Ha0 & Hb & Hab).
      pose proof (two_members _ a0 b (proj2 (U3 a0) Ha0) (proj2 (U3 b) Hb) Hab) as Hl. rewrite Ev in Hl. cbn in Hl. lia.
  - apply (script_pairs_two_layer e _ _ _ _ Ea (proj1 (env_facts e He)) C1 C2 C3 C4).
Qed.
Print Assumptions model_pairs_merge_derived.

(* ================================================================== *)
(** * MERGE with a derived-table source: guard, theorem (partial), disagreements *)
Definition mrg_derived_ctas (t : tref) (a : string) (q' : query) (upd : list setc)
                            (ins : option (list string * list (option string * string))) : stmt :=
  SCtas t (QSelect (map set_item (mrg_trip upd ins)) [RDerived q' a] false None).

(** executable guard: the statement CREATE TABLE t AS SELECT <assignments> FROM (q') a is in the fragment of
    [lemma_B_one_derived_restricted]: q' = SELECT plain column items FROM distinct base tables (not the target), inner
    references resolved; every SET / VALUES source is a.c or c with c an output column of q' (no star, no missing column) *)
Definition mrg_derived_cols_ok (t : tref) (al : option string) (a : string) (q' : query) (upd : list setc)
                               (ins : option (list string * list (option string * string))) : bool :=
  opt_id_ok al && negb (match upd, ins with [], None => true | _, _ => false end) && one_derived_shape (mrg_derived_ctas t a q' upd ins).

(** PARTIAL: besides the executable guard, the semantic conditions of [model_pairs_one_derived] are assumed (for the
    CTAS of the fragment they are derived inside the proof of [lemma_B_one_derived]; that derivation is not exported) *)
Theorem lemma_B_merge_derived_partial noise e t al a items' from' cj' upd ins :
  noise_ok noise = true -> env_ok e = true ->
  let q' := QSelect items' from' cj' None in
  mrg_derived_cols_ok t al a q' upd ins = true ->
  let items := map set_item (mrg_trip upd ins) in
  let d := tbl e t None in let ts' := map (tbl_of e) from' in let xs' := map xcol_of items' in let xs := map xcol_of items in
  let sq := sqd noise (q_size (QSelect [] [RDerived q' a] false None)) q' a in
  group_ok d ts' -> ts_inj ts' -> names_nodot ts' ->
  (forall x, In x xs' -> xref_ok ts' x /\ nostar_x x) -> noqual ts' xs' ->
  (forall x, In x xs -> xref_ok [sq] x /\ nostar_x x) ->
  (forall x s0, In x xs -> In s0 (S_of [sq] x) -> exists x', In x' xs' /\ craw (xc x') = craw s0 /\ S_of ts' x' <> []) ->
  script_pairs e false [] [r_dml noise (DMerge t al (RDerived q' a) upd ins)] = dml_pairs (e_cfg e) (DMerge t al (RDerived q' a) upd ins).
Proof.
  intros Hn He q' Hok items d ts' xs' xs sq Hgo Hinj Hnd Hxs' Hnq Hxs Hfed.
  unfold mrg_derived_cols_ok in Hok. apply andb_true_iff in Hok. destruct Hok as [Hok Hsh]. apply andb_true_iff in Hok. destruct Hok as [Hal _].
  pose proof Hsh as Hsh0. unfold mrg_derived_ctas, q' in Hsh0. cbn [one_derived_shape] in Hsh0. fold items in Hsh0.
  do 8 (apply andb_true_iff in Hsh0; let H' := fresh "G" in destruct Hsh0 as [Hsh0 H']).
  set (s := mrg_derived_ctas t a q' upd ins).
  transitivity (script_pairs e false [] [r_stmt noise s]).
  - assert (Hxm : forall x, In x (mrg_xs upd ins) -> exists s0, In s0 (mrg_trip upd ins) /\ x = setc_xcol s0 /\ In (xcol_of (set_item s0)) xs).
    { intros x Hx. rewrite mrg_xs_trip in Hx. apply in_map_iff in Hx. destruct Hx as (s0 & <- & Hs0). exists s0. split; [exact Hs0|]. split; [reflexivity|].
      unfold xs, items. rewrite map_map. apply in_map_iff. exists s0. auto. }
    unfold q'. rewrite (model_pairs_merge_derived noise e t al a items' from' cj' upd ins Hn He Hsh0 Hal G5 G4 Hgo Hinj Hnd Hxs' Hnq).
    + rewrite (model_pairs_one_derived noise e s t items a items' from' false cj' Hn He (or_intror (or_introl eq_refl)) Hsh0 G6 G5 G4 Hgo Hinj Hnd Hxs' Hnq Hxs Hfed).
      f_equal. f_equal. f_equal. f_equal. rewrite mrg_xs_trip. unfold xs, items. rewrite map_map. apply flows_xcol_ext. exact set_xcol_same.
    + intros x Hx. destruct (Hxm x Hx) as (s0 & _ & -> & Hin). destruct (set_xcol_same s0) as [E1 E2].
      apply (xref_ok_ext _ (xcol_of (set_item s0)) _ E1 E2). exact (proj1 (Hxs _ Hin)).
    + intros x s1 Hx Hs1. destruct (Hxm x Hx) as (s0 & _ & -> & Hin). apply (Hfed (xcol_of (set_item s0)) s1 Hin).
      unfold S_of in *. rewrite <- (proj2 (set_xcol_same s0)). exact Hs1.
  - rewrite (lemma_B_one_derived_restricted noise e s Hn He Hsh). unfold dml_pairs, dml_flows, spec_pairs, s, mrg_derived_ctas.
    cbn [dml_flow_query dml_target spec_flows]. rewrite mrg_items_trip. reflexivity.
Qed.
Print Assumptions lemma_B_merge_derived_partial.

(** ** the disagreements: both outside the guard *)
Definition selD (c al v : string) : query := QSelect [IExpr (EColRef None c) (Some al)] [RTable (None, v) None] false None.
(** merge into t using (select c as b from v) as s on 1 = 1 when matched then update set a = s.zz :
    the source has no column zz; the implementation reports  s.zz -> t.a  (a column of the sub-query with no origin) *)
Definition cxD_missing_col : dml := DMerge (None, "t") None (RDerived (selD "c" "b" "v") "s") [("a", Some "s", "zz")] None.
(** merge into t using (select * from v) as s on 1 = 1 when matched then update set a = s.b : reported  s.b -> t.a *)
Definition cxD_star_source : dml :=
  DMerge (None, "t") None (RDerived (QSelect [IStar None] [RTable (None, "v") None] false None) "s") [("a", Some "s", "b")] None.
Lemma merge_derived_missing_col_refuted :
  script_pairs e_dml false [] [r_dml [] cxD_missing_col] = ["s.zz><default>.t.a"] /\ dml_pairs "" cxD_missing_col = [] /\
  mrg_derived_cols_ok (None, "t") None "s" (selD "c" "b" "v") [("a", Some "s", "zz")] None = false.
Proof. vm_compute. repeat split; reflexivity. Qed.
Lemma merge_derived_star_refuted :
  script_pairs e_dml false [] [r_dml [] cxD_star_source] = ["s.b><default>.t.a"] /\ dml_pairs "" cxD_star_source = [] /\
  mrg_derived_cols_ok (None, "t") None "s" (QSelect [IStar None] [RTable (None, "v") None] false None) [("a", Some "s", "b")] None = false.
Proof. vm_compute. repeat split; reflexivity. Qed.

(** non-vacuity of the guard, and the statement on an instance inside it (with trivia) *)
Definition mrgD_q : query :=
  QSelect [IExpr (EColRef (Some "v") "c") (Some "b"); IExpr (EColRef None "k") None; IExpr (EColRef (Some "w") "d") None]
          [RTable (None, "v") None; RTable (Some "s2", "w") None] false None.
Definition mrgD_ex : dml :=
  DMerge (None, "t") (Some "x") (RDerived mrgD_q "s") [("a", Some "s", "b"); ("c", None, "d")] (Some (["k"; "a"], [(Some "s", "k"); (None, "b")])).
Example merge_derived_nonvacuous :
  mrg_derived_cols_ok (None, "t") (Some "x") "s" mrgD_q [("a", Some "s", "b"); ("c", None, "d")] (Some (["k"; "a"], [(Some "s", "k"); (None, "b")])) = true /\
  dml_pairs "" mrgD_ex = ["<default>.v.c><default>.t.a"; "k{<default>.v,s2.w}><default>.t.k"; "s2.w.d><default>.t.c"] /\
  script_pairs e_dml false [] [r_dml noise3 mrgD_ex] = dml_pairs "" mrgD_ex.
Proof. vm_compute. repeat split; reflexivity. Qed.
