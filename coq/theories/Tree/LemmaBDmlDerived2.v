(** Lemma B (columns) for MERGE with a derived-table source, unconditional: the semantic conditions that
    [lemma_B_merge_derived_partial] (Tree/LemmaBDmlDerived.v) assumes follow from the executable guard
    [mrg_derived_cols_ok] (the derivation is the one [lemma_B_one_derived] of Tree/LemmaB5c.v performs internally). *)
From Coq Require Import Lia.
From SV Require Import Ast.SpecDmlCols Tree.RenderDml Tree.LemmaA Tree.LemmaAProofs Tree.LemmaADmlDefs Tree.LemmaADml
     Tree.LemmaB Tree.LemmaBProofs Tree.LemmaB5cPaths Tree.LemmaB5c Tree.LemmaBDml Tree.LemmaBDmlDerived Ident.Escape Ident.EscapeProofs.

(** the semantic bundle, from the conditions on the syntax *)
Lemma merge_derived_bundle noise e t a items items' from' cj' :
  tref_ok t = true -> forallb item_ok items = true -> id_ok a = true ->
  let q' := QSelect items' from' cj' None in
  iq_ok q' = true -> forallb plain_item items' = true ->
  tables_cond (e_cfg e) t from' -> items_cond from' items' -> noqual_items from' items' -> outer_cond a items items' ->
  let d := tbl e t None in let ts' := map (tbl_of e) from' in let xs' := map xcol_of items' in let xs := map xcol_of items in
  let sq := sqd noise (q_size (QSelect [] [RDerived q' a] false None)) q' a in
  group_ok d ts' /\ ts_inj ts' /\ names_nodot ts' /\
  (forall x, In x xs' -> xref_ok ts' x /\ nostar_x x) /\ noqual ts' xs' /\
  (forall x, In x xs -> xref_ok [sq] x /\ nostar_x x) /\
  (forall x s0, In x xs -> In s0 (S_of [sq] x) -> exists x', In x' xs' /\ craw (xc x') = craw s0 /\ S_of ts' x' <> []).
Proof.
  intros Ht Hit Ha q' Hq' Hpl' Htc Hic Hnq Hout d ts' xs' xs sq.
  pose proof Hq' as Hq'0. unfold q' in Hq'0. cbn [iq_ok] in Hq'0. apply andb_true_iff in Hq'0. destruct Hq'0 as [Hq'0 Hrel'].
  apply andb_true_iff in Hq'0. destruct Hq'0 as [Hit' Hne'].
  assert (Hal : dalias sq = a) by (unfold sq, sqd, mk_subquery; cbn [dalias]; apply id_ok_escape; exact Ha).
  pose proof Hit' as Hit'b. rewrite forallb_forall in Hit, Hit', Hpl'.
  split; [exact (group_ok_of e t from' Hrel' Htc)|]. split; [exact (ts_inj_of e t from' Hrel' Htc)|]. split; [exact (names_nodot_of e from' Hrel')|].
  split; [|split; [|split]].
  - intros x Hx. split; [apply (xref_ok_of e t from' items' Hrel' Hit'b Htc Hic x Hx)|].
    apply in_map_iff in Hx. destruct Hx as (i & <- & Hi). apply nostar_of; auto.
  - apply noqual_of; [exact Hit'b|exact Hnq].
  - intros x Hx. apply in_map_iff in Hx. destruct Hx as (i & <- & Hi). destruct (Hout i Hi) as (Hp & Hq & _).
    split; [|apply nostar_of; auto]. destruct (xcol_of_facts i (Hit i Hi)) as (F1 & F2 & F3 & F4).
    split; [rewrite F1; reflexivity|]. exists (fst (item_ref i)), (snd (item_ref i)). split; [rewrite F2; destruct (item_ref i); reflexivity|].
    split; [exact F3|]. destruct Hq as [-> | ->]; [left; exists sq; reflexivity|].
    exists sq. split; [left; reflexivity|]. split; [exact Hal|]. intros w [<-|[]] _. reflexivity.
  - intros x s0 Hx Hs0. apply in_map_iff in Hx. destruct Hx as (i & <- & Hi). destruct (Hout i Hi) as (Hp & Hq & Hin).
    rewrite (S_of_outer sq a i (Hit i Hi) Hal Hq) in Hs0. destruct Hs0 as [<-|[]]. cbn [craw].
    apply in_map_iff in Hin. destruct Hin as (i' & En & Hi'). exists (xcol_of i'). split; [apply in_map; exact Hi'|].
    destruct (xcol_of_facts i' (Hit' i' Hi')) as (F1 & _). split; [rewrite F1; exact En|].
    apply xref_ok_nonempty. apply (xref_ok_of e t from' items' Hrel' Hit'b Htc Hic). apply in_map. exact Hi'.
Qed.

Theorem lemma_B_merge_derived : forall noise e t al a q' upd ins,
  noise_ok noise = true -> env_ok e = true -> mrg_derived_cols_ok t al a q' upd ins = true ->
  script_pairs e false [] [r_dml noise (DMerge t al (RDerived q' a) upd ins)] = dml_pairs (e_cfg e) (DMerge t al (RDerived q' a) upd ins).
Proof.
  intros noise e t al a q' upd ins Hn He Hok.
  assert (Hshape : exists items' from' cj', q' = QSelect items' from' cj' None).
  { unfold mrg_derived_cols_ok in Hok. apply andb_true_iff in Hok. destruct Hok as [_ Hsh]. unfold mrg_derived_ctas in Hsh. cbn [one_derived_shape] in Hsh.
    destruct q' as [items' from' cj' [wh|]| |]; try discriminate Hsh. eexists _, _, _. reflexivity. }
  destruct Hshape as (items' & from' & cj' & ->).
  pose proof Hok as Hok0. unfold mrg_derived_cols_ok in Hok0. apply andb_true_iff in Hok0. destruct Hok0 as [_ Hsh].
  unfold mrg_derived_ctas in Hsh. cbn [one_derived_shape] in Hsh.
  do 8 (apply andb_true_iff in Hsh; let H' := fresh "G" in destruct Hsh as [Hsh H']).
  pose proof G4 as Hq'. cbn [iq_ok] in G4. apply andb_true_iff in G4. destruct G4 as [_ Hrel'].
  destruct (merge_derived_bundle noise e t a (map set_item (mrg_trip upd ins)) items' from' cj' Hsh G6 G5 Hq' G3
              (tables_condb_ok (e_cfg e) t from' Hsh Hrel' G2) (items_condb_ok from' items' G1) (noqual_itemsb_ok from' items' G0)
              (outer_condb_ok a _ items' G)) as (B1 & B2 & B3 & B4 & B5 & B6 & B7).
  exact (lemma_B_merge_derived_partial noise e t al a items' from' cj' upd ins Hn He Hok B1 B2 B3 B4 B5 B6 B7).
Qed.
Print Assumptions lemma_B_merge_derived.

(** with this, the column-level theorem for UPDATE / MERGE covers a derived-table source as well *)
Definition dml_cols_ok2 (d : dml) : bool :=
  match d with
  | DMerge t al (RDerived q' a) upd ins => mrg_derived_cols_ok t al a q' upd ins
  | _ => dml_cols_ok d
  end.

Theorem lemma_B_dml2 : forall noise e d,
  noise_ok noise = true -> env_ok e = true -> dml_cols_ok2 d = true ->
  script_pairs e false [] [r_dml noise d] = dml_pairs (e_cfg e) d.
Proof.
  intros noise e d Hn He Hok. destruct d as [t al sets from cj wh|t al [u al2|q a|x y] upd ins|t items from cj wh];
    try (apply lemma_B_dml; assumption).
  apply lemma_B_merge_derived; assumption.
Qed.
Print Assumptions lemma_B_dml2.

Example lemma_B_merge_derived_nonvacuous :
  dml_cols_ok2 mrgD_ex = true /\ dml_cols_ok2 updB_ex = true /\ dml_cols_ok2 mrgB_ex = true /\
  dml_cols_ok2 cxD_missing_col = false /\ dml_cols_ok2 cxD_star_source = false /\
  script_pairs e_dml false [] [r_dml noise3 mrgD_ex] = dml_pairs "" mrgD_ex.
Proof. vm_compute. repeat split; reflexivity. Qed.
