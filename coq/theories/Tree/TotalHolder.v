(** C10 on ALL segment trees, part 3: the holder operations (core/holders.py, Tree/Holder.v).  Graph invariant [GI]:
    every SubQuery dataset in the graph (node, edge end or column parent) carries its query; "cte" tags sit on
    SubQuery nodes only; a "write" tag is reset to False on SubQuery nodes only. *)
From SV Require Import Tree.Observe Tree.TriviaProofs Tree.TotalDefs Tree.TotalLeaves.
Require Import Lia.
Open Scope string_scope.
Open Scope list_scope.

Definition ds_ok (d : dataset) : Prop := dk d = KSubq -> dquery d <> None.
Definition col_ok (c : column) : Prop := forall d, In d (cparents c) -> ds_ok d.
Definition nd_ok (n : node) : Prop :=
  match n with NData d => ds_ok d | NCol c => col_ok c | NStr _ => True end.
Definition at_ok (n : node) (a : nattrs) : Prop :=
  match n with
  | NData d => (In ("cte", true) a -> dk d = KSubq) /\ (dk d <> KSubq -> ~ In ("write", false) a)
  | _ => True
  end.
Definition GI (g : graph) : Prop :=
  (forall n a, In (n, a) (gnodes g) -> nd_ok n /\ at_ok n a) /\
  (forall e, In e (gedges g) -> nd_ok (fst (fst e)) /\ nd_ok (snd (fst e))).

Lemma GI_empty : GI empty_graph.
Proof. split; intros ? ; cbn; try intros ? []; intros []. Qed.

Lemma at_ok_nil n : at_ok n [].
Proof. destruct n; cbn; auto. split; [intros []|intros _ []]. Qed.

Lemma In_attr_set kv k v a : In kv (attr_set k v a) -> kv = (k, v) \/ In kv a.
Proof.
  induction a as [|[k' v'] r IH]; cbn [attr_set]; intros H.
  - destruct H as [<-|[]]. left; reflexivity.
  - destruct (String.eqb k k').
    + destruct H as [<-|H]; [left; reflexivity|right; right; exact H].
    + destruct H as [<-|H]; [right; left; reflexivity|]. destruct (IH H) as [K|K]; [left; exact K|right; right; exact K].
Qed.

Lemma In_attr_update kv b : forall a, In kv (attr_update a b) -> In kv a \/ In kv b.
Proof.
  induction b as [|[k v] r IH]; intros a H; cbn [attr_update] in H; [left; exact H|].
  destruct (IH _ H) as [K|K]; [|right; right; exact K].
  destruct (In_attr_set _ _ _ _ K) as [->|K2]; [right; left; reflexivity|left; exact K2].
Qed.

Lemma dataset_eqb_dk a b : dataset_eqb a b = true -> dk a = dk b.
Proof. unfold dataset_eqb. intros H. apply andb_true_iff in H. exact (internal_dkind_dec_bl _ _ (proj1 H)). Qed.

Lemma at_ok_update n m a b : node_eqb n m = true -> at_ok n a -> at_ok m b -> at_ok m (attr_update b a).
Proof.
  destruct n as [d| |], m as [d'| |]; cbn [node_eqb at_ok]; try discriminate; auto.
  intros E [A1 A2] [B1 B2]. apply dataset_eqb_dk in E. split.
  - intros H. destruct (In_attr_update _ _ _ H) as [K|K]; [exact (B1 K)|rewrite <- E; exact (A1 K)].
  - intros Hk H. destruct (In_attr_update _ _ _ H) as [K|K]; [exact (B2 Hk K)|]. apply (A2 (eq_ind_r (fun x => x <> KSubq) Hk E) K).
Qed.

Lemma upsert_inv n a l :
  (forall m b, In (m, b) l -> nd_ok m /\ at_ok m b) -> nd_ok n -> at_ok n a ->
  forall m b, In (m, b) (upsert_node n a l) -> nd_ok m /\ at_ok m b.
Proof.
  induction l as [|[m0 b0] r IH]; intros Hl Hn Ha m b H; cbn [upsert_node] in H.
  - destruct H as [H|[]]. inversion H; subst. split; assumption.
  - destruct (node_eqb n m0) eqn:E.
    + destruct H as [H|H]; [|apply Hl; right; exact H]. inversion H; subst.
      destruct (Hl m b0 (or_introl eq_refl)) as [K1 K2]. split; [exact K1|exact (at_ok_update n m a b0 E Ha K2)].
    + destruct H as [H|H]; [inversion H; subst; apply Hl; left; reflexivity|].
      apply (IH (fun m' b' Hin => Hl m' b' (or_intror Hin)) Hn Ha m b H).
Qed.

Lemma GI_add_node g n a : GI g -> nd_ok n -> at_ok n a -> GI (add_node g n a).
Proof. intros [G1 G2] Hn Ha. split; [exact (upsert_inv n a _ G1 Hn Ha)|exact G2]. Qed.

Lemma canon_ok n l : nd_ok n -> (forall m b, In (m, b) l -> nd_ok m) -> nd_ok (canon_l n l).
Proof.
  intros Hn. induction l as [|[m b] r IH]; intros Hl; cbn [canon_l]; [exact Hn|].
  destruct (node_eqb n m); [exact (Hl m b (or_introl eq_refl))|]. apply IH. intros m' b' H. exact (Hl m' b' (or_intror H)).
Qed.

Lemma upsert_edge_inv u v a l :
  nd_ok u -> nd_ok v -> (forall e, In e l -> nd_ok (fst (fst e)) /\ nd_ok (snd (fst e))) ->
  forall e, In e (upsert_edge u v a l) -> nd_ok (fst (fst e)) /\ nd_ok (snd (fst e)).
Proof.
  intros Hu Hv. induction l as [|e0 r IH]; intros Hl e H; cbn [upsert_edge] in H.
  - destruct H as [<-|[]]. split; assumption.
  - destruct (edge_is u v e0).
    + destruct H as [<-|H]; [exact (Hl e0 (or_introl eq_refl))|exact (Hl e (or_intror H))].
    + destruct H as [<-|H]; [exact (Hl e0 (or_introl eq_refl))|]. exact (IH (fun e' He' => Hl e' (or_intror He')) e H).
Qed.

Lemma GI_add_edge g u v a : GI g -> nd_ok u -> nd_ok v -> GI (add_edge g u v a).
Proof.
  intros G Hu Hv. pose proof (GI_add_node _ v [] (GI_add_node g u [] G Hu (at_ok_nil u)) Hv (at_ok_nil v)) as [G1 G2].
  unfold add_edge. split; [exact G1|]. cbn [gedges].
  assert (Hn : forall m b, In (m, b) (gnodes (add_node (add_node g u []) v [])) -> nd_ok m) by (intros m b H; exact (proj1 (G1 m b H))).
  apply upsert_edge_inv; [apply canon_ok; assumption|apply canon_ok; assumption|exact G2].
Qed.

Lemma GI_remove_node g n : GI g -> GI (remove_node g n).
Proof.
  intros [G1 G2]. split.
  - intros m a H. apply filter_In in H. exact (G1 m a (proj1 H)).
  - intros e H. apply filter_In in H. exact (G2 e (proj1 H)).
Qed.

Lemma GI_set_attr_write sq g : GI g -> dk sq = KSubq -> GI (set_attr g [NData sq] "write" false).
Proof.
  intros [G1 G2] Hk. split; [|exact G2]. intros n a H. cbn [set_attr gnodes] in H. apply in_map_iff in H.
  destruct H as ([n0 a0] & E & Hin). destruct (G1 n0 a0 Hin) as [K1 K2]. cbn [fst snd existsb] in E. rewrite orb_false_r in E.
  destruct (node_eqb n0 (NData sq)) eqn:En; [|inversion E; subst; split; assumption].
  inversion E; subst. split; [exact K1|]. destruct n as [d| |]; cbn [node_eqb] in En; try discriminate. cbn [at_ok] in *.
  apply dataset_eqb_dk in En. destruct K2 as [B1 B2]. split.
  - intros H. destruct (In_attr_set _ _ _ _ H) as [K|K]; [discriminate K|exact (B1 K)].
  - intros Hd. destruct Hd. rewrite En. exact Hk.
Qed.

Lemma GI_compose g h : GI g -> GI h -> GI (compose g h).
Proof.
  intros [G1 G2] [H1 H2]. unfold compose.
  assert (N : forall hl l, (forall n a, In (n, a) hl -> nd_ok n /\ at_ok n a) -> (forall n a, In (n, a) l -> nd_ok n /\ at_ok n a) ->
              forall n a, In (n, a) (fold_left (fun l p => upsert_node (fst p) (snd p) l) hl l) -> nd_ok n /\ at_ok n a).
  { induction hl as [|[n0 a0] r IH]; intros l Hh Hl; cbn [fold_left]; [exact Hl|].
    apply IH; [intros n a Hin; apply Hh; right; exact Hin|]. cbn [fst snd].
    destruct (Hh n0 a0 (or_introl eq_refl)) as [K1 K2]. exact (upsert_inv n0 a0 l Hl K1 K2). }
  pose proof (N (gnodes h) (gnodes g) H1 G1) as NS.
  set (ns := fold_left (fun l p => upsert_node (fst p) (snd p) l) (gnodes h) (gnodes g)) in *.
  split; [exact NS|]. cbn [gedges].
  assert (Hn : forall m b, In (m, b) ns -> nd_ok m) by (intros m b H; exact (proj1 (NS m b H))).
  assert (E : forall hl l, (forall e, In e hl -> nd_ok (fst (fst e)) /\ nd_ok (snd (fst e))) ->
              (forall e, In e l -> nd_ok (fst (fst e)) /\ nd_ok (snd (fst e))) ->
              forall e, In e (fold_left (fun l e => upsert_edge (canon_l (fst (fst e)) ns) (canon_l (snd (fst e)) ns) (snd e) l) hl l) ->
              nd_ok (fst (fst e)) /\ nd_ok (snd (fst e))).
  { induction hl as [|e0 r IH]; intros l Hh Hl; cbn [fold_left]; [exact Hl|].
    apply IH; [intros e He; apply Hh; right; exact He|]. destruct (Hh e0 (or_introl eq_refl)) as [K1 K2].
    apply upsert_edge_inv; [apply canon_ok; assumption|apply canon_ok; assumption|exact Hl]. }
  exact (E (gedges h) (gedges g) H2 G2).
Qed.

(** ** tagged datasets *)
Lemma attr_true_In k a : attr_true k a = true -> In (k, true) a.
Proof.
  unfold attr_true. induction a as [|[k' v] r IH]; cbn [attr_get]; [discriminate|].
  destruct (String.eqb k k') eqn:E.
  - apply String.eqb_eq in E. subst k'. destruct v; [left; reflexivity|discriminate].
  - intros H. right. exact (IH H).
Qed.

Lemma holder_nodes_in g k d : In d (holder_nodes g k) -> exists a, In (NData d, a) (gnodes g) /\ attr_true k a = true.
Proof.
  unfold holder_nodes. intros H. apply in_flat_map in H. destruct H as ([n a] & Hin & H). cbn [fst snd] in H.
  destruct n as [d'|c'|s']; [|destruct H|destruct H]. destruct (attr_true k a) eqn:E; [|destruct H]. destruct H as [<-|[]]. exists a. split; [exact Hin|exact E].
Qed.

Lemma holder_nodes_ok g k d : GI g -> In d (holder_nodes g k) -> ds_ok d.
Proof. intros [G1 _] H. destruct (holder_nodes_in g k d H) as (a & Hin & _). exact (proj1 (G1 _ _ Hin)). Qed.

Lemma sq_cte_ok g d : GI g -> In d (sq_cte g) -> dk d = KSubq /\ dquery d <> None.
Proof.
  intros [G1 _] H. destruct (holder_nodes_in g "cte" d H) as (a & Hin & Ha). destruct (G1 _ _ Hin) as [K1 [K2 _]].
  pose proof (K2 (attr_true_In _ _ Ha)) as Hk. split; [exact Hk|exact (K1 Hk)].
Qed.

Lemma at_ok_tag d k : k <> "cte" -> at_ok (NData d) [(k, true)].
Proof. intros Hk. split; [intros [H|[]]; inversion H; congruence|intros _ [H|[]]; discriminate H]. Qed.

Lemma GI_add_read g v : GI g -> ds_ok v -> GI (add_read g v).
Proof.
  intros G Hv. unfold add_read.
  assert (G1 : GI (add_node g (NData v) [("read", true)])) by (apply GI_add_node; [exact G|exact Hv|apply at_ok_tag; discriminate]).
  destruct (has_alias_attr v); [|exact G1]. apply GI_add_edge; [exact G1|exact Hv|exact I].
Qed.
Lemma GI_add_write g v : GI g -> ds_ok v -> GI (add_write g v).
Proof. intros G Hv. apply GI_add_node; [exact G|exact Hv|apply at_ok_tag; discriminate]. Qed.
Lemma GI_add_cte g v : GI g -> ds_ok v -> dk v = KSubq -> GI (add_cte g v).
Proof.
  intros G Hv Hk. apply GI_add_node; [exact G|exact Hv|]. split; [intros _; exact Hk|intros Hd; destruct (Hd Hk)].
Qed.

Lemma GI_fold (f : graph -> dataset -> graph) (P : dataset -> Prop) :
  (forall g v, GI g -> P v -> GI (f g v)) -> forall l g, GI g -> Forall P l -> GI (fold_left f l g).
Proof.
  intros Hf. induction l as [|v r IH]; intros g G Hl; cbn [fold_left]; [exact G|].
  inversion Hl; subst. apply IH; [apply Hf; assumption|assumption].
Qed.

(** ** columns *)
Lemma ds_ok_notsubq d : dk d <> KSubq -> ds_ok d.
Proof. intros H K. destruct (H K). Qed.

Lemma In_insert_parent d x l : In x (insert_parent d l) -> x = d \/ In x l.
Proof.
  induction l as [|y r IH]; cbn [insert_parent]; intros H; [destruct H as [<-|[]]; left; reflexivity|].
  destruct (_ && _); [destruct H as [<-|H]; [left; reflexivity|right; exact H]|].
  destruct H as [<-|H]; [right; left; reflexivity|]. destruct (IH H) as [K|K]; [left; exact K|right; right; exact K].
Qed.

Lemma add_parent_ok c d : col_ok c -> ds_ok d -> col_ok (add_parent c d).
Proof.
  intros Hc Hd. unfold add_parent. destruct (memd d (cparents c)); [exact Hc|]. intros x Hx. cbn [cparents] in Hx.
  destruct (In_insert_parent _ _ _ Hx) as [->|K]; [exact Hd|exact (Hc x K)].
Qed.

Lemma col_parent_ok c d : col_ok c -> col_parent c = Some d -> ds_ok d.
Proof.
  unfold col_parent. intros Hc H. destruct (cparents c) as [|x [|y r]] eqn:E; try discriminate. inversion H; subst.
  apply Hc. rewrite E. left; reflexivity.
Qed.

Lemma col_ok_nil name : col_ok {| craw := name; cparents := [] |}.
Proof. intros d []. Qed.
Lemma col_ok_one name t : ds_ok t -> col_ok {| craw := name; cparents := [t] |}.
Proof. intros H d [<-|[]]. exact H. Qed.

Lemma GI_add_write_column g cols : GI g -> Forall col_ok cols -> GI (add_write_column g cols).
Proof.
  intros G Hc. unfold add_write_column. destruct (sq_write g) as [|tgt r] eqn:E; [exact G|].
  assert (Ht : ds_ok tgt) by (apply (holder_nodes_ok g "write" tgt G); unfold sq_write in E; rewrite E; left; reflexivity).
  generalize 0 as i. revert g G E. induction cols as [|c cs IH]; intros g G E i; cbn [fold_left fst]; [exact G|].
  inversion Hc; subst.
  assert (K : forall g0 i0, GI g0 -> GI (fst (fold_left (fun (acc : graph * nat) c0 => let '(g', idx) := acc in
               (add_edge g' (NData tgt) (NCol (add_parent c0 tgt)) (e_has_column (Some idx)), S idx)) cs (g0, i0)))).
  { clear -H2 Ht. induction cs as [|c1 cs IH]; intros g0 i0 G0; cbn [fold_left fst]; [exact G0|]. inversion H2; subst.
    apply IH; [assumption|]. apply GI_add_edge; [exact G0|exact Ht|apply add_parent_ok; assumption]. }
  apply K. apply GI_add_edge; [exact G|exact Ht|apply add_parent_ok; assumption].
Qed.

Lemma allowedv_value : allowedv EValue. Proof. right; reflexivity. Qed.

Lemma add_column_lineage_okv g s t : GI g -> col_ok s -> col_ok t -> okv GI (add_column_lineage g s t).
Proof.
  intros G Hs Ht. unfold add_column_lineage. destruct (col_parent t) as [tp|] eqn:Et; [|exact allowedv_value]. cbn [okg].
  assert (G1 : GI (add_edge (add_edge g (NCol s) (NCol t) lineage_edge) (NData tp) (NCol t) (e_has_column None))).
  { apply GI_add_edge; [apply GI_add_edge; assumption|exact (col_parent_ok t tp Ht Et)|exact Ht]. }
  destruct (col_parent s) as [sp|] eqn:Es; [|exact G1]. apply GI_add_edge; [exact G1|exact (col_parent_ok s sp Hs Es)|exact Hs].
Qed.

Lemma out_edges_in g n e : In e (out_edges g n) -> In e (gedges g).
Proof. intros H. apply filter_In in H. exact (proj1 H). Qed.
Lemma in_edges_in g n e : In e (in_edges g n) -> In e (gedges g).
Proof. intros H. apply filter_In in H. exact (proj1 H). Qed.

Lemma In_insert_by_idx x y l : In y (insert_by_idx x l) -> y = x \/ In y l.
Proof.
  induction l as [|z r IH]; cbn [insert_by_idx]; intros H; [destruct H as [<-|[]]; left; reflexivity|].
  destruct (Nat.ltb _ _); [destruct H as [<-|H]; [left; reflexivity|right; exact H]|].
  destruct H as [<-|H]; [right; left; reflexivity|]. destruct (IH H) as [K|K]; [left; exact K|right; right; exact K].
Qed.

Lemma In_sort_by_idx l y : In y (sort_by_idx l) -> In y l.
Proof.
  unfold sort_by_idx. assert (K : forall l acc, In y (fold_left (fun acc x => insert_by_idx x acc) l acc) -> In y l \/ In y acc).
  { clear. induction l as [|x r IH]; intros acc H; cbn [fold_left] in H; [right; exact H|].
    destruct (IH _ H) as [K|K]; [left; right; exact K|]. destruct (In_insert_by_idx _ _ _ K) as [->|K2]; [left; left; reflexivity|right; exact K2]. }
  intros H. destruct (K l [] H) as [K1|[]]. exact K1.
Qed.

Lemma write_columns_ok g : GI g -> Forall col_ok (write_columns g).
Proof.
  intros [_ G2]. unfold write_columns. destruct (get_target_table g) as [t|]; [|constructor].
  apply Forall_forall. intros c Hc. apply in_map_iff in Hc. destruct Hc as ([c' i] & <- & Hin). cbn [fst].
  apply In_sort_by_idx in Hin. apply in_flat_map in Hin. destruct Hin as (e & He & Hin).
  destruct (String.eqb _ _); [|destruct Hin]. destruct (snd (fst e)) as [d0|c0|s0] eqn:Ee; [destruct Hin| |destruct Hin].
  destruct Hin as [Hin|[]]. inversion Hin; subst. pose proof (proj2 (G2 e (out_edges_in _ _ _ He))) as K. rewrite Ee in K. exact K.
Qed.

Lemma get_table_columns_ok g t : GI g -> Forall col_ok (get_table_columns g t).
Proof.
  intros [_ G2]. unfold get_table_columns. apply Forall_forall. intros c Hin.
  apply in_flat_map in Hin. destruct Hin as (e & He & Hin).
  destruct (String.eqb _ _); [|destruct Hin]. destruct (snd (fst e)) as [d0|c0|s0] eqn:Ee; [destruct Hin| |destruct Hin].
  destruct (String.eqb (craw c0) "*"); [destruct Hin|]. destruct Hin as [<-|[]].
  pose proof (proj2 (G2 e (out_edges_in _ _ _ He))) as K. rewrite Ee in K. exact K.
Qed.

Lemma get_source_columns_ok g n : GI g -> Forall col_ok (get_source_columns g n).
Proof.
  intros [_ G2]. unfold get_source_columns. apply Forall_forall. intros c Hin.
  apply in_flat_map in Hin. destruct Hin as (e & He & Hin).
  destruct (String.eqb _ _); [|destruct Hin]. destruct (fst (fst e)) as [d0|c0|s0] eqn:Ee; [destruct Hin| |destruct Hin].
  destruct Hin as [<-|[]]. pose proof (proj1 (G2 e (in_edges_in _ _ _ He))) as K. rewrite Ee in K. exact K.
Qed.

Lemma get_target_table_ok g t : GI g -> get_target_table g = Some t -> ds_ok t.
Proof.
  intros G. unfold get_target_table. destruct (filter _ (sq_write g)) as [|d r] eqn:E; [discriminate|]. intros H; inversion H; subst.
  assert (Hin : In t (filter (fun d => negb (memd d (sq_read g))) (sq_write g))) by (rewrite E; left; reflexivity).
  apply filter_In in Hin. exact (holder_nodes_ok g "write" t G (proj1 Hin)).
Qed.

(** ** alias mapping, to_source_columns *)
Lemma In_dict_set k v l kd : In kd (dict_set k v l) -> snd kd = v \/ In kd l.
Proof.
  induction l as [|[k' v'] r IH]; cbn [dict_set]; intros H; [destruct H as [<-|[]]; left; reflexivity|].
  destruct (String.eqb k k'); [destruct H as [<-|H]; [left; reflexivity|right; right; exact H]|].
  destruct H as [<-|H]; [right; left; reflexivity|]. destruct (IH H) as [K|K]; [left; exact K|right; right; exact K].
Qed.

Definition am_ok (am : list (string * dataset)) : Prop := forall kd, In kd am -> ds_ok (snd kd).

Lemma am_ok_fold_tables (key : dataset -> string) tables : Forall ds_ok tables -> forall m, am_ok m ->
  am_ok (fold_left (fun m t => dict_set (key t) t m) tables m).
Proof.
  induction tables as [|t r IH]; intros Ht m Hm; cbn [fold_left]; [exact Hm|]. inversion Ht; subst.
  apply IH; [assumption|]. intros kd H. destruct (In_dict_set _ _ _ _ H) as [->|K]; [assumption|exact (Hm kd K)].
Qed.

Lemma get_alias_mapping_ok g group : GI g -> Forall ds_ok group -> am_ok (get_alias_mapping g group).
Proof.
  intros [_ G2] Hg. unfold get_alias_mapping.
  assert (Ht : Forall ds_ok (filter (fun d => match dk d with KTable => true | _ => false end) group)).
  { apply Forall_forall. intros d Hd. apply filter_In in Hd. rewrite Forall_forall in Hg. exact (Hg d (proj1 Hd)). }
  apply am_ok_fold_tables; [exact Ht|]. apply am_ok_fold_tables; [exact Ht|].
  assert (K : forall es m, (forall e, In e es -> nd_ok (fst (fst e))) -> am_ok m ->
     am_ok (fold_left (fun m e => if String.eqb (etype (snd e)) "has_alias"
                 then match fst (fst e), snd (fst e) with
                      | NData src, NStr a => if memd src group then dict_set a src m else m
                      | _, _ => m
                      end
                 else m) es m)).
  { induction es as [|e r IH]; intros m He Hm; cbn [fold_left]; [exact Hm|].
    apply IH; [intros e' H'; apply He; right; exact H'|].
    destruct (String.eqb _ _); [|exact Hm]. pose proof (He e (or_introl eq_refl)) as Ke.
    destruct (fst (fst e)) as [src| |]; try exact Hm. destruct (snd (fst e)); try exact Hm.
    destruct (memd src group); [|exact Hm]. intros kd H. destruct (In_dict_set _ _ _ _ H) as [->|K]; [exact Ke|exact (Hm kd K)]. }
  apply K; [|intros kd []]. intros e He. unfold edges_nx in He. apply in_flat_map in He. destruct He as (p & _ & He).
  exact (proj1 (G2 e (out_edges_in _ _ _ He))).
Qed.

Lemma In_dedup_ds l : forall seen x, In x (dedup_ds l seen) -> In x l.
Proof.
  induction l as [|d r IH]; intros seen x H; cbn [dedup_ds] in H; [destruct H|].
  destruct (memd d seen); [right; exact (IH _ _ H)|]. destruct H as [<-|H]; [left; reflexivity|right; exact (IH _ _ H)].
Qed.
Lemma In_dedup_cols l : forall seen x, In x (dedup_cols l seen) -> In x l.
Proof.
  induction l as [|d r IH]; intros seen x H; cbn [dedup_cols] in H; [destruct H|].
  destruct (existsb _ seen); [right; exact (IH _ _ H)|]. destruct H as [<-|H]; [left; reflexivity|right; exact (IH _ _ H)].
Qed.

Lemma assoc_list_in {A} k (l : list (string * A)) v : assoc_list k l = Some v -> exists k', In (k', v) l.
Proof.
  induction l as [|[k' v'] r IH]; cbn [assoc_list]; [discriminate|].
  destruct (String.eqb k k'); [intros H; inversion H; subst; exists k'; left; reflexivity|].
  intros H. destruct (IH H) as (k2 & K). exists k2. right; exact K.
Qed.

Lemma fold_add_parent_ok values : Forall ds_ok values -> forall c, col_ok c -> col_ok (fold_left add_parent values c).
Proof.
  induction values as [|v r IH]; intros Hv c Hc; cbn [fold_left]; [exact Hc|]. inversion Hv; subst.
  apply IH; [assumption|apply add_parent_ok; assumption].
Qed.

Lemma to_source_columns_ok e x am : am_ok am -> okr (Forall col_ok) (to_source_columns e x am).
Proof.
  intros Ham. unfold to_source_columns.
  assert (Hv : Forall ds_ok (dedup_ds (map snd am) [])).
  { apply Forall_forall. intros d Hd. apply In_dedup_ds in Hd. apply in_map_iff in Hd. destruct Hd as (kd & <- & Hin). exact (Ham kd Hin). }
  apply (okr_bind (Forall col_ok)).
  - apply okr_concat_map. intros [src_col qualifier] _. destruct qualifier as [q|].
    + destruct (assoc_list q am) as [t|] eqn:Ea.
      * cbn [okg]. constructor; [|constructor]. apply col_ok_one. destruct (assoc_list_in _ _ _ Ea) as (k' & Hin). exact (Ham _ Hin).
      * apply (okr_bind (fun d => dk d = KTable)); [apply mk_table_ok|]. intros t Ht. cbn [okg]. constructor; [|constructor].
        apply col_ok_one. apply ds_ok_notsubq. rewrite Ht. discriminate.
    + destruct (String.eqb src_col "*"); cbn [okg].
      * apply Forall_map_intro. intros t Ht. apply col_ok_one. rewrite Forall_forall in Hv. exact (Hv t Ht).
      * constructor; [|constructor]. apply fold_add_parent_ok; [exact Hv|apply col_ok_nil].
  - intros cols Hcols. cbn [okg]. apply Forall_forall. intros c Hc. apply In_dedup_cols in Hc. rewrite Forall_forall in Hcols. exact (Hcols c Hc).
Qed.

(** ** wildcard expansion *)
Lemma replace_wildcard_okv g tgt src_cols tw sw : GI g -> ds_ok tgt -> Forall col_ok src_cols ->
  okv GI (replace_wildcard g tgt src_cols tw sw).
Proof.
  intros G Ht Hs. unfold replace_wildcard.
  match goal with |- okg _ _ (match ?FOLD with Ok _ => _ | Err _ => _ end) => assert (K : okv GI FOLD) end.
  { apply (okr_fold GI (fun g' sc =>
                        let newc := {| craw := escape (craw sc); cparents := [tgt] |} in
                        if existsb (col_eqb newc) (get_table_columns g tgt) || String.eqb (craw sc) "*" then Ok g'
                        else
                          match col_parent sc with
                          | None => Err EValue
                          | Some sp =>
                              Ok (add_edge (add_edge (add_edge g' (NData tgt) (NCol newc) (e_has_column None))
                                                     (NData sp) (NCol sc) (e_has_column None))
                                           (NCol sc) (NCol newc) lineage_edge)
                          end)); [|exact G].
    intros g' sc Hsc G'. cbv zeta. destruct (_ || _); [exact G'|]. rewrite Forall_forall in Hs.
    destruct (col_parent sc) as [sp|] eqn:Es; [|exact allowedv_value]. cbn [okg].
    pose proof (col_ok_one (escape (craw sc)) tgt Ht) as Hn.
    apply GI_add_edge; [|exact (Hs sc Hsc)|exact Hn]. apply GI_add_edge; [|exact (col_parent_ok sc sp (Hs sc Hsc) Es)|exact (Hs sc Hsc)].
    apply GI_add_edge; [exact G'|exact Ht|exact Hn]. }
  apply (okr_bind GI _ _ _ K). intros g1 G1. cbn [okg].
  assert (G2 : GI (if has_node g1 (NCol tw) then remove_node g1 (NCol tw) else g1)) by (destruct (has_node g1 (NCol tw)); [apply GI_remove_node|]; exact G1).
  destruct (has_node _ (NCol sw)); [apply GI_remove_node|]; exact G2.
Qed.

Lemma expand_wildcard_okv e g : GI g -> okv GI (expand_wildcard e g).
Proof.
  intros G. unfold expand_wildcard. destruct (get_target_table g) as [tgt|] eqn:Et; [|exact G].
  pose proof (get_target_table_ok g tgt G Et) as Ht.
  apply (okr_fold GI (fun g' c => if String.eqb (craw c) "*"
                                     then fold_left (fun acc2 sw => do g'' <- acc2;
                                            match col_parent sw with
                                            | None => Ok g''
                                            | Some st =>
                                                match (match dk st with
                                                       | KSubq => get_table_columns g'' st
                                                       | KTable => if p_truthy (e_provider e) then provider_columns e st else []
                                                       | KPath => []
                                                       end) with [] => Ok g'' | _ => replace_wildcard g'' tgt _ c sw end
                                            end) (get_source_columns g' c) (Ok g')
                                     else Ok g')); [|exact G].
  intros g' c _ G'. destruct (String.eqb (craw c) "*"); [|exact G'].
  pose proof (get_source_columns_ok g' c G') as Hsw. rewrite Forall_forall in Hsw.
  apply (okr_fold GI (fun g'' sw => match col_parent sw with
                                       | None => Ok g''
                                       | Some st =>
                                           match (match dk st with
                                                  | KSubq => get_table_columns g'' st
                                                  | KTable => if p_truthy (e_provider e) then provider_columns e st else []
                                                  | KPath => []
                                                  end) with [] => Ok g'' | _ => replace_wildcard g'' tgt _ c sw end
                                       end)); [|exact G'].
  intros g2 sw Hin G2. destruct (col_parent sw) as [st|] eqn:Es; [|exact G2].
  pose proof (col_parent_ok sw st (Hsw sw Hin) Es) as Hst.
  assert (Hc : Forall col_ok (match dk st with
                              | KSubq => get_table_columns g2 st
                              | KTable => if p_truthy (e_provider e) then provider_columns e st else []
                              | KPath => [] end)).
  { destruct (dk st); [|constructor|apply get_table_columns_ok; exact G2]. destruct (p_truthy _); [|constructor].
    unfold provider_columns. apply Forall_map_intro. intros cn _. apply col_ok_one. exact Hst. }
  destruct (match dk st with KSubq => _ | KTable => _ | KPath => _ end) as [|c0 cs]; [exact G2|].
  apply replace_wildcard_okv; assumption.
Qed.

(** ** end_of_query_cleanup *)
Lemma In_firstn {A} (x : A) : forall n l, In x (firstn n l) -> In x l.
Proof. induction n as [|n IH]; intros [|y r] H; cbn [firstn] in H; try destruct H as [<-|H]; try (left; reflexivity); try destruct H. right; exact (IH _ H). Qed.
Lemma In_skipn {A} (x : A) : forall n l, In x (skipn n l) -> In x l.
Proof. induction n as [|n IH]; intros [|y r] H; cbn [skipn] in H; try exact H. right; exact (IH _ H). Qed.
Lemma In_slice {A} (x : A) l a b : In x (slice l a b) -> In x l.
Proof. unfold slice. intros H. exact (In_skipn x a l (In_firstn x _ _ H)). Qed.

Definition xcols_ok (l : list xcol) : Prop := forall x, In x l -> col_ok (xc x).

Lemma eoq_okv e g tables columns barriers : GI g -> Forall ds_ok tables -> xcols_ok columns ->
  okv GI (end_of_query_cleanup e g tables columns barriers).
Proof.
  intros G Ht Hc. unfold end_of_query_cleanup. cbv zeta.
  match goal with |- okg _ _ (fold_left _ (?GR (0, 0) ?BS) _) => set (groups := GR); set (bs := BS) end.
  assert (Hg : forall l prev grp, In grp (groups prev l) -> xcols_ok (fst grp) /\ Forall ds_ok (snd grp)).
  { induction l as [|b r IH]; intros prev grp H; [destruct H|].
    change (groups prev (b :: r)) with ((slice columns (fst prev) (fst b), slice tables (snd prev) (snd b)) :: groups b r) in H.
    destruct H as [<-|H]; [|exact (IH b grp H)]. cbn [fst snd]. split.
    - intros x Hx. exact (Hc x (In_slice _ _ _ _ Hx)).
    - apply Forall_forall. intros d Hd. rewrite Forall_forall in Ht. exact (Ht d (In_slice _ _ _ _ Hd)). }
  assert (G0 : GI (fold_left add_read tables g)) by (apply (GI_fold add_read ds_ok GI_add_read); assumption).
  apply (okr_fold GI (fun g1 (grp : list xcol * list dataset) =>
    let '(col_grp, tbl_grp) := grp in
    match sq_write g1 with
    | [] => Ok g1
    | _ :: _ :: _ => Err ELineage
    | [tgt_tbl] =>
        fst (fold_left (fun acc2 x =>
          let '(rg, idx) := acc2 in
          (do g2 <- rg;
           let own := add_parent (xc x) tgt_tbl in
           do srcs <- to_source_columns e x (get_alias_mapping g2 tbl_grp);
           let tgt := match srcs with
                      | [] => own
                      | _ => let wc := write_columns g2 in
                             if Nat.eqb (List.length wc) (List.length col_grp)
                             then match nth_error wc idx with Some c => c | None => own end
                             else own
                      end in
           fold_left (fun acc3 s => do g3 <- acc3; add_column_lineage g3 s tgt) srcs (Ok g2),
           S idx)) col_grp (Ok g1, 0))
    end)); [|exact G0].
  intros g1 [cg tg] Hgrp G1. destruct (Hg _ _ _ Hgrp) as [Hcg Htg]. cbn [fst snd] in Hcg, Htg.
  destruct (sq_write g1) as [|tgt_tbl [|d2 l2]] eqn:Ew; [exact G1| |left; reflexivity].
  assert (Htt : ds_ok tgt_tbl) by (apply (holder_nodes_ok g1 "write" tgt_tbl G1); unfold sq_write in Ew; rewrite Ew; left; reflexivity).
  apply (okr_fold_idx GI (fun g2 idx x =>
           let own := add_parent (xc x) tgt_tbl in
           do srcs <- to_source_columns e x (get_alias_mapping g2 tg);
           let tgt := match srcs with
                      | [] => own
                      | _ => let wc := write_columns g2 in
                             if Nat.eqb (List.length wc) (List.length cg)
                             then match nth_error wc idx with Some c => c | None => own end
                             else own
                      end in
           fold_left (fun acc3 s => do g3 <- acc3; add_column_lineage g3 s tgt) srcs (Ok g2))); [|exact G1].
  intros g2 idx x Hx G2. cbv zeta.
  apply (okr_bind (Forall col_ok)); [apply okr_okv; apply to_source_columns_ok; apply get_alias_mapping_ok; assumption|].
  intros srcs Hsrcs.
  pose proof (add_parent_ok (xc x) tgt_tbl (Hcg x Hx) Htt) as Hown.
  match goal with |- okg _ _ (fold_left (fun acc3 s => do g3 <- acc3; add_column_lineage g3 s ?T) _ _) => assert (HT : col_ok T) end.
  { destruct srcs as [|s0 sr]; [exact Hown|]. destruct (Nat.eqb _ _); [|exact Hown].
    destruct (nth_error (write_columns g2) idx) as [c|] eqn:En; [|exact Hown].
    pose proof (write_columns_ok g2 G2) as Hw. rewrite Forall_forall in Hw. exact (Hw c (nth_error_In _ _ En)). }
  apply (okr_fold GI (fun g3 s => add_column_lineage g3 s _)); [|exact G2].
  intros g3 s Hs G3. rewrite Forall_forall in Hsrcs. apply add_column_lineage_okv; [exact G3|exact (Hsrcs s Hs)|exact HT].
Qed.
