(** C10 on ALL segment trees, part 5: [extract] (all four extractor kinds) by induction on the fuel. *)
From SV Require Import Tree.Observe Tree.TriviaProofs Tree.LemmaAProofs Tree.HolderInv Tree.ExtractInv
     Tree.TotalDefs Tree.TotalLeaves Tree.TotalHolder Tree.TotalExtract.
Require Import Lia.
Open Scope string_scope.
Open Scope list_scope.

Definition ctx_ok (c : context) : Prop :=
  (forall l, c_cte c = Some l -> Forall (fun d => ds_ok d /\ dk d = KSubq) l) /\
  (forall l, c_write c = Some l -> Forall ds_ok l) /\
  (forall l, c_write_columns c = Some l -> Forall col_ok l).

Lemma ctx_ok_empty : ctx_ok empty_ctx.
Proof. repeat split; intros l H; discriminate H. Qed.

Lemma GI_init_holder c : ctx_ok c -> GI (init_holder c).
Proof.
  intros (C1 & C2 & C3). unfold init_holder.
  assert (G1 : GI (match c_cte c with Some l => fold_left add_cte l empty_graph | None => empty_graph end)).
  { destruct (c_cte c) as [l|]; [|exact GI_empty].
    apply (GI_fold add_cte (fun d => ds_ok d /\ dk d = KSubq)); [intros g v G [A B]; apply GI_add_cte; assumption|exact GI_empty|exact (C1 l eq_refl)]. }
  set (g1 := match c_cte c with Some l => fold_left add_cte l empty_graph | None => empty_graph end) in *.
  assert (G2 : GI (match c_write c with Some l => fold_left add_write l g1 | None => g1 end)).
  { destruct (c_write c) as [l|]; [|exact G1]. apply (GI_fold add_write ds_ok GI_add_write); [exact G1|exact (C2 l eq_refl)]. }
  destruct (c_write_columns c) as [[|x r]|]; [exact G2| |exact G2]. apply GI_add_write_column; [exact G2|exact (C3 _ eq_refl)].
Qed.

Lemma sq_write_ok g : GI g -> Forall ds_ok (sq_write g).
Proof. intros G. apply Forall_forall. intros d Hd. exact (holder_nodes_ok g "write" d G Hd). Qed.
Lemma sq_cte_ok2 g : GI g -> Forall (fun d => ds_ok d /\ dk d = KSubq) (sq_cte g).
Proof. intros G. apply Forall_forall. intros d Hd. destruct (sq_cte_ok g d G Hd) as [A B]. split; [intros _; exact B|exact A]. Qed.

Section Step.
Variables (f : nat) (e : env).
Hypothesis IH : forall k s c, escape_free s = true -> depth s <= f -> ctx_ok c -> okv GI (extract f e k s c).

Lemma ex_subquery_ok stmt subs g : Forall (subDs stmt) subs -> depth stmt <= S f -> GI g -> okv GI (ex_subquery f e subs g).
Proof.
  intros Hs Hd G. unfold ex_subquery.
  apply (okr_fold GI (fun g' sq =>
    match dquery sq with
    | None => Err "AttributeError"
    | Some q =>
        let cls := match get_child q ["with_compound_statement"] with Some _ => XCte | None => XSelect end in
        do sh <- extract f e cls q {| c_cte := Some (sq_cte g'); c_write := Some [sq]; c_write_columns := None |};
        Ok (compose g' (set_attr sh [NData sq] "write" false))
    end)); [|exact G].
  intros g' sq Hsq G'. rewrite Forall_forall in Hs. destruct (Hs sq Hsq) as [Hk (q & Eq & [Eq2 Dq])]. rewrite Eq. cbv zeta.
  apply (okr_bind GI).
  - apply IH; [exact Eq2|lia|]. split; [|split]; cbn; intros l Hl; inversion Hl; subst.
    + exact (sq_cte_ok2 g' G').
    + constructor; [intros _; rewrite Eq; discriminate|constructor].
  - intros sh Gsh. cbn [okg]. apply GI_compose; [exact G'|]. apply GI_set_attr_write; assumption.
Qed.

Lemma ex_delegate_ok k' s g ww : escape_free s = true -> depth s <= f -> GI g -> okv GI (ex_delegate f e k' s g ww).
Proof.
  intros H Hd G. unfold ex_delegate. apply (okr_bind GI).
  - apply IH; [exact H|exact Hd|]. destruct ww; (split; [|split]); cbn; intros l Hl; inversion Hl; subst.
    + exact (sq_cte_ok2 g G).
    + exact (sq_write_ok g G).
    + exact (write_columns_ok g G).
    + exact (sq_cte_ok2 g G).
  - intros sub Gs. cbn [okg]. apply GI_compose; assumption.
Qed.

(** ** XSelect *)
Lemma sel_subq1_ok stmt s : escape_free stmt = true ->
  (Ds stmt s \/ (s = stmt /\ tyis stmt "set_expression" = true)) -> okr (Forall (subDs stmt)) (sel_subq1 s).
Proof.
  intros H Hs. unfold sel_subq1.
  assert (Es : escape_free s = true) by (destruct Hs as [Hs|[-> _]]; [exact (Ds_ef _ _ Hs)|exact H]).
  assert (Dss : D stmt s) by (destruct Hs as [Hs|[-> _]]; [exact (Ds_D _ _ Hs)|exact (D_refl _ H)]).
  apply (okr_bind (Forall (subDs stmt))).
  - destruct Hs as [Hs|[-> T]]; [|exact (list_subquery_set stmt H T)].
    refine (okr_weaken _ _ _ _ (list_subquery_D s Es)). intros l Hl. exact (Forall_impl _ (fun d Hd => subD_Ds stmt s d Hs Hd) Hl).
  - intros a Ha. apply (okr_bind (Forall (subDs stmt))).
    + destruct (is_set_expression s); [|constructor]. apply okr_concat_map. intros sub Hsub.
      pose proof (Ds_get_children s _ sub Es Hsub) as Dsub. apply okr_concat_map. intros x Hx.
      pose proof (Ds_lcs sub true x (Ds_ef _ _ Dsub) Hx) as Dx.
      refine (okr_weaken _ _ _ _ (list_subquery_D x (Ds_ef _ _ Dx))). intros l Hl.
      refine (Forall_impl _ (fun d Hd => subD_Ds stmt x d _ Hd) Hl).
      apply (D_Ds_trans _ s _ Dss). exact (Ds_D_trans _ sub _ Dsub (Ds_D _ _ Dx)).
    + intros b Hb. cbn [okg]. apply Forall_app. split; assumption.
Qed.

Lemma sel_segments_in stmt s : escape_free stmt = true -> In s (sel_segments stmt) ->
  Ds stmt s \/ (s = stmt /\ tyis stmt "set_expression" = true).
Proof.
  intros H Hs. unfold sel_segments in Hs. destruct (tyis stmt "set_expression") eqn:E.
  - destruct Hs as [<-|[]]. right. split; reflexivity.
  - left. exact (Ds_lcs stmt true s H Hs).
Qed.

Lemma sel_ok_barrier st : sel_ok st -> sel_ok (add_barrier st).
Proof. intros H. exact H. Qed.

Lemma sel_children_ok st sub : escape_free sub = true -> depth sub <= S f -> sel_ok st -> okv sel_ok (sel_children f e st sub).
Proof.
  intros H Hd Hst. unfold sel_children. apply (okr_fold sel_ok (fun st4 sg => handle_child f e st4 sg)); [|exact Hst].
  intros st4 sg Hsg Hst4. apply okr_okv. destruct (Ds_lcs sub true sg H Hsg) as [Eg Dg]. apply handle_child_ok; [exact Eg|lia|exact Hst4].
Qed.

Lemma sel_step_ok st0 s : escape_free s = true -> depth s <= S f -> sel_ok st0 -> okv sel_ok (sel_step f e st0 s).
Proof.
  intros H Hd Hst. unfold sel_step. apply (okr_bind sel_ok); [apply okr_okv; apply handle_child_ok; assumption|].
  intros st1 Hst1. destruct (is_set_expression s); [|exact Hst1].
  apply (okr_fold_idx sel_ok (fun st2 idx sub => sel_children f e (match idx with O => st2 | S _ => add_barrier st2 end) sub)); [|exact Hst1].
  intros st2 i sub Hsub Hst2. destruct (Ds_get_children s _ sub H Hsub) as [Eb Db].
  apply sel_children_ok; [exact Eb|lia|]. destruct i; [exact Hst2|exact (sel_ok_barrier st2 Hst2)].
Qed.

Lemma extract_select_ok stmt ctx : escape_free stmt = true -> depth stmt <= S f -> ctx_ok ctx -> okv GI (extract (S f) e XSelect stmt ctx).
Proof.
  intros H Hd Hc. rewrite extract_select_eq.
  apply (okr_bind (Forall (subDs stmt))).
  - apply okr_okv. unfold sel_subqueries. apply okr_concat_map. intros s Hs. exact (sel_subq1_ok stmt s H (sel_segments_in stmt s H Hs)).
  - intros sqs Hsqs. apply (okr_bind GI); [exact (ex_subquery_ok stmt sqs _ Hsqs Hd (GI_init_holder ctx Hc))|]. intros g1 G1.
    apply (okr_bind sel_ok).
    + unfold sel_fold. apply (okr_fold sel_ok (fun st0 s => sel_step f e st0 s)).
      * intros st0 s Hs Hst0. destruct (sel_segments_in stmt s H Hs) as [[Es Dsx]|[-> _]]; apply sel_step_ok; try assumption. lia.
      * split; [exact G1|]. split; [constructor|intros x []].
    + intros st (G & Ht & Hx). apply (okr_bind GI); [exact (eoq_okv e _ _ _ _ G Ht Hx)|]. intros g2 G2. exact (expand_wildcard_okv e g2 G2).
Qed.

(** ** XCte *)
Definition cte_ok (stmt : seg) (a : graph * list dataset) : Prop := GI (fst a) /\ Forall (subDs stmt) (snd a).

Lemma cte_inner_ok stmt : forall l ra alias, (forall sub, In sub l -> Ds stmt sub) -> okv (cte_ok stmt) ra ->
  okv (cte_ok stmt) (fst (fold_left (cte_inner None) l (ra, alias))).
Proof.
  induction l as [|sub r IHl]; intros ra alias Hl Hra; cbn [fold_left fst]; [exact Hra|].
  assert (Hr : forall sub0, In sub0 r -> Ds stmt sub0) by (intros s0 H0; apply Hl; right; exact H0).
  unfold cte_inner at 2. destruct (tyis sub "identifier"); [exact (IHl _ _ Hr Hra)|].
  destruct (tyis sub "bracketed"); [|exact (IHl _ _ Hr Hra)]. apply (IHl _ _ Hr).
  apply (okr_bind _ _ _ _ Hra). intros [g2 subs2] [G2 S2]. cbn [fst snd] in G2, S2.
  pose proof (Hl sub (or_introl eq_refl)) as Dsub.
  apply (okr_bind _ _ _ _ (okr_okv _ _ (list_subquery_D sub (Ds_ef _ _ Dsub)))). intros sqs Hsqs. cbn [okg]. split; cbn [fst snd].
  - apply GI_add_cte; [exact G2|apply mk_subquery_ds_ok|reflexivity].
  - apply Forall_app. split; [exact S2|]. apply Forall_map_intro. intros sq Hsq. rewrite Forall_forall in Hsqs.
    destruct (subD_Ds stmt sub sq Dsub (Hsqs sq Hsq)) as [K (q & Eq & Dq)].
    destruct alias as [al|]; [|split; [exact K|exists q; split; assumption]].
    split; [exact K|]. exists q. split; [exact Eq|exact Dq].
Qed.

Lemma cte_step_ok stmt ra s : Ds stmt s -> depth stmt <= S f -> okv (cte_ok stmt) ra -> okv (cte_ok stmt) (cte_step f e ra s).
Proof.
  intros [Es Dsx] Hd Hra. unfold cte_step. apply (okr_bind _ _ _ _ Hra). intros [g subs] [G S0]. cbn [fst snd] in G, S0.
  assert (Hdel : forall k' ww, okv (cte_ok stmt) (do g' <- ex_delegate f e k' s g ww; Ok (g', subs))).
  { intros k' ww. apply (okr_bind GI); [apply ex_delegate_ok; [exact Es|lia|exact G]|]. intros g' G'. split; assumption. }
  destruct (ty_in s _); [apply Hdel|]. destruct (tyis s "insert_statement"); [apply Hdel|].
  destruct (tyis s "update_statement"); [apply Hdel|].
  destruct (tyis s "common_table_expression"); [|split; assumption].
  apply cte_inner_ok; [|split; assumption]. intros sub Hsub. apply (D_Ds_trans _ s); [split; [exact Es|lia]|exact (Ds_lcs s true sub Es Hsub)].
Qed.

Lemma extract_cte_ok stmt ctx : escape_free stmt = true -> depth stmt <= S f -> ctx_ok ctx -> okv GI (extract (S f) e XCte stmt ctx).
Proof.
  intros H Hd Hc. rewrite extract_cte_eq. apply (okr_bind (cte_ok stmt)).
  - apply okr_fold_acc; [|split; [exact (GI_init_holder ctx Hc)|constructor]].
    intros ra s Hs Hra. exact (cte_step_ok stmt ra s (Ds_lcs stmt true s H Hs) Hd Hra).
  - intros [g subs] [G S0]. exact (ex_subquery_ok stmt subs g S0 Hd G).
Qed.

(** ** XUpdate *)
Definition upd_ok (stmt : seg) (a : upd_state) : Prop :=
  GI (fst (fst (fst a))) /\ xcols_ok (snd (fst a)) /\ Forall (subDs stmt) (snd a).

Lemma upd_step_ok stmt a s : escape_free stmt = true -> Ds stmt s -> upd_ok stmt a -> okv (upd_ok stmt) (upd_step e stmt a s).
Proof.
  intros H Dsx Ha. apply okr_okv. destruct a as [[[g tf] cols] subs]. destruct Ha as (G & Hc & Hs). cbn [fst snd] in G, Hc, Hs.
  pose proof (Ds_ef _ _ Dsx) as Es. unfold upd_step.
  apply (okr_bind GI).
  { destruct (tyis s "from_expression"); [|exact G]. apply (okr_bind _ _ _ _ (list_tables_ok e stmt g H G)). intros ts Hts.
    destruct ts as [|w rs]; [exact G|]. inversion Hts; subst. cbn [okg]. apply (GI_fold add_read ds_ok GI_add_read); [apply GI_add_write; assumption|assumption]. }
  intros g1 G1. destruct (tyis s "keyword" && _); [split; [exact G1|split; assumption]|].
  apply (okr_bind GI).
  { destruct tf; [|exact G1]. apply (okr_bind _ _ _ _ (find_table_ok e s Es)). intros t Ht. cbn [okg]. exact (GI_opt_write g1 t G1 Ht). }
  intros g2 G2. apply (okr_bind xcols_ok).
  { destruct (tyis s "set_clause_list"); [|exact Hc]. apply (okr_bind (Forall (fun x => col_ok (xc x)))).
    - apply okr_concat_map. intros sc Hsc. pose proof (Ds_get_children s _ sc Es Hsc) as Dsc.
      destruct (get_children sc ["column_reference"]) as [|c0 [|c1 [|c2 r]]] eqn:Ec; try constructor.
      assert (E0 : escape_free c0 = true) by (apply (Ds_ef sc); apply (Ds_get_children sc ["column_reference"] c0 (Ds_ef _ _ Dsc)); rewrite Ec; left; reflexivity).
      assert (E1 : escape_free c1 = true) by (apply (Ds_ef sc); apply (Ds_get_children sc ["column_reference"] c1 (Ds_ef _ _ Dsc)); rewrite Ec; right; left; reflexivity).
      apply (okr_bind _ _ _ _ (extract_column_qualifier_ok c0 E0)). intros t _.
      apply (okr_bind _ _ _ _ (extract_column_qualifier_ok c1 E1)). intros sr _. cbn [okg].
      destruct t as [tq|]; [|constructor]. destruct sr as [sq|]; [|constructor]. constructor; [|constructor]. intros d [].
    - intros cs Hcs. cbn [okg]. intros x Hx. apply in_app_or in Hx. rewrite Forall_forall in Hcs. destruct Hx as [Hx|Hx]; [exact (Hc x Hx)|exact (Hcs x Hx)]. }
  intros cols' Hc'. apply (okr_bind (fun r3 : graph * list dataset => GI (fst r3) /\ Forall (subDs stmt) (snd r3))).
  { destruct (tyis s "from_clause"); [|split; assumption].
    apply (okr_bind _ _ _ _ (list_subquery_D s Es)). intros sqs Hsqs.
    apply (okr_bind _ _ _ _ (list_tables_ok e s g2 Es G2)). intros ts Hts. cbn [okg fst snd]. split.
    - apply (GI_fold add_read ds_ok GI_add_read); assumption.
    - apply Forall_app. split; [exact Hs|]. exact (Forall_impl _ (fun d Hd => subD_Ds stmt s d Dsx Hd) Hsqs). }
  intros r3 [G3 S3]. cbn [okg]. split; [exact G3|split; assumption].
Qed.

Lemma upd_col_ok g x : GI g -> col_ok (xc x) -> okv GI (upd_col e g x).
Proof.
  intros G Hx. unfold upd_col. destruct (sq_write g) as [|w r] eqn:Ew; [exact G|]. cbv zeta.
  assert (Hw : ds_ok w) by (apply (holder_nodes_ok g "write" w G); unfold sq_write in Ew; rewrite Ew; left; reflexivity).
  apply (okr_bind (Forall col_ok)).
  - apply okr_okv. apply to_source_columns_ok. apply get_alias_mapping_ok; [exact G|]. apply Forall_forall. intros d Hd. exact (holder_nodes_ok g "read" d G Hd).
  - intros srcs Hsrcs. apply (okr_fold GI (fun g'' sc => add_column_lineage g'' sc _)); [|exact G].
    intros g'' sc Hsc G''. rewrite Forall_forall in Hsrcs. apply add_column_lineage_okv; [exact G''|exact (Hsrcs sc Hsc)|apply add_parent_ok; assumption].
Qed.

Lemma extract_update_ok stmt ctx : escape_free stmt = true -> depth stmt <= S f -> ctx_ok ctx -> okv GI (extract (S f) e XUpdate stmt ctx).
Proof.
  intros H Hd Hc. rewrite extract_update_eq. apply (okr_bind (upd_ok stmt)).
  - apply (okr_fold (upd_ok stmt) (upd_step e stmt)).
    + intros a s Hs Ha. exact (upd_step_ok stmt a s H (Ds_lcs stmt true s H Hs) Ha).
    + split; [exact (GI_init_holder ctx Hc)|]. split; [intros x []|constructor].
  - intros [[[g tf] cols] subs] (G & Hx & Hs). cbn [fst snd] in G, Hx, Hs.
    apply (okr_bind GI).
    + apply (okr_fold GI (upd_col e)); [|exact G]. intros g' x Hin G'. exact (upd_col_ok g' x G' (Hx x Hin)).
    + intros g1 G1. exact (ex_subquery_ok stmt subs g1 Hs Hd G1).
Qed.

(** ** XCreateInsert *)
Lemma ci_step_ok stmt ra s : Ds stmt s -> depth stmt <= S f ->
  okv (fun a : graph * bool * bool => GI (fst (fst a))) ra -> okv (fun a : graph * bool * bool => GI (fst (fst a))) (ci_step f e stmt ra s).
Proof.
  intros [Es Dsx] Hd Hra. unfold ci_step. apply (okr_bind _ _ _ _ Hra). intros [[g tf] sf] G. cbn [fst] in G.
  assert (Hdel : forall k' x gg, D s x -> GI gg -> okv GI (ex_delegate f e k' x gg true)).
  { intros k' x gg [Ex Dx] Gg. apply ex_delegate_ok; [exact Ex|lia|exact Gg]. }
  apply (okr_bind (fun st : graph * bool * bool * bool => GI (fst (fst (fst st))))).
  { destruct (tyis s "with_compound_statement").
    { apply (okr_bind GI); [exact (Hdel XCte s g (D_refl s Es) G)|intros g' G'; exact G']. }
    destruct (tyis s "bracketed" && _).
    { apply (okr_bind GI); [|intros g' G'; exact G'].
      apply (okr_fold GI (fun gg c => if tyis c "with_compound_statement" then ex_delegate f e XCte s gg true else Ok gg)); [|exact G].
      intros gg c _ Gg. destruct (tyis c _); [exact (Hdel XCte s gg (D_refl s Es) Gg)|exact Gg]. }
    destruct (ty_in s ["select_statement"; "set_expression"]).
    { apply (okr_bind GI); [exact (Hdel XSelect s g (D_refl s Es) G)|intros g' G'; exact G']. }
    destruct (tyis s "values_clause").
    { apply (okr_bind GI); [|intros g' G'; exact G'].
      apply okr_fold_acc; [|exact G]. intros r b Hb Hr. pose proof (Ds_get_children s _ b Es Hb) as Db.
      apply (okr_fold GI (fun gg ex => match get_child ex ["bracketed"] with
                              | Some sb =>
                                match get_child sb ["expression"] with
                                | Some se =>
                                  match get_child se ["select_statement"] with
                                  | Some ss => ex_delegate f e XSelect ss gg true
                                  | None => Ok gg
                                  end
                                | None => Ok gg
                                end
                              | None => Ok gg
                              end)); [|exact Hr].
      intros gg ex Hex Gg. pose proof (Ds_get_children b _ ex (Ds_ef _ _ Db) Hex) as Dex.
      destruct (get_child ex ["bracketed"]) as [sb|] eqn:E1; [|exact Gg]. pose proof (Ds_get_child ex _ sb (Ds_ef _ _ Dex) E1) as D1.
      destruct (get_child sb ["expression"]) as [se|] eqn:E2; [|exact Gg]. pose proof (Ds_get_child sb _ se (Ds_ef _ _ D1) E2) as D2.
      destruct (get_child se ["select_statement"]) as [ss|] eqn:E3; [|exact Gg]. pose proof (Ds_get_child se _ ss (Ds_ef _ _ D2) E3) as D3.
      apply (Hdel XSelect ss gg); [|exact Gg]. apply Ds_D. apply (Ds_D_trans _ b _ Db). apply Ds_D. apply (Ds_D_trans _ ex _ Dex). apply Ds_D.
      apply (Ds_D_trans _ sb _ D1). apply Ds_D. apply (Ds_D_trans _ se _ D2). apply Ds_D. exact D3. }
    destruct (tyis s "bracketed").
    { destruct (flat_map (crawl ["select_statement"; "set_expression"] false) [s]) as [|q0 qs] eqn:Eq.
      - destruct (forallb _ _); [|exact G]. apply (okr_bind (Forall col_ok)); [|intros cols Hcols; cbn [okg fst]; apply GI_add_write_column; assumption].
        apply okr_okv. apply okr_map_res. intros x Hx. pose proof (Ds_lcs s true x Es Hx) as Dx.
        set (x' := if tyis x "column_definition" then match get_child x ["identifier"] with Some i => i | None => x end else x).
        assert (Dx' : D x x').
        { unfold x'. destruct (tyis x "column_definition"); [|exact (D_refl x (Ds_ef _ _ Dx))].
          destruct (get_child x ["identifier"]) as [i|] eqn:Ei; [|exact (D_refl x (Ds_ef _ _ Dx))]. exact (Ds_D _ _ (Ds_get_child x _ i (Ds_ef _ _ Dx) Ei)). }
        apply (okr_bind (fun c => col_ok (xc c))); [|intros c Hc; exact Hc].
        apply column_of_seg_ok2; [exact (D_ef _ _ Dx')|]. destruct Dx as [_ Dx]. destruct Dx' as [_ Dx']. lia.
      - apply (okr_bind GI); [|intros g' G'; exact G'].
        apply (okr_fold GI (fun gg q => ex_delegate f e XSelect q gg true)); [|exact G].
        intros gg q Hq Gg. apply (Hdel XSelect q gg); [|exact Gg]. rewrite <- Eq in Hq. cbn [flat_map] in Hq. rewrite app_nil_r in Hq.
        exact (proj1 (D_crawl _ false s Es q Hq)). }
    destruct (tyis s "keyword"); [|exact G].
    destruct (_ || _); [exact G|]. destruct (mem_string _ ["LIKE"; "CLONE"]); exact G. }
  intros [[[g1 tf1] sf1] continued] G1. cbn [fst] in G1. destruct continued; [exact G1|].
  apply (okr_bind GI).
  { destruct tf1; [|exact G1]. destruct (ty_in s ["table_reference"; "object_reference"]) eqn:Et.
    - apply (okr_bind _ _ _ _ (okr_okv _ _ (table_of_seg_ok e s None Es (ty_in_2_3 s Et)))). intros t Ht.
      pose proof (GI_add_write g1 t G1 (ktable_ok t Ht)) as G'. destruct (_ && _); [|exact G']. cbn [okg].
      apply GI_add_write_column; [exact G'|]. unfold provider_columns. apply Forall_map_intro. intros cn _. apply col_ok_one. exact (ktable_ok t Ht).
    - destruct (tyis s "literal"); [|exact G1]. destruct (is_numeric _); [exact G1|]. cbn [okg]. apply GI_add_write; [exact G1|]. apply ds_ok_notsubq. discriminate. }
  intros g2 G2. apply (okr_bind GI); [|intros g3 G3; exact G3].
  destruct sf1; [|exact G2]. destruct (ty_in s ["table_reference"; "object_reference"]) eqn:Et; [|exact G2].
  apply (okr_bind _ _ _ _ (okr_okv _ _ (table_of_seg_ok e s None Es (ty_in_2_3 s Et)))). intros t Ht. cbn [okg]. apply GI_add_read; [exact G2|exact (ktable_ok t Ht)].
Qed.

Lemma extract_ci_ok stmt ctx : escape_free stmt = true -> depth stmt <= S f -> ctx_ok ctx -> okv GI (extract (S f) e XCreateInsert stmt ctx).
Proof.
  intros H Hd Hc. rewrite extract_ci_eq. apply (okr_bind (fun a : graph * bool * bool => GI (fst (fst a)))); [|intros r Gr; exact Gr].
  apply okr_fold_acc; [|exact (GI_init_holder ctx Hc)].
  intros ra s Hs Hra. exact (ci_step_ok stmt ra s (Ds_lcs stmt true s H Hs) Hd Hra).
Qed.
End Step.

(** * the extractor, every kind, every tree *)
Theorem extract_total : forall f e k stmt ctx,
  escape_free stmt = true -> depth stmt <= f -> ctx_ok ctx -> okv GI (extract f e k stmt ctx).
Proof.
  induction f as [|f IHf]; intros e k stmt ctx H Hd Hc; [pose proof (depth_pos stmt); lia|].
  pose proof (fun k s c => IHf e k s c) as IH. destruct k.
  - exact (extract_select_ok f e IH stmt ctx H Hd Hc).
  - exact (extract_cte_ok f e IH stmt ctx H Hd Hc).
  - exact (extract_ci_ok f e IH stmt ctx H Hd Hc).
  - exact (extract_update_ok f e IH stmt ctx H Hd Hc).
Qed.
Print Assumptions extract_total.
