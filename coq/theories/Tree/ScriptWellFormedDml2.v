(** C06 for scripts with UPDATE / MERGE statements without the side condition [edges_in_rw] of
    Tree/ScriptWellFormedDml.v: it is proved here of every statement inside [dml_cols_ok]. *)
From Coq Require Import Lia.
From SV Require Import Ast.SpecDml Ast.SpecDmlCols Tree.Render Tree.RenderExpr Tree.RenderDml Tree.LemmaA Tree.LemmaAProofs Tree.LemmaADmlDefs Tree.LemmaADml
     Tree.LemmaB Tree.LemmaBProofs Tree.LemmaBExpr Tree.LemmaBExpr2 Tree.LemmaBDml Holder.PathProofs Tree.ScriptExact Tree.ScriptExactExt Tree.ScriptWellFormed
     Tree.ScriptExactExpr Tree.ScriptExactDml Tree.ScriptWellFormedDml.
From SV Require Holder.CompDefs.

(** * the tables a column reference resolves to are tables of the scope *)
Lemma resolve_table ds from r x v :
  In x (resolve (map (sbind ds) from) r) -> In v (src_vtx x) -> exists r0, In r0 from /\ fst v = tref_str ds (rtref r0).
Proof.
  set (scope := map (sbind ds) from).
  assert (Hb : forall b, In b scope -> exists r0, In r0 from /\ b_rel b = RelBase (tref_str ds (rtref r0))).
  { intros b Hin. apply in_map_iff in Hin. destruct Hin as (r0 & <- & Hr0). exists r0. split; [exact Hr0|reflexivity]. }
  assert (HK : forall t, In t (cands_K scope) -> exists r0, In r0 from /\ t = tref_str ds (rtref r0)).
  { intros t Ht. unfold cands_K in Ht. apply In_dedup_s in Ht. destruct Ht as [Ht _]. apply in_flat_map in Ht. destruct Ht as (b & Hbin & Ht).
    destruct (Hb b Hbin) as (r0 & Hr0 & E). rewrite E in Ht. destruct Ht as [<-|[]]. exists r0. auto. }
  assert (Fin : forall T c, (exists r0, In r0 from /\ T = tref_str ds (rtref r0)) -> In x [SCol T c] -> In v (src_vtx x) ->
                exists r0, In r0 from /\ fst v = tref_str ds (rtref r0)).
  { intros T c (r0 & Hr0 & ->) [<-|[]] [<-|[]]. exists r0. auto. }
  assert (Fu : forall c K, In x [SUnres c K] -> In v (src_vtx x) -> exists r0, In r0 from /\ fst v = tref_str ds (rtref r0)).
  { intros c K [<-|[]] []. }
  unfold resolve. destruct r as [[q|] c]; cbn [fst snd].
  - destruct (find_binding q scope) as [b|] eqn:E; [|intros []]. apply find_binding_In in E.
    destruct (Hb b E) as (r0 & Hr0 & K). rewrite K. cbn [rel_col]. apply Fin. exists r0. auto.
  - fold (cands_K scope). remember (cands_K scope) as K eqn:EK. clear EK.
    destruct scope as [|b [|b' rest]] eqn:Em.
    + destruct K as [|t [|t' rest']]; [apply Fu| |apply Fu].
      destruct (forallb _ _); [|apply Fu]. apply Fin. apply HK. left. reflexivity.
    + destruct (Hb b (or_introl eq_refl)) as (r0 & Hr0 & K0). rewrite K0. cbn [rel_col]. apply Fin. exists r0. auto.
    + destruct K as [|t [|t' rest']]; [apply Fu| |apply Fu].
      destruct (forallb _ _); [|apply Fu]. apply Fin. apply HK. left. reflexivity.
Qed.

Lemma In_q_reads_table k ds items from cj wh r :
  In r from -> is_rtable r = true -> In (tref_str ds (rtref r)) (q_reads (S k) ds [] (QSelect items from cj wh)).
Proof.
  intros Hr Ht. cbn [q_reads]. apply in_or_app. left. apply in_flat_map. exists r. split.
  - apply in_flat_map. exists r. split; [exact Hr|]. destruct r; try discriminate Ht. left. reflexivity.
  - destruct r as [t al| |]; try discriminate Ht. cbn [rtref]. destruct (fst t); cbn [mem_string]; left; reflexivity.
Qed.

(** * the specified flows of CREATE TABLE t AS SELECT [q.]b AS a, ... FROM base tables go from a FROM table to t *)
Definition ref_item (i : item) : Prop := exists q b a, i = IExpr (EColRef q b) (Some a).

Lemma ctas_edges_tables ds t items from cj u v :
  forallb is_rtable from = true -> (forall i, In i items -> ref_item i) ->
  In (u, v) (stmt_edges ds (SCtas t (QSelect items from cj None))) ->
  (exists r0, In r0 from /\ fst u = tref_str ds (rtref r0)) /\ fst v = tref_str ds t.
Proof.
  intros Hrt Hit H.
  rewrite (stmt_edges_select ds (SCtas t (QSelect items from cj None)) t items from cj (or_intror (or_introl eq_refl)) Hrt) in H.
  apply in_flat_map in H. destruct H as (i & Hi & H). destruct (Hit i Hi) as (q & b & a & ->).
  unfold item_edges in H. cbn [item_cols flat_map fst snd col_refs] in H. rewrite !app_nil_r in H.
  apply src_edges_In in H. destruct H as (sr & Hsr & H). apply dedup_src_sub' in Hsr.
  apply in_map_iff in H. destruct H as (v0 & E & Hv0). inversion E. subst u v. cbn [fst]. split; [|reflexivity].
  exact (resolve_table ds from (q, b) sr v0 Hsr Hv0).
Qed.

Lemma set_items_ref T : forall i, In i (map set_item T) -> ref_item i.
Proof. intros i Hi. apply in_map_iff in Hi. destruct Hi as ([[a q] b] & <- & _). exists q, b, a. reflexivity. Qed.

(** THE LEMMA: inside [dml_cols_ok] every specified flow goes from a table the statement reads to the table it writes *)
Theorem edges_in_rw_ok : forall ds d, dml_cols_ok d = true -> edges_in_rw ds d = true.
Proof.
  intros ds d Hok. unfold edges_in_rw. apply forallb_forall. intros [u v] Hp. cbn [fst snd].
  assert (Fin : forall t items from cj wh0,
            forallb is_rtable from = true -> (forall i, In i items -> ref_item i) ->
            In (u, v) (stmt_edges ds (SCtas t (QSelect items from cj None))) ->
            mem_string (fst u) (dedup_s (q_reads (S (q_size (QSelect [] from cj wh0))) ds [] (QSelect [] from cj wh0)) []) &&
            mem_string (fst v) [tref_str ds t] = true).
  { intros t items from cj wh0 Hrt Hit H. destruct (ctas_edges_tables ds t items from cj u v Hrt Hit H) as [(r0 & Hr0 & E1) E2].
    apply andb_true_iff. split; apply mem_string_In.
    - apply In_dedup_s. split; [|intros []]. rewrite E1. apply In_q_reads_table; [exact Hr0|].
      rewrite forallb_forall in Hrt. exact (Hrt r0 Hr0).
    - rewrite E2. left. reflexivity. }
  destruct d as [t al sets from cj wh|t al [u0 al2|q a|x y] upd ins|t items from cj wh]; try discriminate Hok.
  - cbn [dml_cols_ok] in Hok. unfold upd_cols_ok in Hok.
    apply andb_true_iff in Hok; destruct Hok as [Hok _]. apply andb_true_iff in Hok; destruct Hok as [Hok _].
    apply andb_true_iff in Hok; destruct Hok as [Hok _]. apply andb_true_iff in Hok; destruct Hok as [_ Hrel].
    assert (Hrt : forallb is_rtable from = true).
    { rewrite forallb_forall in *. intros r Hr. apply rel_ok_table. apply Hrel. exact Hr. }
    unfold dml_reads, dml_writes. cbn [dml_query dml_target].
    apply (Fin t (map set_item sets) from cj wh Hrt (set_items_ref sets)). exact Hp.
  - unfold dml_reads, dml_writes. cbn [dml_query dml_target].
    apply (Fin t (map set_item (mrg_trip upd ins)) [RTable u0 al2] false None eq_refl (set_items_ref _)).
    unfold dml_edges in Hp. cbn [dml_target dml_flow_query] in Hp. rewrite mrg_items_trip in Hp. exact Hp.
Qed.
Print Assumptions edges_in_rw_ok.

(** * the statement and script theorems without the side condition *)
Theorem dml_statement_c06 : forall noise e d,
  noise_ok noise = true -> env_ok e = true -> dml_cols_ok d = true -> dml_resolved d = true -> dml_ok d = true ->
  stmt_facts6 e (r_dml noise d).
Proof.
  intros noise e d Hn He H1 H2 H3. exact (dml_statement_c06_partial noise e d Hn He H1 H2 H3 (edges_in_rw_ok (e_cfg e) d H1)).
Qed.
Print Assumptions dml_statement_c06.

Theorem script_paths_well_formed_on_core_xd2 : forall noise e xs,
  noise_ok noise = true -> env_ok e = true ->
  Forall (fun x => match x with
                   | SS s => (stmt_ok_x s = true /\ colshape s = true /\ resolved_x s = true) \/ is_nodata s = true
                   | SD d => dml_cols_ok d = true /\ dml_resolved d = true /\ dml_ok d = true
                   end) xs ->
  exists g, script_graph e false [] (map (r_sstmt noise) xs) = Ok g /\
    forall b path, In path (column_lineage g b false) ->
      2 <= List.length path /\
      (forall n, In n (tl path) -> CompDefs.owner_in n (target_tables g ++ intermediate_tables g) = true) /\
      (forall n, In n (removelast path) -> CompDefs.owner_in n (source_tables g ++ intermediate_tables g) = true).
Proof.
  intros noise e xs Hn He H. apply (script_paths_well_formed_on_core_xd noise e xs Hn He).
  apply Forall_forall. intros x Hx. rewrite Forall_forall in H. specialize (H x Hx). destruct x as [s|d]; cbn [core_sstmt6].
  - exact H.
  - destruct H as (H1 & H2 & H3). repeat split; try assumption. exact (edges_in_rw_ok (e_cfg e) d H1).
Qed.
Print Assumptions script_paths_well_formed_on_core_xd2.

(** non-vacuity: the statement theorem on an UPDATE over two aliased tables and on a MERGE, with trivia; the guard-free
    script theorem on the chain through an UPDATE *)
Example dml_statement_c06_nonvacuous2 :
  stmt_facts6 Tests.e1 (r_dml [Tests.ws; Tests.cm]
     (DUpdate (None, "f") (Some "ff") [("d", Some "p", "c"); ("e", Some "n", "c")] [RTable (None, "m") (Some "p"); RTable (None, "n") None] true None)) /\
  stmt_facts6 Tests.e1 (r_dml [Tests.ws; Tests.cm]
     (DMerge (None, "m") (Some "mm") (RTable (Some "s2", "u") (Some "y")) [("c", Some "y", "b")] (Some (["k"], [(None, "k2")])))).
Proof. split; apply dml_statement_c06; reflexivity. Qed.

Example script_paths_xd2_nonvacuous noise : noise_ok noise = true ->
  exists g, script_graph Tests.e1 false [] (map (r_sstmt noise) ExamplesD.chain_upd) = Ok g /\
    forall b path, In path (column_lineage g b false) -> 2 <= List.length path.
Proof.
  intros Hn. destruct (script_paths_well_formed_on_core_xd2 noise Tests.e1 ExamplesD.chain_upd Hn eq_refl) as (g & Eg & Hg).
  - repeat constructor.
  - exists g. split; [exact Eg|]. intros b path Hin. exact (proj1 (Hg b path Hin)).
Qed.
