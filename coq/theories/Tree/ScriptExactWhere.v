(** WHERE .. IN statements inside scripts.

    See the summary at the end of the file. *)
From Coq Require Import Permutation Lia.
From SV Require Import Tree.Render Tree.LemmaA Tree.LemmaAProofs Tree.LemmaB Tree.LemmaBProofs Tree.LemmaB5a Tree.LemmaB5a2 Tree.LemmaB5a3
     Tree.ScriptExact Tree.ScriptExactExt Ident.Escape Ident.EscapeProofs Holder.PathProofs Holder.SortProofs Tree.ProviderProofs.
From SV Require Holder.RefineDefs Holder.RefineGraph Holder.CompDefs Holder.Composition.

(* ================================================================== *)
(** * Part 1: assembly when the statement graphs also have column edges into columns owned by sub-queries

    [edges_match_x G Es Xs]: the column edges of [G] are the specified flows [Es], or lead from one of the table
    columns [Xs] into a column owned by a sub-query (a dead end: it has no successor and is not table-owned). *)
Definition edges_match_x (G : graph) (Es : list (vtx * vtx)) (Xs : list vtx) : Prop :=
  (forall x y, CompDefs.col_edge G x y = true ->
     (exists u v, In (u, v) Es /\ node_eqb x (nu u) = true /\ node_eqb y (nu v) = true) \/
     (parent_is KSubq y = true /\ exists u, In u Xs /\ node_eqb x (nu u) = true)) /\
  (forall u v, In (u, v) Es -> CompDefs.col_edge G (nu u) (nu v) = true).

Lemma edges_match_x_of G Es : edges_match G Es -> edges_match_x G Es [].
Proof.
  intros H. split.
  - intros x y Hc. left. apply H. exact Hc.
  - intros u v Huv. apply H. exists u, v. split; [exact Huv|split; apply node_eqb_refl].
Qed.

Lemma nu_table v : parent_is KTable (nu v) = true.
Proof. reflexivity. Qed.
Lemma nu_not_subq v : parent_is KSubq (nu v) = false.
Proof. reflexivity. Qed.

Lemma union_x_sound0 Gs EXs : Forall2 (fun G p => edges_match_x G (fst p) (snd p)) Gs EXs -> forall x y,
  (exists h, In h (map holder_of Gs) /\ CompDefs.col_edge (hg h) x y = true) ->
  (exists u v, In (u, v) (flat_map fst EXs) /\ node_eqb x (nu u) = true /\ node_eqb y (nu v) = true) \/
  (parent_is KSubq y = true /\ exists u, In u (flat_map snd EXs) /\ node_eqb x (nu u) = true).
Proof.
  induction 1 as [|G p Gs' EXs' [H1 _] _ IH]; intros x y; [intros (h & [] & _)|].
  cbn [map flat_map]. intros (h & [<-|Hin] & Hc).
  - destruct (H1 x y Hc) as [(u & v & Huv & K)|(Hk & u & Hu & K)].
    + left. exists u, v. split; [apply in_app_iff; left; exact Huv|exact K].
    + right. split; [exact Hk|]. exists u. split; [apply in_app_iff; left; exact Hu|exact K].
  - destruct (IH x y (ex_intro _ h (conj Hin Hc))) as [(u & v & Huv & K)|(Hk & u & Hu & K)].
    + left. exists u, v. split; [apply in_app_iff; right; exact Huv|exact K].
    + right. split; [exact Hk|]. exists u. split; [apply in_app_iff; right; exact Hu|exact K].
Qed.

Lemma union_x_complete0 Gs EXs : Forall2 (fun G p => edges_match_x G (fst p) (snd p)) Gs EXs -> forall u v,
  In (u, v) (flat_map fst EXs) -> exists h, In h (map holder_of Gs) /\ CompDefs.col_edge (hg h) (nu u) (nu v) = true.
Proof.
  induction 1 as [|G p Gs' EXs' [_ H2] _ IH]; intros u v; [intros []|].
  cbn [map flat_map]. intros Huv. apply in_app_iff in Huv. destruct Huv as [Huv|Huv].
  - exists (holder_of G). split; [left; reflexivity|exact (H2 u v Huv)].
  - destruct (IH u v Huv) as (h & Hin & Hc). exists h. split; [right; exact Hin|exact Hc].
Qed.

Section AssemblyX.
  Variables (Gs : list graph) (EXs : list (list (vtx * vtx) * list vtx)).
  Hypothesis HM : Forall2 (fun G p => edges_match_x G (fst p) (snd p)) Gs EXs.
  Let hs := map holder_of Gs.
  Let E := flat_map fst EXs.
  Let X := flat_map snd EXs.

  Lemma union_x_sound x y :
    (exists h, In h hs /\ CompDefs.col_edge (hg h) x y = true) ->
    (exists u v, In (u, v) E /\ node_eqb x (nu u) = true /\ node_eqb y (nu v) = true) \/
    (parent_is KSubq y = true /\ exists u, In u X /\ node_eqb x (nu u) = true).
  Proof. exact (union_x_sound0 Gs EXs HM x y). Qed.

  Lemma union_x_complete u v : In (u, v) E -> exists h, In h hs /\ CompDefs.col_edge (hg h) (nu u) (nu v) = true.
  Proof. exact (union_x_complete0 Gs EXs HM u v). Qed.

  Lemma flow_to x y u v : In (u, v) E -> node_eqb x (nu u) = true -> node_eqb y (nu v) = true ->
    exists h, In h hs /\ Composition.flow h x y.
  Proof.
    intros Huv K1 K2. destruct (union_x_complete u v Huv) as (h & Hin & Hc). exists h. split; [exact Hin|].
    unfold Composition.flow. rewrite (Composition.col_edge_cong (hg h) x (nu u) y (nu v) K1 K2). exact Hc.
  Qed.

  Lemma composed_of_tcv u v : tcv E u v -> forall x, node_eqb x (nu u) = true -> Composition.composed hs x (nu v).
  Proof.
    induction 1 as [u v Huv|u v w Huv _ IH]; intros x K.
    - destruct (flow_to x (nu v) u v Huv K (node_eqb_refl _)) as (h & Hin & Hf). apply (Composition.co_one hs h); assumption.
    - destruct (flow_to x (nu v) u v Huv K (node_eqb_refl _)) as (h & Hin & Hf).
      apply (Composition.co_step hs h x (nu v) (nu w)); [exact Hin|exact Hf|]. apply IH. apply node_eqb_refl.
  Qed.

  Lemma composed_to_table x y : Composition.composed hs x y -> parent_is KTable y = true ->
    exists u v, tcv E u v /\ node_eqb x (nu u) = true /\ node_eqb y (nu v) = true.
  Proof.
    induction 1 as [h a b Hin Hf|h a b c Hin Hf _ IH]; intros Hk.
    - destruct (union_x_sound a b (ex_intro _ h (conj Hin Hf))) as [(u & v & Huv & K1 & K2)|(Hs & _)].
      + exists u, v. split; [apply tcv_one; exact Huv|auto].
      + rewrite (parent_subq_not_table _ Hs) in Hk. discriminate.
    - destruct (IH Hk) as (v' & w & Ht & K3 & K4).
      destruct (union_x_sound a b (ex_intro _ h (conj Hin Hf))) as [(u & v & Huv & K1 & K2)|(Hs & _)].
      + rewrite <- (eqb_nu_unique b v v' K2 K3) in Ht. exists u, w. split; [apply (tcv_step E u v w); assumption|auto].
      + rewrite (parent_is_eqb KSubq _ _ K3), nu_not_subq in Hs. discriminate.
  Qed.

  (** the dead ends do not hide anything: a sub-query source that some statement writes is also read by a flow *)
  Definition dead_ends_ok : Prop := forall v, In v X -> In v (map snd E) -> In v (map fst E).

  Theorem lineage_match_x p g :
    Composition.c04_hyps hs = true -> build p hs = BOk g -> dead_ends_ok ->
    forall x, In x (map pair_str (column_lineage g true false)) <-> In x (pairs_of E).
  Proof.
    intros Hh Hb Hde x. destruct (Composition.c04_main p hs Hh) as (g' & Hb' & _ & Hrep).
    rewrite Hb in Hb'. inversion Hb'. subst g'. clear Hb'. rewrite In_pairs_of. split.
    - intros Hx. apply in_map_iff in Hx. destruct Hx as (path & <- & Hp).
      assert (Hr : Composition.reports g true (hd Composition.dflt path) (last path Composition.dflt)).
      { exists path. split; [exact Hp|]. split; apply node_eqb_refl. }
      apply Hrep in Hr. destruct Hr as (Hnf & Hnc & Hkt & Hco). destruct (composed_to_table _ _ Hco (Hkt eq_refl)) as (u & v & Ht & K1 & K2).
      exists u, v. split; [|split; [|split; [exact Ht|]]].
      + intros Hin. apply Hnf. apply in_map_iff in Hin. destruct Hin as ([u0 u'] & Eu & Hin). cbn [snd] in Eu. subst u'.
        destruct (flow_to (nu u0) _ u0 u Hin (node_eqb_refl _) K1) as (h & Hh0 & Hf). exists h, (nu u0). auto.
      + intros Hin. apply Hnc. apply in_map_iff in Hin. destruct Hin as ([v' v0] & Ev & Hin). cbn [fst] in Ev. subst v'.
        destruct (flow_to _ (nu v0) v v0 Hin K2 (node_eqb_refl _)) as (h & Hh0 & Hf). exists h, (nu v0). auto.
      + destruct path as [|s r]; [cbn [hd] in K1; discriminate K1|]. rewrite pair_str_cons. cbn [hd] in K1.
        rewrite (last_cons_indep r s Composition.dflt s) in K2. rewrite (eqb_nu_src _ _ K1), (eqb_nu_str _ _ K2). reflexivity.
    - intros (u & v & Hr & Hl & Ht & ->).
      assert (Hrp : Composition.reports g true (nu u) (nu v)).
      { apply Hrep. split; [|split; [|split]].
        - intros (h & x0 & Hin & Hf). destruct (union_x_sound x0 (nu u) (ex_intro _ h (conj Hin Hf))) as [(u0 & v0 & Huv & _ & K)|(Hs & _)].
          + apply nu_inj in K. subst v0. apply Hr. apply (in_map snd) in Huv. exact Huv.
          + rewrite nu_not_subq in Hs. discriminate.
        - intros (h & y0 & Hin & Hf). destruct (union_x_sound (nu v) y0 (ex_intro _ h (conj Hin Hf))) as [(u0 & v0 & Huv & K & _)|(_ & u0 & Hu0 & K)].
          + apply nu_inj in K. subst u0. apply Hl. apply (in_map fst) in Huv. exact Huv.
          + apply nu_inj in K. subst u0. apply Hl. apply Hde; [exact Hu0|]. exact (tcv_tgt E u v Ht).
        - intros _. reflexivity.
        - apply (composed_of_tcv u v Ht). apply node_eqb_refl. }
      destruct Hrp as (path & Hp & K1 & K2). apply in_map_iff. exists path. split; [|exact Hp].
      destruct path as [|s r]; [cbn [hd] in K1; discriminate K1|]. rewrite pair_str_cons. cbn [hd] in K1.
      rewrite (last_cons_indep r s Composition.dflt s) in K2.
      rewrite (eqb_nu_src _ _ (node_eqb_true_sym _ _ K1)), (eqb_nu_str _ _ (node_eqb_true_sym _ _ K2)). reflexivity.
  Qed.
End AssemblyX.

(* ================================================================== *)
(** * Part 2: the holder of a WHERE .. IN statement *)
Lemma inner_holder2 e (Hprov : p_truthy (e_provider e) = false) sqd (Hsqok : data_ok sqd) ts' xs' :
  group_ok sqd ts' -> ts_inj ts' -> names_nodot ts' -> Forall data_ok ts' -> (forall x, In x xs' -> xref_ok_f ts' LF [] x) ->
  exists sh, (do g2 <- end_of_query_cleanup e (add_write empty_graph sqd) ts' xs' []; expand_wildcard e g2) = Ok sh /\
             (forall x y, has_edge sh x y = ematch x y (EL' sqd ts' xs')) /\ sinv ts' LF [] sh /\
             holder_nodes sh "write" = [sqd] /\ holder_nodes sh "cte" = [] /\ ext (add_write empty_graph sqd) sh (EL' sqd ts' xs').
Proof.
  intros Hgo' Hinj' Hnd' Hdo' HX'. set (gbi := add_write empty_graph sqd).
  assert (G : gok gbi) by (apply gok_add_tag; [apply gok_empty|exact Hsqok]).
  assert (F : finv ts' LF gbi).
  { constructor; [intros e0 src a []|intros e0 []|intros e0 c p []|].
    intros n a [H|[]]. inversion H. intros [K|[]]. discriminate K. }
  assert (Lq : lits_in (QC ts' []) gbi) by (split; [intros n [<-|[]]; exact I|intros e0 []]).
  destruct (select_core_f e Hprov sqd ts' Hgo' Hinj' Hnd' Hdo' Hsqok LF (fun a w v K _ => match K with end) [] gbi xs' G F Lq eq_refl (fun y => eq_refl) HX')
    as (sh & E & X & S & T).
  exists sh. split; [exact E|]. split; [intros x y; rewrite (ext_edges _ _ _ X); reflexivity|]. split; [exact S|].
  split; [rewrite T by discriminate; reflexivity|]. split; [rewrite T by discriminate; reflexivity|exact X].
Qed.

Lemma holder_wherein1 noise e (s : stmt) t items from cj c items' from' cj' :
  noise_ok noise = true -> env_ok e = true ->
  let q := QSelect items from cj (Some (c, QSelect items' from' cj' None)) in
  (s = SInsert t None q \/ s = SCtas t q \/ s = SView t q) ->
  tref_ok t = true -> forallb item_ok items = true -> from <> [] -> forallb rel_ok from = true ->
  forallb item_ok items' = true -> from' <> [] -> forallb rel_ok from' = true ->
  let d := tbl e t None in let ts := map (tbl_of e) from in let xs := map xcol_of items in
  let ts' := map (tbl_of e) from' in let xs' := map xcol_of items' in
  let NM := unres_names ts xs in
  group_ok d ts -> ts_inj ts -> names_nodot ts -> NoDup (map dstr ts) ->
  ts_inj ts' -> names_nodot ts' -> (forall v', In v' ts' -> dataset_eqb v' d = false) ->
  (forall x, In x xs -> xref_ok_f ts (leak ts') NM x) -> noqual ts xs ->
  (forall x', In x' xs' -> xref_ok_f ts' LF [] x') ->
  (forall nm x' c0 qq, In nm NM -> In x' xs' -> xsrc x' = [(c0, qq)] -> c0 <> nm) ->
  exists G, analyze e false (r_stmt noise s) = Ok G /\ clean_holder G /\ lits_in (QC ts NM) G /\
            realises_in G (flows_of (S_of ts) (own_pairs d xs)) /\
            (forall x y, has_edge G x y = true -> has_node G x = true /\ has_node G y = true) /\
            (forall x y, is_column x = true -> has_edge G x y = true ->
               (exists f, In f (flows_of (S_of ts) (own_pairs d xs)) /\ node_eqb x (NCol (fst f)) = true /\ node_eqb y (NCol (snd f)) = true) \/
               (parent_is KSubq y = true /\ exists x' s', In x' xs' /\ In s' (S_of ts' x') /\ node_eqb x (NCol s') = true)).
Proof.
  intros Hn He q Hs Ht Hit Hne Hrel Hit' Hne' Hrel' d ts xs ts' xs' NM Hgo Hinj Hnd Hnds Hinj' Hnd' Hnoself HX Hnq HX' Hcross.
  set (e' := e).
  assert (He' : env_ok e' = true) by exact He.
  assert (Hp : p_truthy (e_provider e') = false) by exact (proj1 (env_facts e' He')).
  assert (Htab : forall (fr : list rel), forallb rel_ok fr = true -> forall v, In v (map (tbl_of e') fr) -> tab_ok v).
  { intros fr Hfr v Hv. apply in_map_iff in Hv. destruct Hv as (r & <- & Hr). rewrite forallb_forall in Hfr. specialize (Hfr r Hr).
    destruct r; try discriminate. split; reflexivity. }
  assert (Hdo : Forall data_ok ts) by (apply Forall_forall; intros v Hv; exact (proj2 (Htab from Hrel v Hv))).
  assert (Hdo' : Forall data_ok ts') by (apply Forall_forall; intros v Hv; exact (proj2 (Htab from' Hrel' v Hv))).
  set (sq := QSelect items' from' cj' None) in *.
  assert (Hk : exists k, q_size q = S k) by (eexists; apply q_size_select). destruct Hk as [k Hk].
  set (sqd := mk_subquery (r_brq noise (S k) sq) None).
  assert (Hsqk : dk sqd = KSubq) by reflexivity.
  assert (Hsqok : data_ok sqd) by (unfold data_ok; cbn; discriminate).
  assert (Hgo' : group_ok sqd ts').
  { constructor; [intros v Hv; exact (proj1 (Htab from' Hrel' v Hv))|exact (proj1 Hinj')|].
    intros v Hv. unfold dataset_eqb. rewrite (proj1 (Htab from' Hrel' v Hv)), Hsqk. reflexivity. }
  set (gb := add_write empty_graph d).
  (* the sub-query holder *)
  destruct (inner_holder2 e' Hp sqd Hsqok ts' xs' Hgo' Hinj' Hnd' Hdo' HX') as (sh & Esh & HEsh & Ssh & Twsh & Tcsh & Xsh).
  assert (Hcross' : forall nm x' c0 qq, In nm NM -> In x' xs' -> xsrc x' = [(c0, qq)] -> c0 <> escape nm).
  { intros nm x' c0 qq Hnm Hx' Exs. replace (escape nm) with nm; [exact (Hcross nm x' c0 qq Hnm Hx' Exs)|].
    unfold NM, unres_names in Hnm.
    assert (Hin : In nm (flat_map (fun x => match xsrc x with [(c1, None)] => [c1] | _ => [] end) xs)) by (destruct ts as [|a [|b r]]; [exact Hnm|destruct Hnm|exact Hnm]).
    apply in_flat_map in Hin. destruct Hin as (x & Hx & Hin). destruct (HX x Hx) as (_ & c1 & qq1 & Ex & Hc1 & _). rewrite Ex in Hin.
    destruct qq1; [destruct Hin|]. destruct Hin as [<-|[]]. symmetry. exact Hc1. }
  destruct (frame_facts sqd Hsqk ts' xs' Hgo' Hdo' HX' d ts NM eq_refl eq_refl Hgo Hdo Hnoself Hcross' sh HEsh Ssh Twsh Tcsh)
    as (G1 & F1 & L1 & W1 & C1 & N1 & FR3 & FR4 & FR5 & FR6).
  fold gb in G1, F1, L1, W1, C1, N1, FR3, FR4, FR5, FR6. set (g1 := frame_of gb sh sqd) in *.
  (* the enclosing SELECT on the frame *)
  destruct (select_core_f e' Hp d ts Hgo Hinj Hnd Hdo eq_refl (leak ts')) with (NM := NM) (g1 := g1) (cols := xs) as (sub & Esub & Xsub & Ssub & Tsub); try assumption.
  { intros a w v (v' & Hv' & -> & _) Hv K. exact (proj1 (Hnd' _ _ Hv' Hv') K) || idtac.
    pose proof (Htab from' Hrel' v' Hv') as _. apply in_map_iff in Hv'. destruct Hv' as (r' & <- & Hr'). apply in_map_iff in Hv. destruct Hv as (r & <- & Hr).
    rewrite forallb_forall in Hrel, Hrel'. pose proof (Hrel r Hr) as Ok1. pose proof (Hrel' r' Hr') as Ok2.
    destruct r as [t1 al1| |]; try discriminate. destruct r' as [t2 al2| |]; try discriminate. cbn [tbl_of tbl dalias dstr] in K.
    cbn [rel_ok] in Ok2. apply andb_true_iff in Ok2. destruct Ok2 as [Ht2 Ha2]. unfold tref_ok in Ht2. apply andb_true_iff in Ht2.
    destruct al2 as [a2|]; [exact (id_ok_not_tref a2 _ _ Ha2 (eq_sym K))|exact (id_ok_not_tref (snd t2) _ _ (proj1 Ht2) (eq_sym K))]. }
  (* the statement holder *)
  assert (Ea : analyze e' false (r_stmt noise s) = Ok (compose gb sub)).
  { assert (Eq : analyze e' false (r_stmt noise s) =
                 (do sub0 <- extract (S (S (S (3 * depth (r_stmt noise s) + 6)))) e' XSelect (r_query noise (S (q_size q)) q) (dctx gb); Ok (compose gb sub0))).
    { destruct Hs as [->|[->| ->]]; [apply (analyze_insert_q noise Hn e' He' t items from cj _ Ht)
                                    |apply (analyze_create_q noise Hn e' He' false t items from cj _ Ht)
                                    |apply (analyze_create_q noise Hn e' He' true t items from cj _ Ht)]. }
    rewrite Eq. set (F := 3 * depth (r_stmt noise s) + 6). rewrite Hk.
    assert (Ein : extract (S (S F)) e' XSelect (r_brq noise (S k) sq)
                    {| c_cte := Some (sq_cte (init_holder (dctx gb))); c_write := Some [sqd]; c_write_columns := None |} = Ok sh).
    { rewrite (select_tables_extract noise Hn e' He' F _ items' from' cj' k); [exact Esh| |exact Hit'|exact Hne'|exact Hrel'|reflexivity].
      unfold sq. rewrite (sel_segments_brq_select noise Hn). reflexivity. }
    rewrite (extract_select_where noise Hn e' He' (S F) _ items from cj k c sq (dctx gb) sh); [| |exact Hit|exact Hne|exact Hrel| |exact Ein|].
    - change (init_holder (dctx gb)) with gb. fold sqd. fold g1. change (map (tbl_of e') from) with ts. change (map xcol_of items) with xs. rewrite Esub. reflexivity.
    - unfold q. rewrite (sel_segments_top_select noise Hn). unfold clauses. rewrite r_wh_some. reflexivity.
    - apply body_ok_tables; assumption.
    - change (init_holder (dctx gb)) with gb. exact C1. }
  assert (Hxs : forall x, In x xs -> xref_ok ts x) by (intros x Hx; apply (xref_ok_f_old ts (leak ts') NM x (HX x Hx))).
  destruct (holder_realises_f d ts (leak ts') xs g1 sub Hgo Hinj Hdo Hnds eq_refl HX) as (K1 & K2 & K3 & K4); try assumption.
  - intros nm Hnm. unfold unres_names in Hnm.
    assert (Hns : forall (A : Type) (f : dataset -> A) (g : A), In nm (match ts with [_] => [] | _ => [nm] end) -> match ts with [d1] => f d1 | _ => g end = g).
    { intros A f g. destruct ts as [|a [|b r]]; [reflexivity|intros []|reflexivity]. }
    assert (Hin : In nm (flat_map (fun x => match xsrc x with [(c1, None)] => [c1] | _ => [] end) xs) /\ In nm (match ts with [_] => [] | _ => [nm] end)).
    { destruct ts as [|a [|b r]]; [split; [exact Hnm|left; reflexivity]|destruct Hnm|split; [exact Hnm|left; reflexivity]]. }
    destruct Hin as [Hin Hsh]. apply in_flat_map in Hin. destruct Hin as (x & Hx & Hin). exists x. split; [exact Hx|].
    unfold S_of. destruct (xsrc x) as [|[c1 qq] rest]; [destruct Hin|]. destruct qq as [q1|]; [destruct Hin|].
    destruct rest as [|p r]; [|destruct Hin]. destruct Hin as [->|[]].
    rewrite (Hns _ _ _ Hsh). left. reflexivity.
  - intros x' s' nm v Hnm Hx' Hs' Ev. unfold unres_names in Hnm.
    assert (Hm : In nm (flat_map (fun x => match xsrc x with [(c1, None)] => [c1] | _ => [] end) xs) /\ (forall d1, ts <> [d1])).
    { destruct ts as [|a [|b r]]; [split; [exact Hnm|discriminate]|destruct Hnm|split; [exact Hnm|discriminate]]. }
    destruct Hm as [Hin Hns]. apply in_flat_map in Hin. destruct Hin as (x & Hx & Hin).
    destruct (Hxs x Hx) as (_ & c1 & qq & Ex & _ & Hq). rewrite Ex in Hin. destruct qq as [q1|]; [destruct Hin|]. destruct Hin as [->|[]].
    destruct Hq as [(d1 & Ed)|[Hmul _]]; [exfalso; exact (Hns d1 Ed)|].
    destruct (Hxs x' Hx') as (_ & c' & qq' & Ex' & _ & Hq'). unfold S_of in Hs'. rewrite Ex' in Hs'. destruct qq' as [q'|].
    + destruct Hq' as (v' & Hv' & Eq' & Hu'). rewrite (find_dalias ts q' v' Hv' Eq' (fun w Hw E => Hu' w Hw (or_introl E))) in Hs'.
      destruct Hs' as [<-|[]]. cbn [craw]. apply (Hnq x x' nm c' q' Hx Hx' Ex Ex' Hmul).
    + rewrite (multi_not_single ts _ _ _ Hmul) in Hs'. destruct Hs' as [<-|[]].
      destruct (Ucol_props ts c' Hinj) as (_ & _ & U3). destruct Hmul as (a & b & Ha & Hb & Hab).
      pose proof (two_members _ a b (proj2 (U3 a) Ha) (proj2 (U3 b) Hb) Hab) as Hl. rewrite Ev in Hl. cbn in Hl. lia.
  - assert (Hsh1 : forall x y, has_edge g1 x y = has_edge sh x y) by (intros x y; unfold g1; apply frame_edges; reflexivity).
    assert (HG : forall x y, has_edge (compose gb sub) x y = has_edge sh x y || ematch x y (map (fun v => (NData v, NStr (dalias v))) ts ++ sel_edges d (S_of ts) (own_pairs d xs))).
    { intros x y. rewrite has_edge_compose, (ext_edges _ _ _ Xsub), Hsh1. reflexivity. }
    exists (compose gb sub). split; [exact Ea|]. split; [exact K1|]. split.
    { apply lits_compose; [split; [intros n [<-|[]]; exact I|intros e0 []]|exact (sv_lits _ _ _ _ Ssub)]. }
    split; [exact K3|]. split.
    + intros x y H. rewrite HG in H. rewrite !has_node_compose. apply orb_true_iff in H. destruct H as [H|H].
      * rewrite (ext_edges _ _ _ Xsh) in H. cbn [orb] in H. change (has_edge (add_write empty_graph sqd) x y) with false in H. cbn [orb] in H.
        unfold ematch in H. apply existsb_exists in H. destruct H as (p0 & Hp0 & E0). apply andb_true_iff in E0. destruct E0 as [E1 E2].
        destruct (ext_new _ _ _ Xsh p0 Hp0) as [M1 M2].
        assert (Hup : forall n, has_node sh n = true -> has_node sub n = true).
        { intros n Hn0. apply (ext_mono _ _ _ Xsub). unfold g1, frame_of. rewrite has_node_compose, has_node_set_attr, Hn0. apply orb_true_r. }
        rewrite (RefineGraph.has_node_cong sub x (fst p0) E1), (RefineGraph.has_node_cong sub y (snd p0) E2), (Hup _ M1), (Hup _ M2), !orb_true_r. auto.
      * unfold ematch in H. apply existsb_exists in H. destruct H as (p0 & Hp0 & E0). apply andb_true_iff in E0. destruct E0 as [E1 E2].
        destruct (ext_new _ _ _ Xsub p0 Hp0) as [M1 M2].
        rewrite (RefineGraph.has_node_cong sub x (fst p0) E1), (RefineGraph.has_node_cong sub y (snd p0) E2), M1, M2, !orb_true_r. auto.
    + intros x y Hx H. rewrite HG in H. apply orb_true_iff in H. destruct H as [H|H].
      * right. split; [apply (FR3 x y Hx); rewrite Hsh1; exact H|].
        rewrite HEsh in H. unfold EL' in H. rewrite ematch_app, (ematch_alias_col x y ts' Hx), (ematch_sel_col sqd (S_of ts') _ x y Hx) in H. cbn [orb] in H.
        unfold ematch in H. apply existsb_exists in H. destruct H as (p0 & Hp0 & E0). apply in_map_iff in Hp0. destruct Hp0 as (f & <- & Hf).
        cbn [fst snd] in E0. apply andb_true_iff in E0. destruct E0 as [E1 _].
        unfold flows_of in Hf. apply in_flat_map in Hf. destruct Hf as (p1 & Hp1 & Hf). apply in_map_iff in Hf. destruct Hf as (s1 & <- & Hs1).
        unfold own_pairs in Hp1. apply in_map_iff in Hp1. destruct Hp1 as (x1 & <- & Hx1). cbn [fst snd] in *. exists x1, s1. auto.
      * left. rewrite ematch_app, (ematch_alias_col x y ts Hx), (ematch_sel_col d (S_of ts) _ x y Hx) in H. cbn [orb] in H.
        unfold ematch in H. apply existsb_exists in H. destruct H as (p0 & Hp0 & E0). apply in_map_iff in Hp0. destruct Hp0 as (f & <- & Hf).
        cbn [fst snd] in E0. apply andb_true_iff in E0. exists f. tauto.
Qed.

Lemma holder_wherein1_cols noise e t cs items from cj c items' from' cj' :
  noise_ok noise = true -> env_ok e = true ->
  let q := QSelect items from cj (Some (c, QSelect items' from' cj' None)) in
  tref_ok t = true -> forallb id_ok cs = true -> NoDup cs -> List.length cs = List.length items ->
  forallb item_ok items = true -> from <> [] -> forallb rel_ok from = true ->
  forallb item_ok items' = true -> from' <> [] -> forallb rel_ok from' = true ->
  let d := tbl e t None in let ts := map (tbl_of e) from in let xs := map xcol_of items in
  let ts' := map (tbl_of e) from' in let xs' := map xcol_of items' in
  let NM := unres_names ts xs in
  group_ok d ts -> ts_inj ts -> names_nodot ts -> NoDup (map dstr ts) ->
  ts_inj ts' -> names_nodot ts' -> (forall v', In v' ts' -> dataset_eqb v' d = false) ->
  (forall x, In x xs -> xref_ok_f ts (leak ts') NM x) -> noqual ts xs ->
  (forall x', In x' xs' -> xref_ok_f ts' LF [] x') ->
  (forall nm x' c0 qq, In nm NM -> In x' xs' -> xsrc x' = [(c0, qq)] -> c0 <> nm) ->
  exists G, analyze e false (r_stmt noise (SInsert t (Some cs) q)) = Ok G /\ clean_holder G /\ lits_in (QC ts NM) G /\
            realises_in G (flows_of (S_of ts) (combine xs (map (Wcol d) cs))) /\
            (forall x y, has_edge G x y = true -> has_node G x = true /\ has_node G y = true) /\
            (forall x y, is_column x = true -> has_edge G x y = true ->
               (exists f, In f (flows_of (S_of ts) (combine xs (map (Wcol d) cs))) /\ node_eqb x (NCol (fst f)) = true /\ node_eqb y (NCol (snd f)) = true) \/
               (parent_is KSubq y = true /\ exists x' s', In x' xs' /\ In s' (S_of ts' x') /\ node_eqb x (NCol s') = true)).
Proof.
  intros Hn He q Ht Hcs Hndc Hlen Hit Hne Hrel Hit' Hne' Hrel' d ts xs ts' xs' NM Hgo Hinj Hnd Hnds Hinj' Hnd' Hnoself HX Hnq HX' Hcross.
  set (s := SInsert t (Some cs) q).
  set (e' := e).
  assert (He' : env_ok e' = true) by exact He.
  assert (Hp : p_truthy (e_provider e') = false) by exact (proj1 (env_facts e' He')).
  assert (Htab : forall (fr : list rel), forallb rel_ok fr = true -> forall v, In v (map (tbl_of e') fr) -> tab_ok v).
  { intros fr Hfr v Hv. apply in_map_iff in Hv. destruct Hv as (r & <- & Hr). rewrite forallb_forall in Hfr. specialize (Hfr r Hr).
    destruct r; try discriminate. split; reflexivity. }
  assert (Hdo : Forall data_ok ts) by (apply Forall_forall; intros v Hv; exact (proj2 (Htab from Hrel v Hv))).
  assert (Hdo' : Forall data_ok ts') by (apply Forall_forall; intros v Hv; exact (proj2 (Htab from' Hrel' v Hv))).
  set (sq := QSelect items' from' cj' None) in *.
  assert (Hk : exists k, q_size q = S k) by (eexists; apply q_size_select). destruct Hk as [k Hk].
  set (sqd := mk_subquery (r_brq noise (S k) sq) None).
  assert (Hsqk : dk sqd = KSubq) by reflexivity.
  assert (Hsqok : data_ok sqd) by (unfold data_ok; cbn; discriminate).
  assert (Hgo' : group_ok sqd ts').
  { constructor; [intros v Hv; exact (proj1 (Htab from' Hrel' v Hv))|exact (proj1 Hinj')|].
    intros v Hv. unfold dataset_eqb. rewrite (proj1 (Htab from' Hrel' v Hv)), Hsqk. reflexivity. }
  set (gb := gb_of d cs).
  destruct (gb_facts d cs eq_refl Hndc) as (GA & GB & GC & GD & GO). fold gb in GA, GB, GC, GD, GO.
  assert (Cgb : sq_cte gb = []) by (unfold sq_cte; rewrite GC; reflexivity).
  destruct (inner_holder2 e' Hp sqd Hsqok ts' xs' Hgo' Hinj' Hnd' Hdo' HX') as (sh & Esh & HEsh & Ssh & Twsh & Tcsh & Xsh).
  assert (Hcross' : forall nm x' c0 qq, In nm NM -> In x' xs' -> xsrc x' = [(c0, qq)] -> c0 <> escape nm).
  { intros nm x' c0 qq Hnm Hx' Exs. replace (escape nm) with nm; [exact (Hcross nm x' c0 qq Hnm Hx' Exs)|].
    unfold NM, unres_names in Hnm.
    assert (Hin : In nm (flat_map (fun x => match xsrc x with [(c1, None)] => [c1] | _ => [] end) xs)) by (destruct ts as [|a [|b r]]; [exact Hnm|destruct Hnm|exact Hnm]).
    apply in_flat_map in Hin. destruct Hin as (x & Hx & Hin). destruct (HX x Hx) as (_ & c1 & qq1 & Ex & Hc1 & _). rewrite Ex in Hin.
    destruct qq1; [destruct Hin|]. destruct Hin as [<-|[]]. symmetry. exact Hc1. }
  destruct (frame_facts_cols e' He' sqd Hsqk Hsqok ts' xs' Hgo' Hdo' HX' (xcol_ok_of items' Hit') d ts NM eq_refl eq_refl Hgo Hdo Hnoself Hcross' cs Hndc sh Esh HEsh Ssh Twsh Tcsh)
    as (G1 & F1 & L1 & W1 & C1 & R1 & O1 & Sub1 & FR3 & FR4 & FR5 & FR6).
  fold gb in G1, F1, L1, W1, C1, R1, O1, Sub1, FR3, FR4, FR5, FR6. set (g1 := frame_of gb sh sqd) in *.
  assert (Hlx : List.length xs = List.length cs) by (unfold xs; rewrite map_length; lia).
  destruct (select_core_cols_f e' Hp d ts Hgo Hinj Hnd Hdo eq_refl (leak ts')) with (NM := NM) (cs := cs) (g1 := g1) (cols := xs) as (sub & Esub & Xsub & Ssub & Tsub); try assumption.
  { intros a w v (v' & Hv' & -> & _) Hv K.
    apply in_map_iff in Hv'. destruct Hv' as (r' & <- & Hr'). apply in_map_iff in Hv. destruct Hv as (r & <- & Hr).
    rewrite forallb_forall in Hrel, Hrel'. pose proof (Hrel r Hr) as Ok1. pose proof (Hrel' r' Hr') as Ok2.
    destruct r as [t1 al1| |]; try discriminate. destruct r' as [t2 al2| |]; try discriminate. cbn [tbl_of tbl dalias dstr] in K.
    cbn [rel_ok] in Ok2. apply andb_true_iff in Ok2. destruct Ok2 as [Ht2 Ha2]. unfold tref_ok in Ht2. apply andb_true_iff in Ht2.
    destruct al2 as [a2|]; [exact (id_ok_not_tref a2 _ _ Ha2 (eq_sym K))|exact (id_ok_not_tref (snd t2) _ _ (proj1 Ht2) (eq_sym K))]. }
  assert (Hinit : init_holder (dctx gb) = gb) by (apply init_delegate_cols; [reflexivity|exact Hndc]).
  assert (Ea : analyze e' false (r_stmt noise s) = Ok (compose gb sub)).
  { unfold s, q. rewrite (analyze_insert_cols_q noise Hn e' He' t cs items from cj _ Ht Hcs).
    set (F := 3 * depth _ + 6). change (q_size (QSelect items from cj (Some (c, sq)))) with (q_size q). rewrite Hk. change (tbl e' t None) with d. fold gb.
    assert (Ein : extract (S (S F)) e' XSelect (r_brq noise (S k) sq)
                    {| c_cte := Some (sq_cte (init_holder (dctx gb))); c_write := Some [sqd]; c_write_columns := None |} = Ok sh).
    { rewrite Hinit, Cgb.
      rewrite (select_tables_extract noise Hn e' He' F _ items' from' cj' k); [exact Esh| |exact Hit'|exact Hne'|exact Hrel'|reflexivity].
      unfold sq. rewrite (sel_segments_brq_select noise Hn). reflexivity. }
    rewrite (extract_select_where noise Hn e' He' (S F) _ items from cj k c sq (dctx gb) sh); [| |exact Hit|exact Hne|exact Hrel| |exact Ein|].
    - rewrite Hinit. fold sqd. fold g1. change (map (tbl_of e') from) with ts. change (map xcol_of items) with xs. rewrite Esub. reflexivity.
    - rewrite (sel_segments_top_select noise Hn). unfold clauses. rewrite r_wh_some. reflexivity.
    - apply body_ok_tables; assumption.
    - rewrite Hinit. exact C1. }
  assert (Hxs : forall x, In x xs -> xref_ok ts x) by (intros x Hx; apply (xref_ok_f_old ts (leak ts') NM x (HX x Hx))).
  destruct (holder_realises_g d ts (leak ts') xs gb (combine xs (map (Wcol d) cs)) g1 sub Hgo Hinj Hdo Hnds eq_refl HX) as (K1 & K2 & K3 & K4); try assumption.
  - intros nm Hnm. unfold unres_names in Hnm.
    assert (Hns : forall (A : Type) (f : dataset -> A) (g : A), In nm (match ts with [_] => [] | _ => [nm] end) -> match ts with [d1] => f d1 | _ => g end = g).
    { intros A f g. destruct ts as [|a [|b r]]; [reflexivity|intros []|reflexivity]. }
    assert (Hin : In nm (flat_map (fun x => match xsrc x with [(c1, None)] => [c1] | _ => [] end) xs) /\ In nm (match ts with [_] => [] | _ => [nm] end)).
    { destruct ts as [|a [|b r]]; [split; [exact Hnm|left; reflexivity]|destruct Hnm|split; [exact Hnm|left; reflexivity]]. }
    destruct Hin as [Hin Hsh]. apply in_flat_map in Hin. destruct Hin as (x & Hx & Hin). exists x. split; [exact Hx|].
    unfold S_of. destruct (xsrc x) as [|[c1 qq] rest]; [destruct Hin|]. destruct qq as [q1|]; [destruct Hin|].
    destruct rest as [|p r]; [|destruct Hin]. destruct Hin as [->|[]].
    rewrite (Hns _ _ _ Hsh). left. reflexivity.
  - intros x' s' nm v Hnm Hx' Hs' Ev. unfold unres_names in Hnm.
    assert (Hm : In nm (flat_map (fun x => match xsrc x with [(c1, None)] => [c1] | _ => [] end) xs) /\ (forall d1, ts <> [d1])).
    { destruct ts as [|a [|b r]]; [split; [exact Hnm|discriminate]|destruct Hnm|split; [exact Hnm|discriminate]]. }
    destruct Hm as [Hin Hns]. apply in_flat_map in Hin. destruct Hin as (x & Hx & Hin).
    destruct (Hxs x Hx) as (_ & c1 & qq & Ex & _ & Hq). rewrite Ex in Hin. destruct qq as [q1|]; [destruct Hin|]. destruct Hin as [->|[]].
    destruct Hq as [(d1 & Ed)|[Hmul _]]; [exfalso; exact (Hns d1 Ed)|].
    destruct (Hxs x' Hx') as (_ & c' & qq' & Ex' & _ & Hq'). unfold S_of in Hs'. rewrite Ex' in Hs'. destruct qq' as [q'|].
    + destruct Hq' as (v' & Hv' & Eq' & Hu'). rewrite (find_dalias ts q' v' Hv' Eq' (fun w Hw E => Hu' w Hw (or_introl E))) in Hs'.
      destruct Hs' as [<-|[]]. cbn [craw]. apply (Hnq x x' nm c' q' Hx Hx' Ex Ex' Hmul).
    + rewrite (multi_not_single ts _ _ _ Hmul) in Hs'. destruct Hs' as [<-|[]].
      destruct (Ucol_props ts c' Hinj) as (_ & _ & U3). destruct Hmul as (a & b & Ha & Hb & Hab).
      pose proof (two_members _ a b (proj2 (U3 a) Ha) (proj2 (U3 b) Hb) Hab) as Hl. rewrite Ev in Hl. cbn in Hl. lia.
  - intros [x w] Hp0. split; [exact (in_combine_l _ _ _ _ Hp0)|]. apply in_combine_r in Hp0. apply in_map_iff in Hp0.
    destruct Hp0 as (c0 & <- & _). reflexivity.
  - intros x Hx. apply (In_combine_l_ex xs (map (Wcol d) cs) x); [rewrite map_length; exact Hlx|exact Hx].
  - assert (Qn : forall n, In n (map fst (gnodes gb)) -> QC ts NM n).
    { intros n Hn0. rewrite GB in Hn0. destruct Hn0 as [<-|Hn0]; [exact I|]. apply in_map_iff in Hn0. destruct Hn0 as (c0 & <- & _). left. reflexivity. }
    split; [exact Qn|]. intros e0 He0. rewrite GA in He0. destruct (OE_edge d cs e0 He0) as (j & c0 & _ & ->). cbn [fst snd]. split; [exact I|left; reflexivity].
  - intros e0 He0. rewrite GA in He0. destruct (OE_edge d cs e0 He0) as (j & c0 & _ & ->). reflexivity.
  - assert (Hg1 : forall x y, has_edge g1 x y = has_edge gb x y || has_edge sh x y).
    { intros x y. unfold g1, frame_of. rewrite has_edge_compose, has_edge_set_attr. reflexivity. }
    assert (Hgbe : forall x y, has_edge gb x y = true -> exists c0, In c0 cs /\ node_eqb x (NData d) = true /\ node_eqb y (NCol (Wcol d c0)) = true).
    { intros x y H. apply has_edge_In in H. destruct H as (e0 & He0 & E1 & E2). rewrite GA in He0. destruct (OE_edge d cs e0 He0) as (j & c0 & Hc0 & ->). exists c0. auto. }
    assert (HG : forall x y, has_edge (compose gb sub) x y = has_edge gb x y || (has_edge sh x y || ematch x y (map (fun v => (NData v, NStr (dalias v))) ts ++ sel_edges d (S_of ts) (combine xs (map (Wcol d) cs))))).
    { intros x y. rewrite has_edge_compose, (ext_edges _ _ _ Xsub), Hg1. destruct (has_edge gb x y); reflexivity. }
    exists (compose gb sub). split; [exact Ea|]. split; [exact K1|]. split.
    { apply lits_compose; [|exact (sv_lits _ _ _ _ Ssub)].
      assert (Qn : forall n, In n (map fst (gnodes gb)) -> QC ts NM n).
      { intros n Hn0. rewrite GB in Hn0. destruct Hn0 as [<-|Hn0]; [exact I|]. apply in_map_iff in Hn0. destruct Hn0 as (c0 & <- & _). left. reflexivity. }
      split; [exact Qn|]. intros e0 He0. rewrite GA in He0. destruct (OE_edge d cs e0 He0) as (j & c0 & _ & ->). cbn [fst snd]. split; [exact I|left; reflexivity]. }
    split; [exact K3|]. split.
    + intros x y H. rewrite HG in H. rewrite !has_node_compose. apply orb_true_iff in H. destruct H as [H|H]; [|apply orb_true_iff in H; destruct H as [H|H]].
      * destruct (Hgbe x y H) as (c0 & Hc0 & E1 & E2).
        assert (M1 : has_node gb (NData d) = true) by (apply has_node_In; exists (NData d); split; [rewrite GB; left; reflexivity|apply node_eqb_refl]).
        assert (M2 : has_node gb (NCol (Wcol d c0)) = true).
        { apply has_node_In. exists (NCol (Wcol d c0)). split; [rewrite GB; right; apply in_map_iff; exists c0; auto|apply node_eqb_refl]. }
        rewrite (RefineGraph.has_node_cong gb x _ E1), (RefineGraph.has_node_cong gb y _ E2), M1, M2. auto.
      * rewrite (ext_edges _ _ _ Xsh) in H. change (has_edge (add_write empty_graph sqd) x y) with false in H. cbn [orb] in H.
        unfold ematch in H. apply existsb_exists in H. destruct H as (p0 & Hp0 & E0). apply andb_true_iff in E0. destruct E0 as [E1 E2].
        destruct (ext_new _ _ _ Xsh p0 Hp0) as [M1 M2].
        assert (Hup : forall n, has_node sh n = true -> has_node sub n = true).
        { intros n Hn0. apply (ext_mono _ _ _ Xsub). unfold g1, frame_of. rewrite has_node_compose, has_node_set_attr, Hn0. apply orb_true_r. }
        rewrite (RefineGraph.has_node_cong sub x (fst p0) E1), (RefineGraph.has_node_cong sub y (snd p0) E2), (Hup _ M1), (Hup _ M2), !orb_true_r. auto.
      * unfold ematch in H. apply existsb_exists in H. destruct H as (p0 & Hp0 & E0). apply andb_true_iff in E0. destruct E0 as [E1 E2].
        destruct (ext_new _ _ _ Xsub p0 Hp0) as [M1 M2].
        rewrite (RefineGraph.has_node_cong sub x (fst p0) E1), (RefineGraph.has_node_cong sub y (snd p0) E2), M1, M2, !orb_true_r. auto.
    + intros x y Hx H. rewrite HG in H. apply orb_true_iff in H. destruct H as [H|H]; [|apply orb_true_iff in H; destruct H as [H|H]].
      * destruct (Hgbe x y H) as (c0 & _ & E1 & _). destruct x; cbn in Hx, E1; discriminate.
      * right. split; [apply (FR3 x y Hx); rewrite Hg1, H; apply orb_true_r|].
        rewrite HEsh in H. unfold EL' in H. rewrite ematch_app, (ematch_alias_col x y ts' Hx), (ematch_sel_col sqd (S_of ts') _ x y Hx) in H. cbn [orb] in H.
        unfold ematch in H. apply existsb_exists in H. destruct H as (p0 & Hp0 & E0). apply in_map_iff in Hp0. destruct Hp0 as (f & <- & Hf).
        cbn [fst snd] in E0. apply andb_true_iff in E0. destruct E0 as [E1 _].
        unfold flows_of in Hf. apply in_flat_map in Hf. destruct Hf as (p1 & Hp1 & Hf). apply in_map_iff in Hf. destruct Hf as (s1 & <- & Hs1).
        unfold own_pairs in Hp1. apply in_map_iff in Hp1. destruct Hp1 as (x1 & <- & Hx1). cbn [fst snd] in *. exists x1, s1. auto.
      * left. rewrite ematch_app, (ematch_alias_col x y ts Hx), (ematch_sel_col d (S_of ts) _ x y Hx) in H. cbn [orb] in H.
        unfold ematch in H. apply existsb_exists in H. destruct H as (p0 & Hp0 & E0). apply in_map_iff in Hp0. destruct Hp0 as (f & <- & Hf).
        cbn [fst snd] in E0. apply andb_true_iff in E0. exists f. tauto.
Qed.

(* ================================================================== *)
(** * Part 3: the statement theorem *)

(** the table columns the WHERE sub-query of a statement reads (resolved sources of its select items) *)
Definition subq_srcs (ds : string) (s : Spec.stmt) : list vtx :=
  match stmt_query s with
  | Some (QSelect _ _ _ (Some (_, sq))) => flat_map (fun c : colspec => flat_map src_vtx (snd c)) (q_cols (S (q_size sq)) ds [] sq)
  | _ => []
  end.

Lemma stmt_edges_select_w ds (s : Spec.stmt) t items from cj wh :
  (s = SInsert t None (QSelect items from cj wh) \/ s = SCtas t (QSelect items from cj wh) \/ s = SView t (QSelect items from cj wh)) ->
  forallb is_rtable from = true ->
  stmt_edges ds s = flat_map (item_edges (tref_str ds t) (map (sbind ds) from)) items.
Proof.
  intros Hs Hrt.
  assert (E : stmt_edges ds s =
              flat_map (fun c : colspec => src_edges (tref_str ds t) (fst c) (snd c)) (flat_map (item_cols (map (sbind ds) from)) items)).
  { destruct Hs as [->|[->| ->]]; unfold stmt_edges; rewrite (q_cols_select _ ds items from cj wh Hrt);
      [apply combine_names_edges|reflexivity|reflexivity]. }
  rewrite E, flat_map_flat_map. reflexivity.
Qed.

Lemma stmt_edges_insert_cols_w ds t cs items from cj wh :
  forallb is_rtable from = true -> List.length cs = List.length items ->
  (forall i, In i items -> exists srcs, item_cols (map (sbind ds) from) i = [(item_name i, srcs)]) ->
  stmt_edges ds (SInsert t (Some cs) (QSelect items from cj wh)) =
  flat_map (fun ic : item * string => src_edges (tref_str ds t) (snd ic) (flat_map snd (item_cols (map (sbind ds) from) (fst ic))))
           (combine items cs).
Proof.
  intros Hrt Hlen Hs. unfold stmt_edges. rewrite (q_cols_select _ ds items from cj wh Hrt).
  set (IC := item_cols (map (sbind ds) from)) in *.
  assert (Hl : List.length (flat_map IC items) = List.length items).
  { apply length_flat_single. intros i Hi. destruct (Hs i Hi) as (srcs & E). eexists. exact E. }
  rewrite Hl, Hlen, Nat.eqb_refl. clear Hl.
  revert cs Hlen. induction items as [|i r IH]; intros [|c cr] Hlen; cbn [List.length] in Hlen; try discriminate; [reflexivity|].
  destruct (Hs i (or_introl eq_refl)) as (srcs & E). cbn [flat_map combine fst snd]. rewrite E. cbn [app combine flat_map fst snd].
  rewrite app_nil_r. f_equal. apply IH; [intros i' Hi'; apply Hs; right; exact Hi'|lia].
Qed.

Lemma map_fst_src_edges T nm srcs : map fst (src_edges T nm srcs) = flat_map src_vtx srcs.
Proof. unfold src_edges. induction srcs as [|sr r IH]; [reflexivity|]. cbn [flat_map]. rewrite map_app, map_map. cbn [fst]. rewrite map_id. f_equal. exact IH. Qed.

(** the sources of a resolved item, as spec vertices *)
Lemma item_srcs_v e from i :
  forallb rel_ok from = true -> item_ok i = true -> item_res from i ->
  flat_map (fun c : colspec => flat_map src_vtx (snd c)) (item_cols (map (sbind (e_cfg e)) from) i) = map vk (S_of (map (tbl_of e) from) (xcol_of i)).
Proof.
  intros Hrel Hi Hres. pose proof (item_corr_v e (None, "x") from i Hrel Hi Hres) as H. apply (f_equal (map fst)) in H.
  rewrite !map_map in H. cbn [phi fst] in H.
  assert (E : map fst (item_edges (tref_str (e_cfg e) (None, "x")) (map (sbind (e_cfg e)) from) i) =
              flat_map (fun c : colspec => flat_map src_vtx (snd c)) (item_cols (map (sbind (e_cfg e)) from) i)).
  { unfold item_edges. induction (item_cols (map (sbind (e_cfg e)) from) i) as [|c r IH]; [reflexivity|]. cbn [flat_map]. rewrite map_app, map_fst_src_edges, IH. reflexivity. }
  rewrite <- E, H. apply map_ext. intros s0. reflexivity.
Qed.

Lemma subq_srcs_items ds (s : Spec.stmt) t cols items from cj c items' from' cj' :
  (s = SInsert t cols (QSelect items from cj (Some (c, QSelect items' from' cj' None))) \/
   s = SCtas t (QSelect items from cj (Some (c, QSelect items' from' cj' None))) \/
   s = SView t (QSelect items from cj (Some (c, QSelect items' from' cj' None)))) ->
  forallb is_rtable from' = true ->
  subq_srcs ds s = flat_map (fun i' => flat_map (fun c0 : colspec => flat_map src_vtx (snd c0)) (item_cols (map (sbind ds) from') i')) items'.
Proof.
  intros Hs Hrt'. assert (E : subq_srcs ds s = flat_map (fun c0 : colspec => flat_map src_vtx (snd c0)) (q_cols (S (q_size (QSelect items' from' cj' None))) ds [] (QSelect items' from' cj' None)))
    by (destruct Hs as [->|[->| ->]]; reflexivity).
  rewrite E, (q_cols_select _ ds items' from' cj' None Hrt'), flat_map_flat_map. reflexivity.
Qed.

Lemma QC_nil_resolved ts c : QC ts [] (NCol c) -> CompDefs.resolvedn (NCol c) = true.
Proof.
  intros [H|(_ & [[] _] & _)]. unfold CompDefs.resolvedn. cbn [unresolved]. rewrite H. reflexivity.
Qed.

(** the conjuncts of [c04_hyps] and the edges, from the facts on the holder *)
Lemma wherein_holder_conclusion G ts FL Es Xs :
  clean_holder G -> lits_in (QC ts []) G -> realises_in G FL ->
  (forall x y, has_edge G x y = true -> has_node G x = true /\ has_node G y = true) ->
  (forall x y, is_column x = true -> has_edge G x y = true ->
     (exists f, In f FL /\ node_eqb x (NCol (fst f)) = true /\ node_eqb y (NCol (snd f)) = true) \/
     (parent_is KSubq y = true /\ exists u, In u Xs /\ node_eqb x (nu u) = true)) ->
  (forall f, In f FL -> tcol (fst f) /\ tcol (snd f)) -> Es = map phi FL ->
  CompDefs.plain_holder (holder_of G) = true /\ CompDefs.resolved_holder (holder_of G) = true /\
  CompDefs.cwf_holder (holder_of G) = true /\ edges_match_x G Es Xs.
Proof.
  intros K1 LG K3 Hcl HX HT ->. split; [exact (core_plain G K1)|]. split; [|split].
  - apply core_resolved. apply (lits_weaken (QC ts [])); [|exact LG]. intros n Hn. destruct n as [v|c|s0]; [reflexivity|exact (QC_nil_resolved ts c Hn)|reflexivity].
  - unfold CompDefs.cwf_holder, CompDefs.cwf_graph. cbn [hg holder_of].
    unfold CompDefs.closed_src, RefineDefs.closed_tgt, CompDefs.col_out_closed. rewrite !andb_true_iff. split; [split|]; apply forallb_forall; intros e0 He.
    + exact (proj1 (Hcl _ _ (edge_has_edge G e0 He))).
    + exact (proj2 (Hcl _ _ (edge_has_edge G e0 He))).
    + unfold RefineDefs.esrc, RefineDefs.etgt. destruct (is_column (fst (fst e0))) eqn:Ec; [|reflexivity]. cbn [negb orb].
      destruct (HX _ _ Ec (edge_has_edge G e0 He)) as [(f & _ & _ & E2)|(Hs & _)]; [rewrite (is_column_eqb _ _ E2); reflexivity|].
      destruct (snd (fst e0)); cbn in Hs; try discriminate. reflexivity.
  - split.
    + intros x y Hc. unfold CompDefs.col_edge in Hc. apply andb_true_iff in Hc. destruct Hc as [Hc He]. apply andb_true_iff in Hc. destruct Hc as [Hx _].
      destruct (HX x y Hx He) as [(f & Hf & E1 & E2)|K]; [left|right; exact K]. destruct (HT f Hf) as [T1 T2].
      exists (vk (fst f)), (vk (snd f)). split; [apply (in_map phi) in Hf; exact Hf|].
      split; [apply (node_eqb_trans _ _ _ E1 (tcol_nu _ T1))|apply (node_eqb_trans _ _ _ E2 (tcol_nu _ T2))].
    + intros u v Huv. apply in_map_iff in Huv. destruct Huv as (f & Ef & Hf). inversion Ef. subst u v. destruct (HT f Hf) as [T1 T2].
      rewrite (Composition.col_edge_cong G _ (NCol (fst f)) _ (NCol (snd f))).
      * unfold CompDefs.col_edge. cbn [is_column andb]. exact (ri_complete _ _ K3 f Hf).
      * apply node_eqb_true_sym. exact (tcol_nu _ T1).
      * apply node_eqb_true_sym. exact (tcol_nu _ T2).
Qed.

Lemma resolvedb_res from' items' : items_cond from' items' -> resolvedb from' items' = true -> forall i, In i items' -> item_res from' i.
Proof.
  intros Hic Hr i Hi. specialize (Hic i Hi). unfold resolvedb in Hr. rewrite forallb_forall in Hr. specialize (Hr i Hi). unfold item_res.
  destruct (snd (item_ref i)) as [q|]; [exact Hic|]. destruct from' as [|r [|r' l]]; try discriminate. exists r. reflexivity.
Qed.

Section StmtW.
Variables (noise : list seg) (e : env).
Hypothesis Hn : noise_ok noise = true.
Hypothesis He : env_ok e = true.
Variables (s : Spec.stmt) (t : tref) (items : list item) (from : list rel) (cj : bool) (c : string) (items' : list item) (from' : list rel) (cj' : bool).
Let q := QSelect items from cj (Some (c, QSelect items' from' cj' None)).
Hypothesis Hs' : (exists cols, s = SInsert t cols q) \/ s = SCtas t q \/ s = SView t q.
Hypothesis Hc : colshape s = true.
Hypothesis Ht : tref_ok t = true.
Hypothesis Hit : forallb item_ok items = true.
Hypothesis Hne : from <> [].
Hypothesis Hrel : forallb rel_ok from = true.
Hypothesis Hit' : forallb item_ok items' = true.
Hypothesis Hne' : from' <> [].
Hypothesis Hrel' : forallb rel_ok from' = true.
Hypothesis Hd : trefs_distinct (map rtref from) = true.
Hypothesis Hd' : trefs_distinct (map rtref from') = true.
Hypothesis Hres : resolvedb from' items' = true.
Hypothesis Huq : match from with [_] => true | _ => forallb (fun i => match snd (item_ref i) with Some _ => true | None => false end) items end = true.

Let d := tbl e t None.
Let ts := map (tbl_of e) from.
Let xs := map xcol_of items.
Let ts' := map (tbl_of e) from'.
Let xs' := map xcol_of items'.

Lemma stmtw_facts :
  tables_cond (e_cfg e) t from /\ items_cond from items /\ tables_cond (e_cfg e) t from' /\ items_cond from' items' /\ tables_cond "" t from /\
  unres_names ts xs = [] /\ (forall i, In i items -> item_res from i) /\ (forall i, In i items' -> item_res from' i) /\
  group_ok d ts /\ ts_inj ts /\ names_nodot ts /\ NoDup (map dstr ts) /\ ts_inj ts' /\ names_nodot ts' /\
  (forall v', In v' ts' -> dataset_eqb v' d = false) /\
  (forall x, In x xs -> xref_ok_f ts (leak ts') (unres_names ts xs) x) /\ noqual ts xs /\
  (forall x', In x' xs' -> xref_ok_f ts' LF [] x') /\
  (forall nm x' c0 qq, In nm (unres_names ts xs) -> In x' xs' -> xsrc x' = [(c0, qq)] -> c0 <> nm).
Proof.
  destruct (colshape_wherein1 (e_cfg e) s t items from cj c items' from' cj' Hs' Hc Ht Hne Hrel Hit Hne' Hrel' Hit' Hd Hd')
    as (Ptc & Pic & Pnq & Ptc' & Pic' & _ & Hlk & _).
  destruct (colshape_wherein1 "" s t items from cj c items' from' cj' Hs' Hc Ht Hne Hrel Hit Hne' Hrel' Hit' Hd Hd') as (Tc0 & _).
  pose proof (unq_single_unres e items from Huq Hit) as Hun. fold ts xs in Hun.
  split; [exact Ptc|]. split; [exact Pic|]. split; [exact Ptc'|]. split; [exact Pic'|]. split; [exact Tc0|]. split; [exact Hun|].
  split; [exact (unq_single_res items from Huq Pic)|]. split; [exact (resolvedb_res from' items' Pic' Hres)|].
  split; [exact (group_ok_of e t from Hrel Ptc)|]. split; [exact (ts_inj_of e t from Hrel Ptc)|]. split; [exact (names_nodot_of e from Hrel)|].
  split; [unfold ts; rewrite (map_dstr_tbl e from Hrel); exact (proj1 Ptc)|]. split; [exact (ts_inj_of e t from' Hrel' Ptc')|].
  split; [exact (names_nodot_of e from' Hrel')|]. split; [intros v' Hv'; exact (go_target _ _ (group_ok_of e t from' Hrel' Ptc') v' Hv')|].
  split; [exact (xref_ok_f_of e t from from' items Hrel Hrel' Hit Ptc Pic Hlk)|]. split; [exact (noqual_of e from items Hit Pnq)|].
  split; [exact (xref_ok_f_resolved e t from' items' Hrel' Hit' Ptc' Pic' Hres)|]. rewrite Hun. intros nm x' c0 qq [].
Qed.

(** the sub-query sources as spec vertices *)
Lemma stmtw_xsrc x : (forall i, In i items' -> item_res from' i) -> (forall x', In x' xs' -> xref_ok_f ts' LF [] x') ->
  (exists x' s', In x' xs' /\ In s' (S_of ts' x') /\ node_eqb x (NCol s') = true) ->
  exists u, In u (subq_srcs (e_cfg e) s) /\ node_eqb x (nu u) = true.
Proof.
  intros Hres' HX' (x' & s' & Hx' & Hs0 & E). pose proof Hx' as Hx0. unfold xs' in Hx0. apply in_map_iff in Hx0. destruct Hx0 as (i' & Ei' & Hi').
  assert (Hrt' : forallb is_rtable from' = true) by (rewrite forallb_forall in *; intros r Hr; apply rel_ok_table; apply Hrel'; exact Hr).
  assert (Hs3 : s = SInsert t (match s with SInsert _ cols _ => cols | _ => None end) q \/ s = SCtas t q \/ s = SView t q).
  { destruct Hs' as [(cols & ->)|[->| ->]]; [left; reflexivity|right; left; reflexivity|right; right; reflexivity]. }
  exists (vk s'). split.
  - rewrite (subq_srcs_items (e_cfg e) s t _ items from cj c items' from' cj' Hs3 Hrt'). apply in_flat_map. exists i'. split; [exact Hi'|].
    rewrite forallb_forall in Hit'. rewrite (item_srcs_v e from' i' Hrel' (Hit' i' Hi') (Hres' i' Hi')). rewrite Ei'. apply in_map. exact Hs0.
  - destruct (S_of_resolved ts' LF x' s' (HX' x' Hx') Hs0) as (v & c0 & qq & Hv & -> & _).
    apply (node_eqb_trans _ _ _ E). apply tcol_nu. exists v. split; [reflexivity|]. exact (ts_tcol e from' v Hrel' Hv).
Qed.

Lemma stmtw_srcs_tcol x s0 : unres_names ts xs = [] -> group_ok d ts -> ts_inj ts -> (forall x, In x xs -> xref_ok ts x) ->
  In x xs -> In s0 (S_of ts x) -> tcol s0.
Proof.
  intros Hun Hgo Hinj Hxs Hx Hs0. destruct (S_of_props d ts xs x Hgo Hinj eq_refl Hx (Hxs x Hx)) as (_ & _ & _ & _ & A5). rewrite Hun in A5.
  destruct (A5 s0 Hs0) as [(v & Hv & Ev)|(nm & [] & _)]. exists v. split; [exact Ev|]. exact (ts_tcol e from v Hrel Hv).
Qed.

Lemma wherein_stmt_plain :
  (s = SInsert t None q \/ s = SCtas t q \/ s = SView t q) ->
  exists G, analyze e false (r_stmt noise s) = Ok G /\
            CompDefs.plain_holder (holder_of G) = true /\ CompDefs.resolved_holder (holder_of G) = true /\
            CompDefs.cwf_holder (holder_of G) = true /\ edges_match_x G (stmt_edges (e_cfg e) s) (subq_srcs (e_cfg e) s).
Proof.
  intros Hs3. destruct stmtw_facts as (Ptc & Pic & Ptc' & Pic' & _ & Hun & Hri & Hri' & Hgo & Hinj & Hnd & Hnds & Hinj' & Hnd' & Hnoself & HX & Hnq & HX' & Hcross).
  assert (Hrt : forallb is_rtable from = true) by (rewrite forallb_forall in *; intros r Hr; apply rel_ok_table; apply Hrel; exact Hr).
  assert (Hxs : forall x, In x xs -> xref_ok ts x) by (intros x Hx; exact (xref_ok_f_old ts (leak ts') _ x (HX x Hx))).
  destruct (holder_wherein1 noise e s t items from cj c items' from' cj' Hn He Hs3 Ht Hit Hne Hrel Hit' Hne' Hrel' Hgo Hinj Hnd Hnds Hinj' Hnd' Hnoself HX Hnq HX' Hcross)
    as (G & Ea & K1 & LG & K3 & Hcl & HXe).
  exists G. split; [exact Ea|]. fold d ts xs in LG, K3, HXe. rewrite Hun in LG.
  apply (wherein_holder_conclusion G ts (flows_of (S_of ts) (own_pairs d xs))); try assumption.
  - intros x y Hx H. destruct (HXe x y Hx H) as [K|(Hk & K)]; [left; exact K|right; split; [exact Hk|]]. exact (stmtw_xsrc x Hri' HX' K).
  - intros f Hf. unfold flows_of in Hf. apply in_flat_map in Hf. destruct Hf as (p0 & Hp0 & Hf). apply in_map_iff in Hf. destruct Hf as (s0 & <- & Hs0).
    unfold own_pairs in Hp0. apply in_map_iff in Hp0. destruct Hp0 as (x & <- & Hx). cbn [fst snd] in *. split.
    + exact (stmtw_srcs_tcol x s0 Hun Hgo Hinj Hxs Hx Hs0).
    + rewrite (own_col_eq d x (proj1 (HX x Hx))). exists d. split; [reflexivity|]. apply tbl_tcol_parent.
  - rewrite (stmt_edges_select_w (e_cfg e) s t items from cj _ Hs3 Hrt).
    unfold flows_of, own_pairs, xs. rewrite !flat_map_map', map_flat_map'. cbn [fst snd]. apply flat_map_ext_in'. intros i Hi.
    apply item_corr_v; [exact Hrel| |exact (Hri i Hi)]. rewrite forallb_forall in Hit. apply Hit. exact Hi.
Qed.

Lemma wherein_stmt_cols cs :
  s = SInsert t (Some cs) q -> forallb id_ok cs = true ->
  exists G, analyze e false (r_stmt noise s) = Ok G /\
            CompDefs.plain_holder (holder_of G) = true /\ CompDefs.resolved_holder (holder_of G) = true /\
            CompDefs.cwf_holder (holder_of G) = true /\ edges_match_x G (stmt_edges (e_cfg e) s) (subq_srcs (e_cfg e) s).
Proof.
  intros Es Hcs. destruct stmtw_facts as (Ptc & Pic & Ptc' & Pic' & Tc0 & Hun & Hri & Hri' & Hgo & Hinj & Hnd & Hnds & Hinj' & Hnd' & Hnoself & HX & Hnq & HX' & Hcross).
  assert (Hrt : forallb is_rtable from = true) by (rewrite forallb_forall in *; intros r Hr; apply rel_ok_table; apply Hrel; exact Hr).
  assert (Hxs : forall x, In x xs -> xref_ok ts x) by (intros x Hx; exact (xref_ok_f_old ts (leak ts') _ x (HX x Hx))).
  destruct (colshape_cols_w s t cs items from cj _ Es Hc Hrel Hit Tc0 Pic) as [Hndc Hlen].
  destruct (holder_wherein1_cols noise e t cs items from cj c items' from' cj' Hn He Ht Hcs Hndc Hlen Hit Hne Hrel Hit' Hne' Hrel' Hgo Hinj Hnd Hnds Hinj' Hnd' Hnoself HX Hnq HX' Hcross)
    as (G & Ea & K1 & LG & K3 & Hcl & HXe).
  exists G. split; [rewrite Es; exact Ea|]. fold d ts xs in LG, K3, HXe. rewrite Hun in LG.
  apply (wherein_holder_conclusion G ts (flows_of (S_of ts) (combine xs (map (Wcol d) cs)))); try assumption.
  - intros x y Hx H. destruct (HXe x y Hx H) as [K|(Hk & K)]; [left; exact K|right; split; [exact Hk|]]. exact (stmtw_xsrc x Hri' HX' K).
  - intros f Hf. unfold flows_of in Hf. apply in_flat_map in Hf. destruct Hf as ([x w] & Hp0 & Hf). apply in_map_iff in Hf. destruct Hf as (s0 & <- & Hs0).
    cbn [fst snd] in *. split.
    + exact (stmtw_srcs_tcol x s0 Hun Hgo Hinj Hxs (in_combine_l _ _ _ _ Hp0) Hs0).
    + apply in_combine_r in Hp0. apply in_map_iff in Hp0. destruct Hp0 as (c0 & <- & _). exists d. split; [reflexivity|]. apply tbl_tcol_parent.
  - rewrite Es. unfold q. rewrite (stmt_edges_insert_cols_w (e_cfg e) t cs items from cj _ Hrt Hlen (item_cols_single e t from items Hrel Hit Ptc Pic)).
    unfold flows_of, xs. rewrite combine_map, flat_map_map', map_flat_map'. cbn [fst snd].
    apply flat_map_ext_in'. intros [i c0] Hic'. cbn [fst snd]. pose proof (in_combine_l _ _ _ _ Hic') as Hi.
    rewrite forallb_forall in Hit.
    destruct (item_corr_vn e t from i c0 Hrel (Hit i Hi) (Hri i Hi)) as (srcs & E1 & E2).
    rewrite E1. cbn [flat_map snd app]. rewrite app_nil_r. exact E2.
Qed.
End StmtW.

Lemma wherein_stmt_any noise e (s : Spec.stmt) t items from cj c items' from' cj' :
  noise_ok noise = true -> env_ok e = true ->
  let q := QSelect items from cj (Some (c, QSelect items' from' cj' None)) in
  ((exists cols, s = SInsert t cols q /\ match cols with Some cs => forallb id_ok cs = true | None => True end) \/ s = SCtas t q \/ s = SView t q) ->
  colshape s = true ->
  tref_ok t && frag_query (S (q_size q)) q && names_ok_q (S (q_size q)) [] q = true ->
  forallb is_rtable from && trefs_distinct (map rtref from) && forallb is_rtable from' && trefs_distinct (map rtref from') && resolvedb from' items' = true ->
  match from with [_] => true | _ => forallb (fun i => match snd (item_ref i) with Some _ => true | None => false end) items end = true ->
  exists G, analyze e false (r_stmt noise s) = Ok G /\
            CompDefs.plain_holder (holder_of G) = true /\ CompDefs.resolved_holder (holder_of G) = true /\
            CompDefs.cwf_holder (holder_of G) = true /\ edges_match_x G (stmt_edges (e_cfg e) s) (subq_srcs (e_cfg e) s).
Proof.
  intros Hn He q Hs Hc Hok' Hsh Huq.
  apply andb_true_iff in Hsh. destruct Hsh as [Hsh Hres]. apply andb_true_iff in Hsh. destruct Hsh as [Hsh Hd'].
  apply andb_true_iff in Hsh. destruct Hsh as [Hsh Hrt']. apply andb_true_iff in Hsh. destruct Hsh as [Hrt Hd].
  destruct (stmt_ok_select_w t items from cj c items' from' cj' Hok' Hrt Hrt') as (Ht & Hit & Hne & Hrel & Hit' & Hne' & Hrel').
  assert (Hs' : (exists cols, s = SInsert t cols q) \/ s = SCtas t q \/ s = SView t q).
  { destruct Hs as [(cols & E & _)|[E|E]]; [left; exists cols; exact E|right; left; exact E|right; right; exact E]. }
  destruct Hs as [(cols & E & Hcols)|Hs].
  - destruct cols as [cs|].
    + exact (wherein_stmt_cols noise e Hn He s t items from cj c items' from' cj' Hs' Hc Ht Hit Hne Hrel Hit' Hne' Hrel' Hd Hd' Hres Huq cs E Hcols).
    + exact (wherein_stmt_plain noise e Hn He s t items from cj c items' from' cj' Hs' Hc Ht Hit Hne Hrel Hit' Hne' Hrel' Hd Hd' Hres Huq (or_introl E)).
  - exact (wherein_stmt_plain noise e Hn He s t items from cj c items' from' cj' Hs' Hc Ht Hit Hne Hrel Hit' Hne' Hrel' Hd Hd' Hres Huq (or_intror Hs)).
Qed.

(** the statement theorem: the analogue of [ScriptExact.core_statement] for a statement with WHERE c IN (SELECT ..) *)
Theorem wherein_core_statement : forall noise e s,
  noise_ok noise = true -> env_ok e = true ->
  stmt_ok s = true -> colshape s = true -> sel_wherein1c_syntactic s = true -> unq_single s = true ->
  exists G, analyze e false (r_stmt noise s) = Ok G /\
            CompDefs.plain_holder (holder_of G) = true /\ CompDefs.resolved_holder (holder_of G) = true /\
            CompDefs.cwf_holder (holder_of G) = true /\ edges_match_x G (stmt_edges (e_cfg e) s) (subq_srcs (e_cfg e) s).
Proof.
  intros noise e s Hn He Hok Hc Hsyn Huq.
  destruct s as [t cols q0|t q0|t q0|q0|kind]; try discriminate Hsyn;
    destruct q0 as [items from cj [[c sq]|]| |]; try discriminate Hsyn; destruct sq as [items' from' cj' [wh'|]| |]; try discriminate Hsyn;
    cbn [sel_wherein1c_syntactic] in Hsyn; cbn [unq_single stmt_query] in Huq; cbn [stmt_ok] in Hok.
  - apply andb_true_iff in Hok. destruct Hok as [Hok Hcols].
    apply (wherein_stmt_any noise e _ t items from cj c items' from' cj' Hn He); try assumption.
    left. exists cols. split; [reflexivity|]. destruct cols; [exact Hcols|exact I].
  - apply (wherein_stmt_any noise e _ t items from cj c items' from' cj' Hn He); try assumption. right. left. reflexivity.
  - apply (wherein_stmt_any noise e _ t items from cj c items' from' cj' Hn He); try assumption. right. right. reflexivity.
Qed.
Print Assumptions wherein_core_statement.

(* ================================================================== *)
(** * Part 4: scripts *)
Definition wherein_stmt (s : Spec.stmt) : Prop :=
  stmt_ok s = true /\ sshape s = true /\ colshape s = true /\ sel_wherein1c_syntactic s = true /\ resolved_only s = true.
Definition core_stmt_w (s : Spec.stmt) : Prop := core_stmt s \/ wherein_stmt s.

(** the script-level guard (K-C04-3): a table column read by a WHERE sub-query and written by a statement of the script
    is also read by a flow of the script *)
Definition dead_ends_okb (ds : string) (ss : list Spec.stmt) : bool :=
  let E := script_edges ds ss in
  forallb (fun v => negb (memv v (map snd E)) || memv v (map fst E)) (flat_map (subq_srcs ds) ss).

Lemma core_script_w noise e ss :
  noise_ok noise = true -> env_ok e = true -> Forall core_stmt_w ss ->
  exists Gs, map_res (analyze e false) (map (r_stmt noise) ss) = Ok Gs /\
             Composition.c04_hyps (map holder_of Gs) = true /\
             Forall2 (fun G p => edges_match_x G (fst p) (snd p)) Gs (map (fun s => (stmt_edges (e_cfg e) s, subq_srcs (e_cfg e) s)) ss).
Proof.
  intros Hn He H.
  assert (K : exists Gs, map_res (analyze e false) (map (r_stmt noise) ss) = Ok Gs /\
              (forallb CompDefs.plain_holder (map holder_of Gs) = true /\
               forallb CompDefs.resolved_holder (map holder_of Gs) = true /\
               forallb CompDefs.cwf_holder (map holder_of Gs) = true) /\
              Forall2 (fun G p => edges_match_x G (fst p) (snd p)) Gs (map (fun s => (stmt_edges (e_cfg e) s, subq_srcs (e_cfg e) s)) ss)).
  { induction H as [|s ss Hs _ IH].
    - exists []. split; [reflexivity|]. split; [auto|constructor].
    - destruct IH as (Gs & Em & (P1 & P2 & P3) & HM).
      assert (Hone : exists G, analyze e false (r_stmt noise s) = Ok G /\
                CompDefs.plain_holder (holder_of G) = true /\ CompDefs.resolved_holder (holder_of G) = true /\
                CompDefs.cwf_holder (holder_of G) = true /\ edges_match_x G (stmt_edges (e_cfg e) s) (subq_srcs (e_cfg e) s)).
      { destruct Hs as [(H1 & _ & H3 & H4 & H5)|(H1 & _ & H3 & H4 & H5)].
        - destruct (core_statement noise e s Hn He H1 H3 H4 H5) as (G & Ea & Q1 & Q2 & Q3 & Q4).
          exists G. split; [exact Ea|]. split; [exact Q1|]. split; [exact Q2|]. split; [exact Q3|].
          assert (Ex : subq_srcs (e_cfg e) s = []).
          { unfold subq_srcs. destruct s as [t0 cols0 q0|t0 q0|t0 q0|q0|k0]; cbn [sel_tables_syntactic] in H4; try discriminate; cbn [stmt_query];
              destruct q0 as [its fr cj0 [wh0|]| |]; try discriminate; reflexivity. }
          rewrite Ex. apply edges_match_x_of. exact Q4.
        - exact (wherein_core_statement noise e s Hn He H1 H3 H4 H5). }
      destruct Hone as (G & Ea & Q1 & Q2 & Q3 & Q4).
      exists (G :: Gs). split; [cbn [map map_res]; rewrite Ea, Em; reflexivity|]. split.
      + cbn [map forallb]. rewrite Q1, Q2, Q3, P1, P2, P3. auto.
      + cbn [map]. constructor; assumption. }
  destruct K as (Gs & Em & (P1 & P2 & P3) & HM). exists Gs. split; [exact Em|]. split; [|exact HM].
  unfold Composition.c04_hyps. rewrite P1, P2, P3. reflexivity.
Qed.

Theorem script_exact_on_core_wherein : forall noise e ss,
  noise_ok noise = true -> env_ok e = true -> Forall core_stmt_w ss -> dead_ends_okb (e_cfg e) ss = true ->
  script_pairs e false [] (map (r_stmt noise) ss) = spec_script_pairs (e_cfg e) ss.
Proof.
  intros noise e ss Hn He H Hde.
  destruct (core_script_w noise e ss Hn He H) as (Gs & Em & Hh & HM).
  destruct (run_statements_core e _ Gs (proj1 (env_facts e He)) Em) as (sess & Er).
  unfold script_pairs, script_graph. rewrite Er. cbn [fst snd].
  set (p := {| p_truthy := p_truthy (e_provider e); p_cols := view_cols sess [] |}).
  destruct (Composition.c04_main p (map holder_of Gs) Hh) as (g & Hb & _). rewrite Hb.
  unfold spec_script_pairs. apply us_ext. intros x.
  set (EXs := map (fun s => (stmt_edges (e_cfg e) s, subq_srcs (e_cfg e) s)) ss) in *.
  assert (E1 : flat_map fst EXs = script_edges (e_cfg e) ss) by (unfold EXs, script_edges; rewrite flat_map_map'; reflexivity).
  assert (E2 : flat_map snd EXs = flat_map (subq_srcs (e_cfg e)) ss) by (unfold EXs; rewrite flat_map_map'; reflexivity).
  rewrite (lineage_match_x Gs EXs HM p g Hh Hb); [rewrite E1; reflexivity|].
  unfold dead_ends_ok. rewrite E1, E2. intros v Hv Hin. unfold dead_ends_okb in Hde. rewrite forallb_forall in Hde. specialize (Hde v Hv).
  apply orb_true_iff in Hde. destruct Hde as [Hde|Hde]; [|apply memv_In; exact Hde].
  apply negb_true_iff in Hde. apply memv_In in Hin. congruence.
Qed.
Print Assumptions script_exact_on_core_wherein.

(** ** executable guards, the checker, non-vacuity *)
Definition wherein_okb (s : Spec.stmt) : bool := stmt_ok s && sshape s && colshape s && sel_wherein1c_syntactic s && unq_single s.
Definition core_ok_w (s : Spec.stmt) : bool := core_ok s || wherein_okb s.

Lemma core_ok_w_stmt s : core_ok_w s = true -> core_stmt_w s.
Proof.
  unfold core_ok_w, core_ok, wherein_okb. intros H. apply orb_true_iff in H. destruct H as [H|H]; [left|right];
    repeat (apply andb_true_iff in H; destruct H as [H ?]); repeat split; assumption.
Qed.

Definition script_check_w (noise : list seg) (e : env) (ss : list Spec.stmt) : string :=
  if negb (noise_ok noise && env_ok e && forallb core_ok_w ss && dead_ends_okb (e_cfg e) ss) then "outside"
  else if list_eqb (script_pairs e false [] (map (r_stmt noise) ss)) (spec_script_pairs (e_cfg e) ss) then "holds" else "FAILS".

Theorem script_check_w_never_fails noise e ss : script_check_w noise e ss <> "FAILS".
Proof.
  unfold script_check_w. destruct (noise_ok noise && env_ok e && forallb core_ok_w ss && dead_ends_okb (e_cfg e) ss) eqn:G; cbn [negb]; [|discriminate].
  apply andb_true_iff in G. destruct G as [G Hde]. apply andb_true_iff in G. destruct G as [G Hss]. apply andb_true_iff in G. destruct G as [Hn He].
  rewrite (script_exact_on_core_wherein noise e ss Hn He); [rewrite list_eqb_refl; discriminate| |exact Hde].
  apply Forall_forall. intros s Hs. apply core_ok_w_stmt. rewrite forallb_forall in Hss. apply Hss. exact Hs.
Qed.

Module TestsW.
  Import Tests.
  Definition selw (items : list item) (from : list rel) (c : string) (sq : query) : query := QSelect items from false (Some (c, sq)).
  (** scripts inside all guards *)
  Definition scripts_in : list (list Spec.stmt) :=
    [ [ins "x" (selw [c_ "a"] [T "t"] "a" (sel [c_ "b"] [T "u"]))];
      (* the sub-query column is written earlier AND read by a later flow: intermediate on both sides *)
      [ins "u" (sel [c_ "b"] [T "v"]); ins "x" (selw [c_ "a"] [T "t"] "a" (sel [c_ "b"] [T "u"])); ins "y" (sel [c_ "b"] [T "u"])];
      (* the sub-query reads another column of a written table *)
      [ins "u" (sel [c_ "b"] [T "v"]); ins "x" (selw [c_ "a"] [T "t"] "a" (sel [c_ "c"] [T "u"]))];
      (* a chain through the WHERE .. IN statement; column list; the same sub-query twice *)
      [insc "x" ["m"] (selw [c_ "a"] [T "t"] "a" (sel [c_ "b"] [T "u"])); ins "z" (selw [c_ "m"] [T "x"] "m" (sel [c_ "b"] [T "u"]))];
      (* joins, qualified references, the outer table again in the sub-query *)
      [ctas "x" (selw [qc "t" "a"; qc "v" "b"] [T "t"; T "v"] "a" (sel [qc "t" "c"] [T "t"; T "w"])); view "y" (sel [c_ "a"; c_ "b"] [T "x"])] ].
  (** K-C04-3: the sub-query reads a column that an earlier (or later) statement writes and nothing else reads *)
  Definition kc043_a : list Spec.stmt := [ins "u" (sel [c_ "b"] [T "v"]); ins "x" (selw [c_ "a"] [T "t"] "a" (sel [c_ "b"] [T "u"]))].
  Definition kc043_b : list Spec.stmt := [ctas "x" (selw [c_ "a"] [T "t"] "a" (sel [c_ "b"] [TA "u" "z"])); insc "u" ["b"] (sel [c_ "k"] [T "v"])].
End TestsW.

Example script_wherein_nonvacuous :
  forallb (fun ss => noise_ok [Tests.ws] && env_ok Tests.e0 && forallb core_ok_w ss && dead_ends_okb "" ss && negb (forallb core_ok ss)) TestsW.scripts_in = true.
Proof. vm_compute. reflexivity. Qed.

Example script_wherein_checks : map (script_check_w [Tests.ws; Tests.cm] Tests.e1) TestsW.scripts_in = ["holds"; "holds"; "holds"; "holds"; "holds"].
Proof. vm_compute. reflexivity. Qed.

(** ** the guard [dead_ends_okb] is needed: K-C04-3 *)
Example kc043_in_fragment :
  noise_ok [] && env_ok Tests.e0 && forallb core_ok_w TestsW.kc043_a && forallb core_ok_w TestsW.kc043_b = true /\
  dead_ends_okb "" TestsW.kc043_a = false /\ dead_ends_okb "" TestsW.kc043_b = false.
Proof. vm_compute. auto. Qed.

Example kc043_pairs :
  script_pairs Tests.e0 false [] (map (r_stmt []) TestsW.kc043_a) = ["<default>.t.a><default>.x.a"] /\
  spec_script_pairs "" TestsW.kc043_a = ["<default>.t.a><default>.x.a"; "<default>.v.b><default>.u.b"] /\
  script_pairs Tests.e0 false [] (map (r_stmt []) TestsW.kc043_b) = ["<default>.t.a><default>.x.a"] /\
  spec_script_pairs "" TestsW.kc043_b = ["<default>.t.a><default>.x.a"; "<default>.v.k><default>.u.b"].
Proof. vm_compute. auto. Qed.

Theorem script_exact_on_core_wherein_unguarded_refuted :
  ~ (forall noise e ss, noise_ok noise = true -> env_ok e = true -> Forall core_stmt_w ss ->
       script_pairs e false [] (map (r_stmt noise) ss) = spec_script_pairs (e_cfg e) ss).
Proof.
  intros H. specialize (H [] Tests.e0 TestsW.kc043_a eq_refl eq_refl).
  assert (Hf : Forall core_stmt_w TestsW.kc043_a).
  { apply Forall_forall. intros s Hs. apply core_ok_w_stmt.
    assert (K : forallb core_ok_w TestsW.kc043_a = true) by (vm_compute; reflexivity). rewrite forallb_forall in K. apply K. exact Hs. }
  specialize (H Hf). destruct kc043_pairs as (E1 & E2 & _). change (e_cfg Tests.e0) with "" in H. rewrite E1, E2 in H. discriminate H.
Qed.

(* ================================================================== *)
(** * Part 5: the script theorem for any class of statements with a statement theorem of this form *)
Definition stmt_holder_ok (noise : list seg) (e : env) (s : Spec.stmt) : Prop :=
  exists G, analyze e false (r_stmt noise s) = Ok G /\
            CompDefs.plain_holder (holder_of G) = true /\ CompDefs.resolved_holder (holder_of G) = true /\
            CompDefs.cwf_holder (holder_of G) = true /\ edges_match_x G (stmt_edges (e_cfg e) s) (subq_srcs (e_cfg e) s).

Lemma stmt_holder_ok_plain noise e s G :
  analyze e false (r_stmt noise s) = Ok G -> CompDefs.plain_holder (holder_of G) = true -> CompDefs.resolved_holder (holder_of G) = true ->
  CompDefs.cwf_holder (holder_of G) = true -> edges_match G (stmt_edges (e_cfg e) s) -> subq_srcs (e_cfg e) s = [] -> stmt_holder_ok noise e s.
Proof. intros Ea Q1 Q2 Q3 Q4 Ex. exists G. rewrite Ex. repeat (split; [assumption|]). apply edges_match_x_of. exact Q4. Qed.

Theorem script_exact_of_statements : forall noise e ss,
  env_ok e = true -> Forall (stmt_holder_ok noise e) ss -> dead_ends_okb (e_cfg e) ss = true ->
  script_pairs e false [] (map (r_stmt noise) ss) = spec_script_pairs (e_cfg e) ss.
Proof.
  intros noise e ss He H Hde.
  assert (K : exists Gs, map_res (analyze e false) (map (r_stmt noise) ss) = Ok Gs /\
              (forallb CompDefs.plain_holder (map holder_of Gs) = true /\
               forallb CompDefs.resolved_holder (map holder_of Gs) = true /\
               forallb CompDefs.cwf_holder (map holder_of Gs) = true) /\
              Forall2 (fun G p => edges_match_x G (fst p) (snd p)) Gs (map (fun s => (stmt_edges (e_cfg e) s, subq_srcs (e_cfg e) s)) ss)).
  { clear Hde. induction H as [|s ss0 (G & Ea & Q1 & Q2 & Q3 & Q4) _ IH].
    - exists []. split; [reflexivity|]. split; [auto|constructor].
    - destruct IH as (Gs0 & Em & (P1 & P2 & P3) & HM).
      exists (G :: Gs0). split; [cbn [map map_res]; rewrite Ea, Em; reflexivity|]. split.
      + cbn [map forallb]. rewrite Q1, Q2, Q3, P1, P2, P3. auto.
      + cbn [map]. constructor; assumption. }
  destruct K as (Gs & Em & (P1 & P2 & P3) & HM).
  assert (Hh : Composition.c04_hyps (map holder_of Gs) = true) by (unfold Composition.c04_hyps; rewrite P1, P2, P3; reflexivity).
  destruct (run_statements_core e _ Gs (proj1 (env_facts e He)) Em) as (sess & Er).
  unfold script_pairs, script_graph. rewrite Er. cbn [fst snd].
  set (p := {| p_truthy := p_truthy (e_provider e); p_cols := view_cols sess [] |}).
  destruct (Composition.c04_main p (map holder_of Gs) Hh) as (g & Hb & _). rewrite Hb.
  unfold spec_script_pairs. apply us_ext. intros x.
  set (EXs := map (fun s => (stmt_edges (e_cfg e) s, subq_srcs (e_cfg e) s)) ss) in *.
  assert (E1 : flat_map fst EXs = script_edges (e_cfg e) ss) by (unfold EXs, script_edges; rewrite flat_map_map'; reflexivity).
  assert (E2 : flat_map snd EXs = flat_map (subq_srcs (e_cfg e)) ss) by (unfold EXs; rewrite flat_map_map'; reflexivity).
  rewrite (lineage_match_x Gs EXs HM p g Hh Hb); [rewrite E1; reflexivity|].
  unfold dead_ends_ok. rewrite E1, E2. intros v Hv Hin. unfold dead_ends_okb in Hde. rewrite forallb_forall in Hde. specialize (Hde v Hv).
  apply orb_true_iff in Hde. destruct Hde as [Hde|Hde]; [|apply memv_In; exact Hde].
  apply negb_true_iff in Hde. apply memv_In in Hin. congruence.
Qed.
Print Assumptions script_exact_of_statements.

Lemma subq_srcs_no_where ds s : (match stmt_query s with Some (QSelect _ _ _ (Some _)) => false | _ => true end) = true -> subq_srcs ds s = [].
Proof. unfold subq_srcs. destruct (stmt_query s) as [[its fr cj0 [[c0 sq]|]| |]|]; try reflexivity. discriminate. Qed.

(** scripts mixing: statements of the core fragment, plain SELECTs over base tables, no-data statements, WHERE .. IN statements *)
Definition core_stmt_wx (s : Spec.stmt) : Prop := core_stmt_ext s \/ wherein_stmt s.
Definition core_ok_wx (s : Spec.stmt) : bool := core_ok_ext s || wherein_okb s.

Lemma core_stmt_wx_holder noise e s : noise_ok noise = true -> env_ok e = true -> core_stmt_wx s -> stmt_holder_ok noise e s.
Proof.
  intros Hn He [[(H1 & _ & H3 & H4 & H5)|[(H1 & H2)|H1]]|(H1 & _ & H3 & H4 & H5)].
  - destruct (core_statement noise e s Hn He H1 H3 H4 H5) as (G & Ea & Q1 & Q2 & Q3 & Q4).
    apply (stmt_holder_ok_plain noise e s G Ea Q1 Q2 Q3 Q4). apply subq_srcs_no_where.
    destruct s as [t0 cols0 q0|t0 q0|t0 q0|q0|k0]; cbn [sel_tables_syntactic] in H4; try discriminate; cbn [stmt_query];
      destruct q0 as [its fr cj0 [wh0|]| |]; try discriminate; reflexivity.
  - destruct (query_statement noise e s Hn He H1 H2) as (G & Ea & Q1 & Q2 & Q3 & Q4).
    apply (stmt_holder_ok_plain noise e s G Ea Q1 Q2 Q3 Q4). apply subq_srcs_no_where.
    destruct s as [t0 cols0 q0|t0 q0|t0 q0|q0|k0]; try discriminate. destruct q0 as [its fr cj0 [wh0|]| |]; try discriminate. reflexivity.
  - destruct s as [t0 cols0 q0|t0 q0|t0 q0|q0|k0]; try discriminate.
    destruct (nodata_statement noise e k0) as (G & Ea & Q1 & Q2 & Q3 & Q4). exact (stmt_holder_ok_plain noise e _ G Ea Q1 Q2 Q3 Q4 eq_refl).
  - exact (wherein_core_statement noise e s Hn He H1 H3 H4 H5).
Qed.

Theorem script_exact_on_core_wherein_ext : forall noise e ss,
  noise_ok noise = true -> env_ok e = true -> Forall core_stmt_wx ss -> dead_ends_okb (e_cfg e) ss = true ->
  script_pairs e false [] (map (r_stmt noise) ss) = spec_script_pairs (e_cfg e) ss.
Proof.
  intros noise e ss Hn He H Hde. apply script_exact_of_statements; [exact He| |exact Hde].
  apply Forall_forall. intros s Hs. rewrite Forall_forall in H. exact (core_stmt_wx_holder noise e s Hn He (H s Hs)).
Qed.
Print Assumptions script_exact_on_core_wherein_ext.

Example script_wherein_ext_nonvacuous :
  let ss := [SQuery (Tests.sel [Tests.c_ "a"] [Tests.T "t"]); SNoData 0;
             Tests.ins "x" (TestsW.selw [Tests.c_ "a"] [Tests.T "t"] "a" (Tests.sel [Tests.c_ "b"] [Tests.T "u"])); Tests.ins "z" (Tests.sel [Tests.c_ "a"] [Tests.T "x"])] in
  noise_ok [Tests.ws] && env_ok Tests.e0 && forallb core_ok_wx ss && dead_ends_okb "" ss = true.
Proof. vm_compute. reflexivity. Qed.

(** SUMMARY
    - [c04_hyps] holds for the holders of WHERE .. IN statements (checked, then proved: [wherein_core_statement]): the holder
      is plain, resolved and closed; its column edges are the specified flows of the statement ([stmt_edges]) plus edges
      from the table columns read by the sub-query ([subq_srcs]) into columns owned by the sub-query node: [edges_match_x].
    - At script level such an edge is a dead end that hides the table column it starts from: the column is consumed, so
      it is no leaf, and the sub-query column is not table-owned, so no pair is reported.  If an earlier or later statement
      WRITES that column and no flow of the script reads it, the specification reports a pair ending in it and the
      implementation does not: K-C04-3 ([kc043_pairs], [script_exact_on_core_wherein_unguarded_refuted]).
    - Guard [dead_ends_okb ds ss] (executable, on the specification only): every table column read by a WHERE sub-query
      and written by a flow of the script is also read by a flow of the script.  (If the column is written by no
      statement, or is intermediate anyway, nothing is hidden: [TestsW.scripts_in] 2 and 3.)
    - [script_exact_on_core_wherein]: scripts of core statements (ScriptExact.v) and WHERE .. IN statements
      ([wherein_stmt]: INSERT [cols] / CTAS / VIEW over SELECT FROM distinct base tables WHERE c IN (SELECT FROM distinct
      base tables), references resolved at statement level in both scopes), under the guard, report exactly
      [spec_script_pairs].  [script_exact_on_core_wherein_ext] adds plain SELECTs and no-data statements.
      [script_exact_of_statements] is the same for ANY class of statements with a statement theorem [stmt_holder_ok];
      [lineage_match_x] is the graph-level assembly. *)
