(** Lemma B, step 5c, part 1: from a holder whose column edges are a known ACYCLIC (ranked) set of flows to the reported
    end-to-end pairs.  Generalises Part P of LemmaBProofs.v ([lineage_of_realises], [script_pairs_of_holder]) from a
    bipartite set of flows to any number of layers: the reported pairs are the compositions of chains of flows from a
    root (a column no flow feeds) to a leaf (a column that feeds no flow) owned by a table.  Chains that end in a column
    of a sub-query (a dead end) are not reported. *)
From Coq Require Import Permutation.
From SV Require Import Tree.Render Tree.LemmaA Tree.LemmaAProofs Tree.LemmaB Tree.LemmaBProofs Ident.Escape Ident.EscapeProofs
     Holder.PathProofs Holder.SortProofs.
Open Scope string_scope.
Open Scope list_scope.

(* ================================================================== *)
(** * chains of flows *)
Fixpoint fchain (l : list flow) : Prop :=
  match l with
  | f :: ((f' :: _) as r) => col_eqb (snd f) (fst f') = true /\ fchain r
  | _ => True
  end.

Definition is_root (FL : list flow) (c : column) : Prop := forall f, In f FL -> col_eqb (snd f) c = false.
Definition is_leaf (FL : list flow) (c : column) : Prop := forall f, In f FL -> col_eqb c (fst f) = false.

Definition fdummy : flow := ({| craw := ""; cparents := [] |}, {| craw := ""; cparents := [] |}).

(** an end-to-end chain: from a root to a leaf owned by a table *)
Definition e2e_chain (FL : list flow) (l : list flow) : Prop :=
  l <> [] /\ (forall f, In f l -> In f FL) /\ fchain l /\
  is_root FL (fst (hd fdummy l)) /\ is_leaf FL (snd (last l fdummy)) /\ parent_is KTable (NCol (snd (last l fdummy))) = true.

Definition chain_str (l : list flow) : string := flow_str (fst (hd fdummy l), snd (last l fdummy)).

(** the rank of a column grows along every flow, and respects Python equality *)
Definition ranked (rk : column -> nat) (FL : list flow) : Prop :=
  (forall c c', col_eqb c c' = true -> rk c = rk c') /\ (forall f, In f FL -> rk (fst f) < rk (snd f)).

Definition rkn (rk : column -> nat) (n : Graph.node) : nat := match n with NCol c => rk c | _ => 0 end.

Lemma rkn_eqb rk FL a b : ranked rk FL -> node_eqb a b = true -> rkn rk a = rkn rk b.
Proof.
  intros [R1 _]. destruct a as [|ca|], b as [|cb|]; cbn [node_eqb rkn]; intros H; try reflexivity; try discriminate.
  apply R1. exact H.
Qed.

(** ** pigeonhole: pairwise different nodes that all occur in a list are not more than the list is long *)
Lemma pigeon (p : list Graph.node) : forall (L : list Graph.node),
  simple p -> (forall x, In x p -> exists m, In m L /\ node_eqb x m = true) -> List.length p <= List.length L.
Proof.
  induction p as [|a r IH]; intros L Hs Hin; cbn [List.length]; [lia|].
  destruct Hs as [Ha Hs]. destruct (Hin a (or_introl eq_refl)) as (m & Hm & Em).
  apply in_split in Hm. destruct Hm as (L1 & L2 & ->).
  assert (Hr : List.length r <= List.length (L1 ++ L2)).
  { apply IH; [exact Hs|]. intros x Hx. destruct (Hin x (or_intror Hx)) as (m' & Hm' & Em').
    apply in_app_iff in Hm'. destruct Hm' as [Hm'|[<-|Hm']].
    - exists m'. split; [apply in_app_iff; left; exact Hm'|exact Em'].
    - exfalso. assert (E : node_eqb a x = true) by (apply (node_eqb_trans a m x Em); apply node_eqb_true_sym; exact Em').
      assert (K : memn a r = true) by (apply memn_true_iff; exists x; auto). congruence.
    - exists m'. split; [apply in_app_iff; right; exact Hm'|exact Em']. }
  rewrite app_length in *. cbn [List.length]. lia.
Qed.

Lemma has_edge_node_l g x y : has_edge g x y = true -> exists e, In e (gedges g) /\ node_eqb x (fst (fst e)) = true /\ node_eqb y (snd (fst e)) = true.
Proof. intros H. apply has_edge_In in H. exact H. Qed.

Lemma In_last_ne {A} (l : list A) d : l <> [] -> In (last l d) l.
Proof.
  induction l as [|a r IH]; [congruence|]. intros _. destruct r as [|b r']; [left; reflexivity|].
  change (last (a :: b :: r') d) with (last (b :: r') d). right. apply IH. discriminate.
Qed.

Lemma hd_map_nonempty {A B} (f : A -> B) l d d' : l <> [] -> hd d' (map f l) = f (hd d l).
Proof. destruct l; [congruence|reflexivity]. Qed.

Lemma last_map_nonempty {A B} (f : A -> B) l d d' : l <> [] -> last (map f l) d' = f (last l d).
Proof.
  induction l as [|a r IH]; [congruence|]. intros _. destruct r as [|b r']; [reflexivity|].
  change (last (f a :: map f (b :: r')) d' = f (last (b :: r') d)). rewrite <- IH by discriminate.
  reflexivity.
Qed.

(* ================================================================== *)
(** * the paths of a graph that realises a ranked set of flows *)
Section Layered.
Variable g : graph.
Variable FL : list flow.
Variable rk : column -> nat.
Hypothesis R : realises g FL.
Hypothesis RK : ranked rk FL.

Let ES : forall a b c, node_eqb a b = true -> node_eqb a c = true -> node_eqb b c = true.
Proof. intros a b c H1 H2. apply (node_eqb_trans b a c); [apply node_eqb_true_sym; exact H1|exact H2]. Qed.

(** soundness: a chain of nodes starting at a column is a chain of flows *)
Lemma chain_flows : forall r a,
  is_column a = true -> r <> [] -> chain g (a :: r) ->
  exists l, l <> [] /\ (forall f, In f l -> In f FL) /\ fchain l /\
            node_eqb a (NCol (fst (hd fdummy l))) = true /\ node_eqb (last r a) (NCol (snd (last l fdummy))) = true.
Proof.
  induction r as [|b r IH]; intros a Ha Hne Hch; [congruence|].
  destruct Hch as [Hab Hch]. apply successors_edge in Hab.
  destruct (r_sound _ _ R a b Ha Hab) as (f & Hf & E1 & E2).
  destruct r as [|c r'].
  - exists [f]. split; [discriminate|]. split; [intros f' [<-|[]]; exact Hf|]. split; [exact I|]. cbn [hd last]. auto.
  - assert (Hb : is_column b = true) by (rewrite (is_column_eqb _ _ E2); reflexivity).
    destruct (IH b Hb ltac:(discriminate) Hch) as (l & Hl & HlF & Hlc & El1 & El2).
    exists (f :: l). split; [discriminate|]. split; [intros f' [<-|Hf']; auto|]. split.
    + destruct l as [|f1 l']; [congruence|]. split; [|exact Hlc]. cbn [hd] in El1.
      pose proof (ES _ _ _ E2 El1) as E. exact E.
    + split; [exact E1|]. destruct l as [|f1 l']; [congruence|].
      change (last (b :: c :: r') a) with (last (c :: r') a). rewrite (last_cons_indep r' c a b).
      change (last (f :: f1 :: l') fdummy) with (last (f1 :: l') fdummy). exact El2.
Qed.

Lemma in_edges_cg s e : In e (in_edges (column_graph g) s) ->
  In e (gedges g) /\ is_column (fst (fst e)) = true /\ node_eqb s (snd (fst e)) = true.
Proof.
  unfold in_edges, column_graph, subgraph. cbn [gedges]. intros H. apply filter_In in H. destruct H as [H E1].
  apply filter_In in H. destruct H as [H E2]. apply andb_true_iff in E2. tauto.
Qed.

Lemma out_edges_cg s e : In e (out_edges (column_graph g) s) -> In e (gedges g) /\ node_eqb s (fst (fst e)) = true.
Proof.
  unfold out_edges, column_graph, subgraph. cbn [gedges]. intros H. apply filter_In in H. destruct H as [H E1].
  apply filter_In in H. tauto.
Qed.

Lemma cg_nodes n : In n (map fst (gnodes (column_graph g))) <-> In n (map fst (gnodes g)) /\ is_column n = true.
Proof.
  unfold column_graph, subgraph. cbn [gnodes]. split.
  - intros H. apply in_map_iff in H. destruct H as ([n' a] & <- & H). apply filter_In in H. cbn [fst] in *. destruct H as [H1 H2].
    split; [apply in_map_iff; exists (n', a); auto|exact H2].
  - intros [H1 H2]. apply in_map_iff in H1. destruct H1 as ([n' a] & <- & H). apply in_map_iff. exists (n', a). split; [reflexivity|].
    apply filter_In. auto.
Qed.

Theorem lineage_sound p :
  In p (column_lineage g true false) -> exists l, e2e_chain FL l /\ pair_str p = chain_str l.
Proof.
  intros Hp. destruct (column_lineage_wf g true p Hp) as (Hlen & Hch & _ & (s & r & -> & Hsc & Hsd) & (Htc & Htd & Htp)).
  specialize (Htp eq_refl). rewrite (last_cons_indep r s (NStr "") s) in *.
  destruct r as [|x1 r']; [cbn [List.length] in Hlen; lia|].
  assert (Hs' : In s (map fst (gnodes g))).
  { unfold column_lineage in Hp. cbv zeta in Hp. apply in_flat_map in Hp. destruct Hp as (s0 & Hs0 & Hp).
    apply in_flat_map in Hp. destruct Hp as (t0 & _ & Hp). apply in_flat_map in Hp. destruct Hp as (path & Hpath & Hp).
    destruct (Nat.ltb 1 (List.length path)); [|destruct Hp]. destruct Hp as [Hp|[]]. subst path.
    apply all_simple_paths_sound in Hpath. destruct Hpath as (r0 & E0 & _). inversion E0. subst s0.
    apply filter_In in Hs0. destruct Hs0 as [Hs0 _]. apply cg_nodes in Hs0. exact (proj1 Hs0). }
  destruct (chain_flows (x1 :: r') s Hsc ltac:(discriminate) Hch) as (l & Hl & HlF & Hlc & El1 & El2).
  change (last (s :: x1 :: r') s) with (last (x1 :: r') s) in *.
  exists l. split.
  - split; [exact Hl|]. split; [exact HlF|]. split; [exact Hlc|]. split; [|split].
    + intros f Hf. destruct (col_eqb (snd f) (fst (hd fdummy l))) eqn:E; [|reflexivity]. exfalso.
      pose proof (r_complete _ _ R f Hf) as He. apply has_edge_In in He. destruct He as (e & He & Ee1 & Ee2).
      assert (Hin : In e (in_edges (column_graph g) s)).
      { unfold in_edges, column_graph, subgraph. cbn [gedges]. apply filter_In. split.
        - apply filter_In. split; [exact He|]. rewrite <- (is_column_eqb _ _ Ee1), <- (is_column_eqb _ _ Ee2). reflexivity.
        - apply (node_eqb_trans s (NCol (fst (hd fdummy l))) _ El1). apply (node_eqb_trans _ (NCol (snd f)) _); [|exact Ee2].
          cbn [node_eqb]. rewrite col_eqb_sym. exact E. }
      unfold indeg in Hsd. destruct (in_edges (column_graph g) s); [destruct Hin|discriminate].
    + intros f Hf. destruct (col_eqb (snd (last l fdummy)) (fst f)) eqn:E; [|reflexivity]. exfalso.
      pose proof (r_complete _ _ R f Hf) as He. apply has_edge_In in He. destruct He as (e & He & Ee1 & Ee2).
      assert (Hin : In e (out_edges (column_graph g) (last (x1 :: r') s))).
      { unfold out_edges, column_graph, subgraph. cbn [gedges]. apply filter_In. split.
        - apply filter_In. split; [exact He|]. rewrite <- (is_column_eqb _ _ Ee1), <- (is_column_eqb _ _ Ee2). reflexivity.
        - apply (node_eqb_trans _ (NCol (snd (last l fdummy))) _ El2). apply (node_eqb_trans _ (NCol (fst f)) _); [exact E|exact Ee1]. }
      unfold outdeg in Htd. destruct (out_edges (column_graph g) (last (x1 :: r') s)); [destruct Hin|discriminate].
    + rewrite <- (parent_is_eqb KTable _ _ El2). exact Htp.
  - rewrite pair_str_cons. unfold chain_str, flow_str. cbn [fst snd].
    assert (Hf1 : In (hd fdummy l) FL) by (destruct l; [congruence|apply HlF; left; reflexivity]).
    rewrite (proj1 (r_lits _ _ R) s Hs' _ Hf1 El1).
    change (last (s :: x1 :: r') s) with (last (x1 :: r') s). rewrite (node_str_eqb_col _ _ El2). reflexivity.
Qed.

(** completeness: the node path of a chain of flows *)
Lemma flows_path : forall l, l <> [] -> (forall f, In f l -> In f FL) -> fchain l ->
  forall a, node_eqb a (NCol (fst (hd fdummy l))) = true ->
  exists p, List.length p = List.length l /\ schain g (a :: p) /\
            node_eqb (last p a) (NCol (snd (last l fdummy))) = true /\
            (forall x, In x p -> rkn rk a < rkn rk x) /\
            (forall x, In x (removelast p) -> rkn rk x < rkn rk (NCol (snd (last l fdummy)))) /\
            simple p /\ (forall x, In x p -> exists m, In m (map fst (gnodes g)) /\ node_eqb x m = true).
Proof.
  induction l as [|f l IH]; intros Hne HF Hc a Ea; [congruence|]. cbn [hd] in Ea.
  assert (Hf : In f FL) by (apply HF; left; reflexivity).
  pose proof (r_complete _ _ R f Hf) as He. apply has_edge_In in He. destruct He as (e & He & Ee1 & Ee2).
  set (v := snd (fst e)) in *.
  assert (Hav : In v (successors g a)).
  { unfold successors. apply in_map_iff. exists e. split; [reflexivity|]. unfold out_edges. apply filter_In. split; [exact He|].
    apply (node_eqb_trans a _ _ Ea Ee1). }
  assert (Rav : rkn rk a < rkn rk v).
  { rewrite (rkn_eqb rk FL _ _ RK Ea), (rkn_eqb rk FL v (NCol (snd f)) RK (node_eqb_true_sym _ _ Ee2)). cbn [rkn]. apply (proj2 RK). exact Hf. }
  assert (Nv : exists m, In m (map fst (gnodes g)) /\ node_eqb v m = true).
  { destruct (r_nodes _ _ R f Hf) as [_ N2]. apply has_node_In in N2. destruct N2 as (m & Hm & Em). exists m. split; [exact Hm|].
    apply (node_eqb_trans v (NCol (snd f)) m); [apply node_eqb_true_sym; exact Ee2|exact Em]. }
  destruct l as [|f' l'].
  - exists [v]. cbn [last List.length removelast]. split; [reflexivity|]. split; [split; [exact Hav|exact I]|].
    split; [apply node_eqb_true_sym; exact Ee2|]. split; [intros x [<-|[]]; exact Rav|]. split; [intros x []|].
    split; [split; [reflexivity|exact I]|]. intros x [<-|[]]. exact Nv.
  - destruct Hc as [Hc1 Hc2].
    assert (Ev : node_eqb v (NCol (fst (hd fdummy (f' :: l')))) = true).
    { cbn [hd]. apply (node_eqb_trans v (NCol (snd f)) _); [apply node_eqb_true_sym; exact Ee2|exact Hc1]. }
    destruct (IH ltac:(discriminate) (fun f0 H0 => HF f0 (or_intror H0)) Hc2 v Ev) as (p & Lp & Sp & Ep & Rp & Rl & Smp & Np).
    exists (v :: p). split; [cbn [List.length] in *; lia|]. split.
    { split; [exact Hav|exact Sp]. }
    assert (Hpne : p <> []) by (destruct p; [cbn in Lp; discriminate|discriminate]).
    split.
    { rewrite last_cons. change (last (f :: f' :: l') fdummy) with (last (f' :: l') fdummy). exact Ep. }
    split.
    { intros x [<-|Hx]; [exact Rav|]. specialize (Rp x Hx). lia. }
    split.
    { change (last (f :: f' :: l') fdummy) with (last (f' :: l') fdummy).
      destruct p as [|p1 p']; [congruence|]. change (removelast (v :: p1 :: p')) with (v :: removelast (p1 :: p')).
      intros x [<-|Hx]; [|exact (Rl x Hx)].
      rewrite <- (rkn_eqb rk FL _ _ RK Ep). apply Rp. apply In_last_ne. discriminate. }
    split.
    { split; [|exact Smp]. apply memn_false_all. intros y Hy. destruct (node_eqb v y) eqn:E; [|reflexivity].
      specialize (Rp y Hy). rewrite (rkn_eqb rk FL _ _ RK E) in Rp. lia. }
    intros x [<-|Hx]; [exact Nv|exact (Np x Hx)].
Qed.

Theorem lineage_complete l :
  e2e_chain FL l -> In (chain_str l) (map pair_str (column_lineage g true false)).
Proof.
  intros (Hne & HF & Hc & Hroot & Hleaf & Hpar).
  assert (Hf1 : In (hd fdummy l) FL) by (destruct l; [congruence|apply HF; left; reflexivity]).
  assert (Hfn : In (last l fdummy) FL).
  { apply HF. apply In_last_ne. exact Hne. }
  destruct (r_nodes _ _ R _ Hf1) as [N1 _]. destruct (r_nodes _ _ R _ Hfn) as [_ N2].
  apply has_node_In in N1, N2. destruct N1 as (s & Hs & Es). destruct N2 as (t & Ht & Et).
  apply node_eqb_true_sym in Es.
  destruct (flows_path l Hne HF Hc s Es) as (p & Lp & Sp & Ep & Rp & Rl & Smp & Np).
  assert (Hpne : p <> []) by (destruct p; [destruct l; [congruence|discriminate]|discriminate]).
  assert (Hsc : is_column s = true) by (rewrite (is_column_eqb _ _ Es); reflexivity).
  assert (Etl : node_eqb (last p s) t = true) by (apply (node_eqb_trans _ _ _ Ep Et)).
  assert (Htc : is_column t = true) by (rewrite <- (is_column_eqb _ _ Et); reflexivity).
  assert (Rst : rkn rk s < rkn rk t).
  { rewrite <- (rkn_eqb rk FL _ _ RK Etl). apply Rp. apply In_last_ne. exact Hpne. }
  assert (Hst : node_eqb s t = false).
  { destruct (node_eqb s t) eqn:E; [|reflexivity]. rewrite (rkn_eqb rk FL _ _ RK E) in Rst. lia. }
  apply in_map_iff. exists (s :: p). split.
  { rewrite pair_str_cons. unfold chain_str, flow_str. cbn [fst snd].
    rewrite (proj1 (r_lits _ _ R) s Hs _ Hf1 Es). rewrite last_cons. rewrite (node_str_eqb_col _ _ Ep). reflexivity. }
  unfold column_lineage. cbv zeta. apply in_flat_map. exists s. split.
  { apply filter_In. split; [apply cg_nodes; auto|]. apply Nat.eqb_eq. unfold indeg. apply length_zero_iff_none. intros e' He'.
    apply in_edges_cg in He'. destruct He' as (He' & E2 & E1).
    assert (Hh : has_edge g (fst (fst e')) s = true).
    { apply has_edge_In. exists e'. split; [exact He'|]. split; [apply node_eqb_refl|exact E1]. }
    destruct (r_sound _ _ R _ _ E2 Hh) as (f' & Hf' & _ & E4).
    pose proof (ES _ _ _ E4 Es) as E'. cbn [node_eqb] in E'. rewrite (Hroot f' Hf') in E'. discriminate. }
  apply in_flat_map. exists t. split.
  { apply filter_In. split; [apply filter_In; split|].
    - apply cg_nodes. auto.
    - apply Nat.eqb_eq. unfold outdeg. apply length_zero_iff_none. intros e' He'. apply out_edges_cg in He'. destruct He' as [He' E1].
      assert (Hh : has_edge g t (snd (fst e')) = true).
      { apply has_edge_In. exists e'. split; [exact He'|]. split; [exact E1|apply node_eqb_refl]. }
      destruct (r_sound _ _ R _ _ Htc Hh) as (f' & Hf' & E3 & _).
      pose proof (ES _ _ _ (node_eqb_true_sym _ _ Et) E3) as E'. cbn [node_eqb] in E'. rewrite (Hleaf f' Hf') in E'. discriminate.
    - rewrite <- (parent_is_eqb KTable _ _ Et). exact Hpar. }
  apply in_flat_map. exists (s :: p). split.
  2:{ cbn [List.length]. destruct p; [congruence|]. cbn [List.length Nat.ltb Nat.leb]. left. reflexivity. }
  unfold all_simple_paths. rewrite Hst. apply in_map_iff. exists p. split; [reflexivity|].
  apply paths_from_complete.
  - exact Hpne.
  - rewrite <- (map_length fst (gnodes g)). apply pigeon.
    + exact Smp.
    + exact Np.
  - exact Sp.
  - exact Smp.
  - intros x Hx. unfold memn. cbn [existsb]. rewrite orb_false_r. destruct (node_eqb x s) eqn:E; [|reflexivity].
    specialize (Rp x Hx). rewrite (rkn_eqb rk FL _ _ RK E) in Rp. lia.
  - exact Etl.
  - intros x Hx. destruct (node_eqb x t) eqn:E; [|reflexivity]. specialize (Rl x Hx).
    rewrite (rkn_eqb rk FL _ _ RK E), (rkn_eqb rk FL _ _ RK (node_eqb_true_sym _ _ Et)) in Rl. lia.
Qed.

(** the reported pairs are exactly the end-to-end chains *)
Theorem lineage_of_ranked x :
  In x (map pair_str (column_lineage g true false)) <-> exists l, e2e_chain FL l /\ x = chain_str l.
Proof.
  split.
  - intros H. apply in_map_iff in H. destruct H as (p & <- & Hp). destruct (lineage_sound p Hp) as (l & Hl & E). exists l. auto.
  - intros (l & Hl & ->). apply lineage_complete. exact Hl.
Qed.
End Layered.

(** the bipartite case of LemmaBProofs.v is the case of chains of length one *)
Theorem script_pairs_of_ranked_holder e stmt G FL rk (E2E : list string) :
  analyze (with_cols e (view_cols [] [])) false stmt = Ok G ->
  p_truthy (e_provider e) = false -> clean_holder G -> lits_in (unres_ok G) G ->
  realises G FL -> ranked rk FL ->
  (forall x, In x E2E <-> exists l, e2e_chain FL l /\ x = chain_str l) ->
  script_pairs e false [] [stmt] = uniq_sorted (sort_strings E2E).
Proof.
  intros Ea Hp Hc Hu R RK HE. unfold script_pairs, script_graph. cbn [run_statements]. rewrite Ea. cbn [rev app fst snd map].
  match goal with |- context [build ?P [holder_of G]] => destruct (build_one P G Hp Hc Hu) as (gF & E & B1 & B2 & B3) end.
  rewrite E. apply us_ext. intros x. rewrite HE. apply (lineage_of_ranked gF FL rk); [|exact RK].
  constructor.
  - intros a b Ha Hab. rewrite B1 in Hab by (left; exact Ha). exact (r_sound _ _ R a b Ha Hab).
  - intros f Hf. rewrite B1 by (left; reflexivity). exact (r_complete _ _ R f Hf).
  - intros f Hf. destruct (r_nodes _ _ R f Hf). split; apply B2; assumption.
  - apply B3; [|exact (r_lits _ _ R)]. intros d f _ E'. discriminate E'.
Qed.

(* ================================================================== *)
(** * two layers: inner flows into the columns of sub-queries, outer flows into the columns of the target *)
Definition is_mid (c : column) : bool := parent_is KSubq (NCol c).

(** the end-to-end flows of inner flows [FI] (into sub-query columns) and outer flows [FO] (into table columns) *)
Definition compose_flows (FI FO : list flow) : list flow :=
  flat_map (fun fo => if is_mid (fst fo)
                      then map (fun fi => (fst fi, snd fo)) (filter (fun fi => col_eqb (snd fi) (fst fo)) FI)
                      else [fo]) FO.

Record two_layer (FI FO : list flow) : Prop := {
  tl_in_src : forall f, In f FI -> is_mid (fst f) = false;
  tl_in_tgt : forall f, In f FI -> is_mid (snd f) = true;
  tl_out_tgt : forall f, In f FO -> parent_is KTable (NCol (snd f)) = true;
  (* the target columns are not read *)
  tl_tgt_fresh : forall f f', In f FO -> In f' (FI ++ FO) -> col_eqb (snd f) (fst f') = false;
  (* a source column of the outer query that is not a sub-query column is not produced by any flow *)
  tl_src_fresh : forall f f', In f FO -> is_mid (fst f) = false -> In f' (FI ++ FO) -> col_eqb (snd f') (fst f) = false;
  tl_in_fresh : forall f f', In f FI -> In f' (FI ++ FO) -> col_eqb (snd f') (fst f) = false;
  (* a sub-query column the outer query reads is produced by the sub-query *)
  tl_mid_fed : forall f, In f FO -> is_mid (fst f) = true -> exists fi, In fi FI /\ col_eqb (snd fi) (fst f) = true
}.

Lemma is_mid_eqb c c' : col_eqb c c' = true -> is_mid c = is_mid c'.
Proof. intros H. unfold is_mid. apply (parent_is_eqb KSubq (NCol c) (NCol c')). exact H. Qed.

Lemma mid_not_table c : is_mid c = true -> parent_is KTable (NCol c) = false.
Proof.
  unfold is_mid. cbn [parent_is]. destruct (col_parent c) as [d|]; [|discriminate]. destruct (dk d); cbn; congruence.
Qed.

Lemma existsb_ext_in' {A} (p q : A -> bool) l : (forall x, In x l -> p x = q x) -> existsb p l = existsb q l.
Proof.
  induction l as [|a r IH]; intros H; [reflexivity|]. cbn [existsb]. rewrite (H a (or_introl eq_refl)), IH; [reflexivity|].
  intros x Hx. apply H. right. exact Hx.
Qed.

Definition rk2 (FO : list flow) (c : column) : nat :=
  if is_mid c then 1 else if existsb (fun f => col_eqb (snd f) c) FO then 2 else 0.

Lemma rk2_ranked FI FO : two_layer FI FO -> ranked (rk2 FO) (FI ++ FO).
Proof.
  intros T. split.
  - intros c c' E. unfold rk2. rewrite (is_mid_eqb c c' E). destruct (is_mid c'); [reflexivity|].
    assert (Ex : existsb (fun f => col_eqb (snd f) c) FO = existsb (fun f => col_eqb (snd f) c') FO).
    { apply existsb_ext_in'. intros f _. destruct (col_eqb (snd f) c) eqn:E1.
      - symmetry. apply (col_eqb_trans _ _ _ E1 E).
      - destruct (col_eqb (snd f) c') eqn:E2; [|reflexivity]. rewrite col_eqb_sym in E.
        rewrite (col_eqb_trans _ _ _ E2 E) in E1. discriminate. }
    rewrite Ex. reflexivity.
  - intros f Hf. apply in_app_iff in Hf. destruct Hf as [Hf|Hf]; unfold rk2.
    + rewrite (tl_in_src _ _ T f Hf), (tl_in_tgt _ _ T f Hf).
      replace (existsb (fun f0 => col_eqb (snd f0) (fst f)) FO) with false; [lia|]. symmetry. apply existsb_none.
      intros f' Hf'. apply (tl_in_fresh _ _ T f f' Hf). apply in_app_iff. right. exact Hf'.
    + assert (Em : is_mid (snd f) = false).
      { destruct (is_mid (snd f)) eqn:E; [|reflexivity]. pose proof (tl_out_tgt _ _ T f Hf) as K. rewrite (mid_not_table _ E) in K. discriminate. }
      rewrite Em. assert (Et : existsb (fun f0 => col_eqb (snd f0) (snd f)) FO = true).
      { apply existsb_exists. exists f. split; [exact Hf|apply col_eqb_refl]. }
      rewrite Et. destruct (is_mid (fst f)) eqn:Ei; [lia|].
      replace (existsb (fun f0 => col_eqb (snd f0) (fst f)) FO) with false; [lia|]. symmetry. apply existsb_none.
      intros f' Hf'. apply (tl_src_fresh _ _ T f f' Hf Ei). apply in_app_iff. right. exact Hf'.
Qed.

Theorem compose_flows_e2e FI FO : two_layer FI FO ->
  forall x, In x (map flow_str (compose_flows FI FO)) <-> exists l, e2e_chain (FI ++ FO) l /\ x = chain_str l.
Proof.
  intros T x. split.
  - intros H. apply in_map_iff in H. destruct H as (ff & <- & H). unfold compose_flows in H. apply in_flat_map in H.
    destruct H as (fo & Hfo & H).
    assert (Hleaf : is_leaf (FI ++ FO) (snd fo)) by (intros f' Hf'; apply (tl_tgt_fresh _ _ T fo f' Hfo Hf')).
    destruct (is_mid (fst fo)) eqn:Em.
    + apply in_map_iff in H. destruct H as (fi & <- & H). apply filter_In in H. destruct H as [Hfi Ec].
      exists [fi; fo]. split; [|reflexivity]. split; [discriminate|]. split.
      { intros f [<-|[<-|[]]]; apply in_app_iff; [left|right]; assumption. }
      split; [split; [exact Ec|exact I]|]. cbn [hd last]. split; [|split; [exact Hleaf|exact (tl_out_tgt _ _ T fo Hfo)]].
      intros f' Hf'. apply (tl_in_fresh _ _ T fi f' Hfi Hf').
    + destruct H as [<-|[]]. exists [fo]. split; [|reflexivity]. split; [discriminate|]. split.
      { intros f [<-|[]]. apply in_app_iff. right. exact Hfo. }
      split; [exact I|]. cbn [hd last]. split; [|split; [exact Hleaf|exact (tl_out_tgt _ _ T fo Hfo)]].
      intros f' Hf'. apply (tl_src_fresh _ _ T fo f' Hfo Em Hf').
  - intros (l & (Hne & HF & Hc & Hroot & Hleaf & Hpar) & ->).
    (* a flow of the outer query can only be the last one of a chain *)
    assert (Hlast : forall f f' r, In f FO -> In f' (FI ++ FO) -> fchain (f :: f' :: r) -> False).
    { intros f f' r Hf Hf' [Ec _]. rewrite (tl_tgt_fresh _ _ T f f' Hf Hf') in Ec. discriminate. }
    destruct l as [|f1 [|f2 r]]; [congruence| |].
    + cbn [hd last] in *. assert (H1 : In f1 (FI ++ FO)) by (apply HF; left; reflexivity).
      apply in_app_iff in H1. destruct H1 as [H1|H1].
      { rewrite (mid_not_table _ (tl_in_tgt _ _ T f1 H1)) in Hpar. discriminate. }
      apply in_map_iff. exists f1. split; [destruct f1; reflexivity|]. unfold compose_flows. apply in_flat_map. exists f1. split; [exact H1|].
      destruct (is_mid (fst f1)) eqn:Em; [|left; reflexivity]. exfalso.
      destruct (tl_mid_fed _ _ T f1 H1 Em) as (fi & Hfi & Ec). rewrite (Hroot fi) in Ec; [discriminate|]. apply in_app_iff. left. exact Hfi.
    + assert (H1 : In f1 (FI ++ FO)) by (apply HF; left; reflexivity).
      assert (H2 : In f2 (FI ++ FO)) by (apply HF; right; left; reflexivity).
      apply in_app_iff in H1. destruct H1 as [H1|H1]; [|exfalso; exact (Hlast f1 f2 r H1 H2 Hc)].
      destruct Hc as [Ec Hc]. pose proof H2 as H2'. apply in_app_iff in H2. destruct H2 as [H2|H2].
      { rewrite (tl_in_fresh _ _ T f2 f1 H2) in Ec; [discriminate|]. apply in_app_iff. left. exact H1. }
      destruct r as [|f3 r'].
      2:{ exfalso. apply (Hlast f2 f3 r' H2); [apply HF; right; right; left; reflexivity|exact Hc]. }
      cbn [hd last] in *. apply in_map_iff. exists (fst f1, snd f2). split; [reflexivity|].
      unfold compose_flows. apply in_flat_map. exists f2. split; [exact H2|].
      rewrite <- (is_mid_eqb _ _ Ec), (tl_in_tgt _ _ T f1 H1). apply in_map_iff. exists f1. split; [reflexivity|].
      apply filter_In. auto.
Qed.

(** ** a holder with two layers of flows: the reported pairs *)
Theorem script_pairs_two_layer e stmt G FI FO :
  analyze (with_cols e (view_cols [] [])) false stmt = Ok G ->
  p_truthy (e_provider e) = false -> clean_holder G -> lits_in (unres_ok G) G ->
  realises G (FI ++ FO) -> two_layer FI FO ->
  script_pairs e false [] [stmt] = uniq_sorted (sort_strings (map flow_str (compose_flows FI FO))).
Proof.
  intros Ea Hp Hc Hu R T.
  apply (script_pairs_of_ranked_holder e stmt G (FI ++ FO) (rk2 FO) _ Ea Hp Hc Hu R (rk2_ranked FI FO T)).
  apply compose_flows_e2e. exact T.
Qed.

Print Assumptions lineage_of_ranked.
Print Assumptions script_pairs_of_ranked_holder.
Print Assumptions script_pairs_two_layer.
(** non-vacuity: [script_pairs_two_layer] is applied to the holder of a rendered statement with a derived table in
    Tree/LemmaB5c.v ([model_pairs_one_derived], instance [ex5c_instance]); [compose_flows] on a concrete pair of layers: *)
Example compose_flows_example :
  let t := {| dk := KTable; deq := "m.t"; dstr := "m.t"; dschema := "m"; draw := "t"; dalias := "t"; dquery := None |} in
  let x := {| dk := KTable; deq := "m.x"; dstr := "m.x"; dschema := "m"; draw := "x"; dalias := "x"; dquery := None |} in
  let d := {| dk := KSubq; deq := "(q)"; dstr := "d"; dschema := ""; draw := ""; dalias := "d"; dquery := None |} in
  let c p n := {| craw := n; cparents := [p] |} in
  map flow_str (compose_flows [(c t "a", c d "a"); (c t "b", c d "b"); (c t "c", c d "dead")]
                              [(c d "a", c x "a"); (c d "b", c x "a"); (c d "b", c x "bb")])
  = ["m.t.a>m.x.a"; "m.t.b>m.x.a"; "m.t.b>m.x.bb"].
Proof. vm_compute. reflexivity. Qed.
