(** Lemma A (tables and file paths) for COPY: proofs.  INSERT OVERWRITE DIRECTORY and file references: statement,
    tests and the reason they are not proved here - see the summary at the end. *)
From Coq Require Import Lia.
From SV Require Import Tree.RenderPath Tree.LemmaA Tree.LemmaAProofs Tree.LemmaAPathDefs Tree.LemmaB Tree.LemmaBProofs
     Ident.Escape Ident.EscapeProofs.

(* ================================================================== *)
(** * the COPY extractor, unfolded *)
Definition cp_step (e : env) (acc : res (graph * bool * bool)) (s : seg) : res (graph * bool * bool) :=
    do a <- acc;
    let '(g, tf, sf) := a in
    if tyis s "from_clause" then
      let g1 := match find_from_expression_element s with
                | Some fee =>
                    fold_left (fun gg te => match get_child te ["storage_location"] with
                                            | Some sl => add_read gg (mk_path (raw sl))
                                            | None => gg end) (get_children fee ["table_expression"]) g
                | None => g
                end in
      do g2 <- (if tf then do t <- find_table e s; Ok (match t with Some d => add_write g1 d | None => g1 end) else Ok g1);
      Ok (g2, false, false)
    else if tyis s "keyword" then
      let u := raw_upper s in
      if mem_string u ["COPY"; "INTO"] then Ok (g, true, sf)
      else if String.eqb u "FROM" then Ok (g, tf, true)
      else Ok (g, tf, sf)
    else
      do g1 <- (if tf then do t <- find_table e s; Ok (match t with Some d => add_write g d | None => g end) else Ok g);
      let g2 := if sf && ty_in s ["literal"; "storage_location"] then add_read g1 (mk_path (escape (raw s))) else g1 in
      Ok (g2, false, false).

Lemma extract_copy_eq e stmt :
  extract_copy e stmt =
  (do r <- fold_left (cp_step e) (list_child_segments stmt true) (Ok (empty_graph, false, false)); Ok (fst (fst r))).
Proof. reflexivity. Qed.

Section NavP.
Variable noise : list seg.
Hypothesis Hnoise : noise_ok noise = true.
Variable e : env.
Hypothesis Henv : env_ok e = true.

Lemma cp_kw_copy g tf sf : cp_step e (Ok (g, tf, sf)) (kw "copy") = Ok (g, true, sf).
Proof. reflexivity. Qed.
Lemma cp_kw_into g tf sf : cp_step e (Ok (g, tf, sf)) (kw "into") = Ok (g, true, sf).
Proof. reflexivity. Qed.
Lemma cp_kw_from g tf sf : cp_step e (Ok (g, tf, sf)) (kw "from") = Ok (g, tf, true).
Proof. reflexivity. Qed.

Lemma cp_tref g t : tref_ok t = true -> cp_step e (Ok (g, true, false)) (r_tref t) = Ok (add_write g (tbl e t None), false, false).
Proof.
  intros Ht. unfold cp_step. change (tyis (r_tref t) "from_clause") with false. change (tyis (r_tref t) "keyword") with false. cbn iota.
  unfold find_table. change (ty_in (r_tref t) ["table_reference"; "object_reference"]) with true. cbn iota.
  rewrite (table_of_seg_exact e Henv t None Ht I). reflexivity.
Qed.

Lemma cp_cols g cs : cp_step e (Ok (g, false, false)) (r_colsb noise cs) = Ok (g, false, false).
Proof. reflexivity. Qed.

Lemma cp_qlit g p : cp_step e (Ok (g, false, true)) (r_qlit p) = Ok (add_read g (mk_path (escape (sq p))), false, false).
Proof. reflexivity. Qed.

Lemma cp_storage g loc quoted :
  cp_step e (Ok (g, false, true)) (r_storage loc quoted) =
  Ok (add_read g (mk_path (escape (if quoted then sq loc else loc))), false, false).
Proof.
  unfold cp_step. change (tyis (r_storage loc quoted) "from_clause") with false. change (tyis (r_storage loc quoted) "keyword") with false.
  cbn iota. change (ty_in (r_storage loc quoted) ["literal"; "storage_location"]) with true. cbn [andb]. cbn iota.
  assert (E : raw (r_storage loc quoted) = if quoted then sq loc else loc).
  { destruct quoted; cbn [r_storage raw node leaf map concat_str]; apply append_nil_r. }
  rewrite E. reflexivity.
Qed.

(** the holder of a COPY: the target table written, the path read *)
Lemma copy_holder_obs t x :
  stmt_reads (Ok (add_read (add_write empty_graph (tbl e t None)) (mk_path x))) = [escape x] /\
  stmt_writes (Ok (add_read (add_write empty_graph (tbl e t None)) (mk_path x))) = [tref_str (e_cfg e) t].
Proof. split; reflexivity. Qed.

Lemma copy_ok t cols path :
  tref_ok t = true ->
  analyze e false (r_pstmt noise (PCopy t cols path)) = Ok (add_read (add_write empty_graph (tbl e t None)) (mk_path (escape (sq path)))).
Proof.
  intros Ht. set (cp := match cols with Some cs => [r_colsb noise cs] | None => [] end).
  set (L := [kw "copy"; r_tref t] ++ cp ++ [kw "from"; r_qlit path]).
  set (stmt := node "copy_statement" ["copy_statement"] (sep noise L)).
  assert (Es : r_pstmt noise (PCopy t cols path) = stmt) by reflexivity. rewrite Es.
  assert (Ea : analyze e false stmt = extract_copy e stmt) by reflexivity.
  assert (Elcs : list_child_segments stmt true = L).
  { unfold stmt. rewrite (lcs_node noise Hnoise) by reflexivity. unfold L, cp. destruct cols; reflexivity. }
  rewrite Ea, extract_copy_eq, Elcs. unfold L. cbn [app fold_left]. rewrite cp_kw_copy, (cp_tref _ t Ht).
  unfold cp. destruct cols as [cs|]; cbn [app fold_left]; [rewrite cp_cols|]; rewrite cp_kw_from, cp_qlit; reflexivity.
Qed.

Lemma copy_into_ok t loc quoted :
  tref_ok t = true ->
  analyze e false (r_pstmt noise (PCopyInto t loc quoted)) =
  Ok (add_read (add_write empty_graph (tbl e t None)) (mk_path (escape (if quoted then sq loc else loc)))).
Proof.
  intros Ht. set (L := [kw "copy"; kw "into"; r_tref t; kw "from"; r_storage loc quoted]).
  set (stmt := node "copy_into_table_statement" ["copy_into_table_statement"] (sep noise L)).
  assert (Es : r_pstmt noise (PCopyInto t loc quoted) = stmt) by reflexivity. rewrite Es.
  assert (Ea : analyze e false stmt = extract_copy e stmt) by reflexivity.
  assert (Elcs : list_child_segments stmt true = L).
  { unfold stmt. rewrite (lcs_node noise Hnoise) by reflexivity. reflexivity. }
  rewrite Ea, extract_copy_eq, Elcs. unfold L. cbn [fold_left].
  rewrite cp_kw_copy, cp_kw_into, (cp_tref _ t Ht), cp_kw_from, cp_storage. reflexivity.
Qed.
End NavP.

(** what the implementation reports for every COPY of the two layouts: the target, and the path normalised twice *)
Theorem lemma_A_copy_impl : forall noise e p,
  noise_ok noise = true -> env_ok e = true ->
  match p with
  | PCopy t _ path => tref_ok t = true ->
      stmt_reads (analyze e false (r_pstmt noise p)) = [escape (escape (sq path))] /\
      stmt_writes (analyze e false (r_pstmt noise p)) = [tref_str (e_cfg e) t]
  | PCopyInto t loc quoted => tref_ok t = true ->
      stmt_reads (analyze e false (r_pstmt noise p)) = [escape (escape (if quoted then sq loc else loc))] /\
      stmt_writes (analyze e false (r_pstmt noise p)) = [tref_str (e_cfg e) t]
  | _ => True
  end.
Proof.
  intros noise e p Hn He. destruct p as [t cols path|t loc quoted|loc path q|items fmt path al]; try exact I; intros Ht.
  - rewrite (copy_ok noise Hn e He t cols path Ht). apply copy_holder_obs.
  - rewrite (copy_into_ok noise Hn e He t loc quoted Ht). apply copy_holder_obs.
Qed.
Print Assumptions lemma_A_copy_impl.

Theorem lemma_A_copy : forall noise e p,
  noise_ok noise = true -> env_ok e = true -> is_copy p = true -> pstmt_ok p = true ->
  stmt_reads (analyze e false (r_pstmt noise p)) = sort_strings (p_reads (e_cfg e) p) /\
  stmt_writes (analyze e false (r_pstmt noise p)) = sort_strings (p_writes (e_cfg e) p).
Proof.
  intros noise e p Hn He Hc Hok. pose proof (lemma_A_copy_impl noise e p Hn He) as H.
  destruct p as [t cols path|t loc quoted|loc path q|items fmt path al]; try discriminate Hc; cbn [pstmt_ok] in Hok.
  - apply andb_true_iff in Hok. destruct Hok as [Hok Hp]. apply andb_true_iff in Hok. destruct Hok as [Ht _].
    unfold path_ok in Hp. apply String.eqb_eq in Hp. rewrite Hp in H. exact (H Ht).
  - apply andb_true_iff in Hok. destruct Hok as [Ht Hp]. unfold path_ok in Hp. apply String.eqb_eq in Hp. rewrite Hp in H. exact (H Ht).
Qed.
Print Assumptions lemma_A_copy.

(* ================================================================== *)
(** * SELECT items FROM fmt.`path` [AS alias]  (sparksql file reference) *)
Section NavF.
Variable noise : list seg.
Hypothesis Hnoise : noise_ok noise = true.
Variable e : env.
Hypothesis Henv : env_ok e = true.
Variables fmt path : string.
Variable al : option string.

Definition f_te : seg := node "table_expression" ["table_expression"] [r_fileref fmt path].
Definition f_fee : seg := node "from_expression_element" ["from_expression_element"] (sep noise (f_te :: al_list noise al)).
Definition f_fe : seg := node "from_expression" ["from_expression"] [f_fee].
Definition f_fc : seg := node "from_clause" ["from_clause"] (sep noise [kw "from"; f_fe]).

Lemma clean_f_fee ts :
  not_trivia ts = true ->
  existsb (fun x => mem_string x ts)
    ["from_expression_element"; "table_expression"; "file_reference"; "keyword"; "raw"; "word"; "dot"; "symbol"; "identifier";
     "quoted_identifier"; "back_quote"; "alias_expression"; "alias_operator"; "naked_identifier"] = false ->
  LemmaAProofs.clean ts f_fee.
Proof.
  intros Hts H. cbn [existsb] in H. repeat (apply orb_false_iff in H; destruct H as [?E H]).
  apply (clean_sep_node noise Hnoise); [exact Hts|cbn [existsb]; rewrite E; reflexivity|].
  constructor.
  - apply clean_node; [cbn [existsb]; rewrite E0; reflexivity|]. constructor; [|constructor].
    apply clean_node; [cbn [existsb]; rewrite E1; reflexivity|].
    constructor; [apply clean_leaf; cbn [existsb]; rewrite E2, E3, E4; reflexivity|].
    constructor; [apply clean_leaf; cbn [existsb]; rewrite E5, E3, E6; reflexivity|].
    constructor; [apply clean_leaf; cbn [existsb]; rewrite E9, E7, E8, E3; reflexivity|constructor].
  - destruct al as [a|]; [|constructor]. constructor; [|constructor]. apply (clean_alias noise Hnoise); [exact Hts|].
    cbn [existsb]. rewrite E10, E11, E2, E4, E7, E12, E3. reflexivity.
Qed.

Lemma ffee_ffc : find_from_expression_element f_fc = Some f_fee.
Proof.
  unfold find_from_expression_element, f_fc. rewrite (crawl_node_miss noise Hnoise) by reflexivity. cbn [flat_map].
  change (crawl ["from_expression_element"] true (kw "from")) with (@nil seg). cbn [app]. unfold f_fe.
  rewrite crawl_node0_miss by reflexivity. cbn [flat_map]. unfold f_fee at 1. rewrite TriviaProofs.crawl_eq. reflexivity.
Qed.

Lemma ljc_ffc : list_join_clause f_fc = [].
Proof.
  unfold list_join_clause. change (ty_in f_fc ["from_clause"; "update_statement"]) with true. cbn iota.
  assert (E1 : get_child f_fc ["from_expression"] = Some f_fe).
  { unfold get_child, f_fc. rewrite (get_children_sep noise Hnoise) by reflexivity. reflexivity. }
  rewrite E1. change (get_child f_fe ["join_clause"]) with (@None seg). cbn iota.
  assert (E2 : crawl ["select_clause"] true f_fe = []).
  { unfold f_fe. rewrite crawl_node0_miss by reflexivity. cbn [flat_map]. rewrite (clean_crawl _ _ f_fee) by (apply clean_f_fee; reflexivity). reflexivity. }
  rewrite E2. unfold f_fc. rewrite (crawl_node_miss noise Hnoise) by reflexivity. cbn [flat_map].
  change (crawl ["join_clause"] true (kw "from")) with (@nil seg). unfold f_fe. rewrite crawl_node0_miss by reflexivity. cbn [flat_map app].
  rewrite (clean_crawl _ _ f_fee) by (apply clean_f_fee; reflexivity). reflexivity.
Qed.

Lemma lcs_f_fee b : list_child_segments f_fee b = f_te :: al_list noise al.
Proof. unfold f_fee. rewrite (lcs_node noise Hnoise) by reflexivity. destruct al; reflexivity. Qed.

Lemma list_subqueries_f_fee : list_subqueries_fee f_fee = Ok [].
Proof.
  unfold list_subqueries_fee, extract_as_and_target_segment. rewrite lcs_f_fee. cbn [nth_res nth_error].
  change (tyis f_te "keyword") with false. cbn [andb].
  rewrite (is_subquery_other f_te) by reflexivity.
  cbn [f_te children node nth_res nth_error]. rewrite (is_subquery_other (r_fileref fmt path)) by reflexivity. reflexivity.
Qed.

Lemma fti_f_fee : find_table_identifier f_fee = Some (r_fileref fmt path).
Proof.
  unfold f_fee. rewrite (sep_cons noise). unfold node at 1. cbn [find_table_identifier].
  change (ty_in _ _) with false. cbn iota. cbn [fold_left].
  change (find_table_identifier f_te) with (Some (r_fileref fmt path)). apply fti_some.
Qed.

Lemma raw_fileref_dotted : sexists is_dot (raw (r_fileref fmt path)) = true.
Proof.
  unfold r_fileref. rewrite raw_node. cbn [map concat_str raw kw dot sym leaf]. rewrite !sexists_app.
  cbn [sexists append]. rewrite orb_true_r. reflexivity.
Qed.

Lemma add_dataset_file g : add_dataset_from_fee e f_fee g = Ok [mk_path (escape (bq path))].
Proof.
  unfold add_dataset_from_fee. rewrite lcs_f_fee.
  assert (E0 : get_child f_fee ["table_expression"] = Some f_te).
  { unfold get_child, f_fee. rewrite (get_children_sep noise Hnoise) by reflexivity. destruct al; reflexivity. }
  rewrite E0. change (get_child f_te ["function"]) with (@None seg). cbn iota.
  assert (E1 : filter (fun x => negb (tyis x "keyword")) (f_te :: al_list noise al) = f_te :: al_list noise al) by (destruct al; reflexivity).
  rewrite E1. cbn [nth_res nth_error]. change (tyis f_te "bracketed") with false. cbn [andb].
  replace (list_subqueries f_fee) with (list_subqueries_fee f_fee) by reflexivity.
  rewrite list_subqueries_f_fee, fti_f_fee.
  assert (E2 : exists a0, (match f_te :: al_list noise al with
                | _ :: a :: _ => if tyis a "alias_expression" then
                                   match list_child_segments a true with
                                   | f0 :: x :: _ => if tyis f0 "alias_operator" || (tyis f0 "keyword" && String.eqb (raw_upper f0) "AS")
                                                     then Ok (Some (raw x)) else Ok (Some (raw f0))
                                   | [x] => Ok (Some (raw x)) | [] => Err EIndex end
                                 else Ok None
                | _ => Ok None end) = Ok a0).
  { destruct al as [a|]; [|eexists; reflexivity]. cbn [al_list]. change (tyis (r_alias noise a) "alias_expression") with true. cbn iota.
    rewrite (lcs_alias noise Hnoise). eexists. reflexivity. }
  destruct E2 as (a0 & E2). rewrite E2. rewrite raw_fileref_dotted.
  change (tyis (r_fileref fmt path) "file_reference") with true. cbn iota. reflexivity.
Qed.

Lemma gc_ffc : get_children f_fc ["from_expression"] = [f_fe].
Proof. unfold f_fc. rewrite (get_children_sep noise Hnoise) by reflexivity. reflexivity. Qed.

Lemma list_tables_ffc g : list_tables e f_fc g = Ok [mk_path (escape (bq path))].
Proof.
  unfold list_tables. change (ty_in f_fc _) with true. cbn iota. rewrite gc_ffc. unfold list_tables_one at 1.
  rewrite ffee_ffc, add_dataset_file, ljc_ffc. reflexivity.
Qed.

Lemma list_subquery_ffc : list_subquery f_fc = Ok [].
Proof.
  unfold list_subquery. rewrite gc_ffc. change (ty_in f_fc ["select_clause"; "from_clause"; "where_clause"]) with true. cbn iota.
  unfold list_subqueries. change (tyis f_fc "select_clause") with false. change (tyis f_fc "from_expression_element") with false.
  change (tyis f_fc "where_clause") with false. change (ty_in f_fc ["from_clause"; "from_expression"]) with true. cbn iota.
  rewrite ffee_ffc, list_subqueries_f_fee, ljc_ffc. reflexivity.
Qed.

Lemma ise_ffc : is_set_expression f_fc = false.
Proof.
  unfold is_set_expression. change (tyis f_fc "set_expression") with false. cbn [orb]. unfold f_fc. cbn [children node].
  rewrite (existsb_sep noise Hnoise) by (intros x Hx; apply noise_tyis; [exact Hx|reflexivity]). reflexivity.
Qed.

Lemma select_file_ok items :
  forallb item_ok items = true ->
  analyze e false (r_pstmt noise (PSelectFile items fmt path al)) = Ok (add_read empty_graph (mk_path (escape (bq path)))).
Proof.
  intros Hit. set (stmt := node "select_statement" ["select_statement"] (sep noise [r_sc noise items; f_fc])).
  assert (Es : r_pstmt noise (PSelectFile items fmt path al) = stmt) by reflexivity. rewrite Es.
  assert (Ea : analyze e false stmt = extract (S (S (3 * depth stmt + 8))) e XSelect stmt empty_ctx).
  { replace (S (S (3 * depth stmt + 8))) with (3 * depth stmt + 10) by lia. reflexivity. }
  assert (Eseg : sel_segments stmt = [r_sc noise items; f_fc]).
  { unfold sel_segments. change (tyis stmt "set_expression") with false. cbn iota. unfold stmt.
    rewrite (lcs_node noise Hnoise) by reflexivity. reflexivity. }
  rewrite Ea, extract_select_eq, Eseg. clearbody stmt. generalize (3 * depth stmt + 8). intros f.
  unfold sel_subqueries. cbn [map concat_res]. rewrite (sel_subq1_sc noise Hnoise items Hit).
  unfold sel_subq1 at 1. rewrite list_subquery_ffc, ise_ffc. cbn [app].
  change (init_holder empty_ctx) with empty_graph. cbn [ex_subquery fold_left].
  unfold sel_fold. cbn [fold_left]. unfold sel_step.
  destruct (handle_child_sc noise Hnoise e Henv f {| s_g := empty_graph; s_tables := []; s_columns := []; s_barriers := [] |} items Hit) as (cols & Ec & _).
  rewrite Ec, (ise_sc noise Hnoise). cbn [s_g s_tables s_columns s_barriers app].
  unfold handle_child. rewrite (swap_partition_off e Henv). unfold handle_select_into.
  change (ty_in f_fc ["into_table_clause"; "into_clause"]) with false. cbn iota. cbn [s_g].
  rewrite list_tables_ffc. change (tyis f_fc "select_clause") with false. cbn iota. rewrite ise_ffc.
  cbn [s_g s_tables s_columns s_barriers app]. rewrite app_nil_r. rewrite eoq_single. reflexivity.
Qed.
End NavF.

Theorem lemma_A_select_file : forall noise e items fmt path al,
  noise_ok noise = true -> env_ok e = true -> forallb item_ok items = true ->
  stmt_reads (analyze e false (r_pstmt noise (PSelectFile items fmt path al))) = [escape (escape (bq path))] /\
  stmt_writes (analyze e false (r_pstmt noise (PSelectFile items fmt path al))) = [].
Proof.
  intros noise e items fmt path al Hn He Hit. rewrite (select_file_ok noise Hn e He fmt path al items Hit). split; reflexivity.
Qed.
Print Assumptions lemma_A_select_file.

(* ================================================================== *)
(** * Lemma A with file paths: COPY (two layouts) and SELECT from a file reference

    SUMMARY
    - [lemma_A_path]: under [pstmt_ok] the reported sources / targets of COPY tgt [(cols)] FROM 'path' (postgres, redshift
      layout), COPY INTO tgt FROM @stage/f | 's3://..' (snowflake layout) and SELECT .. FROM fmt.`path` (sparksql) are exactly
      [p_reads] / [p_writes], for every trivia list.
    - [pstmt_ok] contains [path_ok]: the path survives the implementation's double normalisation.  It is necessary:
      [lemma_A_path_case_refuted] - COPY t FROM '/tmp/Data/X.CSV' is reported as reading /tmp/data/x.csv
      ([lemma_A_copy_impl] / [lemma_A_select_file] say what is reported in general: escape (escape text)).
    - INSERT OVERWRITE [LOCAL] DIRECTORY 'path' SELECT ...: [lemma_A_insert_dir_statement] is stated and tested
      ([insert_dir_tested]) but NOT proved: the holder invariant [gok] of Tree/LemmaAProofs.v, on which every lemma
      about embedded queries rests ([body_main], [select_tail], [eoq_ok] ...), requires all datasets to be tables or
      sub-queries ([data_ok]: KPath => False), and here the written target - a Path - is a node of every sub-holder. *)
Definition is_insert_dir (p : pstmt) : bool := match p with PInsertDir _ _ _ => true | _ => false end.

Theorem lemma_A_path : forall noise e p,
  noise_ok noise = true -> env_ok e = true -> pstmt_ok p = true -> is_insert_dir p = false ->
  stmt_reads (analyze e false (r_pstmt noise p)) = sort_strings (p_reads (e_cfg e) p) /\
  stmt_writes (analyze e false (r_pstmt noise p)) = sort_strings (p_writes (e_cfg e) p).
Proof.
  intros noise e p Hn He Hok Hd. destruct p as [t cols path|t loc quoted|loc path q|items fmt path al]; try discriminate Hd.
  - apply lemma_A_copy; auto.
  - apply lemma_A_copy; auto.
  - cbn [pstmt_ok] in Hok. apply andb_true_iff in Hok. destruct Hok as [Hok _]. apply andb_true_iff in Hok. destruct Hok as [Hit Hp].
    unfold path_ok in Hp. apply String.eqb_eq in Hp.
    destruct (lemma_A_select_file noise e items fmt path al Hn He Hit) as [H1 H2]. rewrite H1, H2, Hp. split; reflexivity.
Qed.
Print Assumptions lemma_A_path.

Definition lemma_A_insert_dir_statement : Prop :=
  forall noise e loc path q,
    noise_ok noise = true -> env_ok e = true -> pstmt_ok (PInsertDir loc path q) = true ->
    stmt_reads (analyze e false (r_pstmt noise (PInsertDir loc path q))) = sort_strings (p_reads (e_cfg e) (PInsertDir loc path q)) /\
    stmt_writes (analyze e false (r_pstmt noise (PInsertDir loc path q))) = sort_strings (p_writes (e_cfg e) (PInsertDir loc path q)).

(** ** the case of a path is not preserved *)
Definition e_p : env := mk_env "ansi" "" "" {| p_truthy := false; p_cols := [] |} [].
Definition copy_case_cx : pstmt := PCopy (None, "t") None "/tmp/Data/X.CSV".
Definition copy_into_case_cx : pstmt := PCopyInto (None, "t") "@Stage/X" false.
Definition file_case_cx : pstmt := PSelectFile [IStar None] "parquet" "/tmp/X.parquet" None.
Definition insert_dir_case_cx : pstmt :=
  PInsertDir false "/tmp/Out" (QSelect [IExpr (EColRef None "a") None] [RTable (None, "t") None] false None).

(** known-finding witness: copy t from '/tmp/Data/X.CSV' (postgres layout, empty noise, default schema unset) *)
Lemma copy_path_case_known_finding :
  stmt_reads (analyze e_p false (r_pstmt [] copy_case_cx)) = ["/tmp/data/x.csv"] /\
  sort_strings (p_reads "" copy_case_cx) = ["/tmp/Data/X.CSV"] /\
  stmt_writes (analyze e_p false (r_pstmt [] copy_case_cx)) = ["<default>.t"] /\
  stmt_reads (analyze e_p false (r_pstmt [] copy_into_case_cx)) = ["@stage/x"] /\
  stmt_reads (analyze e_p false (r_pstmt [] file_case_cx)) = ["/tmp/x.parquet"] /\
  stmt_writes (analyze e_p false (r_pstmt [] insert_dir_case_cx)) = ["/tmp/out"] /\
  map pstmt_ok [copy_case_cx; copy_into_case_cx; file_case_cx; insert_dir_case_cx] = [false; false; false; false].
Proof. vm_compute. repeat split; reflexivity. Qed.

(** without [path_ok] (everything else of the guard kept) the statement is false *)
Definition pstmt_ok_nopath (p : pstmt) : bool :=
  match p with
  | PCopy t cols _ => tref_ok t && match cols with Some cs => forallb id_ok cs | None => true end
  | PCopyInto t _ _ => tref_ok t
  | _ => pstmt_ok p
  end.
Theorem lemma_A_path_case_refuted : ~ lemma_A_path_statement pstmt_ok_nopath.
Proof.
  intros H. destruct (H [] e_p copy_case_cx) as [Hr _]; try (vm_compute; reflexivity). vm_compute in Hr. discriminate Hr.
Qed.
Print Assumptions lemma_A_path_case_refuted.

(** ** tests of the unproved statement, and non-vacuity of the proved one *)
Definition noise3 : list seg :=
  [Seg "whitespace" "whitespace" ["whitespace"; "raw"] " " true false false [];
   Seg "comment" "inline_comment" ["comment"; "inline_comment"; "raw"] "-- x" false true false [];
   Seg "indent" "indent" ["indent"; "meta"; "raw"] "" false false true []].
Definition selp (c t : string) : query := QSelect [IExpr (EColRef None c) None] [RTable (None, t) None] false None.
Definition dir_ex1 : pstmt :=
  PInsertDir true "/tmp/out"
    (QSelect [IStar None] [RTable (None, "x") (Some "p"); RDerived (QUnion (selp "c" "y") (selp "c" "y2")) "q"] false (Some ("c", selp "c" "inner"))).
Definition dir_ex2 : pstmt := PInsertDir false "hdfs://nn/a/b" (QWith "n" (selp "a" "t") (selp "a" "n")).
Example insert_dir_tested :
  map (lemma_A_path_check pstmt_ok noise3 e_p) [dir_ex1; dir_ex2] = ["holds"; "holds"] /\
  stmt_reads (analyze e_p false (r_pstmt noise3 dir_ex1)) = ["<default>.inner"; "<default>.x"; "<default>.y"; "<default>.y2"] /\
  stmt_writes (analyze e_p false (r_pstmt noise3 dir_ex1)) = ["/tmp/out"].
Proof. vm_compute. repeat split; reflexivity. Qed.

Definition copy_ex1 : pstmt := PCopy (Some "db.s", "t") (Some ["a"; "b"]) "s3://bucket/key/f.parquet".
Definition copy_ex2 : pstmt := PCopyInto (None, "t") "@my_stage/dir/f.csv" false.
Definition copy_ex3 : pstmt := PCopyInto (Some "s", "t") "s3://b/x" true.
Definition file_ex1 : pstmt := PSelectFile [IExpr (EColRef (Some "p") "a") (Some "z"); IStar None] "csv" "s3://b/f.csv" (Some "p").
Example lemma_A_path_nonvacuous :
  noise_ok noise3 = true /\ env_ok e_p = true /\
  forallb (fun p => pstmt_ok p && negb (is_insert_dir p)) [copy_ex1; copy_ex2; copy_ex3; file_ex1] = true /\
  map (lemma_A_path_check pstmt_ok noise3 e_p) [copy_ex1; copy_ex2; copy_ex3; file_ex1] = ["holds"; "holds"; "holds"; "holds"] /\
  stmt_reads (analyze e_p false (r_pstmt noise3 copy_ex1)) = ["s3://bucket/key/f.parquet"] /\
  stmt_writes (analyze e_p false (r_pstmt noise3 copy_ex1)) = ["db.s.t"] /\
  stmt_reads (analyze e_p false (r_pstmt noise3 file_ex1)) = ["s3://b/f.csv"].
Proof. vm_compute. repeat split; reflexivity. Qed.
