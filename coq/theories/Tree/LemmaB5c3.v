(** Lemma B, step 5c, third part: (1) unresolved inner columns in the flat fragment; (2) [colshape] implies the guards. *)
From Coq Require Import Permutation.
From SV Require Import Tree.Render Tree.LemmaA Tree.LemmaAProofs Tree.LemmaB Tree.LemmaBProofs Tree.LemmaB5cPaths Tree.LemmaB5c Tree.LemmaB5c2
     Ident.Escape Ident.EscapeProofs Holder.PathProofs Holder.SortProofs.
Open Scope string_scope.
Open Scope list_scope.

(* ================================================================== *)
(** * Part U: unresolved inner columns (an unqualified reference over several inner tables) in the flat fragment *)

(** the inner queries: plain column items; the name of an unresolved column is the reference name of no other item of the
    statement (it may occur again as an unresolved column of the same inner query) *)
Definition inner_cond_u (from : list rel) (items : list item) : Prop :=
  forall r items' from', In r from -> inner_of r = Some (items', from') ->
    forallb plain_item items' = true /\ items_cond from' items' /\ noqual_items from' items' /\
    (2 <= List.length from' -> forall i', In i' items' -> snd (item_ref i') = None ->
       (forall i, In i items -> fst (item_ref i) <> fst (item_ref i')) /\
       (forall r2 items2 from2 i2, In r2 from -> inner_of r2 = Some (items2, from2) -> In i2 items2 ->
                                   fst (item_ref i2) = fst (item_ref i') -> r2 = r)).

Lemma S_of_craw_ref ts i s : item_ok i = true -> In s (S_of ts (xcol_of i)) -> craw s = fst (item_ref i).
Proof.
  intros Hi Hs. destruct (xcol_of_facts i Hi) as (_ & F2 & _). destruct (S_of_craw ts (xcol_of i) s Hs) as (c & qq & [[E1 E2]|(c' & E1 & E2)]).
  - rewrite F2 in E1. inversion E1 as [E]. rewrite E2, E. reflexivity.
  - rewrite F2 in E1. inversion E1 as [E]. rewrite E2, Ucol_craw, E. reflexivity.
Qed.

Lemma multi_map_length e (from' : list rel) : multi (map (tbl_of e) from') -> 2 <= List.length from'.
Proof. intros (a & b & Ha & Hb & Hab). rewrite <- (map_length (tbl_of e)). exact (two_members _ a b Ha Hb Hab). Qed.

Lemma HU_of_syntax noise e k t items from :
  forallb rel2_ok from = true -> tables_cond (e_cfg e) t (allrels from) -> forallb item_ok items = true ->
  inner_cond_u from items ->
  (forall b, In b (blocks noise e k from) -> block_ok (tbl e t None) b) ->
  forall b nm, In b (blocks noise e k from) -> In nm (bNM b) ->
     (forall b' x' s' v, In b' (blocks noise e k from) -> In x' (bxs b') -> In s' (S_of (bts b') x') -> cparents s' = [v] -> craw s' <> nm) /\
     (forall x s0, In x (map xcol_of items) -> In s0 (S_of (map (ds_of noise e k) from) x) -> craw s0 <> nm) /\
     (forall b', In b' (blocks noise e k from) -> In nm (bNM b') -> b' = b).
Proof.
  intros Hok Htc Hit Hin HBL b nm Hb Hnm. rewrite forallb_forall in Hok, Hit.
  destruct (blk_In noise e k from b Hb) as (r & items' & from' & a & cj' & Hr & Er & Eb).
  assert (Hi : inner_of r = Some (items', from')) by (rewrite Er; reflexivity).
  destruct (rel2_inner r items' from' (Hok r Hr) Hi) as (_ & _ & _ & _ & Hit' & Hne' & Hrel'). rewrite forallb_forall in Hit'.
  destruct (Hin r items' from' Hr Hi) as (Hpl' & Hic & Hnq & HUn).
  pose proof (HBL b Hb) as Hbo.
  destruct (unres_names_src (bts b) (bxs b) nm (fun x Hx => proj1 (bo_xref _ _ Hbo x Hx)) Hnm) as (x & Hx & _ & Hmul & Ex).
  rewrite Eb in Hx, Hmul. cbn [bts bxs fst snd] in Hx, Hmul. apply in_map_iff in Hx. destruct Hx as (i' & <- & Hi').
  destruct (xcol_of_facts i' (Hit' i' Hi')) as (_ & F2 & _). rewrite F2 in Ex. inversion Ex as [Eref].
  assert (Hl : 2 <= List.length from') by exact (multi_map_length e from' Hmul).
  assert (En : snd (item_ref i') = None) by (rewrite Eref; reflexivity).
  assert (Enm : fst (item_ref i') = nm) by (rewrite Eref; reflexivity).
  destruct (HUn Hl i' Hi' En) as [U1 U2]. rewrite Enm in U1, U2.
  (* the block of a relation that has an item named [nm] is [b] *)
  assert (Hsame : forall b', In b' (blocks noise e k from) -> forall i2, In (xcol_of i2) (bxs b') ->
                    (forall r2 items2 from2 a2 cj2, In r2 from -> r2 = RDerived (QSelect items2 from2 cj2 None) a2 ->
                       b' = (sqd noise k (QSelect items2 from2 cj2 None) a2, map (tbl_of e) from2, map xcol_of items2) -> In i2 items2 -> fst (item_ref i2) = nm -> b' = b)).
  { intros b' Hb' i2 _ r2 items2 from2 a2 cj2 Hr2 Er2 Eb' Hi2 En2.
    assert (Hi2' : inner_of r2 = Some (items2, from2)) by (rewrite Er2; reflexivity).
    pose proof (U2 r2 items2 from2 i2 Hr2 Hi2' Hi2 En2) as Err. rewrite Er2, Er in Err. rewrite Eb', Eb. inversion Err. reflexivity. }
  split; [|split].
  - intros b' x' s' v Hb' Hx' Hs' Ev Ec.
    destruct (blk_In noise e k from b' Hb') as (r2 & items2 & from2 & a2 & cj2 & Hr2 & Er2 & Eb').
    assert (Hi2' : inner_of r2 = Some (items2, from2)) by (rewrite Er2; reflexivity).
    destruct (rel2_inner r2 items2 from2 (Hok r2 Hr2) Hi2') as (_ & _ & _ & _ & Hit2 & _ & _). rewrite forallb_forall in Hit2.
    pose proof Hx' as Hx'0. rewrite Eb' in Hx', Hs'. cbn [bts bxs fst snd] in Hx', Hs'. apply in_map_iff in Hx'. destruct Hx' as (i2 & <- & Hi2).
    pose proof (S_of_craw_ref _ i2 s' (Hit2 i2 Hi2) Hs') as Ecr. rewrite Ec in Ecr.
    pose proof (U2 r2 items2 from2 i2 Hr2 Hi2' Hi2 (eq_sym Ecr)) as Err. rewrite Er2, Er in Err. inversion Err. subst items2 from2 cj2 a2.
    (* inside the same inner query: a single-parent source named like an unresolved column *)
    destruct (xcol_of_facts i2 (Hit2 i2 Hi2)) as (_ & G2 & _). unfold S_of in Hs'. rewrite G2 in Hs'. destruct (item_ref i2) as [c2 qq2] eqn:E2. cbn [fst] in Ecr. subst c2.
    destruct qq2 as [q2|].
    + assert (K : nm <> nm); [|apply K; reflexivity].
      apply (Hnq Hl i' i2 nm nm q2 Hi' Hi2 Eref E2).
    + rewrite (multi_not_single _ _ _ _ Hmul) in Hs'. destruct Hs' as [<-|[]].
      pose proof (bo_inj _ _ Hbo) as Hinj. rewrite Eb in Hinj. cbn [bts fst snd] in Hinj.
      destruct (Ucol_props (map (tbl_of e) from') nm Hinj) as (_ & _ & U3). destruct Hmul as (a0 & b0 & Ha0 & Hb0 & Hab).
      pose proof (two_members _ a0 b0 (proj2 (U3 a0) Ha0) (proj2 (U3 b0) Hb0) Hab) as Hl2. rewrite Ev in Hl2. cbn in Hl2. lia.
  - intros x s0 Hx Hs0 Ec. apply in_map_iff in Hx. destruct Hx as (i & <- & Hio).
    pose proof (S_of_craw_ref _ i s0 (Hit i Hio) Hs0) as Ecr. rewrite Ec in Ecr. exact (U1 i Hio (eq_sym Ecr)).
  - intros b' Hb' Hnm'. pose proof (HBL b' Hb') as Hbo'.
    destruct (unres_names_src (bts b') (bxs b') nm (fun x Hx => proj1 (bo_xref _ _ Hbo' x Hx)) Hnm') as (x2 & Hx2 & _ & _ & Ex2).
    destruct (blk_In noise e k from b' Hb') as (r2 & items2 & from2 & a2 & cj2 & Hr2 & Er2 & Eb').
    assert (Hi2' : inner_of r2 = Some (items2, from2)) by (rewrite Er2; reflexivity).
    destruct (rel2_inner r2 items2 from2 (Hok r2 Hr2) Hi2') as (_ & _ & _ & _ & Hit2 & _ & _). rewrite forallb_forall in Hit2.
    pose proof Hx2 as Hx20. rewrite Eb' in Hx2. cbn [bxs snd] in Hx2. apply in_map_iff in Hx2. destruct Hx2 as (i2 & <- & Hi2).
    destruct (xcol_of_facts i2 (Hit2 i2 Hi2)) as (_ & G2 & _). rewrite G2 in Ex2. inversion Ex2 as [E2].
    apply (Hsame b' Hb' i2 Hx20 r2 items2 from2 a2 cj2 Hr2 Er2 Eb' Hi2). rewrite E2. reflexivity.
Qed.

Theorem lemma_B_derived_flat_u noise e (s : stmt) t items from cj :
  noise_ok noise = true -> env_ok e = true ->
  let q := QSelect items from cj None in
  (s = SInsert t None q \/ s = SCtas t q \/ s = SView t q) ->
  tref_ok t = true -> forallb item_ok items = true -> from <> [] -> forallb rel2_ok from = true -> noleak from cj = true ->
  tables_cond (e_cfg e) t (allrels from) -> NoDup (from_sq_texts noise (q_size q) from) ->
  inner_cond_u from items -> outer_cond2 from items ->
  script_pairs e false [] [r_stmt noise s] = spec_pairs (e_cfg e) s.
Proof.
  intros Hn He q Hs Ht Hit Hne Hok Hnl Htc Hsq Hin Hout.
  set (k := q_size q) in *. set (d := tbl e t None). set (BL := blocks noise e k from). set (TO := map (ds_of noise e k) from).
  set (ds := e_cfg e). set (tstr := tref_str ds t).
  pose proof Hok as Hok0. rewrite forallb_forall in Hok, Hit.
  assert (HBL : forall b, In b BL -> block_ok d b).
  { apply (blocks_ok noise e k t from Hok0 Htc). intros r items' from' Hr Hi. destruct (Hin r items' from' Hr Hi) as (A & B & _). auto. }
  assert (Hin3 : forall r items' from', In r from -> inner_of r = Some (items', from') -> forallb plain_item items' = true /\ items_cond from' items') by (intros r items' from' Hr Hi; destruct (Hin r items' from' Hr Hi) as (A & B & _); auto).
  pose proof (group2_flat noise e k t from Ht Hok0 Htc Hsq) as Gout. cbv zeta in Gout. fold d TO BL in Gout.
  (* per outer item: its relation *)
  assert (Hitem : forall i, In i items -> exists qn r0, snd (item_ref i) = Some qn /\ In r0 from /\ rname2 r0 = qn /\
                    xref_q TO (xcol_of i) /\ S_of TO (xcol_of i) = [{| craw := fst (item_ref i); cparents := [ds_of noise e k r0] |}] /\
                    find_binding qn (map (bnd ds k) from) = Some (bnd ds k r0)).
  { intros i Hi. destruct (Hout i Hi) as (_ & qn & Eq & (r0 & Hr0 & En & Hu) & _). exists qn, r0.
    destruct (xref_q_of noise e k from i qn r0 Hok0 (Hit i Hi) Eq Hr0 En Hu) as [A B].
    destruct (xcol_of_facts i (Hit i Hi)) as (_ & _ & _ & F4). rewrite Eq in F4.
    repeat (split; [assumption|]). exact (find_binding_q2 ds k from qn r0 Hok0 F4 Hr0 En Hu). }
  rewrite (model_pairs_flat noise e s t items from cj Hn He Hs Ht (proj2 (forallb_forall _ _) Hit) Hne Hok0 Hnl HBL Gout).
  2:{ intros x Hx. apply in_map_iff in Hx. destruct Hx as (i & <- & Hi). destruct (Hitem i Hi) as (qn & r0 & _ & _ & _ & A & _).
      split; [exact A|]. apply nostar_of; [exact (Hit i Hi)|exact (proj1 (Hout i Hi))]. }
  2:{ intros b nm Hb Hnm. change (In b BL) in Hb. apply (HU_of_syntax noise e k t items from Hok0 Htc (proj2 (forallb_forall _ _) Hit) Hin HBL b nm Hb Hnm). }
  2:{ intros x s0 b Hx Hs0 Hb Ep. change (In b BL) in Hb. change (In s0 (S_of TO x)) in Hs0. apply in_map_iff in Hx. destruct Hx as (i & <- & Hi).
      destruct (Hitem i Hi) as (qn & r0 & Eq & Hr0 & En & _ & ES & _). rewrite ES in Hs0. destruct Hs0 as [<-|[]]. cbn [craw cparents] in *.
      destruct (blk_In noise e k from b Hb) as (r & items' & from' & a & cj' & Hr & Er & ->). cbn [bsq bts bxs fst snd] in *.
      (* the relation of the item is [r] *)
      assert (Err : r0 = r).
      { inversion Ep as [Ep']. destruct r0 as [t0 al0|q0 a0|x0 y0]; [discriminate Ep'| |specialize (Hok _ Hr0); discriminate].
        cbn [ds_of] in Ep'. rewrite Er.
        apply (NoDup_flat_inj (fun r => match r with RDerived q1 _ => [raw (r_brq noise k q1)] | _ => [] end) from _ _ (raw (r_brq noise k q0)) Hsq Hr0); [rewrite <- Er; exact Hr|left; reflexivity|].
        left. apply (f_equal deq) in Ep'. cbn [sqd mk_subquery deq] in Ep'. symmetry. exact Ep'. }
      subst r0. assert (Hi' : inner_of r = Some (items', from')) by (rewrite Er; reflexivity).
      destruct (Hout i Hi) as (_ & qn' & Eq' & _ & Hcol). rewrite Eq in Eq'. inversion Eq'. subst qn'.
      specialize (Hcol r items' from' Hr En Hi'). apply in_map_iff in Hcol. destruct Hcol as (i' & En' & Hi'').
      destruct (rel2_inner r items' from' (Hok r Hr) Hi') as (_ & _ & _ & _ & Hit' & _ & Hrel'). rewrite forallb_forall in Hit'.
      exists (xcol_of i'). split; [apply in_map; exact Hi''|]. destruct (xcol_of_facts i' (Hit' i' Hi'')) as (F1 & _). split; [rewrite F1; exact En'|].
      apply xref_ok_nonempty. exact (proj1 (bo_xref _ _ (HBL _ Hb) (xcol_of i') (in_map _ _ _ Hi''))). }
  change (uniq_sorted (sort_strings (map flow_str (compose_flows (flat_map FIb BL) (flows_of (S_of TO) (own_pairs d (map xcol_of items)))))) = spec_pairs ds s).
  set (FI := flat_map FIb BL). set (scope := map (bnd ds k) from).
  set (G := fun fo : flow => if is_mid (fst fo) then map (fun fi : flow => (fst fi, snd fo)) (filter (fun fi : flow => col_eqb (snd fi) (fst fo)) FI) else [fo]).
  assert (Hown : forall (dd : dataset) i0, item_ok i0 = true -> own_col dd (xcol_of i0) = {| craw := item_name i0; cparents := [dd] |}).
  { intros dd i0 Hi0. destruct (xcol_of_facts i0 Hi0) as (F1 & _). rewrite own_col_eq; rewrite F1; reflexivity. }
  assert (Ek : exists k1, k = S k1) by (eexists; reflexivity). destruct Ek as (k1 & Ek).
  (* the specification, item by item *)
  assert (Esf : map (fun p => (show_src (fst p) ++ ">" ++ snd p)%string) (spec_flows ds s) =
                flat_map (fun i => map (fun sr => (show_src sr ++ ">" ++ tstr ++ "." ++ item_name i)%string)
                                       (dedup_src (resolve scope (snd (item_ref i), fst (item_ref i))) [])) items).
  { assert (E : spec_flows ds s = flat_map (fun c : colspec => map (fun sr => (sr, (tstr ++ "." ++ fst c)%string)) (snd c)) (q_cols (S k) ds [] q)).
    { destruct Hs as [->|[->| ->]]; unfold spec_flows; fold q k; [apply combine_names_flows|reflexivity|reflexivity]. }
    rewrite E. unfold q. rewrite (q_cols_flat k ds items from cj Hok0). fold scope.
    rewrite flat_map_flat_map, map_flat_map'. apply flat_map_ext_in'. intros i Hi. destruct (Hout i Hi) as (Hp & _).
    destruct i as [[qq c| | | | | |] al|qq]; cbn [plain_item] in Hp; try discriminate. cbn [item_ref fst snd item_name item_cols col_refs flat_map app].
    rewrite !app_nil_r, map_map. destruct al; reflexivity. }
  unfold spec_pairs. rewrite Esf. apply us_ext. intros z.
  (* the model, item by item *)
  assert (Emod : In z (map flow_str (compose_flows FI (flows_of (S_of TO) (own_pairs d (map xcol_of items))))) <->
                 exists i, In i items /\ In z (map flow_str (flat_map G (map (fun s0 => (s0, own_col d (xcol_of i))) (S_of TO (xcol_of i)))))).
  { unfold compose_flows. fold G. split.
    - intros H. apply in_map_iff in H. destruct H as (ff & <- & H). apply in_flat_map in H. destruct H as (fo & Hfo & H).
      apply flows_of_In in Hfo. destruct Hfo as (p & s0 & Hp & Hs0 & ->). unfold own_pairs in Hp. apply in_map_iff in Hp.
      destruct Hp as (x & <- & Hx). apply in_map_iff in Hx. destruct Hx as (i & <- & Hi). cbn [fst snd] in *.
      exists i. split; [exact Hi|]. apply in_map. apply in_flat_map. exists (s0, own_col d (xcol_of i)). split; [apply in_map_iff; exists s0; auto|exact H].
    - intros (i & Hi & H). apply in_map_iff in H. destruct H as (ff & <- & H). apply in_flat_map in H. destruct H as (fo & Hfo & H).
      apply in_map_iff in Hfo. destruct Hfo as (s0 & <- & Hs0). apply in_map. apply in_flat_map. exists (s0, own_col d (xcol_of i)). split; [|exact H].
      apply flows_of_In. exists (xcol_of i, own_col d (xcol_of i)), s0. split; [unfold own_pairs; apply in_map_iff; exists (xcol_of i); split; [reflexivity|apply in_map; exact Hi]|auto]. }
  rewrite Emod.
  assert (Hper : forall i, In i items ->
            (In z (map flow_str (flat_map G (map (fun s0 => (s0, own_col d (xcol_of i))) (S_of TO (xcol_of i))))) <->
             In z (map (fun sr => (show_src sr ++ ">" ++ tstr ++ "." ++ item_name i)%string) (dedup_src (resolve scope (snd (item_ref i), fst (item_ref i))) [])))).
  { intros i Hi. destruct (Hitem i Hi) as (qn & r0 & Eq & Hr0 & En & _ & ES & Efb). rewrite ES, Eq. cbn [map flat_map]. rewrite app_nil_r.
    unfold resolve. cbn [fst snd]. fold scope in Efb. rewrite Efb. set (c := fst (item_ref i)).
    pose proof (Hok r0 Hr0) as Hr2. destruct r0 as [t0 al0|q0 a0|x0 y0]; [| |discriminate].
    - (* a base table *)
      unfold G. cbn [fst snd]. change (is_mid {| craw := c; cparents := [ds_of noise e k (RTable t0 al0)] |}) with false. cbv iota.
      cbn [bnd sbind b_rel rel_col dedup_src existsb map]. unfold flow_str. cbn [fst snd]. rewrite (Hown d i (Hit i Hi)). reflexivity.
    - (* a derived table *)
      cbn [rel2_ok] in Hr2. apply andb_true_iff in Hr2. destruct Hr2 as [Ha0 Hq0].
      destruct q0 as [items' from' cj' [wh|]| |]; try discriminate. set (q' := QSelect items' from' cj' None) in *.
      pose proof Hq0 as Hq0'. unfold q' in Hq0'. cbn [iq_ok] in Hq0'. apply andb_true_iff in Hq0'. destruct Hq0' as [Hq0' Hrel']. apply andb_true_iff in Hq0'. destruct Hq0' as [Hit' Hne'].
      assert (Hrt' : forallb is_rtable from' = true) by (rewrite forallb_forall in *; intros r Hr; apply rel_ok_table; apply Hrel'; exact Hr).
      assert (Hi0 : inner_of (RDerived q' a0) = Some (items', from')) by reflexivity.
      destruct (Hin _ items' from' Hr0 Hi0) as (Hpl' & Hic & _). pose proof (tables_cond_sub ds t from _ items' from' Htc Hr0 Hi0) as Htc'.
      rewrite forallb_forall in Hit', Hpl'.
      set (sq := sqd noise k q' a0). set (ts' := map (tbl_of e) from'). set (b0 := (sq, ts', map xcol_of items') : block).
      assert (Hb0 : In b0 BL) by (unfold BL, blocks; apply in_flat_map; exists (RDerived q' a0); split; [exact Hr0|left; reflexivity]).
      unfold G. cbn [fst snd]. change (ds_of noise e k (RDerived q' a0)) with sq.
      change (is_mid {| craw := c; cparents := [sq] |}) with true. cbv iota.
      cbn [bnd b_rel rel_col]. unfold q' at 1. rewrite Ek, (q_cols_select k1 ds items' from' cj' None Hrt').
      set (scope_in := map (sbind ds) from'). set (cols_in := flat_map (item_cols scope_in) items').
      set (CANDS := map (fun r => tref_str ds (rtref r)) from').
      assert (Hinner : forall i', In i' items' -> exists SR, item_cols scope_in i' = [(item_name i', SR)] /\
                         map show_src SR = map (fun s0 => src_str (NCol s0)) (S_of ts' (xcol_of i')) /\ forall sr, In sr SR -> src_cands CANDS sr).
      { intros i' Hi'. apply (item_corr_src e t from' i' Hrel' (Hit' i' Hi') (Hpl' i' Hi') Htc' (Hic i' Hi')). }
      assert (Hcands : forall sr, In sr (lookup_col c cols_in) -> src_cands CANDS sr).
      { intros sr Hsr. unfold lookup_col in Hsr. apply in_flat_map in Hsr. destruct Hsr as (cs & Hcs & Hsr).
        unfold cols_in in Hcs. apply in_flat_map in Hcs. destruct Hcs as (i' & Hi' & Hcs). destruct (Hinner i' Hi') as (SR & E1 & _ & E3).
        rewrite E1 in Hcs. destruct Hcs as [<-|[]]. cbn [fst snd] in Hsr. destruct (String.eqb (item_name i') c); [|destruct Hsr]. apply E3. exact Hsr. }
      (* the flows into the column [c] of this sub-query *)
      assert (Hfil : forall fi, In fi FI /\ col_eqb (snd fi) {| craw := c; cparents := [sq] |} = true <->
                                exists i' s', In i' items' /\ item_name i' = c /\ In s' (S_of ts' (xcol_of i')) /\ fi = (s', own_col sq (xcol_of i'))).
      { intros fi. split.
        - intros [Hfi Ec]. unfold FI in Hfi. apply in_flat_map in Hfi. destruct Hfi as (b & Hb & Hfi).
          destruct (blk_In noise e k from b Hb) as (r & items2 & from2 & a2 & cj2 & Hr & Er & ->).
          apply flows_of_In in Hfi. destruct Hfi as (p' & s' & Hp' & Hs' & ->). cbn [bsq bts bxs fst snd] in *.
          unfold own_pairs in Hp'. apply in_map_iff in Hp'. destruct Hp' as (x' & <- & Hx'). apply in_map_iff in Hx'. destruct Hx' as (i' & <- & Hi'). cbn [fst snd] in *.
          assert (Hi2 : inner_of r = Some (items2, from2)) by (rewrite Er; reflexivity).
          destruct (rel2_inner r items2 from2 (Hok r Hr) Hi2) as (_ & _ & _ & _ & Hit2 & _ & _). rewrite forallb_forall in Hit2.
          rewrite (Hown _ i' (Hit2 i' Hi')) in Ec. unfold col_eqb in Ec. apply andb_true_iff in Ec. destruct Ec as [Ec1 Ec2].
          unfold col_parent in Ec2. cbn [cparents opt_dataset_eqb] in Ec2.
          assert (Err : r = RDerived q' a0).
          { rewrite Er. apply (NoDup_flat_inj (fun r => match r with RDerived q1 _ => [raw (r_brq noise k q1)] | _ => [] end) from _ _ (raw (r_brq noise k (QSelect items2 from2 cj2 None))) Hsq); [rewrite <- Er; exact Hr|exact Hr0|left; reflexivity|].
            left. unfold dataset_eqb in Ec2. cbn [sq sqd mk_subquery dk deq dkind_beq andb] in Ec2. apply String.eqb_eq in Ec2. symmetry. exact Ec2. }
          rewrite Er in Err. inversion Err. subst items2 from2 cj2 a2.
          apply String.eqb_eq in Ec1. unfold col_str, col_parent in Ec1. cbn [cparents craw dk sqd mk_subquery] in Ec1. apply append_cancel in Ec1. apply append_cancel in Ec1.
          exists i', s'. auto.
        - intros (i' & s' & Hi' & En' & Hs' & ->). split.
          + unfold FI. apply in_flat_map. exists b0. split; [exact Hb0|]. apply flows_of_In. exists (xcol_of i', own_col sq (xcol_of i')), s'.
            split; [unfold own_pairs; apply in_map_iff; exists (xcol_of i'); split; [reflexivity|apply in_map; exact Hi']|auto].
          + cbn [snd]. rewrite (Hown sq i' (Hit' i' Hi')), En'. apply col_eqb_refl. }
      split.
      + intros H. apply in_map_iff in H. destruct H as (ff & <- & H). apply in_map_iff in H. destruct H as (fi & <- & H). apply filter_In in H.
        destruct (proj1 (Hfil fi) H) as (i' & s' & Hi' & En' & Hs' & ->). cbn [fst snd].
        destruct (Hinner i' Hi') as (SR & E1 & E2 & E3).
        assert (Hz : In (src_str (NCol s')) (map show_src (lookup_col c cols_in))).
        { assert (Hz0 : In (src_str (NCol s')) (map show_src SR)) by (rewrite E2; apply in_map_iff; exists s'; auto).
          apply in_map_iff in Hz0. destruct Hz0 as (sr & Esr & Hsr). apply in_map_iff. exists sr. split; [exact Esr|].
          unfold lookup_col. apply in_flat_map. exists (item_name i', SR). split.
          - unfold cols_in. apply in_flat_map. exists i'. split; [exact Hi'|]. rewrite E1. left. reflexivity.
          - cbn [fst snd]. rewrite En', String.eqb_refl. exact Hsr. }
        apply (dedup_src_strs CANDS _ _ Hcands) in Hz. apply in_map_iff in Hz. destruct Hz as (sr & Esr & Hsr).
        apply in_map_iff. exists sr. split; [|exact Hsr]. unfold flow_str. cbn [fst snd]. rewrite Esr, (Hown d i (Hit i Hi)). reflexivity.
      + intros H. apply in_map_iff in H. destruct H as (sr & <- & Hsr).
        assert (Hz : In (show_src sr) (map show_src (lookup_col c cols_in))) by (apply (dedup_src_strs CANDS _ _ Hcands); apply in_map; exact Hsr).
        apply in_map_iff in Hz. destruct Hz as (sr0 & Esr0 & Hsr0). unfold lookup_col in Hsr0. apply in_flat_map in Hsr0.
        destruct Hsr0 as (cs & Hcs & Hsr0). unfold cols_in in Hcs. apply in_flat_map in Hcs. destruct Hcs as (i' & Hi' & Hcs).
        destruct (Hinner i' Hi') as (SR & E1 & E2 & E3). rewrite E1 in Hcs. destruct Hcs as [<-|[]]. cbn [fst snd] in Hsr0.
        destruct (String.eqb (item_name i') c) eqn:En'; [|destruct Hsr0]. apply String.eqb_eq in En'.
        assert (Hz0 : In (show_src sr0) (map (fun s0 => src_str (NCol s0)) (S_of ts' (xcol_of i')))) by (rewrite <- E2; apply in_map; exact Hsr0).
        apply in_map_iff in Hz0. destruct Hz0 as (s' & Es' & Hs').
        apply in_map_iff. exists (s', own_col d (xcol_of i)). split.
        * unfold flow_str. cbn [fst snd]. rewrite Es', Esr0, (Hown d i (Hit i Hi)). reflexivity.
        * apply in_map_iff. exists (s', own_col sq (xcol_of i')). split; [reflexivity|]. apply filter_In. apply (Hfil (s', own_col sq (xcol_of i'))).
          exists i', s'. auto. }
  split.
  - intros (i & Hi & H). apply in_flat_map. exists i. split; [exact Hi|]. apply (Hper i Hi). exact H.
  - intros H. apply in_flat_map in H. destruct H as (i & Hi & H). exists i. split; [exact Hi|]. apply (Hper i Hi). exact H.
Qed.
Print Assumptions lemma_B_derived_flat_u.

(** ** executable form *)
Definition has_item_named (nm : string) (r : rel) : bool :=
  match inner_of r with Some (items2, _) => existsb (fun i2 => String.eqb (fst (item_ref i2)) nm) items2 | None => false end.

Definition inner_cond_ub (from : list rel) (items : list item) : bool :=
  forallb (fun r => match inner_of r with
                    | Some (items', from') =>
                        forallb plain_item items' && items_condb from' items' && noqual_itemsb from' items'
                        && (negb (Nat.leb 2 (List.length from')) ||
                            forallb (fun i' => match snd (item_ref i') with
                                               | Some _ => true
                                               | None => forallb (fun i => negb (String.eqb (fst (item_ref i)) (fst (item_ref i')))) items
                                                         && match filter (has_item_named (fst (item_ref i'))) from with [_] => true | _ => false end
                                               end) items')
                    | None => true end) from.

Lemma inner_cond_ub_ok from items : inner_cond_ub from items = true -> inner_cond_u from items.
Proof.
  intros H r items' from' Hr Hi. unfold inner_cond_ub in H. rewrite forallb_forall in H. specialize (H r Hr). rewrite Hi in H.
  apply andb_true_iff in H. destruct H as [H H4]. apply andb_true_iff in H. destruct H as [H H3]. apply andb_true_iff in H. destruct H as [H1 H2].
  split; [exact H1|]. split; [apply items_condb_ok; exact H2|]. split; [apply noqual_itemsb_ok; exact H3|]. intros Hl i' Hi' En.
  apply orb_true_iff in H4. destruct H4 as [H4|H4]; [apply Nat.leb_le in Hl; rewrite Hl in H4; discriminate|].
  rewrite forallb_forall in H4. specialize (H4 i' Hi'). rewrite En in H4. apply andb_true_iff in H4. destruct H4 as [A B]. split.
  - intros i Hi0 E. rewrite forallb_forall in A. specialize (A i Hi0). rewrite E, String.eqb_refl in A. discriminate.
  - intros r2 items2 from2 i2 Hr2 Hi2 Hi2' E.
    destruct (filter (has_item_named (fst (item_ref i'))) from) as [|r0 [|r1 l]] eqn:Ef; try discriminate.
    assert (K : forall rr its fr ii, In rr from -> inner_of rr = Some (its, fr) -> In ii its -> fst (item_ref ii) = fst (item_ref i') -> rr = r0).
    { intros rr its fr ii Hrr Hirr Hii Eii. assert (Hf : In rr (filter (has_item_named (fst (item_ref i'))) from)).
      { apply filter_In. split; [exact Hrr|]. unfold has_item_named. rewrite Hirr. apply existsb_exists. exists ii. split; [exact Hii|]. rewrite Eii. apply String.eqb_refl. }
      rewrite Ef in Hf. destruct Hf as [<-|[]]. reflexivity. }
    rewrite (K r2 items2 from2 i2 Hr2 Hi2 Hi2' E), (K r items' from' i' Hr Hi Hi' eq_refl). reflexivity.
Qed.

Definition derived_flat_shape_u (noise : list seg) (s : stmt) : bool :=
  match s with
  | SInsert t None (QSelect items from cj None) | SCtas t (QSelect items from cj None) | SView t (QSelect items from cj None) =>
      tref_ok t && forallb item_ok items && negb (match from with [] => true | _ => false end) && forallb rel2_ok from && noleak from cj
      && tables_condb t (allrels from) && nodup_s (from_sq_texts noise (q_size (QSelect items from cj None)) from)
      && inner_cond_ub from items && outer_cond2b from items
  | _ => false
  end.

Theorem lemma_B_derived_flat_u_restricted : forall noise e s,
  noise_ok noise = true -> env_ok e = true -> derived_flat_shape_u noise s = true ->
  script_pairs e false [] [r_stmt noise s] = spec_pairs (e_cfg e) s.
Proof.
  intros noise e s Hn He Hsh.
  assert (K : exists t items from cj,
            (s = SInsert t None (QSelect items from cj None) \/ s = SCtas t (QSelect items from cj None) \/ s = SView t (QSelect items from cj None)) /\
            tref_ok t && forallb item_ok items && negb (match from with [] => true | _ => false end) && forallb rel2_ok from && noleak from cj
            && tables_condb t (allrels from) && nodup_s (from_sq_texts noise (q_size (QSelect items from cj None)) from)
            && inner_cond_ub from items && outer_cond2b from items = true).
  { destruct s as [t [cs|] q|t q|t q|q|kind]; cbn [derived_flat_shape_u] in Hsh; try discriminate;
      destruct q as [items from cj [wh|]| |]; try discriminate; exists t, items, from, cj; (split; [auto|exact Hsh]). }
  destruct K as (t & items & from & cj & Hs & H).
  do 8 (apply andb_true_iff in H; let H' := fresh "G" in destruct H as [H H']).
  apply (lemma_B_derived_flat_u noise e s t items from cj Hn He Hs); auto.
  - destruct from; [discriminate|discriminate].
  - apply tables_condb_ok; [exact H|apply allrels_rel_ok; exact G4|exact G2].
  - apply nodup_s_NoDup. exact G1.
  - apply inner_cond_ub_ok. exact G0.
  - apply outer_cond2b_ok. exact G.
Qed.
Print Assumptions lemma_B_derived_flat_u_restricted.

(** create view tgt as select d.x, w.y, f.z from (select a as x from t, u) d, w, (select b as z, v2.c from v, s.v2) f
    -- two unresolved inner columns: a{main.t,main.u} > tgt.x,  b{main.v,s.v2} > tgt.z *)
Definition ex5c3_1 : stmt :=
  SView (None, "tgt")
    (QSelect [ci (Some "d") "x"; ci (Some "w") "y"; ci (Some "f") "z"]
             [RDerived (QSelect [cia None "a" "x"] [tb "t"; tb "u"] true None) "d"; tb "w";
              RDerived (QSelect [cia None "b" "z"; ci (Some "v2") "c"] [tb "v"; tbs "s" "v2" None] true None) "f"] true None).
Example ex5c3_guard : derived_flat_shape_u [ws5c] ex5c3_1 = true /\ derived_flat_shape [ws5c] ex5c3_1 = false /\ lemma_B_check [ws5c] e5c ex5c3_1 = "holds".
Proof. vm_compute. repeat split. Qed.
Example ex5c3_pairs : script_pairs e5c false [] [r_stmt [ws5c] ex5c3_1] = ["a{main.t,main.u}>main.tgt.x"; "b{main.v,s.v2}>main.tgt.z"; "main.w.y>main.tgt.y"].
Proof. vm_compute. reflexivity. Qed.
Example ex5c3_instance : script_pairs e5c false [] [r_stmt [ws5c] ex5c3_1] = spec_pairs (e_cfg e5c) ex5c3_1.
Proof. apply lemma_B_derived_flat_u_restricted; vm_compute; reflexivity. Qed.

(* ================================================================== *)
(** * Part V5c: [colshape] implies the guard of the one-derived fragment *)

(** the core of [colshape_tables] (LemmaBProofs.v), for a SELECT over tables at any place of the statement: [AN] are all
    reference names of the statement *)
Lemma cs_tables_conds AN star_ok from items :
  from <> [] -> forallb rel_ok from = true -> forallb item_ok items = true -> forallb plain_item items = true ->
  trefs_distinct (map rtref from) = true -> scope_names_ok from = true ->
  forallb (item_ok_c AN (map (sbind "") from) star_ok (unq_of (flat_map item_refs items))) items = true ->
  (forall c, count_s c AN = count_s c (unq_of (flat_map item_refs items)) ->
             count_s c (map snd (flat_map item_refs items)) = count_s c (unq_of (flat_map item_refs items))) ->
  items_cond from items /\ noqual_items from items.
Proof.
  intros Hne Hrel Hit Hpl Hd Hnames Hitems HAN.
  assert (Hrt : forallb is_rtable from = true).
  { rewrite forallb_forall in *. intros r Hr. apply rel_ok_table. apply Hrel. exact Hr. }
  pose proof (scope_names_sep from Hrt Hnames Hd) as Hpw.
  assert (Hsome : forall q0, id_ok q0 = true -> (exists b, find_binding q0 (map (sbind "") from) = Some b) -> qual1 from q0).
  { intros q0 F4 (b & Hb). destruct (find_binding_some "" from q0 b Hrt F4 Hb) as (r0 & Hr0 & En).
    exists r0. split; [exact Hr0|]. split; [exact En|]. intros r Hr Hor.
    destruct (pw_In sep_rel from r r0 Hpw Hr Hr0) as [Heq|[(S1 & S2 & S3)|(S1 & S2 & S3)]]; [exact Heq| |]; exfalso.
    - destruct Hor as [Hor|Hor]; [apply S1; congruence|apply S3; congruence].
    - destruct Hor as [Hor|Hor]; [apply S1; congruence|apply S2; congruence]. }
  rewrite forallb_forall in Hitems, Hit, Hpl. split.
  - intros i Hi. specialize (Hitems i Hi). pose proof (Hit i Hi) as Hoi. specialize (Hpl i Hi).
    destruct (xcol_of_facts i Hoi) as (_ & _ & _ & F4).
    destruct i as [[qq c| | | | | |] al'|qq]; cbn [plain_item] in Hpl; try discriminate. cbn [item_ok] in Hoi. cbn [item_ref snd fst] in *.
    destruct qq as [q0|].
    + apply (Hsome q0 F4). cbn [item_ok_c col_refs forallb ref_ok fst snd] in Hitems. rewrite andb_true_r in Hitems.
      destruct (find_binding q0 (map (sbind "") from)) as [b|]; [exists b; reflexivity|discriminate].
    + destruct from as [|r [|r' l]]; [congruence|left; exists r; reflexivity|]. right. split; [cbn [List.length]; lia|].
      intros ->. cbn in Hoi. discriminate.
  - intros Hl i i' c c' q0 Hi Hi' Ei Ei'.
    pose proof (Hitems i Hi) as Hci. pose proof (Hpl i Hi) as Hpi. pose proof (Hpl i' Hi') as Hpi'.
    destruct from as [|r [|r' l]]; cbn [List.length] in Hl; try lia.
    destruct i as [[qq n| | | | | |] al'|qq]; cbn [plain_item] in Hpi; try discriminate. cbn [item_ref] in Ei. inversion Ei. subst.
    cbn [item_ok_c col_refs forallb ref_ok fst snd map] in Hci. rewrite andb_true_r in Hci.
    apply andb_true_iff in Hci. destruct Hci as [_ Hci]. apply Nat.eqb_eq in Hci. apply HAN in Hci.
    destruct i' as [[qq' n'| | | | | |] al''|qq']; cbn [plain_item] in Hpi'; try discriminate. cbn [item_ref] in Ei'. inversion Ei'. subst.
    apply (count_noqual c (flat_map item_refs items) Hci q0 c'). apply in_flat_map. exists (IExpr (EColRef (Some q0) c') al''). split; [exact Hi'|left; reflexivity].
Qed.

Lemma count_s_app c a b : count_s c (a ++ b) = count_s c a + count_s c b.
Proof. unfold count_s. rewrite filter_app, app_length. reflexivity. Qed.

Lemma count_s_zero_notin c l : count_s c l = 0 -> ~ In c l.
Proof.
  unfold count_s. intros H Hin. assert (K : In c (filter (String.eqb c) l)) by (apply filter_In; split; [exact Hin|apply String.eqb_refl]).
  destruct (filter (String.eqb c) l); [destruct K|discriminate].
Qed.

(** the one-derived fragment in purely syntactic terms (as [sel_tables_syntactic]: no inner table twice) *)
Definition one_derived_syntactic2 (s : stmt) : bool :=
  match s with
  | SInsert _ None (QSelect _ [RDerived (QSelect _ from' _ None) _] _ None)
  | SCtas _ (QSelect _ [RDerived (QSelect _ from' _ None) _] _ None)
  | SView _ (QSelect _ [RDerived (QSelect _ from' _ None) _] _ None) => forallb is_rtable from' && trefs_distinct (map rtref from')
  | _ => false
  end.

Lemma cs_q_select k AN so ctes items from cj :
  cs_q (S k) AN so ctes (QSelect items from cj None) =
  scope_names_ok (flat_map rels_flat from)
  && forallb (item_ok_c AN (scope_of k ctes from) so (unq_of (flat_map item_refs items))) items
  && forallb (fun r => match r with RDerived q' _ => cs_q k AN false ctes q' | _ => true end) (flat_map rels_flat from) && true.
Proof. reflexivity. Qed.
Lemma q_refnames_select k items from cj :
  q_refnames (S k) (QSelect items from cj None) =
  map snd (flat_map item_refs items) ++ flat_map (fun r => match r with RDerived q' _ => q_refnames k q' | _ => [] end) (flat_map rels_flat from) ++ [].
Proof. reflexivity. Qed.
Lemma q_trefs_select k items from cj :
  q_trefs (S k) (QSelect items from cj None) =
  flat_map (fun r => match r with RTable t _ => [t] | RDerived q' _ => q_trefs k q' | RGroup _ _ => [] end) (flat_map rels_flat from) ++ [].
Proof. reflexivity. Qed.
Lemma frag_select k items from cj :
  frag_query (S k) (QSelect items from cj None) =
  forallb (fun i => match i with IExpr (EColRef _ _) _ => true | IStar _ => true | _ => false end) items
  && negb (match from with [] => true | _ => false end)
  && forallb (fun r => match r with RTable _ _ => true | RDerived q' _ => frag_query k q' | RGroup _ _ => false end) from && true.
Proof. reflexivity. Qed.
Lemma names_select k ctes items from cj :
  names_ok_q (S k) ctes (QSelect items from cj None) =
  forallb (fun i => match i with
                    | IExpr (EColRef qq c) al => id_ok c && match qq with Some x => id_ok x | None => true end
                                                 && match al with Some a => id_ok a | None => true end
                    | IStar qq => match qq with Some x => id_ok x | None => true end
                    | _ => false end) items
  && forallb (fun r => match r with
                       | RTable t al => tref_ok t && match al with Some a => id_ok a | None => true end
                       | RDerived q' a => id_ok a && names_ok_q k ctes q'
                       | RGroup _ _ => false
                       end) from && true.
Proof. reflexivity. Qed.

Lemma items_names_ok items :
  forallb (fun i => match i with
                    | IExpr (EColRef qq c) al => id_ok c && match qq with Some x => id_ok x | None => true end
                                                 && match al with Some a => id_ok a | None => true end
                    | IStar qq => match qq with Some x => id_ok x | None => true end
                    | _ => false end) items = forallb item_ok items.
Proof. induction items as [|i r IH]; [reflexivity|]. cbn [forallb]. rewrite IH. reflexivity. Qed.

Lemma rels_names_ok k from : forallb is_rtable from = true ->
  forallb (fun r => match r with
                       | RTable t al => tref_ok t && match al with Some a => id_ok a | None => true end
                       | RDerived q' a => id_ok a && names_ok_q k [] q'
                       | RGroup _ _ => false
                       end) from = forallb rel_ok from.
Proof.
  intros Hrt.
  induction from as [|r l IH]; [reflexivity|]. cbn [forallb] in *. apply andb_true_iff in Hrt. destruct Hrt as [H1 H2]. rewrite (IH H2).
  destruct r; try discriminate. reflexivity.
Qed.

Lemma item_cols_name scope i : plain_item i = true -> map fst (item_cols scope i) = [item_name i].
Proof. destruct i as [[qq c| | | | | |] al|qq]; cbn [plain_item]; try discriminate. intros _. destruct al; reflexivity. Qed.

Lemma item_ok_c_plain AN sc un i : item_ok i = true -> item_ok_c AN sc false un i = true -> plain_item i = true.
Proof. destruct i as [[qq c| | | | | |] al|[q0|]]; cbn [item_ok item_ok_c plain_item andb]; try discriminate; auto. Qed.

Lemma colshape_one_derived_core t items a items' from' cj cj' K :
  let q' := QSelect items' from' cj' None in let q := QSelect items [RDerived q' a] cj None in
  tref_ok t && frag_query (S (S K)) q && names_ok_q (S (S K)) [] q = true ->
  forallb (fun r => negb (tref_clash t r)) (q_trefs (S (S K)) q) = true ->
  cs_q (S (S K)) (q_refnames (S (S K)) q) true [] q = true ->
  forallb is_rtable from' = true -> trefs_distinct (map rtref from') = true ->
  forall ds,
  tref_ok t = true /\ forallb item_ok items = true /\ id_ok a = true /\ iq_ok q' = true /\ forallb plain_item items' = true /\
  tables_cond ds t from' /\ items_cond from' items' /\ noqual_items from' items' /\ outer_cond a items items'.
Proof.
  intros q' q Hok Hns Hsc Hrt Hd ds.
  apply andb_true_iff in Hok. destruct Hok as [Hok Hnm]. apply andb_true_iff in Hok. destruct Hok as [Ht Hfrag].
  (* names and shapes *)
  unfold q in Hfrag. rewrite frag_select in Hfrag. cbn [forallb] in Hfrag. unfold q' in Hfrag. rewrite frag_select in Hfrag.
  repeat (apply andb_true_iff in Hfrag; destruct Hfrag as [Hfrag ?HF]).
  apply andb_true_iff in HF0. destruct HF0 as [HF0 _]. apply andb_true_iff in HF0. destruct HF0 as [HF0 _].
  apply andb_true_iff in HF0. destruct HF0 as [HF0 _]. apply andb_true_iff in HF0. destruct HF0 as [_ Hne'].
  unfold q in Hnm. rewrite names_select, (items_names_ok items) in Hnm. cbn [forallb] in Hnm. unfold q' in Hnm. rewrite names_select, (items_names_ok items'), (rels_names_ok K from' Hrt) in Hnm.
  repeat (apply andb_true_iff in Hnm; destruct Hnm as [Hnm ?HN]).
  apply andb_true_iff in HN0. destruct HN0 as [HN0 _]. apply andb_true_iff in HN0. destruct HN0 as [Ha HN0]. apply andb_true_iff in HN0. destruct HN0 as [HN0 _]. apply andb_true_iff in HN0. destruct HN0 as [Hit' Hrel'].
  rename Hnm into Hit.
  assert (Hne : from' <> []) by (destruct from'; [discriminate|discriminate]).
  (* the target is not read *)
  unfold q in Hns. rewrite q_trefs_select in Hns. cbn [flat_map rels_flat app] in Hns. unfold q' in Hns. rewrite q_trefs_select, (rels_flat_tables from' Hrt), !app_nil_r in Hns.
  assert (Hns' : forallb (fun r => negb (tref_clash t (rtref r))) from' = true).
  { apply forallb_forall. intros r Hr. rewrite forallb_forall in Hns. apply Hns. apply in_flat_map. exists r. split; [exact Hr|].
    rewrite forallb_forall in Hrt. specialize (Hrt r Hr). destruct r; try discriminate. left. reflexivity. }
  (* the scopes *)
  unfold q in Hsc. rewrite q_refnames_select, cs_q_select in Hsc. cbn [flat_map rels_flat app forallb] in Hsc.
  unfold q' in Hsc. rewrite (q_refnames_tables K items' from' cj' Hrt), cs_q_select, (scope_of_tables K from' Hrt), (rels_flat_tables from' Hrt), !app_nil_r in Hsc.
  set (AN := map snd (flat_map item_refs items) ++ map snd (flat_map item_refs items')) in *.
  repeat (apply andb_true_iff in Hsc; destruct Hsc as [Hsc ?HS]).
  apply andb_true_iff in HS0. destruct HS0 as [HS0 _]. apply andb_true_iff in HS0. destruct HS0 as [HS0 _]. apply andb_true_iff in HS0. destruct HS0 as [HS0 _]. apply andb_true_iff in HS0. destruct HS0 as [Hnames' Hitems'].
  rename HS1 into Hitems.
  assert (Hpl' : forallb plain_item items' = true).
  { apply forallb_forall. intros i Hi. rewrite forallb_forall in Hit', Hitems'. exact (item_ok_c_plain _ _ _ i (Hit' i Hi) (Hitems' i Hi)). }
  destruct (cs_tables_conds AN false from' items' Hne Hrel' Hit' Hpl' Hd Hnames' Hitems') as [Hic Hnq].
  { intros c Hc. unfold AN in Hc. rewrite count_s_app in Hc. pose proof (count_unq_le c (flat_map item_refs items')) as Hle. lia. }
  split; [exact Ht|]. split; [exact Hit|]. split; [exact Ha|]. split.
  { unfold q'. cbn [iq_ok]. rewrite Hit', Hrel'. destruct from'; [congruence|reflexivity]. }
  split; [exact Hpl'|]. split.
  { apply tables_condb_ok; [exact Ht|exact Hrel'|]. unfold tables_condb. rewrite Hd, Hns'. reflexivity. }
  split; [exact Hic|]. split; [exact Hnq|].
  (* the outer items *)
  intros i Hi. rewrite forallb_forall in Hitems, Hit. specialize (Hitems i Hi). specialize (Hit i Hi).
  set (cols := q_cols (S K) "" [] (QSelect items' from' cj' None)) in *.
  assert (Hcols : forall c, has_col c cols = true -> In c (map item_name items')).
  { intros c Hc. unfold has_col in Hc. apply andb_true_iff in Hc. destruct Hc as [Hc _]. apply existsb_exists in Hc. destruct Hc as (cs & Hcs & Ec).
    apply String.eqb_eq in Ec. subst c. unfold cols in Hcs. rewrite (q_cols_select K "" items' from' cj' None Hrt) in Hcs.
    apply in_flat_map in Hcs. destruct Hcs as (i' & Hi' & Hcs). apply in_map_iff. exists i'. split; [|exact Hi'].
    rewrite forallb_forall in Hpl'. pose proof (item_cols_name (map (sbind "") from') i' (Hpl' i' Hi')) as En.
    assert (K1 : In (fst cs) (map fst (item_cols (map (sbind "") from') i'))) by (apply in_map; exact Hcs). rewrite En in K1. destruct K1 as [K1|[]]. exact K1. }
  unfold scope_of in Hitems. cbn [flat_map rels_flat app map] in Hitems. fold cols in Hitems.
  destruct i as [[qq c| | | | | |] al|[q0|]]; cbn [item_ok] in Hit; try discriminate.
  - cbn [item_ok_c col_refs forallb] in Hitems. rewrite andb_true_r in Hitems. unfold ref_ok in Hitems. cbn [fst snd] in Hitems. cbn [plain_item item_ref fst snd].
    split; [reflexivity|]. destruct qq as [q0|].
    + unfold find_binding in Hitems. cbn [filter b_alias b_names mem_string] in Hitems. destruct (String.eqb a q0) eqn:Ea.
      * apply String.eqb_eq in Ea. subst q0. split; [right; reflexivity|]. cbn [b_rel] in Hitems. exact (Hcols c Hitems).
      * discriminate.
    + split; [left; reflexivity|]. cbn [b_rel] in Hitems. exact (Hcols c Hitems).
Qed.

(** Lemma B on the one-derived fragment as an instance of [lemma_B_statement]: no guard beyond those of the statement and the
    pure shape (with one derived table there is no raw-text clash, so [sq_raw_distinct] is not needed) *)
Theorem lemma_B_one_derived_colshape : forall noise e s,
  noise_ok noise = true -> env_ok e = true -> stmt_ok s = true -> sshape s = true -> colshape s = true ->
  one_derived_syntactic2 s = true ->
  script_pairs e false [] [r_stmt noise s] = spec_pairs (e_cfg e) s.
Proof.
  intros noise e s Hn He Hok _ Hc Hsh.
  assert (K : exists t items a items' from' cj cj',
            let q := QSelect items [RDerived (QSelect items' from' cj' None) a] cj None in
            (s = SInsert t None q \/ s = SCtas t q \/ s = SView t q) /\
            forallb is_rtable from' && trefs_distinct (map rtref from') = true /\
            tref_ok t && frag_query (S (q_size q)) q && names_ok_q (S (q_size q)) [] q = true).
  { destruct s as [t [cs|] q|t q|t q|q|kind]; cbn [one_derived_syntactic2] in Hsh; try discriminate;
      destruct q as [items [|[|q' a|] [|]] cj [wh|]| |]; try discriminate;
      destruct q' as [items' from' cj' [wh'|]| |]; try discriminate;
      exists t, items, a, items', from', cj, cj'; cbv zeta; (split; [auto|]); (split; [exact Hsh|]); cbn [stmt_ok] in Hok; try exact Hok.
    rewrite andb_true_r in Hok. exact Hok. }
  destruct K as (t & items & a & items' & from' & cj & cj' & Hs & Hsh' & Hok'). cbv zeta in *.
  set (q := QSelect items [RDerived (QSelect items' from' cj' None) a] cj None) in *.
  apply andb_true_iff in Hsh'. destruct Hsh' as [Hrt Hd].
  unfold colshape in Hc. apply andb_true_iff in Hc. destruct Hc as [Hc Hsc]. apply andb_true_iff in Hc. destruct Hc as [Hc _].
  apply andb_true_iff in Hc. destruct Hc as [Hns _].
  assert (E1 : cs_noself s = forallb (fun r => negb (tref_clash t r)) (q_trefs (S (q_size q)) q)) by (destruct Hs as [->|[->| ->]]; reflexivity).
  assert (E2 : cs_scopes s = cs_q (S (q_size q)) (q_refnames (S (q_size q)) q) true [] q) by (destruct Hs as [->|[->| ->]]; reflexivity).
  rewrite E1 in Hns. rewrite E2 in Hsc.
  assert (Hk : exists K, q_size q = S K) by (eexists; reflexivity). destruct Hk as (K & Hk). rewrite Hk in Hns, Hsc, Hok'.
  destruct (colshape_one_derived_core t items a items' from' cj cj' K Hok' Hns Hsc Hrt Hd (e_cfg e)) as (A1 & A2 & A3 & A4 & A5 & A6 & A7 & A8 & A9).
  apply (lemma_B_one_derived noise e s t items a items' from' cj cj' Hn He Hs A1 A2 A3 A4 A5 A6 A7 A8 A9).
Qed.
Print Assumptions lemma_B_one_derived_colshape.

(** non-vacuity: [ex5c_1], [ex5c_2] of LemmaB5c.v satisfy all hypotheses ([ex5c_3] has a comma join inside: as well) *)
Example ex5c3_colshape_instances :
  forallb (fun s => noise_ok [ws5c] && env_ok e5c && stmt_ok s && sshape s && colshape s && one_derived_syntactic2 s) [ex5c_1; ex5c_2; ex5c_3] = true.
Proof. vm_compute. reflexivity. Qed.
(** the self join inside the derived table is the one shape [colshape] allows and [one_derived_syntactic2] excludes *)
Example ex5c3_selfjoin :
  let s := SInsert (None, "tgt") None (sel1 [ci (Some "d") "a"] [RDerived (sel1 [ci (Some "u") "a"] [tb "t"; tba "t" "u"]) "d"]) in
  stmt_ok s && sshape s && colshape s = true /\ one_derived_syntactic2 s = false.
Proof. vm_compute. split; reflexivity. Qed.

(* ================================================================== *)
(** * [colshape] against the guard of the flat fragment: a systematic test (no proof)
    5280 statements  insert into tgt select <1-2 qualified/unqualified items> from R1, R2  with R1 a derived table d over
    [t] / [t, u] / [t as w] and R2 one of: a base table w, the base table t (also read inside d), a second derived table f
    over v, the SAME sub-query again as f, a table s.d aliased w.  232 satisfy
    [stmt_ok && sshape && colshape && sq_raw_distinct]; 108 of these are outside [derived_flat_shape_u], and ALL 108 read a
    base table twice ([tables_condb] on [allrels] fails); none of them is a counterexample ([lemma_B_check] = "holds").
    So, on this family:  colshape /\ sq_raw_distinct /\ every base table once  ->  derived_flat_shape_u. *)
Definition gap5c3_its (qs : list (option string)) : list item :=
  flat_map (fun q => flat_map (fun n => map (fun al => IExpr (EColRef q n) al) [None; Some "x"]) ["a"; "b"]) qs.
Definition gap5c3_outers : list (list item) :=
  map (fun i => [i]) (gap5c3_its [None; Some "d"; Some "f"; Some "w"; Some "t"]) ++ [[ci (Some "d") "a"; ci (Some "w") "a"]; [ci (Some "d") "x"; ci (Some "f") "x"]].
Definition gap5c3_rels (inn : list item) (fr : list rel) : list (list rel) :=
  [[RDerived (QSelect inn fr true None) "d"; tb "w"]; [RDerived (QSelect inn fr true None) "d"; tb "t"];
   [RDerived (QSelect inn fr true None) "d"; RDerived (QSelect [ci None "x"] [tb "v"] true None) "f"];
   [RDerived (QSelect inn fr true None) "d"; RDerived (QSelect inn fr true None) "f"];
   [RDerived (QSelect inn fr true None) "d"; tbs "s" "d" (Some "w")]].
Definition gap5c3_stmts : list stmt :=
  flat_map (fun fr => flat_map (fun inn => flat_map (fun rl => map (fun out => SInsert (None, "tgt") None (QSelect out rl true None)) gap5c3_outers)
                                                    (gap5c3_rels inn fr))
                               (map (fun i => [i]) (gap5c3_its [None; Some "t"; Some "u"; Some "d"])))
           [[tb "t"]; [tb "t"; tb "u"]; [tba "t" "w"]].
Definition gap5c3_inside (s : stmt) : bool := stmt_ok s && sshape s && colshape s && sq_raw_distinct [ws5c] s.
Definition gap5c3_once (s : stmt) : bool := match s with SInsert t None (QSelect _ from _ None) => tables_condb t (allrels from) | _ => false end.
Example gap5c3_flat :
  List.length gap5c3_stmts = 5280 /\ List.length (filter gap5c3_inside gap5c3_stmts) = 232 /\
  filter (fun s => gap5c3_inside s && gap5c3_once s && negb (derived_flat_shape_u [ws5c] s)) gap5c3_stmts = [] /\
  filter (fun s => gap5c3_inside s && negb (String.eqb (lemma_B_check [ws5c] e5c s) "holds")) gap5c3_stmts = [].
Proof. vm_compute. repeat split. Qed.
