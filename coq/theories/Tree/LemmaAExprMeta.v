(** Lemma A (tables) for the expression fragment ([r_stmt_x], Tree/LemmaAExpr.v) with an ARBITRARY metadata provider
    (property C13).  Generated from Tree/LemmaAExpr.v: the same proof scripts under [env_ok_md] (Tree/LemmaAMeta.v), with
    [expand_wildcard_any] for the wildcard expansion and the INSERT target re-stated as in LemmaAMeta.v
    ([target_holder_x], [WF_target_x]: the provider's columns of the target are write columns of the target). *)
From Coq Require Import Permutation Lia.
From SV Require Import Tree.Render Tree.RenderExpr Tree.ExprItem Tree.LemmaA Tree.LemmaAProofs Tree.LemmaB Tree.LemmaBProofs
     Tree.LemmaBExpr Tree.LemmaBExpr2 Ident.Escape Ident.EscapeProofs Holder.PathProofs Holder.SortProofs.
From SV Require TriviaProofs.
From SV Require Import Tree.LemmaAMeta.

Module XMd.
(** * the fragment: as [frag_query] / [names_ok_q] / [stmt_ok], any expression as select item *)
Definition item_ok_a (i : item) : bool :=
  match i with
  | IExpr ex al => expr_ok ex && match al with Some a => id_ok a | None => true end
  | IStar qq => match qq with Some x => id_ok x | None => true end
  end.

Fixpoint frag_query_x (fuel : nat) (q : query) : bool :=
  match fuel with
  | O => false
  | S k =>
      match q with
      | QSelect items from _ wh =>
          true
          && negb (match from with [] => true | _ => false end)
          && forallb (fun r => match r with RTable _ _ => true | RDerived q' _ => frag_query_x k q' | RGroup _ _ => false end) from
          && match wh with Some (_, sq) => frag_query_x k sq | None => true end
      | QUnion a b => frag_query_x k a && frag_query_x k b
      | QWith _ c b => frag_query_x k c && frag_query_x k b
      end
  end.

Fixpoint names_ok_q_x (fuel : nat) (ctes : list string) (q : query) : bool :=
  match fuel with
  | O => false
  | S k =>
      match q with
      | QSelect items from _ wh =>
          forallb item_ok_a items
          && forallb (fun r => match r with
                               | RTable t al => tref_ok t && match al with Some a => id_ok a | None => true end
                               | RDerived q' a => id_ok a && names_ok_q_x k ctes q'
                               | RGroup _ _ => false
                               end) from
          && match wh with Some (c, sq) => id_ok c && names_ok_q_x k ctes sq | None => true end
      | QUnion a b => names_ok_q_x k ctes a && names_ok_q_x k ctes b
      | QWith n c b =>
          id_ok n && negb (mem_string n ctes) && names_ok_q_x k ctes c && names_ok_q_x k (n :: ctes) b
          && negb (mem_string (tref_str "" (None, n)) (q_reads (S (q_size c)) "" [] c))
      end
  end.

Definition stmt_ok_a (s : stmt) : bool :=
  match s with
  | SInsert t cols q => tref_ok t && frag_query_x (S (q_size q)) q && names_ok_q_x (S (q_size q)) [] q
                        && match cols with Some cs => forallb id_ok cs | None => true end
  | SCtas t q | SView t q => tref_ok t && frag_query_x (S (q_size q)) q && names_ok_q_x (S (q_size q)) [] q
  | SQuery q => frag_query_x (S (q_size q)) q && names_ok_q_x (S (q_size q)) [] q
  | SNoData _ => true
  end.

Definition items_fuel (items : list item) : nat := fold_right Nat.max 0 (map (fun i => S (item_fuel i)) items).

Lemma items_fuel_le items i : In i items -> S (item_fuel i) <= items_fuel items.
Proof.
  unfold items_fuel. induction items as [|a r IH]; intros H; [destruct H|]. cbn [map fold_right]. destruct H as [->|H]; [lia|]. specialize (IH H). lia.
Qed.

Lemma items_fuel_bound items B : (forall i, In i items -> S (item_fuel i) <= B) -> items_fuel items <= B.
Proof.
  unfold items_fuel. induction items as [|a r IH]; intros H; cbn [map fold_right]; [lia|]. pose proof (H a (or_introl eq_refl)).
  specialize (IH (fun i Hi => H i (or_intror Hi))). lia.
Qed.

(** * the item-specific facts *)
Section ItemsA.
Variable noise : list seg.
Hypothesis Hnoise : noise_ok noise = true.
Variable e : env.

Lemma xcol_ok_srcs name srcs fa :
  (forall c q, In (c, Some q) srcs -> id_ok q = true) -> xcol_ok (mk_xcol name srcs fa).
Proof.
  intros H. split; [reflexivity|]. intros c q Hin. cbn [mk_xcol xsrc] in Hin. apply in_map_iff in Hin. destruct Hin as ([c0 q0] & E & Hin).
  unfold esc_src in E. cbn [fst snd] in E. inversion E. destruct q0 as [x|]; [|discriminate]. cbn [option_map] in H2. inversion H2.
  rewrite (id_ok_escape x (H c0 x Hin)). apply id_ok_count. exact (H c0 x Hin).
Qed.

Lemma ops_srcs_ok ex : expr_ok ex = true -> forall c q, In (c, Some q) (ops_srcs ex) -> id_ok q = true.
Proof.
  intros Hex c q Hin. apply ops_srcs_set in Hin. apply in_map_iff in Hin. destruct Hin as (r & E & Hr).
  destruct (expr_ok_refs ex Hex r Hr) as [_ H2]. unfold swap_ref in E. inversion E. subst. rewrite H1 in H2. exact H2.
Qed.

Lemma column_of_seg_item_a f i :
  item_ok_a i = true -> S (item_fuel i) <= f ->
  exists x, column_of_seg (S f) e (r_item_x noise i) = Ok x /\ xcol_ok x.
Proof.
  intros Hok Hf. destruct i as [ex [a|]|qq]; cbn [item_ok_a item_fuel] in *.
  - apply andb_true_iff in Hok. destruct Hok as [Hex Ha].
    rewrite (column_of_seg_expr_exact_gen noise Hnoise e f ex a ltac:(lia) (id_ok_nonempty a Ha)).
    eexists. split; [reflexivity|]. apply xcol_ok_srcs. apply ops_srcs_ok. exact Hex.
  - rewrite andb_true_r in Hok. rewrite (column_of_seg_expr_noalias noise Hnoise e f ex Hf).
    eexists. split; [reflexivity|]. apply xcol_ok_srcs. apply ops_srcs_ok. exact Hok.
  - rewrite (r_item_x_old noise (IStar qq) I). apply (column_of_seg_item noise Hnoise e f (IStar qq)). exact Hok.
Qed.

(** no sub-query below any select item (no hypothesis on the item) *)
Lemma sce_subq_any i : sce_subq (r_item_x noise i) = Ok [].
Proof.
  destruct i as [ex al|qq]; [|reflexivity]. unfold sce_subq, r_item_x.
  set (AL := match al with Some a => [r_alias noise a] | None => [] end).
  assert (EA : forall ts, existsb (fun x => mem_string x ts) ["alias_expression"] = false -> filter (fun x => is_type x ts) AL = []).
  { intros ts H. unfold AL. destruct al as [a|]; [|reflexivity]. cbn [filter]. unfold is_type. cbn [cls r_alias node]. rewrite H. reflexivity. }
  unfold get_child at 1. rewrite (get_children_sep noise Hnoise) by reflexivity. cbn [filter]. rewrite (EA ["expression"] eq_refl).
  destruct (wraps_top ex) eqn:Ew.
  - unfold r_top. rewrite Ew. change (is_type (xnode noise (r_ops noise ex)) ["expression"]) with true. cbn iota.
    destruct (get_child (xnode noise (r_ops noise ex)) ["case_expression"]) as [ce|] eqn:Ece; [|reflexivity].
    assert (Hce : In ce (r_ops noise ex) /\ is_type ce ["case_expression"] = true).
    { unfold get_child, xnode in Ece. rewrite (get_children_sep noise Hnoise) in Ece by reflexivity.
      destruct (filter (fun x => is_type x ["case_expression"]) (r_ops noise ex)) as [|y r] eqn:Ef; [discriminate|]. inversion Ece. subst y.
      assert (Hy : In ce (filter (fun x => is_type x ["case_expression"]) (r_ops noise ex))) by (rewrite Ef; left; reflexivity).
      apply filter_In in Hy. exact Hy. }
    destruct Hce as [Hin Hty]. pose proof (ops_types noise ex) as Ho. rewrite Forall_forall in Ho.
    destruct (proj2 (proj2 (Ho ce Hin)) Hty) as (c & t & f & ->).
    unfold case_node at 1. rewrite (get_children_sep noise Hnoise) by reflexivity.
    change (filter _ [kw "case"; when_node noise (r_ops noise c) (xnode noise (r_ops noise t)); else_node noise (xnode noise (r_ops noise f)); kw "end"])
      with [when_node noise (r_ops noise c) (xnode noise (r_ops noise t))].
    cbn [map concat_res]. destruct (les_when noise Hnoise (r_ops noise c) (r_ops noise t)) as [E1 E2]. rewrite E1, E2, (gc_xnode_brk noise Hnoise).
    assert (E3 : get_children (xnode noise (r_ops noise c ++ [cmp_gt; num "0"])) ["bracketed"] = []).
    { unfold xnode. rewrite (get_children_sep noise Hnoise) by reflexivity. rewrite filter_app. rewrite (filter_ops_none noise) by (intros x Hx; apply Hx). reflexivity. }
    rewrite E3. reflexivity.
  - assert (Et : is_type (r_top noise ex) ["expression"] = false) by (destruct ex; try discriminate; reflexivity).
    rewrite Et. unfold get_child. rewrite (get_children_sep noise Hnoise) by reflexivity. cbn [filter]. rewrite (EA ["function"] eq_refl).
    destruct (is_type (r_top noise ex) ["function"]) eqn:Ef; [|reflexivity].
    rewrite (filter_res_false is_subquery); [reflexivity|].
    pose proof (crawl_not_subq noise Hnoise ex) as Hc.
    destruct ex as [q c| |a b|a b|c t g|a|a p o]; try discriminate; cbn [r_ops flat_map] in Hc; rewrite app_nil_r in Hc; exact Hc.
Qed.

(** no segment of the types [ts] below a select item, when [ts] avoids the types of the expression layout *)
Definition ITEM_TYPES :=
  ["select_clause_element"; "column_reference"; "object_reference"; "identifier"; "naked_identifier"; "raw"; "dot"; "symbol";
   "alias_expression"; "alias_operator"; "keyword"; "word"; "literal"; "numeric_literal"; "wildcard_expression"; "wildcard_identifier"; "star";
   "expression"; "function"; "function_name"; "function_name_identifier"; "function_contents"; "bracketed"; "start_bracket"; "end_bracket";
   "comma"; "binary_operator"; "comparison_operator"; "raw_comparison_operator"; "case_expression"; "when_clause"; "else_clause";
   "data_type"; "data_type_identifier"; "over_clause"; "window_specification"; "partitionby_clause"; "orderby_clause"].

Lemma avoid_sub ts big c :
  existsb (fun x => mem_string x ts) big = false -> forallb (fun x => mem_string x big) c = true ->
  existsb (fun x => mem_string x ts) c = false.
Proof.
  intros H Hc. apply existsb_none. intros x Hx. rewrite forallb_forall in Hc. specialize (Hc x Hx). apply mem_string_In in Hc.
  destruct (mem_string x ts) eqn:E; [|reflexivity]. exfalso.
  assert (K : existsb (fun x => mem_string x ts) big = true) by (apply existsb_exists; exists x; auto). congruence.
Qed.

Ltac cl H Hts :=
  repeat first [ assumption
               | apply (clean_sep_node noise Hnoise); [exact Hts|apply (avoid_sub _ _ _ H); reflexivity|]
               | apply clean_node; [apply (avoid_sub _ _ _ H); reflexivity|]
               | apply clean_leaf; apply (avoid_sub _ _ _ H); reflexivity
               | apply Forall_cons | apply Forall_nil | apply Forall_app; split | assumption ].

Lemma clean_ops ts ex :
  not_trivia ts = true -> existsb (fun x => mem_string x ts) ITEM_TYPES = false -> Forall (LemmaAProofs.clean ts) (r_ops noise ex).
Proof.
  intros Hts H.
  assert (Hcr : forall q c, LemmaAProofs.clean ts (r_colref q c)).
  { intros q c. unfold r_colref. destruct q; cl H Hts. }
  induction ex as [q c| |a IHa b IHb|a IHa b IHb|c IHc t IHt f IHf|a IHa|a IHa p IHp o IHo]; cbn [r_ops].
  - constructor; [apply Hcr|constructor].
  - cl H Hts.
  - unfold func, fcontents, brk, xnode, fname, wordleaf. cbn [app]. cl H Hts.
  - apply Forall_app. split; [exact IHa|]. constructor; [cl H Hts|exact IHb].
  - unfold case_node, when_node, else_node, xnode, cmp_gt. cl H Hts.
  - unfold func, fcontents, brk, xnode, fname, wordleaf, dt_int. cbn [app]. cl H Hts.
  - assert (Ho : LemmaAProofs.clean ts (if is_atom o then hd1 (r_ops noise o) else xnode noise (r_ops noise o))).
    { destruct o as [q c| | | | | |]; cbn [is_atom]; [apply Hcr|cbn [r_ops hd1 hd]; cl H Hts| | | | |]; unfold xnode; cl H Hts. }
    unfold func, fcontents, brk, xnode, fname, wordleaf, over_node, winspec, part_node, ord_node. cbn [app]. cl H Hts.
Qed.

Lemma clean_item_a ts i :
  not_trivia ts = true -> existsb (fun x => mem_string x ts) ITEM_TYPES = false -> LemmaAProofs.clean ts (r_item_x noise i).
Proof.
  intros Hts H. destruct i as [ex al|qq].
  - pose proof (clean_ops ts ex Hts H) as Ho.
    assert (Htop : LemmaAProofs.clean ts (r_top noise ex)).
    { unfold r_top. destruct (wraps_top ex) eqn:Ew; [unfold xnode; cl H Hts|]. destruct ex; cbn [r_ops wraps_top hd1 hd] in *; try discriminate;
        inversion Ho; assumption. }
    assert (Hal : forall a, LemmaAProofs.clean ts (r_alias noise a)).
    { intros a. apply (clean_alias noise Hnoise); [exact Hts|]. apply (avoid_sub _ _ _ H). reflexivity. }
    unfold r_item_x. destruct al; cl H Hts; apply Hal.
  - rewrite (r_item_x_old noise (IStar qq) I). apply (clean_item noise Hnoise); [exact Hts|]. apply (avoid_sub _ _ _ H). reflexivity.
Qed.
End ItemsA.

(* ================================================================== *)
(** * Part N (LemmaAProofs.v), for [r_query_x] *)
Section Nav.
Variable noise : list seg.
Hypothesis Hnoise : noise_ok noise = true.

Local Notation noise_in := (noise_in noise Hnoise).
Local Notation filter_sep := (filter_sep noise Hnoise).
Local Notation flat_map_sep := (flat_map_sep noise Hnoise).
Local Notation existsb_sep := (existsb_sep noise Hnoise).
Local Notation In_sep := (In_sep noise).
Local Notation lcs_node := (lcs_node noise Hnoise).
Local Notation get_children_sep := (get_children_sep noise Hnoise).

Definition r_brq (k : nat) (q : query) : seg :=
  node "bracketed" ["bracketed"] (sep noise [lpar; r_query_x noise k q; rpar]).

Definition r_rel (k : nat) (r : rel) : seg :=
  node "from_expression_element" ["from_expression_element"]
       (match r with
        | RTable t al =>
            sep noise (node "table_expression" ["table_expression"] [r_tref t]
                       :: match al with Some a => [r_alias noise a] | None => [] end)
        | RDerived q' a =>
            sep noise [node "table_expression" ["table_expression"] [r_brq k q']; r_alias noise a]
        | RGroup _ _ => []
        end).

Definition r_sc (items : list item) : seg :=
  node "select_clause" ["select_clause"] (sep noise (kw "select" :: intersperse comma (map (r_item_x noise) items))).

Definition r_join (k : nat) (r : rel) : seg :=
  node "join_clause" ["join_clause"] (sep noise [kw "join"; r_rel k r; on_clause noise]).

Definition r_fe1 (k : nat) (r : rel) : seg := node "from_expression" ["from_expression"] [r_rel k r].

Definition r_fej (k : nat) (r0 : rel) (rest : list rel) : seg :=
  node "from_expression" ["from_expression"] (sep noise (r_rel k r0 :: map (r_join k) rest)).

Definition r_fc (k : nat) (from : list rel) (cj : bool) : seg :=
  node "from_clause" ["from_clause"]
       (sep noise (kw "from" ::
                   (if cj then intersperse comma (map (r_fe1 k) from)
                    else match from with [] => [] | r0 :: rest => [r_fej k r0 rest] end))).

Definition r_wh (k : nat) (wh : option (string * query)) : list seg :=
  match wh with
  | Some (c, sq) =>
      [node "where_clause" ["where_clause"]
            (sep noise [kw "where"; node "expression" ["expression"] (sep noise [r_colref None c; kw "in"; r_brq k sq])])]
  | None => []
  end.

Lemma r_query_select k items from cj wh :
  r_query_x noise (S k) (QSelect items from cj wh) =
  node "select_statement" ["select_statement"] (sep noise ([r_sc items; r_fc k from cj] ++ r_wh k wh)).
Proof. destruct wh as [[c sq]|]; reflexivity. Qed.

Lemma r_query_union k a b :
  r_query_x noise (S k) (QUnion a b) =
  node "set_expression" ["set_expression"]
       (sep noise [r_query_x noise k a; node "set_operator" ["set_operator"] (sep noise [kw "union"; kw "all"]); r_query_x noise k b]).
Proof. reflexivity. Qed.

Lemma r_query_with k n c b :
  r_query_x noise (S k) (QWith n c b) =
  node "with_compound_statement" ["with_compound_statement"]
       (sep noise [kw "with";
                   node "common_table_expression" ["common_table_expression"] (sep noise [ident n; kw "as"; r_brq k c]);
                   r_query_x noise k b]).
Proof. reflexivity. Qed.

Variable e : env.
Hypothesis Henv : env_ok_md e = true.

Lemma env_facts :
  True /\ e_vertica e = false /\
  (String.eqb (e_cfg e) "" = true \/ id_ok (e_cfg e) = true) /\ e_icfg e = e_cfg e.
Proof.
  unfold env_ok_md in Henv. apply andb_true_iff in Henv. destruct Henv as [H H4]. apply andb_true_iff in H. destruct H as [H2 H3].
  apply negb_true_iff in H2. apply orb_true_iff in H3. apply String.eqb_eq in H4. auto.
Qed.

Lemma sep_cons x r : sep noise (x :: r) = x :: match r with [] => [] | _ => noise ++ sep noise r end.
Proof. destruct r; reflexivity. Qed.

(** *** table references *)
Definition te_of (t : tref) : seg := node "table_expression" ["table_expression"] [r_tref t].
Definition al_list (al : option string) : list seg := match al with Some a => [r_alias noise a] | None => [] end.

Lemma r_rel_table k t al :
  r_rel k (RTable t al) = node "from_expression_element" ["from_expression_element"] (sep noise (te_of t :: al_list al)).
Proof. reflexivity. Qed.

Lemma fti_some l x :
  fold_left (fun acc c => match acc with Some _ => acc | None => find_table_identifier c end) l (Some x) = Some x.
Proof. induction l as [|a r IH]; [reflexivity|]. cbn [fold_left]. exact IH. Qed.

Lemma fti_te t : find_table_identifier (te_of t) = Some (r_tref t).
Proof. reflexivity. Qed.

Lemma fti_fee_table k t al : find_table_identifier (r_rel k (RTable t al)) = Some (r_tref t).
Proof.
  rewrite r_rel_table, sep_cons. unfold node. cbn [find_table_identifier]. 
  change (ty_in _ _) with false. cbn iota. cbn [fold_left]. rewrite fti_te. apply fti_some.
Qed.

Lemma mk_table_plain name sch al :
  id_ok name = true ->
  exists d, mk_table e name (Some sch) al = Ok d /\ dk d = KTable /\ data_ok d /\ dstr d = (sch ++ "." ++ name)%string.
Proof.
  intros H. unfold mk_table, table_of. rewrite (rsplit_dot_none name (id_ok_count name H)).
  eexists. split; [reflexivity|]. split; [reflexivity|]. split; [reflexivity|].
  cbn [dstr table_str t_schema t_raw]. rewrite (id_ok_escape name H). reflexivity.
Qed.

Lemma default_schema_str : schema_of (e_cfg e) None = if String.eqb (e_cfg e) "" then Spec.placeholder else e_cfg e.
Proof.
  destruct env_facts as (_ & _ & H & _). unfold schema_of. destruct H as [H|H].
  - rewrite H. reflexivity.
  - rewrite (id_ok_nonempty _ H). cbn [negb]. apply id_ok_escape. exact H.
Qed.

Lemma concat_escape_parts parts :
  forallb id_ok parts = true ->
  concat_str (map (fun s => escape (raw s)) (intersperse dot (map ident parts))) = join "." parts.
Proof.
  induction parts as [|a [|b r] IH]; intros H; [reflexivity| |].
  - cbn [forallb] in H. apply andb_true_iff in H. cbn [map intersperse concat_str join raw ident leaf].
    rewrite (id_ok_escape a (proj1 H)). apply append_nil_r.
  - cbn [forallb] in H. apply andb_true_iff in H. destruct H as [Ha H].
    change (intersperse dot (map ident (a :: b :: r))) with (ident a :: dot :: intersperse dot (map ident (b :: r))).
    rewrite join_cons_nonempty, <- (IH H). set (X := intersperse dot (map ident (b :: r))).
    cbn [map concat_str]. cbn [raw ident leaf dot sym]. rewrite (id_ok_escape a Ha). reflexivity.
Qed.

Lemma intersperse_length_pos x (l : list seg) : l <> [] -> exists k, List.length (intersperse x l) = S k.
Proof. destruct l as [|a [|b r]]; [contradiction| |]; intros _; eexists; reflexivity. Qed.

Lemma table_of_seg_dotted L x alias :
  (exists k, List.length L = S k) ->
  table_of_seg e (node "table_reference" ["object_reference"; "table_reference"] (L ++ [dot; x])) alias =
  mk_table e (raw x) (Some (schema_of (e_cfg e) (Some (concat_str (map (fun s => escape (raw s)) L)))))
           (match alias with Some a => if String.eqb a "" then None else Some a | None => None end).
Proof.
  intros [k Hk]. unfold table_of_seg. cbn [children node]. rewrite app_length. cbn [List.length].
  replace (List.length L + 2 - 1) with (List.length L + 1) by lia.
  replace (List.length L + 2 - 2) with (List.length L) by lia.
  replace (Nat.leb 2 (List.length L + 2)) with true by (symmetry; apply Nat.leb_le; lia).
  rewrite firstn_app. replace (List.length L + 1 - List.length L) with 1 by lia.
  rewrite firstn_all2 by lia. cbn [firstn]. rewrite rev_app_distr. cbn [rev app find_dot].
  change (tyis dot "symbol") with true. cbn iota. rewrite Hk.
  unfold nth_res. replace (S (S k)) with (List.length L + 1) by lia.
  rewrite nth_error_app2 by lia. replace (List.length L + 1 - List.length L) with 1 by lia. cbn [nth_error].
  change (match L ++ [dot; x] with [] => [] | a :: l => a :: firstn k l end) with (firstn (S k) (L ++ [dot; x])).
  rewrite <- Hk. rewrite firstn_app. rewrite firstn_all, Nat.sub_diag. cbn [firstn]. rewrite app_nil_r. reflexivity.
Qed.

Lemma table_of_seg_tref t alias :
  tref_ok t = true ->
  exists d, table_of_seg e (r_tref t) alias = Ok d /\ dk d = KTable /\ data_ok d /\ dstr d = tref_str (e_cfg e) t.
Proof.
  destruct t as [[s|] name]; unfold tref_ok; cbn [fst snd]; intros H; apply andb_true_iff in H; destruct H as [Hn Hs].
  - unfold r_tref. cbn [fst snd]. rewrite table_of_seg_dotted.
    + unfold schema_ok in Hs. apply andb_true_iff in Hs. destruct Hs as [Hs _].
      rewrite (concat_escape_parts _ Hs), join_split_dot.
      cbn [raw ident leaf].
      destruct (mk_table_plain name (schema_of (e_cfg e) (Some s)) (match alias with Some a => if String.eqb a "" then None else Some a | None => None end) Hn)
        as (d & E & H1 & H2 & H3).
      exists d. split; [exact E|]. split; [exact H1|]. split; [exact H2|]. rewrite H3. unfold tref_str. cbn [fst snd].
      unfold schema_of.
      assert (Hne : String.eqb s "" = false).
      { destruct s; [|reflexivity]. cbn in Hs. discriminate. }
      rewrite Hne. cbn [negb]. rewrite (idc_escape s); [reflexivity|].
      apply split_dot_chars. rewrite forallb_forall in *. intros y Hy. apply id_ok_chars. apply Hs. exact Hy.
    + apply intersperse_length_pos. intros E. apply map_eq_nil in E. exact (split_dot_nonempty s E).
  - unfold r_tref. cbn [fst snd]. unfold table_of_seg. cbn [children node List.length Nat.leb].
    change (tyis _ "identifier") with false. cbn iota. unfold nth_res. cbn [nth_error raw ident leaf].
    destruct (mk_table_plain name (schema_of (e_cfg e) None) (match alias with Some a => if String.eqb a "" then None else Some a | None => None end) Hn)
        as (d & E & H1 & H2 & H3).
    exists d. split; [exact E|]. split; [exact H1|]. split; [exact H2|]. rewrite H3, default_schema_str. reflexivity.
Qed.

(** *** a table element of FROM *)
Lemma nn_node t c l : String.eqb t "symbol" = false -> nn (node t c l) = true.
Proof. intros H. unfold nn, is_negligible, tyis. cbn [is_ws is_cm is_mt ty node]. rewrite H. reflexivity. Qed.

Lemma lcs_fee_table k t al b : list_child_segments (r_rel k (RTable t al)) b = te_of t :: al_list al.
Proof. rewrite r_rel_table, lcs_node by reflexivity. destruct al; reflexivity. Qed.

Lemma get_child_fee_te k t al : get_child (r_rel k (RTable t al)) ["table_expression"] = Some (te_of t).
Proof. unfold get_child. rewrite r_rel_table, get_children_sep by reflexivity. destruct al; reflexivity. Qed.

Lemma get_child_fee_alias k t al : get_child (r_rel k (RTable t al)) ["alias_expression"] = match al with Some a => Some (r_alias noise a) | None => None end.
Proof. unfold get_child. rewrite r_rel_table, get_children_sep by reflexivity. destruct al; reflexivity. Qed.

Lemma is_subquery_other s : tyis s "from_expression_element" = false -> tyis s "bracketed" = false -> is_subquery s = Ok false.
Proof. intros H1 H2. unfold is_subquery. rewrite H1, H2. reflexivity. Qed.

Lemma list_subqueries_fee_table k t al : list_subqueries_fee (r_rel k (RTable t al)) = Ok [].
Proof.
  unfold list_subqueries_fee, extract_as_and_target_segment. rewrite lcs_fee_table. cbn [nth_res nth_error].
  change (tyis (te_of t) "keyword") with false. cbn [andb].
  rewrite (is_subquery_other (te_of t)) by reflexivity.
  cbn [te_of children node nth_res nth_error]. rewrite (is_subquery_other (r_tref t)) by reflexivity. reflexivity.
Qed.

Lemma raw_node t c ch : raw (node t c ch) = concat_str (map raw ch).
Proof. destruct ch; reflexivity. Qed.

Lemma concat_str_app a b : concat_str (a ++ b) = (concat_str a ++ concat_str b)%string.
Proof. induction a as [|x r IH]; [reflexivity|]. cbn [app concat_str]. rewrite IH, append_assoc. reflexivity. Qed.

Lemma raw_tref_dotted s name : sexists is_dot (raw (r_tref (Some s, name))) = true.
Proof.
  unfold r_tref. cbn [fst snd]. rewrite raw_node, map_app, concat_str_app, sexists_app.
  cbn [map concat_str raw dot sym leaf append sexists]. rewrite orb_true_r. reflexivity.
Qed.

Lemma raw_tref_bare name : raw (r_tref (None, name)) = name.
Proof. cbn. apply append_nil_r. Qed.

Lemma lcs_alias a b : list_child_segments (r_alias noise a) b = [node "alias_operator" ["alias_operator"] [kw "as"]; ident a].
Proof. unfold r_alias. rewrite lcs_node by reflexivity. reflexivity. Qed.

Definition cte_lookup (g : graph) (name : string) : option dataset :=
  fold_left (fun acc c => if String.eqb (dalias c) (escape name) then Some c else acc) (sq_cte g) None.

Lemma add_dataset_table k t al g :
  tref_ok t = true -> match al with Some a => id_ok a = true | None => True end ->
  add_dataset_from_fee e (r_rel k (RTable t al)) g =
  match (match fst t with Some _ => None | None => cte_lookup g (snd t) end) with
  | Some c => match dquery c with
              | Some q => Ok [mk_subquery q (Some (match al with Some a => a | None => raw (r_tref t) end))]
              | None => Err "AttributeError"
              end
  | None => do d <- table_of_seg e (r_tref t) al; Ok [d]
  end.
Proof.
  intros Ht Ha. unfold add_dataset_from_fee. rewrite lcs_fee_table, get_child_fee_te.
  change (get_child (te_of t) ["function"]) with (@None seg). cbn iota.
  assert (E1 : filter (fun x => negb (tyis x "keyword")) (te_of t :: al_list al) = te_of t :: al_list al) by (destruct al; reflexivity).
  rewrite E1. cbn [nth_res nth_error]. change (tyis (te_of t) "bracketed") with false. cbn [andb].
  replace (list_subqueries (r_rel k (RTable t al))) with (list_subqueries_fee (r_rel k (RTable t al))) by reflexivity.
  rewrite list_subqueries_fee_table, fti_fee_table.
  assert (E2 : (match te_of t :: al_list al with
                | _ :: a :: _ => if tyis a "alias_expression" then
                                   match list_child_segments a true with
                                   | f0 :: x :: _ => if tyis f0 "alias_operator" || (tyis f0 "keyword" && String.eqb (raw_upper f0) "AS")
                                                     then Ok (Some (raw x)) else Ok (Some (raw f0))
                                   | [x] => Ok (Some (raw x)) | [] => Err EIndex end
                                 else Ok None
                | _ => Ok None end) = Ok al).
  { destruct al as [a|]; [|reflexivity]. cbn [al_list]. change (tyis (r_alias noise a) "alias_expression") with true. cbn iota.
    rewrite lcs_alias. reflexivity. }
  rewrite E2. change (tyis (r_tref t) "file_reference") with false. cbn iota.
  destruct t as [[s|] name]; cbn [fst snd].
  - rewrite raw_tref_dotted. reflexivity.
  - rewrite raw_tref_bare. unfold tref_ok in Ht. cbn [fst snd] in Ht. rewrite andb_true_r in Ht. rewrite (id_ok_nodot name Ht).
    unfold cte_lookup. destruct (fold_left _ (sq_cte g) None) as [c|]; [|reflexivity].
    destruct (dquery c); [|reflexivity]. destruct al as [a|]; [|reflexivity]. rewrite (id_ok_nonempty a Ha). reflexivity.
Qed.

(** *** sub-trees without segments of the types looked for *)
Definition clean (ts : list string) (s : seg) : Prop := forall x, TriviaProofs.sub x s -> is_type x ts = false.

Lemma clean_child ts s c : clean ts s -> In c (children s) -> clean ts c.
Proof. intros H Hin x Hx. apply H. exact (TriviaProofs.sub_child x c s Hin Hx). Qed.

Lemma clean_crawl ts b s : clean ts s -> crawl ts b s = [].
Proof.
  induction s as [t g c r w cm mt ch IH] using TriviaProofs.seg_ind'. intros H.
  rewrite TriviaProofs.crawl_eq, (H _ (TriviaProofs.sub_refl _)). cbn [negb orb app]. rewrite orb_true_r.
  apply flat_map_none. intros x Hx. rewrite Forall_forall in IH. apply (IH x Hx). apply (clean_child ts _ x H). exact Hx.
Qed.

Lemma clean_node ts t c l : existsb (fun x => mem_string x ts) c = false -> Forall (clean ts) l -> clean ts (node t c l).
Proof.
  intros H Hl x Hx. inversion Hx as [s0|x0 c0 s0 Hin Hsub]; subst.
  - exact H.
  - cbn [children node] in Hin. rewrite Forall_forall in Hl. exact (Hl c0 Hin x Hsub).
Qed.

Lemma clean_leaf ts t g c r : existsb (fun x => mem_string x ts) c = false -> clean ts (leaf t g c r).
Proof.
  intros H x Hx. inversion Hx as [s0|x0 c0 s0 Hin Hsub]; subst; [exact H|]. destruct Hin.
Qed.

Lemma clean_noise ts : not_trivia ts = true -> Forall (clean ts) noise.
Proof.
  intros H. apply Forall_forall. intros n Hn x Hx. pose proof (noise_in n Hn) as Hok.
  inversion Hx as [s0|x0 c0 s0 Hin Hsub]; subst.
  - apply noise_is_type; assumption.
  - rewrite (proj1 (proj2 (noise_seg_facts n Hok))) in Hin. destruct Hin.
Qed.

Lemma Forall_sep (P : seg -> Prop) l : Forall P noise -> Forall P l -> Forall P (sep noise l).
Proof.
  intros Hn Hl. induction l as [|a [|b r] IH]; [constructor|exact Hl|].
  change (sep noise (a :: b :: r)) with (a :: noise ++ sep noise (b :: r)). inversion Hl. subst.
  constructor; [assumption|]. apply Forall_app. split; [exact Hn|]. apply IH. assumption.
Qed.

Lemma Forall_intersperse (P : seg -> Prop) x l : P x -> Forall P l -> Forall P (intersperse x l).
Proof.
  intros Hx Hl. induction l as [|a [|b r] IH]; [constructor|exact Hl|].
  change (intersperse x (a :: b :: r)) with (a :: x :: intersperse x (b :: r)). inversion Hl. subst.
  constructor; [assumption|]. constructor; [exact Hx|]. apply IH. assumption.
Qed.

Lemma clean_sep_node ts t c l :
  not_trivia ts = true -> existsb (fun x => mem_string x ts) c = false -> Forall (clean ts) l -> clean ts (node t c (sep noise l)).
Proof. intros H1 H2 H3. apply clean_node; [exact H2|]. apply Forall_sep; [apply clean_noise; exact H1|exact H3]. Qed.

Lemma clean_tref ts t : existsb (fun x => mem_string x ts) ["object_reference"; "table_reference"; "identifier"; "naked_identifier"; "raw"; "dot"; "symbol"] = false -> clean ts (r_tref t).
Proof.
  intros H. cbn [existsb] in H. repeat (apply orb_false_iff in H; destruct H as [?E H]).
  assert (Hi : forall n, clean ts (ident n)) by (intros n; apply clean_leaf; cbn [existsb]; rewrite E1, E2, E3; reflexivity).
  assert (Hd : clean ts dot) by (apply clean_leaf; cbn [existsb]; rewrite E3, E4, E5; reflexivity).
  apply clean_node; [cbn [existsb]; rewrite E, E0; reflexivity|].
  destruct (fst t) as [s|].
  - apply Forall_app. split.
    + apply Forall_intersperse; [exact Hd|]. apply Forall_forall. intros x Hx. apply in_map_iff in Hx. destruct Hx as (n & <- & _). apply Hi.
    + constructor; [exact Hd|]. constructor; [apply Hi|constructor].
  - constructor; [apply Hi|constructor].
Qed.

Lemma clean_alias ts a :
  not_trivia ts = true ->
  existsb (fun x => mem_string x ts) ["alias_expression"; "alias_operator"; "keyword"; "word"; "identifier"; "naked_identifier"; "raw"] = false ->
  clean ts (r_alias noise a).
Proof.
  intros Hts H. cbn [existsb] in H. repeat (apply orb_false_iff in H; destruct H as [?E H]).
  apply clean_sep_node; [exact Hts|cbn [existsb]; rewrite E; reflexivity|].
  constructor; [|constructor; [|constructor]].
  - apply clean_node; [cbn [existsb]; rewrite E0; reflexivity|]. constructor; [|constructor].
    apply clean_leaf. cbn [existsb]. rewrite E1, E5, E2. reflexivity.
  - apply clean_leaf. cbn [existsb]. rewrite E3, E4, E5. reflexivity.
Qed.

Ltac clean_tac :=
  repeat first [ apply clean_sep_node; [reflexivity|reflexivity|]
               | apply clean_node; [reflexivity|]
               | apply clean_leaf; reflexivity
               | apply clean_tref; reflexivity
               | apply clean_alias; [reflexivity|reflexivity]
               | apply Forall_cons
               | apply Forall_nil ].

Lemma crawl_node_miss ts t c l :
  not_trivia ts = true -> existsb (fun x => mem_string x ts) c = false ->
  crawl ts true (node t c (sep noise l)) = flat_map (crawl ts true) l.
Proof.
  intros H1 H2. rewrite TriviaProofs.crawl_eq. unfold is_type. cbn [cls node children]. rewrite H2. cbn [orb app].
  apply flat_map_sep. intros x Hx. apply crawl_noise; assumption.
Qed.

Lemma crawl_node0_miss ts t c l :
  existsb (fun x => mem_string x ts) c = false -> crawl ts true (node t c l) = flat_map (crawl ts true) l.
Proof. intros H2. rewrite TriviaProofs.crawl_eq. unfold is_type. cbn [cls node children]. rewrite H2. reflexivity. Qed.

Lemma crawl_node_hit ts t c l :
  not_trivia ts = true -> existsb (fun x => mem_string x ts) c = true ->
  crawl ts true (node t c (sep noise l)) = node t c (sep noise l) :: flat_map (crawl ts true) l.
Proof.
  intros H1 H2. rewrite TriviaProofs.crawl_eq. unfold is_type. cbn [cls node children]. rewrite H2. cbn [orb app]. f_equal.
  apply flat_map_sep. intros x Hx. apply crawl_noise; assumption.
Qed.

Lemma hd_crawl_rel k r : exists tl, crawl ["from_expression_element"] true (r_rel k r) = r_rel k r :: tl.
Proof. unfold r_rel. rewrite TriviaProofs.crawl_eq. eexists. reflexivity. Qed.

Lemma ffee_fe1 k r : find_from_expression_element (r_fe1 k r) = Some (r_rel k r).
Proof.
  unfold find_from_expression_element, r_fe1. rewrite crawl_node0_miss by reflexivity. cbn [flat_map].
  destruct (hd_crawl_rel k r) as (tl & ->). reflexivity.
Qed.

Lemma ffee_fc k r0 rest : find_from_expression_element (r_fc k (r0 :: rest) false) = Some (r_rel k r0).
Proof.
  unfold find_from_expression_element, r_fc, r_fej. rewrite crawl_node_miss by reflexivity. cbn [flat_map].
  change (crawl ["from_expression_element"] true (kw "from")) with (@nil seg). cbn [app].
  rewrite crawl_node_miss by reflexivity. cbn [flat_map]. destruct (hd_crawl_rel k r0) as (tl & ->). reflexivity.
Qed.

Lemma ffee_join k r : find_from_expression_element (r_join k r) = Some (r_rel k r).
Proof.
  unfold find_from_expression_element, r_join. rewrite crawl_node_miss by reflexivity. cbn [flat_map].
  change (crawl ["from_expression_element"] true (kw "join")) with (@nil seg). cbn [app].
  destruct (hd_crawl_rel k r) as (tl & ->). reflexivity.
Qed.

Lemma clean_rel_table ts k t al :
  not_trivia ts = true ->
  existsb (fun x => mem_string x ts)
    ["from_expression_element"; "table_expression"; "object_reference"; "table_reference"; "identifier"; "naked_identifier"; "raw";
     "dot"; "symbol"; "alias_expression"; "alias_operator"; "keyword"; "word"] = false ->
  clean ts (r_rel k (RTable t al)).
Proof.
  intros Hts H. cbn [existsb] in H. repeat (apply orb_false_iff in H; destruct H as [?E H]).
  rewrite r_rel_table. apply clean_sep_node; [exact Hts|cbn [existsb]; rewrite E; reflexivity|].
  constructor.
  - apply clean_node; [cbn [existsb]; rewrite E0; reflexivity|]. constructor; [|constructor].
    apply clean_tref. cbn [existsb]. rewrite E1, E2, E3, E4, E5, E6, E7. reflexivity.
  - destruct al as [a|]; [|constructor]. constructor; [|constructor]. apply clean_alias; [exact Hts|].
    cbn [existsb]. rewrite E8, E9, E10, E11, E3, E4, E5. reflexivity.
Qed.

Lemma clean_on_clause ts :
  not_trivia ts = true ->
  existsb (fun x => mem_string x ts)
    ["join_on_condition"; "keyword"; "raw"; "word"; "expression"; "literal"; "numeric_literal"; "comparison_operator";
     "raw_comparison_operator"; "symbol"] = false ->
  clean ts (on_clause noise).
Proof.
  intros Hts H. cbn [existsb] in H. repeat (apply orb_false_iff in H; destruct H as [?E H]).
  unfold on_clause. apply clean_sep_node; [exact Hts|cbn [existsb]; rewrite E; reflexivity|].
  constructor; [apply clean_leaf; cbn [existsb]; rewrite E0, E1, E2; reflexivity|]. constructor; [|constructor].
  apply clean_sep_node; [exact Hts|cbn [existsb]; rewrite E3; reflexivity|].
  assert (Hnum : clean ts (num "1")) by (apply clean_leaf; cbn [existsb]; rewrite E4, E5, E1; reflexivity).
  constructor; [exact Hnum|]. constructor; [|constructor; [exact Hnum|constructor]].
  apply clean_node; [cbn [existsb]; rewrite E6; reflexivity|]. constructor; [|constructor].
  apply clean_leaf. cbn [existsb]. rewrite E7, E1, E8. reflexivity.
Qed.

(** *** the FROM clause *)
Lemma filter_intersperse (p : seg -> bool) x l :
  p x = false -> (forall y, In y l -> p y = true) -> filter p (intersperse x l) = l.
Proof.
  intros Hx Hl. induction l as [|a [|b r] IH]; [reflexivity| |].
  - cbn [intersperse filter]. rewrite (Hl a (or_introl eq_refl)). reflexivity.
  - change (intersperse x (a :: b :: r)) with (a :: x :: intersperse x (b :: r)). cbn [filter].
    rewrite (Hl a (or_introl eq_refl)), Hx, IH; [reflexivity|]. intros y Hy. apply Hl. right. exact Hy.
Qed.

Lemma filter_intersperse_none (p : seg -> bool) x l :
  p x = false -> (forall y, In y l -> p y = false) -> filter p (intersperse x l) = [].
Proof.
  intros Hx Hl. apply filter_none. intros y Hy.
  assert (H : Forall (fun y => p y = false) (intersperse x l)).
  { apply Forall_intersperse; [exact Hx|]. apply Forall_forall. exact Hl. }
  rewrite Forall_forall in H. apply H. exact Hy.
Qed.

Lemma gc_fc_single k r0 rest : get_children (r_fc k (r0 :: rest) false) ["from_expression"] = [r_fej k r0 rest].
Proof. unfold r_fc. rewrite get_children_sep by reflexivity. reflexivity. Qed.

Lemma gc_fc_comma k from : get_children (r_fc k from true) ["from_expression"] = map (r_fe1 k) from.
Proof.
  unfold r_fc. rewrite get_children_sep by reflexivity. cbn [filter]. change (is_type (kw "from") ["from_expression"]) with false. cbn iota.
  apply filter_intersperse; [reflexivity|]. intros y Hy. apply in_map_iff in Hy. destruct Hy as (r & <- & _). reflexivity.
Qed.

Lemma gc_join_fe k r : get_children (r_join k r) ["from_expression"] = [].
Proof. unfold r_join. rewrite get_children_sep by reflexivity. reflexivity. Qed.

Lemma gc_fe1_fe k r : get_children (r_fe1 k r) ["from_expression"] = [].
Proof. reflexivity. Qed.

Definition jseg (p : nat * rel) : seg := r_join (fst p) (snd p).
Definition jfee (p : nat * rel) : seg := r_rel (fst p) (snd p).

Lemma list_tables_fc_join k r0 rest g jl :
  list_join_clause (r_fc k (r0 :: rest) false) = map jseg jl ->
  list_tables e (r_fc k (r0 :: rest) false) g =
  (do first <- add_dataset_from_fee e (r_rel k r0) g;
   do joins <- concat_res (map (fun p => add_dataset_from_fee e (jfee p) g) jl);
   Ok (first ++ joins)).
Proof.
  intros H. unfold list_tables. change (ty_in (r_fc k (r0 :: rest) false) _) with true. cbn iota.
  rewrite gc_fc_single. unfold list_tables_one at 1. rewrite ffee_fc, H, map_map.
  destruct (add_dataset_from_fee e (r_rel k r0) g) as [first|err]; [|reflexivity].
  assert (E : map (fun x => if ty_in (jseg x) ["from_clause"; "join_clause"; "update_statement"]
                            then match get_children (jseg x) ["from_expression"] with
                                 | fe1 :: fe2 :: rest0 => concat_res (map (fun fe => list_tables_one e fe g) (fe1 :: fe2 :: rest0))
                                 | _ => list_tables_one e (jseg x) g end
                            else Ok []) jl = map (fun p => add_dataset_from_fee e (jfee p) g) jl).
  { apply map_ext. intros [k' r]. unfold jseg, jfee. cbn [fst snd]. change (ty_in (r_join k' r) _) with true. cbn iota.
    rewrite gc_join_fe. unfold list_tables_one. rewrite ffee_join. reflexivity. }
  rewrite E. reflexivity.
Qed.

Lemma list_tables_fc_comma k r1 r2 rest g :
  list_tables e (r_fc k (r1 :: r2 :: rest) true) g =
  concat_res (map (fun r => add_dataset_from_fee e (r_rel k r) g) (r1 :: r2 :: rest)).
Proof.
  unfold list_tables. change (ty_in (r_fc k (r1 :: r2 :: rest) true) _) with true. cbn iota.
  rewrite gc_fc_comma. cbn [map].
  change (r_fe1 k r1 :: r_fe1 k r2 :: map (r_fe1 k) rest) with (map (r_fe1 k) (r1 :: r2 :: rest)).
  rewrite map_map. f_equal; try (apply map_ext; intros r; unfold list_tables_one; rewrite ffee_fe1; reflexivity).
Qed.

Lemma r_fc_single_comma k r : r_fc k [r] true = r_fc k [r] false.
Proof. reflexivity. Qed.

Lemma list_subqueries_fe1 k r :
  list_subqueries (r_fe1 k r) = (do first <- list_subqueries_fee (r_rel k r); Ok (first ++ [])).
Proof.
  unfold list_subqueries. change (tyis (r_fe1 k r) "select_clause") with false. change (tyis (r_fe1 k r) "from_expression_element") with false.
  change (tyis (r_fe1 k r) "where_clause") with false. change (ty_in (r_fe1 k r) ["from_clause"; "from_expression"]) with true. cbn iota.
  rewrite ffee_fe1. unfold list_join_clause. change (ty_in (r_fe1 k r) ["from_clause"; "update_statement"]) with false. cbn iota.
  cbn [map concat_res]. reflexivity.
Qed.

Lemma list_subqueries_fc_join k r0 rest jl :
  list_join_clause (r_fc k (r0 :: rest) false) = map jseg jl ->
  list_subqueries (r_fc k (r0 :: rest) false) =
  (do first <- list_subqueries_fee (r_rel k r0);
   do rest <- concat_res (map (fun p => list_subqueries_fee (jfee p)) jl);
   Ok (first ++ rest)).
Proof.
  intros H. unfold list_subqueries. set (F := r_fc k (r0 :: rest) false) in *.
  change (tyis F "select_clause") with false. change (tyis F "from_expression_element") with false.
  change (tyis F "where_clause") with false. change (ty_in F ["from_clause"; "from_expression"]) with true. cbn iota.
  unfold F at 1. rewrite ffee_fc, H, map_map.
  assert (E : map (fun x => match find_from_expression_element (jseg x) with Some fee => list_subqueries_fee fee | None => Ok [] end) jl
              = map (fun p => list_subqueries_fee (jfee p)) jl).
  { apply map_ext. intros [k' r]. unfold jseg, jfee. cbn [fst snd]. rewrite ffee_join. reflexivity. }
  rewrite E. reflexivity.
Qed.

Lemma list_subquery_fc_join k r0 rest :
  list_subquery (r_fc k (r0 :: rest) false) =
  (do l <- list_subqueries (r_fc k (r0 :: rest) false); Ok (parse_subquery l)).
Proof. unfold list_subquery. rewrite gc_fc_single. reflexivity. Qed.

Lemma list_subquery_fc_comma k r1 r2 rest :
  list_subquery (r_fc k (r1 :: r2 :: rest) true) =
  (do ls <- map_res list_subqueries (map (r_fe1 k) (r1 :: r2 :: rest)); Ok (flat_map parse_subquery ls)).
Proof. unfold list_subquery. rewrite gc_fc_comma. reflexivity. Qed.

(** tables only *)
Definition is_rtable (r : rel) : bool := match r with RTable _ _ => true | _ => false end.

Lemma ljc_tables k r0 rest :
  forallb is_rtable (r0 :: rest) = true ->
  list_join_clause (r_fc k (r0 :: rest) false) = map jseg (map (fun r => (k, r)) rest).
Proof.
  intros Hall. cbn [forallb] in Hall. apply andb_true_iff in Hall. destruct Hall as [H0 Hrest].
  destruct r0 as [t0 al0| |]; try discriminate.
  unfold list_join_clause. change (ty_in (r_fc k (RTable t0 al0 :: rest) false) _) with true. cbn iota.
  unfold get_child at 1. rewrite gc_fc_single.
  assert (Hrj : forall r, In r rest -> crawl ["join_clause"] true (r_join k r) = [r_join k r]).
  { intros r Hr. rewrite forallb_forall in Hrest. specialize (Hrest r Hr). destruct r as [t al| |]; try discriminate.
    unfold r_join. rewrite crawl_node_hit by reflexivity. f_equal. cbn [flat_map].
    change (crawl ["join_clause"] true (kw "join")) with (@nil seg).
    rewrite (clean_crawl _ _ (r_rel k (RTable t al))) by (apply clean_rel_table; reflexivity).
    rewrite (clean_crawl _ _ (on_clause noise)) by (apply clean_on_clause; reflexivity). reflexivity. }
  assert (Hc : crawl ["join_clause"] true (r_fc k (RTable t0 al0 :: rest) false) = map (r_join k) rest).
  { unfold r_fc, r_fej. rewrite crawl_node_miss by reflexivity. cbn [flat_map].
    change (crawl ["join_clause"] true (kw "from")) with (@nil seg). cbn [app]. rewrite app_nil_r.
    rewrite crawl_node_miss by reflexivity. cbn [flat_map].
    rewrite (clean_crawl _ _ (r_rel k (RTable t0 al0))) by (apply clean_rel_table; reflexivity). cbn [app].
    clear Hrest. induction rest as [|r rs IH]; [reflexivity|]. cbn [map flat_map].
    rewrite (Hrj r (or_introl eq_refl)), IH; [reflexivity|]. intros r' Hr'. apply Hrj. right. exact Hr'. }
  rewrite map_map. unfold jseg. cbn [fst snd].
  destruct rest as [|r1 rs].
  - unfold get_child, r_fej. rewrite get_children_sep by reflexivity. cbn [map filter].
    change (is_type (r_rel k (RTable t0 al0)) ["join_clause"]) with false. cbn iota.
    change (node "from_expression" ["from_expression"] (sep noise [r_rel k (RTable t0 al0)])) with (r_fe1 k (RTable t0 al0)).
    unfold r_fe1. rewrite crawl_node0_miss by reflexivity. cbn [flat_map].
    rewrite (clean_crawl _ _ (r_rel k (RTable t0 al0))) by (apply clean_rel_table; reflexivity). cbn [app]. exact Hc.
  - unfold get_child, r_fej. rewrite get_children_sep by reflexivity. cbn [map filter].
    change (is_type (r_rel k (RTable t0 al0)) ["join_clause"]) with false.
    change (is_type (r_join k r1) ["join_clause"]) with true. cbn iota. exact Hc.
Qed.

(** *** the SELECT clause *)

Definition r_wild (qq : option string) : seg :=
  node "wildcard_expression" ["wildcard_expression"]
       [node "wildcard_identifier" ["wildcard_identifier"; "object_reference"]
             (match qq with Some x => [ident x; dot; star_seg] | None => [star_seg] end)].

Lemma r_item_colref qq c al :
  r_item_x noise (IExpr (EColRef qq c) al) = node "select_clause_element" ["select_clause_element"] (sep noise (r_colref qq c :: al_list al)).
Proof. destruct al; reflexivity. Qed.
Lemma r_item_star qq : r_item_x noise (IStar qq) = node "select_clause_element" ["select_clause_element"] [r_wild qq].
Proof. reflexivity. Qed.

Lemma ecq_colref qq c : extract_column_qualifier (r_colref qq c) = Ok (Some (c, qq)).
Proof. destruct qq; reflexivity. Qed.

Lemma ecq_wild qq :
  match qq with Some x => id_ok x = true | None => True end -> extract_column_qualifier (r_wild qq) = Ok (Some ("*", qq)).
Proof.
  intros H. unfold extract_column_qualifier. change (is_wildcard (r_wild qq)) with true. cbn iota.
  destruct qq as [x|].
  - assert (E : raw (r_wild (Some x)) = (x ++ String "."%char "*")%string).
    { cbn [r_wild raw node map concat_str ident leaf dot sym star_seg]. rewrite !append_nil_r. reflexivity. }
    rewrite E, (split_dot_nodot x "*" (id_ok_nodot x H)). reflexivity.
  - reflexivity.
Qed.

Lemma map_res_inv {A B} (P : B -> Prop) (f : A -> res B) l :
  (forall x, In x l -> exists y, f x = Ok y /\ P y) -> exists ys, map_res f l = Ok ys /\ Forall P ys.
Proof.
  induction l as [|x r IH]; intros H; cbn [map_res]; [exists []; auto|].
  destruct (H x (or_introl eq_refl)) as (y & E & Hy). rewrite E.
  destruct (IH (fun z Hz => H z (or_intror Hz))) as (ys & E2 & Hys). rewrite E2. exists (y :: ys). auto.
Qed.

Lemma xcol_ok_mk name c qq fa :
  match qq with Some x => id_ok x = true | None => True end -> xcol_ok (mk_xcol name [(c, qq)] fa).
Proof.
  intros H. split; [reflexivity|]. intros c' q Hin. cbn [mk_xcol xsrc map esc_src fst snd] in Hin.
  destruct Hin as [Hin|[]]. inversion Hin. destruct qq as [x|]; [|discriminate]. cbn [option_map] in H2. inversion H2.
  rewrite (id_ok_escape x H). apply id_ok_count. exact H.
Qed.

Lemma column_of_seg_item f i :
  item_ok_a i = true -> S (item_fuel i) <= f -> exists x, column_of_seg (S f) e (r_item_x noise i) = Ok x /\ xcol_ok x.
Proof. apply (column_of_seg_item_a noise Hnoise e f i). Qed.

Lemma gc_sc_items items : get_children (r_sc items) ["select_clause_element"] = map (r_item_x noise) items.
Proof.
  unfold r_sc. rewrite get_children_sep by reflexivity. cbn [filter]. change (is_type (kw "select") ["select_clause_element"]) with false.
  cbn iota. apply filter_intersperse; [reflexivity|]. intros y Hy. apply in_map_iff in Hy. destruct Hy as (i & <- & _).
  destruct i as [[ | | | | | | ] al|qq]; reflexivity.
Qed.

Lemma swap_partition_off s g : handle_swap_partition e s g = Ok g.
Proof. unfold handle_swap_partition. rewrite (proj1 (proj2 env_facts)). reflexivity. Qed.

Lemma handle_child_sc f st items :
  forallb item_ok_a items = true -> items_fuel items <= f ->
  exists cols, handle_child (S f) e st (r_sc items) =
               Ok {| s_g := s_g st; s_tables := s_tables st; s_columns := s_columns st ++ cols; s_barriers := s_barriers st |}
               /\ Forall xcol_ok cols.
Proof.
  intros H Hfu. unfold handle_child. rewrite swap_partition_off. unfold handle_select_into.
  change (ty_in (r_sc items) ["into_table_clause"; "into_clause"]) with false. cbn iota.
  unfold list_tables. change (ty_in (r_sc items) ["from_clause"; "join_clause"; "update_statement"]) with false. cbn iota.
  change (tyis (r_sc items) "select_clause") with true. cbn iota. rewrite gc_sc_items.
  destruct (map_res_inv xcol_ok (column_of_seg (S f) e) (map (r_item_x noise) items)) as (cols & E & Hc).
  { intros x Hx. apply in_map_iff in Hx. destruct Hx as (i & <- & Hi). apply column_of_seg_item.
    - rewrite forallb_forall in H. apply H. exact Hi.
    - pose proof (items_fuel_le items i Hi). lia. }
  rewrite E. exists cols. rewrite app_nil_r. auto.
Qed.

Lemma handle_child_fc f st k from cj :
  handle_child f e st (r_fc k from cj) =
  (do ts <- list_tables e (r_fc k from cj) (s_g st);
   Ok {| s_g := s_g st; s_tables := s_tables st ++ ts; s_columns := s_columns st; s_barriers := s_barriers st |}).
Proof.
  unfold handle_child. rewrite swap_partition_off. unfold handle_select_into.
  change (ty_in (r_fc k from cj) ["into_table_clause"; "into_clause"]) with false. cbn iota.
  destruct (list_tables e (r_fc k from cj) (s_g st)); [|reflexivity].
  change (tyis (r_fc k from cj) "select_clause") with false. cbn iota. rewrite app_nil_r. reflexivity.
Qed.

Lemma item_types i : tyis (r_item_x noise i) "set_expression" = false /\ is_type (r_item_x noise i) ["from_expression"] = false.
Proof. destruct i as [[ | | | | | | ] al|qq]; split; reflexivity. Qed.

Lemma ise_sc items : is_set_expression (r_sc items) = false.
Proof.
  unfold is_set_expression. change (tyis (r_sc items) "set_expression") with false. cbn [orb]. unfold r_sc. cbn [children node].
  rewrite existsb_sep by (intros x Hx; apply noise_tyis; [exact Hx|reflexivity]). cbn [existsb]. change (tyis (kw "select") "set_expression") with false. cbn [orb].
  apply existsb_none. intros y Hy.
  assert (H : Forall (fun y => tyis y "set_expression" = false) (intersperse comma (map (r_item_x noise) items))).
  { apply Forall_intersperse; [reflexivity|]. apply Forall_forall. intros z Hz. apply in_map_iff in Hz. destruct Hz as (i & <- & _). apply item_types. }
  rewrite Forall_forall in H. apply H. exact Hy.
Qed.

Lemma ise_fc k from cj : is_set_expression (r_fc k from cj) = false.
Proof.
  unfold is_set_expression. change (tyis (r_fc k from cj) "set_expression") with false. cbn [orb]. unfold r_fc. cbn [children node].
  rewrite existsb_sep by (intros x Hx; apply noise_tyis; [exact Hx|reflexivity]). cbn [existsb]. change (tyis (kw "from") "set_expression") with false. cbn [orb].
  destruct cj.
  - apply existsb_none. intros y Hy.
    assert (H : Forall (fun y => tyis y "set_expression" = false) (intersperse comma (map (r_fe1 k) from))).
    { apply Forall_intersperse; [reflexivity|]. apply Forall_forall. intros z Hz. apply in_map_iff in Hz. destruct Hz as (i & <- & _). reflexivity. }
    rewrite Forall_forall in H. apply H. exact Hy.
  - destruct from; reflexivity.
Qed.

Lemma concat_res_nil {A B} (f : A -> res (list B)) l : (forall x, In x l -> f x = Ok []) -> concat_res (map f l) = Ok [].
Proof.
  induction l as [|x r IH]; intros H; [reflexivity|]. cbn [map concat_res]. rewrite (H x (or_introl eq_refl)), IH; [reflexivity|].
  intros y Hy. apply H. right. exact Hy.
Qed.

Lemma list_subquery_sc items : forallb item_ok_a items = true -> list_subquery (r_sc items) = Ok [].
Proof.
  intros _. unfold list_subquery.
  assert (E : get_children (r_sc items) ["from_expression"] = []).
  { unfold r_sc. rewrite get_children_sep by reflexivity. cbn [filter]. change (is_type (kw "select") ["from_expression"]) with false. cbn iota.
    apply filter_intersperse_none; [reflexivity|]. intros y Hy. apply in_map_iff in Hy. destruct Hy as (i & <- & _). apply item_types. }
  rewrite E. change (ty_in (r_sc items) ["select_clause"; "from_clause"; "where_clause"]) with true. cbn iota.
  unfold list_subqueries. change (tyis (r_sc items) "select_clause") with true. cbn iota. rewrite gc_sc_items.
  fold sce_subq. rewrite concat_res_nil; [reflexivity|]. intros x Hx. apply in_map_iff in Hx. destruct Hx as (i & <- & Hi).
  apply (sce_subq_any noise Hnoise).
Qed.

Lemma sel_subq1_sc items : forallb item_ok_a items = true -> sel_subq1 (r_sc items) = Ok [].
Proof. intros H. unfold sel_subq1. rewrite (list_subquery_sc items H), ise_sc. reflexivity. Qed.

(** *** CTE names in scope *)
Definition cte_rel (g : graph) (ctes : list string) : Prop :=
  (forall c, In c (sq_cte g) -> In (dalias c) ctes /\ dk c = KSubq) /\
  (forall n, In n ctes -> exists c, In c (sq_cte g) /\ dalias c = n).

Lemma cte_lookup_fold l name : forall acc,
  fold_left (fun acc c => if String.eqb (dalias c) name then Some c else acc) l acc =
  match fold_left (fun acc c => if String.eqb (dalias c) name then Some c else acc) l None with
  | Some c => Some c | None => acc end.
Proof.
  induction l as [|c r IH]; intros acc; cbn [fold_left]; [reflexivity|].
  rewrite IH. rewrite (IH (if String.eqb (dalias c) name then Some c else None)).
  destruct (fold_left _ r None); [reflexivity|]. destruct (String.eqb (dalias c) name); reflexivity.
Qed.

Lemma cte_lookup_spec g name :
  match cte_lookup g name with
  | Some c => In c (sq_cte g) /\ dalias c = escape name
  | None => forall c, In c (sq_cte g) -> dalias c <> escape name
  end.
Proof.
  unfold cte_lookup. induction (sq_cte g) as [|c r IH]; cbn [fold_left]; [intros c []|].
  rewrite cte_lookup_fold. destruct (fold_left _ r None) as [c'|].
  - destruct IH as [H1 H2]. split; [right; exact H1|exact H2].
  - destruct (String.eqb (dalias c) (escape name)) eqn:E.
    + apply String.eqb_eq in E. split; [left; reflexivity|exact E].
    + intros c' [H|H]; [subst c'; apply String.eqb_neq; exact E|apply IH; exact H].
Qed.

Definition tnames (ds : list dataset) (x : string) : Prop := exists v, In v ds /\ dk v = KTable /\ dstr v = x.

Lemma tnames_app a b x : tnames (a ++ b) x <-> tnames a x \/ tnames b x.
Proof.
  unfold tnames. split.
  - intros (v & H & H2). apply in_app_iff in H. destruct H; [left|right]; exists v; auto.
  - intros [(v & H & H2)|(v & H & H2)]; exists v; rewrite in_app_iff; auto.
Qed.

Lemma tnames_nil x : tnames [] x <-> False.
Proof. unfold tnames. split; [intros (v & [] & _)|tauto]. Qed.

Definition rel_reads (ctes : list string) (r : rel) : list string :=
  match r with
  | RTable t _ => match fst t with
                  | None => if mem_string (snd t) ctes then [] else [tref_str (e_cfg e) t]
                  | Some _ => [tref_str (e_cfg e) t]
                  end
  | _ => []
  end.

Lemma add_dataset_table_spec k t al g ctes :
  tref_ok t = true -> match al with Some a => id_ok a = true | None => True end ->
  gok g -> cte_rel g ctes ->
  exists ds, add_dataset_from_fee e (r_rel k (RTable t al)) g = Ok ds /\ Forall data_ok ds /\
             forall x, tnames ds x <-> In x (rel_reads ctes (RTable t al)).
Proof.
  intros Ht Ha Hg [Hc1 Hc2]. rewrite (add_dataset_table k t al g Ht Ha). cbn [rel_reads].
  assert (Htab : exists ds, (do d <- table_of_seg e (r_tref t) al; Ok [d]) = Ok ds /\ Forall data_ok ds /\
                            forall x, tnames ds x <-> In x [tref_str (e_cfg e) t]).
  { destruct (table_of_seg_tref t al Ht) as (d & E & H1 & H2 & H3). rewrite E. exists [d]. split; [reflexivity|].
    split; [constructor; [exact H2|constructor]|]. intros x. unfold tnames. cbn [In]. split.
    - intros (v & [Hv|[]] & _ & Hx). subst v. left. congruence.
    - intros [Hx|[]]. exists d. split; [left; reflexivity|]. split; [exact H1|congruence]. }
  destruct (fst t) as [s|] eqn:Ef; [exact Htab|].
  assert (Hn : id_ok (snd t) = true).
  { unfold tref_ok in Ht. apply andb_true_iff in Ht. exact (proj1 Ht). }
  pose proof (cte_lookup_spec g (snd t)) as Hl. rewrite (id_ok_escape _ Hn) in Hl.
  destruct (cte_lookup g (snd t)) as [c|].
  - destruct Hl as [Hin Hal]. destruct (Hc1 c Hin) as [Hm Hk].
    pose proof (gok_data g c "cte" Hg Hin) as Hd. unfold data_ok in Hd. rewrite Hk in Hd.
    destruct (dquery c) as [q|]; [|contradiction].
    rewrite Hal in Hm. apply mem_string_In in Hm. rewrite Hm.
    eexists. split; [reflexivity|]. split.
    + constructor; [|constructor]. unfold data_ok, mk_subquery. cbn [dk dquery]. discriminate.
    + intros x. cbn [In]. unfold tnames. split; [|tauto]. intros (v & [Hv|[]] & Hk' & _). subst v. discriminate.
  - destruct (mem_string (snd t) ctes) eqn:Em; [|exact Htab].
    apply mem_string_In in Em. destruct (Hc2 _ Em) as (c & Hin & Hal). exfalso. exact (Hl c Hin Hal).
Qed.

Lemma concat_res_tnames {A} (f : A -> res (list dataset)) (S : A -> list string) l :
  (forall r, In r l -> exists ds, f r = Ok ds /\ Forall data_ok ds /\ forall x, tnames ds x <-> In x (S r)) ->
  exists ds, concat_res (map f l) = Ok ds /\ Forall data_ok ds /\ forall x, tnames ds x <-> In x (flat_map S l).
Proof.
  induction l as [|r rs IH]; intros H; cbn [map concat_res flat_map].
  - exists []. split; [reflexivity|]. split; [constructor|]. intros x. rewrite tnames_nil. cbn [In]. tauto.
  - destruct (H r (or_introl eq_refl)) as (ds & E & Hd & Hx). rewrite E.
    destruct (IH (fun r' Hr' => H r' (or_intror Hr'))) as (ds2 & E2 & Hd2 & Hx2). rewrite E2.
    exists (ds ++ ds2). split; [reflexivity|]. split; [apply Forall_app; auto|].
    intros x. rewrite tnames_app, in_app_iff, Hx, Hx2. tauto.
Qed.

Definition rel_ok (r : rel) : bool :=
  match r with
  | RTable t al => tref_ok t && match al with Some a => id_ok a | None => true end
  | _ => false
  end.

(** FROM with tables only *)
Lemma list_tables_all_tables k from cj g ctes :
  from <> [] -> forallb rel_ok from = true -> gok g -> cte_rel g ctes ->
  exists ds, list_tables e (r_fc k from cj) g = Ok ds /\ Forall data_ok ds /\
             forall x, tnames ds x <-> In x (flat_map (rel_reads ctes) from).
Proof.
  intros Hne Hok Hg Hc.
  assert (Hrt : forallb is_rtable from = true).
  { rewrite forallb_forall in *. intros r Hr. specialize (Hok r Hr). destruct r; try discriminate. reflexivity. }
  assert (Hper : forall r, In r from -> exists ds, add_dataset_from_fee e (r_rel k r) g = Ok ds /\ Forall data_ok ds /\
                                                   forall x, tnames ds x <-> In x (rel_reads ctes r)).
  { intros r Hr. rewrite forallb_forall in Hok. specialize (Hok r Hr). destruct r as [t al| |]; try discriminate.
    cbn [rel_ok] in Hok. apply andb_true_iff in Hok. destruct Hok as [H1 H2].
    apply add_dataset_table_spec; auto. destruct al; auto. }
  assert (Hjoin : forall r0 rest, from = r0 :: rest ->
            exists ds, list_tables e (r_fc k (r0 :: rest) false) g = Ok ds /\ Forall data_ok ds /\
                       forall x, tnames ds x <-> In x (flat_map (rel_reads ctes) from)).
  { intros r0 rest ->. rewrite (list_tables_fc_join k r0 rest g _ (ljc_tables k r0 rest Hrt)).
    destruct (Hper r0 (or_introl eq_refl)) as (d0 & E0 & Hd0 & Hx0). rewrite E0.
    destruct (concat_res_tnames (fun p => add_dataset_from_fee e (jfee p) g) (fun p => rel_reads ctes (snd p)) (map (fun r => (k, r)) rest))
      as (ds & E & Hd & Hx).
    { intros [k' r] Hin. apply in_map_iff in Hin. destruct Hin as (r' & Heq & Hr'). inversion Heq. subst k' r'.
      unfold jfee. cbn [fst snd]. apply Hper. right. exact Hr'. }
    rewrite E. exists (d0 ++ ds). split; [reflexivity|]. split; [apply Forall_app; auto|].
    intros x. rewrite tnames_app, Hx0, Hx. cbn [flat_map]. rewrite in_app_iff.
    assert (Efm : flat_map (fun p : nat * rel => rel_reads ctes (snd p)) (map (fun r => (k, r)) rest) = flat_map (rel_reads ctes) rest).
    { clear. induction rest as [|r rs IH]; [reflexivity|]. cbn [map flat_map snd]. rewrite IH. reflexivity. }
    rewrite Efm. tauto. }
  destruct cj.
  - destruct from as [|r1 [|r2 rest]]; [contradiction| |].
    + rewrite r_fc_single_comma. apply (Hjoin r1 []). reflexivity.
    + rewrite list_tables_fc_comma. apply concat_res_tnames. exact Hper.
  - destruct from as [|r0 rest]; [contradiction|]. apply (Hjoin r0 rest). reflexivity.
Qed.

Lemma map_res_all_nil {A B C} (f : A -> res (list B)) (h : list B -> list C) l :
  h [] = [] -> (forall x, In x l -> f x = Ok []) -> exists ls, map_res f l = Ok ls /\ flat_map h ls = [].
Proof.
  intros Hh. induction l as [|x r IH]; intros H; cbn [map_res]; [exists []; auto|].
  rewrite (H x (or_introl eq_refl)). destruct (IH (fun y Hy => H y (or_intror Hy))) as (ls & E & Hls). rewrite E.
  exists ([] :: ls). split; [reflexivity|]. cbn [flat_map]. rewrite Hh, Hls. reflexivity.
Qed.

Lemma sel_subq1_fc_tables k from cj :
  from <> [] -> forallb is_rtable from = true -> sel_subq1 (r_fc k from cj) = Ok [].
Proof.
  intros Hne Hrt. unfold sel_subq1. rewrite ise_fc.
  assert (Hfee : forall r, In r from -> list_subqueries_fee (r_rel k r) = Ok []).
  { intros r Hr. rewrite forallb_forall in Hrt. specialize (Hrt r Hr). destruct r; try discriminate. apply list_subqueries_fee_table. }
  assert (Hjoin : forall r0 rest, from = r0 :: rest -> list_subquery (r_fc k (r0 :: rest) false) = Ok []).
  { intros r0 rest ->. rewrite list_subquery_fc_join, (list_subqueries_fc_join k r0 rest _ (ljc_tables k r0 rest Hrt)).
    rewrite (Hfee r0 (or_introl eq_refl)). rewrite concat_res_nil; [reflexivity|].
    intros [k' r] Hin. apply in_map_iff in Hin. destruct Hin as (r' & Heq & Hr'). inversion Heq. subst. unfold jfee. cbn [fst snd].
    apply Hfee. right. exact Hr'. }
  assert (E : list_subquery (r_fc k from cj) = Ok []).
  { destruct cj.
    - destruct from as [|r1 [|r2 rest]]; [contradiction| |].
      + rewrite r_fc_single_comma. apply (Hjoin r1 []). reflexivity.
      + rewrite list_subquery_fc_comma.
        destruct (map_res_all_nil list_subqueries parse_subquery (map (r_fe1 k) (r1 :: r2 :: rest)) eq_refl) as (ls & E1 & E2).
        { intros x Hx. apply in_map_iff in Hx. destruct Hx as (r & <- & Hr). rewrite list_subqueries_fe1, (Hfee r Hr). reflexivity. }
        rewrite E1, E2. reflexivity.
    - destruct from as [|r0 rest]; [contradiction|]. apply (Hjoin r0 rest). reflexivity. }
  rewrite E. reflexivity.
Qed.

(** *** the end of a SELECT: cleanup and wildcard expansion *)
Lemma select_tail g1 ts cols bars :
  gok g1 -> Forall data_ok ts -> Forall xcol_ok cols -> List.length (sq_write g1) <= 1 ->
  exists g3, (do g2 <- end_of_query_cleanup e g1 ts cols bars; expand_wildcard e g2) = Ok g3 /\ gok g3 /\
             (forall k, k <> "read" -> holder_nodes g3 k = holder_nodes g1 k) /\
             (forall x, tset g3 "read" x <-> tset g1 "read" x \/ tnames ts x).
Proof.
  intros Hg Hts Hcols Hw. destruct (eoq_ok e g1 ts cols bars Hg Hts Hcols Hw) as (g2 & E2 & Hg2). rewrite E2.
  destruct (expand_wildcard_any e g2 (proj1 Hg2)) as (g3 & E3 & Hg3). rewrite E3.
  exists g3. split; [reflexivity|]. split; [exact (proj1 Hg3)|].
  destruct (fold_add_read ts g1 Hg Hts) as (_ & F2 & F3). split.
  - intros k Hk. rewrite (proj2 Hg3), (proj2 Hg2). apply F2. exact Hk.
  - intros x. rewrite (tset_ext g2 g3 "read" x (proj2 Hg3 "read")), (tset_ext _ g2 "read" x (proj2 Hg2 "read")). apply F3.
Qed.

(** *** a SELECT over tables only, without WHERE *)
Lemma sel_segments_select items k from cj wh :
  sel_segments (node "select_statement" ["select_statement"] (sep noise ([r_sc items; r_fc k from cj] ++ r_wh k wh)))
  = [r_sc items; r_fc k from cj] ++ r_wh k wh.
Proof.
  unfold sel_segments. match goal with |- context [tyis ?n "set_expression"] => change (tyis n "set_expression") with false end. cbn iota.
  rewrite lcs_node by reflexivity. destruct wh as [[c sq]|]; reflexivity.
Qed.

End Nav.

Ltac u_brq := unfold r_brq.
Ltac u_brq1 := unfold r_brq at 1.
Ltac u_jseg1 := unfold jseg at 1.
Ltac u_jseg := unfold jseg.
Ltac u_jfee := unfold jfee.
Ltac u_rjoin1 := unfold r_join at 1.
Ltac u_rjoin := unfold r_join.
Ltac u_rfc := unfold r_fc.
Ltac u_rfe1 := unfold r_fe1.
Ltac u_rfej := unfold r_fej.
Ltac u_rsc := unfold r_sc.
Ltac c_rwh := cbn [r_wh flat_map].

Section Nav2.
Variable noise : list seg.
Hypothesis Hnoise : noise_ok noise = true.
Variable e : env.
Hypothesis Henv : env_ok_md e = true.

Notation r_brq := (r_brq noise).
Notation r_rel := (r_rel noise).
Notation r_sc := (r_sc noise).
Notation r_fc := (r_fc noise).
Notation r_wh := (r_wh noise).
Notation r_join := (r_join noise).
Notation r_fe1 := (r_fe1 noise).
Notation r_fej := (r_fej noise).

Definition is_body (q : query) : bool := match q with QWith _ _ _ => false | _ => true end.

Lemma depth_pos s : exists d, depth s = S d.
Proof. destruct s. eexists. reflexivity. Qed.

Lemma gc_leaf t g c r ts : get_children (leaf t g c r) ts = [].
Proof. reflexivity. Qed.

Lemma brq_children_not_bracketed k q :
  get_children (r_query_x noise (S k) q) ["bracketed"] = [].
Proof.
  destruct q as [items from cj wh|a b|n c b].
  - rewrite r_query_select, (get_children_sep noise Hnoise) by reflexivity. destruct wh as [[c sq]|]; reflexivity.
  - rewrite r_query_union, (get_children_sep noise Hnoise) by reflexivity. cbn [filter].
    assert (H : forall k' q', is_type (r_query_x noise k' q') ["bracketed"] = false).
    { intros k' q'. destruct k' as [|k']; [reflexivity|]. destruct q'; reflexivity. }
    rewrite !H. reflexivity.
  - rewrite r_query_with, (get_children_sep noise Hnoise) by reflexivity. cbn [filter].
    assert (H : forall k' q', is_type (r_query_x noise k' q') ["bracketed"] = false).
    { intros k' q'. destruct k' as [|k']; [reflexivity|]. destruct q'; reflexivity. }
    rewrite !H. reflexivity.
Qed.

Lemma rq_not_bracketed k q : is_type (r_query_x noise k q) ["bracketed"] = false.
Proof. destruct k as [|k]; [reflexivity|]. destruct q; reflexivity. Qed.

Lemma innermost_brq k q : extract_innermost_bracketed (r_brq (S k) q) = r_brq (S k) q.
Proof.
  unfold extract_innermost_bracketed. destruct (depth_pos (r_brq (S k) q)) as (d & ->). cbn [innermost_fuel].
  assert (E1 : get_child (r_brq (S k) q) ["bracketed"] = None).
  { unfold get_child. u_brq. rewrite (get_children_sep noise Hnoise) by reflexivity. cbn [filter].
    rewrite rq_not_bracketed. reflexivity. }
  rewrite E1. u_brq1. cbn [children node].
  rewrite (flat_map_sep noise Hnoise).
  - cbn [flat_map]. unfold get_child. rewrite brq_children_not_bracketed. reflexivity.
  - intros x Hx. unfold get_child, get_children. rewrite (proj1 (proj2 (noise_seg_facts x Hx))). reflexivity.
Qed.

Lemma gc_brq_inner k q :
  is_body q = true ->
  get_child (r_brq (S k) q) ["select_statement"; "set_expression"; "with_compound_statement"] = Some (r_query_x noise (S k) q).
Proof.
  intros _. unfold get_child. u_brq. rewrite (get_children_sep noise Hnoise) by reflexivity. cbn [filter].
  change (is_type lpar _) with false. change (is_type rpar _) with false. cbn iota.
  destruct q; reflexivity.
Qed.

Lemma is_subquery_brq k q : is_body q = true -> is_subquery (r_brq (S k) q) = Ok true.
Proof.
  intros Hq. unfold is_subquery. change (tyis (r_brq (S k) q) "bracketed") with true. rewrite orb_true_r. cbn iota.
  rewrite innermost_brq, (gc_brq_inner k q Hq). reflexivity.
Qed.

(** *** a derived table *)
Definition te_brq (k : nat) (q : query) : seg := node "table_expression" ["table_expression"] [r_brq k q].

Lemma r_rel_derived k q a :
  r_rel k (RDerived q a) = node "from_expression_element" ["from_expression_element"] (sep noise [te_brq k q; r_alias noise a]).
Proof. reflexivity. Qed.

Lemma lcs_fee_derived k q a b : list_child_segments (r_rel k (RDerived q a)) b = [te_brq k q; r_alias noise a].
Proof. rewrite r_rel_derived, (lcs_node noise Hnoise) by reflexivity. reflexivity. Qed.

Lemma extract_identifier_alias a : extract_identifier (r_alias noise a) = Ok a.
Proof. unfold extract_identifier. rewrite (lcs_alias noise Hnoise). reflexivity. Qed.

Lemma list_subqueries_fee_derived k q a :
  is_body q = true -> list_subqueries_fee (r_rel (S k) (RDerived q a)) = Ok [(r_brq (S k) q, Some a)].
Proof.
  intros Hq. unfold list_subqueries_fee, extract_as_and_target_segment. rewrite lcs_fee_derived. cbn [nth_res nth_error].
  change (tyis (te_brq (S k) q) "keyword") with false. cbn [andb].
  rewrite (is_subquery_other (te_brq (S k) q)) by reflexivity.
  cbn [te_brq children node nth_res nth_error]. rewrite (is_subquery_brq k q Hq).
  assert (E : get_child (r_rel (S k) (RDerived q a)) ["alias_expression"] = Some (r_alias noise a)).
  { unfold get_child. rewrite r_rel_derived, (get_children_sep noise Hnoise) by reflexivity. reflexivity. }
  rewrite E, extract_identifier_alias, innermost_brq. destruct (negb _); reflexivity.
Qed.

Lemma add_dataset_derived k q a g :
  is_body q = true -> add_dataset_from_fee e (r_rel (S k) (RDerived q a)) g = Ok [mk_subquery (r_brq (S k) q) (Some a)].
Proof.
  intros Hq. unfold add_dataset_from_fee. rewrite lcs_fee_derived.
  assert (E : get_child (r_rel (S k) (RDerived q a)) ["table_expression"] = Some (te_brq (S k) q)).
  { unfold get_child. rewrite r_rel_derived, (get_children_sep noise Hnoise) by reflexivity. reflexivity. }
  rewrite E. change (get_child (te_brq (S k) q) ["function"]) with (@None seg). cbn iota.
  cbn [filter]. change (tyis (te_brq (S k) q) "keyword") with false. change (tyis (r_alias noise a) "keyword") with false. cbn [negb].
  cbn [nth_res nth_error]. change (tyis (te_brq (S k) q) "bracketed") with false. cbn [andb].
  replace (list_subqueries (r_rel (S k) (RDerived q a))) with (list_subqueries_fee (r_rel (S k) (RDerived q a))) by reflexivity.
  rewrite (list_subqueries_fee_derived k q a Hq). reflexivity.
Qed.

(** *** WHERE c IN (sub-query) *)
Definition r_where (k : nat) (c : string) (sq : query) : seg :=
  node "where_clause" ["where_clause"]
       (sep noise [kw "where"; node "expression" ["expression"] (sep noise [r_colref None c; kw "in"; r_brq k sq])]).

Lemma r_wh_some k c sq : r_wh k (Some (c, sq)) = [r_where k c sq].
Proof. reflexivity. Qed.

Lemma list_subquery_where k c sq :
  is_body sq = true -> list_subquery (r_where (S k) c sq) = Ok [mk_subquery (r_brq (S k) sq) None].
Proof.
  intros Hq. unfold list_subquery.
  assert (E : get_children (r_where (S k) c sq) ["from_expression"] = []).
  { unfold r_where. rewrite (get_children_sep noise Hnoise) by reflexivity. reflexivity. }
  rewrite E. change (ty_in (r_where (S k) c sq) ["select_clause"; "from_clause"; "where_clause"]) with true. cbn iota.
  unfold list_subqueries. change (tyis (r_where (S k) c sq) "select_clause") with false.
  change (tyis (r_where (S k) c sq) "from_expression_element") with false. change (tyis (r_where (S k) c sq) "where_clause") with true. cbn iota.
  unfold get_child at 1. unfold r_where at 1. rewrite (get_children_sep noise Hnoise) by reflexivity. cbn [filter].
  change (is_type (kw "where") ["expression"]) with false. cbn iota.
  match goal with |- context [is_type ?n ["expression"]] => change (is_type n ["expression"]) with true end. cbn iota.
  rewrite (get_children_sep noise Hnoise) by reflexivity. cbn [filter].
  change (is_type (r_colref None c) ["bracketed"]) with false. change (is_type (kw "in") ["bracketed"]) with false.
  change (is_type (r_brq (S k) sq) ["bracketed"]) with true. cbn iota. cbn [filter_res].
  rewrite (is_subquery_brq k sq Hq). cbn [map]. rewrite innermost_brq. reflexivity.
Qed.

Lemma ise_where k c sq : is_set_expression (r_where k c sq) = false.
Proof.
  unfold is_set_expression. change (tyis (r_where k c sq) "set_expression") with false. cbn [orb]. unfold r_where. cbn [children node].
  rewrite (existsb_sep noise Hnoise) by (intros x Hx; apply noise_tyis; [exact Hx|reflexivity]). reflexivity.
Qed.

Lemma sel_subq1_where k c sq :
  is_body sq = true -> sel_subq1 (r_where (S k) c sq) = Ok [mk_subquery (r_brq (S k) sq) None].
Proof. intros Hq. unfold sel_subq1. rewrite (list_subquery_where k c sq Hq), ise_where. reflexivity. Qed.

Lemma handle_child_where f st k c sq :
  handle_child f e st (r_where k c sq) =
  Ok {| s_g := s_g st; s_tables := s_tables st; s_columns := s_columns st; s_barriers := s_barriers st |}.
Proof.
  unfold handle_child. rewrite (swap_partition_off e Henv). unfold handle_select_into.
  change (ty_in (r_where k c sq) ["into_table_clause"; "into_clause"]) with false. cbn iota.
  unfold list_tables. change (ty_in (r_where k c sq) ["from_clause"; "join_clause"; "update_statement"]) with false. cbn iota.
  change (tyis (r_where k c sq) "select_clause") with false. cbn iota. rewrite !app_nil_r. reflexivity.
Qed.

(** *** join clauses found by the recursive crawl (they include those of nested sub-queries) *)
Fixpoint jrels (k : nat) (q : query) : list (nat * rel) :=
  match k with
  | O => []
  | S k' =>
      match q with
      | QSelect _ from cj wh =>
          (if cj then flat_map (fun r => match r with RDerived q' _ => jrels k' q' | _ => [] end) from
           else match from with
                | [] => []
                | r0 :: rest =>
                    (match r0 with RDerived q' _ => jrels k' q' | _ => [] end) ++
                    flat_map (fun r => (k', r) :: match r with RDerived q' _ => jrels k' q' | _ => [] end) rest
                end)
          ++ match wh with Some (_, sq) => jrels k' sq | None => [] end
      | QUnion a b => jrels k' a ++ jrels k' b
      | QWith _ c b => jrels k' c ++ jrels k' b
      end
  end.

Definition jr (k : nat) (r : rel) : list (nat * rel) := match r with RDerived q' _ => jrels k q' | _ => [] end.

Lemma flat_map_intersperse {B} (f : seg -> list B) x l : f x = [] -> flat_map f (intersperse x l) = flat_map f l.
Proof.
  intros Hx. induction l as [|a [|b r] IH]; [reflexivity|reflexivity|].
  change (intersperse x (a :: b :: r)) with (a :: x :: intersperse x (b :: r)). cbn [flat_map]. rewrite Hx, IH. reflexivity.
Qed.

Lemma clean_item ts i :
  not_trivia ts = true -> existsb (fun x => mem_string x ts) ITEM_TYPES = false -> clean ts (r_item_x noise i).
Proof. apply (clean_item_a noise Hnoise). Qed.

Lemma clean_sc ts items :
  not_trivia ts = true ->
  existsb (fun x => mem_string x ts) ("select_clause" :: ITEM_TYPES) = false ->
  clean ts (r_sc items).
Proof.
  intros Hts H. pose proof H as H0. cbn [existsb] in H0. apply orb_false_iff in H0. destruct H0 as [Esc H0].
  apply (clean_sep_node noise Hnoise); [exact Hts|cbn [existsb]; rewrite Esc; reflexivity|].
  constructor; [apply clean_leaf; apply (avoid_sub _ _ _ H); reflexivity|].
  apply Forall_intersperse; [apply clean_leaf; apply (avoid_sub _ _ _ H); reflexivity|].
  apply Forall_forall. intros x Hx. apply in_map_iff in Hx. destruct Hx as (i & <- & _). apply clean_item; [exact Hts|exact H0].
Qed.

Notation jseg := (jseg noise).
Notation jfee := (jfee noise).
Notation JC := ["join_clause"].

Lemma crawl_kw ts w : existsb (fun x => mem_string x ts) ["keyword"; "raw"; "word"] = false -> crawl ts true (kw w) = [].
Proof. intros H. apply clean_crawl. apply clean_leaf. exact H. Qed.

Lemma crawl_jc_brq k q :
  crawl JC true (r_query_x noise k q) = map jseg (jrels k q) -> crawl JC true (r_brq k q) = map jseg (jrels k q).
Proof.
  intros IH. u_brq. rewrite (crawl_node_miss noise Hnoise) by reflexivity. cbn [flat_map]. rewrite IH.
  change (crawl JC true lpar) with (@nil seg). change (crawl JC true rpar) with (@nil seg). cbn [app]. apply app_nil_r.
Qed.

Lemma crawl_jc_rel k r :
  (forall q, crawl JC true (r_query_x noise k q) = map jseg (jrels k q)) ->
  crawl JC true (r_rel k r) = map jseg (jr k r).
Proof.
  intros IH. destruct r as [t al|q a|x y].
  - apply clean_crawl. apply (clean_rel_table noise Hnoise); reflexivity.
  - rewrite r_rel_derived, (crawl_node_miss noise Hnoise) by reflexivity. cbn [flat_map]. unfold te_brq.
    rewrite crawl_node0_miss by reflexivity. cbn [flat_map]. rewrite (crawl_jc_brq k q (IH q)).
    rewrite (clean_crawl JC true (r_alias noise a)) by (apply (clean_alias noise Hnoise); reflexivity). cbn [app jr]. rewrite !app_nil_r. reflexivity.
  - reflexivity.
Qed.

Lemma crawl_jc_join k r :
  (forall q, crawl JC true (r_query_x noise k q) = map jseg (jrels k q)) ->
  crawl JC true (r_join k r) = jseg (k, r) :: map jseg (jr k r).
Proof.
  intros IH. u_jseg1. cbn [fst snd]. u_rjoin1.
  rewrite (crawl_node_hit noise Hnoise) by reflexivity. f_equal. cbn [flat_map].
  rewrite (crawl_jc_rel k r IH). rewrite (clean_crawl JC true (on_clause noise)) by (apply (clean_on_clause noise Hnoise); reflexivity).
  change (crawl JC true (kw "join")) with (@nil seg). cbn [app]. apply app_nil_r.
Qed.

Lemma crawl_jc k : forall q, crawl JC true (r_query_x noise k q) = map jseg (jrels k q).
Proof.
  induction k as [|k IH]; intros q; [reflexivity|]. destruct q as [items from cj wh|a b|n c b].
  - rewrite r_query_select, (crawl_node_miss noise Hnoise) by reflexivity. rewrite flat_map_app. cbn [flat_map].
    rewrite (clean_crawl JC true (r_sc items)) by (apply clean_sc; reflexivity). cbn [app]. rewrite app_nil_r.
    cbn [jrels]. rewrite map_app. f_equal.
    + u_rfc. rewrite (crawl_node_miss noise Hnoise) by reflexivity. cbn [flat_map].
      change (crawl JC true (kw "from")) with (@nil seg). cbn [app]. destruct cj.
      * rewrite flat_map_intersperse by reflexivity. rewrite flat_map_concat_map, map_map, <- flat_map_concat_map.
        induction from as [|r rs IHf]; [reflexivity|]. cbn [flat_map]. rewrite map_app, IHf. f_equal.
        u_rfe1. rewrite crawl_node0_miss by reflexivity. cbn [flat_map]. rewrite app_nil_r. apply (crawl_jc_rel k r IH).
      * destruct from as [|r0 rest]; [reflexivity|]. cbn [flat_map]. rewrite app_nil_r. u_rfej.
        rewrite (crawl_node_miss noise Hnoise) by reflexivity. cbn [flat_map]. rewrite (crawl_jc_rel k r0 IH), map_app. f_equal.
        induction rest as [|r rs IHf]; [reflexivity|]. cbn [map flat_map]. rewrite (crawl_jc_join k r IH), IHf.
        cbn [app map]. rewrite map_app. reflexivity.
    + destruct wh as [[c sq]|]; [|reflexivity]. c_rwh. rewrite app_nil_r.
      rewrite (crawl_node_miss noise Hnoise) by reflexivity. cbn [flat_map]. change (crawl JC true (kw "where")) with (@nil seg). cbn [app]. rewrite app_nil_r.
      rewrite (crawl_node_miss noise Hnoise) by reflexivity. cbn [flat_map].
      rewrite (clean_crawl JC true (r_colref None c)) by (apply clean_node; [reflexivity|]; repeat constructor; apply clean_leaf; reflexivity).
      change (crawl JC true (kw "in")) with (@nil seg). cbn [app]. rewrite app_nil_r. apply crawl_jc_brq. apply IH.
  - rewrite r_query_union, (crawl_node_miss noise Hnoise) by reflexivity. cbn [flat_map jrels]. rewrite !IH, map_app.
    match goal with |- context [crawl JC true (node "set_operator" ?c ?l)] =>
      rewrite (clean_crawl JC true (node "set_operator" c l)) by (apply (clean_sep_node noise Hnoise); [reflexivity|reflexivity|]; repeat constructor; apply clean_leaf; reflexivity) end.
    cbn [app]. rewrite app_nil_r. reflexivity.
  - rewrite r_query_with, (crawl_node_miss noise Hnoise) by reflexivity. cbn [flat_map jrels]. rewrite !IH, map_app.
    change (crawl JC true (kw "with")) with (@nil seg). cbn [app]. rewrite app_nil_r. f_equal.
    rewrite (crawl_node_miss noise Hnoise) by reflexivity. cbn [flat_map].
    change (crawl JC true (ident n)) with (@nil seg). change (crawl JC true (kw "as")) with (@nil seg). cbn [app]. rewrite app_nil_r.
    apply crawl_jc_brq. apply IH.
Qed.

(** *** the fragment of queries handled by the main induction: no WITH, set operations between plain SELECTs *)
Definition is_sel (q : query) : bool := match q with QSelect _ _ _ _ => true | _ => false end.

Fixpoint body_ok (k : nat) (q : query) : bool :=
  match k with
  | O => false
  | S k' =>
      match q with
      | QSelect items from cj wh =>
          forallb item_ok_a items && negb (match from with [] => true | _ => false end)
          && forallb (fun r => match r with
                               | RTable t al => tref_ok t && match al with Some a => id_ok a | None => true end
                               | RDerived q' a => id_ok a && body_ok k' q'
                               | RGroup _ _ => false
                               end) from
          && match wh with Some (c, sq) => id_ok c && body_ok k' sq | None => true end
      | QUnion a b => is_sel a && is_sel b && body_ok k' a && body_ok k' b
      | QWith _ _ _ => false
      end
  end.

Definition relk_ok (k : nat) (r : rel) : bool :=
  match r with
  | RTable t al => tref_ok t && match al with Some a => id_ok a | None => true end
  | RDerived q' a => id_ok a && body_ok k q'
  | RGroup _ _ => false
  end.

Lemma body_ok_select k items from cj wh :
  body_ok (S k) (QSelect items from cj wh) = true ->
  forallb item_ok_a items = true /\ from <> [] /\ forallb (relk_ok k) from = true /\
  match wh with Some (c, sq) => id_ok c = true /\ body_ok k sq = true | None => True end.
Proof.
  cbn [body_ok]. intros H. apply andb_true_iff in H. destruct H as [H H4]. apply andb_true_iff in H. destruct H as [H H3].
  apply andb_true_iff in H. destruct H as [H1 H2]. split; [exact H1|]. split; [destruct from; [discriminate|discriminate]|].
  split; [exact H3|]. destruct wh as [[c sq]|]; [|exact I]. apply andb_true_iff in H4. exact H4.
Qed.

Lemma body_ok_is_body k q : body_ok k q = true -> is_body q = true.
Proof. destruct k; [discriminate|]. destruct q; [reflexivity|reflexivity|discriminate]. Qed.

Lemma body_ok_pos k q : body_ok k q = true -> exists k', k = S k'.
Proof. destruct k; [discriminate|]. eexists. reflexivity. Qed.

Lemma sc_nonempty k q : body_ok k q = true -> crawl ["select_clause"] true (r_query_x noise k q) <> [].
Proof.
  revert q. induction k as [|k IH]; intros q Hq; [discriminate|]. destruct q as [items from cj wh|a b|n c b]; [| |discriminate].
  - rewrite r_query_select, (crawl_node_miss noise Hnoise) by reflexivity. cbn [app flat_map]. u_rsc.
    rewrite (crawl_node_hit noise Hnoise) by reflexivity. discriminate.
  - cbn [body_ok] in Hq. apply andb_true_iff in Hq. destruct Hq as [Hq Hb]. apply andb_true_iff in Hq. destruct Hq as [Hq Ha].
    rewrite r_query_union, (crawl_node_miss noise Hnoise) by reflexivity. cbn [flat_map]. specialize (IH a Ha).
    destruct (crawl ["select_clause"] true (r_query_x noise k a)); [contradiction|discriminate].
Qed.

Definition jl (k : nat) (r0 : rel) (rest : list rel) : list (nat * rel) :=
  match rest with [] => [] | _ => jr k r0 ++ flat_map (fun r => (k, r) :: jr k r) rest end.

Lemma crawl_jc_fc k r0 rest :
  crawl JC true (r_fc k (r0 :: rest) false) = map jseg (jr k r0 ++ flat_map (fun r => (k, r) :: jr k r) rest).
Proof.
  u_rfc. rewrite (crawl_node_miss noise Hnoise) by reflexivity. cbn [flat_map].
  change (crawl JC true (kw "from")) with (@nil seg). cbn [app]. rewrite app_nil_r. u_rfej.
  rewrite (crawl_node_miss noise Hnoise) by reflexivity. cbn [flat_map]. rewrite (crawl_jc_rel k r0 (crawl_jc k)), map_app. f_equal.
  induction rest as [|r rs IHf]; [reflexivity|]. cbn [map flat_map]. rewrite (crawl_jc_join k r (crawl_jc k)), IHf.
  cbn [app map]. rewrite map_app. reflexivity.
Qed.

Lemma ljc_general k r0 rest :
  relk_ok k r0 = true -> list_join_clause (r_fc k (r0 :: rest) false) = map jseg (jl k r0 rest).
Proof.
  intros H0. unfold list_join_clause. change (ty_in (r_fc k (r0 :: rest) false) _) with true. cbn iota.
  unfold get_child at 1. rewrite (gc_fc_single noise Hnoise).
  destruct rest as [|r1 rs].
  - unfold get_child. u_rfej. rewrite (get_children_sep noise Hnoise) by reflexivity. cbn [map filter].
    change (is_type (r_rel k r0) ["join_clause"]) with false. cbn iota.
    change (node "from_expression" ["from_expression"] (sep noise [r_rel k r0])) with (r_fe1 k r0).
    u_rfe1. rewrite crawl_node0_miss by reflexivity. cbn [flat_map]. rewrite app_nil_r.
    destruct r0 as [t al|q a|x y]; [| |discriminate].
    + rewrite (clean_crawl _ _ (r_rel k (RTable t al))) by (apply (clean_rel_table noise Hnoise); reflexivity).
      rewrite crawl_jc_fc. reflexivity.
    + cbn [relk_ok] in H0. apply andb_true_iff in H0. destruct H0 as [_ Hq].
      assert (Hne : crawl ["select_clause"] true (r_rel k (RDerived q a)) <> []).
      { rewrite r_rel_derived, (crawl_node_miss noise Hnoise) by reflexivity. cbn [flat_map]. unfold te_brq.
        rewrite crawl_node0_miss by reflexivity. cbn [flat_map]. u_brq. rewrite (crawl_node_miss noise Hnoise) by reflexivity. cbn [flat_map].
        change (crawl ["select_clause"] true lpar) with (@nil seg). cbn [app]. pose proof (sc_nonempty k q Hq) as Hs.
        destruct (crawl ["select_clause"] true (r_query_x noise k q)); [contradiction|discriminate]. }
      destruct (crawl ["select_clause"] true (r_rel k (RDerived q a))); [contradiction|reflexivity].
  - unfold get_child. u_rfej. rewrite (get_children_sep noise Hnoise) by reflexivity. cbn [map filter].
    change (is_type (r_rel k r0) ["join_clause"]) with false.
    change (is_type (r_join k r1) ["join_clause"]) with true. cbn iota. apply crawl_jc_fc.
Qed.

(** *** all FROM elements the extractor looks at for one SELECT *)
Definition FL (k : nat) (from : list rel) (cj : bool) : list (nat * rel) :=
  if cj then map (fun r => (k, r)) from
  else match from with [] => [] | r0 :: rest => (k, r0) :: jl k r0 rest end.

Definition fee_ok (p : nat * rel) : Prop := relk_ok (fst p) (snd p) = true.

Definition fee_sqt (p : nat * rel) : list sqtuple :=
  match snd p with RDerived q' a => [(r_brq (fst p) q', Some a)] | _ => [] end.
Definition fee_sq (p : nat * rel) : list dataset := parse_subquery (fee_sqt p).

Lemma fee_subqueries p : fee_ok p -> list_subqueries_fee (jfee p) = Ok (fee_sqt p).
Proof.
  destruct p as [k r]. unfold fee_ok, fee_sqt. u_jfee. cbn [fst snd]. intros H. destruct r as [t al|q a|x y]; [| |discriminate].
  - apply (list_subqueries_fee_table noise Hnoise).
  - cbn [relk_ok] in H. apply andb_true_iff in H. destruct H as [_ Hq]. destruct (body_ok_pos k q Hq) as (k' & ->).
    apply list_subqueries_fee_derived. apply (body_ok_is_body _ _ Hq).
Qed.

Lemma fee_tables p g ctes :
  fee_ok p -> gok g -> cte_rel g ctes ->
  exists ds, add_dataset_from_fee e (jfee p) g = Ok ds /\ Forall data_ok ds /\
             forall x, tnames ds x <-> In x (rel_reads e ctes (snd p)).
Proof.
  destruct p as [k r]. unfold fee_ok. u_jfee. cbn [fst snd]. intros H Hg Hc. destruct r as [t al|q a|x y]; [| |discriminate].
  - cbn [relk_ok] in H. apply andb_true_iff in H. destruct H as [H1 H2].
    apply (add_dataset_table_spec noise Hnoise e Henv); auto. destruct al; auto.
  - cbn [relk_ok] in H. apply andb_true_iff in H. destruct H as [_ Hq]. destruct (body_ok_pos k q Hq) as (k' & ->).
    rewrite (add_dataset_derived k' q a g (body_ok_is_body _ _ Hq)). eexists. split; [reflexivity|]. split.
    + constructor; [|constructor]. unfold data_ok, mk_subquery. cbn [dk dquery]. discriminate.
    + intros x. cbn [rel_reads In]. unfold tnames. split; [|tauto]. intros (v & [Hv|[]] & Hk & _). subst v. discriminate.
Qed.

Lemma FL_comma k from : FL k from true = map (fun r => (k, r)) from.
Proof. reflexivity. Qed.

Lemma concat_res_ok {A B} (f : A -> res (list B)) (h : A -> list B) l :
  (forall x, In x l -> f x = Ok (h x)) -> concat_res (map f l) = Ok (flat_map h l).
Proof.
  induction l as [|x r IH]; intros H; [reflexivity|]. cbn [map concat_res flat_map].
  rewrite (H x (or_introl eq_refl)), IH; [reflexivity|]. intros y Hy. apply H. right. exact Hy.
Qed.

Lemma parse_subquery_app a b : parse_subquery (a ++ b) = parse_subquery a ++ parse_subquery b.
Proof. unfold parse_subquery. apply map_app. Qed.

Lemma parse_subquery_flat {A} (h : A -> list sqtuple) l :
  parse_subquery (flat_map h l) = flat_map (fun x => parse_subquery (h x)) l.
Proof. induction l as [|x r IH]; [reflexivity|]. cbn [flat_map]. rewrite parse_subquery_app, IH. reflexivity. Qed.

Lemma list_subquery_fc k from cj :
  from <> [] -> Forall fee_ok (FL k from cj) ->
  list_subquery (r_fc k from cj) = Ok (flat_map fee_sq (FL k from cj)).
Proof.
  intros Hne Hok.
  assert (Hjoin : forall r0 rest, Forall fee_ok ((k, r0) :: jl k r0 rest) ->
            list_subquery (r_fc k (r0 :: rest) false) = Ok (flat_map fee_sq ((k, r0) :: jl k r0 rest))).
  { intros r0 rest Hall. inversion Hall as [|p l H0 Hl]. subst.
    rewrite (list_subquery_fc_join noise Hnoise), (list_subqueries_fc_join noise Hnoise k r0 rest _ (ljc_general k r0 rest H0)).
    change (r_rel k r0) with (jfee (k, r0)). rewrite (fee_subqueries (k, r0) H0).
    rewrite (concat_res_ok (fun p => list_subqueries_fee (jfee p)) fee_sqt).
    - cbn [flat_map]. unfold fee_sq at 1. rewrite parse_subquery_app, parse_subquery_flat. reflexivity.
    - intros p Hp. apply fee_subqueries. rewrite Forall_forall in Hl. apply Hl. exact Hp. }
  destruct cj.
  - destruct from as [|r1 [|r2 rest]]; [contradiction| |].
    + rewrite r_fc_single_comma. apply (Hjoin r1 []). exact Hok.
    + rewrite (list_subquery_fc_comma noise Hnoise). rewrite FL_comma in *.
      assert (E : map_res list_subqueries (map (r_fe1 k) (r1 :: r2 :: rest)) = Ok (map (fun r => fee_sqt (k, r)) (r1 :: r2 :: rest))).
      { revert Hok. generalize (r1 :: r2 :: rest). induction l as [|r rs IH]; intros Hok; [reflexivity|]. cbn [map map_res] in *.
        inversion Hok. subst. rewrite list_subqueries_fe1. change (r_rel k r) with (jfee (k, r)). rewrite (fee_subqueries (k, r) H1).
        rewrite (IH H2), app_nil_r. reflexivity. }
      rewrite E. f_equal. generalize (r1 :: r2 :: rest). induction l as [|r rs IH]; [reflexivity|]. cbn [map flat_map]. rewrite IH. reflexivity.
  - destruct from as [|r0 rest]; [contradiction|]. apply (Hjoin r0 rest). exact Hok.
Qed.

Lemma list_tables_fc k from cj g ctes :
  from <> [] -> Forall fee_ok (FL k from cj) -> gok g -> cte_rel g ctes ->
  exists ds, list_tables e (r_fc k from cj) g = Ok ds /\ Forall data_ok ds /\
             forall x, tnames ds x <-> In x (flat_map (fun p => rel_reads e ctes (snd p)) (FL k from cj)).
Proof.
  intros Hne Hok Hg Hc.
  assert (Hper : forall p, In p (FL k from cj) -> exists ds, add_dataset_from_fee e (jfee p) g = Ok ds /\ Forall data_ok ds /\
                                                   forall x, tnames ds x <-> In x (rel_reads e ctes (snd p))).
  { intros p Hp. rewrite Forall_forall in Hok. apply fee_tables; auto. }
  assert (Hjoin : forall r0 rest, FL k from cj = (k, r0) :: jl k r0 rest ->
            exists ds, list_tables e (r_fc k (r0 :: rest) false) g = Ok ds /\ Forall data_ok ds /\
                       forall x, tnames ds x <-> In x (flat_map (fun p => rel_reads e ctes (snd p)) (FL k from cj))).
  { intros r0 rest EF. rewrite EF in *. inversion Hok as [|p l H0 Hl]. subst.
    rewrite (list_tables_fc_join noise Hnoise e k r0 rest g _ (ljc_general k r0 rest H0)).
    destruct (Hper (k, r0) (or_introl eq_refl)) as (d0 & E0 & Hd0 & Hx0). change (r_rel k r0) with (jfee (k, r0)). rewrite E0.
    destruct (concat_res_tnames (fun p => add_dataset_from_fee e (jfee p) g) (fun p => rel_reads e ctes (snd p)) (jl k r0 rest))
      as (ds & E & Hd & Hx).
    { intros p Hp. apply Hper. right. exact Hp. }
    rewrite E. exists (d0 ++ ds). split; [reflexivity|]. split; [apply Forall_app; auto|].
    intros x. rewrite tnames_app, Hx0, Hx. cbn [flat_map]. rewrite in_app_iff. reflexivity. }
  destruct cj.
  - destruct from as [|r1 [|r2 rest]]; [contradiction| |].
    + rewrite r_fc_single_comma. apply (Hjoin r1 []). reflexivity.
    + rewrite (list_tables_fc_comma noise Hnoise). rewrite FL_comma in *.
      destruct (concat_res_tnames (fun p => add_dataset_from_fee e (jfee p) g) (fun p => rel_reads e ctes (snd p)) (map (fun r => (k, r)) (r1 :: r2 :: rest)) Hper)
        as (ds & E & Hd & Hx).
      rewrite map_map in E. exists ds. split; [exact E|]. auto.
  - destruct from as [|r0 rest]; [contradiction|]. apply (Hjoin r0 rest). reflexivity.
Qed.

(** *** the specification on the fragment, and what the nested join clauses contribute *)
Fixpoint qd (k : nat) (q : query) : nat :=
  match k with
  | O => O
  | S k' =>
      match q with
      | QSelect items from _ wh =>
          S (Nat.max (items_fuel items)
               (Nat.max (fold_right Nat.max 0 (map (fun r => match r with RDerived q' _ => qd k' q' | _ => 0 end) from))
                        (match wh with Some (_, sq) => qd k' sq | None => 0 end)))
      | QUnion a b => S (Nat.max (qd k' a) (qd k' b))
      | QWith _ c b => S (Nat.max (qd k' c) (qd k' b))
      end
  end.

Section SpecSide.
Variable ctes : list string.
Notation ds := (e_cfg e).

Definition rr (k : nat) (r : rel) : list string :=
  match r with
  | RTable _ _ => rel_reads e ctes r
  | RDerived q' _ => q_reads k ds ctes q'
  | RGroup _ _ => []
  end.

Lemma rels_flat_ok k from : forallb (relk_ok k) from = true -> flat_map rels_flat from = from.
Proof.
  induction from as [|r rs IH]; [reflexivity|]. cbn [forallb flat_map]. intros H. apply andb_true_iff in H. destruct H as [H1 H2].
  rewrite (IH H2). destruct r; try discriminate; reflexivity.
Qed.

Lemma q_reads_select k items from cj wh :
  forallb (relk_ok k) from = true ->
  q_reads (S k) ds ctes (QSelect items from cj wh) =
  flat_map (rr k) from ++ match wh with Some (_, sq) => q_reads k ds ctes sq | None => [] end.
Proof.
  intros H. cbn [q_reads]. rewrite (rels_flat_ok k from H). f_equal. apply flat_map_ext_in'.
  intros r Hr. rewrite forallb_forall in H. specialize (H r Hr). destruct r as [t al|q a|x y]; try discriminate; reflexivity.
Qed.

Lemma fold_max_le (f : rel -> nat) r l : In r l -> f r <= fold_right Nat.max 0 (map f l).
Proof.
  induction l as [|a rs IH]; intros H; [destruct H|]. cbn [map fold_right]. destruct H as [H|H]; [subst; lia|]. specialize (IH H). lia.
Qed.

Definition p_props (K : nat) (Q : query) (p : nat * rel) : Prop :=
  fee_ok p /\ fst p < K /\ incl (rel_reads e ctes (snd p)) (q_reads K ds ctes Q) /\
  match snd p with
  | RDerived q'' _ => incl (q_reads (fst p) ds ctes q'') (q_reads K ds ctes Q) /\ qd (fst p) q'' < qd K Q
  | _ => True
  end.

Lemma p_props_weaken K Q K' Q' p :
  p_props K Q p -> K <= K' -> incl (q_reads K ds ctes Q) (q_reads K' ds ctes Q') -> qd K Q <= qd K' Q' -> p_props K' Q' p.
Proof.
  intros (H1 & H2 & H3 & H4) Hk Hi Hd. split; [exact H1|]. split; [lia|]. split; [intros x Hx; apply Hi; apply H3; exact Hx|].
  destruct (snd p); auto. destruct H4 as [H4 H5]. split; [intros x Hx; apply Hi; apply H4; exact Hx|lia].
Qed.

Lemma direct_props k items from cj wh r :
  forallb (relk_ok k) from = true -> In r from -> p_props (S k) (QSelect items from cj wh) (k, r).
Proof.
  intros Hall Hr. pose proof Hall as Hall'. rewrite forallb_forall in Hall. specialize (Hall r Hr).
  assert (Hi : incl (rr k r) (q_reads (S k) ds ctes (QSelect items from cj wh))).
  { rewrite (q_reads_select k items from cj wh Hall'). intros x Hx. apply in_app_iff. left. apply in_flat_map. exists r. auto. }
  split; [exact Hall|]. split; [cbn [fst]; lia|]. cbn [fst snd]. split.
  - destruct r as [t al|q a|x y]; [exact Hi|intros z []|intros z []].
  - destruct r as [t al|q a|x y]; auto. split; [exact Hi|]. cbn [qd].
    pose proof (fold_max_le (fun r => match r with RDerived q' _ => qd k q' | _ => 0 end) (RDerived q a) from Hr). cbn beta iota in H. lia.
Qed.

Lemma jrels_props : forall k q p, body_ok k q = true -> In p (jrels k q) -> p_props k q p.
Proof.
  induction k as [|k IH]; intros q p Hq Hp; [discriminate|]. destruct q as [items from cj wh|a b|n c b]; [| |discriminate].
  - destruct (body_ok_select k items from cj wh Hq) as (_ & _ & Hrels & Hwh). cbn [jrels] in Hp. apply in_app_iff in Hp.
    assert (Hjr : forall r, In r from -> In p (jr k r) -> p_props (S k) (QSelect items from cj wh) p).
    { intros r Hr Hpr. pose proof (direct_props k items from cj wh r Hrels Hr) as (D1 & _ & _ & D4). cbn [fst snd] in *.
      destruct r as [t al|q a|x y]; try destruct Hpr. cbn [jr] in Hpr. unfold fee_ok in D1. cbn [fst snd relk_ok] in D1.
      apply andb_true_iff in D1. destruct D1 as [_ D1]. destruct D4 as [D4 D5].
      apply (p_props_weaken k q); [apply IH; assumption|lia|exact D4|lia]. }
    destruct Hp as [Hp|Hp].
    + destruct cj.
      * apply in_flat_map in Hp. destruct Hp as (r & Hr & Hp). apply (Hjr r Hr). exact Hp.
      * destruct from as [|r0 rest]; [destruct Hp|]. apply in_app_iff in Hp. destruct Hp as [Hp|Hp]; [apply (Hjr r0 (or_introl eq_refl)); exact Hp|].
        apply in_flat_map in Hp. destruct Hp as (r & Hr & [Hp|Hp]).
        -- subst p. apply direct_props; [exact Hrels|right; exact Hr].
        -- apply (Hjr r (or_intror Hr)). exact Hp.
    + destruct wh as [[c sq]|]; [|destruct Hp]. destruct Hwh as [_ Hsq].
      apply (p_props_weaken k sq); [apply IH; assumption|lia| |cbn [qd]; lia].
      rewrite (q_reads_select k items from cj _ Hrels). intros x Hx. apply in_app_iff. right. exact Hx.
  - cbn [body_ok] in Hq. apply andb_true_iff in Hq. destruct Hq as [Hq Hb]. apply andb_true_iff in Hq. destruct Hq as [_ Ha].
    cbn [jrels] in Hp. apply in_app_iff in Hp. destruct Hp as [Hp|Hp].
    + apply (p_props_weaken k a); [apply IH; assumption|lia| |cbn [qd]; lia]. cbn [q_reads]. intros x Hx. apply in_app_iff. left. exact Hx.
    + apply (p_props_weaken k b); [apply IH; assumption|lia| |cbn [qd]; lia]. cbn [q_reads]. intros x Hx. apply in_app_iff. right. exact Hx.
Qed.

Lemma FL_props k items from cj wh p :
  body_ok (S k) (QSelect items from cj wh) = true -> In p (FL k from cj) -> p_props (S k) (QSelect items from cj wh) p.
Proof.
  intros Hq Hp. destruct (body_ok_select k items from cj wh Hq) as (_ & _ & Hrels & _).
  assert (Hjr : forall r, In r from -> In p (jr k r) -> p_props (S k) (QSelect items from cj wh) p).
  { intros r Hr Hpr. pose proof (direct_props k items from cj wh r Hrels Hr) as (D1 & _ & _ & D4). cbn [fst snd] in *.
    destruct r as [t al|q a|x y]; try destruct Hpr. cbn [jr] in Hpr. unfold fee_ok in D1. cbn [fst snd relk_ok] in D1.
    apply andb_true_iff in D1. destruct D1 as [_ D1]. destruct D4 as [D4 D5].
    apply (p_props_weaken k q); [apply jrels_props; assumption|lia|exact D4|lia]. }
  unfold FL in Hp. destruct cj.
  - apply in_map_iff in Hp. destruct Hp as (r & <- & Hr). apply direct_props; assumption.
  - destruct from as [|r0 rest]; [destruct Hp|]. destruct Hp as [Hp|Hp]; [subst p; apply direct_props; [exact Hrels|left; reflexivity]|].
    unfold jl in Hp. destruct rest as [|r1 rs]; [destruct Hp|]. apply in_app_iff in Hp.
    destruct Hp as [Hp|Hp]; [apply (Hjr r0 (or_introl eq_refl)); exact Hp|].
    apply in_flat_map in Hp. destruct Hp as (r & Hr & [Hp|Hp]).
    + subst p. apply direct_props; [exact Hrels|right; exact Hr].
    + apply (Hjr r (or_intror Hr)). exact Hp.
Qed.

Lemma FL_covers k from cj r : In r from -> In (k, r) (FL k from cj).
Proof.
  intros Hr. unfold FL. destruct cj; [apply in_map_iff; exists r; auto|].
  destruct from as [|r0 rest]; [destruct Hr|]. destruct Hr as [Hr|Hr]; [left; subst; reflexivity|]. right.
  unfold jl. destruct rest as [|r1 rs]; [destruct Hr|]. apply in_app_iff. right. apply in_flat_map. exists r. split; [exact Hr|left; reflexivity].
Qed.

End SpecSide.

(** *** the holder a sub-query starts from *)
Lemma fold_add_cte L : forall g,
  gok g -> Forall data_ok L -> noeqb L -> (forall c, In c L -> has_node g (NData c) = false) ->
  gok (fold_left add_cte L g) /\
  gnodes (fold_left add_cte L g) = gnodes g ++ map (fun c => (NData c, [("cte", true)])) L.
Proof.
  induction L as [|c r IH]; intros g Hg Hd Hn Hnew; cbn [fold_left map].
  - rewrite app_nil_r. auto.
  - inversion Hd. subst. cbn [noeqb] in Hn. destruct Hn as [Hn1 Hn2].
    assert (E : gnodes (add_cte g c) = gnodes g ++ [(NData c, [("cte", true)])]).
    { unfold add_cte, add_node. cbn [gnodes]. apply upsert_new. apply (Hnew c). left. reflexivity. }
    destruct (IH (add_cte g c)) as [I1 I2]; auto.
    + apply gok_add_tag; assumption.
    + intros c' Hc'. unfold has_node. rewrite E, has_node_l_app. cbn [has_node_l node_eqb]. rewrite orb_false_r.
      rewrite (dataset_eqb_sym c' c), (Hn1 c' Hc'), orb_false_r. apply (Hnew c'). right. exact Hc'.
    + split; [exact I1|]. rewrite I2, E, <- app_assoc. reflexivity.
Qed.

Lemma hn_cte_nodes L k : hn (map (fun c => (NData c, [("cte", true)])) L) k = if String.eqb k "cte" then L else [].
Proof.
  induction L as [|c r IH]; [destruct (String.eqb k "cte"); reflexivity|]. cbn [map]. unfold hn in *. cbn [flat_map fst snd]. rewrite IH.
  unfold attr_true. cbn [attr_get]. destruct (String.eqb k "cte"); reflexivity.
Qed.

Lemma init_sub L sq :
  noeqb L -> Forall data_ok L -> data_ok sq -> dk sq = KSubq ->
  let g0 := init_holder {| c_cte := Some L; c_write := Some [sq]; c_write_columns := None |} in
  gok g0 /\ sq_cte g0 = L /\ holder_nodes g0 "read" = [] /\
  (forall d, In d (holder_nodes g0 "write") -> dataset_eqb sq d = true).
Proof.
  intros Hn Hd Hsq Hk. cbn [init_holder c_cte c_write c_write_columns fold_left].
  destruct (fold_add_cte L empty_graph gok_empty Hd Hn (fun c _ => eq_refl)) as [G1 G2]. cbn [empty_graph gnodes app] in G2.
  set (g1 := fold_left add_cte L empty_graph) in *. unfold add_write.
  split; [apply gok_add_tag; assumption|]. split; [|split].
  - unfold sq_cte. rewrite tag_add_other by discriminate. rewrite holder_nodes_hn, G2, hn_cte_nodes. reflexivity.
  - rewrite tag_add_other by discriminate. rewrite holder_nodes_hn, G2, hn_cte_nodes. reflexivity.
  - intros d Hin. apply tag_add_sound in Hin. destruct Hin as [Hin|Hin]; [|exact Hin].
    rewrite holder_nodes_hn, G2, hn_cte_nodes in Hin. destruct Hin.
Qed.

Lemma one_write_eqb g w : (forall d, In d (holder_nodes g "write") -> dataset_eqb w d = true) -> one_write g.
Proof.
  intros H d1 d2 H1 H2. apply (dataset_eqb_trans d1 w d2); [apply dataset_eqb_true_sym; apply H; exact H1|apply H; exact H2].
Qed.

(** *** the clauses of one SELECT *)
Definition clauses (items : list item) (k : nat) (from : list rel) (cj : bool) (wh : option (string * query)) : list seg :=
  [r_sc items; r_fc k from cj] ++ r_wh k wh.

Definition wh_sq (k : nat) (wh : option (string * query)) : list dataset :=
  match wh with Some (_, sq) => [mk_subquery (r_brq k sq) None] | None => [] end.

Definition sel_sq (k : nat) (from : list rel) (cj : bool) (wh : option (string * query)) : list dataset :=
  flat_map fee_sq (FL k from cj) ++ wh_sq k wh.

Lemma FL_ok k items from cj wh :
  body_ok (S k) (QSelect items from cj wh) = true -> Forall fee_ok (FL k from cj).
Proof. intros Hq. apply Forall_forall. intros p Hp. exact (proj1 (FL_props [] k items from cj wh p Hq Hp)). Qed.

Lemma clauses_subq k items from cj wh :
  body_ok (S k) (QSelect items from cj wh) = true ->
  concat_res (map sel_subq1 (clauses items k from cj wh)) = Ok (sel_sq k from cj wh) /\
  concat_res (map list_subquery (clauses items k from cj wh)) = Ok (sel_sq k from cj wh).
Proof.
  intros Hq. destruct (body_ok_select k items from cj wh Hq) as (Hit & Hne & Hrels & Hwh).
  pose proof (FL_ok k items from cj wh Hq) as Hfl.
  unfold clauses, sel_sq. cbn [app map concat_res].
  rewrite (sel_subq1_sc noise Hnoise items Hit), (list_subquery_sc noise Hnoise items Hit).
  unfold sel_subq1 at 1. rewrite (ise_fc noise Hnoise), (list_subquery_fc k from cj Hne Hfl).
  destruct wh as [[c sq]|].
  - destruct Hwh as [_ Hsq]. destruct (body_ok_pos k sq Hsq) as (k' & ->). rewrite r_wh_some. cbn [map concat_res].
    rewrite (sel_subq1_where k' c sq (body_ok_is_body _ _ Hsq)), (list_subquery_where k' c sq (body_ok_is_body _ _ Hsq)).
    cbn [app wh_sq]. rewrite !app_nil_r. split; reflexivity.
  - cbn [r_wh map concat_res app wh_sq]. rewrite !app_nil_r. split; reflexivity.
Qed.

Lemma clauses_fold f st k items from cj wh ctes :
  body_ok (S k) (QSelect items from cj wh) = true -> items_fuel items <= f -> gok (s_g st) -> cte_rel (s_g st) ctes ->
  exists ts cols,
    fold_left (fun acc sg => do st4 <- acc; handle_child (S f) e st4 sg) (clauses items k from cj wh) (Ok st) =
    Ok {| s_g := s_g st; s_tables := s_tables st ++ ts; s_columns := s_columns st ++ cols; s_barriers := s_barriers st |} /\
    Forall data_ok ts /\ Forall xcol_ok cols /\
    forall x, tnames ts x <-> In x (flat_map (fun p => rel_reads e ctes (snd p)) (FL k from cj)).
Proof.
  intros Hq Hfu Hg Hc. destruct (body_ok_select k items from cj wh Hq) as (Hit & Hne & Hrels & Hwh).
  pose proof (FL_ok k items from cj wh Hq) as Hfl.
  unfold clauses. cbn [app fold_left].
  destruct (handle_child_sc noise Hnoise e Henv f st items Hit Hfu) as (cols & E1 & Hcols). rewrite E1.
  rewrite (handle_child_fc noise e Henv). cbn [s_g s_tables s_columns s_barriers].
  destruct (list_tables_fc k from cj (s_g st) ctes Hne Hfl Hg Hc) as (ts & E2 & Hts & Hx). rewrite E2.
  exists ts, cols. split; [|auto]. destruct wh as [[c sq]|]; [|reflexivity].
  rewrite r_wh_some. cbn [fold_left]. rewrite handle_child_where. reflexivity.
Qed.

Lemma sel_fold_clauses f l : forall init,
  (forall s, In s l -> is_set_expression s = false) ->
  fold_left (fun acc s => do st0 <- acc; sel_step f e st0 s) l init =
  fold_left (fun acc sg => do st4 <- acc; handle_child f e st4 sg) l init.
Proof.
  induction l as [|s r IH]; intros init H; [reflexivity|]. cbn [fold_left]. rewrite IH by (intros s' Hs'; apply H; right; exact Hs').
  f_equal. destruct init as [st0|err]; [|reflexivity]. unfold sel_step. rewrite (H s (or_introl eq_refl)).
  destruct (handle_child f e st0 s); reflexivity.
Qed.

Lemma clauses_not_set items k from cj wh s : In s (clauses items k from cj wh) -> is_set_expression s = false.
Proof.
  unfold clauses. cbn [app In]. intros [H|[H|H]]; [subst; apply (ise_sc noise Hnoise)|subst; apply (ise_fc noise Hnoise)|].
  destruct wh as [[c sq]|]; [|destruct H]. destruct H as [H|[]]. subst. apply ise_where.
Qed.

(** *** the segments of a (possibly bracketed) query statement *)
Lemma flat_map_single {A} (f : A -> list A) l : (forall x, In x l -> f x = [x]) -> flat_map f l = l.
Proof.
  induction l as [|a r IH]; intros H; [reflexivity|]. cbn [flat_map]. rewrite (H a (or_introl eq_refl)), IH; [reflexivity|].
  intros x Hx. apply H. right. exact Hx.
Qed.

Lemma ise_brq k q : is_set_expression (r_brq k q) = tyis (r_query_x noise k q) "set_expression".
Proof.
  unfold is_set_expression. change (tyis (r_brq k q) "set_expression") with false. cbn [orb]. u_brq. cbn [children node].
  rewrite (existsb_sep noise Hnoise) by (intros x Hx; apply noise_tyis; [exact Hx|reflexivity]). cbn [existsb].
  change (tyis lpar "set_expression") with false. change (tyis rpar "set_expression") with false. cbn [orb]. apply orb_false_r.
Qed.

Lemma In_sep_inv x l : In x (sep noise l) -> In x l \/ In x noise.
Proof.
  induction l as [|a [|b r] IH]; [auto|auto|].
  change (sep noise (a :: b :: r)) with (a :: noise ++ sep noise (b :: r)). intros [H|H]; [left; left; exact H|].
  apply in_app_iff in H. destruct H as [H|H]; [right; exact H|]. destruct (IH H) as [H'|H']; [left; right; exact H'|right; exact H'].
Qed.

Lemma lcs_brq_select k items from cj wh :
  list_child_segments (r_brq (S k) (QSelect items from cj wh)) true = clauses items k from cj wh.
Proof.
  unfold list_child_segments. change (tyis (r_brq (S k) (QSelect items from cj wh)) "bracketed") with true. cbn [andb].
  rewrite ise_brq. rewrite r_query_select at 1. match goal with |- context [tyis (node "select_statement" ?c ?l) "set_expression"] =>
    change (tyis (node "select_statement" c l) "set_expression") with false end. cbn iota.
  assert (E : iter_expanding ["expression"] (r_brq (S k) (QSelect items from cj wh)) = sep noise [lpar; r_query_x noise (S k) (QSelect items from cj wh); rpar]).
  { rewrite TriviaProofs.iter_eq. u_brq. cbn [children node]. apply flat_map_single. intros x Hx.
    apply In_sep_inv in Hx. destruct Hx as [Hx|Hx].
    - cbn [In] in Hx. destruct Hx as [<-|[<-|[<-|[]]]]; reflexivity.
    - rewrite (noise_is_type x ["expression"] (noise_in noise Hnoise x Hx) eq_refl). reflexivity. }
  rewrite E. rewrite (flat_map_sep noise Hnoise).
  - cbn [flat_map]. change (ty_in lpar _) with false. change (ty_in rpar _) with false. cbn iota.
    change (children lpar) with (@nil seg). change (children rpar) with (@nil seg). cbn [filter app]. rewrite app_nil_r.
    rewrite r_query_select. match goal with |- context [ty_in (node "select_statement" ?c ?l) ?ts] =>
      change (ty_in (node "select_statement" c l) ts) with false end. cbn iota. cbn [children node].
    rewrite (filter_sep noise Hnoise) by (apply nn_noise). unfold clauses. destruct wh as [[c sq]|]; reflexivity.
  - intros x Hx. rewrite (noise_ty_in x ["column_reference"; "column_definition"] Hx eq_refl). rewrite (proj1 (proj2 (noise_seg_facts x Hx))). reflexivity.
Qed.

Lemma sel_segments_brq_select k items from cj wh :
  sel_segments (r_brq (S k) (QSelect items from cj wh)) = clauses items k from cj wh.
Proof. unfold sel_segments. change (tyis (r_brq (S k) (QSelect items from cj wh)) "set_expression") with false. cbn iota. apply lcs_brq_select. Qed.

Lemma sel_segments_top_select k items from cj wh :
  sel_segments (r_query_x noise (S k) (QSelect items from cj wh)) = clauses items k from cj wh.
Proof. rewrite r_query_select. apply (sel_segments_select noise Hnoise). Qed.

Lemma lcs_top_select k items from cj wh b :
  list_child_segments (r_query_x noise (S k) (QSelect items from cj wh)) b = clauses items k from cj wh.
Proof. rewrite r_query_select, (lcs_node noise Hnoise) by reflexivity. unfold clauses. destruct wh as [[c sq]|]; reflexivity. Qed.

Lemma sel_segments_union k a b : sel_segments (r_query_x noise (S k) (QUnion a b)) = [r_query_x noise (S k) (QUnion a b)].
Proof. reflexivity. Qed.

Lemma sel_segments_brq_union k a b : sel_segments (r_brq (S k) (QUnion a b)) = [r_query_x noise (S k) (QUnion a b)].
Proof.
  unfold sel_segments. change (tyis (r_brq (S k) (QUnion a b)) "set_expression") with false. cbn iota.
  unfold list_child_segments. change (tyis (r_brq (S k) (QUnion a b)) "bracketed") with true. cbn [andb].
  rewrite ise_brq. change (tyis (r_query_x noise (S k) (QUnion a b)) "set_expression") with true. cbn iota.
  u_brq. cbn [children node]. rewrite (filter_sep noise Hnoise) by (intros x Hx; apply noise_tyis; [exact Hx|reflexivity]). reflexivity.
Qed.

(** *** pre- and post-conditions of one extraction *)
Definition Pre (g0 : graph) (ctes : list string) : Prop := gok g0 /\ cte_rel g0 ctes /\ one_write g0.

Definition Post (g0 g : graph) (reads : list string) : Prop :=
  gok g /\
  (forall x, tset g "read" x <-> tset g0 "read" x \/ In x reads) /\
  (forall d, In d (holder_nodes g "write") -> In d (holder_nodes g0 "write")) /\
  (forall d, In d (holder_nodes g0 "write") -> dk d <> KSubq -> In d (holder_nodes g "write")) /\
  (forall d, In d (sq_cte g) <-> In d (sq_cte g0)).

Lemma Post_refl g : gok g -> Post g g [].
Proof. intros H. split; [exact H|]. split; [intros x; cbn [In]; tauto|]. split; [auto|]. split; [auto|]. intros d. reflexivity. Qed.

Lemma Post_trans g0 g1 g2 r1 r2 : Post g0 g1 r1 -> Post g1 g2 r2 -> Post g0 g2 (r1 ++ r2).
Proof.
  intros (A1 & A2 & A3 & A4 & A5) (B1 & B2 & B3 & B4 & B5). split; [exact B1|]. split; [|split; [|split]].
  - intros x. rewrite B2, A2, in_app_iff. tauto.
  - intros d Hd. apply A3. apply B3. exact Hd.
  - intros d Hd Hk. apply B4; [apply A4; assumption|exact Hk].
  - intros d. rewrite B5, A5. reflexivity.
Qed.

Lemma Post_reads_ext g0 g r1 r2 : (forall x, In x r1 <-> In x r2) -> Post g0 g r1 -> Post g0 g r2.
Proof.
  intros H (A1 & A2 & A3 & A4 & A5). split; [exact A1|]. split; [|auto]. intros x. rewrite A2, H. reflexivity.
Qed.

Lemma Pre_Post g0 g ctes r : Pre g0 ctes -> Post g0 g r -> Pre g ctes.
Proof.
  intros (P1 & [P2 P2'] & P3) (A1 & A2 & A3 & A4 & A5). split; [exact A1|]. split.
  - split.
    + intros c Hc. apply P2. apply A5. exact Hc.
    + intros n Hn. destruct (P2' n Hn) as (c & Hc & Hal). exists c. split; [apply A5; exact Hc|exact Hal].
  - intros d1 d2 H1 H2. apply P3; apply A3; assumption.
Qed.

Definition sqT := (nat * query * option string)%type.
Definition mk_sq (t : sqT) : dataset := mk_subquery (r_brq (fst (fst t)) (snd (fst t))) (snd t).

Section SubQ.
Variable ctes : list string.
Variable K : nat.
Hypothesis IHK : forall k q f ctx,
  k < K -> body_ok k q = true -> qd k q < f -> Pre (init_holder ctx) ctes ->
  exists g, extract f e XSelect (r_brq k q) ctx = Ok g /\ Post (init_holder ctx) g (q_reads k (e_cfg e) ctes q).

Lemma gc_brq_with k q : body_ok k q = true -> get_child (r_brq k q) ["with_compound_statement"] = None.
Proof.
  intros Hq. destruct (body_ok_pos k q Hq) as (k' & ->). unfold get_child. u_brq. rewrite (get_children_sep noise Hnoise) by reflexivity.
  cbn [filter]. change (is_type lpar _) with false. change (is_type rpar _) with false. cbn iota.
  destruct q; [reflexivity|reflexivity|discriminate].
Qed.

Lemma ex_subquery_cons f sq rest g :
  ex_subquery f e (sq :: rest) g =
  match (match dquery sq with
         | None => Err "AttributeError"
         | Some q =>
             let cls := match get_child q ["with_compound_statement"] with Some _ => XCte | None => XSelect end in
             do sh <- extract f e cls q {| c_cte := Some (sq_cte g); c_write := Some [sq]; c_write_columns := None |};
             Ok (compose g (set_attr sh [NData sq] "write" false))
         end) with
  | Ok g' => ex_subquery f e rest g'
  | Err x => Err x
  end.
Proof.
  unfold ex_subquery. cbn [fold_left]. destruct (match dquery sq with Some _ => _ | None => _ end) as [g'|x]; [reflexivity|].
  induction rest as [|a r IH]; [reflexivity|]. cbn [fold_left]. exact IH.
Qed.

Lemma sub_step f t g0 :
  fst (fst t) < K -> body_ok (fst (fst t)) (snd (fst t)) = true -> qd (fst (fst t)) (snd (fst t)) < f -> Pre g0 ctes ->
  exists sh, extract f e XSelect (r_brq (fst (fst t)) (snd (fst t)))
                     {| c_cte := Some (sq_cte g0); c_write := Some [mk_sq t]; c_write_columns := None |} = Ok sh /\
             Post g0 (compose g0 (set_attr sh [NData (mk_sq t)] "write" false)) (q_reads (fst (fst t)) (e_cfg e) ctes (snd (fst t))).
Proof.
  destruct t as [[k q] al]. cbn [fst snd]. intros Hk Hq Hf (P1 & P2 & P3).
  set (sq := mk_sq (k, q, al)). set (ctx := {| c_cte := Some (sq_cte g0); c_write := Some [sq]; c_write_columns := None |}).
  assert (Hsq : data_ok sq /\ dk sq = KSubq) by (split; [unfold data_ok; cbn; discriminate|reflexivity]).
  assert (HL : Forall data_ok (sq_cte g0)) by (apply Forall_forall; intros c Hc; apply (gok_data g0 c "cte" P1 Hc)).
  assert (HN : noeqb (sq_cte g0)) by (unfold sq_cte; rewrite holder_nodes_hn; apply hn_noeqb; exact (proj1 (proj1 P1))).
  destruct (init_sub (sq_cte g0) sq HN HL (proj1 Hsq) (proj2 Hsq)) as (I1 & I2 & I3 & I4). fold ctx in I1, I2, I3, I4.
  assert (Hpre : Pre (init_holder ctx) ctes).
  { split; [exact I1|]. split; [|apply (one_write_eqb _ sq); exact I4]. destruct P2 as [C1 C2]. split.
    - intros c Hc. rewrite I2 in Hc. apply C1. exact Hc.
    - intros n Hn. rewrite I2. apply C2. exact Hn. }
  destruct (IHK k q f ctx Hk Hq Hf Hpre) as (sh & E & (A1 & A2 & A3 & A4 & A5)). exists sh. split; [exact E|].
  pose proof (gok_set_attr_write sh sq A1 (proj2 Hsq)) as Hsa.
  split; [apply gok_compose; assumption|]. split; [|split; [|split]].
  - intros x. rewrite (tset_compose g0 _ "read" x P1 Hsa) by discriminate.
    rewrite (tset_ext sh _ "read" x (tag_set_attr_other sh _ "write" false "read" ltac:(discriminate))), A2.
    unfold tset at 2. rewrite I3. split; [intros [H|[(d & [] & _)|H]]; auto|intros [H|H]; auto].
  - intros d Hd. destruct (tag_compose_sound g0 _ "write" d Hsa Hd) as [H|(d' & Hd' & Ed)]; [exact H|].
    apply tag_set_attr_write in Hd'. destruct Hd' as [Hd' Hne]. apply A3 in Hd'. apply I4 in Hd'.
    rewrite dataset_eqb_sym in Hne. fold sq in Hne. congruence.
  - intros d Hd Hdk. apply tag_compose_mono; [exact Hsa|right; exact Hdk|exact Hd].
  - intros d. split.
    + intros Hd. destruct (tag_compose_sound g0 _ "cte" d Hsa Hd) as [H|(d' & Hd' & Ed)]; [exact H|].
      unfold sq_cte in *. rewrite (tag_set_attr_other sh _ "write" false "cte") in Hd' by discriminate.
      apply A5 in Hd'. rewrite I2 in Hd'.
      assert (Hd'' : In d' (holder_nodes (compose g0 (set_attr sh [NData sq] "write" false)) "cte")).
      { apply tag_compose_mono; [exact Hsa|left; discriminate|exact Hd']. }
      rewrite <- (tagged_eqb_eq _ "cte" "cte" d' d (gok_compose _ _ P1 Hsa) Hd'' Hd Ed). exact Hd'.
    + intros Hd. apply tag_compose_mono; [exact Hsa|left; discriminate|exact Hd].
Qed.

Lemma ex_subquery_ok f (T : list sqT) : forall g0,
  Forall (fun t => fst (fst t) < K /\ body_ok (fst (fst t)) (snd (fst t)) = true /\ qd (fst (fst t)) (snd (fst t)) < f) T ->
  Pre g0 ctes ->
  exists g1, ex_subquery f e (map mk_sq T) g0 = Ok g1 /\
             Post g0 g1 (flat_map (fun t => q_reads (fst (fst t)) (e_cfg e) ctes (snd (fst t))) T).
Proof.
  induction T as [|t T' IH]; intros g0 HT Hpre.
  - exists g0. split; [reflexivity|]. apply Post_refl. exact (proj1 Hpre).
  - inversion HT as [|t0 l (H1 & H2 & H3) HT']. subst. cbn [map]. rewrite ex_subquery_cons.
    assert (Edq : dquery (mk_sq t) = Some (r_brq (fst (fst t)) (snd (fst t)))) by reflexivity. rewrite Edq.
    rewrite (gc_brq_with _ _ H2). cbv zeta.
    destruct (sub_step f t g0 H1 H2 H3 Hpre) as (sh & E & HP). rewrite E.
    destruct (IH _ HT' (Pre_Post _ _ _ _ Hpre HP)) as (g1 & E1 & HP1). exists g1. split; [exact E1|].
    cbn [flat_map]. apply (Post_trans _ _ _ _ _ HP HP1).
Qed.

(** the sub-queries of one SELECT, as (fuel, query, alias) triples *)
Definition fee_T (p : nat * rel) : list sqT := match snd p with RDerived q' a => [(fst p, q', Some a)] | _ => [] end.
Definition sel_T (k : nat) (from : list rel) (cj : bool) (wh : option (string * query)) : list sqT :=
  flat_map fee_T (FL k from cj) ++ match wh with Some (_, sq) => [(k, sq, None)] | None => [] end.

Lemma sel_sq_T k from cj wh : sel_sq k from cj wh = map mk_sq (sel_T k from cj wh).
Proof.
  unfold sel_sq, sel_T. rewrite map_app. f_equal.
  - induction (FL k from cj) as [|p l IH]; [reflexivity|]. cbn [flat_map]. rewrite map_app, IH. f_equal.
    destruct p as [k' r]. destruct r; reflexivity.
  - destruct wh as [[c sq]|]; reflexivity.
Qed.

Lemma sel_T_ok k items from cj wh :
  body_ok (S k) (QSelect items from cj wh) = true ->
  Forall (fun t : sqT => fst (fst t) < S k /\ body_ok (fst (fst t)) (snd (fst t)) = true /\
                         qd (fst (fst t)) (snd (fst t)) < qd (S k) (QSelect items from cj wh)) (sel_T k from cj wh).
Proof.
  intros Hq. unfold sel_T. apply Forall_app. split.
  - apply Forall_forall. intros t Ht. apply in_flat_map in Ht. destruct Ht as (p & Hp & Ht).
    destruct (FL_props ctes k items from cj wh p Hq Hp) as (P1 & P2 & _ & P4).
    destruct p as [k' r]. unfold fee_T in Ht. cbn [fst snd] in *. destruct r as [t0 al|q' a|x y]; [destruct Ht| |destruct Ht].
    destruct Ht as [<-|[]]. cbn [fst snd]. unfold fee_ok in P1. cbn [fst snd relk_ok] in P1. apply andb_true_iff in P1.
    split; [exact P2|]. split; [exact (proj2 P1)|exact (proj2 P4)].
  - destruct (body_ok_select k items from cj wh Hq) as (_ & _ & _ & Hwh). destruct wh as [[c sq]|]; [|constructor].
    constructor; [|constructor]. cbn [fst snd]. split; [lia|]. split; [exact (proj2 Hwh)|]. cbn [qd]. lia.
Qed.

Lemma sel_reads_eq k items from cj wh :
  body_ok (S k) (QSelect items from cj wh) = true ->
  forall x, (In x (flat_map (fun t : sqT => q_reads (fst (fst t)) (e_cfg e) ctes (snd (fst t))) (sel_T k from cj wh)) \/
             In x (flat_map (fun p => rel_reads e ctes (snd p)) (FL k from cj)))
            <-> In x (q_reads (S k) (e_cfg e) ctes (QSelect items from cj wh)).
Proof.
  intros Hq x. destruct (body_ok_select k items from cj wh Hq) as (_ & _ & Hrels & Hwh). split.
  - intros [H|H].
    + apply in_flat_map in H. destruct H as (t & Ht & Hx). unfold sel_T in Ht. apply in_app_iff in Ht. destruct Ht as [Ht|Ht].
      * apply in_flat_map in Ht. destruct Ht as (p & Hp & Ht).
        destruct (FL_props ctes k items from cj wh p Hq Hp) as (_ & _ & _ & P4).
        destruct p as [k' r]. unfold fee_T in Ht. cbn [fst snd] in *. destruct r as [t0 al|q' a|x' y]; [destruct Ht| |destruct Ht].
        destruct Ht as [<-|[]]. cbn [fst snd] in Hx. apply (proj1 P4). exact Hx.
      * destruct wh as [[c sq]|]; [|destruct Ht]. destruct Ht as [<-|[]]. cbn [fst snd] in Hx.
        rewrite (q_reads_select ctes k items from cj _ Hrels). apply in_app_iff. right. exact Hx.
    + apply in_flat_map in H. destruct H as (p & Hp & Hx).
      destruct (FL_props ctes k items from cj wh p Hq Hp) as (_ & _ & P3 & _). apply P3. exact Hx.
  - rewrite (q_reads_select ctes k items from cj wh Hrels). intros H. apply in_app_iff in H. destruct H as [H|H].
    + apply in_flat_map in H. destruct H as (r & Hr & Hx). pose proof (FL_covers k from cj r Hr) as Hin.
      destruct r as [t al|q' a|x' y].
      * right. apply in_flat_map. exists (k, RTable t al). split; [exact Hin|exact Hx].
      * left. apply in_flat_map. exists (k, q', Some a). split; [|exact Hx]. unfold sel_T. apply in_app_iff. left.
        apply in_flat_map. exists (k, RDerived q' a). split; [exact Hin|left; reflexivity].
      * destruct Hx.
    + left. destruct wh as [[c sq]|]; [|destruct H]. apply in_flat_map. exists (k, sq, None). split; [|exact H].
      unfold sel_T. apply in_app_iff. right. left. reflexivity.
Qed.

Lemma select_core k items from cj wh f ctx seg0 :
  K = S k ->
  body_ok (S k) (QSelect items from cj wh) = true -> qd (S k) (QSelect items from cj wh) < f ->
  Pre (init_holder ctx) ctes -> sel_segments seg0 = clauses items k from cj wh ->
  exists g, extract f e XSelect seg0 ctx = Ok g /\
            Post (init_holder ctx) g (q_reads (S k) (e_cfg e) ctes (QSelect items from cj wh)).
Proof.
  intros HK Hq Hf Hpre Hseg. destruct f as [|[|f]]; [cbn [qd] in Hf; lia|cbn [qd] in Hf; lia|].
  rewrite extract_select_eq, Hseg. unfold sel_subqueries. rewrite (proj1 (clauses_subq k items from cj wh Hq)), sel_sq_T.
  destruct (ex_subquery_ok (S f) (sel_T k from cj wh) (init_holder ctx)) as (g1 & E1 & HP1).
  { pose proof (sel_T_ok k items from cj wh Hq) as HT. rewrite Forall_forall in *. intros t Ht. destruct (HT t Ht) as (T1 & T2 & T3).
    split; [rewrite HK; exact T1|]. split; [exact T2|lia]. }
  { exact Hpre. }
  rewrite E1. pose proof (Pre_Post _ _ _ _ Hpre HP1) as (G1 & G2 & G3).
  unfold sel_fold. rewrite (sel_fold_clauses (S f) _ _ (clauses_not_set items k from cj wh)).
  destruct (clauses_fold f {| s_g := g1; s_tables := []; s_columns := []; s_barriers := [] |} k items from cj wh ctes Hq ltac:(cbn [qd] in Hf; lia) G1 G2)
    as (ts & cols & E2 & Hts & Hcols & Hx).
  rewrite E2. cbn [s_g s_tables s_columns s_barriers app].
  destruct (select_tail e g1 ts cols [] G1 Hts Hcols (one_write_length g1 G1 G3)) as (g3 & E3 & Hg3 & Hk3 & Hr3).
  rewrite E3. exists g3. split; [reflexivity|].
  assert (HP2 : Post g1 g3 (flat_map (fun p => rel_reads e ctes (snd p)) (FL k from cj))).
  { split; [exact Hg3|]. split; [intros x; rewrite Hr3, Hx; reflexivity|]. split; [|split].
    - intros d. rewrite (Hk3 "write") by discriminate. auto.
    - intros d Hd _. rewrite (Hk3 "write") by discriminate. exact Hd.
    - intros d. unfold sq_cte. rewrite (Hk3 "cte") by discriminate. reflexivity. }
  apply (Post_reads_ext _ _ _ _ (fun x => conj (fun H => proj1 (sel_reads_eq k items from cj wh Hq x) (proj1 (in_app_iff _ _ _) H))
                                                (fun H => proj2 (in_app_iff _ _ _) (proj2 (sel_reads_eq k items from cj wh Hq x) H)))).
  apply (Post_trans _ _ _ _ _ HP1 HP2).
Qed.

(** *** UNION of two SELECTs *)
Definition r_union (k : nat) (a b : query) : seg := r_query_x noise (S k) (QUnion a b).
Definition set_op : seg := node "set_operator" ["set_operator"] (sep noise [kw "union"; kw "all"]).

Lemma r_union_eq k a b :
  r_union k a b = node "set_expression" ["set_expression"] (sep noise [r_query_x noise k a; set_op; r_query_x noise k b]).
Proof. reflexivity. Qed.

Lemma gc_union_subs k ia fa ca wa ib fb cb wb :
  get_children (r_union (S k) (QSelect ia fa ca wa) (QSelect ib fb cb wb)) ["select_statement"; "bracketed"] =
  [r_query_x noise (S k) (QSelect ia fa ca wa); r_query_x noise (S k) (QSelect ib fb cb wb)].
Proof. rewrite r_union_eq, (get_children_sep noise Hnoise) by reflexivity. reflexivity. Qed.

Lemma sel_subq1_union k ia fa ca wa ib fb cb wb :
  body_ok (S k) (QSelect ia fa ca wa) = true -> body_ok (S k) (QSelect ib fb cb wb) = true ->
  sel_subq1 (r_union (S k) (QSelect ia fa ca wa) (QSelect ib fb cb wb)) = Ok (sel_sq k fa ca wa ++ sel_sq k fb cb wb).
Proof.
  intros Ha Hb. unfold sel_subq1. set (U := r_union (S k) (QSelect ia fa ca wa) (QSelect ib fb cb wb)).
  assert (E1 : list_subquery U = Ok []).
  { unfold list_subquery. assert (E : get_children U ["from_expression"] = []).
    { unfold U. rewrite r_union_eq, (get_children_sep noise Hnoise) by reflexivity. reflexivity. }
    rewrite E. change (ty_in U ["select_clause"; "from_clause"; "where_clause"]) with false. cbn iota.
    rewrite (is_subquery_other U) by reflexivity. reflexivity. }
  rewrite E1. change (is_set_expression U) with true. cbn iota. unfold U. rewrite gc_union_subs. cbn [map concat_res].
  rewrite !lcs_top_select. rewrite (proj2 (clauses_subq k ia fa ca wa Ha)), (proj2 (clauses_subq k ib fb cb wb Hb)).
  cbn [app]. rewrite app_nil_r. reflexivity.
Qed.

Lemma handle_child_union f st k a b :
  handle_child f e st (r_union k a b) =
  Ok {| s_g := s_g st; s_tables := s_tables st; s_columns := s_columns st; s_barriers := s_barriers st |}.
Proof.
  unfold handle_child. rewrite (swap_partition_off e Henv). unfold handle_select_into.
  change (ty_in (r_union k a b) ["into_table_clause"; "into_clause"]) with false. cbn iota.
  unfold list_tables. change (ty_in (r_union k a b) ["from_clause"; "join_clause"; "update_statement"]) with false. cbn iota.
  change (tyis (r_union k a b) "select_clause") with false. cbn iota. rewrite !app_nil_r. reflexivity.
Qed.

Lemma union_core k ia fa ca wa ib fb cb wb f ctx seg0 :
  K = S (S k) ->
  body_ok (S k) (QSelect ia fa ca wa) = true -> body_ok (S k) (QSelect ib fb cb wb) = true ->
  qd (S (S k)) (QUnion (QSelect ia fa ca wa) (QSelect ib fb cb wb)) < f ->
  Pre (init_holder ctx) ctes -> sel_segments seg0 = [r_union (S k) (QSelect ia fa ca wa) (QSelect ib fb cb wb)] ->
  exists g, extract f e XSelect seg0 ctx = Ok g /\
            Post (init_holder ctx) g (q_reads (S (S k)) (e_cfg e) ctes (QUnion (QSelect ia fa ca wa) (QSelect ib fb cb wb))).
Proof.
  intros HK Ha Hb Hf Hpre Hseg. set (qa := QSelect ia fa ca wa) in *. set (qb := QSelect ib fb cb wb) in *.
  assert (Hfa : qd (S k) qa < f - 1 /\ qd (S k) qb < f - 1 /\ 2 <= f).
  { change (qd (S (S k)) (QUnion qa qb)) with (S (Nat.max (qd (S k) qa) (qd (S k) qb))) in Hf.
    assert (1 <= qd (S k) qa) by (unfold qa; cbn [qd]; lia). lia. }
  destruct f as [|[|f]]; [lia|lia|]. replace (S (S f) - 1) with (S f) in Hfa by lia.
  rewrite extract_select_eq, Hseg. unfold sel_subqueries. cbn [map concat_res]. unfold qa, qb.
  rewrite (sel_subq1_union k ia fa ca wa ib fb cb wb Ha Hb). fold qa qb. rewrite app_nil_r, !sel_sq_T, <- map_app.
  destruct (ex_subquery_ok (S f) (sel_T k fa ca wa ++ sel_T k fb cb wb) (init_holder ctx)) as (g1 & E1 & HP1).
  { apply Forall_app. split.
    - pose proof (sel_T_ok k ia fa ca wa Ha) as HT. rewrite Forall_forall in *. intros t Ht. destruct (HT t Ht) as (T1 & T2 & T3).
      fold qa in T3. split; [lia|]. split; [exact T2|lia].
    - pose proof (sel_T_ok k ib fb cb wb Hb) as HT. rewrite Forall_forall in *. intros t Ht. destruct (HT t Ht) as (T1 & T2 & T3).
      fold qb in T3. split; [lia|]. split; [exact T2|lia]. }
  { exact Hpre. }
  rewrite E1. pose proof (Pre_Post _ _ _ _ Hpre HP1) as (G1 & G2 & G3).
  unfold sel_fold. cbn [fold_left]. unfold sel_step. rewrite handle_child_union. cbn [s_g s_tables s_columns s_barriers].
  change (is_set_expression (r_union (S k) qa qb)) with true. cbn iota. unfold qa, qb. rewrite gc_union_subs. fold qa qb.
  cbn [fold_left]. unfold sel_children. unfold qa at 1. rewrite lcs_top_select.
  destruct (clauses_fold f {| s_g := g1; s_tables := []; s_columns := []; s_barriers := [] |} k ia fa ca wa ctes Ha ltac:(destruct Hfa as (Hfa1 & _ & _); unfold qa in Hfa1; cbn [qd] in Hfa1; lia) G1 G2)
    as (tsa & colsa & E2 & Htsa & Hcolsa & Hxa).
  rewrite E2. cbn [s_g s_tables s_columns s_barriers app]. unfold qb at 1. rewrite lcs_top_select.
  destruct (clauses_fold f (add_barrier {| s_g := g1; s_tables := tsa; s_columns := colsa; s_barriers := [] |}) k ib fb cb wb ctes Hb ltac:(destruct Hfa as (_ & Hfa2 & _); unfold qb in Hfa2; cbn [qd] in Hfa2; lia) G1 G2)
    as (tsb & colsb & E3 & Htsb & Hcolsb & Hxb).
  rewrite E3. cbn [fst s_g s_tables s_columns s_barriers add_barrier app].
  destruct (select_tail e g1 (tsa ++ tsb) (colsa ++ colsb) [(List.length colsa, List.length tsa)] G1
              (proj2 (Forall_app _ _ _) (conj Htsa Htsb)) (proj2 (Forall_app _ _ _) (conj Hcolsa Hcolsb)) (one_write_length g1 G1 G3))
    as (g3 & E4 & Hg3 & Hk3 & Hr3).
  rewrite E4. exists g3. split; [reflexivity|].
  assert (HP2 : Post g1 g3 (flat_map (fun p => rel_reads e ctes (snd p)) (FL k fa ca) ++ flat_map (fun p => rel_reads e ctes (snd p)) (FL k fb cb))).
  { split; [exact Hg3|]. split; [intros x; rewrite Hr3, tnames_app, in_app_iff, Hxa, Hxb; reflexivity|]. split; [|split].
    - intros d. rewrite (Hk3 "write") by discriminate. auto.
    - intros d Hd _. rewrite (Hk3 "write") by discriminate. exact Hd.
    - intros d. unfold sq_cte. rewrite (Hk3 "cte") by discriminate. reflexivity. }
  refine (Post_reads_ext _ _ _ _ _ (Post_trans _ _ _ _ _ HP1 HP2)).
  intros x. change (q_reads (S (S k)) (e_cfg e) ctes (QUnion qa qb)) with (q_reads (S k) (e_cfg e) ctes qa ++ q_reads (S k) (e_cfg e) ctes qb).
  rewrite flat_map_app, !in_app_iff. unfold qa, qb.
  rewrite <- (sel_reads_eq k ia fa ca wa Ha x), <- (sel_reads_eq k ib fb cb wb Hb x). tauto.
Qed.

End SubQ.

(** *** the main induction: queries without WITH *)
Lemma body_main ctes : forall k q f ctx seg0,
  body_ok k q = true -> qd k q < f -> Pre (init_holder ctx) ctes ->
  (seg0 = r_query_x noise k q \/ seg0 = r_brq k q) ->
  exists g, extract f e XSelect seg0 ctx = Ok g /\ Post (init_holder ctx) g (q_reads k (e_cfg e) ctes q).
Proof.
  induction k as [k IH] using lt_wf_ind. intros q f ctx seg0 Hq Hf Hpre Hseg.
  assert (IHK : forall k' q' f' ctx', k' < k -> body_ok k' q' = true -> qd k' q' < f' -> Pre (init_holder ctx') ctes ->
            exists g, extract f' e XSelect (r_brq k' q') ctx' = Ok g /\ Post (init_holder ctx') g (q_reads k' (e_cfg e) ctes q')).
  { intros k' q' f' ctx' Hk' Hq' Hf' Hpre'. apply (IH k' Hk' q' f' ctx' (r_brq k' q')); auto. }
  destruct k as [|k]; [discriminate|]. destruct q as [items from cj wh|a b|n c b]; [| |discriminate].
  - apply (select_core ctes (S k) IHK k items from cj wh f ctx seg0 eq_refl Hq Hf Hpre).
    destruct Hseg as [->| ->]; [apply sel_segments_top_select|apply sel_segments_brq_select].
  - pose proof Hq as Hq'. cbn [body_ok] in Hq'. apply andb_true_iff in Hq'. destruct Hq' as [Hq' Hb]. apply andb_true_iff in Hq'. destruct Hq' as [Hq' Ha].
    apply andb_true_iff in Hq'. destruct Hq' as [Hsa Hsb].
    destruct a as [ia fa ca wa| |]; try discriminate. destruct b as [ib fb cb wb| |]; try discriminate.
    destruct (body_ok_pos k _ Ha) as (k' & ->).
    apply (union_core ctes (S (S k')) IHK k' ia fa ca wa ib fb cb wb f ctx seg0 eq_refl Ha Hb Hf Hpre).
    destruct Hseg as [->| ->]; [apply sel_segments_union|apply sel_segments_brq_union].
Qed.

(** *** the fuel given by [analyze] is enough *)
Lemma depth_child c s : In c (children s) -> S (depth c) <= depth s.
Proof.
  destruct s as [t g cl r w cm mt ch]. cbn [children depth]. intros H. apply le_n_S.
  induction ch as [|a l IH]; [destruct H|]. cbn [map fold_right]. destruct H as [H|H]; [subst; lia|]. specialize (IH H). lia.
Qed.

Lemma depth_sub x s : TriviaProofs.sub x s -> depth x <= depth s.
Proof.
  intros H. induction H as [s|x c s Hin Hsub IH]; [lia|]. pose proof (depth_child c s Hin). lia.
Qed.

Lemma In_intersperse x y l : In x l -> In x (intersperse y l).
Proof.
  induction l as [|a [|b r] IH]; [auto|auto|]. change (intersperse y (a :: b :: r)) with (a :: y :: intersperse y (b :: r)).
  intros [H|H]; [left; exact H|right; right; apply IH; exact H].
Qed.

Lemma sub_node_sep x t c l y : In y l -> TriviaProofs.sub x y -> TriviaProofs.sub x (node t c (sep noise l)).
Proof. intros Hy Hs. apply (TriviaProofs.sub_child x y); [cbn [children node]; apply (In_sep noise); exact Hy|exact Hs]. Qed.

Lemma sub_node0 x t c l y : In y l -> TriviaProofs.sub x y -> TriviaProofs.sub x (node t c l).
Proof. intros Hy Hs. apply (TriviaProofs.sub_child x y); [exact Hy|exact Hs]. Qed.

Lemma sub_rq_brq k q : TriviaProofs.sub (r_query_x noise k q) (r_brq k q).
Proof. u_brq. apply (sub_node_sep _ _ _ _ (r_query_x noise k q)); [right; left; reflexivity|apply TriviaProofs.sub_refl]. Qed.

Lemma sub_rq_rel k q a : TriviaProofs.sub (r_query_x noise k q) (r_rel k (RDerived q a)).
Proof.
  rewrite r_rel_derived. apply (sub_node_sep _ _ _ _ (te_brq k q)); [left; reflexivity|].
  unfold te_brq. apply (sub_node0 _ _ _ _ (r_brq k q)); [left; reflexivity|apply sub_rq_brq].
Qed.

Lemma sub_rel_fc k from cj r : In r from -> TriviaProofs.sub (r_rel k r) (r_fc k from cj).
Proof.
  intros Hr. u_rfc. destruct cj.
  - apply (sub_node_sep _ _ _ _ (r_fe1 k r)).
    + right. apply In_intersperse. apply in_map. exact Hr.
    + u_rfe1. apply (sub_node0 _ _ _ _ (r_rel k r)); [left; reflexivity|apply TriviaProofs.sub_refl].
  - destruct from as [|r0 rest]; [destruct Hr|]. apply (sub_node_sep _ _ _ _ (r_fej k r0 rest)); [right; left; reflexivity|].
    u_rfej. destruct Hr as [Hr|Hr].
    + subst. apply (sub_node_sep _ _ _ _ (r_rel k r)); [left; reflexivity|apply TriviaProofs.sub_refl].
    + apply (sub_node_sep _ _ _ _ (r_join k r)); [right; apply in_map; exact Hr|].
      u_rjoin. apply (sub_node_sep _ _ _ _ (r_rel k r)); [right; left; reflexivity|apply TriviaProofs.sub_refl].
Qed.

Lemma fold_max_bound (f : rel -> nat) l B : (forall r, In r l -> f r <= B) -> fold_right Nat.max 0 (map f l) <= B.
Proof.
  induction l as [|a r IH]; intros H; cbn [map fold_right]; [lia|]. pose proof (H a (or_introl eq_refl)).
  specialize (IH (fun r' Hr' => H r' (or_intror Hr'))). lia.
Qed.

Lemma depth_qd : forall k q, qd k q <= depth (r_query_x noise k q).
Proof.
  induction k as [|k IH]; intros q; [cbn [qd]; lia|]. destruct q as [items from cj wh|a b|n c b].
  - cbn [qd]. rewrite r_query_select.
    set (S0 := node "select_statement" ["select_statement"] (sep noise ([r_sc items; r_fc k from cj] ++ r_wh k wh))).
    assert (Hfc : S (depth (r_fc k from cj)) <= depth S0).
    { apply depth_child. cbn [children S0 node]. apply (In_sep noise). right. left. reflexivity. }
    assert (H1 : fold_right Nat.max 0 (map (fun r => match r with RDerived q' _ => qd k q' | _ => 0 end) from) <= depth (r_fc k from cj)).
    { apply fold_max_bound. intros r Hr. destruct r as [t al|q' a|x y]; try lia.
      pose proof (depth_sub _ _ (sub_rel_fc k from cj _ Hr)). pose proof (depth_sub _ _ (sub_rq_rel k q' a)). specialize (IH q'). lia. }
    assert (H2 : match wh with Some (_, sq) => qd k sq | None => 0 end < depth S0).
    { destruct wh as [[c sq]|]; [|destruct (depth_pos S0) as (d & ->); lia].
      assert (Hs : TriviaProofs.sub (r_query_x noise k sq) (r_where k c sq)).
      { unfold r_where. eapply sub_node_sep; [right; left; reflexivity|]. eapply sub_node_sep; [right; right; left; reflexivity|]. apply sub_rq_brq. }
      assert (Hw : S (depth (r_where k c sq)) <= depth S0).
      { apply depth_child. cbn [children S0 node]. apply (In_sep noise). rewrite r_wh_some. right. right. left. reflexivity. }
      pose proof (depth_sub _ _ Hs). specialize (IH sq). lia. }
    assert (H0 : items_fuel items < depth S0).
    { assert (Hsc : S (depth (r_sc items)) <= depth S0) by (apply depth_child; cbn [children S0 node]; apply (In_sep noise); left; reflexivity).
      assert (Hi : items_fuel items <= depth (r_sc items)).
      { apply items_fuel_bound. intros i Hi. exact (item_fuel_sc noise items i Hi). }
      lia. }
    lia.
  - cbn [qd]. rewrite r_query_union.
    match goal with |- _ <= depth ?n => set (S0 := n) end.
    assert (Ha : S (depth (r_query_x noise k a)) <= depth S0) by (apply depth_child; cbn [children S0 node]; apply (In_sep noise); left; reflexivity).
    assert (Hb : S (depth (r_query_x noise k b)) <= depth S0) by (apply depth_child; cbn [children S0 node]; apply (In_sep noise); right; right; left; reflexivity).
    pose proof (IH a). pose proof (IH b). lia.
  - cbn [qd]. rewrite r_query_with.
    match goal with |- _ <= depth ?n => set (S0 := n) end.
    assert (Hb : S (depth (r_query_x noise k b)) <= depth S0) by (apply depth_child; cbn [children S0 node]; apply (In_sep noise); right; right; left; reflexivity).
    assert (Hc : S (depth (r_query_x noise k c)) <= depth S0).
    { assert (Hs : TriviaProofs.sub (r_query_x noise k c) (node "common_table_expression" ["common_table_expression"] (sep noise [ident n; kw "as"; r_brq k c]))).
      { eapply sub_node_sep; [right; right; left; reflexivity|]. apply sub_rq_brq. }
      pose proof (depth_sub _ _ Hs).
      assert (S (depth (node "common_table_expression" ["common_table_expression"] (sep noise [ident n; kw "as"; r_brq k c]))) <= depth S0).
      { apply depth_child. cbn [children S0 node]. apply (In_sep noise). right. left. reflexivity. }
      lia. }
    pose proof (IH b). pose proof (IH c). lia.
Qed.

End Nav2.

(* ================================================================== *)
(** * Steps 3, 4, 5: derived tables, WHERE-IN sub-queries, UNION

    Extra hypothesis [qshape]: no WITH, and set operations only between plain SELECTs.  It is needed:
    [lemma_A_check] FAILS on [QUnion (QUnion a b) c], [QUnion (QWith ..) c] (the extractor only looks at the
    select_statement / bracketed children of a set_expression, the rendering nests set expressions) - see the
    counterexamples at the end of this file. *)
Fixpoint qshape (k : nat) (q : query) : bool :=
  match k with
  | O => false
  | S k' =>
      match q with
      | QSelect _ from _ wh =>
          forallb (fun r => match r with RDerived q' _ => qshape k' q' | _ => true end) from
          && match wh with Some (_, sq) => qshape k' sq | None => true end
      | QUnion a b => is_sel a && is_sel b && qshape k' a && qshape k' b
      | QWith _ _ _ => false
      end
  end.

Lemma body_ok_of : forall k ctes q,
  frag_query_x k q = true -> names_ok_q_x k ctes q = true -> qshape k q = true -> body_ok k q = true.
Proof.
  induction k as [|k IH]; intros ctes q Hf Hn Hs; [discriminate|]. destruct q as [items from cj wh|a b|n c b]; [| |discriminate].
  - cbn [frag_query_x names_ok_q_x qshape body_ok] in *.
    apply andb_true_iff in Hf. destruct Hf as [Hf F4]. apply andb_true_iff in Hf. destruct Hf as [Hf F3]. apply andb_true_iff in Hf. destruct Hf as [F1 F2].
    apply andb_true_iff in Hn. destruct Hn as [Hn N3]. apply andb_true_iff in Hn. destruct Hn as [N1 N2].
    apply andb_true_iff in Hs. destruct Hs as [S1 S2].
    rewrite F2. rewrite N1. cbn [andb].
    apply andb_true_iff. split.
    + rewrite forallb_forall in *. intros r Hr. specialize (F3 r Hr). specialize (N2 r Hr). specialize (S1 r Hr).
      destruct r as [t al|q' a|x y]; [exact N2| |discriminate].
      apply andb_true_iff in N2. destruct N2 as [N2 N2']. rewrite N2. cbn [andb]. apply (IH ctes); assumption.
    + destruct wh as [[c sq]|]; [|reflexivity]. apply andb_true_iff in N3. destruct N3 as [N3 N3']. rewrite N3. cbn [andb].
      apply (IH ctes); assumption.
  - cbn [frag_query_x names_ok_q_x qshape body_ok] in *.
    apply andb_true_iff in Hf. destruct Hf as [F1 F2]. apply andb_true_iff in Hn. destruct Hn as [N1 N2].
    apply andb_true_iff in Hs. destruct Hs as [Hs S4]. apply andb_true_iff in Hs. destruct Hs as [Hs S3]. rewrite Hs. cbn [andb].
    rewrite (IH ctes a F1 N1 S3), (IH ctes b F2 N2 S4). reflexivity.
Qed.

Lemma analyze_query noise e k q :
  is_body q = true ->
  analyze e false (r_query_x noise (S k) q) =
  extract (3 * depth (r_query_x noise (S k) q) + 10) e XSelect (r_query_x noise (S k) q) empty_ctx.
Proof. intros H. destruct q; [reflexivity|reflexivity|discriminate]. Qed.

Lemma Pre_empty : Pre (init_holder empty_ctx) [].
Proof.
  change (init_holder empty_ctx) with empty_graph. split; [apply gok_empty|]. split; [apply cte_rel_empty|].
  intros d1 d2 [].
Qed.

Theorem lemma_A_x_step5 : forall noise e q,
  noise_ok noise = true -> env_ok_md e = true -> stmt_ok_a (SQuery q) = true -> qshape (S (q_size q)) q = true ->
  stmt_reads (analyze e false (r_stmt_x noise (SQuery q))) = sort_strings (spec_reads (e_cfg e) (SQuery q)) /\
  stmt_writes (analyze e false (r_stmt_x noise (SQuery q))) = sort_strings (spec_writes (e_cfg e) (SQuery q)).
Proof.
  intros noise e q Hn He Hok Hs. unfold stmt_ok_a in Hok. apply andb_true_iff in Hok. destruct Hok as [Hf Hnm].
  pose proof (body_ok_of _ _ _ Hf Hnm Hs) as Hb. cbn [r_stmt_x].
  rewrite (analyze_query noise e (q_size q) q (body_ok_is_body _ _ Hb)).
  set (stmt := r_query_x noise (S (q_size q)) q).
  assert (Hfuel : qd (S (q_size q)) q < 3 * depth stmt + 10).
  { pose proof (depth_qd noise (S (q_size q)) q). fold stmt in H. lia. }
  destruct (body_main noise Hn e He [] (S (q_size q)) q _ empty_ctx stmt Hb Hfuel Pre_empty (or_introl eq_refl))
    as (g & E & (G1 & G2 & G3 & _ & _)).
  rewrite E. change (init_holder empty_ctx) with empty_graph in *. split.
  - unfold spec_reads. apply (stmt_reads_spec _ g); [reflexivity|exact G1|]. intros x. rewrite G2, tset_empty. tauto.
  - unfold spec_writes. apply (stmt_writes_spec _ g); [reflexivity|exact G1|constructor|]. intros x. cbn [In]. split; [|tauto].
    intros (d & Hd & _). apply G3 in Hd. destruct Hd.
Qed.

(** step 3: a SELECT whose FROM may contain derived tables (no WHERE at the top) *)
Theorem lemma_A_x_step3 : forall noise e items from cj,
  noise_ok noise = true -> env_ok_md e = true ->
  stmt_ok_a (SQuery (QSelect items from cj None)) = true ->
  qshape (S (q_size (QSelect items from cj None))) (QSelect items from cj None) = true ->
  let s := SQuery (QSelect items from cj None) in
  stmt_reads (analyze e false (r_stmt_x noise s)) = sort_strings (spec_reads (e_cfg e) s) /\
  stmt_writes (analyze e false (r_stmt_x noise s)) = sort_strings (spec_writes (e_cfg e) s).
Proof. intros. apply lemma_A_x_step5; assumption. Qed.

(** step 4: ... and a WHERE c IN (sub-query) *)
Theorem lemma_A_x_step4 : forall noise e items from cj wh,
  noise_ok noise = true -> env_ok_md e = true ->
  stmt_ok_a (SQuery (QSelect items from cj wh)) = true ->
  qshape (S (q_size (QSelect items from cj wh))) (QSelect items from cj wh) = true ->
  let s := SQuery (QSelect items from cj wh) in
  stmt_reads (analyze e false (r_stmt_x noise s)) = sort_strings (spec_reads (e_cfg e) s) /\
  stmt_writes (analyze e false (r_stmt_x noise s)) = sort_strings (spec_writes (e_cfg e) s).
Proof. intros. apply lemma_A_x_step5; assumption. Qed.

(* ================================================================== *)
(** * Part N3: delegation (WITH bodies, INSERT / CREATE sources) *)
Lemma fold_add_write W : forall g1,
  gok g1 -> Forall data_ok W ->
  gok (fold_left add_write W g1) /\
  (forall k, k <> "write" -> holder_nodes (fold_left add_write W g1) k = holder_nodes g1 k) /\
  (forall d, In d (holder_nodes (fold_left add_write W g1) "write") ->
             In d (holder_nodes g1 "write") \/ exists w, In w W /\ dataset_eqb w d = true).
Proof.
  induction W as [|w r IH]; intros g1 Hg Hw; cbn [fold_left].
  - split; [exact Hg|]. split; [reflexivity|]. auto.
  - inversion Hw. subst. destruct (IH (add_write g1 w) (gok_add_tag g1 w "write" Hg H1) H2) as (I1 & I2 & I3).
    split; [exact I1|]. split.
    + intros k Hk. rewrite (I2 k Hk). apply tag_add_other. exact Hk.
    + intros d Hd. destruct (I3 d Hd) as [H|(w' & Hw' & E)].
      * apply tag_add_sound in H. destruct H as [H|H]; [left; exact H|right; exists w; split; [left; reflexivity|exact H]].
      * right. exists w'. split; [right; exact Hw'|exact E].
Qed.

Definition dctx (g : graph) : context :=
  {| c_cte := Some (sq_cte g); c_write := Some (sq_write g); c_write_columns := Some (write_columns g) |}.

Lemma init_delegate g ctes :
  Pre g ctes ->
  let g0 := init_holder (dctx g) in
  Pre g0 ctes /\ sq_cte g0 = sq_cte g /\ holder_nodes g0 "read" = [] /\
  (forall d, In d (holder_nodes g0 "write") -> exists w, In w (sq_write g) /\ dataset_eqb w d = true).
Proof.
  intros (P1 & P2 & P3).
  assert (HL : Forall data_ok (sq_cte g)) by (apply Forall_forall; intros c Hc; apply (gok_data g c "cte" P1 Hc)).
  assert (HW : Forall data_ok (sq_write g)) by (apply Forall_forall; intros c Hc; apply (gok_data g c "write" P1 Hc)).
  assert (HN : noeqb (sq_cte g)) by (unfold sq_cte; rewrite holder_nodes_hn; apply hn_noeqb; exact (proj1 (proj1 P1))).
  destruct (fold_add_cte (sq_cte g) empty_graph gok_empty HL HN (fun c _ => eq_refl)) as [G1 G2]. cbn [empty_graph gnodes app] in G2.
  set (g1 := fold_left add_cte (sq_cte g) empty_graph) in *.
  destruct (fold_add_write (sq_write g) g1 G1 HW) as (W1 & W2 & W3). set (g2 := fold_left add_write (sq_write g) g1) in *.
  assert (W3' : forall d, In d (holder_nodes g2 "write") -> exists w, In w (sq_write g) /\ dataset_eqb w d = true).
  { intros d Hd. destruct (W3 d Hd) as [H|H]; [|exact H]. rewrite holder_nodes_hn, G2, hn_cte_nodes in H. destruct H. }
  assert (Hcs : cstep g2 (match write_columns g with x :: r => add_write_column g2 (x :: r) | [] => g2 end)).
  { destruct (write_columns g) as [|x r] eqn:Ewc; [apply cstep_refl; exact W1|]. apply cstep_add_write_column; [exact W1|].
    intros t Ht. apply Forall_forall. intros c Hc. rewrite <- Ewc in Hc.
    destruct (write_columns_col1 g P1 c Hc) as (C1 & t' & p & Et & Ep & Ept).
    destruct (W3' t Ht) as (w & Hw & Ewt). pose proof (get_target_table_In g t' Et) as Ht'.
    right. exists p. split; [exact Ep|]. split.
    - apply (dataset_eqb_trans p t' t); [exact Ept|]. apply (dataset_eqb_trans t' w t); [apply P3; assumption|exact Ewt].
    - destruct C1 as [C1 _]. cbn [nok] in C1. rewrite Ep in C1. inversion C1. assumption. }
  assert (E0 : init_holder (dctx g) = match write_columns g with x :: r => add_write_column g2 (x :: r) | [] => g2 end).
  { unfold init_holder, dctx. cbn [c_cte c_write c_write_columns]. fold g1. fold g2. destruct (write_columns g); reflexivity. }
  cbv zeta. rewrite E0. set (g0 := match write_columns g with x :: r => add_write_column g2 (x :: r) | [] => g2 end) in *.
  destruct Hcs as [C1 C2].
  assert (Ecte : sq_cte g0 = sq_cte g).
  { unfold sq_cte at 1. rewrite C2, W2 by discriminate. rewrite holder_nodes_hn, G2, hn_cte_nodes. reflexivity. }
  assert (Hwr : forall d, In d (holder_nodes g0 "write") -> exists w, In w (sq_write g) /\ dataset_eqb w d = true).
  { intros d Hd. rewrite C2 in Hd. apply W3'. exact Hd. }
  split; [|split; [exact Ecte|split; [|exact Hwr]]].
  - split; [exact C1|]. split.
    + destruct P2 as [Q1 Q2]. split; [intros c Hc; rewrite Ecte in Hc; apply Q1; exact Hc|intros n Hn; rewrite Ecte; apply Q2; exact Hn].
    + intros d1 d2 H1 H2. destruct (Hwr d1 H1) as (w1 & Hw1 & E1). destruct (Hwr d2 H2) as (w2 & Hw2 & E2).
      apply (dataset_eqb_trans d1 w1 d2); [apply dataset_eqb_true_sym; exact E1|]. apply (dataset_eqb_trans w1 w2 d2); [apply P3; assumption|exact E2].
  - rewrite C2, W2 by discriminate. rewrite holder_nodes_hn, G2, hn_cte_nodes. reflexivity.
Qed.

Lemma Post_delegate g sub ctes reads :
  Pre g ctes -> (forall d, In d (holder_nodes g "write") -> dk d <> KSubq) ->
  Post (init_holder (dctx g)) sub reads -> Post g (compose g sub) reads.
Proof.
  intros Hpre Hnsq (A1 & A2 & A3 & A4 & A5). destruct (init_delegate g ctes Hpre) as (I0 & I1 & I2 & I3). destruct Hpre as (P1 & P2 & P3).
  pose proof (gok_compose g sub P1 A1) as Hc. split; [exact Hc|]. split; [|split; [|split]].
  - intros x. rewrite (tset_compose g sub "read" x P1 A1) by discriminate. rewrite A2. unfold tset at 2. rewrite I2.
    split; [intros [H|[(d & [] & _)|H]]; auto|intros [H|H]; auto].
  - intros d Hd. destruct (tag_compose_sound g sub "write" d A1 Hd) as [H|(d' & Hd' & Ed)]; [exact H|].
    apply A3 in Hd'. destruct (I3 d' Hd') as (w & Hw & Ew).
    assert (Hw' : In w (holder_nodes (compose g sub) "write")).
    { apply tag_compose_mono; [exact A1|right; apply Hnsq; exact Hw|exact Hw]. }
    assert (E : dataset_eqb w d = true) by (apply (dataset_eqb_trans w d' d); assumption).
    rewrite <- (tagged_eqb_eq _ "write" "write" w d Hc Hw' Hd E). exact Hw.
  - intros d Hd Hdk. apply tag_compose_mono; [exact A1|right; exact Hdk|exact Hd].
  - intros d. split.
    + intros Hd. destruct (tag_compose_sound g sub "cte" d A1 Hd) as [H|(d' & Hd' & Ed)]; [exact H|].
      apply A5 in Hd'. rewrite I1 in Hd'.
      assert (Hd'' : In d' (holder_nodes (compose g sub) "cte")) by (apply tag_compose_mono; [exact A1|left; discriminate|exact Hd']).
      rewrite <- (tagged_eqb_eq _ "cte" "cte" d' d Hc Hd'' Hd Ed). exact Hd'.
    + intros Hd. apply tag_compose_mono; [exact A1|left; discriminate|exact Hd].
Qed.

Definition no_subq (g : graph) : Prop := forall n a, In (n, a) (gnodes g) -> nsubq n = false.

Lemma no_subq_has_node g d : no_subq g -> dk d = KSubq -> has_node g (NData d) = false.
Proof.
  intros H Hk. unfold has_node. destruct (has_node_l (NData d) (gnodes g)) eqn:E; [|reflexivity].
  apply has_node_l_In in E. destruct E as (m & a & Hin & Em).
  specialize (H m a Hin). rewrite <- (nsubq_eqb _ _ Em) in H. cbn [nsubq] in H. rewrite Hk in H. discriminate.
Qed.

Section Nav3.
Variable noise : list seg.
Hypothesis Hnoise : noise_ok noise = true.
Variable e : env.
Hypothesis Henv : env_ok_md e = true.

Notation r_brq := (r_brq noise).

Lemma delegate_body g ctes f k b :
  Pre g ctes -> (forall d, In d (holder_nodes g "write") -> dk d <> KSubq) ->
  body_ok k b = true -> qd k b < f ->
  exists g', ex_delegate f e XSelect (r_query_x noise k b) g true = Ok g' /\ Post g g' (q_reads k (e_cfg e) ctes b).
Proof.
  intros Hpre Hns Hb Hf. unfold ex_delegate. fold (dctx g).
  destruct (init_delegate g ctes Hpre) as (I0 & _).
  destruct (body_main noise Hnoise e Henv ctes k b f (dctx g) (r_query_x noise k b) Hb Hf I0 (or_introl eq_refl)) as (sub & E & HP).
  rewrite E. exists (compose g sub). split; [reflexivity|]. apply (Post_delegate g sub ctes _ Hpre Hns HP).
Qed.

Definition r_cte (k : nat) (n : string) (c : query) : seg :=
  node "common_table_expression" ["common_table_expression"] (sep noise [ident n; kw "as"; r_brq k c]).

Lemma r_with_eq k n c b :
  r_query_x noise (S k) (QWith n c b) =
  node "with_compound_statement" ["with_compound_statement"] (sep noise [kw "with"; r_cte k n c; r_query_x noise k b]).
Proof. reflexivity. Qed.

Lemma nn_rq k q : nn (r_query_x noise k q) = true.
Proof. destruct k; [reflexivity|]. destruct q; reflexivity. Qed.

Lemma lcs_with k n c b bb :
  list_child_segments (r_query_x noise (S k) (QWith n c b)) bb = [kw "with"; r_cte k n c; r_query_x noise k b].
Proof. rewrite r_with_eq, (lcs_node noise Hnoise) by reflexivity. cbn [filter]. rewrite nn_rq. reflexivity. Qed.

Lemma list_subquery_brq k c : body_ok k c = true -> list_subquery (r_brq k c) = Ok [mk_subquery (r_brq k c) None].
Proof.
  intros Hc. destruct (body_ok_pos k c Hc) as (k' & ->). unfold list_subquery.
  assert (E : get_children (r_brq (S k') c) ["from_expression"] = []).
  { u_brq. rewrite (get_children_sep noise Hnoise) by reflexivity. cbn [filter]. destruct c; reflexivity. }
  rewrite E. change (ty_in (r_brq (S k') c) ["select_clause"; "from_clause"; "where_clause"]) with false. cbn iota.
  rewrite (is_subquery_brq noise Hnoise k' c (body_ok_is_body _ _ Hc)). reflexivity.
Qed.

Lemma cte_step_cte f g subs k n c :
  body_ok k c = true -> id_ok n = true ->
  cte_step f e (Ok (g, subs)) (r_cte k n c) =
  Ok (add_cte g (mk_subquery (r_brq k c) (Some n)), subs ++ [mk_subquery (r_brq k c) (Some n)]).
Proof.
  intros Hc Hn. unfold cte_step. change (ty_in (r_cte k n c) ["select_statement"; "set_expression"]) with false.
  change (tyis (r_cte k n c) "insert_statement") with false. change (tyis (r_cte k n c) "update_statement") with false.
  change (tyis (r_cte k n c) "common_table_expression") with true. cbn iota.
  unfold r_cte. rewrite (lcs_node noise Hnoise) by reflexivity. cbn [filter].
  change (nn (ident n)) with true. change (nn (kw "as")) with true. change (nn (r_brq k c)) with true. cbn iota.
  cbn [fold_left]. unfold cte_inner at 3. change (tyis (ident n) "identifier") with true. cbn iota.
  unfold cte_inner at 2. change (tyis (kw "as") "identifier") with false. change (tyis (kw "as") "bracketed") with false. cbn iota.
  unfold cte_inner. change (tyis (r_brq k c) "identifier") with false. change (tyis (r_brq k c) "bracketed") with true. cbn iota.
  rewrite (list_subquery_brq k c Hc). cbn [fst map raw ident leaf].
  unfold mk_subquery. cbn [dk deq dschema draw dquery]. rewrite (id_ok_escape n Hn). reflexivity.
Qed.

Lemma cte_step_kw f g subs w :
  cte_step f e (Ok (g, subs)) (kw w) = Ok (g, subs).
Proof. reflexivity. Qed.

Lemma cte_step_body f g subs k b :
  body_ok k b = true ->
  cte_step f e (Ok (g, subs)) (r_query_x noise k b) = (do g' <- ex_delegate f e XSelect (r_query_x noise k b) g true; Ok (g', subs)).
Proof.
  intros Hb. destruct (body_ok_pos k b Hb) as (k' & ->). unfold cte_step.
  assert (E : ty_in (r_query_x noise (S k') b) ["select_statement"; "set_expression"] = true) by (destruct b; [reflexivity|reflexivity|discriminate]).
  rewrite E. reflexivity.
Qed.

End Nav3.

(** *** the guard on CTE names: the definition of a CTE does not read a table of the CTE's own name *)
Definition rels_size (from : list rel) : nat := fold_right (fun r acc => rel_size r + acc) 0 from.

Lemma q_size_select items from cj wh :
  q_size (QSelect items from cj wh) = S (rels_size from + match wh with Some (_, sq) => q_size sq | None => 0 end).
Proof.
  assert (E : forall l, (fix rs (l : list rel) : nat := match l with [] => 0 | r :: t => rel_size r + rs t end) l = rels_size l).
  { induction l as [|r rs IH]; [reflexivity|]. cbn [rels_size fold_right]. rewrite IH. reflexivity. }
  cbn [q_size]. rewrite E. reflexivity.
Qed.

Lemma rel_size_in r from : In r from -> rel_size r <= rels_size from.
Proof.
  induction from as [|a rs IH]; intros H; [destruct H|]. cbn [rels_size fold_right]. destruct H as [H|H]; [subst; lia|].
  specialize (IH H). unfold rels_size in IH. lia.
Qed.

Lemma rels_flat_body k from : forallb (relk_ok k) from = true -> flat_map rels_flat from = from.
Proof.
  induction from as [|r rs IH]; [reflexivity|]. cbn [forallb flat_map]. intros H. apply andb_true_iff in H. destruct H as [H1 H2].
  rewrite (IH H2). destruct r; try discriminate; reflexivity.
Qed.

Lemma q_reads_fuel : forall k K q ds ctes,
  body_ok k q = true -> q_size q < K -> q_reads K ds ctes q = q_reads k ds ctes q.
Proof.
  induction k as [|k IH]; intros K q ds ctes Hq HK; [discriminate|]. destruct K as [|K]; [lia|].
  destruct q as [items from cj wh|a b|n c b]; [| |discriminate].
  - destruct (body_ok_select k items from cj wh Hq) as (_ & _ & Hrels & Hwh). rewrite q_size_select in HK.
    cbn [q_reads]. rewrite (rels_flat_body k from Hrels). f_equal.
    + apply flat_map_ext_in'. intros r Hr. pose proof (rel_size_in r from Hr) as Hs.
      rewrite forallb_forall in Hrels. specialize (Hrels r Hr). destruct r as [t al|q' a|x y]; [reflexivity| |discriminate].
      cbn [relk_ok] in Hrels. apply andb_true_iff in Hrels. cbn [rel_size] in Hs. apply IH; [exact (proj2 Hrels)|lia].
    + destruct wh as [[c sq]|]; [|reflexivity]. apply IH; [exact (proj2 Hwh)|lia].
  - cbn [body_ok] in Hq. apply andb_true_iff in Hq. destruct Hq as [Hq Hb]. apply andb_true_iff in Hq. destruct Hq as [_ Ha].
    cbn [q_size] in HK. cbn [q_reads]. rewrite (IH K a ds ctes Ha), (IH K b ds ctes Hb) by lia. reflexivity.
Qed.

Lemma tref_str_bare_inj n m : tref_str "" (None, n) = tref_str "" (None, m) -> n = m.
Proof. unfold tref_str. cbn. intros H. inversion H. reflexivity. Qed.

Lemma tref_str_schema_neq s name n : schema_ok s = true -> tref_str "" (Some s, name) <> tref_str "" (None, n).
Proof.
  intros Hs H. unfold tref_str in H. cbn [fst snd String.eqb] in H.
  pose proof (schema_ok_idc s Hs) as Hc. destruct s as [|ch r]; [cbn in Hs; discriminate|].
  cbn in H. inversion H. subst ch. cbn in Hc. discriminate.
Qed.

Lemma q_reads_cte_irrelevant : forall k q ds n ctes,
  body_ok k q = true -> ~ In (tref_str "" (None, n)) (q_reads k "" ctes q) ->
  q_reads k ds (n :: ctes) q = q_reads k ds ctes q.
Proof.
  induction k as [|k IH]; intros q ds n ctes Hq Hnot; [discriminate|]. destruct q as [items from cj wh|a b|m c b]; [| |discriminate].
  - destruct (body_ok_select k items from cj wh Hq) as (_ & _ & Hrels & Hwh). cbn [q_reads] in *.
    rewrite (rels_flat_body k from Hrels) in *. f_equal.
    + apply flat_map_ext_in'. intros r Hr.
      assert (Hnr : forall x, In x (match r with
                 | RTable t _ => match fst t with None => if mem_string (snd t) ctes then [] else [tref_str "" t] | Some _ => [tref_str "" t] end
                 | RDerived q' _ => q_reads k "" ctes q' | RGroup _ _ => [] end) -> x <> tref_str "" (None, n)).
      { intros x Hx E. subst x. apply Hnot. apply in_app_iff. left. apply in_flat_map. exists r. split; [exact Hr|exact Hx]. }
      rewrite forallb_forall in Hrels. specialize (Hrels r Hr). destruct r as [t al|q' a|x y]; [| |discriminate].
      * destruct t as [[s|] name]; cbn [fst snd] in *; [reflexivity|]. cbn [mem_string].
        destruct (String.eqb name n) eqn:E; [|reflexivity]. apply String.eqb_eq in E. subst name. cbn [orb].
        destruct (mem_string n ctes) eqn:Em; [reflexivity|]. exfalso. apply (Hnr _ (or_introl eq_refl)). reflexivity.
      * cbn [relk_ok] in Hrels. apply andb_true_iff in Hrels. apply IH; [exact (proj2 Hrels)|]. intros Hin. exact (Hnr _ Hin eq_refl).
    + destruct wh as [[c sq]|]; [|reflexivity]. apply IH; [exact (proj2 Hwh)|]. intros Hin. apply Hnot. apply in_app_iff. right. exact Hin.
  - cbn [body_ok] in Hq. apply andb_true_iff in Hq. destruct Hq as [Hq Hb]. apply andb_true_iff in Hq. destruct Hq as [_ Ha].
    cbn [q_reads] in *. rewrite (IH a ds n ctes Ha), (IH b ds n ctes Hb); [reflexivity| |];
      intros Hin; apply Hnot; apply in_app_iff; [right|left]; exact Hin.
Qed.

Section Nav4.
Variable noise : list seg.
Hypothesis Hnoise : noise_ok noise = true.
Variable e : env.
Hypothesis Henv : env_ok_md e = true.

Lemma no_subq_writes g d : no_subq g -> In d (holder_nodes g "write") -> dk d <> KSubq.
Proof.
  intros H Hd. rewrite holder_nodes_hn, In_hn in Hd. destruct Hd as (a & Hin & _). specialize (H _ _ Hin). cbn [nsubq] in H.
  intros E. rewrite E in H. discriminate.
Qed.

Lemma xcte_ok f ctx k n c b :
  Pre (init_holder ctx) [] -> no_subq (init_holder ctx) ->
  body_ok k c = true -> body_ok k b = true -> id_ok n = true ->
  ~ In (tref_str "" (None, n)) (q_reads k "" [] c) ->
  qd (S k) (QWith n c b) < f ->
  exists g, extract f e XCte (r_query_x noise (S k) (QWith n c b)) ctx = Ok g /\ gok g /\
            (forall x, tset g "read" x <-> tset (init_holder ctx) "read" x \/ In x (q_reads (S k) (e_cfg e) [] (QWith n c b))) /\
            (forall d, In d (holder_nodes g "write") <-> In d (holder_nodes (init_holder ctx) "write")).
Proof.
  intros Hpre Hns Hc Hb Hn Hguard Hf. set (g0 := init_holder ctx) in *.
  destruct f as [|f]; [lia|]. cbn [qd] in Hf.
  set (D := mk_subquery (r_brq noise k c) (Some n)).
  assert (HD : data_ok D /\ dk D = KSubq) by (split; [unfold data_ok; cbn; discriminate|reflexivity]).
  destruct Hpre as (P1 & [P2 P2'] & P3).
  assert (Ecte0 : sq_cte g0 = []).
  { destruct (sq_cte g0) as [|c0 r] eqn:E; [reflexivity|]. destruct (P2 c0) as [[] _]. left. reflexivity. }
  assert (Eg1 : gnodes (add_cte g0 D) = gnodes g0 ++ [(NData D, [("cte", true)])]).
  { unfold add_cte, add_node. cbn [gnodes]. apply upsert_new. apply no_subq_has_node; [exact Hns|exact (proj2 HD)]. }
  set (g1 := add_cte g0 D) in *.
  assert (Hhn : forall k0, holder_nodes g1 k0 = holder_nodes g0 k0 ++ (if String.eqb k0 "cte" then [D] else [])).
  { intros k0. rewrite !holder_nodes_hn, Eg1, hn_app. f_equal. unfold hn. cbn [flat_map fst snd]. unfold attr_true. cbn [attr_get].
    destruct (String.eqb k0 "cte"); reflexivity. }
  assert (Hpre1 : Pre g1 [n]).
  { split; [apply gok_add_tag; [exact P1|exact (proj1 HD)]|]. split.
    - unfold cte_rel, sq_cte. rewrite Hhn. fold (sq_cte g0). rewrite Ecte0. cbn [String.eqb Ascii.eqb Bool.eqb app]. split.
      + intros c0 [<-|[]]. split; [left; unfold D; cbn [mk_subquery dalias]; symmetry; apply id_ok_escape; exact Hn|reflexivity].
      + intros m [<-|[]]. exists D. split; [left; reflexivity|]. unfold D. cbn [mk_subquery dalias]. apply id_ok_escape. exact Hn.
    - intros d1 d2 H1 H2. unfold sq_write in *. rewrite Hhn in H1, H2. cbn [String.eqb Ascii.eqb Bool.eqb] in H1, H2. rewrite app_nil_r in H1, H2.
      apply P3; assumption. }
  assert (Hns1 : forall d, In d (holder_nodes g1 "write") -> dk d <> KSubq).
  { intros d Hd. rewrite Hhn in Hd. cbn [String.eqb Ascii.eqb Bool.eqb] in Hd. rewrite app_nil_r in Hd. apply (no_subq_writes g0 d Hns Hd). }
  rewrite extract_cte_eq, (lcs_with noise Hnoise). cbn [fold_left]. fold g0. rewrite cte_step_kw.
  rewrite (cte_step_cte noise Hnoise e f g0 [] k n c Hc Hn). fold D. fold g1. cbn [app].
  rewrite (cte_step_body noise e f g1 [D] k b Hb).
  destruct (delegate_body noise Hnoise e Henv g1 [n] f k b Hpre1 Hns1 Hb ltac:(lia)) as (g2 & E2 & HP2). rewrite E2. cbn [fst snd].
  change [D] with (map (mk_sq noise) [(k, c, Some n)]).
  destruct (ex_subquery_ok noise Hnoise e [n] (S k)
              (fun k' q' f' ctx' Hk' Hq' Hf' Hp' => body_main noise Hnoise e Henv [n] k' q' f' ctx' _ Hq' Hf' Hp' (or_intror eq_refl))
              f [(k, c, Some n)] g2) as (g3 & E3 & HP3).
  { constructor; [|constructor]. cbn [fst snd]. split; [lia|]. split; [exact Hc|lia]. }
  { apply (Pre_Post _ _ _ _ Hpre1 HP2). }
  rewrite E3. exists g3. pose proof (Post_trans _ _ _ _ _ HP2 HP3) as (A1 & A2 & A3 & A4 & _).
  split; [reflexivity|]. split; [exact A1|]. split.
  - intros x. rewrite A2. rewrite (tset_ext g0 g1 "read" x) by (rewrite Hhn; cbn [String.eqb Ascii.eqb Bool.eqb]; apply app_nil_r).
    cbn [flat_map fst snd q_reads]. rewrite app_nil_r, !in_app_iff. rewrite (q_reads_cte_irrelevant k c (e_cfg e) n [] Hc Hguard). tauto.
  - intros d. split.
    + intros Hd. apply A3 in Hd. rewrite Hhn in Hd. cbn [String.eqb Ascii.eqb Bool.eqb] in Hd. rewrite app_nil_r in Hd. exact Hd.
    + intros Hd. apply A4; [rewrite Hhn; cbn [String.eqb Ascii.eqb Bool.eqb]; rewrite app_nil_r; exact Hd|apply (no_subq_writes g0 d Hns Hd)].
Qed.

End Nav4.

(* ================================================================== *)
(** * Step 6: WITH n AS (c) b at the top of the statement, c and b in the fragment of step 5

    Extra hypothesis [sshape_q]: the WITH is the outermost query, its definition and body contain no further WITH.
    It is needed: [lemma_A_check] FAILS when the body of a WITH is itself a WITH (the CTE extractor does not look at a
    with_compound_statement child) and when a WITH nested in a derived table defines a name that the enclosing query uses
    as a table (the nested CTE is visible in the enclosing holder after the sub-query was composed into it). *)
Definition sshape_q (q : query) : bool :=
  match q with
  | QWith _ c b => qshape (q_size q) c && qshape (q_size q) b
  | _ => qshape (S (q_size q)) q
  end.

Lemma no_subq_empty : no_subq empty_graph.
Proof. intros n a []. Qed.

Lemma with_facts k n c b :
  frag_query_x (S k) (QWith n c b) = true -> names_ok_q_x (S k) [] (QWith n c b) = true ->
  qshape k c = true -> qshape k b = true ->
  body_ok k c = true /\ body_ok k b = true /\ id_ok n = true /\ ~ In (tref_str "" (None, n)) (q_reads k "" [] c).
Proof.
  intros Hf Hn Hsc Hsb. cbn [frag_query_x names_ok_q_x] in Hf, Hn.
  apply andb_true_iff in Hf. destruct Hf as [F1 F2].
  apply andb_true_iff in Hn. destruct Hn as [Hn N5]. apply andb_true_iff in Hn. destruct Hn as [Hn N4].
  apply andb_true_iff in Hn. destruct Hn as [Hn N3]. apply andb_true_iff in Hn. destruct Hn as [N1 N2].
  pose proof (body_ok_of k [] c F1 N3 Hsc) as Hc. pose proof (body_ok_of k [n] b F2 N4 Hsb) as Hb.
  split; [exact Hc|]. split; [exact Hb|]. split; [exact N1|].
  apply negb_true_iff in N5. apply mem_string_false in N5.
  rewrite (q_reads_fuel k (S (q_size c)) c "" [] Hc) in N5 by lia. exact N5.
Qed.

Theorem lemma_A_x_step6 : forall noise e q,
  noise_ok noise = true -> env_ok_md e = true -> stmt_ok_a (SQuery q) = true -> sshape_q q = true ->
  stmt_reads (analyze e false (r_stmt_x noise (SQuery q))) = sort_strings (spec_reads (e_cfg e) (SQuery q)) /\
  stmt_writes (analyze e false (r_stmt_x noise (SQuery q))) = sort_strings (spec_writes (e_cfg e) (SQuery q)).
Proof.
  intros noise e q Hn He Hok Hs. destruct q as [items from cj wh|a b|n c b]; try (apply lemma_A_x_step5; assumption).
  unfold stmt_ok_a in Hok. apply andb_true_iff in Hok. destruct Hok as [Hf Hnm].
  unfold sshape_q in Hs. apply andb_true_iff in Hs. destruct Hs as [Hsc Hsb].
  set (k := q_size (QWith n c b)) in *.
  destruct (with_facts k n c b Hf Hnm Hsc Hsb) as (Hc & Hb & Hid & Hguard).
  cbn [r_stmt_x]. fold k. set (stmt := r_query_x noise (S k) (QWith n c b)).
  assert (Ea : analyze e false stmt = extract (3 * depth stmt + 10) e XCte stmt empty_ctx) by reflexivity.
  assert (Hfuel : qd (S k) (QWith n c b) < 3 * depth stmt + 10).
  { pose proof (depth_qd noise (S k) (QWith n c b)). fold stmt in H. lia. }
  destruct (xcte_ok noise Hn e He _ empty_ctx k n c b Pre_empty no_subq_empty Hc Hb Hid Hguard Hfuel) as (g & E & G1 & G2 & G3).
  rewrite Ea. fold stmt in E. rewrite E. change (init_holder empty_ctx) with empty_graph in *. split.
  - unfold spec_reads. fold k. apply (stmt_reads_spec _ g); [reflexivity|exact G1|]. intros x. rewrite G2, tset_empty. tauto.
  - unfold spec_writes. apply (stmt_writes_spec _ g); [reflexivity|exact G1|constructor|]. intros x. cbn [In]. split; [|tauto].
    intros (d & Hd & _). apply G3 in Hd. destruct Hd.
Qed.

(* ================================================================== *)
(** * Part N5: INSERT / CREATE TABLE AS / CREATE VIEW AS *)
Section Nav5.
Variable noise : list seg.
Hypothesis Hnoise : noise_ok noise = true.
Variable e : env.
Hypothesis Henv : env_ok_md e = true.

Lemma ci_kw_target f stmt g tf sf w :
  mem_string (upper w) ["INSERT"; "INTO"; "OVERWRITE"; "TABLE"; "VIEW"; "DIRECTORY"] = true ->
  ci_step f e stmt (Ok (g, tf, sf)) (kw w) = Ok (g, true, sf).
Proof.
  intros H. unfold ci_step. change (tyis (kw w) "with_compound_statement") with false.
  change (tyis (kw w) "bracketed") with false. change (ty_in (kw w) ["select_statement"; "set_expression"]) with false.
  change (tyis (kw w) "values_clause") with false. change (tyis (kw w) "keyword") with true. cbn [andb]. cbn iota.
  change (raw_upper (kw w)) with (upper w). rewrite H. reflexivity.
Qed.

Lemma ci_kw_other f stmt g sf w :
  mem_string (upper w) ["INSERT"; "INTO"; "OVERWRITE"; "TABLE"; "VIEW"; "DIRECTORY"] = false ->
  mem_string (upper w) ["LIKE"; "CLONE"] = false ->
  ci_step f e stmt (Ok (g, false, sf)) (kw w) = Ok (g, false, sf).
Proof.
  intros H H2. unfold ci_step. change (tyis (kw w) "with_compound_statement") with false.
  change (tyis (kw w) "bracketed") with false. change (ty_in (kw w) ["select_statement"; "set_expression"]) with false.
  change (tyis (kw w) "values_clause") with false. change (tyis (kw w) "keyword") with true. cbn [andb]. cbn iota.
  change (raw_upper (kw w)) with (upper w). rewrite H, H2. reflexivity.
Qed.

Definition target_holder_x (stmt : seg) (g : graph) (d : dataset) : graph :=
  if p_truthy (e_provider e) && tyis stmt "insert_statement"
  then add_write_column (add_write g d) (provider_columns e d) else add_write g d.

Lemma ci_tref f stmt g t :
  ci_step f e stmt (Ok (g, true, false)) (r_tref t) = (do d <- table_of_seg e (r_tref t) None; Ok (target_holder_x stmt g d, false, false)).
Proof.
  unfold ci_step, target_holder_x. change (tyis (r_tref t) "with_compound_statement") with false.
  change (tyis (r_tref t) "bracketed") with false. change (ty_in (r_tref t) ["select_statement"; "set_expression"]) with false.
  change (tyis (r_tref t) "values_clause") with false. change (tyis (r_tref t) "keyword") with false. cbn [andb]. cbn iota.
  change (ty_in (r_tref t) ["table_reference"; "object_reference"]) with true. cbn iota.
  destruct (table_of_seg e (r_tref t) None) as [d|err]; [|reflexivity].
  destruct (p_truthy (e_provider e) && tyis stmt "insert_statement"); reflexivity.
Qed.

Lemma ci_body f stmt g k b :
  body_ok k b = true ->
  ci_step f e stmt (Ok (g, false, false)) (r_query_x noise k b) =
  (do g' <- ex_delegate f e XSelect (r_query_x noise k b) g true; Ok (g', false, false)).
Proof.
  intros Hb. destruct (body_ok_pos k b Hb) as (k' & ->). unfold ci_step.
  assert (E : tyis (r_query_x noise (S k') b) "with_compound_statement" = false /\ tyis (r_query_x noise (S k') b) "bracketed" = false /\
              ty_in (r_query_x noise (S k') b) ["select_statement"; "set_expression"] = true).
  { destruct b; [repeat split; reflexivity|repeat split; reflexivity|discriminate]. }
  destruct E as (E1 & E2 & E3). rewrite E1, E2, E3. cbn [andb]. cbn iota.
  destruct (ex_delegate f e XSelect (r_query_x noise (S k') b) g true); reflexivity.
Qed.

Lemma ci_with f stmt g k n c b :
  ci_step f e stmt (Ok (g, false, false)) (r_query_x noise (S k) (QWith n c b)) =
  (do g' <- ex_delegate f e XCte (r_query_x noise (S k) (QWith n c b)) g true; Ok (g', false, false)).
Proof.
  unfold ci_step. change (tyis (r_query_x noise (S k) (QWith n c b)) "with_compound_statement") with true. cbn iota.
  destruct (ex_delegate f e XCte (r_query_x noise (S k) (QWith n c b)) g true); reflexivity.
Qed.

(** the column list of an INSERT *)
Definition col_children (cs : list string) : list seg := lpar :: intersperse comma (map (r_colref None) cs) ++ [rpar].
Definition r_cols (cs : list string) : seg := node "bracketed" ["bracketed"] (sep noise (col_children cs)).

Lemma Forall_col_children (P : seg -> Prop) cs :
  P lpar -> P comma -> P rpar -> (forall c, P (r_colref None c)) -> Forall P (col_children cs).
Proof.
  intros H1 H2 H3 H4. unfold col_children. constructor; [exact H1|]. apply Forall_app. split.
  - apply Forall_intersperse; [exact H2|]. apply Forall_forall. intros x Hx. apply in_map_iff in Hx. destruct Hx as (c & <- & _). apply H4.
  - constructor; [exact H3|constructor].
Qed.

Lemma existsb_Forall_false (p : seg -> bool) l : Forall (fun x => p x = false) l -> existsb p l = false.
Proof. intros H. apply existsb_none. rewrite Forall_forall in H. exact H. Qed.

Lemma lcs_cols cs : list_child_segments (r_cols cs) true = map (r_colref None) cs.
Proof.
  unfold list_child_segments. change (tyis (r_cols cs) "bracketed") with true. cbn [andb].
  assert (E1 : is_set_expression (r_cols cs) = false).
  { unfold is_set_expression. change (tyis (r_cols cs) "set_expression") with false. cbn [orb]. unfold r_cols. cbn [children node].
    rewrite (existsb_sep noise Hnoise) by (intros x Hx; apply noise_tyis; [exact Hx|reflexivity]).
    apply existsb_Forall_false. apply Forall_col_children; reflexivity. }
  rewrite E1.
  assert (E2 : iter_expanding ["expression"] (r_cols cs) = sep noise (col_children cs)).
  { rewrite TriviaProofs.iter_eq. unfold r_cols. cbn [children node]. apply flat_map_single. intros x Hx.
    apply (In_sep_inv noise) in Hx. destruct Hx as [Hx|Hx].
    - assert (H : Forall (fun x => is_type x ["expression"] = false) (col_children cs)) by (apply Forall_col_children; reflexivity).
      rewrite Forall_forall in H. rewrite (H x Hx). reflexivity.
    - rewrite (noise_is_type x ["expression"] (noise_in noise Hnoise x Hx) eq_refl). reflexivity. }
  rewrite E2. rewrite (flat_map_sep noise Hnoise).
  - unfold col_children. cbn [flat_map]. change (ty_in lpar _) with false. cbn iota. change (children lpar) with (@nil seg). cbn [filter app].
    rewrite flat_map_app. cbn [flat_map]. change (ty_in rpar _) with false. cbn iota. change (children rpar) with (@nil seg). cbn [filter app].
    rewrite app_nil_r. rewrite flat_map_intersperse by reflexivity. apply flat_map_single. intros x Hx. apply in_map_iff in Hx.
    destruct Hx as (c & <- & _). reflexivity.
  - intros x Hx. rewrite (noise_ty_in x ["column_reference"; "column_definition"] Hx eq_refl). rewrite (proj1 (proj2 (noise_seg_facts x Hx))). reflexivity.
Qed.

Lemma clean_cols ts cs :
  not_trivia ts = true ->
  existsb (fun x => mem_string x ts)
    ["bracketed"; "start_bracket"; "end_bracket"; "comma"; "raw"; "symbol"; "column_reference"; "object_reference"; "identifier"; "naked_identifier"] = false ->
  clean ts (r_cols cs).
Proof.
  intros Hts H. cbn [existsb] in H. repeat (apply orb_false_iff in H; destruct H as [?E H]).
  apply (clean_sep_node noise Hnoise); [exact Hts|cbn [existsb]; rewrite E; reflexivity|].
  apply Forall_col_children.
  - apply clean_leaf. cbn [existsb]. rewrite E0, E3, E4. reflexivity.
  - apply clean_leaf. cbn [existsb]. rewrite E2, E3, E4. reflexivity.
  - apply clean_leaf. cbn [existsb]. rewrite E1, E3, E4. reflexivity.
  - intros c. apply clean_node; [cbn [existsb]; rewrite E5, E6; reflexivity|]. constructor; [|constructor].
    apply clean_leaf. cbn [existsb]. rewrite E7, E8, E3. reflexivity.
Qed.

Lemma ci_cols f stmt g cs :
  exists cols, ci_step (S f) e stmt (Ok (g, false, false)) (r_cols cs) = Ok (add_write_column g cols, false, false) /\
               Forall (fun c => cparents c = []) cols.
Proof.
  unfold ci_step. change (tyis (r_cols cs) "with_compound_statement") with false. change (tyis (r_cols cs) "bracketed") with true.
  assert (E1 : existsb (fun c => tyis c "with_compound_statement") (children (r_cols cs)) = false).
  { unfold r_cols. cbn [children node]. rewrite (existsb_sep noise Hnoise) by (intros x Hx; apply noise_tyis; [exact Hx|reflexivity]).
    apply existsb_Forall_false. apply Forall_col_children; reflexivity. }
  rewrite E1. cbn [andb]. change (ty_in (r_cols cs) ["select_statement"; "set_expression"]) with false.
  change (tyis (r_cols cs) "values_clause") with false. cbn iota. cbn [flat_map].
  rewrite (clean_crawl _ _ (r_cols cs)) by (apply clean_cols; reflexivity). cbn [app]. rewrite lcs_cols.
  assert (E2 : forallb (fun x => ty_in x ["column_reference"; "column_definition"]) (map (r_colref None) cs) = true).
  { apply forallb_forall. intros x Hx. apply in_map_iff in Hx. destruct Hx as (c & <- & _). reflexivity. }
  rewrite E2.
  match goal with |- context [map_res ?F (map (r_colref None) cs)] =>
    destruct (map_res_inv (fun c => cparents c = []) F (map (r_colref None) cs)) as (cols & E3 & Hcols) end.
  { intros x Hx. apply in_map_iff in Hx. destruct Hx as (c & <- & _). change (tyis (r_colref None c) "column_definition") with false. cbn iota.
    unfold column_of_seg. change (tyis (r_colref None c) "select_clause_element") with false. cbn iota.
    cbn [extract_sources]. change (ty_in (r_colref None c) ["identifier"; "column_reference"]) with true. cbn [orb].
    rewrite (ecq_colref None c). eexists. split; [reflexivity|reflexivity]. }
  rewrite E3. exists cols. split; [reflexivity|exact Hcols].
Qed.

(** reads and table writes of a holder relative to an earlier one *)
Definition RW (g0 g : graph) (reads : list string) : Prop :=
  gok g /\ (forall x, tset g "read" x <-> tset g0 "read" x \/ In x reads) /\ (forall x, tset g "write" x <-> tset g0 "write" x).

Lemma Post_RW g0 g r : Post g0 g r -> RW g0 g r.
Proof.
  intros (A1 & A2 & A3 & A4 & _). split; [exact A1|]. split; [exact A2|]. intros x. unfold tset. split.
  - intros (d & H1 & H2 & H3). exists d. split; [apply A3; exact H1|auto].
  - intros (d & H1 & H2 & H3). exists d. split; [apply A4; [exact H1|rewrite H2; discriminate]|auto].
Qed.

Lemma no_subq_keys g : no_subq g <-> (forall m, In m (map fst (gnodes g)) -> nsubq m = false).
Proof.
  split.
  - intros H m Hm. apply in_map_iff in Hm. destruct Hm as ([m' a] & <- & Hin). exact (H _ _ Hin).
  - intros H n a Hin. apply H. apply in_map_iff. exists (n, a). auto.
Qed.

Lemma no_subq_add_node g n a : no_subq g -> nsubq n = false -> no_subq (add_node g n a).
Proof.
  rewrite !no_subq_keys. intros H Hn m Hm. cbn [add_node gnodes] in Hm. rewrite keys_upsert in Hm.
  destruct (has_node_l n (gnodes g)); [apply H; exact Hm|]. apply in_app_iff in Hm. destruct Hm as [Hm|[<-|[]]]; [apply H; exact Hm|exact Hn].
Qed.

Lemma no_subq_add_edge g u v a : no_subq g -> nsubq u = false -> nsubq v = false -> no_subq (add_edge g u v a).
Proof.
  intros H Hu Hv. pose proof (no_subq_add_node _ v [] (no_subq_add_node g u [] H Hu) Hv) as H2.
  intros n b Hin. apply (H2 n b). exact Hin.
Qed.

Lemma no_subq_add_write_column g cols : no_subq g -> no_subq (add_write_column g cols).
Proof.
  intros H. unfold add_write_column. destruct (sq_write g) as [|tgt r] eqn:E; [exact H|].
  assert (Ht : nsubq (NData tgt) = false).
  { assert (Hin : In tgt (holder_nodes g "write")) by (unfold sq_write in E; rewrite E; left; reflexivity).
    rewrite holder_nodes_hn, In_hn in Hin. destruct Hin as (a & Hin & _). exact (H _ _ Hin). }
  assert (G : forall g' i, no_subq g' -> no_subq (fst (fold_left (fun acc c => let '(g', idx) := acc in
             (add_edge g' (NData tgt) (NCol (add_parent c tgt)) (e_has_column (Some idx)), S idx)) cols (g', i)))).
  { induction cols as [|c cs IH]; intros g' i Hg'; cbn [fold_left]; [exact Hg'|]. apply IH. apply no_subq_add_edge; [exact Hg'|exact Ht|reflexivity]. }
  apply G. exact H.
Qed.

Lemma no_subq_init_delegate g :
  sq_cte g = [] -> (forall d, In d (holder_nodes g "write") -> dk d <> KSubq) -> no_subq (init_holder (dctx g)).
Proof.
  intros Hc Hw. unfold init_holder, dctx. cbn [c_cte c_write c_write_columns]. rewrite Hc. cbn [fold_left].
  assert (H2 : no_subq (fold_left add_write (sq_write g) empty_graph)).
  { assert (G : forall W g', (forall d, In d W -> dk d <> KSubq) -> no_subq g' -> no_subq (fold_left add_write W g')).
    { induction W as [|w r IH]; intros g' HW Hg'; cbn [fold_left]; [exact Hg'|]. apply IH; [intros d Hd; apply HW; right; exact Hd|].
      apply no_subq_add_node; [exact Hg'|]. cbn [nsubq]. specialize (HW w (or_introl eq_refl)). destruct (dk w); try reflexivity. contradiction. }
    apply G; [exact Hw|apply no_subq_empty]. }
  destruct (write_columns g); [exact H2|]. apply no_subq_add_write_column. exact H2.
Qed.

Lemma compose_rw g sub reads :
  Pre g [] -> (forall d, In d (holder_nodes g "write") -> dk d <> KSubq) ->
  gok sub -> (forall x, tset sub "read" x <-> In x reads) ->
  (forall d, In d (holder_nodes sub "write") -> exists w, In w (sq_write g) /\ dataset_eqb w d = true) ->
  RW g (compose g sub) reads.
Proof.
  intros (P1 & P2 & P3) Hns A1 A2 A3. pose proof (gok_compose g sub P1 A1) as Hc. split; [exact Hc|]. split.
  - intros x. rewrite (tset_compose g sub "read" x P1 A1) by discriminate. rewrite A2. reflexivity.
  - intros x. unfold tset. split.
    + intros (d & Hd & H2 & H3). exists d. split; [|auto].
      destruct (tag_compose_sound g sub "write" d A1 Hd) as [H|(d' & Hd' & Ed)]; [exact H|].
      destruct (A3 d' Hd') as (w & Hw & Ew).
      assert (Hw' : In w (holder_nodes (compose g sub) "write")) by (apply tag_compose_mono; [exact A1|right; apply Hns; exact Hw|exact Hw]).
      assert (E : dataset_eqb w d = true) by (apply (dataset_eqb_trans w d' d); assumption).
      rewrite <- (tagged_eqb_eq _ "write" "write" w d Hc Hw' Hd E). exact Hw.
    + intros (d & Hd & H2 & H3). exists d. split; [|auto]. apply tag_compose_mono; [exact A1|right; rewrite H2; discriminate|exact Hd].
Qed.

(** the source query of INSERT / CREATE: in the fragment of step 5, or a WITH over it *)
Definition src_ok (k : nat) (q : query) : Prop :=
  body_ok (S k) q = true \/
  exists n c b, q = QWith n c b /\ body_ok k c = true /\ body_ok k b = true /\ id_ok n = true /\
                ~ In (tref_str "" (None, n)) (q_reads k "" [] c).

Lemma ci_source f stmt g k q :
  src_ok k q -> Pre g [] -> sq_cte g = [] -> (forall d, In d (holder_nodes g "write") -> dk d <> KSubq) ->
  qd (S k) q < f ->
  exists g', ci_step f e stmt (Ok (g, false, false)) (r_query_x noise (S k) q) = Ok (g', false, false) /\
             RW g g' (q_reads (S k) (e_cfg e) [] q).
Proof.
  intros Hsrc Hpre Hcte Hns Hf. destruct Hsrc as [Hb|(n & c & b & -> & Hc & Hb & Hn & Hguard)].
  - rewrite (ci_body f stmt g (S k) q Hb).
    destruct (delegate_body noise Hnoise e Henv g [] f (S k) q Hpre Hns Hb Hf) as (g' & E & HP). rewrite E.
    exists g'. split; [reflexivity|apply Post_RW; exact HP].
  - rewrite ci_with. unfold ex_delegate. fold (dctx g). destruct (init_delegate g [] Hpre) as (I0 & I1 & I2 & I3).
    destruct (xcte_ok noise Hnoise e Henv f (dctx g) k n c b I0 (no_subq_init_delegate g Hcte Hns) Hc Hb Hn Hguard Hf)
      as (sub & E & S1 & S2 & S3).
    rewrite E. exists (compose g sub). split; [reflexivity|]. apply compose_rw; [exact Hpre|exact Hns|exact S1| |].
    + intros x. rewrite S2. unfold tset at 1. rewrite I2. split; [intros [(d & [] & _)|H]; exact H|auto].
    + intros d Hd. apply I3. apply S3. exact Hd.
Qed.

(** the holder after the target table was recorded *)
Definition WF (g : graph) (d : dataset) : Prop :=
  gok g /\ holder_nodes g "write" = [d] /\ holder_nodes g "cte" = [] /\ holder_nodes g "read" = [].

Lemma WF_init d : data_ok d -> WF (add_write empty_graph d) d.
Proof. intros Hd. split; [apply gok_add_tag; [apply gok_empty|exact Hd]|]. repeat split; reflexivity. Qed.

Lemma WF_cstep g g' d : WF g d -> cstep g g' -> WF g' d.
Proof. intros (W1 & W2 & W3 & W4) [C1 C2]. split; [exact C1|]. rewrite !C2. auto. Qed.

Lemma WF_target_x stmt d : data_ok d -> WF (target_holder_x stmt empty_graph d) d.
Proof.
  intros Hd. pose proof (WF_init d Hd) as HW. unfold target_holder_x.
  destruct (p_truthy (e_provider e) && tyis stmt "insert_statement"); [|exact HW].
  apply (WF_cstep _ _ d HW). apply cstep_add_write_column; [exact (proj1 HW)|].
  intros t Ht. destruct HW as (_ & W2 & _). rewrite W2 in Ht. destruct Ht as [<-|[]].
  unfold provider_columns. apply Forall_forall. intros c Hc. apply in_map_iff in Hc. destruct Hc as (cn & <- & _).
  right. exists d. split; [reflexivity|]. split; [apply dataset_eqb_refl|exact Hd].
Qed.

Lemma WF_facts g d :
  WF g d -> dk d = KTable ->
  Pre g [] /\ sq_cte g = [] /\ (forall d', In d' (holder_nodes g "write") -> dk d' <> KSubq) /\
  (forall x, ~ tset g "read" x) /\ (forall x, tset g "write" x <-> x = dstr d).
Proof.
  intros (W1 & W2 & W3 & W4) Hk. split; [|split; [exact W3|split; [|split]]].
  - split; [exact W1|]. split.
    + unfold cte_rel, sq_cte. rewrite W3. split; [intros c []|intros n []].
    + intros d1 d2. unfold sq_write. rewrite W2. intros [<-|[]] [<-|[]]. apply dataset_eqb_refl.
  - intros d'. rewrite W2. intros [<-|[]]. rewrite Hk. discriminate.
  - intros x (d' & Hd' & _). rewrite W4 in Hd'. destruct Hd'.
  - intros x. unfold tset. rewrite W2. split.
    + intros (d' & [<-|[]] & _ & H). symmetry. exact H.
    + intros ->. exists d. split; [left; reflexivity|auto].
Qed.

Lemma ci_tail f stmt g d k q cols :
  WF g d -> dk d = KTable -> src_ok k q -> qd (S k) q < S f ->
  exists g', fold_left (ci_step (S f) e stmt)
                       (match cols with Some cs => [r_cols cs] | None => [] end ++ [r_query_x noise (S k) q]) (Ok (g, false, false))
             = Ok (g', false, false) /\
             gok g' /\ (forall x, tset g' "read" x <-> In x (q_reads (S k) (e_cfg e) [] q)) /\ (forall x, tset g' "write" x <-> x = dstr d).
Proof.
  intros HW Hk Hsrc Hf.
  assert (Hstep : exists g1, fold_left (ci_step (S f) e stmt) (match cols with Some cs => [r_cols cs] | None => [] end) (Ok (g, false, false))
                             = Ok (g1, false, false) /\ WF g1 d).
  { destruct cols as [cs|]; [|exists g; split; [reflexivity|exact HW]]. cbn [fold_left].
    destruct (ci_cols f stmt g cs) as (cl & E & Hcl). rewrite E. exists (add_write_column g cl). split; [reflexivity|].
    apply (WF_cstep g _ d HW). apply cstep_add_write_column; [exact (proj1 HW)|]. intros t _. apply Forall_forall. intros c Hc.
    rewrite Forall_forall in Hcl. left. apply Hcl. exact Hc. }
  destruct Hstep as (g1 & E1 & HW1). rewrite fold_left_app, E1. cbn [fold_left].
  destruct (WF_facts g1 d HW1 Hk) as (F1 & F2 & F3 & F4 & F5).
  destruct (ci_source (S f) stmt g1 k q Hsrc F1 F2 F3 Hf) as (g' & E2 & (R1 & R2 & R3)). rewrite E2.
  exists g'. split; [reflexivity|]. split; [exact R1|]. split.
  - intros x. rewrite R2. split; [intros [H|H]; [destruct (F4 x H)|exact H]|auto].
  - intros x. rewrite R3. apply F5.
Qed.

Definition cols_part (cols : option (list string)) : list seg := match cols with Some cs => [r_cols cs] | None => [] end.

Lemma filter_nn_cols cols : filter nn (cols_part cols) = cols_part cols.
Proof. destruct cols; reflexivity. Qed.

Lemma fuel_child (stmt Q : seg) k q :
  In Q (children stmt) -> Q = r_query_x noise (S k) q -> qd (S k) q < S (3 * depth stmt + 8).
Proof.
  intros Hin ->. pose proof (depth_child _ _ Hin). pose proof (depth_qd noise (S k) q). lia.
Qed.

(** what the three statement kinds have in common once the target is known *)
Lemma ci_finish F stmt t cols k q d rest :
  table_of_seg e (r_tref t) None = Ok d -> dk d = KTable -> data_ok d -> dstr d = tref_str (e_cfg e) t ->
  src_ok k q -> qd (S k) q < S F ->
  (forall g, fold_left (ci_step (S F) e stmt) rest (Ok (g, false, false)) =
             fold_left (ci_step (S F) e stmt) (cols_part cols ++ [r_query_x noise (S k) q]) (Ok (g, false, false))) ->
  exists g, (do r <- fold_left (ci_step (S F) e stmt) (r_tref t :: rest) (Ok (empty_graph, true, false)); Ok (fst (fst r))) = Ok g /\
            gok g /\ (forall x, tset g "read" x <-> In x (q_reads (S k) (e_cfg e) [] q)) /\
            (forall x, tset g "write" x <-> x = tref_str (e_cfg e) t).
Proof.
  intros Et Hk Hd Hs Hsrc Hf Hrest. cbn [fold_left]. rewrite ci_tref, Et.
  change (do d0 <- Ok d; Ok (target_holder_x stmt empty_graph d0, false, false)) with (Ok (target_holder_x stmt empty_graph d, false, false)).
  rewrite Hrest.
  destruct (ci_tail F stmt (target_holder_x stmt empty_graph d) d k q cols (WF_target_x stmt d Hd) Hk Hsrc Hf) as (g' & E & G1 & G2 & G3).
  unfold cols_part. rewrite E. exists g'. split; [reflexivity|]. split; [exact G1|]. split; [exact G2|]. intros x. rewrite G3, Hs. reflexivity.
Qed.

Lemma insert_ok t cols q :
  tref_ok t = true -> src_ok (q_size q) q ->
  exists g, analyze e false (r_stmt_x noise (SInsert t cols q)) = Ok g /\ gok g /\
            (forall x, tset g "read" x <-> In x (q_reads (S (q_size q)) (e_cfg e) [] q)) /\
            (forall x, tset g "write" x <-> x = tref_str (e_cfg e) t).
Proof.
  intros Ht Hsrc. set (k := q_size q) in *. set (Q := r_query_x noise (S k) q).
  set (stmt := node "insert_statement" ["insert_statement"] (sep noise ([kw "insert"; kw "into"; r_tref t] ++ cols_part cols ++ [Q]))).
  assert (Es : r_stmt_x noise (SInsert t cols q) = stmt) by (destruct cols; reflexivity). rewrite Es.
  assert (Ea : analyze e false stmt = extract (S (S (3 * depth stmt + 8))) e XCreateInsert stmt empty_ctx).
  { replace (S (S (3 * depth stmt + 8))) with (3 * depth stmt + 10) by lia. reflexivity. }
  assert (HF : forall Q0 k0 q0, In Q0 (children stmt) -> Q0 = r_query_x noise (S k0) q0 -> qd (S k0) q0 < S (3 * depth stmt + 8))
    by (intros Q0 k0 q0; apply fuel_child).
  set (F := 3 * depth stmt + 8) in *.
  rewrite Ea, extract_ci_eq. unfold stmt at 2. rewrite (lcs_node noise Hnoise) by reflexivity.
  rewrite !filter_app, filter_nn_cols. cbn [filter]. change (nn (kw "insert")) with true. change (nn (kw "into")) with true.
  change (nn (r_tref t)) with true. unfold Q at 1. rewrite (nn_rq noise). cbn iota. fold Q.
  change (init_holder empty_ctx) with empty_graph. cbn [app fold_left].
  rewrite (ci_kw_target (S F) stmt empty_graph false false "insert" eq_refl), (ci_kw_target (S F) stmt empty_graph true false "into" eq_refl).
  destruct (table_of_seg_tref e Henv t None Ht) as (d & Et & Hk & Hd & Hs).
  apply (ci_finish F stmt t cols k q d (cols_part cols ++ [Q]) Et Hk Hd Hs Hsrc); [|reflexivity].
  apply (HF Q k q); [|reflexivity]. unfold stmt. cbn [children node]. apply (In_sep noise).
  rewrite !in_app_iff. right. right. left. reflexivity.
Qed.

Lemma create_ok (view : bool) t q :
  tref_ok t = true -> src_ok (q_size q) q ->
  exists g, analyze e false (r_stmt_x noise (if view then SView t q else SCtas t q)) = Ok g /\ gok g /\
            (forall x, tset g "read" x <-> In x (q_reads (S (q_size q)) (e_cfg e) [] q)) /\
            (forall x, tset g "write" x <-> x = tref_str (e_cfg e) t).
Proof.
  intros Ht Hsrc. set (k := q_size q) in *. set (Q := r_query_x noise (S k) q).
  set (ty0 := if view then "create_view_statement" else "create_table_statement").
  set (w0 := if view then "view" else "table").
  set (stmt := node ty0 [ty0] (sep noise [kw "create"; kw w0; r_tref t; kw "as"; Q])).
  assert (Es : r_stmt_x noise (if view then SView t q else SCtas t q) = stmt) by (destruct view; reflexivity). rewrite Es.
  assert (Ea : analyze e false stmt = extract (S (S (3 * depth stmt + 8))) e XCreateInsert stmt empty_ctx).
  { replace (S (S (3 * depth stmt + 8))) with (3 * depth stmt + 10) by lia. destruct view; reflexivity. }
  assert (HF : forall Q0 k0 q0, In Q0 (children stmt) -> Q0 = r_query_x noise (S k0) q0 -> qd (S k0) q0 < S (3 * depth stmt + 8))
    by (intros Q0 k0 q0; apply fuel_child).
  set (F := 3 * depth stmt + 8) in *.
  rewrite Ea, extract_ci_eq. unfold stmt at 2. rewrite (lcs_node noise Hnoise) by (destruct view; reflexivity).
  cbn [filter]. change (nn (kw "create")) with true. change (nn (kw w0)) with true. change (nn (kw "as")) with true.
  change (nn (r_tref t)) with true. unfold Q at 1. rewrite (nn_rq noise). cbn iota. fold Q.
  change (init_holder empty_ctx) with empty_graph. cbn [fold_left].
  rewrite (ci_kw_other (S F) stmt empty_graph false "create" eq_refl eq_refl).
  rewrite (ci_kw_target (S F) stmt empty_graph false false w0) by (destruct view; reflexivity).
  destruct (table_of_seg_tref e Henv t None Ht) as (d & Et & Hk & Hd & Hs).
  apply (ci_finish F stmt t None k q d [kw "as"; Q] Et Hk Hd Hs Hsrc).
  - apply (HF Q k q); [|reflexivity]. unfold stmt. cbn [children node]. apply (In_sep noise).
    right. right. right. right. left. reflexivity.
  - intros g. cbn [fold_left cols_part app]. rewrite (ci_kw_other (S F) stmt g false "as" eq_refl eq_refl). reflexivity.
Qed.

End Nav5.

(* ================================================================== *)
(** * Steps 7, 0, 8 and the statement as far as it is true *)
Definition sshape (s : stmt) : bool :=
  match s with
  | SInsert _ _ q | SCtas _ q | SView _ q | SQuery q => sshape_q q
  | SNoData _ => true
  end.

Lemma src_ok_of q :
  frag_query_x (S (q_size q)) q = true -> names_ok_q_x (S (q_size q)) [] q = true -> sshape_q q = true -> src_ok (q_size q) q.
Proof.
  intros Hf Hn Hs. destruct q as [items from cj wh|a b|n c b].
  - left. apply (body_ok_of _ [] _ Hf Hn Hs).
  - left. apply (body_ok_of _ [] _ Hf Hn Hs).
  - right. unfold sshape_q in Hs. apply andb_true_iff in Hs. destruct Hs as [Hsc Hsb].
    destruct (with_facts _ n c b Hf Hn Hsc Hsb) as (Hc & Hb & Hid & Hg). exists n, c, b. auto.
Qed.

Lemma wrapper_conclusion e r g t q (s : stmt) :
  r = Ok g -> gok g ->
  (forall x, tset g "read" x <-> In x (q_reads (S (q_size q)) (e_cfg e) [] q)) ->
  (forall x, tset g "write" x <-> x = tref_str (e_cfg e) t) ->
  spec_reads (e_cfg e) s = dedup_s (q_reads (S (q_size q)) (e_cfg e) [] q) [] -> spec_writes (e_cfg e) s = [tref_str (e_cfg e) t] ->
  stmt_reads r = sort_strings (spec_reads (e_cfg e) s) /\ stmt_writes r = sort_strings (spec_writes (e_cfg e) s).
Proof.
  intros Er Hg Hr Hw Esr Esw. rewrite Esr, Esw. split.
  - apply (stmt_reads_spec r g); assumption.
  - apply (stmt_writes_spec r g); [exact Er|exact Hg|repeat constructor; intros []|].
    intros x. rewrite Hw. cbn [In]. split; [intros ->; left; reflexivity|intros [H|[]]; symmetry; exact H].
Qed.

(** Lemma A (tables) on the fragment on which it holds: [stmt_ok_a] and [sshape] *)
Theorem lemma_A_tables_x0 : forall noise e s,
  noise_ok noise = true -> env_ok_md e = true -> stmt_ok_a s = true -> sshape s = true ->
  stmt_reads (analyze e false (r_stmt_x noise s)) = sort_strings (spec_reads (e_cfg e) s) /\
  stmt_writes (analyze e false (r_stmt_x noise s)) = sort_strings (spec_writes (e_cfg e) s).
Proof.
  intros noise e s Hn He Hok Hs. destruct s as [t cols q|t q|t q|q|kind].
  - cbn [stmt_ok_a sshape] in *. apply andb_true_iff in Hok. destruct Hok as [Hok _]. apply andb_true_iff in Hok. destruct Hok as [Hok Hnm].
    apply andb_true_iff in Hok. destruct Hok as [Ht Hf].
    destruct (insert_ok noise Hn e He t cols q Ht (src_ok_of q Hf Hnm Hs)) as (g & E & G1 & G2 & G3).
    apply (wrapper_conclusion e _ g t q); auto.
  - cbn [stmt_ok_a sshape] in *. apply andb_true_iff in Hok. destruct Hok as [Hok Hnm]. apply andb_true_iff in Hok. destruct Hok as [Ht Hf].
    destruct (create_ok noise Hn e He false t q Ht (src_ok_of q Hf Hnm Hs)) as (g & E & G1 & G2 & G3).
    apply (wrapper_conclusion e _ g t q); auto.
  - cbn [stmt_ok_a sshape] in *. apply andb_true_iff in Hok. destruct Hok as [Hok Hnm]. apply andb_true_iff in Hok. destruct Hok as [Ht Hf].
    destruct (create_ok noise Hn e He true t q Ht (src_ok_of q Hf Hnm Hs)) as (g & E & G1 & G2 & G3).
    apply (wrapper_conclusion e _ g t q); auto.
  - apply lemma_A_x_step6; assumption.
  - split; reflexivity.
Qed.

(** step 7: the INSERT / CREATE TABLE AS / CREATE VIEW AS wrappers *)
Theorem lemma_A_x_step7 : forall noise e s,
  noise_ok noise = true -> env_ok_md e = true -> stmt_ok_a s = true -> sshape s = true ->
  (match s with SInsert _ _ _ | SCtas _ _ | SView _ _ => True | _ => False end) ->
  stmt_reads (analyze e false (r_stmt_x noise s)) = sort_strings (spec_reads (e_cfg e) s) /\
  stmt_writes (analyze e false (r_stmt_x noise s)) = sort_strings (spec_writes (e_cfg e) s).
Proof. intros noise e s Hn He Hok Hs _. apply lemma_A_tables_x0; assumption. Qed.

(** step 0: the written tables *)
Theorem lemma_A_x_step0 : forall noise e s,
  noise_ok noise = true -> env_ok_md e = true -> stmt_ok_a s = true -> sshape s = true ->
  stmt_writes (analyze e false (r_stmt_x noise s)) = sort_strings (spec_writes (e_cfg e) s).
Proof. intros noise e s Hn He Hok Hs. exact (proj2 (lemma_A_tables_x0 noise e s Hn He Hok Hs)). Qed.

(** step 8: arbitrary trivia - every theorem above is already stated for an arbitrary [noise] *)
Theorem lemma_A_x_step8 : forall noise e s,
  noise_ok noise = true -> env_ok_md e = true -> stmt_ok_a s = true -> sshape s = true ->
  stmt_reads (analyze e false (r_stmt_x noise s)) = sort_strings (spec_reads (e_cfg e) s) /\
  stmt_writes (analyze e false (r_stmt_x noise s)) = sort_strings (spec_writes (e_cfg e) s).
Proof. exact lemma_A_tables_x0. Qed.
(* ================================================================== *)
(** * Main theorem, in terms of the guard [sshape] of Tree/LemmaAProofs.v *)
Lemma qshape_same : forall k q, qshape k q = LemmaAProofs.qshape k q.
Proof.
  induction k as [|k IH]; intros q; [reflexivity|]. destruct q as [items from cj wh|a b|n c b]; cbn [qshape LemmaAProofs.qshape]; [| |reflexivity].
  - assert (E1 : forallb (fun r => match r with RDerived q' _ => qshape k q' | _ => true end) from =
                 forallb (fun r => match r with RDerived q' _ => LemmaAProofs.qshape k q' | _ => true end) from).
    { induction from as [|r l IHl]; [reflexivity|]. cbn [forallb]. rewrite IHl. destruct r; rewrite ?IH; reflexivity. }
    rewrite E1. destruct wh as [[c sq]|]; [rewrite IH|]; reflexivity.
  - rewrite !IH. destruct a, b; reflexivity.
Qed.

Lemma sshape_same s : sshape s = LemmaAProofs.sshape s.
Proof.
  destruct s as [t cols q|t q|t q|q|kind]; try reflexivity; cbn [sshape LemmaAProofs.sshape]; unfold sshape_q, LemmaAProofs.sshape_q;
    destruct q; rewrite ?qshape_same; reflexivity.
Qed.

(** LEMMA A for [r_stmt_x]: the whole Lemma-A fragment - INSERT (with or without column list) / CTAS / VIEW / plain query /
    no-data statements; derived tables, WHERE .. IN (sub-query), unions of plain SELECTs, an outermost WITH, nested to any
    depth - with star / column / expression items (aliased or not, any depth) in every SELECT, arbitrary trivia *)
Theorem lemma_A_tables_x : forall noise e s,
  noise_ok noise = true -> env_ok_md e = true -> stmt_ok_a s = true -> LemmaAProofs.sshape s = true ->
  stmt_reads (analyze e false (r_stmt_x noise s)) = sort_strings (spec_reads (e_cfg e) s) /\
  stmt_writes (analyze e false (r_stmt_x noise s)) = sort_strings (spec_writes (e_cfg e) s).
Proof. intros noise e s Hn He Hok Hs. apply lemma_A_tables_x0; [exact Hn|exact He|exact Hok|rewrite sshape_same; exact Hs]. Qed.
Print Assumptions lemma_A_tables_x.

(** [stmt_ok_a] extends [stmt_ok]: on the old fragment nothing changes *)
Lemma item_ok_a_old i : item_ok i = true -> item_ok_a i = true.
Proof. destruct i as [[q c| | | | | |] al|qq]; cbn [item_ok]; try discriminate; intros H; exact H. Qed.

(** ** non-vacuity: expression items (aliased and not) at three nesting levels, WHERE-IN, a union, a derived table, an
    outermost WITH under INSERT with a column list; trivia [ws; cmt] *)
Definition exA_item1 : item := IExpr ex2 None.
Definition exA_item2 : item := IExpr ex3 (Some "k").
Definition exA_inner : query :=
  QUnion (QSelect [exA_item1; IStar None] [RTable (None, "t1") (Some "u")] false None)
         (QSelect [exA_item2; IExpr (EColRef None "b") None] [RTable (Some "s", "t2") None] false
                  (Some ("c", QSelect [IExpr (ECast (EColRef None "c")) None] [RTable (None, "t3") None] false None))).
Definition exA_q : query :=
  QWith "w" (QSelect [exA_item2] [RTable (None, "t0") None] false None)
        (QSelect [IExpr (EFun (EColRef (Some "d") "k") ELit) (Some "m"); exA_item1]
                 [RDerived exA_inner "d"; RTable (None, "w") None] false None).
Definition exA_s : stmt := SInsert (None, "out") (Some ["p"; "q"]) exA_q.

Example exA_hyps : noise_ok [ws; cmt] = true /\ env_ok_md e0 = true /\ stmt_ok_a exA_s = true /\ LemmaAProofs.sshape exA_s = true.
Proof. vm_compute. repeat split. Qed.
Example exA_instance :
  stmt_reads (analyze e0 false (r_stmt_x [ws; cmt] exA_s)) = ["<default>.t0"; "<default>.t1"; "<default>.t3"; "s.t2"] /\
  stmt_writes (analyze e0 false (r_stmt_x [ws; cmt] exA_s)) = ["<default>.out"].
Proof. vm_compute. split; reflexivity. Qed.

End XMd.

(* ================================================================== *)
(** * C13 on the expression fragment: the results under their own names *)
Theorem lemma_A_tables_x_any_provider : forall noise e s,
  noise_ok noise = true -> env_ok_md e = true -> XMd.stmt_ok_a s = true -> LemmaAProofs.sshape s = true ->
  stmt_reads (analyze e false (r_stmt_x noise s)) = sort_strings (spec_reads (e_cfg e) s) /\
  stmt_writes (analyze e false (r_stmt_x noise s)) = sort_strings (spec_writes (e_cfg e) s).
Proof. exact XMd.lemma_A_tables_x. Qed.
Print Assumptions lemma_A_tables_x_any_provider.

(** two environments that differ only in the metadata provider report the same tables read and written *)
Theorem metadata_never_changes_tables_x : forall noise e e' s,
  e_cfg e' = e_cfg e -> e_icfg e' = e_icfg e -> e_vertica e' = e_vertica e -> e_scalar e' = e_scalar e ->
  noise_ok noise = true -> env_ok_md e = true -> XMd.stmt_ok_a s = true -> LemmaAProofs.sshape s = true ->
  stmt_reads (analyze e false (r_stmt_x noise s)) = stmt_reads (analyze e' false (r_stmt_x noise s)) /\
  stmt_writes (analyze e false (r_stmt_x noise s)) = stmt_writes (analyze e' false (r_stmt_x noise s)).
Proof.
  intros noise e e' s H1 H2 H3 _ Hn He Hok Hs.
  assert (He' : env_ok_md e' = true) by (unfold env_ok_md in *; rewrite H1, H2, H3; exact He).
  destruct (lemma_A_tables_x_any_provider noise e s Hn He Hok Hs) as [R W].
  destruct (lemma_A_tables_x_any_provider noise e' s Hn He' Hok Hs) as [R' W'].
  rewrite R, W, R', W', H1. split; reflexivity.
Qed.
Print Assumptions metadata_never_changes_tables_x.

Corollary metadata_never_changes_tables_x_with_provider : forall noise e p s,
  noise_ok noise = true -> env_ok_md e = true -> XMd.stmt_ok_a s = true -> LemmaAProofs.sshape s = true ->
  stmt_reads (analyze (with_provider e p) false (r_stmt_x noise s)) = stmt_reads (analyze e false (r_stmt_x noise s)) /\
  stmt_writes (analyze (with_provider e p) false (r_stmt_x noise s)) = stmt_writes (analyze e false (r_stmt_x noise s)).
Proof.
  intros noise e p s Hn He Hok Hs.
  destruct (metadata_never_changes_tables_x noise e (with_provider e p) s eq_refl eq_refl eq_refl eq_refl Hn He Hok Hs) as [R W].
  split; symmetry; assumption.
Qed.

(** non-vacuity with truthy providers: the INSERT with an explicit column list over nested expression items of
    [XMd.exA_s], under catalogs that know the target, the sources, and odd column names *)
Definition x_envs : list env := map (fun pc => mk_env "ansi" "" "" {| p_truthy := true; p_cols := pc |} [])
  [ [("<default>.out", ["p"; "q"; "r"]); ("<default>.t0", ["a"; "b"]); ("<default>.t1", ["a"]); ("s.t2", ["x"]); ("<default>.t3", ["c"])];
    [("<default>.out", ["*"; ""; "p"; "p"]); ("<default>.t0", ["*"]); ("s.t2", [])];
    [("<default>.other", ["z"])] ].

Example x_any_provider_nonvacuous :
  forallb (fun e => env_ok_md e && negb (env_ok e)) x_envs = true /\
  XMd.stmt_ok_a XMd.exA_s = true /\ LemmaAProofs.sshape XMd.exA_s = true /\
  forallb (fun e =>
     list_eqb (stmt_reads (analyze e false (r_stmt_x [ws; cmt] XMd.exA_s))) ["<default>.t0"; "<default>.t1"; "<default>.t3"; "s.t2"] &&
     list_eqb (stmt_writes (analyze e false (r_stmt_x [ws; cmt] XMd.exA_s))) ["<default>.out"]) x_envs = true.
Proof. repeat split; vm_compute; reflexivity. Qed.
