(** Lemma B, step 5b (UNION of two plain SELECTs over base tables): what [colshape] gives for such a statement. *)
From SV Require Import Tree.Render Tree.LemmaA Tree.LemmaAProofs Tree.LemmaB Tree.LemmaBProofs Tree.LemmaB5bDefs Ident.Escape Ident.EscapeProofs.
Require Import Lia.
Open Scope string_scope.
Open Scope list_scope.

(* ================================================================== *)
(** * Generic list facts *)
Lemma cu_forallb2_app {A B} (P : A -> B -> bool) X Y X' Y' :
  forallb (fun a => forallb (P a) (X ++ Y)) (X' ++ Y') = true ->
  forallb (fun a => forallb (P a) X) X' = true /\ forallb (fun a => forallb (P a) Y) Y' = true.
Proof.
  intros H. rewrite forallb_app in H. apply andb_true_iff in H. destruct H as [H1 H2]. split.
  - apply forallb_forall. intros a Ha. rewrite forallb_forall in H1. specialize (H1 a Ha). rewrite forallb_app in H1.
    apply andb_true_iff in H1. exact (proj1 H1).
  - apply forallb_forall. intros a Ha. rewrite forallb_forall in H2. specialize (H2 a Ha). rewrite forallb_app in H2.
    apply andb_true_iff in H2. exact (proj2 H2).
Qed.

Lemma cu_count_app c A B : count_s c (A ++ B) = count_s c A + count_s c B.
Proof. unfold count_s. rewrite filter_app, app_length. reflexivity. Qed.

Lemma cu_count_zero c l : count_s c l = 0 -> ~ In c l.
Proof.
  induction l as [|x r IH]; intros H Hin; [destruct Hin|]. rewrite count_s_cons in H.
  destruct Hin as [->|Hin]; [rewrite String.eqb_refl in H; lia|]. apply IH; [lia|exact Hin].
Qed.

Lemma cu_zip_union_length a : forall b, List.length (zip_union a b) = List.length a.
Proof.
  induction a as [|[n s] ra IH]; intros [|[n' s'] rb]; try reflexivity.
  cbn [zip_union List.length]. rewrite IH. reflexivity.
Qed.

(* ================================================================== *)
(** * The guard's ingredients on one SELECT over base tables: any fuel >= 1 gives the same *)
Section SEL.
  Variables (items : list item) (from : list rel) (cj : bool).
  Hypothesis Hrt : forallb is_rtable from = true.
  Let q := QSelect items from cj None.

  Lemma cu_q_trefs_sel k : q_trefs (S k) q = map rtref from.
  Proof.
    unfold q. cbn [q_trefs]. rewrite app_nil_r, (rels_flat_tables from Hrt).
    clear q. induction from as [|r rest IH]; [reflexivity|]. cbn [forallb] in Hrt. apply andb_true_iff in Hrt. destruct Hrt as [H1 H2].
    cbn [flat_map map]. rewrite (IH H2). destruct r; try discriminate. reflexivity.
  Qed.

  Lemma cu_scopes_sel k : scopes (S k) q = scopes 1 q.
  Proof.
    unfold q. cbn [scopes]. rewrite (rels_flat_tables from Hrt).
    rewrite (flat_map_none (fun r => match r with RDerived q' _ => fst (scopes k q') | _ => [] end) from).
    - rewrite (flat_map_none _ from); [reflexivity|].
      intros r Hr. rewrite forallb_forall in Hrt. specialize (Hrt r Hr). destruct r; try discriminate. reflexivity.
    - intros r Hr. rewrite forallb_forall in Hrt. specialize (Hrt r Hr). destruct r; try discriminate. reflexivity.
  Qed.

  Lemma cu_nested_sel k : nested_ok (S k) q = true.
  Proof.
    unfold q. cbn [nested_ok]. rewrite (rels_flat_tables from Hrt), andb_true_r. apply forallb_forall. intros r Hr.
    rewrite forallb_forall in Hrt. specialize (Hrt r Hr). destruct r; try discriminate. reflexivity.
  Qed.

  Lemma cu_cs_q_sel k names :
    cs_q (S k) names true [] q =
    scope_names_ok from && forallb (item_ok_c names (map (sbind "") from) true (unq_of (flat_map item_refs items))) items.
  Proof.
    unfold q. cbn [cs_q]. rewrite (scope_of_tables k from Hrt), (rels_flat_tables from Hrt), andb_true_r.
    fold (unq_of (flat_map item_refs items)).
    replace (forallb (fun r => match r with RDerived q' _ => cs_q k names false [] q' | _ => true end) from) with true; [apply andb_true_r|].
    symmetry. apply forallb_forall. intros r Hr. rewrite forallb_forall in Hrt. specialize (Hrt r Hr). destruct r; try discriminate. reflexivity.
  Qed.
End SEL.

(** the fuel-free form of [cs_alias] on such a SELECT *)
Definition cu_als (scs : list (list sc_entry)) : list (string * option tref) :=
  flat_map (fun sc => flat_map (fun en : sc_entry => match fst en with Some a => [(a, snd en)] | None => [] end) sc) scs.

Lemma cu_names_global k q :
  names_global k q =
  forallb (fun t => forallb (fun t' => negb (String.eqb (snd t) (snd t')) || tref_eqb t t') (q_trefs k q)) (q_trefs k q)
  && forallb (fun ao : string * option tref =>
                forallb (fun t' => negb (String.eqb (fst ao) (snd t')) || otref_is t' (snd ao)) (q_trefs k q)) (cu_als (fst (scopes k q))).
Proof. reflexivity. Qed.

(* ================================================================== *)
(** * [ref_ok]: the statement-wide names enter through the count only *)
Lemma cu_ref_ok_l A B scope unq r :
  ref_ok (A ++ B) scope unq r = true -> count_s (snd r) unq <= count_s (snd r) A -> ref_ok A scope unq r = true.
Proof.
  unfold ref_ok. intros H Hle. destruct (fst r); [exact H|]. destruct scope as [|b [|b' l]]; [| exact H |].
  - cbn [forallb andb] in *. apply Nat.eqb_eq in H. apply Nat.eqb_eq. rewrite cu_count_app in H. lia.
  - apply andb_true_iff in H. destruct H as [H1 H2]. rewrite H1. cbn [andb]. apply Nat.eqb_eq in H2. apply Nat.eqb_eq.
    rewrite cu_count_app in H2. lia.
Qed.

Lemma cu_ref_ok_r A B scope unq r :
  ref_ok (A ++ B) scope unq r = true -> count_s (snd r) unq <= count_s (snd r) B -> ref_ok B scope unq r = true.
Proof.
  unfold ref_ok. intros H Hle. destruct (fst r); [exact H|]. destruct scope as [|b [|b' l]]; [| exact H |].
  - cbn [forallb andb] in *. apply Nat.eqb_eq in H. apply Nat.eqb_eq. rewrite cu_count_app in H. lia.
  - apply andb_true_iff in H. destruct H as [H1 H2]. rewrite H1. cbn [andb]. apply Nat.eqb_eq in H2. apply Nat.eqb_eq.
    rewrite cu_count_app in H2. lia.
Qed.

(** every reference of an item is among the references of the select list, hence its count bound *)
Lemma cu_items_ok_l A B scope so items :
  A = map snd (flat_map item_refs items) ->
  forallb (item_ok_c (A ++ B) scope so (unq_of (flat_map item_refs items))) items = true ->
  forallb (item_ok_c A scope so (unq_of (flat_map item_refs items))) items = true.
Proof.
  intros -> H. apply forallb_forall. intros i Hi. rewrite forallb_forall in H. specialize (H i Hi).
  destruct i as [e al|qq]; [|exact H]. cbn [item_ok_c] in *. apply forallb_forall. intros r Hr.
  rewrite forallb_forall in H. apply (cu_ref_ok_l _ B); [apply H; exact Hr|apply count_unq_le].
Qed.

Lemma cu_items_ok_r A B scope so items :
  B = map snd (flat_map item_refs items) ->
  forallb (item_ok_c (A ++ B) scope so (unq_of (flat_map item_refs items))) items = true ->
  forallb (item_ok_c B scope so (unq_of (flat_map item_refs items))) items = true.
Proof.
  intros -> H. apply forallb_forall. intros i Hi. rewrite forallb_forall in H. specialize (H i Hi).
  destruct i as [e al|qq]; [|exact H]. cbn [item_ok_c] in *. apply forallb_forall. intros r Hr.
  rewrite forallb_forall in H. apply (cu_ref_ok_r A _); [apply H; exact Hr|apply count_unq_le].
Qed.

(* ================================================================== *)
(** * The guard of the union statement, taken apart *)
Definition cu_tclash (t : tref) (from : list rel) : bool := forallb (fun r => negb (tref_clash t r)) (map rtref from).

Record cu_parts (t : tref) (i1 : list item) (f1 : list rel) (c1 : bool) (i2 : list item) (f2 : list rel) (c2 : bool) : Prop := {
  cp_sub1 : colshape (SInsert t None (QSelect i1 f1 c1 None)) = true;
  cp_sub2 : colshape (SInsert t None (QSelect i2 f2 c2 None)) = true;
  cp_items1 : forallb (item_ok_c (map snd (flat_map item_refs i1) ++ map snd (flat_map item_refs i2)) (map (sbind "") f1) true
                                 (unq_of (flat_map item_refs i1))) i1 = true;
  cp_items2 : forallb (item_ok_c (map snd (flat_map item_refs i1) ++ map snd (flat_map item_refs i2)) (map (sbind "") f2) true
                                 (unq_of (flat_map item_refs i2))) i2 = true;
  cp_arity : List.length (flat_map (item_cols (map (sbind "") f1)) i1) = List.length (flat_map (item_cols (map (sbind "") f2)) i2);
  cp_nodup : nodup_s (map fst (flat_map (item_cols (map (sbind "") f1)) i1)) = true
}.

Lemma cu_q_size_sel items from cj : exists k, q_size (QSelect items from cj None) = S k.
Proof. eexists. reflexivity. Qed.

Lemma cu_colshape_parts (s : stmt) t i1 f1 c1 i2 f2 c2 :
  union_stmt_of s t (uq i1 f1 c1 i2 f2 c2) -> colshape s = true ->
  forallb is_rtable f1 = true -> forallb is_rtable f2 = true ->
  cu_parts t i1 f1 c1 i2 f2 c2.
Proof.
  intros Hs Hc R1 R2. unfold uq in Hs.
  set (A := QSelect i1 f1 c1 None) in *. set (B := QSelect i2 f2 c2 None) in *.
  destruct (cu_q_size_sel i1 f1 c1) as [ka Hka]. destruct (cu_q_size_sel i2 f2 c2) as [kb Hkb]. fold A in Hka. fold B in Hkb.
  unfold colshape in Hc. apply andb_true_iff in Hc. destruct Hc as [Hc Hsc].
  apply andb_true_iff in Hc. destruct Hc as [Hc Hal]. apply andb_true_iff in Hc. destruct Hc as [Hns _].
  set (m := q_size A + q_size B).
  assert (Em : q_size (QUnion A B) = S m) by reflexivity.
  (* (1) no self reference *)
  assert (Ens : cs_noself s = forallb (fun r => negb (tref_clash t r)) (q_trefs (S (q_size (QUnion A B))) (QUnion A B)))
    by (destruct Hs as [(cols & ->)|[->| ->]]; reflexivity).
  rewrite Ens, Em in Hns. change (q_trefs (S (S m)) (QUnion A B)) with (q_trefs (S m) A ++ q_trefs (S m) B) in Hns.
  unfold A, B in Hns. rewrite (cu_q_trefs_sel i1 f1 c1 R1), (cu_q_trefs_sel i2 f2 c2 R2), forallb_app in Hns.
  apply andb_true_iff in Hns. destruct Hns as [Hns1 Hns2].
  (* (3) aliases *)
  assert (Eal : cs_alias s = (let scs := fst (scopes (S (q_size (QUnion A B))) (QUnion A B)) in
                              nested_ok (S (q_size (QUnion A B))) (QUnion A B) && forallb (fun a => forallb (scope_pair_ok a) scs) scs
                              && names_global (S (q_size (QUnion A B))) (QUnion A B)))
    by (destruct Hs as [(cols & ->)|[->| ->]]; reflexivity).
  rewrite Eal, Em in Hal. cbn zeta in Hal. rewrite cu_names_global in Hal.
  change (scopes (S (S m)) (QUnion A B)) with (fst (scopes (S m) A) ++ fst (scopes (S m) B), snd (scopes (S m) A) ++ snd (scopes (S m) B)) in Hal.
  change (q_trefs (S (S m)) (QUnion A B)) with (q_trefs (S m) A ++ q_trefs (S m) B) in Hal.
  cbn [fst] in Hal. unfold A, B in Hal.
  rewrite (cu_scopes_sel i1 f1 c1 R1), (cu_scopes_sel i2 f2 c2 R2), (cu_q_trefs_sel i1 f1 c1 R1), (cu_q_trefs_sel i2 f2 c2 R2) in Hal.
  fold A B in Hal. unfold cu_als in Hal. rewrite flat_map_app in Hal. fold (cu_als (fst (scopes 1 A))) (cu_als (fst (scopes 1 B))) in Hal.
  apply andb_true_iff in Hal. destruct Hal as [Hal Hng]. apply andb_true_iff in Hal. destruct Hal as [_ Hpair].
  apply andb_true_iff in Hng. destruct Hng as [Hng1 Hng2].
  destruct (cu_forallb2_app _ _ _ _ _ Hpair) as [Hp1 Hp2].
  destruct (cu_forallb2_app _ _ _ _ _ Hng1) as [Hg1 Hg2].
  destruct (cu_forallb2_app _ _ _ _ _ Hng2) as [Hh1 Hh2].
  (* (4) scopes *)
  assert (Esc : cs_scopes s = cs_q (S (q_size (QUnion A B))) (q_refnames (S (q_size (QUnion A B))) (QUnion A B)) true [] (QUnion A B))
    by (destruct Hs as [(cols & ->)|[->| ->]]; reflexivity).
  rewrite Esc, Em in Hsc.
  change (q_refnames (S (S m)) (QUnion A B)) with (q_refnames (S m) A ++ q_refnames (S m) B) in Hsc.
  unfold A, B in Hsc. rewrite (q_refnames_tables m i1 f1 c1 R1), (q_refnames_tables m i2 f2 c2 R2) in Hsc. fold A B in Hsc.
  set (NA := map snd (flat_map item_refs i1)) in *. set (NB := map snd (flat_map item_refs i2)) in *.
  change (cs_q (S (S m)) (NA ++ NB) true [] (QUnion A B))
    with (cs_q (S m) (NA ++ NB) true [] A && cs_q (S m) (NA ++ NB) true [] B
          && Nat.eqb (List.length (q_cols (S m) "" [] A)) (List.length (q_cols (S m) "" [] B))
          && nodup_s (map fst (q_cols (S m) "" [] A))) in Hsc.
  unfold A, B in Hsc. rewrite (cu_cs_q_sel i1 f1 c1 R1), (cu_cs_q_sel i2 f2 c2 R2),
    (q_cols_select m "" i1 f1 c1 None R1), (q_cols_select m "" i2 f2 c2 None R2) in Hsc. fold A B in Hsc.
  apply andb_true_iff in Hsc. destruct Hsc as [Hsc Hnd]. apply andb_true_iff in Hsc. destruct Hsc as [Hsc Har].
  apply andb_true_iff in Hsc. destruct Hsc as [Hq1 Hq2].
  apply andb_true_iff in Hq1. destruct Hq1 as [Hn1 Hi1]. apply andb_true_iff in Hq2. destruct Hq2 as [Hn2 Hi2].
  apply Nat.eqb_eq in Har.
  constructor; try assumption.
  - (* sub-statement 1 *)
    unfold colshape. cbn [cs_cols]. rewrite andb_true_r. fold A.
    assert (E1 : cs_noself (SInsert t None A) = true).
    { cbn [cs_noself]. rewrite Hka. unfold A. rewrite (cu_q_trefs_sel i1 f1 c1 R1). exact Hns1. }
    assert (E2 : cs_alias (SInsert t None A) = true).
    { unfold cs_alias. cbn [stmt_query]. rewrite Hka, cu_names_global. unfold A.
      rewrite (cu_scopes_sel i1 f1 c1 R1), (cu_q_trefs_sel i1 f1 c1 R1), (cu_nested_sel i1 f1 c1 R1). fold A.
      rewrite Hp1, Hg1. cbn [andb]. exact Hh1. }
    assert (E3 : cs_scopes (SInsert t None A) = true).
    { unfold cs_scopes. cbn [stmt_query]. rewrite Hka. unfold A. rewrite (q_refnames_tables (S ka) i1 f1 c1 R1), (cu_cs_q_sel i1 f1 c1 R1).
      rewrite Hn1. cbn [andb]. apply (cu_items_ok_l NA NB); [reflexivity|exact Hi1]. }
    rewrite E1, E2, E3. reflexivity.
  - (* sub-statement 2 *)
    unfold colshape. cbn [cs_cols]. rewrite andb_true_r. fold B.
    assert (E1 : cs_noself (SInsert t None B) = true).
    { cbn [cs_noself]. rewrite Hkb. unfold B. rewrite (cu_q_trefs_sel i2 f2 c2 R2). exact Hns2. }
    assert (E2 : cs_alias (SInsert t None B) = true).
    { unfold cs_alias. cbn [stmt_query]. rewrite Hkb, cu_names_global. unfold B.
      rewrite (cu_scopes_sel i2 f2 c2 R2), (cu_q_trefs_sel i2 f2 c2 R2), (cu_nested_sel i2 f2 c2 R2). fold B.
      rewrite Hp2, Hg2. cbn [andb]. exact Hh2. }
    assert (E3 : cs_scopes (SInsert t None B) = true).
    { unfold cs_scopes. cbn [stmt_query]. rewrite Hkb. unfold B. rewrite (q_refnames_tables (S kb) i2 f2 c2 R2), (cu_cs_q_sel i2 f2 c2 R2).
      rewrite Hn2. cbn [andb]. apply (cu_items_ok_r NA NB); [reflexivity|exact Hi2]. }
    rewrite E1, E2, E3. reflexivity.
Qed.

(* ================================================================== *)
(** * The conditions of the union fragment follow from [colshape] *)
Lemma cu_names_single {A} (f : A -> list colspec) (nm : A -> string) l :
  (forall x, In x l -> exists srcs, f x = [(nm x, srcs)]) -> map fst (flat_map f l) = map nm l.
Proof.
  induction l as [|a r IH]; intros H; [reflexivity|]. cbn [flat_map map]. destruct (H a (or_introl eq_refl)) as (srcs & ->).
  cbn [app map fst]. rewrite IH; [reflexivity|]. intros x Hx. apply H. right. exact Hx.
Qed.

(** an unqualified reference over several tables: its name occurs in no reference of the other branch *)
Lemma cu_cross all f i1 i2 :
  (forall c, count_s c all = count_s c (map snd (flat_map item_refs i1)) + count_s c (map snd (flat_map item_refs i2))) ->
  forallb item_ok i1 = true -> forallb item_ok i2 = true ->
  forallb (item_ok_c all (map (sbind "") f) true (unq_of (flat_map item_refs i1))) i1 = true ->
  2 <= List.length f -> forall i i' c, In i i1 -> In i' i2 -> item_ref i = (c, None) -> fst (item_ref i') <> c.
Proof.
  intros Hcount Hit1 Hit2 Hitems Hl i i' c Hi Hi' Ei. rewrite forallb_forall in Hitems, Hit1, Hit2.
  pose proof (Hitems i Hi) as Hci. pose proof (Hit1 i Hi) as Hoi. pose proof (Hit2 i' Hi') as Hoi'.
  destruct f as [|r [|r' l]]; cbn [List.length] in Hl; try lia.
  destruct i as [[qq n| | | | | |] al'|qq]; cbn [item_ok] in Hoi; try discriminate; cbn [item_ref] in Ei; inversion Ei; subst.
  - cbn [item_ok_c col_refs forallb ref_ok fst snd map] in Hci. rewrite andb_true_r in Hci.
    apply andb_true_iff in Hci. destruct Hci as [_ Hci]. apply Nat.eqb_eq in Hci.
    pose proof (count_unq_le c (flat_map item_refs i1)) as Hle. specialize (Hcount c).
    assert (Hz : count_s c (map snd (flat_map item_refs i2)) = 0) by lia.
    destruct i' as [[qq' n'| | | | | |] al''|qq']; cbn [item_ok] in Hoi'; try discriminate; cbn [item_ref fst].
    + intros ->. apply (cu_count_zero _ _ Hz). apply (in_map snd _ (qq', c)). apply in_flat_map.
      exists (IExpr (EColRef qq' c) al''). split; [exact Hi'|left; reflexivity].
    + intros <-. cbn in Hoi. discriminate.
  - cbn [item_ok_c map andb] in Hci. discriminate.
Qed.

Lemma colshape_union ds (s : stmt) t i1 f1 c1 i2 f2 c2 :
  union_stmt_of s t (uq i1 f1 c1 i2 f2 c2) -> colshape s = true -> tref_ok t = true ->
  f1 <> [] -> forallb rel_ok f1 = true -> forallb item_ok i1 = true -> trefs_distinct (map rtref f1) = true ->
  f2 <> [] -> forallb rel_ok f2 = true -> forallb item_ok i2 = true -> trefs_distinct (map rtref f2) = true ->
  (tables_cond ds t f1 /\ items_cond f1 i1 /\ noqual_items f1 i1) /\
  (tables_cond ds t f2 /\ items_cond f2 i2 /\ noqual_items f2 i2) /\
  List.length i1 = List.length i2 /\ NoDup (map item_name i1) /\
  (* the name of an unqualified (unresolved) reference over several tables in one branch is the name of no reference of the other branch *)
  (2 <= List.length f1 -> forall i i' c, In i i1 -> In i' i2 -> item_ref i = (c, None) -> fst (item_ref i') <> c) /\
  (2 <= List.length f2 -> forall i i' c, In i i2 -> In i' i1 -> item_ref i = (c, None) -> fst (item_ref i') <> c).
Proof.
  intros Hs Hc Ht N1 Hrel1 Hit1 Hd1 N2 Hrel2 Hit2 Hd2.
  assert (R1 : forallb is_rtable f1 = true).
  { rewrite forallb_forall in *. intros r Hr. apply rel_ok_table. apply Hrel1. exact Hr. }
  assert (R2 : forallb is_rtable f2 = true).
  { rewrite forallb_forall in *. intros r Hr. apply rel_ok_table. apply Hrel2. exact Hr. }
  destruct (cu_colshape_parts s t i1 f1 c1 i2 f2 c2 Hs Hc R1 R2) as [S1 S2 I1 I2 Har Hnd].
  pose proof (fun ds' => colshape_tables ds' _ t i1 f1 c1 (or_introl (ex_intro _ None eq_refl)) S1 Ht N1 Hrel1 Hit1 Hd1) as L1.
  pose proof (fun ds' => colshape_tables ds' _ t i2 f2 c2 (or_introl (ex_intro _ None eq_refl)) S2 Ht N2 Hrel2 Hit2 Hd2) as L2.
  split; [apply L1|]. split; [apply L2|].
  destruct (L1 "") as (T1 & C1 & _). destruct (L2 "") as (T2 & C2 & _).
  pose proof (item_cols_single (mk_env "ansi" "" "" {| p_truthy := false; p_cols := [] |} []) t f1 i1 Hrel1 Hit1 T1 C1) as G1.
  pose proof (item_cols_single (mk_env "ansi" "" "" {| p_truthy := false; p_cols := [] |} []) t f2 i2 Hrel2 Hit2 T2 C2) as G2.
  cbn [e_cfg mk_env] in G1, G2.
  split; [|split; [|split]].
  - rewrite (length_flat_single _ i1), (length_flat_single _ i2) in Har; [exact Har| |].
    + intros i Hi. destruct (G2 i Hi) as (srcs & E). eexists. exact E.
    + intros i Hi. destruct (G1 i Hi) as (srcs & E). eexists. exact E.
  - apply nodup_s_NoDup. rewrite (cu_names_single _ item_name i1 G1) in Hnd. exact Hnd.
  - intros Hl. apply (cu_cross (map snd (flat_map item_refs i1) ++ map snd (flat_map item_refs i2)) f1 i1 i2); [|exact Hit1|exact Hit2|exact I1|exact Hl].
    intros c. apply cu_count_app.
  - intros Hl. apply (cu_cross (map snd (flat_map item_refs i1) ++ map snd (flat_map item_refs i2)) f2 i2 i1); [|exact Hit2|exact Hit1|exact I2|exact Hl].
    intros c. rewrite cu_count_app. lia.
Qed.
Print Assumptions colshape_union.

(** the INSERT column list of a union statement: distinct names, one per item of the first branch
    (only the first branch matters: [zip_union] keeps the length of its first argument) *)
Lemma colshape_union_cols (s : stmt) t cs i1 f1 c1 i2 f2 c2 :
  s = SInsert t (Some cs) (uq i1 f1 c1 i2 f2 c2) -> colshape s = true ->
  forallb rel_ok f1 = true -> forallb item_ok i1 = true -> tables_cond "" t f1 -> items_cond f1 i1 ->
  NoDup cs /\ List.length cs = List.length i1.
Proof.
  intros -> Hc Hrel Hit Htc Hic. unfold colshape in Hc. apply andb_true_iff in Hc. destruct Hc as [Hc _].
  apply andb_true_iff in Hc. destruct Hc as [Hc _]. apply andb_true_iff in Hc. destruct Hc as [_ Hcc].
  unfold uq in Hcc. set (A := QSelect i1 f1 c1 None) in *. set (B := QSelect i2 f2 c2 None) in *.
  cbn [cs_cols] in Hcc. apply andb_true_iff in Hcc. destruct Hcc as [H1 H2]. split; [apply nodup_s_NoDup; exact H1|].
  assert (Hrt : forallb is_rtable f1 = true).
  { rewrite forallb_forall in *. intros r Hr. apply rel_ok_table. apply Hrel. exact Hr. }
  apply Nat.eqb_eq in H2. rewrite H2.
  set (m := q_size A + q_size B).
  change (q_cols (S (q_size (QUnion A B))) "" [] (QUnion A B)) with (zip_union (q_cols (S m) "" [] A) (q_cols (S m) "" [] B)).
  rewrite cu_zip_union_length. unfold A. rewrite (q_cols_select m "" i1 f1 c1 None Hrt).
  apply length_flat_single. intros i Hi.
  destruct (item_cols_single (mk_env "ansi" "" "" {| p_truthy := false; p_cols := [] |} []) t f1 i1 Hrel Hit Htc Hic i Hi) as (srcs & E).
  eexists. exact E.
Qed.
Print Assumptions colshape_union_cols.

(** the same from the syntactic hypotheses of [colshape_union] *)
Corollary colshape_union_cols' (s : stmt) t cs i1 f1 c1 i2 f2 c2 :
  s = SInsert t (Some cs) (uq i1 f1 c1 i2 f2 c2) -> colshape s = true -> tref_ok t = true ->
  f1 <> [] -> forallb rel_ok f1 = true -> forallb item_ok i1 = true -> trefs_distinct (map rtref f1) = true ->
  f2 <> [] -> forallb rel_ok f2 = true -> forallb item_ok i2 = true -> trefs_distinct (map rtref f2) = true ->
  NoDup cs /\ List.length cs = List.length i1 /\ List.length cs = List.length i2.
Proof.
  intros Es Hc Ht N1 Hrel1 Hit1 Hd1 N2 Hrel2 Hit2 Hd2.
  destruct (colshape_union "" s t i1 f1 c1 i2 f2 c2 (or_introl (ex_intro _ (Some cs) Es)) Hc Ht N1 Hrel1 Hit1 Hd1 N2 Hrel2 Hit2 Hd2)
    as ((T1 & C1 & _) & _ & Hlen & _).
  destruct (colshape_union_cols s t cs i1 f1 c1 i2 f2 c2 Es Hc Hrel1 Hit1 T1 C1) as [Hnd Hl].
  split; [exact Hnd|]. split; [exact Hl|]. rewrite Hl. exact Hlen.
Qed.
Print Assumptions colshape_union_cols'.

(* ================================================================== *)
(** * Non-vacuity *)
Definition cu_ex_q : query :=
  uq [ci None "a"; ci (Some "t") "b"] [tb "t"; tb "u"] true [ci None "c"; ci None "d"] [tb "v"] false.

Example colshape_union_nonvacuous :
  let s := SInsert (None, "x") None cu_ex_q in
  union_stmt_of s (None, "x") cu_ex_q /\ colshape s = true /\ tref_ok (None, "x") = true /\
  [tb "t"; tb "u"] <> [] /\ forallb rel_ok [tb "t"; tb "u"] = true /\ forallb item_ok [ci None "a"; ci (Some "t") "b"] = true /\
  trefs_distinct (map rtref [tb "t"; tb "u"]) = true /\
  [tb "v"] <> [] /\ forallb rel_ok [tb "v"] = true /\ forallb item_ok [ci None "c"; ci None "d"] = true /\
  trefs_distinct (map rtref [tb "v"]) = true.
Proof.
  cbv zeta. split; [left; exists None; reflexivity|].
  repeat split; try (vm_compute; reflexivity); discriminate.
Qed.

(** the cross-branch conjunct is not vacuous either: here the first branch has two tables and an unqualified reference *)
Example colshape_union_cross_instance :
  forall i i' c, In i [ci None "a"; ci (Some "t") "b"] -> In i' [ci None "c"; ci None "d"] -> item_ref i = (c, None) -> fst (item_ref i') <> c.
Proof.
  assert (H := colshape_union_nonvacuous). cbv zeta in H.
  destruct H as (H1 & H2 & H3 & H4 & H5 & H6 & H7 & H8 & H9 & H10 & H11).
  destruct (colshape_union "" _ _ _ _ _ _ _ _ H1 H2 H3 H4 H5 H6 H7 H8 H9 H10 H11) as (_ & _ & _ & _ & K & _).
  apply K. cbn [List.length]. lia.
Qed.

(** without the guard the name of an unresolved reference may recur in the other branch: [colshape] rejects it *)
Example colshape_union_rejects_shared_name :
  colshape (SInsert (None, "x") None (uq [ci None "a"; ci (Some "t") "b"] [tb "t"; tb "u"] true [ci None "a"; ci None "d"] [tb "v"] false)) = false.
Proof. vm_compute. reflexivity. Qed.

Example colshape_union_cols_nonvacuous :
  let s := SInsert (None, "x") (Some ["p"; "q"]) cu_ex_q in
  colshape s = true /\ tables_cond "" (None, "x") [tb "t"; tb "u"] /\ items_cond [tb "t"; tb "u"] [ci None "a"; ci (Some "t") "b"].
Proof.
  cbv zeta. assert (Hc : colshape (SInsert (None, "x") (Some ["p"; "q"]) cu_ex_q) = true) by (vm_compute; reflexivity).
  split; [exact Hc|].
  destruct (colshape_union "" (SInsert (None, "x") (Some ["p"; "q"]) cu_ex_q) (None, "x")
              [ci None "a"; ci (Some "t") "b"] [tb "t"; tb "u"] true [ci None "c"; ci None "d"] [tb "v"] false)
    as ((T1 & C1 & _) & _); try (vm_compute; reflexivity); try discriminate.
  - left. exists (Some ["p"; "q"]). reflexivity.
  - split; assumption.
Qed.
