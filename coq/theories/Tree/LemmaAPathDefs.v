(** Lemma A (tables and file paths) for COPY, INSERT OVERWRITE DIRECTORY and file references: statement and guards. *)
From SV Require Import Tree.RenderPath Tree.LemmaA Tree.LemmaAProofs Ident.Escape.

(** the implementation normalises a path twice ([escape_identifier_name] on the quoted text, then again in [Path.__init__]):
    a path is reported verbatim exactly when that round trip is the identity (no upper-case letter, no quote character ...) *)
Definition path_ok (quoted_text p : string) : bool := String.eqb (escape (escape quoted_text)) p.

Definition pstmt_ok (p : pstmt) : bool :=
  match p with
  | PCopy t cols path => tref_ok t && match cols with Some cs => forallb id_ok cs | None => true end && path_ok (sq path) path
  | PCopyInto t loc quoted => tref_ok t && path_ok (if quoted then sq loc else loc) loc
  | PInsertDir _ path q =>
      path_ok (sq path) path && frag_query (S (q_size q)) q && names_ok_q (S (q_size q)) [] q && sshape_q q
  | PSelectFile items fmt path al =>
      forallb item_ok items && path_ok (bq path) path && match al with Some a => id_ok a | None => true end
  end.

Definition lemma_A_path_statement (guard : pstmt -> bool) : Prop :=
  forall noise e p,
    noise_ok noise = true -> env_ok e = true -> guard p = true ->
    stmt_reads (analyze e false (r_pstmt noise p)) = sort_strings (p_reads (e_cfg e) p) /\
    stmt_writes (analyze e false (r_pstmt noise p)) = sort_strings (p_writes (e_cfg e) p).

Definition lemma_A_path_check (guard : pstmt -> bool) (noise : list seg) (e : env) (p : pstmt) : string :=
  if negb (noise_ok noise && env_ok e && guard p) then "outside"
  else if list_eqb (stmt_reads (analyze e false (r_pstmt noise p))) (sort_strings (p_reads (e_cfg e) p))
          && list_eqb (stmt_writes (analyze e false (r_pstmt noise p))) (sort_strings (p_writes (e_cfg e) p))
       then "holds" else "FAILS".

(** the COPY statements *)
Definition is_copy (p : pstmt) : bool := match p with PCopy _ _ _ | PCopyInto _ _ _ => true | _ => false end.
