(** C06 end to end for scripts that also contain plain SELECTs over base tables and no-data statements. *)
From Coq Require Import Permutation.
From SV Require Import Tree.Render Tree.LemmaA Tree.LemmaAProofs Tree.LemmaB Tree.LemmaBProofs Ident.Escape Ident.EscapeProofs
     Holder.PathProofs Holder.SortProofs Tree.ProviderProofs Tree.ScriptExact Tree.ScriptWellFormed Tree.ScriptExactExt.
From SV Require Holder.RefineDefs Holder.RefineGraph Holder.Refinement Holder.CompDefs Holder.Composition.

Definition wf_check_ext (noise : list seg) (e : env) (ss : list Spec.stmt) : string :=
  if negb (noise_ok noise && env_ok e && forallb core_ok_ext ss) then "outside"
  else match script_graph e false [] (map (r_stmt noise) ss) with
       | Ok g => if forallb (fun b => forallb (path_wf g) (column_lineage g b false)) [true; false] then "holds" else "FAILS"
       | Err _ => "FAILS"
       end.

Example wf_tests_ext_hold :
  map (wf_check_ext [] Tests.e0) TestsExt.tests_ext = map (fun _ => "holds") TestsExt.tests_ext /\
  map (wf_check_ext [Tests.ws; Tests.cm] Tests.e1) TestsExt.tests_ext = map (fun _ => "holds") TestsExt.tests_ext.
Proof. vm_compute. split; reflexivity. Qed.

(** * "read => source or intermediate" without the assumption that every statement writes something *)
Module M2.
Import RefineDefs RefineGraph Refinement CompDefs Composition ScriptWellFormed.M.

(** the shapes of a plain step, as [step] chooses them *)
Inductive plain_shape2 (gc : graph) (h : holder) : graph -> Prop :=
| ps2_so : h_write h = [] -> h_read h <> [] -> plain_shape2 gc h (set_attr gc (h_read h) "source_only" true)
| ps2_to : h_read h = [] -> plain_shape2 gc h (set_attr gc (h_write h) "target_only" true)
| ps2_prod : (h_read h <> [] -> h_write h <> []) -> (h_write h <> [] -> h_read h <> []) ->
             plain_shape2 gc h (add_product (h_read h) (h_write h) gc).

Lemma plain_shape2_1 gc h g' : plain_shape2 gc h g' -> plain_shape gc h g'.
Proof. intros [H1 H2|H|H1 H2]; [apply ps_so; exact H1|apply ps_to; exact H|apply ps_prod; exact H2]. Qed.

Lemma plain_step2 g h : plain_holder h = true ->
  exists g', step g h = BOk g' /\ plain_shape2 (compose g (hg h)) h g'.
Proof.
  intros Hp. destruct (plain_unfold h Hp) as [Hd Hr]. unfold step. rewrite Hd, Hr.
  pose proof (ps2_prod (compose g (hg h)) h) as Xp. pose proof (ps2_so (compose g (hg h)) h) as Xs.
  pose proof (ps2_to (compose g (hg h)) h) as Xt.
  destruct (h_read h) as [|r0 rr], (h_write h) as [|w0 wr]; eexists; (split; [reflexivity|]).
  - apply Xp; intros H; contradiction H; reflexivity.
  - apply Xt. reflexivity.
  - apply Xs; [reflexivity|discriminate].
  - apply Xp; intros _; discriminate.
Qed.

Lemma smark_plain2 g h g' d : plain_shape2 (compose g (hg h)) h g' ->
  tag_absent "source_only" (gnodes (hg h)) -> is_dataset d = true ->
  (has_node g d = true /\ smark g d = true) \/ memn d (h_read h) = true ->
  has_node g' d = true /\ smark g' d = true.
Proof.
  intros Hs2 Hab Hd H. pose proof (plain_shape2_1 _ _ _ Hs2) as Hs.
  assert (Hn : has_node g' d = true).
  { rewrite (plain_shape_has_node g h g' d Hs). destruct H as [[H _]|H]; [rewrite H; apply Bool.orb_true_r|].
    apply memn_In in H. destruct H as (w & Hw & E). rewrite (has_node_cong _ _ _ E), (proj2 (h_read_In h w Hw)). reflexivity. }
  split; [exact Hn|].
  assert (Hnc : has_node (compose g (hg h)) d = true).
  { rewrite (plain_shape_has_node g h g' d Hs) in Hn. rewrite has_node_compose. exact Hn. }
  pose proof (existsb_compose (Pout d) g (hg h) (eresp_Pout d)) as Hec.
  pose proof (tag_compose "source_only" (key d) g (hg h) Hab) as Htc.
  assert (Hmono : smark g d = true ->
          existsb (Pout d) (gedges (compose g (hg h))) || existsb (Qt "source_only" (key d)) (gnodes (compose g (hg h))) = true).
  { unfold smark. rewrite Hec, Htc. intros H0. apply Bool.orb_true_iff in H0. destruct H0 as [H0|H0]; rewrite H0; [reflexivity|apply Bool.orb_true_r]. }
  unfold smark. destruct Hs2 as [Hw Hrn|Hr|Hrw Hwr].
  - cbn [set_attr gedges]. rewrite tag_set_attr_eq. destruct H as [[_ H]|H].
    + apply Hmono in H. apply Bool.orb_true_iff in H. destruct H as [H|H]; [rewrite H; reflexivity|].
      apply Bool.orb_true_iff. right. apply existsb_exists in H. destruct H as (q & Hq & HQ). apply existsb_exists. exists q.
      split; [exact Hq|]. unfold Qt in HQ. apply Bool.andb_true_iff in HQ. destruct HQ as [HQ Ha]. unfold Qn. rewrite HQ, Ha.
      destruct (memn (fst q) (h_read h)); reflexivity.
    + apply Bool.orb_true_iff. right. apply has_node_In in Hnc. destruct Hnc as (m & Hm & Hdm).
      apply in_map_iff in Hm. destruct Hm as (q & Hq & Hqin). apply existsb_exists. exists q. split; [exact Hqin|].
      unfold Qn. rewrite Hq, <- (is_dataset_eqb _ _ Hdm), Hd, <- (key_resp _ _ Hdm Hd), String.eqb_refl.
      rewrite <- (memn_cong d m _ Hdm), H. reflexivity.
  - rewrite Hr in H. destruct H as [[_ H]|H]; [|discriminate H].
    cbn [set_attr gedges]. rewrite (tag_set_attr_ne _ _ "target_only" true "source_only" _ eq_refl). apply Hmono; exact H.
  - destruct (add_product_spec (h_read h) (h_write h) (compose g (hg h))) as [A1 A2].
    + intros r Hr. rewrite has_node_compose, (proj2 (h_read_In h r Hr)). reflexivity.
    + intros w Hw. rewrite has_node_compose, (proj2 (h_write_In h w Hw)). reflexivity.
    + rewrite A1, (A2 _ (eresp_Pout d)). destruct H as [[_ H]|H].
      * apply Hmono in H. apply Bool.orb_true_iff in H. destruct H as [H|H]; rewrite H; [|apply Bool.orb_true_r].
        rewrite Bool.orb_true_r. reflexivity.
      * apply memn_In in H. destruct H as (r & Hr & E).
        assert (Hwn : h_write h <> []) by (apply Hrw; intros Hnil; rewrite Hnil in Hr; destruct Hr).
        assert (Hex : existsb (fun r0 => existsb (fun w0 => Pout d (r0, w0, lineage_edge)) (h_write h)) (h_read h) = true).
        { apply existsb_exists. exists r. split; [exact Hr|].
          destruct (h_write h) as [|w0 ww] eqn:Ew; [contradiction Hwn; reflexivity|].
          assert (Hw0 : In w0 (h_write h)) by (rewrite Ew; left; reflexivity).
          cbn [existsb]. apply Bool.orb_true_iff. left.
          unfold Pout, dd, esrc, etgt; cbn [fst snd].
          rewrite (proj1 (h_read_In h r Hr)), (proj1 (h_write_In h w0 Hw0)), <- (key_resp _ _ E Hd), String.eqb_refl. reflexivity. }
        rewrite Hex. reflexivity.
Qed.

Lemma fold_smark2 hs : all_plain hs -> all_tag_free hs ->
  forall d, is_dataset d = true -> forall g g',
  fold_steps g hs = BOk g' ->
  (has_node g d = true /\ smark g d = true) \/ (exists h, In h hs /\ memn d (h_read h) = true) ->
  has_node g' d = true /\ smark g' d = true.
Proof.
  induction 1 as [|h r Hh Hr IH]; intros Htf d Hd g g'; cbn [fold_steps].
  - intros E; inversion E; subst. intros [H|(h & [] & _)]. exact H.
  - inversion Htf as [|h0 r0 Th Tr]; subst.
    destruct (plain_step2 g h Hh) as (g1 & E1 & S1). rewrite E1. intros E H.
    apply (IH Tr d Hd g1 g' E).
    destruct H as [H|(h' & [Hin|Hin] & Hm)].
    + left. apply (smark_plain2 g h g1 d S1 (tag_free_absent_so _ Th) Hd). left; exact H.
    + subst h'. left. apply (smark_plain2 g h g1 d S1 (tag_free_absent_so _ Th) Hd). right; exact Hm.
    + right. exists h'. split; assumption.
Qed.

(** in a script without DROP / RENAME (statement holders resolved and tag-free), a dataset read by some statement is
    a source or an intermediate table *)
Theorem read_is_source_or_intermediate2 p hs g d :
  all_plain hs -> all_resolved hs -> all_tag_free hs ->
  build p hs = BOk g -> is_dataset d = true -> (exists h, In h hs /\ memn d (h_read h) = true) ->
  memn d (source_tables g ++ intermediate_tables g) = true.
Proof.
  intros Hp Hr Htf Hb Hd Hex.
  destruct (build_plain p hs Hp Hr) as (g0 & E0 & _ & E' & _). rewrite E' in Hb. inversion Hb as [Hg].
  destruct (fold_smark2 hs Hp Htf d Hd empty_graph g0 E0 (or_intror Hex)) as [Hn0 Hm0].
  apply (smark_roles g0 d Hd Hn0 Hm0).
Qed.

(** the full form of C06 for every script whose holders satisfy [c06_hyps] *)
Theorem c06_sources p hs : c06_hyps hs = true ->
  exists g, build p hs = BOk g /\
    forall b path, In path (column_lineage g b false) ->
      2 <= List.length path /\
      (forall n, In n (tl path) -> owner_in n (target_tables g ++ intermediate_tables g) = true) /\
      (forall n, In n (removelast path) -> owner_in n (source_tables g ++ intermediate_tables g) = true).
Proof.
  intros Hh. destruct (c06_main p hs Hh) as (g & Hb & Hp). exists g. split; [exact Hb|].
  unfold c06_hyps in Hh. rewrite !Bool.andb_true_iff, !forallb_Forall in Hh. destruct Hh as [[[[Pp Pr] _] Pt] _].
  intros b path Hin. destruct (Hp b path Hin) as [P1 P2]. split; [exact (proj1 (column_lineage_wf g b path Hin))|]. split; [exact P1|].
  intros n Hn0. destruct (P2 n Hn0) as (h & Hh0 & Ho). unfold owner_in in *.
  destruct (ds_owner n) as [d|] eqn:Ed; [|reflexivity].
  apply (read_is_source_or_intermediate2 p hs g d Pp Pr Pt Hb (ds_owner_ds n d Ed)). exists h. auto.
Qed.
End M2.
Print Assumptions M2.read_is_source_or_intermediate2.
Print Assumptions M2.c06_sources.

(** * the statements without a target: [tag_free], [owners_dir] *)
Lemma RW_empty : RW empty_graph.
Proof. intros n a []. Qed.

Lemma no_columns_owners G : lits_in (fun n => is_column n = false) G -> CompDefs.owners_dir (holder_of G) = true.
Proof.
  intros HL. unfold CompDefs.owners_dir. apply forallb_forall. intros e He. cbn [hg holder_of] in He.
  unfold CompDefs.is_cc, RefineDefs.esrc. rewrite (proj1 (proj2 HL e He)). reflexivity.
Qed.

Theorem notarget_statement_c06 : forall noise e s,
  noise_ok noise = true -> env_ok e = true -> (stmt_ok s = true /\ plain_query s = true) \/ is_nodata s = true ->
  exists G, analyze e false (r_stmt noise s) = Ok G /\ RefineDefs.tag_free G = true /\ CompDefs.owners_dir (holder_of G) = true.
Proof.
  intros noise e s Hn He [[Hok Hq]|Hnd].
  - destruct s as [t cols q|t q|t q|q|kind]; try discriminate. destruct q as [items from cj [wh|]| |]; try discriminate.
    cbn [plain_query] in Hq. rewrite (analyze_query_tables noise e items from cj Hn He Hok Hq).
    eexists. split; [reflexivity|]. split.
    + apply RW_tag_free. apply (proj1 (proj1 (keeps_add_reads _ empty_graph))). exact RW_empty.
    + apply no_columns_owners. apply lits_add_reads; [apply lits_in_empty|reflexivity|reflexivity].
  - destruct s; try discriminate. exists empty_graph. repeat split.
Qed.
Print Assumptions notarget_statement_c06.

Lemma core_script_c06_ext noise e ss :
  noise_ok noise = true -> env_ok e = true -> Forall core_stmt_ext ss ->
  exists Gs, map_res (analyze e false) (map (r_stmt noise) ss) = Ok Gs /\ Composition.c06_hyps (map holder_of Gs) = true.
Proof.
  intros Hn He H.
  assert (K : exists Gs, map_res (analyze e false) (map (r_stmt noise) ss) = Ok Gs /\
              forallb CompDefs.plain_holder (map holder_of Gs) = true /\
              forallb CompDefs.resolved_holder (map holder_of Gs) = true /\
              forallb (fun h => CompDefs.col_out_closed (hg h)) (map holder_of Gs) = true /\
              forallb (fun h => RefineDefs.tag_free (hg h)) (map holder_of Gs) = true /\
              forallb CompDefs.owners_dir (map holder_of Gs) = true).
  { induction H as [|s ss Hs _ IH].
    - exists []. repeat split.
    - destruct IH as (Gs & Em & P1 & P2 & P4 & P5 & P6).
      assert (KS : exists G, analyze e false (r_stmt noise s) = Ok G /\
                CompDefs.plain_holder (holder_of G) = true /\ CompDefs.resolved_holder (holder_of G) = true /\
                CompDefs.cwf_holder (holder_of G) = true /\ RefineDefs.tag_free G = true /\ CompDefs.owners_dir (holder_of G) = true).
      { destruct Hs as [(H1 & _ & H3 & H4 & H5)|Hs].
        - destruct (core_statement noise e s Hn He H1 H3 H4 H5) as (G & Ea & Q1 & Q2 & Q3 & _).
          destruct (core_statement_c06 noise e s Hn He H1 H3 H4 H5) as (G' & Ea' & Q5 & Q6 & _).
          rewrite Ea in Ea'. inversion Ea'. subst G'. exists G. repeat split; assumption.
        - destruct (notarget_statement_c06 noise e s Hn He Hs) as (G' & Ea' & Q5 & Q6).
          assert (KQ : exists G, analyze e false (r_stmt noise s) = Ok G /\
                    CompDefs.plain_holder (holder_of G) = true /\ CompDefs.resolved_holder (holder_of G) = true /\
                    CompDefs.cwf_holder (holder_of G) = true).
          { destruct Hs as [[H1 H2]|H1].
            - destruct (query_statement noise e s Hn He H1 H2) as (G & Ea & Q1 & Q2 & Q3 & _). exists G. repeat split; assumption.
            - destruct s; try discriminate. destruct (nodata_statement noise e kind) as (G & Ea & Q1 & Q2 & Q3 & _). exists G. repeat split; assumption. }
          destruct KQ as (G & Ea & Q1 & Q2 & Q3). rewrite Ea in Ea'. inversion Ea'. subst G'. exists G. repeat split; assumption. }
      destruct KS as (G & Ea & Q1 & Q2 & Q3 & Q5 & Q6).
      assert (Q4 : CompDefs.col_out_closed G = true).
      { unfold CompDefs.cwf_holder, CompDefs.cwf_graph in Q3. cbn [hg holder_of] in Q3. apply andb_true_iff in Q3. exact (proj2 Q3). }
      exists (G :: Gs). split; [cbn [map map_res]; rewrite Ea, Em; reflexivity|].
      cbn [map forallb hg holder_of]. rewrite Q1, Q2, Q4, Q5, Q6, P1, P2, P4, P5, P6. repeat split. }
  destruct K as (Gs & Em & P1 & P2 & P4 & P5 & P6). exists Gs. split; [exact Em|].
  unfold Composition.c06_hyps. rewrite P1, P2, P4, P5, P6. reflexivity.
Qed.

Theorem script_paths_well_formed_on_core_ext : forall noise e ss,
  noise_ok noise = true -> env_ok e = true -> Forall core_stmt_ext ss ->
  exists g, script_graph e false [] (map (r_stmt noise) ss) = Ok g /\
    forall b path, In path (column_lineage g b false) ->
      2 <= List.length path /\
      (forall n, In n (tl path) -> CompDefs.owner_in n (target_tables g ++ intermediate_tables g) = true) /\
      (forall n, In n (removelast path) -> CompDefs.owner_in n (source_tables g ++ intermediate_tables g) = true).
Proof.
  intros noise e ss Hn He H.
  destruct (core_script_c06_ext noise e ss Hn He H) as (Gs & Em & Hh).
  destruct (run_statements_core e _ Gs (proj1 (env_facts e He)) Em) as (sess & Er).
  unfold script_graph. rewrite Er. cbn [fst snd].
  set (p := {| p_truthy := p_truthy (e_provider e); p_cols := view_cols sess [] |}).
  destruct (M2.c06_sources p (map holder_of Gs) Hh) as (g & Hb & Hp). rewrite Hb. exists g. split; [reflexivity|exact Hp].
Qed.
Print Assumptions script_paths_well_formed_on_core_ext.

Corollary wf_check_ext_never_fails noise e ss : wf_check_ext noise e ss <> "FAILS".
Proof.
  unfold wf_check_ext. destruct (noise_ok noise && env_ok e && forallb core_ok_ext ss) eqn:G; cbn [negb]; [|discriminate].
  apply andb_true_iff in G. destruct G as [G Hss]. apply andb_true_iff in G. destruct G as [Hn He].
  assert (HF : Forall core_stmt_ext ss).
  { apply Forall_forall. intros s Hs. rewrite forallb_forall in Hss. apply core_ok_ext_stmt. apply Hss. exact Hs. }
  destruct (script_paths_well_formed_on_core_ext noise e ss Hn He HF) as (g & Eg & Hg). rewrite Eg.
  replace (forallb (fun b => forallb (path_wf g) (column_lineage g b false)) [true; false]) with true; [discriminate|].
  symmetry. apply forallb_forall. intros b _. apply forallb_forall. intros path Hin. destruct (Hg b path Hin) as (L & P1 & P2).
  unfold path_wf. rewrite !andb_true_iff. split; [split|].
  - apply Nat.leb_le. exact L.
  - apply forallb_forall. exact P1.
  - apply forallb_forall. exact P2.
Qed.
Print Assumptions wf_check_ext_never_fails.

Example script_paths_well_formed_ext_nonvacuous :
  exists g, script_graph Tests.e1 false [] (map (r_stmt [Tests.ws; Tests.cm]) TestsExt.ss_ext) = Ok g /\
    map (map node_str) (column_lineage g true false) = [["main.a.x"; "main.b.x"; "main.c.x"]; ["main.a.y"; "main.b.y"]] /\
    map node_str (source_tables g) = ["main.a"; "main.b"; "main.c"] /\ map node_str (intermediate_tables g) = ["main.b"] /\
    forall b path, In path (column_lineage g b false) ->
      2 <= List.length path /\
      (forall n, In n (tl path) -> CompDefs.owner_in n (target_tables g ++ intermediate_tables g) = true) /\
      (forall n, In n (removelast path) -> CompDefs.owner_in n (source_tables g ++ intermediate_tables g) = true).
Proof.
  destruct (script_paths_well_formed_on_core_ext [Tests.ws; Tests.cm] Tests.e1 TestsExt.ss_ext eq_refl eq_refl TestsExt.ss_ext_core) as (g & Eg & Hg).
  exists g. split; [exact Eg|].
  assert (E : script_graph Tests.e1 false [] (map (r_stmt [Tests.ws; Tests.cm]) TestsExt.ss_ext) = Ok g) by exact Eg.
  vm_compute in E. inversion E. subst g. clear E Eg.
  split; [vm_compute; reflexivity|]. split; [vm_compute; reflexivity|]. split; [vm_compute; reflexivity|]. exact Hg.
Qed.

(** non-vacuity of the holder-level theorems: test 2 of Holder/CompDefs.v (a.x > b.x > c.x, a.y > b.y) followed by a
    statement that only reads c *)
Example c06_sources_nonvacuous :
  let hs := [CompDefs.stmt [RefineDefs.a] [RefineDefs.b] [(CompDefs.cx RefineDefs.a, CompDefs.cx RefineDefs.b); (CompDefs.cy RefineDefs.a, CompDefs.cy RefineDefs.b)];
             CompDefs.stmt [RefineDefs.b] [RefineDefs.c] [(CompDefs.cx RefineDefs.b, CompDefs.cx RefineDefs.c)];
             RefineDefs.rw [RefineDefs.c] []] in
  Composition.c06_hyps hs = true /\
  exists g, build RefineDefs.p0 hs = BOk g /\ List.length (column_lineage g true false) = 2 /\
            memn RefineDefs.c (source_tables g ++ intermediate_tables g) = true.
Proof.
  intros hs. assert (Hh : Composition.c06_hyps hs = true) by (vm_compute; reflexivity). split; [exact Hh|].
  destruct (M2.c06_sources RefineDefs.p0 hs Hh) as (g & Hb & _). exists g. split; [exact Hb|].
  assert (E := Hb). vm_compute in E. inversion E. subst g. split; vm_compute; reflexivity.
Qed.
