(** Lemma B, step 5b, COMPLETE: INSERT (with or without column list) / CREATE TABLE AS / CREATE VIEW AS over a UNION of
    two plain SELECTs (no WHERE) over base tables: [lemma_B_union], an instance of [lemma_B_statement] on the fragment
    [sel_union_syntactic], without the extra hypothesis [union_alias_coherent] of [lemma_B_union_partial] (LemmaB5b.v).
    The same table may be read by both branches under different aliases (or aliased in one, bare in the other): the
    holder then stores one object for it (the first), carrying the alias labels of both branches; source columns are
    known up to Python equality (LemmaB5b2Core.v, after LemmaB5a.v Part 2); the labels of the other branch do not
    capture a qualifier because of [scope_pair_ok] / [names_global] of [colshape] (K-C02-4; LemmaB5b2Shape.v:
    [leak_free]); the composed holder realises the flows (LemmaB5b2Real.v). *)
From Coq Require Import Permutation Lia.
From SV Require Import Tree.Render Tree.LemmaA Tree.LemmaAProofs Tree.LemmaB Tree.LemmaBProofs Tree.LemmaB5a Tree.LemmaB5bDefs
     Tree.LemmaB5bCore Tree.LemmaB5bNav Tree.LemmaB5bSpec Tree.LemmaB5bShape Tree.LemmaB5b
     Tree.LemmaB5b2Defs Tree.LemmaB5b2Core Tree.LemmaB5b2Shape Tree.LemmaB5b2Real Ident.Escape Ident.EscapeProofs.

(* ================================================================== *)
(** * from the syntax to the conditions on the table objects *)
Lemma tabs_ok_union e t f1 f2 :
  forallb rel_ok f1 = true -> forallb rel_ok f2 = true ->
  tables_cond (e_cfg e) t f1 -> tables_cond (e_cfg e) t f2 ->
  tabs_ok (tbl e t None) (map (tbl_of e) f1 ++ map (tbl_of e) f2).
Proof.
  intros Hr1 Hr2 Tc1 Tc2.
  pose proof (group_ok_of e t f1 Hr1 Tc1) as [A1 _ C1]. pose proof (group_ok_of e t f2 Hr2 Tc2) as [A2 _ C2].
  constructor.
  - intros v Hv. apply in_app_iff in Hv. destruct Hv; auto.
  - intros v Hv. unfold data_ok. assert (Hk : dk v = KTable) by (apply in_app_iff in Hv; destruct Hv; auto). rewrite Hk.
    apply in_app_iff in Hv. destruct Hv as [Hv|Hv]; apply in_map_iff in Hv; destruct Hv as (r & <- & _); destruct r; reflexivity.
  - intros v Hv. apply in_app_iff in Hv. destruct Hv; auto.
Qed.

Lemma names_nodot_union e f1 f2 :
  forallb rel_ok f1 = true -> forallb rel_ok f2 = true -> names_nodot (map (tbl_of e) f1 ++ map (tbl_of e) f2).
Proof.
  intros H1 H2. rewrite <- map_app. apply names_nodot_of. rewrite forallb_app, H1, H2. reflexivity.
Qed.

Lemma tref_clash_snd a b : tref_clash a b = true -> snd a = snd b.
Proof. unfold tref_clash. intros H. apply andb_true_iff in H. destruct H as [H _]. apply String.eqb_eq. exact H. Qed.

(** the references of a branch resolve as in a single SELECT, and the alias labels of the other branch do not interfere *)
Lemma xref_ok_g_of e t f fo items ts :
  forallb rel_ok f = true -> forallb rel_ok fo = true -> forallb item_ok items = true ->
  tables_cond (e_cfg e) t f -> items_cond f items -> leak_free f fo ->
  (forall u, In u ts -> In u (map (tbl_of e) f) \/ In u (map (tbl_of e) fo)) ->
  forall x, In x (map xcol_of items) -> xref_ok_g ts (map (tbl_of e) f) x.
Proof.
  intros Hrel Hrelo Hit Htc Hc Hleak Hts x Hx. apply in_map_iff in Hx. destruct Hx as (i & <- & Hi).
  pose proof Hrel as Hrel0. pose proof (group_ok_of e t f Hrel Htc) as Hgg.
  rewrite forallb_forall in Hit, Hrel, Hrelo. destruct (xcol_of_facts i (Hit i Hi)) as (F1 & F2 & F3 & F4).
  split; [rewrite F1; reflexivity|]. exists (fst (item_ref i)), (snd (item_ref i)).
  split; [rewrite F2; destruct (item_ref i); reflexivity|]. split; [exact F3|].
  specialize (Hc i Hi). destruct (snd (item_ref i)) as [q|].
  - destruct Hc as (r0 & Hr0 & En & Hu). exists (tbl_of e r0). split; [apply in_map; exact Hr0|].
    rewrite (tbl_of_table e r0 (rel_ok_table _ (Hrel r0 Hr0))). split; [exact En|]. split.
    + intros w Hw Hor. apply in_map_iff in Hw. destruct Hw as (r & <- & Hr).
      rewrite (tbl_of_table e r (rel_ok_table _ (Hrel r Hr))) in *. cbn [tbl dalias draw dstr] in Hor.
      rewrite (Hu r Hr); [reflexivity|]. destruct Hor as [H|[H|H]]; [left; exact H|right; exact H|].
      exfalso. exact (id_ok_not_tref q _ _ F4 H).
    + intros w u Hw Hu0 Euw Eq. apply in_map_iff in Hw. destruct Hw as (r & <- & Hr).
      assert (Er : r = r0); [|subst r; rewrite (tbl_of_table e r0 (rel_ok_table _ (Hrel r0 Hr0))); reflexivity].
      destruct (Hts u Hu0) as [Hu1|Hu1]; apply in_map_iff in Hu1; destruct Hu1 as (r' & <- & Hr').
      * assert (tbl_of e r' = tbl_of e r) by (apply (go_distinct _ _ Hgg); [apply in_map; exact Hr'|apply in_map; exact Hr|exact Euw]).
        apply Hu; [exact Hr|]. left. rewrite H in Eq. rewrite (tbl_of_table e r (rel_ok_table _ (Hrel r Hr))) in Eq. exact Eq.
      * pose proof (Hrel r Hr) as Ok1. pose proof (Hrelo r' Hr') as Ok2.
        rewrite (tbl_of_table e r (rel_ok_table _ Ok1)), (tbl_of_table e r' (rel_ok_table _ Ok2)) in *.
        apply tbl_eqb_str in Euw. symmetry in Euw. apply (tref_str_eq_clash _ _ _ (rel_ok_id r Ok1) (rel_ok_id r' Ok2)) in Euw.
        cbn [tbl dalias] in Eq. destruct (ralias r') as [a|] eqn:Ea.
        -- subst a. exact (Hleak r0 r r' q Hr0 Hr Hr' En Ea Euw).
        -- apply Hu; [exact Hr|]. right. rewrite (tref_clash_snd _ _ Euw). exact Eq.
  - destruct Hc as [(r & ->)|[Hl Hs]]; [left; exists (tbl_of e r); reflexivity|].
    right. split; [exact (multi_of e t f Hrel0 Htc Hl)|exact Hs].
Qed.

(* ================================================================== *)
(** * the model side *)
Section ModelE.
Variables (d : dataset) (ts1 ts2 : list dataset) (xs1 xs2 : list xcol) (names : list string).
Let ts := ts1 ++ ts2.
Hypothesis Hto : tabs_ok d ts.
Hypothesis Hg1 : group_ok d ts1.
Hypothesis Hg2 : group_ok d ts2.
Hypothesis Hd : dk d = KTable.
Hypothesis Hi1 : ts_inj ts1.
Hypothesis Hi2 : ts_inj ts2.
Hypothesis Hnd : names_nodot ts.
Hypothesis Hx1 : forall x, In x xs1 -> xref_ok_g ts ts1 x.
Hypothesis Hx2 : forall x, In x xs2 -> xref_ok_g ts ts2 x.
Hypothesis Hnq1 : noqual ts1 xs1.
Hypothesis Hnq2 : noqual ts2 xs2.
Hypothesis Hc12 : cross ts1 xs1 xs2.
Hypothesis Hc21 : cross ts2 xs2 xs1.
Hypothesis Hl1 : List.length xs1 = List.length names.
Hypothesis Hl2 : List.length xs2 = List.length names.

Let UN := UN_of ts1 ts2 xs1 xs2.
Let PC := PCe d ts UN.
Let L := spairs (S_of ts1) (wpairs d xs1 names) ++ spairs (S_of ts2) (wpairs d xs2 names).

Lemma Hx1o : forall x, In x xs1 -> xref_ok ts1 x. Proof. intros x Hx. exact (xref_ok_g_old _ _ _ (Hx1 x Hx)). Qed.
Lemma Hx2o : forall x, In x xs2 -> xref_ok ts2 x. Proof. intros x Hx. exact (xref_ok_g_old _ _ _ (Hx2 x Hx)). Qed.

Lemma UN_ok_e : UN_ok ts UN.
Proof. exact (UN_of_ok ts1 ts2 xs1 xs2 Hi1 Hi2 Hx1o Hx2o Hc12). Qed.

Lemma grp_srcs_1 e : grp_srcs_e PC e d ts ts1 xs1 (S_of ts1).
Proof.
  intros g2 Hinv x Hx. apply (HS_e PC d ts ts1 Hto (sub1 ts1 ts2) Hg1 UN e g2 x eq_refl Hi1 Hnd Hinv (Hx1 x Hx)).
  intros c Ex Hm. apply UN1. exact (unres_names_intro ts1 xs1 x c (multi_not_one ts1 Hm) Hx Ex).
Qed.
Lemma grp_srcs_2 e : grp_srcs_e PC e d ts ts2 xs2 (S_of ts2).
Proof.
  intros g2 Hinv x Hx. apply (HS_e PC d ts ts2 Hto (sub2 ts1 ts2) Hg2 UN e g2 x eq_refl Hi2 Hnd Hinv (Hx2 x Hx)).
  intros c Ex Hm. apply UN2. exact (unres_names_intro ts2 xs2 x c (multi_not_one ts2 Hm) Hx Ex).
Qed.

Theorem union_realises_e gb sub :
  lits_in (QK (d :: ts) PC) gb -> drop_free gb ->
  (forall e0, In e0 (gedges gb) -> String.eqb (etype (snd e0)) "rename" = false) ->
  (forall x y, is_column x = true -> has_edge gb x y = false) ->
  (forall p c, In p ts -> has_edge gb (NData p) (NCol c) = false) ->
  ext gb sub (map (fun v => (NData v, NStr (dalias v))) ts ++
              sel_edges d (S_of ts1) (wpairs d xs1 names) ++ sel_edges d (S_of ts2) (wpairs d xs2 names)) ->
  sel_inv PC d ts sub ->
  let G := compose gb sub in
  let FL := flows_of (S_of ts1) (wpairs d xs1 names) ++ flows_of (S_of ts2) (wpairs d xs2 names) in
  clean_holder G /\ lits_in (unres_ok G) G /\ realises G FL /\ flows_ok FL.
Proof.
  intros Lb Db Hbe Hbc Hbd X Hinv G FL.
  assert (EFL : FL = FLW L) by (unfold FL, L; rewrite FLW_app, !flows_of_FLW; reflexivity).
  rewrite EFL. rewrite !sel_edges_SE, <- SE_app in X. fold L in X.
  assert (Hsh : forall grp xs x, ((grp = ts1 /\ xs = xs1) \/ (grp = ts2 /\ xs = xs2)) -> In x xs ->
                 ts_inj grp /\ xref_ok grp x /\
                 forall s, In s (S_of grp x) ->
                   ((exists v, In v ts /\ cparents s = [v]) \/
                    (exists g nm, In (g, nm) UN /\ s = Ucol g nm /\ escape nm = nm /\ 2 <= List.length (cparents s)))).
  { intros grp xs x [[-> ->]|[-> ->]] Hx.
    - split; [exact Hi1|]. split; [exact (Hx1o x Hx)|]. intros s Hs.
      destruct (S_of_props d ts1 xs1 x Hg1 Hi1 Hd Hx (Hx1o x Hx)) as (_ & _ & _ & _ & A5).
      destruct (A5 s Hs) as [(v & Hv & Ev)|(nm & Hnm & E & Enm & Hl)].
      + left. exists v. split; [apply (sub1 ts1 ts2); exact Hv|exact Ev].
      + right. exists ts1, nm. split; [apply UN1; exact Hnm|auto].
    - split; [exact Hi2|]. split; [exact (Hx2o x Hx)|]. intros s Hs.
      destruct (S_of_props d ts2 xs2 x Hg2 Hi2 Hd Hx (Hx2o x Hx)) as (_ & _ & _ & _ & A5).
      destruct (A5 s Hs) as [(v & Hv & Ev)|(nm & Hnm & E & Enm & Hl)].
      + left. exists v. split; [apply (sub2 ts1 ts2); exact Hv|exact Ev].
      + right. exists ts2, nm. split; [apply UN2; exact Hnm|auto]. }
  apply (holder_realises_e d ts UN L gb sub Hto Hd UN_ok_e); try assumption.
  - intros p Hp. destruct (L_cases d ts1 ts2 xs1 xs2 names p Hp) as (grp & xs & x & c & Hg & Hx & Hc & ->). cbn [fst snd]. split; [exists c; reflexivity|].
    intros s Hs. exact (proj2 (proj2 (Hsh grp xs x Hg Hx)) s Hs).
  - intros grp nm H. destruct (UN_of_cases _ _ _ _ _ _ H) as [[-> N]|[-> N]]; destruct (unres_names_inv _ _ _ N) as (M & x & Hx & Ex).
    + destruct (In_combine_l_ex xs1 (map (Wcol d) names) x ltac:(rewrite map_length; exact Hl1) Hx) as (w & Hw).
      exists (S_of ts1 x, w). split.
      * apply in_app_iff. left. unfold spairs. apply in_map_iff. exists (x, w). split; [reflexivity|exact Hw].
      * cbn [fst]. rewrite (S_of_unres ts1 x nm M Ex). left. reflexivity.
    + destruct (In_combine_l_ex xs2 (map (Wcol d) names) x ltac:(rewrite map_length; exact Hl2) Hx) as (w & Hw).
      exists (S_of ts2 x, w). split.
      * apply in_app_iff. right. unfold spairs. apply in_map_iff. exists (x, w). split; [reflexivity|exact Hw].
      * cbn [fst]. rewrite (S_of_unres ts2 x nm M Ex). left. reflexivity.
  - intros p' s' grp nm v H Hp' Hs' Ev.
    destruct (L_cases d ts1 ts2 xs1 xs2 names p' Hp') as (grp' & xs' & x' & c & Hg' & Hx' & _ & ->). cbn [fst] in Hs'.
    destruct (Hsh grp' xs' x' Hg' Hx') as (Hinj' & Hxr' & _).
    destruct (S_of_one_parent grp' x' s' v Hinj' Hxr' Hs' Ev) as (c' & qq & Ex' & Ec & Hq). rewrite Ec.
    destruct (UN_of_cases _ _ _ _ _ _ H) as [[-> N]|[-> N]]; destruct (unres_names_inv _ _ _ N) as (M & x & Hx & Ex).
    + exact (unres_clash ts1 ts2 xs1 xs2 Hx1o Hx2o Hnq1 Hnq2 Hc12 Hc21 ts1 xs1 grp' xs' x x' nm c' qq (or_introl (conj eq_refl eq_refl)) Hg' Hx Ex M Hx' Ex' Hq).
    + exact (unres_clash ts1 ts2 xs1 xs2 Hx1o Hx2o Hnq1 Hnq2 Hc12 Hc21 ts2 xs2 grp' xs' x x' nm c' qq (or_intror (conj eq_refl eq_refl)) Hg' Hx Ex M Hx' Ex' Hq).
Qed.
End ModelE.

Theorem model_pairs_union_e noise e (s : stmt) t (cols : option (list string)) i1 f1 c1 i2 f2 c2 :
  noise_ok noise = true -> env_ok e = true ->
  (s = SInsert t cols (uq i1 f1 c1 i2 f2 c2) \/
   (cols = None /\ (s = SCtas t (uq i1 f1 c1 i2 f2 c2) \/ s = SView t (uq i1 f1 c1 i2 f2 c2)))) ->
  tref_ok t = true ->
  match cols with Some cs => forallb id_ok cs = true /\ NoDup cs /\ List.length cs = List.length i1 | None => True end ->
  forallb item_ok i1 = true -> f1 <> [] -> forallb rel_ok f1 = true ->
  forallb item_ok i2 = true -> f2 <> [] -> forallb rel_ok f2 = true ->
  let d := tbl e t None in
  let ts1 := map (tbl_of e) f1 in let ts2 := map (tbl_of e) f2 in
  let xs1 := map xcol_of i1 in let xs2 := map xcol_of i2 in
  let names := match cols with Some cs => cs | None => map xname xs1 end in
  tabs_ok d (ts1 ++ ts2) -> group_ok d ts1 -> group_ok d ts2 -> ts_inj ts1 -> ts_inj ts2 -> names_nodot (ts1 ++ ts2) ->
  (forall x, In x xs1 -> xref_ok_g (ts1 ++ ts2) ts1 x) -> (forall x, In x xs2 -> xref_ok_g (ts1 ++ ts2) ts2 x) ->
  noqual ts1 xs1 -> noqual ts2 xs2 -> cross ts1 xs1 xs2 -> cross ts2 xs2 xs1 ->
  List.length xs1 = List.length xs2 -> NoDup (map xname xs1) ->
  script_pairs e false [] [r_stmt noise s] =
  uniq_sorted (sort_strings (map flow_str (flows_of (S_of ts1) (wpairs d xs1 names) ++ flows_of (S_of ts2) (wpairs d xs2 names)))).
Proof.
  intros Hn He Hs Ht Hcols Hit1 Hne1 Hrel1 Hit2 Hne2 Hrel2 d ts1 ts2 xs1 xs2 names Hto Hg1 Hg2 Hi1 Hi2 Hnd Hx1 Hx2 Hnq1 Hnq2 Hc12 Hc21 Hlen Hnames.
  set (e' := with_cols e (view_cols [] [])).
  assert (He' : env_ok e' = true) by exact He.
  assert (Hp : p_truthy (e_provider e') = false) by exact (proj1 (env_facts e' He')).
  set (ts := ts1 ++ ts2) in *. set (UN := UN_of ts1 ts2 xs1 xs2). set (PC := PCe d ts UN).
  assert (HPC : forall c, PC c -> col_qk c) by (intros c Hc; exact (PCe_qk d ts UN c Hto eq_refl Hc)).
  pose proof (grp_srcs_1 d ts1 ts2 xs1 xs2 Hto Hg1 Hi1 Hnd Hx1 e') as G1.
  pose proof (grp_srcs_2 d ts1 ts2 xs1 xs2 Hto Hg2 Hi2 Hnd Hx2 e') as G2.
  fold ts UN PC in G1, G2.
  assert (HWc : forall c, PC (Wcol d c)) by (intros c; left; exists d; split; [reflexivity|left; reflexivity]).
  destruct cols as [cs|].
  - destruct Hcols as (Hcs & Hndc & Hlc). destruct Hs as [->|[Hs _]]; [|discriminate Hs].
    pose proof (analyze_insert_cols_union noise Hn e' He' t cs i1 f1 c1 i2 f2 c2 Ht Hcs Hndc Hit1 Hne1 Hrel1 Hit2 Hne2 Hrel2) as Ea.
    unfold union_holder in Ea. change (tbl e' t None) with d in Ea. change (map (tbl_of e') f1) with ts1 in Ea.
    change (map (tbl_of e') f2) with ts2 in Ea. fold xs1 xs2 in Ea.
    assert (Hl1 : List.length xs1 = List.length cs) by (unfold xs1; rewrite map_length; lia).
    assert (Hl2 : List.length xs2 = List.length cs) by lia.
    destruct (union_core_cols_e PC e' d ts1 ts2 cs xs1 xs2 (S_of ts1) (S_of ts2) Hp Hto eq_refl HPC Hndc G1 G2 (fun c _ => HWc c) Hl1 Hl2)
      as (sub & Esub & Xsub & Isub).
    rewrite Esub in Ea.
    destruct (gb_facts d cs eq_refl Hndc) as (GA & GB & GC & GD & GO).
    destruct (union_realises_e d ts1 ts2 xs1 xs2 cs Hto Hg1 Hg2 eq_refl Hi1 Hi2 Hx1 Hx2 Hnq1 Hnq2 Hc12 Hc21 Hl1 Hl2 (gb_of d cs) sub) as (C1 & C2 & C3 & C4);
      [| | | | |exact Xsub|exact Isub|].
    + split.
      * intros n Hn0. rewrite GB in Hn0. destruct Hn0 as [<-|Hn0]; [left; reflexivity|]. apply in_map_iff in Hn0. destruct Hn0 as (c & <- & Hc). apply HWc.
      * intros e0 He0. rewrite GA in He0. destruct (OE_edge d cs e0 He0) as (j & c & Hc & ->). cbn [fst snd QK]. split; [left; reflexivity|apply HWc].
    + exact GD.
    + intros e0 He0. rewrite GA in He0. destruct (OE_edge d cs e0 He0) as (j & c & _ & ->). reflexivity.
    + intros x y Hx. destruct (has_edge (gb_of d cs) x y) eqn:E; [|reflexivity]. apply has_edge_In in E. destruct E as (e0 & He0 & E1 & _).
      rewrite GA in He0. destruct (OE_edge d cs e0 He0) as (j & c & _ & ->). cbn [fst] in E1. destruct x; try discriminate.
    + intros p c Hp0. destruct (has_edge (gb_of d cs) (NData p) (NCol c)) eqn:E; [|reflexivity]. apply has_edge_In in E. destruct E as (e0 & He0 & E1 & _).
      rewrite GA in He0. destruct (OE_edge d cs e0 He0) as (j & c0 & _ & ->). cbn [fst node_eqb] in E1.
      rewrite (to_target _ _ Hto p Hp0) in E1. discriminate.
    + apply (script_pairs_of_holder e _ _ _ Ea (proj1 (env_facts e He)) C1 C2 C3 C4).
  - assert (Ea : analyze e' false (r_stmt noise s) = union_holder e' (add_write empty_graph (tbl e' t None)) i1 f1 i2 f2).
    { destruct Hs as [->|[_ [->| ->]]].
      - apply analyze_insert_union; assumption.
      - apply (analyze_create_union noise Hn e' He' false); assumption.
      - apply (analyze_create_union noise Hn e' He' true); assumption. }
    unfold union_holder in Ea. change (tbl e' t None) with d in Ea. change (map (tbl_of e') f1) with ts1 in Ea.
    change (map (tbl_of e') f2) with ts2 in Ea. fold xs1 xs2 in Ea.
    destruct (union_core_own_e PC e' d ts1 ts2 xs1 xs2 (S_of ts1) (S_of ts2) Hp Hto eq_refl HPC (PCe_wcol d ts UN Hto eq_refl) G1 G2)
      as (sub & Esub & Xsub & Isub).
    + intros x Hx. split; [exact (proj1 (Hx1 x Hx))|apply HWc].
    + exact Hnames.
    + symmetry. exact Hlen.
    + rewrite Esub in Ea.
      assert (Hl1 : List.length xs1 = List.length (map xname xs1)) by (rewrite map_length; reflexivity).
      assert (Hl2 : List.length xs2 = List.length (map xname xs1)) by (rewrite map_length; symmetry; exact Hlen).
      destruct (union_realises_e d ts1 ts2 xs1 xs2 (map xname xs1) Hto Hg1 Hg2 eq_refl Hi1 Hi2 Hx1 Hx2 Hnq1 Hnq2 Hc12 Hc21 Hl1 Hl2 (add_write empty_graph d) sub) as (C1 & C2 & C3 & C4);
        [split; [intros n [<-|[]]; left; reflexivity|intros e0 []]
        |intros n a [H|[]]; inversion H; intros [K|[]]; discriminate K
        |intros e0 []|reflexivity|reflexivity|exact Xsub|exact Isub|].
      apply (script_pairs_of_holder e _ _ _ Ea (proj1 (env_facts e He)) C1 C2 C3 C4).
Qed.
Print Assumptions model_pairs_union_e.

(* ================================================================== *)
(** * Lemma B for a UNION of two SELECTs over base tables, from conditions on the syntax *)
Theorem lemma_B_union_tables_e noise e (s : stmt) t (cols : option (list string)) i1 f1 c1 i2 f2 c2 :
  noise_ok noise = true -> env_ok e = true ->
  (s = SInsert t cols (uq i1 f1 c1 i2 f2 c2) \/
   (cols = None /\ (s = SCtas t (uq i1 f1 c1 i2 f2 c2) \/ s = SView t (uq i1 f1 c1 i2 f2 c2)))) ->
  tref_ok t = true ->
  match cols with Some cs => forallb id_ok cs = true /\ NoDup cs /\ List.length cs = List.length i1 | None => True end ->
  forallb item_ok i1 = true -> f1 <> [] -> forallb rel_ok f1 = true ->
  forallb item_ok i2 = true -> f2 <> [] -> forallb rel_ok f2 = true ->
  tables_cond (e_cfg e) t f1 -> items_cond f1 i1 -> noqual_items f1 i1 ->
  tables_cond (e_cfg e) t f2 -> items_cond f2 i2 -> noqual_items f2 i2 ->
  List.length i1 = List.length i2 -> NoDup (map item_name i1) -> crossI f1 i1 i2 -> crossI f2 i2 i1 ->
  leak_free f1 f2 -> leak_free f2 f1 ->
  script_pairs e false [] [r_stmt noise s] = spec_pairs (e_cfg e) s.
Proof.
  intros Hn He Hs Ht Hcols Hit1 Hne1 Hrel1 Hit2 Hne2 Hrel2 Tc1 Ic1 Nq1 Tc2 Ic2 Nq2 Hlen Hnd X12 X21 Lk12 Lk21.
  assert (Hts1 : forall u, In u (map (tbl_of e) f1 ++ map (tbl_of e) f2) -> In u (map (tbl_of e) f1) \/ In u (map (tbl_of e) f2))
    by (intros u Hu; apply in_app_iff; exact Hu).
  assert (Hts2 : forall u, In u (map (tbl_of e) f1 ++ map (tbl_of e) f2) -> In u (map (tbl_of e) f2) \/ In u (map (tbl_of e) f1))
    by (intros u Hu; apply in_app_iff in Hu; tauto).
  rewrite (model_pairs_union_e noise e s t cols i1 f1 c1 i2 f2 c2 Hn He Hs Ht Hcols Hit1 Hne1 Hrel1 Hit2 Hne2 Hrel2
             (tabs_ok_union e t f1 f2 Hrel1 Hrel2 Tc1 Tc2) (group_ok_of e t f1 Hrel1 Tc1) (group_ok_of e t f2 Hrel2 Tc2)
             (ts_inj_of e t f1 Hrel1 Tc1) (ts_inj_of e t f2 Hrel2 Tc2) (names_nodot_union e f1 f2 Hrel1 Hrel2)
             (xref_ok_g_of e t f1 f2 i1 _ Hrel1 Hrel2 Hit1 Tc1 Ic1 Lk12 Hts1) (xref_ok_g_of e t f2 f1 i2 _ Hrel2 Hrel1 Hit2 Tc2 Ic2 Lk21 Hts2)
             (noqual_of e f1 i1 Hit1 Nq1) (noqual_of e f2 i2 Hit2 Nq2)
             (cross_of e f1 i1 i2 Hit1 Hit2 X12) (cross_of e f2 i2 i1 Hit2 Hit1 X21)
             ltac:(rewrite !map_length; exact Hlen) ltac:(rewrite (map_xname_items i1 Hit1); exact Hnd)).
  unfold spec_pairs. apply us_ext. intros x.
  rewrite map_app, in_app_iff, (branch_flow_strs e t f1 i1 _ Hrel1 Hit1 Tc1 Ic1), (branch_flow_strs e t f2 i2 _ Hrel2 Hit2 Tc2 Ic2).
  rewrite (map_xname_items i1 Hit1).
  set (names := match cols with Some cs => cs | None => map item_name i1 end).
  symmetry. apply (spec_union_members (e_cfg e) s t names i1 f1 c1 i2 f2 c2).
  - destruct cols as [cs|].
    + right. destruct Hs as [->|[Hs _]]; [reflexivity|discriminate Hs].
    + left. split; [reflexivity|]. destruct Hs as [->|[_ [->| ->]]]; auto.
  - apply rel_ok_rtable. exact Hrel1.
  - apply rel_ok_rtable. exact Hrel2.
  - exact Hlen.
  - unfold names. destruct cols as [cs|]; [exact (proj2 (proj2 Hcols))|apply map_length].
  - exact (item_cols_single e t f1 i1 Hrel1 Hit1 Tc1 Ic1).
  - exact (item_cols_single e t f2 i2 Hrel2 Hit2 Tc2 Ic2).
  - exact (srcs_compat e t f1 i1 f2 i2 Hrel1 Hit1 Tc1 Ic1 Hrel2 Hit2 Tc2 Ic2 X12 X21).
Qed.

(* ================================================================== *)
(** * STEP 5b *)
Theorem lemma_B_union : forall noise e s,
  noise_ok noise = true -> env_ok e = true -> stmt_ok s = true -> sshape s = true -> colshape s = true ->
  sel_union_syntactic s = true ->
  script_pairs e false [] [r_stmt noise s] = spec_pairs (e_cfg e) s.
Proof.
  intros noise e s Hn He Hok Hss Hc Hsy.
  destruct (union_fragment_shape s Hss Hsy) as (t & cols & i1 & f1 & c1 & i2 & f2 & c2 & Hs & [Hrt1 Hd1] & [Hrt2 Hd2]).
  set (q := uq i1 f1 c1 i2 f2 c2) in *.
  assert (Hok' : tref_ok t && frag_query (S (q_size q)) q && names_ok_q (S (q_size q)) [] q = true /\
                 match cols with Some cs => forallb id_ok cs = true | None => True end).
  { destruct Hs as [->|[-> [->| ->]]]; cbn [stmt_ok] in Hok.
    - apply andb_true_iff in Hok. destruct Hok as [Hok Hcs]. split; [exact Hok|]. destruct cols; [exact Hcs|exact I].
    - split; [exact Hok|exact I].
    - split; [exact Hok|exact I]. }
  destruct Hok' as [Hok' Hcs].
  destruct (stmt_ok_union t i1 f1 c1 i2 f2 c2 Hok' Hrt1 Hrt2) as (Ht & (Hit1 & Hne1 & Hrel1) & (Hit2 & Hne2 & Hrel2)).
  assert (Hu : union_stmt_of s t q).
  { destruct Hs as [->|[_ [->| ->]]]; [left; eexists; reflexivity|right; left; reflexivity|right; right; reflexivity]. }
  destruct (colshape_union (e_cfg e) s t i1 f1 c1 i2 f2 c2 Hu Hc Ht Hne1 Hrel1 Hit1 Hd1 Hne2 Hrel2 Hit2 Hd2)
    as ((Tc1 & Ic1 & Nq1) & (Tc2 & Ic2 & Nq2) & Hlen & Hnd & X12 & X21).
  destruct (colshape_union_leak s t i1 f1 c1 i2 f2 c2 Hu Hc Hrel1 Hd1 Hrel2 Hd2) as [Lk12 Lk21].
  assert (Hcols : match cols with Some cs => forallb id_ok cs = true /\ NoDup cs /\ List.length cs = List.length i1 | None => True end).
  { destruct cols as [cs|]; [|exact I]. destruct Hs as [E|[E _]]; [|discriminate E].
    destruct (colshape_union_cols' s t cs i1 f1 c1 i2 f2 c2 E Hc Ht Hne1 Hrel1 Hit1 Hd1 Hne2 Hrel2 Hit2 Hd2) as (A & B & _). auto. }
  apply (lemma_B_union_tables_e noise e s t cols i1 f1 c1 i2 f2 c2 Hn He Hs Ht Hcols Hit1 Hne1 Hrel1 Hit2 Hne2 Hrel2
           Tc1 Ic1 Nq1 Tc2 Ic2 Nq2 Hlen Hnd X12 X21 Lk12 Lk21).
Qed.
Print Assumptions lemma_B_union.

(** the full statement of step 5b, as stated in LemmaB5b.v, is proved *)
Theorem lemma_B_union_statement_proved : lemma_B_union_statement.
Proof. exact lemma_B_union. Qed.

(* ================================================================== *)
(** * instances *)
Definition b5_hyps_full (p : list seg * env * stmt) : bool :=
  noise_ok (fst (fst p)) && env_ok (snd (fst p)) && stmt_ok (snd p) && sshape (snd p) && colshape (snd p) && sel_union_syntactic (snd p).

(** non-vacuity: 20 of the 26 instances of LemmaB5b.v satisfy all hypotheses of [lemma_B_union] (the others are outside
    [sshape] or [colshape]), among them the twentieth, which [lemma_B_union_partial] did not cover *)
Example b5b2_nonvacuous :
  map b5_hyps_full b5_tests =
  [true; true; false; false; true; true; false; true; true; true; true; true; true; true;
   true; true; true; true; true; true; false; true; false; true; true; false].
Proof. vm_compute. reflexivity. Qed.

(** the same table under two aliases; aliased in one branch and bare in the other, with an unresolved column and noise *)
Definition b5_mixed : stmt :=
  SInsert tx (Some ["m"; "n"])
    (QUnion (QSelect [ci (Some "p") "a"; ci None "z"] [tba "t" "p"; tb "u"] true None)
            (QSelect [ci (Some "t") "b"; IStar (Some "q")] [tb "t"; tba "u" "q"] false None)).

Example b5b2_two_aliases :
  script_pairs b5_e1 false [] [r_stmt [] b5_two_aliases] = ["<default>.t.a><default>.x.a"; "<default>.t.b><default>.x.a"].
Proof. rewrite lemma_B_union by (vm_compute; reflexivity). vm_compute. reflexivity. Qed.

Example b5b2_mixed_hyps :
  b5_hyps_full ([b5_ws; b5_cm], b5_e2, b5_mixed) = true /\ union_alias_coherent b5_mixed = false.
Proof. vm_compute. auto. Qed.

Example b5b2_mixed :
  script_pairs b5_e2 false [] [r_stmt [b5_ws; b5_cm] b5_mixed] =
  ["dflt.t.a>dflt.x.m"; "dflt.t.b>dflt.x.m"; "dflt.u.*>dflt.x.n"; "z{dflt.t,dflt.u}>dflt.x.n"].
Proof. rewrite lemma_B_union by (vm_compute; reflexivity). vm_compute. reflexivity. Qed.
