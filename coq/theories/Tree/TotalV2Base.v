(** C10 without the EValue disjunct, part 1 (generated from TotalDefs / TotalLeaves / TotalExtract by renaming): the same
    navigation and leaf lemmas for the hereditary predicate [efn] = escape-free AND free of nested write sites
    ([nw_local]: no INTO clause, no INSERT / UPDATE statement, no SWAP_PARTITIONS_BETWEEN_TABLES function name). *)
From SV Require Import Tree.Observe Tree.TriviaProofs Tree.LemmaAProofs Tree.HolderInv Tree.ExtractInv
     Tree.TotalDefs Tree.TotalHolder.
Require Import Lia.
Open Scope string_scope.
Open Scope list_scope.

Definition nw_local (x : seg) : bool :=
  negb (ty_in x ["into_table_clause"; "into_clause"; "insert_statement"; "update_statement"])
  && negb (is_type x ["function_name"] && String.eqb (raw_upper x) "SWAP_PARTITIONS_BETWEEN_TABLES").

Fixpoint nw (s : seg) : bool :=
  match s with Seg _ _ _ _ _ _ _ ch => nw_local s && forallb nw ch end.

Module N.
Fixpoint efn (s : seg) : bool :=
  match s with
  | Seg _ _ _ _ _ _ _ ch => local_ok s && (nw_local s && forallb efn ch)
  end.

Lemma efn_eq s : efn s = local_ok s && (nw_local s && forallb efn (children s)).
Proof. destruct s; reflexivity. Qed.

Lemma depth_eq s : depth s = S (fold_right Nat.max 0 (map depth (children s))).
Proof. destruct s; reflexivity. Qed.

Lemma depth_child s c : In c (children s) -> depth c < depth s.
Proof.
  rewrite (depth_eq s). induction (children s) as [|x r IH]; intros H; [destruct H|].
  cbn [map fold_right].
  pose proof (Nat.le_max_l (depth x) (fold_right Nat.max 0 (map depth r))) as M1.
  pose proof (Nat.le_max_r (depth x) (fold_right Nat.max 0 (map depth r))) as M2.
  destruct H as [<-|H]; [lia|]. specialize (IH H). lia.
Qed.

Lemma depth_pos s : 1 <= depth s.
Proof. rewrite depth_eq. lia. Qed.

(** [D s x]: x is escape-free and not deeper than s; [Ds]: strictly less deep *)
Definition D (s x : seg) : Prop := efn x = true /\ depth x <= depth s.
Definition Ds (s x : seg) : Prop := efn x = true /\ depth x < depth s.

Lemma D_refl s : efn s = true -> D s s.
Proof. intros H. split; [exact H|lia]. Qed.
Lemma Ds_D s x : Ds s x -> D s x.
Proof. intros [H1 H2]. split; [exact H1|lia]. Qed.
Lemma D_trans s y x : D s y -> D y x -> D s x.
Proof. intros [_ H2] [K1 K2]. split; [exact K1|lia]. Qed.
Lemma Ds_D_trans s y x : Ds s y -> D y x -> Ds s x.
Proof. intros [_ H2] [K1 K2]. split; [exact K1|lia]. Qed.
Lemma D_Ds_trans s y x : D s y -> Ds y x -> Ds s x.
Proof. intros [_ H2] [K1 K2]. split; [exact K1|lia]. Qed.
Lemma D_ef s x : D s x -> efn x = true. Proof. intros [H _]; exact H. Qed.
Lemma Ds_ef s x : Ds s x -> efn x = true. Proof. intros [H _]; exact H. Qed.

Lemma ef_local s : efn s = true -> local_ok s = true.
Proof. rewrite efn_eq. intros H. apply andb_true_iff in H. exact (proj1 H). Qed.

Lemma Ds_child s c : efn s = true -> In c (children s) -> Ds s c.
Proof.
  intros H Hin. split; [|exact (depth_child s c Hin)].
  rewrite efn_eq in H. apply andb_true_iff in H. destruct H as [_ H]. apply andb_true_iff in H. destruct H as [_ H]. rewrite forallb_forall in H. exact (H c Hin).
Qed.

Lemma Ds_get_children s ts x : efn s = true -> In x (get_children s ts) -> Ds s x.
Proof. intros H Hin. apply filter_In in Hin. exact (Ds_child s x H (proj1 Hin)). Qed.

Lemma get_child_in s ts x : get_child s ts = Some x -> In x (get_children s ts).
Proof. unfold get_child. destruct (get_children s ts) as [|y r]; [discriminate|]. intros H; inversion H. left; reflexivity. Qed.

Lemma get_child_type s ts x : get_child s ts = Some x -> is_type x ts = true.
Proof. intros H. apply get_child_in in H. apply filter_In in H. exact (proj2 H). Qed.

Lemma Ds_get_child s ts x : efn s = true -> get_child s ts = Some x -> Ds s x.
Proof. intros H E. exact (Ds_get_children s ts x H (get_child_in s ts x E)). Qed.

Lemma D_crawl ts b s : efn s = true -> forall x, In x (crawl ts b s) -> D s x /\ is_type x ts = true.
Proof.
  induction s as [t g c r w cm mt ch IH] using seg_ind'. intros H x Hx.
  rewrite crawl_eq in Hx. apply in_app_or in Hx. destruct Hx as [Hx|Hx].
  - destruct (is_type (Seg t g c r w cm mt ch) ts) eqn:E; [|destruct Hx]. destruct Hx as [<-|[]]. split; [apply D_refl; exact H|exact E].
  - destruct (b || negb _); [|destruct Hx]. apply in_flat_map in Hx. destruct Hx as (y & Hy & Hin).
    rewrite Forall_forall in IH. pose proof (Ds_child _ y H Hy) as Hd.
    destruct (IH y Hy (Ds_ef _ _ Hd) x Hin) as [K1 K2]. split; [|exact K2].
    apply Ds_D. exact (Ds_D_trans _ y x Hd K1).
Qed.

Lemma Ds_iter ts s : efn s = true -> forall x, In x (iter_expanding ts s) -> Ds s x.
Proof.
  induction s as [t g c r w cm mt ch IH] using seg_ind'. intros H x Hx.
  rewrite iter_eq in Hx. apply in_flat_map in Hx. destruct Hx as (y & Hy & Hin).
  rewrite Forall_forall in IH. pose proof (Ds_child _ y H Hy) as Hd.
  destruct (is_type y ts).
  - apply (Ds_D_trans _ y x Hd). apply Ds_D. exact (IH y Hy (Ds_ef _ _ Hd) x Hin).
  - destruct Hin as [<-|[]]. exact Hd.
Qed.

Lemma Ds_lcs s b x : efn s = true -> In x (list_child_segments s b) -> Ds s x.
Proof.
  intros H Hx. unfold list_child_segments in Hx.
  destruct (tyis s "bracketed" && b).
  - destruct (is_set_expression s).
    + apply filter_In in Hx. exact (Ds_child s x H (proj1 Hx)).
    + apply in_flat_map in Hx. destruct Hx as (y & Hy & Hin). pose proof (Ds_iter _ s H y Hy) as Hd.
      destruct (ty_in y _).
      * destruct Hin as [<-|[]]. exact Hd.
      * apply filter_In in Hin. apply (Ds_D_trans _ y x Hd). apply Ds_D. exact (Ds_child y x (Ds_ef _ _ Hd) (proj1 Hin)).
  - apply filter_In in Hx. exact (Ds_child s x H (proj1 Hx)).
Qed.

Lemma D_innermost k : forall s, efn s = true -> D s (innermost_fuel k s).
Proof.
  induction k as [|k IH]; intros s H; cbn [innermost_fuel]; [apply D_refl; exact H|].
  destruct (get_child s ["bracketed"]) as [p|] eqn:E.
  - pose proof (Ds_get_child s _ p H E) as Hd. exact (D_trans _ p _ (Ds_D _ _ Hd) (IH p (Ds_ef _ _ Hd))).
  - destruct (flat_map _ (children s)) as [|p l] eqn:E2; [apply D_refl; exact H|].
    assert (Hin : In p (flat_map (fun bs => match get_child bs ["bracketed"] with Some x => [x] | None => [] end) (children s)))
      by (rewrite E2; left; reflexivity).
    apply in_flat_map in Hin. destruct Hin as (y & Hy & Hp).
    pose proof (Ds_child s y H Hy) as Hd. destruct (get_child y ["bracketed"]) as [p'|] eqn:E3; [|destruct Hp].
    destruct Hp as [<-|[]]. pose proof (Ds_get_child y _ p' (Ds_ef _ _ Hd) E3) as Hd2.
    apply (D_trans _ y); [apply Ds_D; exact Hd|]. apply (D_trans _ p'); [apply Ds_D; exact Hd2|]. apply IH. exact (Ds_ef _ _ Hd2).
Qed.

Lemma D_eib s : efn s = true -> D s (extract_innermost_bracketed s).
Proof. apply D_innermost. Qed.

Lemma D_find_fee s x : efn s = true -> find_from_expression_element s = Some x -> D s x /\ is_type x [FEE] = true.
Proof.
  unfold find_from_expression_element. intros H. destruct (crawl _ true s) as [|y r] eqn:E; [discriminate|].
  intros K; inversion K; subst y. apply (D_crawl ["from_expression_element"] true s H). rewrite E. left; reflexivity.
Qed.

Lemma fold_first_some {A B} (f : A -> option B) l : forall a x,
  fold_left (fun acc c => match acc with Some _ => acc | None => f c end) l a = Some x ->
  a = Some x \/ exists c, In c l /\ f c = Some x.
Proof.
  induction l as [|c r IH]; intros a x H; cbn [fold_left] in H; [left; exact H|].
  destruct (IH _ _ H) as [K|(c' & Hc & K)].
  - destruct a as [a0|]; [left; exact K|right; exists c; split; [left; reflexivity|exact K]].
  - right. exists c'. split; [right; exact Hc|exact K].
Qed.

Lemma find_ti_eq s :
  find_table_identifier s =
  if ty_in s ["table_reference"; "file_reference"; "object_reference"] then Some s
  else fold_left (fun acc c => match acc with Some _ => acc | None => find_table_identifier c end) (children s) None.
Proof. destruct s; reflexivity. Qed.

Lemma D_find_ti s : efn s = true -> forall x, find_table_identifier s = Some x ->
  D s x /\ ty_in x ["table_reference"; "file_reference"; "object_reference"] = true.
Proof.
  induction s as [t g c r w cm mt ch IH] using seg_ind'. intros H x Hx. rewrite find_ti_eq in Hx.
  destruct (ty_in _ _) eqn:E.
  - inversion Hx; subst x. split; [apply D_refl; exact H|exact E].
  - apply fold_first_some in Hx. destruct Hx as [Hx|(y & Hy & Hx)]; [discriminate|]. cbn [children] in Hy.
    rewrite Forall_forall in IH. pose proof (Ds_child _ y H Hy) as Hd.
    destruct (IH y Hy (Ds_ef _ _ Hd) x Hx) as [K1 K2]. split; [|exact K2]. apply Ds_D. exact (Ds_D_trans _ y x Hd K1).
Qed.

Lemma D_ljc s x : efn s = true -> In x (list_join_clause s) -> D s x.
Proof.
  unfold list_join_clause. intros H Hx. destruct (ty_in s _); [|destruct Hx].
  destruct (match get_child s ["from_expression"] with Some _ => _ | None => _ end); [destruct Hx|].
  exact (proj1 (D_crawl _ true s H x Hx)).
Qed.

Lemma when_scan_in w f ek : efn w = true -> forall cs started acc,
  (forall c, In c cs -> In c (children w)) -> (forall x, In x acc -> Ds w x) ->
  forall x, In x (when_scan f ek cs started acc) -> Ds w x.
Proof.
  intros H. induction cs as [|c r IH]; intros started acc Hcs Hacc x Hx; cbn [when_scan] in Hx; [exact (Hacc x Hx)|].
  assert (Hr : forall c0, In c0 r -> In c0 (children w)) by (intros c0 Hc0; apply Hcs; right; exact Hc0).
  destruct (tyis c "keyword" && String.eqb (raw_upper c) f); [exact (IH _ _ Hr Hacc x Hx)|].
  destruct (match ek with Some e => _ | None => false end); [exact (Hacc x Hx)|].
  destruct (started && tyis c "expression"); [|exact (IH _ _ Hr Hacc x Hx)].
  apply (IH _ _ Hr) with (x := x) in Hx; [exact Hx|]. intros y Hy.
  pose proof (Ds_child w c H (Hcs c (or_introl eq_refl))) as Hd.
  apply (Ds_D_trans _ c y Hd). apply Ds_D. exact (Ds_get_children c _ y (Ds_ef _ _ Hd) Hy).
Qed.

Lemma Ds_when w k x : efn w = true -> In x (list_expression_from_when_clause w k) -> Ds w x.
Proof.
  intros H Hx. unfold list_expression_from_when_clause in Hx.
  exact (when_scan_in w k _ H (children w) false [] (fun c Hc => Hc) (fun y (Hy : In y []) => match Hy with end) x Hx).
Qed.

(** string dispatch helpers *)
Lemma tyis_eq s t : tyis s t = true -> ty s = t.
Proof. unfold tyis. apply String.eqb_eq. Qed.

Lemma imp_true a b : imp a b = true -> a = true -> b = true.
Proof. intros H ->. exact H. Qed.

Lemma nonempty_true {A} (l : list A) : nonempty l = true -> l <> [].
Proof. destruct l; [discriminate|intros _ K; discriminate K]. Qed.


(** the seven local conditions, one at a time *)
Lemma local_parts x : local_ok x = true ->
  imp (tyis x FEE) (nonempty (children x)) = true /\
  imp (tyis x ALIAS || is_type x [ALIAS]) (nonempty (list_child_segments x true)) = true /\
  imp (tyis x FEE || is_type x [FEE]) (match fee_target x with Some t => nonempty (children t) | None => false end) = true /\
  imp (is_type x [FEE]) (fee_is_function_source x || nonempty (filter (fun y => negb (tyis y "keyword")) (list_child_segments x true))) = true /\
  imp (tyis x "column_reference") (nonempty (list_child_segments x true)) = true /\
  imp (ty_in x ["table_reference"; "object_reference"; "file_reference"]) (nonempty (children x)) = true /\
  imp (tyis x "merge_statement") (merge_guard (list_child_segments x true) false) = true.
Proof.
  unfold local_ok. rewrite !andb_true_iff. intros [[[[[[H1 H2] H3] H4] H5] H6] H7]. repeat split; assumption.
Qed.

Lemma L1 x : efn x = true -> tyis x FEE = true -> children x <> [].
Proof. intros H T. apply nonempty_true. exact (imp_true _ _ (proj1 (local_parts x (ef_local x H))) T). Qed.
Lemma L2 x : efn x = true -> tyis x ALIAS || is_type x [ALIAS] = true -> list_child_segments x true <> [].
Proof. intros H T. apply nonempty_true. exact (imp_true _ _ (proj1 (proj2 (local_parts x (ef_local x H)))) T). Qed.
Lemma L3 x : efn x = true -> tyis x FEE || is_type x [FEE] = true ->
  exists t, fee_target x = Some t /\ children t <> [].
Proof.
  intros H T. pose proof (imp_true _ _ (proj1 (proj2 (proj2 (local_parts x (ef_local x H))))) T) as K.
  destruct (fee_target x) as [t|]; [|discriminate]. exists t. split; [reflexivity|apply nonempty_true; exact K].
Qed.
Lemma L4 x : efn x = true -> is_type x [FEE] = true ->
  fee_is_function_source x || nonempty (filter (fun y => negb (tyis y "keyword")) (list_child_segments x true)) = true.
Proof. intros H T. exact (imp_true _ _ (proj1 (proj2 (proj2 (proj2 (local_parts x (ef_local x H)))))) T). Qed.
Lemma L5 x : efn x = true -> tyis x "column_reference" = true -> list_child_segments x true <> [].
Proof. intros H T. apply nonempty_true. exact (imp_true _ _ (proj1 (proj2 (proj2 (proj2 (proj2 (local_parts x (ef_local x H))))))) T). Qed.
Lemma L6 x : efn x = true -> ty_in x ["table_reference"; "object_reference"; "file_reference"] = true -> children x <> [].
Proof. intros H T. apply nonempty_true. exact (imp_true _ _ (proj1 (proj2 (proj2 (proj2 (proj2 (proj2 (local_parts x (ef_local x H)))))))) T). Qed.
Lemma L7 x : efn x = true -> tyis x "merge_statement" = true -> merge_guard (list_child_segments x true) false = true.
Proof. intros H T. exact (imp_true _ _ (proj2 (proj2 (proj2 (proj2 (proj2 (proj2 (local_parts x (ef_local x H)))))))) T). Qed.

(** partial list operations *)
Lemma nth_res_0 {A} (l : list A) : l <> [] -> exists x, nth_res l 0 = Ok x /\ In x l.
Proof. destruct l as [|x r]; [intros H; destruct (H eq_refl)|]. intros _. exists x. split; [reflexivity|left; reflexivity]. Qed.

Lemma last_res_ok {A} (l : list A) : l <> [] -> exists x, last_res l = Ok x /\ In x l.
Proof.
  intros H. unfold last_res. destruct (rev l) as [|x r] eqn:E.
  - destruct H. rewrite <- (rev_involutive l), E. reflexivity.
  - exists x. split; [reflexivity|]. apply in_rev. rewrite E. left; reflexivity.
Qed.

Lemma nth_res_lt {A} (l : list A) i : i < List.length l -> exists x, nth_res l i = Ok x /\ In x l.
Proof.
  intros H. unfold nth_res. destruct (nth_error l i) as [x|] eqn:E.
  - exists x. split; [reflexivity|exact (nth_error_In l i E)].
  - apply nth_error_None in E. lia.
Qed.

(* ================================================================== *)
(** * utils.py *)
Lemma is_subquery_ok s : efn s = true -> okr TT (is_subquery s).
Proof.
  intros H. unfold is_subquery. destruct (tyis s "from_expression_element" || tyis s "bracketed") eqn:E; [|exact I].
  assert (K : okr TT (if tyis s "bracketed" then Ok s else nth_res (children s) 0)).
  { destruct (tyis s "bracketed") eqn:Eb; [exact I|]. rewrite orb_false_r in E.
    destruct (nth_res_0 (children s) (L1 s H E)) as (x & -> & _). exact I. }
  apply (okr_bind TT TT _ _ K). intros start _.
  destruct (get_child _ ["select_statement"; "set_expression"; "with_compound_statement"]); [exact I|].
  destruct (get_child _ ["expression"]) as [ex|]; [|exact I]. destruct (get_child ex _); exact I.
Qed.

Lemma extract_identifier_ok a : efn a = true -> tyis a ALIAS || is_type a [ALIAS] = true -> okr TT (extract_identifier a).
Proof.
  intros H T. unfold extract_identifier. destruct (last_res_ok _ (L2 a H T)) as (x & -> & _). exact I.
Qed.

Lemma alias_of_get_child s a : get_child s ["alias_expression"] = Some a -> tyis a ALIAS || is_type a [ALIAS] = true.
Proof. intros E. rewrite (get_child_type s _ a E). apply orb_true_r. Qed.

Lemma opt_alias_ok s (o : option seg) : efn s = true -> (forall a, o = Some a -> Ds s a /\ tyis a ALIAS || is_type a [ALIAS] = true) ->
  okr TT (match o with Some a => match extract_identifier a with Ok i => Ok (Some i) | Err e => Err e end | None => Ok None end).
Proof.
  intros H K. destruct o as [a|]; [|exact I]. destruct (K a eq_refl) as [Hd Ha].
  apply (okr_bind TT TT _ _ (extract_identifier_ok a (Ds_ef _ _ Hd) Ha)). intros i _. exact I.
Qed.

Lemma extract_as_and_target_ok s : efn s = true -> tyis s FEE || is_type s [FEE] = true ->
  okr (fun p => Ds s (snd p) /\ forall a, fst p = Some a -> Ds s a /\ tyis a ALIAS || is_type a [ALIAS] = true)
      (extract_as_and_target_segment s).
Proof.
  intros H T. unfold extract_as_and_target_segment. destruct (L3 s H T) as (t & Et & Hc). unfold fee_target in Et.
  destruct (list_child_segments s false) as [|t0 r] eqn:El; [discriminate|].
  change (nth_res (t0 :: r) 0) with (Ok t0).
  assert (Etg : (if tyis t0 "keyword" && Nat.ltb 1 (List.length (t0 :: r)) then nth_res (t0 :: r) 1 else Ok t0) = Ok t).
  { inversion Et as [Et']. destruct (tyis t0 "keyword"); [|reflexivity]. destruct r as [|t1 r']; reflexivity. }
  cbv beta iota. rewrite Etg.
  assert (Ht : Ds s t).
  { apply (Ds_lcs s false t H). rewrite El. inversion Et as [Et']. destruct (tyis t0 "keyword"); [|left; reflexivity].
    destruct r as [|t1 r']; [left; reflexivity|right; left; reflexivity]. }
  apply (okr_bind TT _ _ _ (is_subquery_ok t (Ds_ef _ _ Ht))). intros sq _.
  assert (K : okr (Ds s) (if sq then Ok t else nth_res (children t) 0)).
  { destruct sq; [exact Ht|]. destruct (nth_res_0 _ Hc) as (x & -> & Hx). cbn [okg].
    apply (Ds_D_trans _ t x Ht). apply Ds_D. exact (Ds_child t x (Ds_ef _ _ Ht) Hx). }
  apply (okr_bind (Ds s) _ _ _ K). intros te Hte. cbn [okg fst snd]. split; [exact Hte|].
  intros a Ea. split; [exact (Ds_get_child s _ a H Ea)|exact (alias_of_get_child s a Ea)].
Qed.

Lemma list_subqueries_fee_ok s : efn s = true -> tyis s FEE || is_type s [FEE] = true ->
  okr (Forall (fun p : sqtuple => Ds s (fst p))) (list_subqueries_fee s).
Proof.
  intros H T. unfold list_subqueries_fee.
  apply (okr_bind _ _ _ _ (extract_as_and_target_ok s H T)). intros [as_segment target] [Ht Ha]. cbn [fst snd] in Ht, Ha.
  apply (okr_bind TT _ _ _ (is_subquery_ok target (Ds_ef _ _ Ht))). intros sq _.
  destruct sq; [|constructor].
  apply (okr_bind TT _ _ _ (opt_alias_ok s as_segment H Ha)). intros alias _. cbn [okg]. constructor; [|constructor]. cbn [fst].
  destruct (negb (is_set_expression target)); [|exact Ht].
  exact (Ds_D_trans _ target _ Ht (D_eib target (Ds_ef _ _ Ht))).
Qed.

Lemma Forall_map_intro {A B} (Q : B -> Prop) (f : A -> B) l : (forall x, In x l -> Q (f x)) -> Forall Q (map f l).
Proof. intros H. apply Forall_forall. intros y Hy. apply in_map_iff in Hy. destruct Hy as (x & <- & Hx). exact (H x Hx). Qed.

Lemma fee_opt_ok s (o : option seg) : efn s = true -> (forall fee, o = Some fee -> D s fee /\ is_type fee [FEE] = true) ->
  okr (Forall (fun p : sqtuple => Ds s (fst p))) (match o with Some fee => list_subqueries_fee fee | None => Ok [] end).
Proof.
  intros H K. destruct o as [fee|]; [|constructor]. destruct (K fee eq_refl) as [Hd Hf].
  assert (T : tyis fee FEE || is_type fee [FEE] = true) by (rewrite Hf; apply orb_true_r).
  apply (okr_weaken _ _ _ (fun l (Hl : Forall (fun p : sqtuple => Ds fee (fst p)) l) =>
     Forall_impl _ (fun p (Hp : Ds fee (fst p)) => D_Ds_trans s fee (fst p) Hd Hp) Hl)).
  exact (list_subqueries_fee_ok fee (D_ef _ _ Hd) T).
Qed.

Lemma list_subqueries_ok s : efn s = true -> okr (Forall (fun p : sqtuple => Ds s (fst p))) (list_subqueries s).
Proof.
  intros H. unfold list_subqueries.
  destruct (tyis s "select_clause").
  { apply okr_concat_map. intros sce Hsce. pose proof (Ds_get_children s _ sce H Hsce) as Dsce.
    pose proof (Ds_ef _ _ Dsce) as Esce.
    destruct (get_child sce ["expression"]) as [ex|] eqn:Eex.
    - pose proof (Ds_get_child sce _ ex Esce Eex) as Dex.
      destruct (get_child ex ["case_expression"]) as [ce|] eqn:Ece; [|constructor].
      pose proof (Ds_get_child ex _ ce (Ds_ef _ _ Dex) Ece) as Dce.
      assert (Dce' : Ds s ce) by (apply (Ds_D_trans _ sce _ Dsce); apply Ds_D; apply (Ds_D_trans _ ex _ Dex); apply Ds_D; exact Dce).
      apply okr_concat_map. intros wc Hwc. pose proof (Ds_get_children ce _ wc (Ds_ef _ _ Dce) Hwc) as Dwc.
      assert (Dwc' : Ds s wc) by (apply (Ds_D_trans _ ce _ Dce'); apply Ds_D; exact Dwc).
      assert (Hw : forall k b, In b (list_expression_from_when_clause wc k) -> Ds s b).
      { intros k b Hb. apply (Ds_D_trans _ wc _ Dwc'). apply Ds_D. exact (Ds_when wc k b (Ds_ef _ _ Dwc) Hb). }
      destruct (list_expression_from_when_clause wc "THEN") as [|th thr] eqn:Eth.
      + cbn [okg]. apply Forall_map_intro. intros b Hb. exact (Hw "WHEN" b Hb).
      + assert (Ka : okr TT (match get_child sce ["alias_expression"] with
                              | Some a => match extract_identifier a with Ok i => Ok (Some i) | Err e => Err e end
                              | None => Ok None end)).
        { apply (opt_alias_ok sce _ Esce). intros a Ea. split; [exact (Ds_get_child sce _ a Esce Ea)|exact (alias_of_get_child sce a Ea)]. }
        apply (okr_bind TT _ _ _ Ka). intros alias _. cbn [okg]. apply Forall_app. split.
        * apply Forall_map_intro. intros b Hb. exact (Hw "WHEN" b Hb).
        * apply Forall_map_intro. intros b Hb. cbn [fst]. apply (Hw "THEN"). rewrite Eth. exact Hb.
    - destruct (get_child sce ["function"]) as [fn|] eqn:Efn; [|constructor].
      pose proof (Ds_get_child sce _ fn Esce Efn) as Dfn.
      assert (Kf : okr (fun ys => forall y, In y ys -> In y (crawl ["bracketed"] true fn)) (filter_res is_subquery (crawl ["bracketed"] true fn))).
      { apply okr_filter_res. intros b Hb. apply is_subquery_ok. exact (D_ef _ _ (proj1 (D_crawl _ true fn (Ds_ef _ _ Dfn) b Hb))). }
      apply (okr_bind _ _ _ _ Kf). intros bs Hbs. cbn [okg]. apply Forall_map_intro. intros b Hb. cbn [fst].
      apply (Ds_D_trans _ sce _ Dsce). apply Ds_D. apply (Ds_D_trans _ fn _ Dfn).
      exact (proj1 (D_crawl _ true fn (Ds_ef _ _ Dfn) b (Hbs b Hb))). }
  destruct (tyis s "from_expression_element") eqn:Efee.
  { apply list_subqueries_fee_ok; [exact H|]. rewrite Efee. reflexivity. }
  destruct (tyis s "where_clause").
  { set (bracketeds := match get_child s ["expression"] with Some e => get_children e ["bracketed"] | None => _ end).
    assert (Hb : forall b, In b bracketeds -> Ds s b).
    { intros b Hb. unfold bracketeds in Hb. destruct (get_child s ["expression"]) as [ex|] eqn:Eex.
      - pose proof (Ds_get_child s _ ex H Eex) as Dex. apply (Ds_D_trans _ ex _ Dex). apply Ds_D. exact (Ds_get_children ex _ b (Ds_ef _ _ Dex) Hb).
      - destruct (get_child s ["bracketed"]) as [bw|] eqn:Ebw; [|destruct Hb].
        pose proof (Ds_get_child s _ bw H Ebw) as Dbw.
        destruct (get_child bw ["expression"]) as [ex|] eqn:Eex2; [|destruct Hb].
        pose proof (Ds_get_child bw _ ex (Ds_ef _ _ Dbw) Eex2) as Dex.
        apply (Ds_D_trans _ bw _ Dbw). apply Ds_D. apply (Ds_D_trans _ ex _ Dex). apply Ds_D.
        exact (Ds_get_children ex _ b (Ds_ef _ _ Dex) Hb). }
    assert (Kf : okr (fun ys => forall y, In y ys -> In y bracketeds) (filter_res is_subquery bracketeds)).
    { apply okr_filter_res. intros b Hb0. apply is_subquery_ok. exact (Ds_ef _ _ (Hb b Hb0)). }
    apply (okr_bind _ _ _ _ Kf). intros bs Hbs. cbn [okg]. apply Forall_map_intro. intros b Hb0. cbn [fst].
    pose proof (Hb b (Hbs b Hb0)) as Db. exact (Ds_D_trans _ b _ Db (D_eib b (Ds_ef _ _ Db))). }
  destruct (ty_in s ["from_clause"; "from_expression"]).
  { assert (K1 : okr (Forall (fun p : sqtuple => Ds s (fst p)))
                     (match find_from_expression_element s with Some fee => list_subqueries_fee fee | None => Ok [] end)).
    { apply (fee_opt_ok s _ H). intros fee E. exact (D_find_fee s fee H E). }
    apply (okr_bind _ _ _ _ K1). intros first Hfirst.
    assert (K2 : okr (Forall (fun p : sqtuple => Ds s (fst p)))
                     (concat_res (map (fun jc => match find_from_expression_element jc with
                                                 | Some fee => list_subqueries_fee fee | None => Ok [] end) (list_join_clause s)))).
    { apply okr_concat_map. intros jc Hjc. pose proof (D_ljc s jc H Hjc) as Djc.
      apply (okr_weaken _ _ _ (fun l (Hl : Forall (fun p : sqtuple => Ds jc (fst p)) l) =>
         Forall_impl _ (fun p (Hp : Ds jc (fst p)) => D_Ds_trans s jc (fst p) Djc Hp) Hl)).
      apply (fee_opt_ok jc _ (D_ef _ _ Djc)). intros fee E. exact (D_find_fee jc fee (D_ef _ _ Djc) E). }
    apply (okr_bind _ _ _ _ K2). intros rest Hrest. cbn [okg]. apply Forall_app. split; assumption. }
  destruct (is_set_expression s); [|constructor].
  cbn [okg]. apply Forall_map_intro. intros x Hx. cbn [fst]. apply filter_In in Hx. exact (Ds_lcs s true x H (proj1 Hx)).
Qed.

(* ================================================================== *)
(** * models.py *)
Lemma mk_table_ok e name sch alias : okr (fun d => dk d = KTable) (mk_table e name sch alias).
Proof. unfold mk_table. destruct (table_of _ _ _ _ _); [reflexivity|exact allowed_lineage]. Qed.

Lemma find_dot_le : forall l i j, find_dot l i = Some j -> j <= i.
Proof.
  induction l as [|s r IH]; intros i j H; cbn [find_dot] in H; [discriminate|].
  destruct (tyis s "symbol"); [inversion H; lia|]. destruct i as [|k]; [discriminate|]. specialize (IH k j H). lia.
Qed.

Lemma table_of_seg_ok e t alias : efn t = true ->
  ty_in t ["table_reference"; "object_reference"; "file_reference"] = true ->
  okr (fun d => dk d = KTable) (table_of_seg e t alias).
Proof.
  intros H T. unfold table_of_seg.
  set (n := List.length (children t)).
  set (dot_idx := if Nat.leb 2 n then find_dot (rev (firstn (n - 1) (children t))) (n - 2) else None).
  assert (Hdef : okr (fun d => dk d = KTable)
     (match (if tyis t "identifier" then Ok (raw t) else match nth_res (children t) 0 with Ok s0 => Ok (raw s0) | Err e0 => Err e0 end) with
      | Ok real_name => mk_table e real_name (Some (schema_of (e_cfg e) None))
                          match alias with Some a => if String.eqb a "" then None else Some a | None => None end
      | Err e0 => Err e0 end)).
  { apply (okr_bind TT).
    - destruct (tyis t "identifier"); [exact I|]. destruct (nth_res_0 _ (L6 t H T)) as (x & -> & _). exact I.
    - intros nm _. apply mk_table_ok. }
  destruct dot_idx as [[|k]|] eqn:Ed; [exact Hdef| |exact Hdef].
  unfold dot_idx in Ed. destruct (Nat.leb 2 n) eqn:En; [|discriminate]. apply Nat.leb_le in En.
  apply find_dot_le in Ed.
  destruct (nth_res_lt (children t) (S (S k))) as (x & -> & _); [fold n; lia|]. apply mk_table_ok.
Qed.

Lemma split_dot_nonempty s : split_dot_aux s <> [].
Proof.
  induction s as [|a r IH]; cbn [split_dot_aux]; [discriminate|].
  destruct (Ascii.eqb a "."%char); [discriminate|]. destruct (split_dot_aux r); discriminate.
Qed.

Lemma extract_column_qualifier_ok s : efn s = true -> okr TT (extract_column_qualifier s).
Proof.
  intros H. unfold extract_column_qualifier. destruct (is_wildcard s).
  - destruct (last_res_ok _ (split_dot_nonempty (raw s))) as (x & -> & _). exact I.
  - destruct (tyis s "column_reference") eqn:E.
    + destruct (last_res_ok _ (L5 s H E)) as (x & -> & _). exact I.
    + destruct (tyis s "identifier"); exact I.
Qed.

(** _get_column_and_alias / _get_column_from_parenthesis over any source extractor [F] *)
Definition caa (F : seg -> res (list cq)) (x : seg) (check_bracketed : bool) : res (list cq * option string) :=
  fold_left (fun acc sub =>
               do a <- acc;
               let '(cols, alias) := a in
               if tyis sub "alias_expression" then do i <- extract_identifier sub; Ok (cols, Some i)
               else if ty_in sub SOURCE_TYPES || is_wildcard sub
                    then do r <- F sub; Ok (cols ++ r, alias)
                    else Ok (cols, alias))
            (list_child_segments x check_bracketed) (Ok ([], None)).

Definition from_par (F : seg -> res (list cq)) (x : seg) : res (list cq) :=
  let x' := match get_child x ["window_specification"] with Some w => w | None => x end in
  do ca <- caa F x' false; Ok (fst ca).

Lemma extract_sources_S k e s :
  extract_sources (S k) e s =
  if ty_in s ["identifier"; "column_reference"] || is_wildcard s then
    do q <- extract_column_qualifier s;
    Ok (match q with Some c => [c] | None => [] end)
  else if tyis s "function" then
    concat_res (map (from_par (extract_sources k e)) (crawl ["bracketed"] true s))
  else if ty_in s NON_IDENT then
    concat_res (map (fun sub =>
      if tyis sub "bracketed" then
        do sq <- is_subquery sub;
        if sq then match assoc_list (raw sub) (e_scalar e) with Some l => Ok l | None => Err "ScalarOracleMissing" end
        else from_par (extract_sources k e) sub
      else if ty_in sub SOURCE_TYPES || is_wildcard sub then extract_sources k e sub
      else Ok []) (list_child_segments s true))
  else Ok [].
Proof. reflexivity. Qed.

Lemma gcaa_eq fuel e x cb : get_column_and_alias fuel e x cb = caa (extract_sources fuel e) x cb.
Proof. reflexivity. Qed.

Lemma caa_ok (F : seg -> res (list cq)) x cb : efn x = true ->
  (forall sub, Ds x sub -> okr TT (F sub)) -> okr TT (caa F x cb).
Proof.
  intros H HF. unfold caa.
  apply (okr_fold TT (fun (a : list cq * option string) sub =>
               let '(cols, alias) := a in
               if tyis sub "alias_expression" then do i <- extract_identifier sub; Ok (cols, Some i)
               else if ty_in sub SOURCE_TYPES || is_wildcard sub
                    then do r <- F sub; Ok (cols ++ r, alias)
                    else Ok (cols, alias))); [|exact I].
  intros [cols alias] sub Hsub _. pose proof (Ds_lcs x cb sub H Hsub) as Dsub.
  destruct (tyis sub "alias_expression") eqn:Ea.
  - apply (okr_bind TT); [|intros i _; exact I]. apply extract_identifier_ok; [exact (Ds_ef _ _ Dsub)|]. rewrite Ea. reflexivity.
  - destruct (ty_in sub SOURCE_TYPES || is_wildcard sub); [|exact I].
    apply (okr_bind TT); [exact (HF sub Dsub)|intros r _; exact I].
Qed.

Lemma from_par_ok (F : seg -> res (list cq)) x : efn x = true ->
  (forall sub, Ds x sub -> okr TT (F sub)) -> okr TT (from_par F x).
Proof.
  intros H HF. unfold from_par. apply (okr_bind TT); [|intros ca _; exact I].
  destruct (get_child x ["window_specification"]) as [w|] eqn:E.
  - pose proof (Ds_get_child x _ w H E) as Dw. apply (caa_ok F w false (Ds_ef _ _ Dw)).
    intros sub Dsub. apply HF. exact (Ds_D_trans _ w _ Dw (Ds_D _ _ Dsub)).
  - exact (caa_ok F x false H HF).
Qed.

Lemma extract_sources_ok e : forall k s, efn s = true -> depth s <= k -> okr TT (extract_sources k e s).
Proof.
  induction k as [|k IH]; intros s H Hd; [pose proof (depth_pos s); lia|].
  assert (IH' : forall x, D s x -> forall sub, Ds x sub -> okr TT (extract_sources k e sub)).
  { intros x [_ Dx] sub [Es Dsub]. apply IH; [exact Es|lia]. }
  rewrite extract_sources_S.
  destruct (ty_in s ["identifier"; "column_reference"] || is_wildcard s).
  { apply (okr_bind TT); [exact (extract_column_qualifier_ok s H)|intros q _; exact I]. }
  destruct (tyis s "function").
  { apply (okr_weaken (Forall TT)); [intros a _; exact I|]. apply okr_concat_map. intros b Hb.
    pose proof (proj1 (D_crawl _ true s H b Hb)) as Db.
    apply (okr_weaken TT); [intros a _; apply Forall_forall; intros y _; exact I|].
    apply (from_par_ok _ b (D_ef _ _ Db)). exact (IH' b Db). }
  destruct (ty_in s NON_IDENT); [|exact I].
  apply (okr_weaken (Forall TT)); [intros a _; exact I|]. apply okr_concat_map. intros sub Hsub.
  pose proof (Ds_lcs s true sub H Hsub) as Dsub.
  apply (okr_weaken TT); [intros a _; apply Forall_forall; intros y _; exact I|].
  destruct (tyis sub "bracketed").
  - apply (okr_bind TT); [exact (is_subquery_ok sub (Ds_ef _ _ Dsub))|]. intros sq _. destruct sq.
    + destruct (assoc_list _ _); [exact I|exact allowed_oracle].
    + apply (from_par_ok _ sub (Ds_ef _ _ Dsub)). exact (IH' sub (Ds_D _ _ Dsub)).
  - destruct (ty_in sub SOURCE_TYPES || is_wildcard sub); [|exact I].
    apply IH; [exact (Ds_ef _ _ Dsub)|]. destruct Dsub as [_ Dsub]. lia.
Qed.

Lemma column_of_seg_ok f e c : efn c = true -> depth c <= f -> okr TT (column_of_seg f e c).
Proof.
  intros H Hd. unfold column_of_seg.
  assert (Kfb : okr TT (do srcs <- extract_sources f e c; Ok (mk_xcol (raw c) srcs false))).
  { apply (okr_bind TT); [exact (extract_sources_ok e f c H Hd)|intros srcs _; exact I]. }
  destruct (tyis c "select_clause_element"); [|exact Kfb].
  assert (Kca : okr TT (get_column_and_alias f e c true)).
  { rewrite gcaa_eq. apply (caa_ok _ c true H). intros sub [Es Dsub]. apply extract_sources_ok; [exact Es|lia]. }
  apply (okr_bind TT _ _ _ Kca). intros [srcs alias] _.
  destruct (match alias with Some a => if String.eqb a "" then None else Some a | None => None end); [exact I|].
  destruct srcs as [|s0 srcs]; [exact Kfb|].
  apply (okr_bind TT); [|intros nm _; exact I].
  apply (okr_fold TT (fun (nm : option string) sub =>
                         if tyis sub "column_reference" || is_wildcard sub then
                           do q <- extract_column_qualifier sub;
                           Ok (match q with Some cq0 => Some (fst cq0) | None => nm end)
                         else if tyis sub "expression" then
                           match list_child_segments sub true with
                           | [s2] =>
                               if tyis s2 "cast_expression" then
                                 match list_child_segments s2 true with
                                 | [s3; _] =>
                                     if tyis s3 "column_reference" then
                                       do q <- extract_column_qualifier s3;
                                       Ok (match q with Some cq0 => Some (fst cq0) | None => nm end)
                                     else Ok nm
                                 | _ => Ok nm
                                 end
                               else Ok nm
                           | _ => Ok nm
                           end
                         else Ok nm)); [|exact I].
  intros nm sub Hsub _. pose proof (Ds_lcs c true sub H Hsub) as Dsub.
  destruct (tyis sub "column_reference" || is_wildcard sub).
  { apply (okr_bind TT); [exact (extract_column_qualifier_ok sub (Ds_ef _ _ Dsub))|intros q _; exact I]. }
  destruct (tyis sub "expression"); [|exact I].
  destruct (list_child_segments sub true) as [|s2 [|? ?]] eqn:E2; try exact I.
  assert (D2 : Ds sub s2) by (apply (Ds_lcs sub true s2 (Ds_ef _ _ Dsub)); rewrite E2; left; reflexivity).
  destruct (tyis s2 "cast_expression"); [|exact I].
  destruct (list_child_segments s2 true) as [|s3 [|s4 [|? ?]]] eqn:E3; try exact I.
  assert (D3 : Ds s2 s3) by (apply (Ds_lcs s2 true s3 (Ds_ef _ _ D2)); rewrite E3; left; reflexivity).
  destruct (tyis s3 "column_reference"); [|exact I].
  apply (okr_bind TT); [exact (extract_column_qualifier_ok s3 (Ds_ef _ _ D3))|intros q _; exact I].
Qed.


Definition subD (s : seg) (d : dataset) : Prop := dk d = KSubq /\ exists q, dquery d = Some q /\ D s q.
Definition subDs (s : seg) (d : dataset) : Prop := dk d = KSubq /\ exists q, dquery d = Some q /\ Ds s q.

Lemma subDs_ds_ok s d : subDs s d -> ds_ok d.
Proof. intros [_ (q & E & _)] _. rewrite E. discriminate. Qed.
Lemma subD_ds_ok s d : subD s d -> ds_ok d.
Proof. intros [_ (q & E & _)] _. rewrite E. discriminate. Qed.
Lemma subD_Ds s y d : Ds s y -> subD y d -> subDs s d.
Proof. intros H [K (q & E & Dq)]. split; [exact K|]. exists q. split; [exact E|exact (Ds_D_trans _ y _ H Dq)]. Qed.
Lemma subDs_D s y d : D s y -> subDs y d -> subDs s d.
Proof. intros H [K (q & E & Dq)]. split; [exact K|]. exists q. split; [exact E|exact (D_Ds_trans _ y _ H Dq)]. Qed.
Lemma subDs_subD s d : subDs s d -> subD s d.
Proof. intros [K (q & E & Dq)]. split; [exact K|]. exists q. split; [exact E|exact (Ds_D _ _ Dq)]. Qed.
Lemma mk_subquery_subDs s q a : Ds s q -> subDs s (mk_subquery q a).
Proof. intros H. split; [reflexivity|]. exists q. split; [reflexivity|exact H]. Qed.
Lemma mk_subquery_ds_ok q a : ds_ok (mk_subquery q a).
Proof. intros _. discriminate. Qed.

Lemma parse_subquery_Ds s l : Forall (fun p : sqtuple => Ds s (fst p)) l -> Forall (subDs s) (parse_subquery l).
Proof. intros H. unfold parse_subquery. apply Forall_map_intro. intros p Hp. rewrite Forall_forall in H. exact (mk_subquery_subDs s _ _ (H p Hp)). Qed.

Lemma Forall_flat_map_intro {A B} (Q : B -> Prop) (f : A -> list B) l : (forall x, In x l -> Forall Q (f x)) -> Forall Q (flat_map f l).
Proof. intros H. apply Forall_forall. intros y Hy. apply in_flat_map in Hy. destruct Hy as (x & Hx & Hy). specialize (H x Hx). rewrite Forall_forall in H. exact (H y Hy). Qed.

(** BaseExtractor.list_subquery: the sub-queries lie strictly below [s], except [s] itself when it is a bracket / from element *)
Lemma list_subquery_gen s : efn s = true ->
  okr (Forall (fun d => subDs s d \/ ((tyis s "from_expression_element" || tyis s "bracketed") = true /\ subD s d))) (list_subquery s).
Proof.
  intros H. unfold list_subquery.
  assert (Kw : forall l : list dataset, Forall (subDs s) l -> Forall (fun d => subDs s d \/ ((tyis s "from_expression_element" || tyis s "bracketed") = true /\ subD s d)) l).
  { intros l Hl. apply (Forall_impl _ (fun d Hd => or_introl Hd) Hl). }
  assert (Kdef : okr (Forall (fun d => subDs s d \/ ((tyis s "from_expression_element" || tyis s "bracketed") = true /\ subD s d)))
    (if ty_in s ["select_clause"; "from_clause"; "where_clause"]
      then do l <- list_subqueries s; Ok (parse_subquery l)
      else do sq <- is_subquery s; Ok (if sq then [mk_subquery s None] else []))).
  { destruct (ty_in s _).
    - apply (okr_bind _ _ _ _ (list_subqueries_ok s H)). intros l Hl. cbn [okg]. apply Kw. exact (parse_subquery_Ds s l Hl).
    - pose proof (is_subquery_ok s H) as K. unfold is_subquery in *.
      destruct (tyis s "from_expression_element" || tyis s "bracketed") eqn:E; [|cbn [okg]; constructor].
      apply (okr_bind _ _ _ _ K). intros sq _. cbn [okg]. destruct sq; [|constructor]. constructor; [|constructor].
      right. split; [reflexivity|]. split; [reflexivity|]. exists s. split; [reflexivity|exact (D_refl s H)]. }
  destruct (get_children s ["from_expression"]) as [|fe1 [|fe2 rest]] eqn:Ec; [exact Kdef|exact Kdef|].
  apply (okr_bind (Forall (Forall (fun p : sqtuple => Ds s (fst p))))).
  - apply okr_map_res. intros fe Hfe. rewrite <- Ec in Hfe. pose proof (Ds_get_children s _ fe H Hfe) as Dfe.
    apply (okr_weaken _ _ _ (fun l (Hl : Forall (fun p : sqtuple => Ds fe (fst p)) l) =>
       Forall_impl _ (fun p (Hp : Ds fe (fst p)) => D_Ds_trans s fe (fst p) (Ds_D _ _ Dfe) Hp) Hl)).
    exact (list_subqueries_ok fe (Ds_ef _ _ Dfe)).
  - intros ls Hls. cbn [okg]. apply Kw. apply Forall_flat_map_intro. intros l Hl. rewrite Forall_forall in Hls. exact (parse_subquery_Ds s l (Hls l Hl)).
Qed.

Lemma list_subquery_D s : efn s = true -> okr (Forall (subD s)) (list_subquery s).
Proof.
  intros H. refine (okr_weaken _ _ _ _ (list_subquery_gen s H)).
  intros l Hl. rewrite Forall_forall in *. intros d Hd. destruct (Hl d Hd) as [K|[_ K]]; [exact (subDs_subD s d K)|exact K].
Qed.

Lemma list_subquery_set s : efn s = true -> tyis s "set_expression" = true -> okr (Forall (subDs s)) (list_subquery s).
Proof.
  intros H T. apply tyis_eq in T.
  assert (E : (tyis s "from_expression_element" || tyis s "bracketed") = false) by (unfold tyis; rewrite T; reflexivity).
  refine (okr_weaken _ _ _ _ (list_subquery_gen s H)).
  intros l Hl. rewrite Forall_forall in *. intros d Hd. destruct (Hl d Hd) as [K|[K0 _]]; [exact K|]. rewrite E in K0. discriminate K0.
Qed.

(* ================================================================== *)
(** * tables *)
Lemma ty_in_2_3 s : ty_in s ["table_reference"; "object_reference"] = true -> ty_in s ["table_reference"; "object_reference"; "file_reference"] = true.
Proof. unfold ty_in. cbn [mem_string]. intros H. apply orb_true_iff in H. destruct H as [->|H]; [reflexivity|]. apply orb_true_iff in H. destruct H as [->|H]; [apply orb_true_r|discriminate]. Qed.
Lemma ty_in_perm s : ty_in s ["table_reference"; "file_reference"; "object_reference"] = true -> ty_in s ["table_reference"; "object_reference"; "file_reference"] = true.
Proof. unfold ty_in. cbn [mem_string]. destruct (String.eqb (ty s) "table_reference"), (String.eqb (ty s) "file_reference"), (String.eqb (ty s) "object_reference"); auto. Qed.

Lemma find_table_ok e s : efn s = true -> okr (fun o : option dataset => forall d, o = Some d -> dk d = KTable) (find_table e s).
Proof.
  intros H. unfold find_table. destruct (ty_in s _) eqn:E; [|intros d K; discriminate K].
  apply (okr_bind _ _ _ _ (table_of_seg_ok e s None H (ty_in_2_3 s E))). intros t Ht d K. inversion K; subst. exact Ht.
Qed.

Lemma ktable_ok d : dk d = KTable -> ds_ok d.
Proof. intros H. apply ds_ok_notsubq. rewrite H. discriminate. Qed.

Lemma GI_opt_write g (o : option dataset) : GI g -> (forall d, o = Some d -> dk d = KTable) -> GI (match o with Some d => add_write g d | None => g end).
Proof. intros G K. destruct o as [d|]; [|exact G]. apply GI_add_write; [exact G|exact (ktable_ok d (K d eq_refl))]. Qed.

Lemma fold_last_in {A} (p : A -> bool) l : forall acc x, fold_left (fun acc c => if p c then Some c else acc) l acc = Some x -> acc = Some x \/ In x l.
Proof.
  induction l as [|c r IH]; intros acc x H; cbn [fold_left] in H; [left; exact H|].
  destruct (IH _ _ H) as [K|K]; [|right; right; exact K]. destruct (p c); [inversion K; right; left; reflexivity|left; exact K].
Qed.

Lemma add_dataset_from_fee_ok e s g : efn s = true -> is_type s ["from_expression_element"] = true -> GI g ->
  okr (Forall ds_ok) (add_dataset_from_fee e s g).
Proof.
  intros H T G. unfold add_dataset_from_fee. pose proof (L4 s H T) as K4. unfold fee_is_function_source in K4.
  set (all_segments := filter (fun x => negb (tyis x "keyword")) (list_child_segments s true)) in *.
  destruct (match get_child s ["table_expression"] with Some te => _ | None => false end); [constructor|]. cbn [orb] in K4.
  destruct all_segments as [|first rest] eqn:Eall; [discriminate K4|]. change (nth_res (first :: rest) 0) with (Ok first). cbv beta iota.
  destruct (tyis first "bracketed" && _); [constructor|].
  apply (okr_bind _ _ _ _ (list_subqueries_ok s H)). intros subqueries Hsq.
  destruct subqueries as [|sq0 sqr].
  2:{ cbn [okg]. apply (Forall_impl _ (subDs_ds_ok s)). apply parse_subquery_Ds. exact Hsq. }
  destruct (find_table_identifier s) as [ti|] eqn:Eti; [|constructor].
  destruct (D_find_ti s H ti Eti) as [Dti Tti].
  assert (Ka : okr TT (match rest with
                       | a :: _ => if tyis a "alias_expression" then
                                     match list_child_segments a true with
                                     | f0 :: x :: _ => if tyis f0 "alias_operator" || (tyis f0 "keyword" && String.eqb (raw_upper f0) "AS")
                                                     then Ok (Some (raw x)) else Ok (Some (raw f0))
                                   | [x] => Ok (Some (raw x)) | [] => Err EIndex end
                                   else Ok None
                       | _ => Ok None end)).
  { destruct rest as [|a rest']; [exact I|]. destruct (tyis a "alias_expression") eqn:Ea; [|exact I].
    assert (Da : Ds s a).
    { apply (Ds_lcs s true a H). assert (Hin : In a all_segments) by (rewrite Eall; right; left; reflexivity).
      unfold all_segments in Hin. apply filter_In in Hin. exact (proj1 Hin). }
    assert (La : list_child_segments a true <> []) by (apply (L2 a (Ds_ef _ _ Da)); rewrite Ea; reflexivity).
    destruct (list_child_segments a true) as [|x [|y r]]; [destruct (La eq_refl)|exact I|destruct (_ || _); exact I]. }
  apply (okr_bind TT _ _ _ Ka). intros alias _.
  destruct (if sexists is_dot (raw ti) then None else _) as [c|] eqn:Ecte.
  - destruct (sexists is_dot (raw ti)); [discriminate|].
    apply fold_last_in in Ecte. destruct Ecte as [Ecte|Hc]; [discriminate|].
    destruct (sq_cte_ok g c G Hc) as [_ Hq]. destruct (dquery c) as [q|]; [|destruct (Hq eq_refl)].
    cbn [okg]. constructor; [apply mk_subquery_ds_ok|constructor].
  - destruct (tyis ti "file_reference").
    + destruct (last_res_ok _ (L6 ti (D_ef _ _ Dti) (ty_in_perm ti Tti))) as (l & -> & _). cbn [okg]. constructor; [|constructor].
      apply ds_ok_notsubq. discriminate.
    + apply (okr_bind _ _ _ _ (table_of_seg_ok e ti alias (D_ef _ _ Dti) (ty_in_perm ti Tti))). intros t Ht. cbn [okg].
      constructor; [exact (ktable_ok t Ht)|constructor].
Qed.

Lemma list_tables_one_ok e s g : efn s = true -> GI g -> okr (Forall ds_ok) (list_tables_one e s g).
Proof.
  intros H G. unfold list_tables_one. destruct (find_from_expression_element s) as [fee|] eqn:E; [|constructor].
  destruct (D_find_fee s fee H E) as [Df Tf]. exact (add_dataset_from_fee_ok e fee g (D_ef _ _ Df) Tf G).
Qed.

Lemma list_tables_ok e s g : efn s = true -> GI g -> okr (Forall ds_ok) (list_tables e s g).
Proof.
  intros H G. unfold list_tables. destruct (ty_in s _); [|constructor].
  assert (Kmany : forall x l, efn x = true -> (forall fe, In fe l -> In fe (get_children x ["from_expression"])) ->
            okr (Forall ds_ok) (concat_res (map (fun fe => list_tables_one e fe g) l))).
  { intros x l Hx Hl. apply okr_concat_map. intros fe Hfe. apply list_tables_one_ok; [|exact G].
    exact (Ds_ef _ _ (Ds_get_children x _ fe Hx (Hl fe Hfe))). }
  destruct (get_children s ["from_expression"]) as [|fe1 [|fe2 rest]] eqn:Ec.
  3:{ apply (Kmany s _ H). rewrite Ec. intros fe Hfe; exact Hfe. }
  all: apply (okr_bind _ _ _ _ (list_tables_one_ok e s g H G)); intros first Hfirst;
    apply (okr_bind (Forall ds_ok));
    [apply okr_concat_map; intros jc Hjc; pose proof (D_ljc s jc H Hjc) as Djc;
     destruct (ty_in jc _); [|constructor];
     destruct (get_children jc ["from_expression"]) as [|f1 [|f2 rs]] eqn:Ej;
     [apply list_tables_one_ok; [exact (D_ef _ _ Djc)|exact G]
     |apply list_tables_one_ok; [exact (D_ef _ _ Djc)|exact G]
     |apply (Kmany jc _ (D_ef _ _ Djc)); rewrite Ej; intros fe Hfe; exact Hfe]
    |intros joins Hjoins; cbn [okg]; apply Forall_app; split; assumption].
Qed.

Lemma handle_swap_partition_ok e s g : GI g -> okr GI (handle_swap_partition e s g).
Proof.
  intros G. unfold handle_swap_partition.
  repeat match goal with
         | |- okg _ _ (if ?x then _ else _) => destruct x
         | |- okg _ _ (match ?x with Some _ => _ | None => _ end) => destruct x
         end; try exact G.
  apply (okr_bind _ _ _ _ (mk_table_ok e _ None None)). intros t0 H0.
  apply (okr_bind _ _ _ _ (mk_table_ok e _ None None)). intros t3 H3. cbn [okg].
  apply GI_add_write; [apply GI_add_read; [exact G|exact (ktable_ok _ H0)]|exact (ktable_ok _ H3)].
Qed.

Lemma handle_select_into_ok e s g : efn s = true -> GI g -> okr GI (handle_select_into e s g).
Proof.
  intros H G. unfold handle_select_into. destruct (ty_in s _); [|exact G].
  destruct (find_table_identifier s) as [i|] eqn:E; [|exact G]. destruct (D_find_ti s H i E) as [Di _].
  apply (okr_bind _ _ _ _ (find_table_ok e i (D_ef _ _ Di))). intros t Ht. cbn [okg]. exact (GI_opt_write g t G Ht).
Qed.

(** SqlFluffColumn.of builds a column without parents *)
Lemma column_of_seg_shape f e c x : column_of_seg f e c = Ok x -> cparents (xc x) = [].
Proof.
  unfold column_of_seg. intros H.
  repeat match type of H with
         | (if ?b then _ else _) = _ => destruct b
         | (match ?m with _ => _ end) = _ => destruct m; try discriminate H
         end; inversion H; reflexivity.
Qed.

Definition sel_ok (st : sel) : Prop := GI (s_g st) /\ Forall ds_ok (s_tables st) /\ xcols_ok (s_columns st).

Lemma column_of_seg_ok2 f e c : efn c = true -> depth c <= f -> okr (fun x => col_ok (xc x)) (column_of_seg f e c).
Proof.
  intros H Hd. pose proof (column_of_seg_ok f e c H Hd) as K. destruct (column_of_seg f e c) as [x|k] eqn:E; [|exact K].
  cbn [okg]. intros d Hin. rewrite (column_of_seg_shape f e c x E) in Hin. destruct Hin.
Qed.

Lemma handle_child_ok f e st s : efn s = true -> depth s <= S f -> sel_ok st -> okr sel_ok (handle_child f e st s).
Proof.
  intros H Hd (G & Ht & Hc). unfold handle_child.
  apply (okr_bind _ _ _ _ (handle_swap_partition_ok e s _ G)). intros g1 G1.
  apply (okr_bind _ _ _ _ (handle_select_into_ok e s g1 H G1)). intros g2 G2.
  apply (okr_bind _ _ _ _ (list_tables_ok e s g2 H G2)). intros ts Hts.
  apply (okr_bind (Forall (fun x => col_ok (xc x)))).
  - destruct (tyis s "select_clause"); [|constructor]. apply okr_map_res. intros c Hin.
    destruct (Ds_get_children s _ c H Hin) as [Ec Dc]. apply column_of_seg_ok2; [exact Ec|lia].
  - intros cols Hcols. cbn [okg]. split; [exact G2|]. cbn [s_tables s_columns]. split; [apply Forall_app; split; assumption|].
    intros x Hx. apply in_app_or in Hx. rewrite Forall_forall in Hcols. destruct Hx as [Hx|Hx]; [exact (Hc x Hx)|exact (Hcols x Hx)].
Qed.

Lemma efn_nw_local s : efn s = true -> nw_local s = true.
Proof. rewrite efn_eq. intros H. apply andb_true_iff in H. destruct H as [_ H]. apply andb_true_iff in H. exact (proj1 H). Qed.
End N.

Lemma efn_spec : forall s, N.efn s = escape_free s && nw s.
Proof.
  induction s as [t g c r w cm mt ch IH] using seg_ind'. cbn [N.efn escape_free nw].
  assert (E : forallb N.efn ch = forallb escape_free ch && forallb nw ch).
  { induction IH as [|x l Hx _ IHl]; [reflexivity|]. cbn [forallb]. rewrite Hx, IHl.
    destruct (escape_free x), (nw x), (forallb escape_free l), (forallb nw l); reflexivity. }
  rewrite E. destruct (local_ok _), (nw_local _), (forallb escape_free ch), (forallb nw ch); reflexivity.
Qed.
