(** Derived tables inside SCRIPTS (C04 on the tree model): tests, the defect K-C04-3 as a counterexample, the weakest
    executable guard found, the hypotheses of the composition theorem on derived-table holders, and the target statement.
    NO script-level theorem is proved here (see the summary at the end). *)
From Coq Require Import Permutation.
From SV Require Import Tree.Render Tree.LemmaA Tree.LemmaAProofs Tree.LemmaB Tree.LemmaBProofs Tree.LemmaB5cPaths Tree.LemmaB5c Tree.LemmaB5c2 Tree.LemmaB5c3
     Tree.ScriptExact Ident.Escape.
From SV Require Holder.CompDefs Holder.Composition.
Import ScriptExact.Tests.
Open Scope string_scope.
Open Scope list_scope.

(** ** statements with derived tables (depth 1) whose references are resolved at statement level *)
Definition inner_resolved (r : rel) : bool :=
  match r with
  | RDerived (QSelect items' from' _ None) _ =>
      match from' with [_] => true | _ => forallb (fun i => match snd (item_ref i) with Some _ => true | None => false end) items' end
  | _ => true
  end.
Definition derived_stmt_ok (noise : list seg) (s : Spec.stmt) : bool :=
  stmt_ok s && sshape s && colshape s && derived_flat_shape_u noise s
  && match stmt_query s with Some (QSelect _ from _ _) => forallb inner_resolved from | _ => false end.

(** the source columns read inside a derived table whose sub-query column the outer query does not select (dead ends) *)
Definition dead_srcs (ds : string) (s : Spec.stmt) : list vtx :=
  match stmt_query s with
  | Some (QSelect items from _ None as q) =>
      flat_map (fun r => match r with
                         | RDerived q' a =>
                             flat_map (fun cs : colspec =>
                                         if existsb (fun i => String.eqb (fst (item_ref i)) (fst cs)
                                                              && match snd (item_ref i) with Some qn => String.eqb qn a | None => true end) items
                                         then [] else flat_map src_vtx (snd cs))
                                      (q_cols (q_size q) ds [] q')
                         | _ => [] end) from
  | _ => []
  end.
(** K-C04-3 guard: no dead-end source column is written by a statement of the script *)
Definition no_fed_dead_end (ds : string) (ss : list Spec.stmt) : bool :=
  forallb (fun v => negb (memv v (map snd (script_edges ds ss)))) (flat_map (dead_srcs ds) ss).

Definition script_check_d (noise : list seg) (e : env) (ss : list Spec.stmt) : string :=
  if negb (noise_ok noise && env_ok e && forallb (fun s => core_ok s || derived_stmt_ok noise s) ss && no_fed_dead_end (e_cfg e) ss) then "outside"
  else if list_eqb (script_pairs e false [] (map (r_stmt noise) ss)) (spec_script_pairs (e_cfg e) ss) then "holds" else "FAILS".

Definition dv (q : query) (a : string) := RDerived q a.
Definition scripts_d : list (list Spec.stmt) :=
 [ (* 1 a derived-table statement fed by a plain one *)
   [ins "b" (sel [c_ "x"] [T "a"]); ins "c" (sel [qc "d" "x"] [dv (sel [c_ "x"] [T "b"]) "d"])];
   (* 2 ... feeding a plain one *)
   [ins "c" (sel [qc "d" "x"] [dv (sel [c_ "x"] [T "b"]) "d"]); ins "e" (sel [c_ "x"] [T "c"])];
   (* 3 a dead end inside the derived table whose source column nobody writes *)
   [ins "c" (sel [qc "d" "x"] [dv (sel [c_ "x"; c_ "y"] [T "b"]) "d"]); ins "e" (sel [c_ "x"] [T "c"])];
   (* 4 two derived-table statements chained *)
   [ins "c" (sel [qc "d" "x"] [dv (sel [c_ "x"] [T "b"]) "d"]); ins "e" (sel [qc "d" "x"] [dv (sel [c_ "x"] [T "c"]) "d"])];
   (* 5 the same sub-query text in two statements (one SubQuery node in the script graph) *)
   [ins "c" (sel [qc "d" "x"] [dv (sel [c_ "x"] [T "b"]) "d"]); ins "e" (sel [qca "d" "x" "z"] [dv (sel [c_ "x"] [T "b"]) "d"])];
   (* 6 the same text under different aliases *)
   [ins "c" (sel [qc "d" "x"] [dv (sel [c_ "x"] [T "b"]) "d"]); ins "e" (sel [qc "f" "x"] [dv (sel [c_ "x"] [T "b"]) "f"])];
   (* 7 the same alias for different sub-queries with the same column name *)
   [ins "c" (sel [qc "d" "x"] [dv (sel [c_ "x"] [T "b"]) "d"]); ins "e" (sel [qc "d" "x"] [dv (sel [c_ "x"] [T "g"]) "d"])];
   (* 8 flat: derived + base table, between two plain statements *)
   [ins "b" (sel [c_ "x"] [T "a"]); ins "c" (selc [qc "d" "x"; qc "w" "y"] [dv (sel [c_ "x"] [T "b"]) "d"; T "w"]); ins "e" (sel [c_ "x"; c_ "y"] [T "c"])];
   (* 9 a cycle through a derived-table statement *)
   [ins "b" (sel [qc "d" "x"] [dv (sel [c_ "x"] [T "a"]) "d"]); ins "a" (sel [c_ "x"] [T "b"])];
   (* 10 renaming inside and outside *)
   [ins "b" (sel [c_ "x"] [T "a"]); ins "c" (sel [qca "d" "k" "z"] [dv (sel [ca "x" "k"] [T "b"]) "d"]); ins "e" (sel [c_ "z"] [T "c"])];
   (* 11 a dead end, and the dead column read by another statement *)
   [ins "c" (sel [qc "d" "x"] [dv (sel [c_ "x"; c_ "y"] [T "b"]) "d"]); ins "e" (sel [c_ "y"] [T "b"])]
 ].

Example scripts_d_hold :
  map (script_check_d [ws] e1) scripts_d = map (fun _ => "holds") scripts_d /\
  map (script_check_d [ws; cm] e0) scripts_d = map (fun _ => "holds") scripts_d.
Proof. vm_compute. split; reflexivity. Qed.

(** the statement holders of these scripts satisfy the hypotheses of the composition theorem ([Composition.c04_hyps]:
    plain, resolved, column-well-formed; sub-query nodes are allowed) *)
Definition c04_hyps_of (noise : list seg) (e : env) (ss : list Spec.stmt) : bool :=
  match map_res (analyze e false) (map (r_stmt noise) ss) with
  | Ok Gs => Composition.c04_hyps (map holder_of Gs)
  | Err _ => false
  end.
Example scripts_d_c04_hyps : forallb (c04_hyps_of [ws] e1) scripts_d = true.
Proof. vm_compute. reflexivity. Qed.
(** ... but not when an inner reference is unresolved (as for plain statements: K-C04-1) *)
Example unresolved_inner_not_resolved :
  c04_hyps_of [ws] e1 [ins "c" (sel [qc "d" "k"] [dv (selc [ca "x" "k"] [T "a"; T "b"]) "d"])] = false.
Proof. vm_compute. reflexivity. Qed.

(** ** K-C04-3: a dead end inside a sub-query hides the intermediate column.
      insert into b select x, y from a;   insert into c select d.x from (select x, y from b) as d
    b.y feeds the sub-query column d.y, which nothing reads: in the script graph b.y is not a leaf (it has the edge to
    d.y) and d.y is a leaf that no table owns, so the chain a.y > b.y is not reported; the specification reports it.
    Each statement on its own satisfies Lemma B's guards (and [lemma_B_one_derived_colshape] applies to the second). *)
Definition cxS5c_deadend : list Spec.stmt :=
  [ins "b" (sel [c_ "x"; c_ "y"] [T "a"]); ins "c" (sel [qc "d" "x"] [dv (sel [c_ "x"; c_ "y"] [T "b"]) "d"])].
Lemma cxS5c_deadend_fails :
  forallb (fun s => core_ok s || derived_stmt_ok [ws] s) cxS5c_deadend = true /\
  script_pairs e1 false [] (map (r_stmt [ws]) cxS5c_deadend) = ["main.a.x>main.c.x"] /\
  spec_script_pairs (e_cfg e1) cxS5c_deadend = ["main.a.x>main.c.x"; "main.a.y>main.b.y"] /\
  no_fed_dead_end (e_cfg e1) cxS5c_deadend = false /\ script_check_d [ws] e1 cxS5c_deadend = "outside".
Proof. vm_compute. repeat split. Qed.

(** the unguarded script statement is false *)
Theorem script_exact_derived_unguarded_refuted :
  ~ (forall noise e ss, noise_ok noise = true -> env_ok e = true ->
       forallb (fun s => core_ok s || derived_stmt_ok noise s) ss = true ->
       script_pairs e false [] (map (r_stmt noise) ss) = spec_script_pairs (e_cfg e) ss).
Proof.
  intros H. specialize (H [ws] e1 cxS5c_deadend).
  assert (E : script_pairs e1 false [] (map (r_stmt [ws]) cxS5c_deadend) = spec_script_pairs (e_cfg e1) cxS5c_deadend) by (apply H; vm_compute; reflexivity).
  vm_compute in E. discriminate E.
Qed.
Print Assumptions script_exact_derived_unguarded_refuted.

(** ** the target (OPEN): *)
Definition script_exact_on_core_derived_statement : Prop :=
  forall noise e ss, noise_ok noise = true -> env_ok e = true ->
    forallb (fun s => core_ok s || derived_stmt_ok noise s) ss = true -> no_fed_dead_end (e_cfg e) ss = true ->
    script_pairs e false [] (map (r_stmt noise) ss) = spec_script_pairs (e_cfg e) ss.

(** SUMMARY.  Tested: 11 scripts mixing plain and derived-table statements hold under the guard, for two environments and
    trivia lists; their holders satisfy [c04_hyps], so [Composition.c04_main] applies to them.  K-C04-3 shows up as
    FAILS ([cxS5c_deadend]); [no_fed_dead_end] is the weakest executable repair found (dead ends whose source column no
    statement writes are harmless: scripts 3 and 11).
    Missing for the proof: [ScriptExact.edges_match] / [lineage_match] are stated for edges between TABLE columns
    ([nu] of a (table, column) pair).  With a derived table the holder's column edges are  FI ++ FO  of
    [LemmaB5c2.holder_flat] (through sub-query columns); needed is (1) [edges_match] and [lineage_match] over a vertex
    type with sub-query columns (table-owned leaves only, as in [LemmaB5cPaths.lineage_of_ranked]), (2) per statement:
    table-to-table reachability through the sub-query layer = [stmt_edges] ([compose_flows_e2e] gives this for one
    holder), and (3) under [no_fed_dead_end], root/leaf status of table columns is the same in both edge sets. *)
