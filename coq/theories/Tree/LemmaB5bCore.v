(** Lemma B, step 5b: the holder of a UNION of two SELECTs over base tables (model side).
    Part G  the alias mapping of a table group inside a holder that also knows the tables of the other branch
    Part F  the cleanup of one group: own write columns (tracking the out-edges of the target exactly), given write columns
    Part T  the cleanup with one barrier = two groups     Part R  the holder realises the flows of both branches *)
From Coq Require Import Permutation.
From SV Require Import Tree.Render Tree.LemmaA Tree.LemmaAProofs Tree.LemmaB Tree.LemmaBProofs Tree.LemmaB5bDefs
     Ident.Escape Ident.EscapeProofs Holder.PathProofs Holder.SortProofs.

(* ================================================================== *)
(** * Part G: alias mapping of a group [grp] of the tables [ts] of the holder *)
Definition sub_grp (grp ts : list dataset) : Prop := forall v, In v grp -> In v ts.

Lemma alias_edge_literal_g (PC : column -> Prop) d ts grp g e x a :
  group_ok d ts -> sub_grp grp ts -> lits_in (QK (d :: ts) PC) g -> edges_inv ts g ->
  In e (gedges g) -> fst e = (NData x, NStr a) -> memd x grp = true -> In x grp /\ a = dalias x.
Proof.
  intros Hgo Hsub Hl Hei He Hf Hm. specialize (Hei e He). unfold edge_inv in Hei. rewrite Hf in Hei. cbn [fst snd] in Hei.
  destruct Hei as [_ (src & v & E1 & E2 & E3 & E4)]. inversion E1. subst src.
  destruct (proj2 Hl e He) as [Hq _]. rewrite Hf in Hq. cbn [fst QK] in Hq. destruct Hq as [<-|Hx].
  - exfalso. rewrite (go_target _ _ Hgo v E3) in E2. discriminate.
  - assert (v = x) by (apply (go_distinct _ _ Hgo); assumption). subst v.
    apply memd_In_eqb in Hm. destruct Hm as (w & Hw & Ew).
    assert (x = w) by (apply (go_distinct _ _ Hgo); [exact Hx|apply Hsub; exact Hw|exact Ew]). subst w. auto.
Qed.

Lemma grp_tables d ts grp : group_ok d ts -> sub_grp grp ts -> forall v, In v grp -> dk v = KTable.
Proof. intros Hgo Hsub v Hv. apply (go_tables _ _ Hgo). apply Hsub. exact Hv. Qed.

Lemma am_sound_g (PC : column -> Prop) d ts grp g q v :
  group_ok d ts -> sub_grp grp ts -> lits_in (QK (d :: ts) PC) g -> edges_inv ts g ->
  assoc_list q (get_alias_mapping g grp) = Some v -> In v grp /\ (dalias v = q \/ draw v = q \/ dstr v = q).
Proof.
  intros Hgo Hsub Hl Hei H. rewrite get_alias_mapping_eq in H. cbv zeta in H. rewrite (filter_tables grp (grp_tables d ts grp Hgo Hsub)) in H.
  apply fold_tables_sound in H. destruct H as [[H1 H2]|H]; [auto|].
  apply fold_tables_sound in H. destruct H as [[H1 H2]|H]; [auto|].
  apply alias_fold_sound in H. destruct H as [(e & He & Ht & Hf & Hm)|H]; [|discriminate].
  apply edges_nx_In in He. destruct (alias_edge_literal_g PC d ts grp g e v q Hgo Hsub Hl Hei He Hf Hm) as [K1 K2]. auto.
Qed.

Lemma am_values_g (PC : column -> Prop) d ts grp g x :
  group_ok d ts -> sub_grp grp ts -> lits_in (QK (d :: ts) PC) g -> edges_inv ts g ->
  In x (map snd (get_alias_mapping g grp)) -> In x grp.
Proof.
  intros Hgo Hsub Hl Hei H. rewrite get_alias_mapping_eq in H. cbv zeta in H. rewrite (filter_tables grp (grp_tables d ts grp Hgo Hsub)) in H.
  apply fold_tables_values in H. destruct H as [H|H]; [exact H|].
  apply fold_tables_values in H. destruct H as [H|H]; [exact H|].
  apply alias_fold_values in H. destruct H as [(e & a & He & Ht & Hf & Hm)|H]; [|destruct H].
  apply edges_nx_In in He. exact (proj1 (alias_edge_literal_g PC d ts grp g e x a Hgo Hsub Hl Hei He Hf Hm)).
Qed.

Lemma am_complete_alias_g d ts grp g v :
  group_ok d ts -> sub_grp grp ts -> edges_inv ts g -> In v grp ->
  has_edge g (NData v) (NStr (dalias v)) = true -> has_node g (NData v) = true ->
  is_some (assoc_list (dalias v) (get_alias_mapping g grp)) = true.
Proof.
  intros Hgo Hsub Hei Hv He Hn. rewrite get_alias_mapping_eq. cbv zeta. rewrite (filter_tables grp (grp_tables d ts grp Hgo Hsub)).
  apply fold_tables_mono. apply fold_tables_mono.
  apply has_edge_In in He. destruct He as (e & He & E1 & E2). apply eqb_shape_str in E2.
  pose proof (Hei e He) as Hi. unfold edge_inv in Hi. rewrite E2 in Hi. destruct Hi as [Ht (src & w & F1 & F2 & F3 & F4)].
  apply (alias_fold_complete grp (edges_nx g) [] e src (dalias v)).
  - apply edges_nx_complete; [exact He|]. unfold has_node in *. rewrite <- (has_node_l_cong _ _ _ E1). exact Hn.
  - exact Ht.
  - destruct e as [[u y] a]. cbn [fst snd] in *. subst u y. reflexivity.
  - rewrite F1 in E1. cbn [node_eqb] in E1. unfold memd. apply existsb_exists. exists v. split; [exact Hv|].
    apply dataset_eqb_true_sym. exact E1.
Qed.

Lemma am_lookup_g (PC : column -> Prop) d ts grp g q v :
  group_ok d ts -> sub_grp grp ts -> sel_inv PC d ts g -> In v grp -> dalias v = q ->
  (forall w, In w grp -> (dalias w = q \/ draw w = q \/ dstr w = q) -> w = v) ->
  assoc_list q (get_alias_mapping g grp) = Some v.
Proof.
  intros Hgo Hsub Hinv Hv Hq Hu. subst q.
  pose proof (am_complete_alias_g d ts grp g v Hgo Hsub (si_edges _ _ _ _ Hinv) Hv (proj1 (si_alias _ _ _ _ Hinv v (Hsub v Hv)))
                (proj2 (si_alias _ _ _ _ Hinv v (Hsub v Hv)))) as Hs.
  destruct (assoc_list (dalias v) (get_alias_mapping g grp)) as [w|] eqn:E; [|discriminate].
  destruct (am_sound_g PC d ts grp g _ w Hgo Hsub (si_lits _ _ _ _ Hinv) (si_edges _ _ _ _ Hinv) E) as [Hin Hor].
  rewrite (Hu w Hin Hor). reflexivity.
Qed.

Lemma am_values_single_g (PC : column -> Prop) d ts d1 g :
  group_ok d ts -> sub_grp [d1] ts -> sel_inv PC d ts g -> dedup_ds (map snd (get_alias_mapping g [d1])) [] = [d1].
Proof.
  intros Hgo Hsub Hinv. apply dedup_all_same.
  - pose proof (am_complete_alias_g d ts [d1] g d1 Hgo Hsub (si_edges _ _ _ _ Hinv) (or_introl eq_refl)
                  (proj1 (si_alias _ _ _ _ Hinv d1 (Hsub d1 (or_introl eq_refl)))) (proj2 (si_alias _ _ _ _ Hinv d1 (Hsub d1 (or_introl eq_refl))))) as Hs.
    destruct (get_alias_mapping g [d1]); [discriminate Hs|discriminate].
  - intros x Hx. destruct (am_values_g PC d ts [d1] g x Hgo Hsub (si_lits _ _ _ _ Hinv) (si_edges _ _ _ _ Hinv) Hx) as [H|[]]. auto.
Qed.

Lemma am_covers_g (PC : column -> Prop) d ts grp g v :
  group_ok d ts -> sub_grp grp ts -> ts_inj grp -> names_nodot grp -> sel_inv PC d ts g -> In v grp ->
  In v (map snd (get_alias_mapping g grp)).
Proof.
  intros Hgo Hsub Hinj Hnd Hinv Hv.
  assert (Hs : is_some (assoc_list (dstr v) (get_alias_mapping g grp)) = true).
  { rewrite get_alias_mapping_eq. cbv zeta. rewrite (filter_tables grp (grp_tables d ts grp Hgo Hsub)). apply fold_tables_complete. exact Hv. }
  destruct (assoc_list (dstr v) (get_alias_mapping g grp)) as [w|] eqn:E; [|discriminate].
  destruct (am_sound_g PC d ts grp g _ w Hgo Hsub (si_lits _ _ _ _ Hinv) (si_edges _ _ _ _ Hinv) E) as [Hw Hor].
  apply assoc_list_In in E. destruct (Hnd v w Hv Hw) as [N1 N2].
  destruct Hor as [K|[K|K]]; [contradiction|contradiction|]. rewrite <- (proj2 Hinj w v Hw Hv K). exact E.
Qed.

Lemma HS_of_g (PC : column -> Prop) e d ts grp g x :
  group_ok d ts -> sub_grp grp ts -> ts_inj grp -> names_nodot grp -> sel_inv PC d ts g -> xref_ok grp x ->
  to_source_columns e x (get_alias_mapping g grp) = Ok (S_of grp x).
Proof.
  intros Hgo Hsub Hinj Hnd Hinv (_ & c & qq & Hx & Hc & Hq). unfold S_of. rewrite Hx. destruct qq as [q|].
  - destruct Hq as (v & Hv & Eq & Hu). rewrite (find_dalias grp q v Hv Eq (fun w Hw E => Hu w Hw (or_introl E))).
    apply (tsc_qualified e x _ c q v); [exact Hx|exact Hc|]. apply (am_lookup_g PC d ts grp g q v); assumption.
  - destruct Hq as [(d1 & ->)|[Hm Hs]].
    + apply tsc_unq_single; [exact Hx|exact Hc|]. apply (am_values_single_g PC d ts d1 g); assumption.
    + rewrite (multi_not_single grp _ _ _ Hm). apply tsc_unresolved; [exact Hx|exact Hc|exact Hs|exact Hinj| |].
      * intros v Hv. apply (am_values_g PC d ts grp g v Hgo Hsub (si_lits _ _ _ _ Hinv) (si_edges _ _ _ _ Hinv) Hv).
      * intros v Hv. apply (am_covers_g PC d ts grp g v); assumption.
Qed.

(* ================================================================== *)
(** * Part F: the cleanup of one table group of a holder over [ts] *)

(** a lineage edge into an existing write column leaves the out-edges of the target as they are (any attributes
    that an update by [has_column, no index] does not change) *)
Lemma acl_oed_g d (O : list (Graph.node * Graph.node * eattrs)) g src c g' :
  add_column_lineage g src (Wcol d c) = Ok g' -> out_edges g (NData d) = O ->
  (forall e, In e O -> eattr_update (snd e) (e_has_column None) = snd e) ->
  (exists e, In e O /\ fst e = (NData d, NCol (Wcol d c))) ->
  (forall p, In p (cparents src) -> dataset_eqb p d = false) ->
  out_edges g' (NData d) = O.
Proof.
  intros E Ho HO Hc Hp. unfold add_column_lineage in E. cbn [col_parent Wcol cparents] in E.
  set (g1 := add_edge g (NCol src) (NCol (Wcol d c)) lineage_edge) in *.
  set (g2 := add_edge g1 (NData d) (NCol (Wcol d c)) (e_has_column None)) in *.
  assert (O1 : out_edges g1 (NData d) = O) by (unfold g1; rewrite out_edges_add_edge_other; [exact Ho|reflexivity]).
  assert (O2 : out_edges g2 (NData d) = O).
  { unfold out_edges, g2. rewrite gedges_add_edge_same; [exact O1| |].
    - intros e He Ee. assert (Hin : In e (out_edges g1 (NData d))).
      { unfold out_edges. apply filter_In. split; [exact He|]. unfold edge_is in Ee. apply andb_true_iff in Ee. exact (proj1 Ee). }
      rewrite O1 in Hin. apply HO. exact Hin.
    - destruct Hc as (e0 & He0 & Ef). rewrite <- O1 in He0. unfold out_edges in He0. apply filter_In in He0.
      apply has_edge_In. exists e0. split; [exact (proj1 He0)|]. rewrite Ef. cbn [fst snd]. rewrite !node_eqb_refl. auto. }
  destruct (col_parent src) as [sp|] eqn:Es; inversion E; subst g'; [|exact O2].
  rewrite out_edges_add_edge_other; [exact O2|]. cbn [node_eqb]. rewrite dataset_eqb_sym. apply Hp.
  rewrite (col_parent_some _ _ Es). left. reflexivity.
Qed.

(** the out-edges of the target after the first branch of a set operation: one [has_column] edge per own column, in order *)
Definition OEn (d : dataset) (cs : list string) : list (Graph.node * Graph.node * eattrs) :=
  map (fun c => (NData d, NCol (Wcol d c), e_has_column None)) cs.

Definition wcol_lit (d : dataset) (PC : column -> Prop) : Prop :=
  forall c nm, PC c -> col_eqb (Wcol d nm) c = true -> c = Wcol d nm.

Lemma acl_out_new (PC : column -> Prop) d ts g s nm done g' :
  group_ok d ts -> dk d = KTable -> lits_in (QK (d :: ts) PC) g -> PC (Wcol d nm) -> PC s -> wcol_lit d PC ->
  (forall p, In p (cparents s) -> In p ts) ->
  add_column_lineage g s (Wcol d nm) = Ok g' ->
  out_edges g (NData d) = OEn d done -> ~ In nm done ->
  out_edges g' (NData d) = OEn d (done ++ [nm]).
Proof.
  intros Hgo Hd Hl Hw Hs HPW Hps E Ho Hnm. unfold add_column_lineage in E. change (col_parent (Wcol d nm)) with (Some d) in E. cbv iota in E.
  set (tgt := Wcol d nm) in *.
  set (g1 := add_edge g (NCol s) (NCol tgt) lineage_edge) in *.
  set (g2 := add_edge g1 (NData d) (NCol tgt) (e_has_column None)) in *.
  assert (L1 : lits_in (QK (d :: ts) PC) g1) by (apply lits_add_edge; assumption).
  assert (O1 : out_edges g1 (NData d) = OEn d done) by (unfold g1; rewrite out_edges_add_edge_other; [exact Ho|reflexivity]).
  assert (O2 : out_edges g2 (NData d) = OEn d (done ++ [nm])).
  { unfold g2, add_edge, out_edges. cbn [gedges gnodes add_node].
    set (ns := upsert_node (NCol tgt) [] (upsert_node (NData d) [] (gnodes g1))).
    assert (Ln : lits_in (QK (d :: ts) PC) (add_node (add_node g1 (NData d) []) (NCol tgt) [])).
    { apply lits_add_node; [apply lits_add_node; [exact L1|left; reflexivity]|exact Hw]. }
    assert (C1 : canon_l (NData d) ns = NData d).
    { pose proof (canon_eqb (NData d) ns) as Ee.
      destruct (canon_cases (NData d) ns) as [K|K]; [exact K|].
      pose proof (proj1 Ln _ K) as Q. destruct (canon_l (NData d) ns) as [x| |]; cbn [node_eqb] in Ee; try discriminate.
      cbn [QK] in Q. destruct Q as [<-|Q]; [reflexivity|]. rewrite dataset_eqb_sym, (go_target _ _ Hgo x Q) in Ee. discriminate. }
    assert (C2 : canon_l (NCol tgt) ns = NCol tgt).
    { pose proof (canon_eqb (NCol tgt) ns) as Ee.
      destruct (canon_cases (NCol tgt) ns) as [K|K]; [exact K|].
      pose proof (proj1 Ln _ K) as Q. destruct (canon_l (NCol tgt) ns) as [|c'|]; cbn [node_eqb] in Ee; try discriminate.
      cbn [QK] in Q. rewrite (HPW c' nm Q Ee). reflexivity. }
    rewrite C1, C2, upsert_edge_fresh.
    - rewrite filter_app. fold (out_edges g1 (NData d)). rewrite O1. cbn [filter fst]. rewrite node_eqb_refl. unfold OEn. rewrite map_app. reflexivity.
    - destruct (has_edge_l (NData d) (NCol tgt) (gedges g1)) eqn:Eh; [|reflexivity]. exfalso.
      change (has_edge g1 (NData d) (NCol tgt) = true) in Eh. apply has_edge_In in Eh. destruct Eh as (e0 & He0 & E1 & E2).
      assert (Hin : In e0 (out_edges g1 (NData d))) by (unfold out_edges; apply filter_In; auto).
      rewrite O1 in Hin. unfold OEn in Hin. apply in_map_iff in Hin. destruct Hin as (c & <- & Hc). cbn [fst snd node_eqb] in E2.
      apply Hnm. rewrite (Wcol_eqb d nm c Hd E2). exact Hc. }
  destruct (col_parent s) as [sp|] eqn:Es; inversion E; subst g'; [|exact O2].
  rewrite out_edges_add_edge_other; [exact O2|]. cbn [node_eqb]. rewrite dataset_eqb_sym. apply (go_target _ _ Hgo). apply Hps.
  rewrite (col_parent_some _ _ Es). left. reflexivity.
Qed.

Lemma write_columns_OEn g d cs :
  sq_write g = [d] -> memd d (sq_read g) = false -> out_edges g (NData d) = OEn d cs -> write_columns g = map (Wcol d) cs.
Proof.
  intros Hw Hr Ho. unfold write_columns, get_target_table. rewrite Hw. cbn [filter]. rewrite Hr. cbn [negb]. rewrite Ho.
  assert (E : flat_map (fun e : Graph.node * Graph.node * eattrs =>
                          if String.eqb (etype (snd e)) "has_column"
                          then match snd (fst e) with
                               | NCol c => [(c, match eindex (snd e) with Some i => i | None => 0 end)]
                               | _ => []
                               end
                          else []) (OEn d cs) = map (fun c => (Wcol d c, 0)) cs).
  { clear. unfold OEn. induction cs as [|c r IH]; [reflexivity|]. cbn [map flat_map]. rewrite IH. reflexivity. }
  rewrite E, sort_by_idx_inc.
  - rewrite map_map. reflexivity.
  - clear. induction cs as [|c r IH]; [exact I|]. cbn [map pw]. split; [|exact IH].
    intros y Hy. apply in_map_iff in Hy. destruct Hy as (c' & <- & _). cbn [snd]. lia.
Qed.

Definition xname (x : xcol) : string := craw (xc x).
Definition wpairs (d : dataset) (l : list xcol) (cs : list string) : list (xcol * column) := combine l (map (Wcol d) cs).

Lemma eoq_fold_own_g (PC : column -> Prop) e d ts grp cols (S : xcol -> list column) :
  group_ok d ts -> sub_grp grp ts -> dk d = KTable -> wcol_lit d PC ->
  (forall g2, sel_inv PC d ts g2 -> forall x, In x cols -> to_source_columns e x (get_alias_mapping g2 grp) = Ok (S x)) ->
  (forall x, In x cols -> cparents (xc x) = [] /\ PC (Wcol d (xname x)) /\ (exists s, S x = [s]) /\
                          forall s, In s (S x) -> PC s /\ forall p, In p (cparents s) -> In p ts) ->
  NoDup (map xname cols) ->
  forall l done g2,
    cols = done ++ l -> sel_inv PC d ts g2 -> sq_write g2 = [d] ->
    out_edges g2 (NData d) = OEn d (map xname done) ->
    exists g', fst (fold_left (fun acc2 x => let '(rg, idx) := acc2 in
                                  (do g2 <- rg; eoq_step e grp (List.length cols) d g2 idx x, Datatypes.S idx)) l (Ok g2, List.length done)) = Ok g' /\
               ext g2 g' (sel_edges d S (wpairs d l (map xname l))) /\ sel_inv PC d ts g' /\
               (forall k, holder_nodes g' k = holder_nodes g2 k) /\ out_edges g' (NData d) = OEn d (map xname cols).
Proof.
  intros Hgo Hsub Hd HPW HS HX Hnd. induction l as [|x r IH]; intros done g2 Hc Hinv Hw Ho; cbn [fold_left].
  - exists g2. split; [reflexivity|]. split; [apply ext_refl|]. split; [exact Hinv|]. split; [reflexivity|].
    rewrite Hc, app_nil_r. exact Ho.
  - assert (Hxin : In x cols) by (rewrite Hc; apply in_app_iff; right; left; reflexivity).
    destruct (HX x Hxin) as (Hx1 & Hx0 & (s & Es) & Hx3).
    assert (Hlen : List.length done < List.length cols) by (rewrite Hc, app_length; cbn [List.length]; lia).
    assert (Hnew : ~ In (xname x) (map xname done)).
    { rewrite Hc, map_app in Hnd. cbn [map] in Hnd. apply NoDup_remove_2 in Hnd. intros K. apply Hnd. apply in_app_iff. left. exact K. }
    assert (Estep : eoq_step e grp (List.length cols) d g2 (List.length done) x = add_column_lineage g2 s (Wcol d (xname x))).
    { unfold eoq_step. rewrite (HS g2 Hinv x Hxin), Es.
      pose proof (write_columns_len g2 d Hw) as Hwl. rewrite Ho in Hwl. unfold OEn in Hwl. rewrite !map_length in Hwl.
      replace (Nat.eqb (List.length (write_columns g2)) (List.length cols)) with false by (symmetry; apply Nat.eqb_neq; lia).
      cbv zeta. cbn [fold_left]. fold (own_col d x). rewrite (own_col_eq d x Hx1). reflexivity. }
    rewrite Estep.
    destruct (acl_ok PC d ts g2 s (Wcol d (xname x)) Hgo eq_refl Hx0 (proj1 (Hx3 s ltac:(rewrite Es; left; reflexivity)))
                (proj2 (Hx3 s ltac:(rewrite Es; left; reflexivity))) (si_lits _ _ _ _ Hinv) (si_edges _ _ _ _ Hinv))
      as (g3 & E3 & X3 & L3 & I3 & T3 & _ & D3).
    rewrite E3.
    assert (O3 : out_edges g3 (NData d) = OEn d (map xname (done ++ [x]))).
    { rewrite map_app. cbn [map].
      apply (acl_out_new PC d ts g2 s (xname x) (map xname done) g3 Hgo Hd (si_lits _ _ _ _ Hinv) Hx0
               (proj1 (Hx3 s ltac:(rewrite Es; left; reflexivity))) HPW (proj2 (Hx3 s ltac:(rewrite Es; left; reflexivity))) E3 Ho Hnew). }
    assert (Hinv3 : sel_inv PC d ts g3) by (apply (sel_inv_ext PC d ts g2 g3 _ Hinv X3 L3 I3 (D3 (si_drop _ _ _ _ Hinv)))).
    assert (Hw3 : sq_write g3 = [d]) by (unfold sq_write; rewrite T3; exact Hw).
    replace (Datatypes.S (List.length done)) with (List.length (done ++ [x])) by (rewrite app_length; cbn [List.length]; lia).
    destruct (IH (done ++ [x]) g3 ltac:(rewrite <- app_assoc; exact Hc) Hinv3 Hw3 O3) as (g' & E' & X' & Hinv' & T' & O').
    exists g'. split; [exact E'|]. split.
    + unfold wpairs, sel_edges. cbn [map combine flat_map fst snd]. rewrite Es. cbn [flat_map]. rewrite app_nil_r.
      apply (ext_trans g2 g3 g' _ _ X3). exact X'.
    + split; [exact Hinv'|]. split; [intros k; rewrite T', T3; reflexivity|exact O'].
Qed.

(** the cleanup when the write columns are given (INSERT column list, or the columns the first branch created) *)
Lemma eoq_fold_given_g (PC : column -> Prop) e d ts grp cs (O : list (Graph.node * Graph.node * eattrs)) cols (S : xcol -> list column) :
  group_ok d ts -> sub_grp grp ts -> dk d = KTable -> List.length cols = List.length cs ->
  (forall g, sq_write g = [d] -> memd d (sq_read g) = false -> out_edges g (NData d) = O -> write_columns g = map (Wcol d) cs) ->
  (forall e0, In e0 O -> eattr_update (snd e0) (e_has_column None) = snd e0) ->
  (forall c, In c cs -> exists e0, In e0 O /\ fst e0 = (NData d, NCol (Wcol d c))) ->
  (forall g2, sel_inv PC d ts g2 -> forall x, In x cols -> to_source_columns e x (get_alias_mapping g2 grp) = Ok (S x)) ->
  (forall x, In x cols -> (exists s, S x = [s]) /\ forall s, In s (S x) -> PC s /\ forall p, In p (cparents s) -> In p ts) ->
  (forall c, In c cs -> PC (Wcol d c)) ->
  forall l g2 idx,
    (forall x, In x l -> In x cols) -> sel_inv PC d ts g2 -> sq_write g2 = [d] -> memd d (sq_read g2) = false ->
    out_edges g2 (NData d) = O -> idx + List.length l = List.length cols ->
    exists g', fst (fold_left (fun acc2 x => let '(rg, idx) := acc2 in
                                  (do g2 <- rg; eoq_step e grp (List.length cols) d g2 idx x, Datatypes.S idx)) l (Ok g2, idx)) = Ok g' /\
               ext g2 g' (sel_edges d S (combine l (skipn idx (map (Wcol d) cs)))) /\ sel_inv PC d ts g' /\
               (forall k, holder_nodes g' k = holder_nodes g2 k) /\ out_edges g' (NData d) = O.
Proof.
  intros Hgo Hsub Hd Hlen HWC HO HOc HS HX HW. induction l as [|x r IH]; intros g2 idx Hl Hinv Hw Hr Ho Hn; cbn [fold_left].
  - exists g2. split; [reflexivity|]. split; [apply ext_refl|]. split; [exact Hinv|]. split; [reflexivity|exact Ho].
  - destruct (HX x (Hl x (or_introl eq_refl))) as ((s & Es) & Hx3). cbn [List.length] in Hn.
    assert (Hidx : idx < List.length cs) by lia.
    destruct (nth_error cs idx) as [c|] eqn:Ec; [|apply nth_error_None in Ec; lia].
    pose proof (nth_error_In _ _ Ec) as Hc.
    pose proof (HWC g2 Hw Hr Ho) as Ewc.
    assert (Estep : eoq_step e grp (List.length cols) d g2 idx x =
                    fold_left (fun acc3 s0 => do g3 <- acc3; add_column_lineage g3 s0 (Wcol d c)) (S x) (Ok g2)).
    { unfold eoq_step. rewrite (HS g2 Hinv x (Hl x (or_introl eq_refl))), Es, Ewc, map_length, Hlen, Nat.eqb_refl.
      rewrite (map_nth_error (Wcol d) idx cs Ec). reflexivity. }
    rewrite Estep.
    destruct (acl_fold_ok PC d ts (Wcol d c) (S x) g2 Hgo eq_refl (HW c Hc) Hx3 (si_lits _ _ _ _ Hinv) (si_edges _ _ _ _ Hinv))
      as (g3 & E3 & X3 & L3 & I3 & T3 & _ & D3).
    rewrite E3.
    assert (O3 : out_edges g3 (NData d) = O).
    { rewrite Es in E3. cbn [fold_left] in E3. apply (acl_oed_g d O g2 s c g3 E3 Ho HO (HOc c Hc)).
      intros p Hp. apply (go_target _ _ Hgo). apply (proj2 (Hx3 s ltac:(rewrite Es; left; reflexivity))). exact Hp. }
    assert (Hinv3 : sel_inv PC d ts g3) by (apply (sel_inv_ext PC d ts g2 g3 _ Hinv X3 L3 I3 (D3 (si_drop _ _ _ _ Hinv)))).
    assert (Hw3 : sq_write g3 = [d]) by (unfold sq_write; rewrite T3; exact Hw).
    assert (Hr3 : memd d (sq_read g3) = false) by (unfold sq_read; rewrite T3; exact Hr).
    destruct (IH g3 (Datatypes.S idx) (fun y Hy => Hl y (or_intror Hy)) Hinv3 Hw3 Hr3 O3 ltac:(lia)) as (g' & E' & X' & Hinv' & T' & O').
    exists g'. split; [exact E'|]. split.
    + rewrite (skipn_nth (map (Wcol d) cs) idx (Wcol d c) (map_nth_error (Wcol d) idx cs Ec)).
      unfold sel_edges. cbn [combine flat_map fst snd]. apply (ext_trans g2 g3 g'); assumption.
    + split; [exact Hinv'|]. split; [intros k; rewrite T', T3; reflexivity|exact O'].
Qed.

(* ================================================================== *)
(** * Part T: [end_of_query_cleanup] with one barrier: two groups *)
Definition eoq_grp (e : env) (col_grp : list xcol) (tbl_grp : list dataset) (g1 : graph) : res graph :=
  match sq_write g1 with
  | [] => Ok g1
  | _ :: _ :: _ => Err ELineage
  | [tgt_tbl] =>
      fst (fold_left (fun acc2 x => let '(rg, idx) := acc2 in
                                    (do g2 <- rg; eoq_step e tbl_grp (List.length col_grp) tgt_tbl g2 idx x, S idx))
                     col_grp (Ok g1, 0))
  end.

Lemma slice_app_l {A} (a b : list A) : slice (a ++ b) 0 (List.length a) = a.
Proof. unfold slice. rewrite Nat.sub_0_r. cbn [skipn]. rewrite firstn_app, Nat.sub_diag, firstn_all. cbn [firstn]. apply app_nil_r. Qed.

Lemma slice_app_r {A} (a b : list A) : slice (a ++ b) (List.length a) (List.length (a ++ b)) = b.
Proof.
  unfold slice. rewrite app_length. replace (List.length a + List.length b - List.length a) with (List.length b) by lia.
  rewrite skipn_app, skipn_all, Nat.sub_diag. cbn [skipn app]. apply firstn_all.
Qed.

Lemma eoq_two e g ts1 ts2 xs1 xs2 :
  end_of_query_cleanup e g (ts1 ++ ts2) (xs1 ++ xs2) [(List.length xs1, List.length ts1)] =
  (do g1 <- eoq_grp e xs1 ts1 (fold_left add_read (ts1 ++ ts2) g); eoq_grp e xs2 ts2 g1).
Proof.
  unfold end_of_query_cleanup. cbn [app fold_left fst snd]. rewrite !slice_app_l, !slice_app_r. reflexivity.
Qed.

Lemma g0_facts (PC : column -> Prop) d ts gb :
  group_ok d ts -> Forall data_ok ts -> lits_in (QK (d :: ts) PC) gb -> edges_inv ts gb -> drop_free gb ->
  (forall k, holder_nodes gb k = holder_nodes (add_write empty_graph d) k) ->
  let g0 := fold_left add_read ts gb in
  sel_inv PC d ts g0 /\ sq_write g0 = [d] /\ memd d (sq_read g0) = false /\
  out_edges g0 (NData d) = out_edges gb (NData d) /\ ext gb g0 (map (fun v => (NData v, NStr (dalias v))) ts).
Proof.
  intros Hgo Hdo Lb Eb D C g0.
  destruct (add_reads_ok PC d ts ts gb Hgo Hdo (fun v Hv => Hv) Lb Eb) as (A1 & A2 & A3 & A4 & A5 & A6). fold g0 in A1, A2, A3, A4, A5, A6.
  assert (Hw : sq_write g0 = [d]) by (unfold sq_write; rewrite A4 by discriminate; rewrite C; reflexivity).
  assert (Hr : memd d (sq_read g0) = false).
  { destruct (memd d (sq_read g0)) eqn:E; [|reflexivity]. exfalso. apply memd_In_eqb in E. destruct E as (v & Hv & Ev).
    unfold sq_read, g0 in Hv. apply reads_after_add_reads in Hv; [|exact (go_tables _ _ Hgo)].
    destruct Hv as [Hv|(w & Hw' & Ew)]; [rewrite C in Hv; destruct Hv|].
    assert (K : dataset_eqb w d = true) by (apply (dataset_eqb_trans w v d Ew); apply dataset_eqb_true_sym; exact Ev).
    rewrite (go_target _ _ Hgo w Hw') in K. discriminate. }
  split; [|split; [exact Hw|split; [exact Hr|split; [exact A5|exact A3]]]].
  constructor; [exact A1|exact A2| |exact (A6 D)]. intros v Hv.
  assert (Hin : In (NData v, NStr (dalias v)) (map (fun v => (NData v, NStr (dalias v))) ts)) by (apply in_map_iff; exists v; auto).
  split.
  - rewrite (ext_edges _ _ _ A3). apply orb_true_iff. right. unfold ematch. apply existsb_exists. eexists. split; [exact Hin|].
    cbn [fst snd]. rewrite !node_eqb_refl. reflexivity.
  - exact (proj1 (ext_new _ _ _ A3 _ Hin)).
Qed.

(** the conditions on the source columns of the items of one group *)
Definition grp_srcs_ok (PC : column -> Prop) (e : env) (d : dataset) (ts grp : list dataset) (cols : list xcol) (S : xcol -> list column) : Prop :=
  (forall g2, sel_inv PC d ts g2 -> forall x, In x cols -> to_source_columns e x (get_alias_mapping g2 grp) = Ok (S x)) /\
  (forall x, In x cols -> (exists s, S x = [s]) /\ forall s, In s (S x) -> PC s /\ forall p, In p (cparents s) -> In p ts).

(** no column list: the first branch creates the write columns, the second finds them by position *)
Lemma union_core_own (PC : column -> Prop) e d ts1 ts2 xs1 xs2 (S1 S2 : xcol -> list column) :
  p_truthy (e_provider e) = false -> group_ok d (ts1 ++ ts2) -> Forall data_ok (ts1 ++ ts2) -> dk d = KTable ->
  (forall c, PC c -> col_qk c) -> wcol_lit d PC ->
  grp_srcs_ok PC e d (ts1 ++ ts2) ts1 xs1 S1 -> grp_srcs_ok PC e d (ts1 ++ ts2) ts2 xs2 S2 ->
  (forall x, In x xs1 -> cparents (xc x) = [] /\ PC (Wcol d (xname x))) ->
  NoDup (map xname xs1) -> List.length xs2 = List.length xs1 ->
  exists sub, (do g2 <- end_of_query_cleanup e (add_write empty_graph d) (ts1 ++ ts2) (xs1 ++ xs2) [(List.length xs1, List.length ts1)];
               expand_wildcard e g2) = Ok sub /\
              ext (add_write empty_graph d) sub
                  (map (fun v => (NData v, NStr (dalias v))) (ts1 ++ ts2) ++
                   sel_edges d S1 (wpairs d xs1 (map xname xs1)) ++ sel_edges d S2 (wpairs d xs2 (map xname xs1))) /\
              sel_inv PC d (ts1 ++ ts2) sub.
Proof.
  intros Hp Hgo Hdo Hd HPC HPW [HS1 HX1] [HS2 HX2] HO1 Hnd Hlen. rewrite eoq_two. set (ts := ts1 ++ ts2) in *. set (gb := add_write empty_graph d).
  assert (Lb : lits_in (QK (d :: ts) PC) gb) by (split; [intros n [<-|[]]; left; reflexivity|intros e0 []]).
  assert (Eb : edges_inv ts gb) by (intros e0 []).
  assert (Db : drop_free gb) by (intros n a [H|[]]; inversion H; intros [K|[]]; discriminate K).
  destruct (g0_facts PC d ts gb Hgo Hdo Lb Eb Db (fun k => eq_refl)) as (Hinv0 & Hw0 & Hr0 & Ho0 & X0).
  set (g0 := fold_left add_read ts gb) in *.
  assert (Hs1 : sub_grp ts1 ts) by (intros v Hv; apply in_app_iff; left; exact Hv).
  assert (Hs2 : sub_grp ts2 ts) by (intros v Hv; apply in_app_iff; right; exact Hv).
  unfold eoq_grp at 1. rewrite Hw0.
  destruct (eoq_fold_own_g PC e d ts ts1 xs1 S1 Hgo Hs1 Hd HPW HS1
              (fun x Hx => conj (proj1 (HO1 x Hx)) (conj (proj2 (HO1 x Hx)) (HX1 x Hx))) Hnd xs1 [] g0 eq_refl Hinv0 Hw0)
    as (g1 & E1 & X1 & Hinv1 & T1 & O1).
  { rewrite Ho0. reflexivity. }
  cbn [List.length] in E1. rewrite E1. cbn beta iota.
  assert (Hw1 : sq_write g1 = [d]) by (unfold sq_write; rewrite T1; exact Hw0).
  assert (Hr1 : memd d (sq_read g1) = false) by (unfold sq_read; rewrite T1; exact Hr0).
  unfold eoq_grp. rewrite Hw1.
  destruct (eoq_fold_given_g PC e d ts ts2 (map xname xs1) (OEn d (map xname xs1)) xs2 S2 Hgo Hs2 Hd
              ltac:(rewrite map_length; exact Hlen) (fun g => write_columns_OEn g d (map xname xs1))) with (l := xs2) (g2 := g1) (idx := 0)
    as (g2 & E2 & X2 & Hinv2 & T2 & O2); try assumption.
  - intros e0 He0. unfold OEn in He0. apply in_map_iff in He0. destruct He0 as (c & <- & _). reflexivity.
  - intros c Hc. eexists. split; [unfold OEn; apply in_map_iff; exists c; split; [reflexivity|exact Hc]|reflexivity].
  - intros c Hc. apply in_map_iff in Hc. destruct Hc as (x & <- & Hx). exact (proj2 (HO1 x Hx)).
  - intros x Hx. exact Hx.
  - reflexivity.
  - rewrite E2. cbn beta iota. rewrite (expand_wildcard_id e g2 Hp (QK_col_qk _ PC g2 HPC (si_lits _ _ _ _ Hinv2))).
    exists g2. split; [reflexivity|]. split; [|exact Hinv2]. cbn [skipn] in X2.
    apply (ext_trans gb g0 g2 _ _ X0). apply (ext_trans g0 g1 g2 _ _ X1). exact X2.
Qed.

(** INSERT column list: both branches feed the given write columns by position *)
Lemma union_core_cols (PC : column -> Prop) e d ts1 ts2 cs xs1 xs2 (S1 S2 : xcol -> list column) :
  p_truthy (e_provider e) = false -> group_ok d (ts1 ++ ts2) -> Forall data_ok (ts1 ++ ts2) -> dk d = KTable ->
  (forall c, PC c -> col_qk c) -> NoDup cs ->
  grp_srcs_ok PC e d (ts1 ++ ts2) ts1 xs1 S1 -> grp_srcs_ok PC e d (ts1 ++ ts2) ts2 xs2 S2 ->
  (forall c, In c cs -> PC (Wcol d c)) ->
  List.length xs1 = List.length cs -> List.length xs2 = List.length cs ->
  exists sub, (do g2 <- end_of_query_cleanup e (gb_of d cs) (ts1 ++ ts2) (xs1 ++ xs2) [(List.length xs1, List.length ts1)];
               expand_wildcard e g2) = Ok sub /\
              ext (gb_of d cs) sub
                  (map (fun v => (NData v, NStr (dalias v))) (ts1 ++ ts2) ++
                   sel_edges d S1 (wpairs d xs1 cs) ++ sel_edges d S2 (wpairs d xs2 cs)) /\
              sel_inv PC d (ts1 ++ ts2) sub.
Proof.
  intros Hp Hgo Hdo Hd HPC Hnd [HS1 HX1] [HS2 HX2] HW Hl1 Hl2. rewrite eoq_two. set (ts := ts1 ++ ts2) in *. set (gb := gb_of d cs).
  destruct (gb_facts d cs Hd Hnd) as (A & B & C & D & O). fold gb in A, B, C, D, O.
  assert (Lb : lits_in (QK (d :: ts) PC) gb).
  { split.
    - intros n Hn. rewrite B in Hn. destruct Hn as [<-|Hn]; [left; reflexivity|]. apply in_map_iff in Hn. destruct Hn as (c & <- & Hc). apply HW. exact Hc.
    - intros e0 He0. rewrite A in He0. destruct (OE_edge d cs e0 He0) as (j & c & Hc & ->). cbn [fst snd QK]. split; [left; reflexivity|apply HW; exact Hc]. }
  assert (Eb : edges_inv ts gb).
  { intros e0 He0. rewrite A in He0. destruct (OE_edge d cs e0 He0) as (j & c & Hc & ->). unfold edge_inv. cbn [fst snd etype e_has_column]. right. reflexivity. }
  destruct (g0_facts PC d ts gb Hgo Hdo Lb Eb D C) as (Hinv0 & Hw0 & Hr0 & Ho0 & X0).
  set (g0 := fold_left add_read ts gb) in *.
  assert (Hs1 : sub_grp ts1 ts) by (intros v Hv; apply in_app_iff; left; exact Hv).
  assert (Hs2 : sub_grp ts2 ts) by (intros v Hv; apply in_app_iff; right; exact Hv).
  assert (HO : forall e0, In e0 (OE d cs) -> eattr_update (snd e0) (e_has_column None) = snd e0).
  { intros e0 He0. destruct (OE_edge d cs e0 He0) as (j & c & _ & ->). reflexivity. }
  assert (HOc : forall c, In c cs -> exists e0, In e0 (OE d cs) /\ fst e0 = (NData d, NCol (Wcol d c))).
  { intros c Hc. destruct (In_OE d cs c Hc) as (j & Hj). eexists. split; [exact Hj|reflexivity]. }
  unfold eoq_grp at 1. rewrite Hw0.
  destruct (eoq_fold_given_g PC e d ts ts1 cs (OE d cs) xs1 S1 Hgo Hs1 Hd Hl1 (fun g => write_columns_exact g d cs) HO HOc HS1 HX1 HW
              xs1 g0 0 (fun x Hx => Hx) Hinv0 Hw0 Hr0 ltac:(rewrite Ho0; exact O) eq_refl)
    as (g1 & E1 & X1 & Hinv1 & T1 & O1).
  rewrite E1. cbn beta iota.
  assert (Hw1 : sq_write g1 = [d]) by (unfold sq_write; rewrite T1; exact Hw0).
  assert (Hr1 : memd d (sq_read g1) = false) by (unfold sq_read; rewrite T1; exact Hr0).
  unfold eoq_grp. rewrite Hw1.
  destruct (eoq_fold_given_g PC e d ts ts2 cs (OE d cs) xs2 S2 Hgo Hs2 Hd Hl2 (fun g => write_columns_exact g d cs) HO HOc HS2 HX2 HW
              xs2 g1 0 (fun x Hx => Hx) Hinv1 Hw1 Hr1 O1 eq_refl)
    as (g2 & E2 & X2 & Hinv2 & T2 & O2).
  rewrite E2. cbn beta iota. rewrite (expand_wildcard_id e g2 Hp (QK_col_qk _ PC g2 HPC (si_lits _ _ _ _ Hinv2))).
  exists g2. split; [reflexivity|]. split; [|exact Hinv2]. cbn [skipn] in X1, X2.
  apply (ext_trans gb g0 g2 _ _ X0). apply (ext_trans g0 g1 g2 _ _ X1). exact X2.
Qed.

(* ================================================================== *)
(** * Part R: the holder realises the flows of both branches *)

(** items with their source columns and their target column *)
Definition SE (d : dataset) (l : list (list column * column)) : list (Graph.node * Graph.node) :=
  flat_map (fun p => flat_map (fun s => acl_edges s (snd p) d) (fst p)) l.
Definition FLW (l : list (list column * column)) : list flow :=
  flat_map (fun p => map (fun s => (s, snd p)) (fst p)) l.
Definition spairs (S : xcol -> list column) (l : list (xcol * column)) : list (list column * column) :=
  map (fun p => (S (fst p), snd p)) l.

Lemma sel_edges_SE d S l : sel_edges d S l = SE d (spairs S l).
Proof. unfold sel_edges, SE, spairs. rewrite flat_map_map'. reflexivity. Qed.
Lemma flows_of_FLW S l : flows_of S l = FLW (spairs S l).
Proof. unfold flows_of, FLW, spairs. rewrite flat_map_map'. reflexivity. Qed.
Lemma SE_app d a b : SE d (a ++ b) = SE d a ++ SE d b.
Proof. unfold SE. apply flat_map_app. Qed.
Lemma FLW_app a b : FLW (a ++ b) = FLW a ++ FLW b.
Proof. unfold FLW. apply flat_map_app. Qed.

Lemma ematch_SE_col d l x y :
  is_column x = true -> ematch x y (SE d l) = ematch x y (map (fun f : flow => (NCol (fst f), NCol (snd f))) (FLW l)).
Proof.
  intros Hx. unfold SE, FLW. induction l as [|x0 r IH]; [reflexivity|].
  cbn [flat_map]. rewrite map_app, !ematch_app, IH. f_equal.
  induction (fst x0) as [|s r' IH']; [reflexivity|]. cbn [flat_map map]. rewrite ematch_app.
  rewrite ematch_cons, <- IH'. cbn [fst snd]. f_equal. unfold acl_edges, ematch. cbn [existsb app fst snd].
  destruct x as [|cx|]; try discriminate. cbn [node_eqb]. rewrite andb_false_l, orb_false_l.
  destruct (col_parent s); cbn [existsb fst snd node_eqb]; rewrite ?andb_false_l, ?orb_false_r; reflexivity.
Qed.

Lemma ematch_SE_data d l p y :
  ematch (NData p) y (SE d l) = true ->
  exists x s, In x l /\ In s (fst x) /\
    ((dataset_eqb p d = true /\ node_eqb y (NCol (snd x)) = true) \/
     (exists sp, col_parent s = Some sp /\ dataset_eqb p sp = true /\ node_eqb y (NCol s) = true)).
Proof.
  unfold ematch, SE. intros H. apply existsb_exists in H. destruct H as (pr & Hpr & E).
  apply in_flat_map in Hpr. destruct Hpr as (x & Hx & Hpr). apply in_flat_map in Hpr. destruct Hpr as (s & Hs & Hpr).
  exists x, s. split; [exact Hx|]. split; [exact Hs|]. apply andb_true_iff in E. destruct E as [E1 E2].
  unfold acl_edges in Hpr. cbn [app In] in Hpr. destruct Hpr as [<-|[<-|Hpr]].
  - cbn [fst node_eqb] in E1. discriminate.
  - left. cbn [fst snd node_eqb] in *. auto.
  - right. destruct (col_parent s) as [sp|]; [|destruct Hpr]. destruct Hpr as [<-|[]]. exists sp. cbn [fst snd node_eqb] in *. auto.
Qed.

(** the columns of the holder: one parent among the tables of the holder, or the unresolved column of a name over one group *)
Definition PCu (d : dataset) (ts : list dataset) (UN : list (list dataset * string)) (c : column) : Prop :=
  (exists p, cparents c = [p] /\ In p (d :: ts)) \/
  (exists grp nm, In (grp, nm) UN /\ c = Ucol grp nm /\ escape nm = nm /\ 2 <= List.length (cparents c)).

Definition UN_ok (ts : list dataset) (UN : list (list dataset * string)) : Prop :=
  (forall grp nm, In (grp, nm) UN -> ts_inj grp /\ sub_grp grp ts) /\
  (forall g1 g2 nm, In (g1, nm) UN -> In (g2, nm) UN -> g1 = g2).

Lemma PCu_qk d ts UN c : group_ok d ts -> dk d = KTable -> UN_ok ts UN -> PCu d ts UN c -> col_qk c.
Proof.
  intros Hgo Hd [HU _] [(p & Ep & Hp)|(grp & nm & Hin & -> & _ & _)]; unfold col_qk.
  - rewrite Ep. constructor; [|constructor]. destruct Hp as [<-|Hp]; [exact Hd|apply (go_tables _ _ Hgo); exact Hp].
  - destruct (HU grp nm Hin) as [Hinj Hsub]. apply Forall_forall. intros p Hp.
    apply (go_tables _ _ Hgo). apply Hsub. apply (proj2 (proj2 (Ucol_props grp nm Hinj))). exact Hp.
Qed.

Lemma PCu_wcol d ts UN : group_ok d ts -> dk d = KTable -> wcol_lit d (PCu d ts UN).
Proof.
  intros Hgo Hd c nm [(p & Ep & Hp)|(grp & nm' & _ & _ & _ & Hl)] E; unfold col_eqb in E; apply andb_true_iff in E; destruct E as [E1 E2].
  - unfold col_parent in E2. cbn [Wcol cparents] in E2. rewrite Ep in E2. cbn [opt_dataset_eqb] in E2.
    assert (p = d).
    { destruct Hp as [<-|Hp]; [reflexivity|]. rewrite dataset_eqb_sym, (go_target _ _ Hgo p Hp) in E2. discriminate. }
    subst p. apply String.eqb_eq in E1. unfold col_str, col_parent, Wcol in E1. cbn [cparents craw] in E1. rewrite Ep, Hd in E1.
    apply append_cancel in E1. apply append_cancel in E1. destruct c as [cr cp]. cbn [craw cparents] in *. subst. reflexivity.
  - rewrite (col_parent_none _ Hl) in E2. discriminate E2.
Qed.

Theorem holder_realises_u d ts (UN : list (list dataset * string)) (l : list (list column * column)) gb sub :
  group_ok d ts -> dk d = KTable -> UN_ok ts UN ->
  (forall p, In p l -> (exists nm0, snd p = Wcol d nm0) /\
     forall s, In s (fst p) -> (exists v, In v ts /\ cparents s = [v]) \/
                             (exists grp nm, In (grp, nm) UN /\ s = Ucol grp nm /\ escape nm = nm /\ 2 <= List.length (cparents s))) ->
  (forall grp nm, In (grp, nm) UN -> exists p, In p l /\ In (Ucol grp nm) (fst p)) ->
  (forall p' s' grp nm v, In (grp, nm) UN -> In p' l -> In s' (fst p') -> cparents s' = [v] -> craw s' <> nm) ->
  lits_in (QK (d :: ts) (PCu d ts UN)) gb -> drop_free gb ->
  (forall e0, In e0 (gedges gb) -> String.eqb (etype (snd e0)) "rename" = false) ->
  (forall x y, is_column x = true -> has_edge gb x y = false) ->
  (forall p c, In p ts -> has_edge gb (NData p) (NCol c) = false) ->
  ext gb sub (map (fun v => (NData v, NStr (dalias v))) ts ++ SE d l) ->
  sel_inv (PCu d ts UN) d ts sub ->
  let G := compose gb sub in
  clean_holder G /\ lits_in (unres_ok G) G /\ realises G (FLW l) /\ flows_ok (FLW l).
Proof.
  intros Hgo Hd [HU HUf] HX HNM HNQ Lb Db Hbe Hbc Hbd X Hinv G.
  assert (HE : forall x y, has_edge G x y = has_edge gb x y || (ematch x y (map (fun v => (NData v, NStr (dalias v))) ts) || ematch x y (SE d l))).
  { intros x y. unfold G. rewrite has_edge_compose, (ext_edges _ _ _ X), ematch_app. destruct (has_edge gb x y); reflexivity. }
  assert (HEc : forall x y, is_column x = true ->
                has_edge G x y = ematch x y (map (fun f : flow => (NCol (fst f), NCol (snd f))) (FLW l))).
  { intros x y Hx. rewrite HE, (Hbc x y Hx), (ematch_alias_col x y ts Hx), (ematch_SE_col d l x y Hx). reflexivity. }
  assert (HF : forall f, In f (FLW l) ->
               exists x s, In x l /\ In s (fst x) /\ f = (s, snd x) /\
                           ((exists v, In v ts /\ cparents s = [v]) \/
                            (exists grp nm, In (grp, nm) UN /\ s = Ucol grp nm /\ escape nm = nm /\ 2 <= List.length (cparents s))) /\
                           (exists nm0, snd x = Wcol d nm0)).
  { intros f Hf. unfold FLW in Hf. apply in_flat_map in Hf. destruct Hf as (x & Hx & Hf). apply in_map_iff in Hf.
    destruct Hf as (s & <- & Hs). destruct (HX x Hx) as [H1 H2].
    exists x, s. repeat split; auto. }
  assert (LG : lits_in (QK (d :: ts) (PCu d ts UN)) G) by (apply lits_compose; [exact Lb|exact (si_lits _ _ _ _ Hinv)]).
  assert (Rc : forall f, In f (FLW l) -> has_edge G (NCol (fst f)) (NCol (snd f)) = true).
  { intros f Hf. rewrite HEc by reflexivity. unfold ematch. apply existsb_exists. exists (NCol (fst f), NCol (snd f)).
    split; [apply in_map_iff; exists f; auto|]. cbn [fst snd]. rewrite !node_eqb_refl. reflexivity. }
  split; [|split; [|split]].
  - split.
    + intros n a Hin. destruct (attr_true "drop" a) eqn:E; [|reflexivity]. exfalso. apply attr_true_In in E.
      exact (drop_free_compose gb sub Db (si_drop _ _ _ _ Hinv) n a Hin E).
    + apply (etype_compose (fun s => String.eqb s "rename" = false)); [exact Hbe|].
      intros e0 He0. pose proof (si_edges _ _ _ _ Hinv e0 He0) as Hi. unfold edge_inv in Hi.
      destruct (snd (fst e0)); [destruct Hi as [-> | ->]; reflexivity|destruct Hi as [-> | ->]; reflexivity|destruct Hi as [-> _]; reflexivity].
  - apply (lits_weaken (QK (d :: ts) (PCu d ts UN))); [|exact LG]. intros n Hn u Hu. destruct n as [|c|]; cbn [unresolved] in Hu; try discriminate.
    cbn [QK] in Hn. destruct Hn as [(p & Ep & _)|(grp & nm & Hnm & -> & Enm & Hlen)]; [rewrite Ep in Hu; cbn in Hu; discriminate|].
    destruct (Nat.ltb 1 (List.length (cparents (Ucol grp nm)))); [|discriminate]. inversion Hu. subst u. clear Hu.
    destruct (HU grp nm Hnm) as [Hinj Hsub].
    destruct (Ucol_props grp nm Hinj) as (U1 & _ & U3). split.
    + unfold candidates_in_graph. apply flat_map_none. intros p Hp. rewrite U1.
      destruct (has_edge G (NData p) (NCol (mk_col nm p))) eqn:Ehe; [|reflexivity]. exfalso.
      apply U3 in Hp. apply Hsub in Hp. rewrite HE, (Hbd p _ Hp), ematch_alias_ycol in Ehe. cbn [orb] in Ehe.
      apply ematch_SE_data in Ehe. destruct Ehe as (x' & s' & Hx' & Hs' & [[K _]|(sp & Esp & K1 & K2)]).
      * rewrite (go_target _ _ Hgo p Hp) in K. discriminate.
      * destruct (proj2 (HX x' Hx') s' Hs') as [(v & Hv & Ev)|(grp' & nm' & _ & -> & _ & Hl')].
        -- unfold col_parent in Esp. rewrite Ev in Esp. inversion Esp. subst sp.
           pose proof (go_distinct _ _ Hgo p v Hp Hv K1) as Epv. subst v.
           cbn [node_eqb] in K2. unfold col_eqb in K2. apply andb_true_iff in K2. destruct K2 as [K2 _]. apply String.eqb_eq in K2.
           unfold col_str, col_parent, mk_col in K2. cbn [cparents craw] in K2. rewrite Ev, (go_tables _ _ Hgo p Hp), Enm in K2.
           apply append_cancel in K2. apply append_cancel in K2. apply (HNQ x' s' grp nm p Hnm Hx' Hs' Ev). symmetry. exact K2.
        -- rewrite (col_parent_none _ Hl') in Esp. discriminate.
    + destruct (HNM grp nm Hnm) as (x & Hx & Hs). exists (NCol (snd x)).
      apply (Rc (Ucol grp nm, snd x)). unfold FLW. apply in_flat_map. exists x. split; [exact Hx|]. apply in_map_iff. exists (Ucol grp nm). auto.
  - constructor.
    + intros x y Hx Hxy. rewrite (HEc x y Hx) in Hxy. unfold ematch in Hxy. apply existsb_exists in Hxy.
      destruct Hxy as (p & Hp & E). apply in_map_iff in Hp. destruct Hp as (f & <- & Hf). cbn [fst snd] in E.
      apply andb_true_iff in E. exists f. tauto.
    + exact Rc.
    + intros f Hf. destruct (HF f Hf) as (x & s & Hx & Hs & -> & _).
      assert (Hin : In (NCol s, NCol (snd x)) (map (fun v => (NData v, NStr (dalias v))) ts ++ SE d l)).
      { apply in_app_iff. right. unfold SE. apply in_flat_map. exists x. split; [exact Hx|]. apply in_flat_map. exists s.
        split; [exact Hs|]. left. reflexivity. }
      destruct (ext_new _ _ _ X _ Hin) as [N1 N2]. cbn [fst snd] in *. unfold G. rewrite !has_node_compose, N1, N2, !orb_true_r. auto.
    + apply (lits_weaken (QK (d :: ts) (PCu d ts UN))); [|exact LG]. intros n Hn f Hf E.
      destruct (HF f Hf) as (x & s & _ & _ & -> & [(v & _ & Ev)|(grp & nm & Hgn & -> & _ & Hl)] & _); cbn [fst] in *.
      * apply (src_str_eqb_single n s v); [unfold col_parent; rewrite Ev; reflexivity|exact E].
      * destruct n as [|c|]; cbn [node_eqb] in E; try discriminate. cbn [QK] in Hn.
        unfold col_eqb in E. apply andb_true_iff in E. destruct E as [E1 E2]. rewrite (col_parent_none _ Hl) in E2.
        destruct Hn as [(p & Ep & _)|(grp' & nm' & Hgn' & -> & _ & Hl')].
        -- unfold col_parent in E2. rewrite Ep in E2. discriminate.
        -- apply String.eqb_eq in E1. unfold col_str in E1. rewrite (col_parent_none _ Hl), (col_parent_none _ Hl') in E1.
           rewrite (proj1 (Ucol_props grp nm (proj1 (HU grp nm Hgn)))), (proj1 (Ucol_props grp' nm' (proj1 (HU grp' nm' Hgn')))) in E1. subst nm'.
           rewrite (HUf grp' grp nm Hgn' Hgn). reflexivity.
  - split.
    + intros f f' Hf Hf'. destruct (HF f Hf) as (x & s & _ & _ & -> & _ & (nm0 & Eo)).
      destruct (HF f' Hf') as (x' & s' & _ & _ & -> & Hk & _). cbn [fst snd]. rewrite Eo.
      unfold col_eqb. destruct Hk as [(v' & Hv' & Ev')|(grp & nm & _ & -> & _ & Hl)].
      * unfold col_parent. cbn [Wcol cparents]. rewrite Ev'. cbn [opt_dataset_eqb].
        rewrite dataset_eqb_sym, (go_target _ _ Hgo v' Hv'). apply andb_false_r.
      * rewrite (col_parent_none _ Hl). unfold col_parent at 1. cbn [Wcol cparents opt_dataset_eqb]. apply andb_false_r.
    + intros f Hf. destruct (HF f Hf) as (x & s & _ & _ & -> & _ & (nm0 & Eo)). cbn [snd]. rewrite Eo.
      cbn [parent_is col_parent Wcol cparents]. rewrite Hd. reflexivity.
Qed.

Print Assumptions HS_of_g.
Print Assumptions union_core_own.
Print Assumptions union_core_cols.
Print Assumptions holder_realises_u.
