(** Lemma B, step 5b, second round: [colshape] of a UNION statement over base tables excludes the alias leak between
    the branches (K-C02-4): the conditions [leak_free] of LemmaB5b2Defs.v follow from the guard. *)
From SV Require Import Tree.Render Tree.LemmaA Tree.LemmaAProofs Tree.LemmaB Tree.LemmaBProofs Tree.LemmaB5bDefs Tree.LemmaB5bShape Tree.LemmaB5b2Defs Ident.Escape Ident.EscapeProofs.
Require Import Lia.
Open Scope string_scope.
Open Scope list_scope.

(* ================================================================== *)
(** * Equality tests *)
Lemma cul_ostr_eqb_eq a b : ostr_eqb a b = true -> a = b.
Proof.
  destruct a as [x|], b as [y|]; cbn [ostr_eqb]; intros H; try discriminate; [|reflexivity].
  apply String.eqb_eq in H. subst. reflexivity.
Qed.

Lemma cul_tref_eqb_eq a b : tref_eqb a b = true -> a = b.
Proof.
  destruct a as [sa na], b as [sb nb]. unfold tref_eqb. cbn [fst snd]. intros H. apply andb_true_iff in H. destruct H as [H1 H2].
  apply cul_ostr_eqb_eq in H1. apply String.eqb_eq in H2. subst. reflexivity.
Qed.

Lemma cul_tref_eqb_refl a : tref_eqb a a = true.
Proof.
  destruct a as [[sa|] na]; unfold tref_eqb; cbn [fst snd ostr_eqb]; rewrite ?String.eqb_refl; reflexivity.
Qed.

Lemma cul_clash_snd a b : tref_clash a b = true -> snd a = snd b.
Proof. unfold tref_clash. intros H. apply andb_true_iff in H. destruct H as [H _]. apply String.eqb_eq. exact H. Qed.

Lemma cul_clash_refl a : tref_clash a a = true.
Proof. apply tref_eqb_clash. apply cul_tref_eqb_refl. Qed.

(* ================================================================== *)
(** * The one scope of a SELECT over base tables *)
Definition cul_ent (r : rel) : sc_entry := (ralias r, Some (rtref r)).

Lemma cul_scopes1 items from cj :
  forallb is_rtable from = true -> fst (scopes 1 (QSelect items from cj None)) = [map cul_ent from].
Proof.
  intros Hrt. cbn [scopes fst]. rewrite (rels_flat_tables from Hrt).
  rewrite (flat_map_none _ from).
  - cbn [map app]. rewrite app_nil_r. f_equal. apply map_ext_in. intros r Hr.
    rewrite forallb_forall in Hrt. specialize (Hrt r Hr). destruct r; try discriminate. reflexivity.
  - intros r Hr. destruct r; reflexivity.
Qed.

Lemma cul_als_in scs sc (e : sc_entry) q : In sc scs -> In e sc -> fst e = Some q -> In (q, snd e) (cu_als scs).
Proof.
  intros H1 H2 H3. unfold cu_als. apply in_flat_map. exists sc. split; [exact H1|]. apply in_flat_map. exists e.
  split; [exact H2|]. rewrite H3. left. reflexivity.
Qed.

(** [scope_pair_ok] on two such scopes, at one pair of relations carrying the same alias *)
Lemma cul_pair f fo r0 r' r q :
  scope_pair_ok (map cul_ent f) (map cul_ent fo) = true ->
  In r0 f -> In r' fo -> ralias r0 = Some q -> ralias r' = Some q -> In r f -> rtref r = rtref r' -> rtref r' = rtref r0.
Proof.
  intros Hp H0 H' E0 E' Hr Er. unfold scope_pair_ok in Hp. rewrite forallb_forall in Hp.
  specialize (Hp (cul_ent r0) (in_map cul_ent _ _ H0)). unfold cul_ent at 1 in Hp. cbn [fst] in Hp. rewrite E0 in Hp.
  rewrite forallb_forall in Hp. specialize (Hp (cul_ent r') (in_map cul_ent _ _ H')). unfold cul_ent at 1 2 in Hp.
  cbn [fst snd] in Hp. rewrite E' in Hp. rewrite String.eqb_refl in Hp. cbn [andb] in Hp.
  apply negb_true_iff in Hp. apply andb_false_iff in Hp. destruct Hp as [Hp|Hp].
  - apply negb_false_iff in Hp. unfold cul_ent in Hp. cbn [snd otref_is] in Hp. apply cul_tref_eqb_eq. exact Hp.
  - exfalso. assert (Hex : existsb (fun e' : sc_entry => otref_is (rtref r') (snd e')) (map cul_ent f) = true).
    { apply existsb_exists. exists (cul_ent r). split; [apply in_map; exact Hr|]. unfold cul_ent. cbn [snd otref_is].
      rewrite Er. apply cul_tref_eqb_refl. }
    pose proof (eq_trans (eq_sym Hex) Hp) as Habs. discriminate Habs.
Qed.

(** two relations of one FROM with the same table reference are the same relation *)
Lemma cul_distinct_inj f r r0 :
  trefs_distinct (map rtref f) = true -> In r f -> In r0 f -> rtref r = rtref r0 -> r = r0.
Proof.
  induction f as [|x rest IH]; intros Hd Hr H0 E; [destruct Hr|].
  cbn [map trefs_distinct] in Hd. apply andb_true_iff in Hd. destruct Hd as [Hd1 Hd2]. rewrite forallb_forall in Hd1.
  destruct Hr as [->|Hr], H0 as [->|H0].
  - reflexivity.
  - exfalso. specialize (Hd1 (rtref r0) (in_map rtref _ _ H0)). rewrite E, cul_clash_refl in Hd1. discriminate.
  - exfalso. specialize (Hd1 (rtref r) (in_map rtref _ _ Hr)). rewrite E, cul_clash_refl in Hd1. discriminate.
  - apply IH; assumption.
Qed.

(* ================================================================== *)
(** * The core of the derivation, on the facts the guard provides *)
Lemma cul_core f fo :
  (* one bare name is one table reference, across the two FROM lists *)
  (forall r r', In r f -> In r' fo -> snd (rtref r) = snd (rtref r') -> rtref r = rtref r') ->
  (* an alias of the other FROM is not the bare name of another table of this FROM *)
  (forall r' q r0, In r' fo -> ralias r' = Some q -> In r0 f -> q = snd (rtref r0) -> rtref r0 = rtref r') ->
  scope_pair_ok (map cul_ent f) (map cul_ent fo) = true ->
  trefs_distinct (map rtref f) = true ->
  leak_free f fo.
Proof.
  intros G1 G2 Hp Hd r0 r r' q H0 Hr H' En Ea Hc.
  assert (Er : rtref r = rtref r') by (apply G1; [exact Hr|exact H'|apply cul_clash_snd; exact Hc]).
  apply (cul_distinct_inj f); [exact Hd|exact Hr|exact H0|]. rewrite Er.
  unfold rname in En. destruct (ralias r0) as [a|] eqn:E0.
  - subst a. apply (cul_pair f fo r0 r' r q); assumption.
  - symmetry. apply (G2 r' q r0); [exact H'|exact Ea|exact H0|]. symmetry. exact En.
Qed.

(* ================================================================== *)
(** * From [colshape] *)
Lemma colshape_union_leak (s : stmt) t i1 f1 c1 i2 f2 c2 :
  union_stmt_of s t (uq i1 f1 c1 i2 f2 c2) -> colshape s = true ->
  forallb rel_ok f1 = true -> trefs_distinct (map rtref f1) = true ->
  forallb rel_ok f2 = true -> trefs_distinct (map rtref f2) = true ->
  leak_free f1 f2 /\ leak_free f2 f1.
Proof.
  intros Hs Hc Hrel1 Hd1 Hrel2 Hd2.
  assert (R1 : forallb is_rtable f1 = true).
  { rewrite forallb_forall in *. intros r Hr. apply rel_ok_table. apply Hrel1. exact Hr. }
  assert (R2 : forallb is_rtable f2 = true).
  { rewrite forallb_forall in *. intros r Hr. apply rel_ok_table. apply Hrel2. exact Hr. }
  unfold uq in Hs.
  set (A := QSelect i1 f1 c1 None) in *. set (B := QSelect i2 f2 c2 None) in *.
  unfold colshape in Hc. apply andb_true_iff in Hc. destruct Hc as [Hc _].
  apply andb_true_iff in Hc. destruct Hc as [_ Hal].
  set (m := q_size A + q_size B).
  assert (Em : q_size (QUnion A B) = S m) by reflexivity.
  assert (Eal : cs_alias s = (let scs := fst (scopes (S (q_size (QUnion A B))) (QUnion A B)) in
                              nested_ok (S (q_size (QUnion A B))) (QUnion A B) && forallb (fun a => forallb (scope_pair_ok a) scs) scs
                              && names_global (S (q_size (QUnion A B))) (QUnion A B)))
    by (destruct Hs as [(cols & ->)|[->| ->]]; reflexivity).
  rewrite Eal, Em in Hal. cbn zeta in Hal. rewrite cu_names_global in Hal.
  change (scopes (S (S m)) (QUnion A B)) with (fst (scopes (S m) A) ++ fst (scopes (S m) B), snd (scopes (S m) A) ++ snd (scopes (S m) B)) in Hal.
  change (q_trefs (S (S m)) (QUnion A B)) with (q_trefs (S m) A ++ q_trefs (S m) B) in Hal.
  cbn [fst] in Hal. unfold A, B in Hal.
  rewrite (cu_scopes_sel i1 f1 c1 R1), (cu_scopes_sel i2 f2 c2 R2), (cu_q_trefs_sel i1 f1 c1 R1), (cu_q_trefs_sel i2 f2 c2 R2),
    (cul_scopes1 i1 f1 c1 R1), (cul_scopes1 i2 f2 c2 R2) in Hal.
  apply andb_true_iff in Hal. destruct Hal as [Hal Hng]. apply andb_true_iff in Hal. destruct Hal as [_ Hpair].
  apply andb_true_iff in Hng. destruct Hng as [Hng1 Hng2].
  cbn [app forallb] in Hpair. rewrite !andb_true_r in Hpair.
  apply andb_true_iff in Hpair. destruct Hpair as [Hp1 Hp2].
  apply andb_true_iff in Hp1. destruct Hp1 as [_ Hp12]. apply andb_true_iff in Hp2. destruct Hp2 as [Hp21 _].
  set (T := map rtref f1 ++ map rtref f2) in *.
  assert (T1 : forall r, In r f1 -> In (rtref r) T) by (intros r Hr; apply in_or_app; left; apply in_map; exact Hr).
  assert (T2 : forall r, In r f2 -> In (rtref r) T) by (intros r Hr; apply in_or_app; right; apply in_map; exact Hr).
  (* one bare name, one table reference *)
  assert (G1 : forall a b, In a T -> In b T -> snd a = snd b -> a = b).
  { intros a b Ha Hb E. rewrite forallb_forall in Hng1. specialize (Hng1 a Ha). rewrite forallb_forall in Hng1. specialize (Hng1 b Hb).
    rewrite E, String.eqb_refl in Hng1. cbn [negb orb] in Hng1. apply cul_tref_eqb_eq. exact Hng1. }
  (* an alias is not the bare name of another table *)
  assert (G2 : forall sc (e : sc_entry) q a, In sc [map cul_ent f1; map cul_ent f2] -> In e sc -> fst e = Some q -> In a T -> q = snd a ->
                                      otref_is a (snd e) = true).
  { intros sc e q a Hsc He Eq Ha E. rewrite forallb_forall in Hng2.
    specialize (Hng2 (q, snd e) (cul_als_in _ sc e q Hsc He Eq)). rewrite forallb_forall in Hng2. specialize (Hng2 a Ha).
    cbn [fst snd] in Hng2. rewrite E, String.eqb_refl in Hng2. exact Hng2. }
  split.
  - apply cul_core; [| |exact Hp12|exact Hd1].
    + intros r r' Hr Hr' E. apply G1; [apply T1; exact Hr|apply T2; exact Hr'|exact E].
    + intros r' q r0 Hr' Ea Hr0 E.
      pose proof (G2 (map cul_ent f2) (cul_ent r') q (rtref r0) (or_intror (or_introl eq_refl)) (in_map cul_ent _ _ Hr') Ea (T1 r0 Hr0) E) as H.
      unfold cul_ent in H. cbn [snd otref_is] in H. apply cul_tref_eqb_eq. exact H.
  - apply cul_core; [| |exact Hp21|exact Hd2].
    + intros r r' Hr Hr' E. apply G1; [apply T2; exact Hr|apply T1; exact Hr'|exact E].
    + intros r' q r0 Hr' Ea Hr0 E.
      pose proof (G2 (map cul_ent f1) (cul_ent r') q (rtref r0) (or_introl eq_refl) (in_map cul_ent _ _ Hr') Ea (T2 r0 Hr0) E) as H.
      unfold cul_ent in H. cbn [snd otref_is] in H. apply cul_tref_eqb_eq. exact H.
Qed.
Print Assumptions colshape_union_leak.

(* ================================================================== *)
(** * Non-vacuity: the same table in both branches under different aliases *)
Definition cul_ex_s : stmt :=
  SInsert (None, "x") None (uq [ci (Some "p") "a"] [tba "t" "p"] false [ci (Some "q") "b"] [tba "t" "q"] false).

Example colshape_union_leak_nonvacuous :
  union_stmt_of cul_ex_s (None, "x") (uq [ci (Some "p") "a"] [tba "t" "p"] false [ci (Some "q") "b"] [tba "t" "q"] false) /\
  colshape cul_ex_s = true /\
  forallb rel_ok [tba "t" "p"] = true /\ trefs_distinct (map rtref [tba "t" "p"]) = true /\
  forallb rel_ok [tba "t" "q"] = true /\ trefs_distinct (map rtref [tba "t" "q"]) = true /\
  (exists r r', In r [tba "t" "p"] /\ In r' [tba "t" "q"] /\ tref_clash (rtref r) (rtref r') = true).
Proof.
  split; [left; exists None; reflexivity|].
  repeat split; try (vm_compute; reflexivity).
  exists (tba "t" "p"), (tba "t" "q"). repeat split; try (left; reflexivity).
Qed.

(** a second instance, where the premises of [leak_free] are met by an actual triple [r0 = r], [r'] (the alias p of the
    second branch is the alias of t in the first, and both name the same table) *)
Definition cul_ex_s2 : stmt :=
  SCtas (None, "x") (uq [ci (Some "p") "a"] [tba "t" "p"; tb "u"] true [ci (Some "p") "b"] [tba "t" "p"] false).

Example colshape_union_leak_nonvacuous2 :
  union_stmt_of cul_ex_s2 (None, "x") (uq [ci (Some "p") "a"] [tba "t" "p"; tb "u"] true [ci (Some "p") "b"] [tba "t" "p"] false) /\
  colshape cul_ex_s2 = true /\
  forallb rel_ok [tba "t" "p"; tb "u"] = true /\ trefs_distinct (map rtref [tba "t" "p"; tb "u"]) = true /\
  forallb rel_ok [tba "t" "p"] = true /\ trefs_distinct (map rtref [tba "t" "p"]) = true /\
  (In (tba "t" "p") [tba "t" "p"; tb "u"] /\ In (tba "t" "p") [tba "t" "p"] /\ rname (tba "t" "p") = "p" /\
   ralias (tba "t" "p") = Some "p" /\ tref_clash (rtref (tba "t" "p")) (rtref (tba "t" "p")) = true).
Proof.
  split; [right; left; reflexivity|].
  repeat split; try (vm_compute; reflexivity); left; reflexivity.
Qed.

(** K-C02-4 ([cxB_alias_reuse]): the alias r of the second branch (on t4) is the alias of s1.t1 in the first branch, which
    also reads t4: not leak free, and [colshape] rejects the statement *)
Example cxB_alias_reuse_leaks :
  ~ leak_free [tbs "s1" "t1" (Some "r"); tba "t4" "q"] [tba "t4" "r"].
Proof.
  intros H.
  specialize (H (tbs "s1" "t1" (Some "r")) (tba "t4" "q") (tba "t4" "r") "r").
  assert (E : tba "t4" "q" = tbs "s1" "t1" (Some "r")).
  { apply H; try reflexivity; cbn [In]; auto. }
  discriminate E.
Qed.

Example cxB_alias_reuse_is_union :
  union_stmt_of cxB_alias_reuse tx
    (uq [ci (Some "r") "k"] [tbs "s1" "t1" (Some "r"); tba "t4" "q"] false [ci (Some "r") "z"] [tba "t4" "r"] false) /\
  colshape cxB_alias_reuse = false.
Proof. split; [left; exists None; reflexivity|vm_compute; reflexivity]. Qed.
