(** C10 without the EValue disjunct, part 3: the write statements at top level - INSERT / CREATE (this file, first part),
    UPDATE, MERGE, WITH .. INSERT - around [extract_strict] of Tree/TotalValue2.v. *)
From SV Require Import Holder.PathProofs Holder.RefineGraph.
From SV Require Import Tree.Observe Tree.TriviaProofs Tree.LemmaAProofs Tree.HolderInv Tree.ExtractInv
     Tree.TotalDefs Tree.TotalHolder Tree.TotalMain Tree.TotalMerge Tree.TotalValue Tree.TotalV2Base Tree.TotalValue2.
Require Import Lia.
Open Scope string_scope.
Open Scope list_scope.
Import N.

(** * delegation and sub-queries, from [extract_strict] *)
Lemma ex_delegate_strict W f e k s g : qk k = true -> AW W -> efn s = true -> depth s <= f -> Q W g ->
  okr (Q W) (ex_delegate f e k s g true).
Proof.
  intros Hk HA H Hd (G & E & Np). unfold ex_delegate.
  set (cx := {| c_cte := Some (sq_cte g); c_write := Some (sq_write g); c_write_columns := Some (write_columns g) |}).
  assert (K : okr (Q (sq_write g)) (extract f e k s cx)).
  { apply (extract_strict f e k s cx Hk H Hd).
    - split; [|split]; cbn; intros l Hl; inversion Hl; subst; [exact (sq_cte_ok2 g G)|exact (sq_write_ok g G)|exact (write_columns_ok g G)].
    - split; cbn.
      + intros a b Ha Hb. destruct (NP_sq_write W g a Np Ha) as (wa & Hwa & Ea). destruct (NP_sq_write W g b Np Hb) as (wb & Hwb & Eb).
        exact (deqb_trans _ _ _ Ea (deqb_trans _ _ _ (HA wa wb Hwa Hwb) (deqb_sym _ _ Eb))).
      + intros cols Hc. inversion Hc; subst. exact (wc_good g G E). }
  apply (okr_bind _ _ _ _ K). intros sub Hsub. cbn [okg]. apply Q_compose; [split; [exact G|split; assumption]|].
  apply (Q_mono (sq_write g) W); [|exact Hsub]. intros w Hw. exact (NP_sq_write W g w Np Hw).
Qed.

Definition subq_ok (f : nat) (sq : dataset) : Prop :=
  dk sq = KSubq /\ exists q, dquery sq = Some q /\ efn q = true /\ depth q <= f.

Lemma ex_subquery_strict W f e subs g : Forall (subq_ok f) subs -> Q W g -> okr (Q W) (ex_subquery f e subs g).
Proof.
  intros Hs G. unfold ex_subquery. eapply (okr_fold (Q W)); [|exact G].
  intros g' sq Hsq G'. rewrite Forall_forall in Hs. destruct (Hs sq Hsq) as [Hk (q & Eq & Eq2 & Dq)]. rewrite Eq. cbv zeta.
  set (cls := match get_child q ["with_compound_statement"] with Some _ => XCte | None => XSelect end).
  set (cx := {| c_cte := Some (sq_cte g'); c_write := Some [sq]; c_write_columns := None |}).
  assert (K : okr (Q [sq]) (extract f e cls q cx)).
  { apply (extract_strict f e cls q cx); [unfold cls; destruct (get_child q _); reflexivity|exact Eq2|exact Dq| |].
    - split; [|split]; cbn; intros l Hl; inversion Hl; subst; [exact (sq_cte_ok2 g' (proj1 G'))|constructor; [intros _; rewrite Eq; discriminate|constructor]].
    - split; [intros a b [<-|[]] [<-|[]]; apply deqb_refl|intros cols Hc; discriminate Hc]. }
  apply (okr_bind _ _ _ _ K). intros sh (Gs & Es & Ns). cbn [okg]. apply Q_compose; [exact G'|].
  apply (Q_mono [] W); [intros w []|]. split; [apply GI_set_attr_write; assumption|split; [exact Es|exact (NP_set_false sq sh Ns)]].
Qed.

Lemma subD_subq_ok f s d : depth s <= f -> subD s d -> subq_ok f d.
Proof. intros Hd [K (q & Eq & [Eq2 Dq])]. split; [exact K|]. exists q. split; [exact Eq|split; [exact Eq2|lia]]. Qed.

(** * children of a top-level write statement *)
Lemma lcs_children s b x : tyis s "bracketed" = false -> In x (list_child_segments s b) -> In x (children s).
Proof. intros H Hx. unfold list_child_segments in Hx. rewrite H in Hx. cbn [andb] in Hx. apply filter_In in Hx. exact (proj1 Hx). Qed.

Definition kids_ok (t : seg) : Prop := forall c, In c (children t) -> efn c = true.

Lemma kids_ok_of t : escape_free t = true -> forallb nw (children t) = true -> kids_ok t.
Proof.
  intros H Hn c Hc. rewrite efn_spec. rewrite forallb_forall in Hn. rewrite (Hn c Hc), andb_true_r.
  rewrite TotalDefs.escape_free_eq in H. apply andb_true_iff in H. destruct H as [_ H]. rewrite forallb_forall in H. exact (H c Hc).
Qed.

(* ================================================================== *)
(** * INSERT / CREATE *)
Definition TKW := ["INSERT"; "INTO"; "OVERWRITE"; "TABLE"; "VIEW"; "DIRECTORY"].

(** state machine of CreateInsertExtractor over the statement's children: [tf] = "a target is expected", [seen] = "a
    written dataset has been recorded".  At most one child is recorded as written. *)
Fixpoint ci_guard (segs : list seg) (tf seen : bool) : bool :=
  match segs with
  | [] => true
  | s :: r =>
      if tyis s "keyword" then
        ci_guard r (if mem_string (raw_upper s) TKW || (tf && mem_string (raw_upper s) ["IF"; "NOT"; "EXISTS"]) then true else tf) seen
      else
        let wr := tf && (ty_in s ["table_reference"; "object_reference"] || (tyis s "literal" && negb (is_numeric (raw s)))) in
        negb (wr && seen) && ci_guard r false (seen || wr)
  end.

Definition CI (l : list seg) (a : graph * bool * bool) : Prop :=
  exists W, AW W /\ Q W (fst (fst a)) /\ ci_guard l (snd (fst a)) (nonempty W) = true.

Lemma AW_one d : AW [d]. Proof. intros a b [<-|[]] [<-|[]]. apply deqb_refl. Qed.
Lemma nonempty_false {A} (l : list A) : nonempty l = false -> l = []. Proof. destruct l; [reflexivity|discriminate]. Qed.

Lemma ci_step_strict f e stmt s r ra : kids_ok stmt -> In s (children stmt) -> depth stmt <= S f ->
  okr (CI (s :: r)) ra -> okr (CI r) (ci_step f e stmt ra s).
Proof.
  intros Hk Hs Hd Hra. pose proof (Hk s Hs) as Es. pose proof (depth_child stmt s Hs) as Dsx.
  unfold ci_step. apply (okr_bind _ _ _ _ Hra). intros [[g tf] sf] (W & HA & G & Hg). cbn [fst snd] in G, Hg. cbn [ci_guard] in Hg.
  assert (Hdel : forall k' x gg, qk k' = true -> D s x -> Q W gg -> okr (Q W) (ex_delegate f e k' x gg true)).
  { intros k' x gg Hk' [Ex Dx] Gg. apply ex_delegate_strict; [exact Hk'|exact HA|exact Ex|lia|exact Gg]. }
  destruct (tyis s "keyword") eqn:Ekw.
  { pose proof (tyis_eq s _ Ekw) as Ety.
    assert (T1 : tyis s "with_compound_statement" = false) by (unfold tyis; rewrite Ety; reflexivity).
    assert (T2 : tyis s "bracketed" = false) by (unfold tyis; rewrite Ety; reflexivity).
    assert (T3 : ty_in s ["select_statement"; "set_expression"] = false) by (unfold ty_in; rewrite Ety; reflexivity).
    assert (T4 : tyis s "values_clause" = false) by (unfold tyis; rewrite Ety; reflexivity).
    rewrite T1, T2, T3, T4. cbn [andb]. cbv zeta.
    destruct (mem_string (raw_upper s) ["INSERT"; "INTO"; "OVERWRITE"; "TABLE"; "VIEW"; "DIRECTORY"] || (tf && mem_string (raw_upper s) ["IF"; "NOT"; "EXISTS"])) eqn:Eu;
      unfold TKW in Hg; rewrite Eu in Hg.
    - cbn [okg]. exists W. split; [exact HA|split; [exact G|exact Hg]].
    - destruct (mem_string (raw_upper s) ["LIKE"; "CLONE"]); cbn [okg]; exists W; (split; [exact HA|split; [exact G|exact Hg]]). }
  apply (okr_bind (fun st : graph * bool * bool * bool => exists g', st = (g', tf, sf, false) /\ Q W g')).
  { destruct (tyis s "with_compound_statement").
    { apply (okr_bind (Q W)); [exact (Hdel XCte s g eq_refl (D_refl s Es) G)|intros g' G'; exists g'; split; [reflexivity|exact G']]. }
    destruct (tyis s "bracketed" && _).
    { apply (okr_bind (Q W)); [|intros g' G'; exists g'; split; [reflexivity|exact G']].
      eapply (okr_fold (Q W)); [|exact G].
      intros gg c _ Gg. destruct (tyis c _); [exact (Hdel XCte s gg eq_refl (D_refl s Es) Gg)|exact Gg]. }
    destruct (ty_in s ["select_statement"; "set_expression"]).
    { apply (okr_bind (Q W)); [exact (Hdel XSelect s g eq_refl (D_refl s Es) G)|intros g' G'; exists g'; split; [reflexivity|exact G']]. }
    destruct (tyis s "values_clause").
    { apply (okr_bind (Q W)); [|intros g' G'; exists g'; split; [reflexivity|exact G']].
      apply okr_fold_acc; [|exact G]. intros r0 b Hb Hr. pose proof (Ds_get_children s _ b Es Hb) as Db.
      eapply (okr_fold (Q W)); [|exact Hr].
      intros gg ex Hex Gg. pose proof (Ds_get_children b _ ex (Ds_ef _ _ Db) Hex) as Dex.
      destruct (get_child ex ["bracketed"]) as [sb|] eqn:E1; [|exact Gg]. pose proof (Ds_get_child ex _ sb (Ds_ef _ _ Dex) E1) as D1.
      destruct (get_child sb ["expression"]) as [se|] eqn:E2; [|exact Gg]. pose proof (Ds_get_child sb _ se (Ds_ef _ _ D1) E2) as D2.
      destruct (get_child se ["select_statement"]) as [ss|] eqn:E3; [|exact Gg]. pose proof (Ds_get_child se _ ss (Ds_ef _ _ D2) E3) as D3.
      apply (Hdel XSelect ss gg eq_refl); [|exact Gg]. apply Ds_D. apply (Ds_D_trans _ b _ Db). apply Ds_D. apply (Ds_D_trans _ ex _ Dex). apply Ds_D.
      apply (Ds_D_trans _ sb _ D1). apply Ds_D. apply (Ds_D_trans _ se _ D2). apply Ds_D. exact D3. }
    destruct (tyis s "bracketed").
    { destruct (flat_map (crawl ["select_statement"; "set_expression"] false) [s]) as [|q0 qs] eqn:Eq.
      - destruct (forallb _ _); [|exists g; split; [reflexivity|exact G]].
        apply (okr_bind (Forall (fun c : column => cparents c = []))).
        + apply okr_map_res. intros x Hx. pose proof (Ds_lcs s true x Es Hx) as Dx.
          set (x' := if tyis x "column_definition" then match get_child x ["identifier"] with Some i => i | None => x end else x).
          assert (Dx' : D x x').
          { unfold x'. destruct (tyis x "column_definition"); [|exact (D_refl x (Ds_ef _ _ Dx))].
            destruct (get_child x ["identifier"]) as [i|] eqn:Ei; [|exact (D_refl x (Ds_ef _ _ Dx))]. exact (Ds_D _ _ (Ds_get_child x _ i (Ds_ef _ _ Dx) Ei)). }
          assert (Hdx : depth x' <= f) by (destruct Dx as [_ Dx]; destruct Dx' as [_ Dx']; lia).
          pose proof (column_of_seg_ok f e x' (D_ef _ _ Dx') Hdx) as K. destruct (column_of_seg f e x') as [c|k] eqn:Ec; [|exact K].
          cbn [okg]. exact (column_of_seg_shape f e x' c Ec).
        + intros cols Hcols. exists (add_write_column g cols). split; [reflexivity|]. apply Q_add_write_column; [exact HA|exact G|].
          apply Forall_forall. intros c Hc. rewrite Forall_forall in Hcols. split; [intros d0 Hd0; rewrite (Hcols c Hc) in Hd0; destruct Hd0|left; exact (Hcols c Hc)].
      - apply (okr_bind (Q W)); [|intros g' G'; exists g'; split; [reflexivity|exact G']].
        eapply (okr_fold (Q W)); [|exact G].
        intros gg q Hq Gg. apply (Hdel XSelect q gg eq_refl); [|exact Gg]. rewrite <- Eq in Hq. cbn [flat_map] in Hq. rewrite app_nil_r in Hq.
        exact (proj1 (D_crawl _ false s Es q Hq)). }
    exists g. split; [reflexivity|exact G]. }
  intros st (g1 & -> & G1). cbv beta iota. cbv zeta in Hg. apply andb_true_iff in Hg. destruct Hg as [Hw Hg].
  set (isref := ty_in s ["table_reference"; "object_reference"]) in *.
  assert (Hesc : escape_free s = true) by (rewrite efn_spec in Es; apply andb_true_iff in Es; exact (proj1 Es)).
  assert (K2 : okr (fun g2 => exists W', AW W' /\ Q W' g2 /\
                      nonempty W' = (nonempty W || (tf && (isref || (tyis s "literal" && negb (is_numeric (raw s)))))))
     (if tf then
        if isref then
          do t <- table_of_seg e s None;
          let g' := add_write g1 t in
          if p_truthy (e_provider e) && tyis stmt "insert_statement" then Ok (add_write_column g' (provider_columns e t)) else Ok g'
        else if tyis s "literal" then if is_numeric (raw s) then Ok g1 else Ok (add_write g1 (mk_path (escape (raw s))))
        else Ok g1
      else Ok g1)).
  { assert (Hsame : forall b, b = false -> exists W', AW W' /\ Q W' g1 /\ nonempty W' = (nonempty W || b)).
    { intros b ->. exists W. rewrite orb_false_r. split; [exact HA|split; [exact G1|reflexivity]]. }
    destruct tf; [|exact (Hsame _ eq_refl)]. cbn [andb] in *.
    assert (Hnew : forall d, ds_ok d -> (isref || (tyis s "literal" && negb (is_numeric (raw s)))) = true ->
                   W = [] /\ Q [d] (add_write g1 d)).
    { intros d Hdok Hwr. rewrite Hwr in Hw. cbn [andb] in Hw. rewrite negb_true_iff in Hw. pose proof (nonempty_false W Hw) as ->.
      split; [reflexivity|]. apply Q_add_write; [apply (Q_mono [] [d]); [intros w []|exact G1]|exact Hdok|apply near_self; left; reflexivity]. }
    destruct isref eqn:Eref.
    - unfold isref in Eref. apply (okr_bind _ _ _ _ (TotalLeaves.table_of_seg_ok e s None Hesc (TotalExtract.ty_in_2_3 s Eref))). intros t Ht. cbv zeta.
      destruct (Hnew t (ktable_ok t Ht) eq_refl) as [-> Gt].
      destruct (p_truthy (e_provider e) && tyis stmt "insert_statement"); cbn [okg]; exists [t]; (split; [apply AW_one|split; [|reflexivity]]); [|exact Gt].
      apply Q_add_write_column; [apply AW_one|exact Gt|]. unfold provider_columns. apply Forall_map_intro. intros cn _.
      split; [apply col_ok_one; exact (ktable_ok t Ht)|right; exists t; split; [reflexivity|apply near_self; left; reflexivity]].
    - cbn [orb] in *. destruct (tyis s "literal"); [|exact (Hsame _ eq_refl)]. cbn [andb] in *.
      destruct (is_numeric (raw s)); [exact (Hsame _ eq_refl)|]. cbn [negb] in *.
      assert (Hp : ds_ok (mk_path (escape (raw s)))) by (apply ds_ok_notsubq; discriminate).
      destruct (Hnew _ Hp eq_refl) as [-> Gt]. cbn [okg]. exists [mk_path (escape (raw s))]. split; [apply AW_one|split; [exact Gt|reflexivity]]. }
  apply (okr_bind _ _ _ _ K2). intros g2 (W' & HA' & G2 & Hne).
  apply (okr_bind (Q W')).
  { destruct sf; [|exact G2]. destruct (ty_in s ["table_reference"; "object_reference"]) eqn:Et; [|exact G2].
    apply (okr_bind _ _ _ _ (TotalLeaves.table_of_seg_ok e s None Hesc (TotalExtract.ty_in_2_3 s Et))). intros t Ht. cbn [okg]. apply Q_add_read; [exact G2|exact (ktable_ok t Ht)]. }
  intros g3 G3. cbn [okg]. exists W'. cbn [fst snd]. split; [exact HA'|split; [exact G3|]]. rewrite Hne. exact Hg.
Qed.

Theorem extract_ci_strict f e stmt ctx : escape_free stmt = true -> forallb nw (children stmt) = true -> tyis stmt "bracketed" = false ->
  ci_guard (list_child_segments stmt true) false false = true -> depth stmt <= S f -> ctx_ok ctx -> c_write ctx = None -> c_write_columns ctx = None ->
  okr (fun g => exists W, AW W /\ Q W g) (extract (S f) e XCreateInsert stmt ctx).
Proof.
  intros H Hn Hb Hg Hd Hc Hw Hwc. rewrite extract_ci_eq. pose proof (kids_ok_of stmt H Hn) as Hk.
  assert (HE : CTXE ctx).
  { unfold CTXE, wof. rewrite Hw, Hwc. split; [intros a b []|intros cols Hcols; discriminate Hcols]. }
  assert (K : forall l ra, (forall s, In s l -> In s (children stmt)) -> okr (CI l) ra ->
              okr (CI []) (fold_left (ci_step f e stmt) l ra)).
  { induction l as [|s r IH]; intros ra Hl Hra; cbn [fold_left]; [exact Hra|].
    apply IH; [intros x Hx; apply Hl; right; exact Hx|]. exact (ci_step_strict f e stmt s r ra Hk (Hl s (or_introl eq_refl)) Hd Hra). }
  apply (okr_bind (CI [])).
  - apply K; [intros s Hs; exact (lcs_children stmt true s Hb Hs)|]. cbn [okg]. exists []. cbn [fst snd nonempty].
    split; [intros a b []|split; [|exact Hg]]. pose proof (Q_init_holder ctx Hc HE) as Qi. unfold wof in Qi. rewrite Hw in Qi. exact Qi.
  - intros [[g tf] sf] (W & HA & G & _). cbn [okg fst]. exists W. split; assumption.
Qed.

(* ================================================================== *)
(** * UPDATE: no write columns are inherited or added, the own lineage targets have one parent *)
Definition UQ (f : nat) (a : upd_state) : Prop :=
  (exists W, Q W (fst (fst (fst a)))) /\ xnil (snd (fst a)) /\ Forall (subq_ok f) (snd a).

Lemma Q_grow W d g : Q W g -> Q (d :: W) g.
Proof. apply Q_mono. intros w Hw. apply near_self. right; exact Hw. Qed.
Lemma Q_write_any W g d : Q W g -> ds_ok d -> Q (d :: W) (add_write g d).
Proof. intros G Hd. apply Q_add_write; [apply Q_grow; exact G|exact Hd|apply near_self; left; reflexivity]. Qed.

Lemma upd_step_strict f e stmt a s : escape_free stmt = true -> kids_ok stmt -> In s (children stmt) -> depth stmt <= S f ->
  UQ f a -> okr (UQ f) (upd_step e stmt a s).
Proof.
  intros H Hk Hs Hd Ha. pose proof (Hk s Hs) as Es. pose proof (depth_child stmt s Hs) as Dsx.
  destruct a as [[[g tf] cols] subs]. destruct Ha as ((W & G) & Hc & Hsub). cbn [fst snd] in G, Hc, Hsub. unfold upd_step.
  apply (okr_bind (fun g1 => exists W1, Q W1 g1)).
  { destruct (tyis s "from_expression"); [|exists W; exact G]. apply (okr_bind _ _ _ _ (TotalExtract.list_tables_ok e stmt g H (proj1 G))). intros ts Hts.
    destruct ts as [|w rs]; [exists W; exact G|]. inversion Hts; subst. cbn [okg]. exists (w :: W).
    apply (Q_fold (w :: W) add_read ds_ok (Q_add_read (w :: W))); [apply Q_write_any; assumption|assumption]. }
  intros g1 (W1 & G1). destruct (tyis s "keyword" && _); [split; [exists W1; exact G1|split; assumption]|].
  apply (okr_bind (fun g2 => exists W2, Q W2 g2)).
  { destruct tf; [|exists W1; exact G1]. apply (okr_bind _ _ _ _ (find_table_ok e s Es)). intros t Ht. cbn [okg].
    destruct t as [d|]; [|exists W1; exact G1]. exists (d :: W1). apply Q_write_any; [exact G1|exact (ktable_ok d (Ht d eq_refl))]. }
  intros g2 (W2 & G2). apply (okr_bind xnil).
  { destruct (tyis s "set_clause_list"); [|exact Hc]. apply (okr_bind (Forall (fun x => cparents (xc x) = []))).
    - apply okr_concat_map. intros sc Hsc. pose proof (Ds_get_children s _ sc Es Hsc) as Dsc.
      destruct (get_children sc ["column_reference"]) as [|c0 [|c1 [|c2 r]]] eqn:Ec; try constructor.
      assert (E0 : efn c0 = true) by (apply (Ds_ef sc); apply (Ds_get_children sc ["column_reference"] c0 (Ds_ef _ _ Dsc)); rewrite Ec; left; reflexivity).
      assert (E1 : efn c1 = true) by (apply (Ds_ef sc); apply (Ds_get_children sc ["column_reference"] c1 (Ds_ef _ _ Dsc)); rewrite Ec; right; left; reflexivity).
      apply (okr_bind _ _ _ _ (extract_column_qualifier_ok c0 E0)). intros t _.
      apply (okr_bind _ _ _ _ (extract_column_qualifier_ok c1 E1)). intros sr _. cbn [okg].
      destruct t as [tq|]; [|constructor]. destruct sr as [sq|]; [|constructor]. constructor; [reflexivity|constructor].
    - intros cs Hcs. cbn [okg]. intros x Hx. apply in_app_or in Hx. rewrite Forall_forall in Hcs. destruct Hx as [Hx|Hx]; [exact (Hc x Hx)|exact (Hcs x Hx)]. }
  intros cols' Hc'. apply (okr_bind (fun r3 : graph * list dataset => (exists W3, Q W3 (fst r3)) /\ Forall (subq_ok f) (snd r3))).
  { destruct (tyis s "from_clause"); [|split; [exists W2; exact G2|exact Hsub]].
    apply (okr_bind _ _ _ _ (list_subquery_D s Es)). intros sqs Hsqs.
    apply (okr_bind _ _ _ _ (list_tables_ok e s g2 Es (proj1 G2))). intros ts Hts. cbn [okg fst snd]. split.
    - exists W2. apply (Q_fold W2 add_read ds_ok (Q_add_read W2)); assumption.
    - apply Forall_app. split; [exact Hsub|]. exact (Forall_impl _ (fun d Hd0 => subD_subq_ok f s d ltac:(lia) Hd0) Hsqs). }
  intros r3 [G3 S3]. cbn [okg]. split; [exact G3|split; assumption].
Qed.

Lemma upd_col_strict W e g x : Q W g -> cparents (xc x) = [] -> okr (Q W) (upd_col e g x).
Proof.
  intros G Hx. unfold upd_col. destruct (sq_write g) as [|w r] eqn:Ew; [exact G|]. cbv zeta.
  assert (Hw : ds_ok w) by (apply (holder_nodes_ok g "write" w (proj1 G)); unfold sq_write in Ew; rewrite Ew; left; reflexivity).
  apply (okr_bind (Forall col_ok)).
  - apply to_source_columns_ok. apply get_alias_mapping_ok; [exact (proj1 G)|]. apply Forall_forall. intros d Hd. exact (holder_nodes_ok g "read" d (proj1 G) Hd).
  - intros srcs Hsrcs. eapply (okr_fold (Q W)); [|exact G].
    intros g'' sc Hsc G''. rewrite Forall_forall in Hsrcs.
    assert (Hp : cparents (add_parent (xc x) w) = [w]) by (unfold add_parent; rewrite Hx; reflexivity).
    apply (acl_strict W g'' sc _ w G'' (Hsrcs sc Hsc)); [|exact Hp]. intros d Hd. rewrite Hp in Hd. destruct Hd as [<-|[]]. exact Hw.
Qed.

Theorem extract_update_strict f e stmt ctx : escape_free stmt = true -> forallb nw (children stmt) = true -> tyis stmt "bracketed" = false ->
  depth stmt <= S f -> ctx_ok ctx -> c_write ctx = None -> c_write_columns ctx = None ->
  okr (fun g => exists W, Q W g) (extract (S f) e XUpdate stmt ctx).
Proof.
  intros H Hn Hb Hd Hc Hw Hwc. rewrite extract_update_eq. pose proof (kids_ok_of stmt H Hn) as Hk.
  assert (HE : CTXE ctx) by (unfold CTXE, wof; rewrite Hw, Hwc; split; [intros a b []|intros cols Hcols; discriminate Hcols]).
  apply (okr_bind (UQ f)).
  - eapply (okr_fold (UQ f)).
    + intros a s Hs Ha. exact (upd_step_strict f e stmt a s H Hk (lcs_children stmt true s Hb Hs) Hd Ha).
    + split; [exists (wof ctx); exact (Q_init_holder ctx Hc HE)|]. split; [intros x []|constructor].
  - intros [[[g tf] cols] subs] ((W & G) & Hx & Hs). cbn [fst snd] in G, Hx, Hs.
    apply (okr_bind (Q W)).
    + eapply (okr_fold (Q W)); [|exact G]. intros g' x Hin G'. exact (upd_col_strict W e g' x G' (Hx x Hin)).
    + intros g1 G1. refine (okr_weaken _ _ _ _ (ex_subquery_strict W f e subs g1 Hs G1)). intros g2 G2. exists W. exact G2.
Qed.

(* ================================================================== *)
(** * MERGE: every lineage target is [plain_col _ (Some w)] (one parent); the bracketed source goes through [extract_strict] *)
Lemma plain_one name w : cparents (plain_col name (Some w)) = [w]. Proof. reflexivity. Qed.

Lemma merge_matched_strict W s g direct : efn s = true -> Q W g -> (forall d, direct = Some d -> ds_ok d) ->
  okr (Q W) (merge_matched s g direct).
Proof.
  intros Es HG Hdir. unfold merge_matched.
  eapply (okr_fold (Q W)); [|exact HG]. intros gg wm Hwm Hgg. pose proof (Ds_get_children s _ wm Es Hwm) as Dwm.
  destruct (get_child wm ["merge_update_clause"]) as [muc|] eqn:E1; [|exact Hgg]. pose proof (Ds_get_child wm _ muc (Ds_ef _ _ Dwm) E1) as D1.
  destruct (get_child muc ["set_clause_list"]) as [scl|] eqn:E2; [|exact Hgg]. pose proof (Ds_get_child muc _ scl (Ds_ef _ _ D1) E2) as D2.
  eapply (okr_fold (Q W)); [|exact Hgg]. intros g2 sc Hsc G2. pose proof (Ds_get_children scl _ sc (Ds_ef _ _ D2) Hsc) as Dsc.
  destruct (get_children sc ["column_reference"]) as [|c0 [|c1 [|c2 rr]]] eqn:Ec; try exact G2.
  assert (E0 : efn c0 = true) by (apply (Ds_ef sc); apply (Ds_get_children sc ["column_reference"] c0 (Ds_ef _ _ Dsc)); rewrite Ec; left; reflexivity).
  assert (E1' : efn c1 = true) by (apply (Ds_ef sc); apply (Ds_get_children sc ["column_reference"] c1 (Ds_ef _ _ Dsc)); rewrite Ec; right; left; reflexivity).
  apply (okr_bind _ _ _ _ (extract_column_qualifier_ok c1 E1')). intros sq _.
  apply (okr_bind (fun o : option column => forall c, o = Some c -> col_ok c /\ exists p, cparents c = [p])).
  - destruct (st_write g2) as [|w wr] eqn:Ew; [intros c K; discriminate K|].
    apply (okr_bind _ _ _ _ (extract_column_qualifier_ok c0 E0)). intros tq _. cbn [okg].
    destruct tq as [t|]; [|intros c K; discriminate K]. intros c K. inversion K. split; [|exists w; reflexivity]. apply plain_col_ok.
    intros d Kd. inversion Kd; subst. exact (st_write_head_ok g2 d wr (proj1 G2) Ew).
  - intros tcol Htc. destruct sq as [sc0|]; [|exact G2]. destruct tcol as [tc|]; [|exact G2]. destruct (Htc tc eq_refl) as [Hok (p & Hp)].
    exact (acl_strict W g2 _ tc p G2 (plain_col_ok _ _ Hdir) Hok Hp).
Qed.

Lemma merge_not_matched_strict W s g direct : efn s = true -> Q W g -> (forall d, direct = Some d -> ds_ok d) ->
  okr (Q W) (merge_not_matched s g direct).
Proof.
  intros Es HG Hdir. unfold merge_not_matched.
  eapply (okr_fold (Q W)); [|exact HG]. intros gg wn Hwn Gg. pose proof (Ds_get_children s _ wn Es Hwn) as Dwn.
  destruct (get_child wn ["merge_insert_clause"]) as [mi|] eqn:E1; [|exact Gg]. pose proof (Ds_get_child wn _ mi (Ds_ef _ _ Dwn) E1) as D1.
  destruct (get_child mi ["bracketed"]) as [b|] eqn:E2; [|exact Gg]. pose proof (Ds_get_child mi _ b (Ds_ef _ _ D1) E2) as D2.
  apply (okr_bind (Forall (fun c => col_ok c /\ exists p, cparents c = [p]))).
  - apply okr_concat_map. intros cr Hcr. pose proof (Ds_get_children b _ cr (Ds_ef _ _ D2) Hcr) as Dcr.
    destruct (st_write gg) as [|w wr] eqn:Ew; [constructor|].
    apply (okr_bind _ _ _ _ (extract_column_qualifier_ok cr (Ds_ef _ _ Dcr))). intros q _.
    destruct q as [c|]; [|constructor]. cbn [okg]. constructor; [|constructor]. split; [|exists w; reflexivity].
    apply plain_col_ok. intros d Kd. inversion Kd; subst. exact (st_write_head_ok gg d wr (proj1 Gg) Ew).
  - intros ins Hins. destruct (get_child mi ["values_clause"]) as [vc|] eqn:E3; [|exact Gg]. pose proof (Ds_get_child mi _ vc (Ds_ef _ _ D1) E3) as D3.
    destruct (get_child vc ["bracketed"]) as [vb|] eqn:E4; [|exact Gg]. pose proof (Ds_get_child vc _ vb (Ds_ef _ _ D3) E4) as D4.
    eapply (okr_fold_idx (Q W)); [|exact Gg]. intros g3 j ex Hex G3. pose proof (Ds_get_children vb _ ex (Ds_ef _ _ D4) Hex) as Dex.
    destruct (get_child ex ["column_reference"]) as [cro|] eqn:E5; [|exact G3]. pose proof (Ds_get_child ex _ cro (Ds_ef _ _ Dex) E5) as D5.
    apply (okr_bind _ _ _ _ (extract_column_qualifier_ok cro (Ds_ef _ _ D5))). intros q _.
    destruct q as [c|]; [|exact G3]. destruct (nth_error ins j) as [tc|] eqn:En; [|exact G3].
    rewrite Forall_forall in Hins. destruct (Hins tc (nth_error_In _ _ En)) as [Hok (p & Hp)].
    exact (acl_strict W g3 _ tc p G3 (plain_col_ok _ _ Hdir) Hok Hp).
Qed.

Definition MQ (l : list seg) (a : mstate) : Prop :=
  let '(g, tf, sf, direct) := a in
  (exists W, Q W g) /\ (forall d, direct = Some d -> ds_ok d) /\ merge_guard l sf = true.

Lemma merge_step_strict fuel e stmt pre s r a :
  kids_ok stmt -> tyis stmt "bracketed" = false -> depth stmt <= fuel -> list_child_segments stmt true = pre ++ s :: r ->
  MQ (s :: r) a -> okr (MQ r) (merge_step fuel e (list_child_segments stmt true) a (List.length pre) s).
Proof.
  intros Hk Hb Hfuel Eseg Ha. destruct a as [[[g tf] sf] direct]. destruct Ha as ((W & G) & Hdir & Hg).
  assert (Hin : forall x, In x (s :: r) -> In x (children stmt)).
  { intros x Hx. apply (lcs_children stmt true x Hb). rewrite Eseg. apply in_or_app. right. exact Hx. }
  pose proof (Hk s (Hin s (or_introl eq_refl))) as Es. pose proof (depth_child stmt s (Hin s (or_introl eq_refl))) as Dsx.
  unfold merge_step. fold (merge_matched s g direct). cbn [merge_guard] in Hg.
  destruct (tyis s "merge_match") eqn:Emm.
  { apply (okr_bind (fun st : graph * bool * bool * option dataset * bool => exists g2, st = (g2, tf, sf, direct, false) /\ Q W g2)).
    - apply (okr_bind (Q W)); [exact (merge_matched_strict W s g direct Es G Hdir)|]. intros g1 G1.
      apply (okr_bind (Q W)); [exact (merge_not_matched_strict W s g1 direct Es G1 Hdir)|]. intros g2 G2. exists g2. split; [reflexivity|exact G2].
    - intros st (g2 & -> & G2). cbv beta iota.
      assert (Eref : ty_in s ["table_reference"; "object_reference"] = false) by (apply tyis_eq in Emm; unfold ty_in; rewrite Emm; reflexivity).
      rewrite (find_table_noref e s Eref). rewrite (tyis_other s _ "bracketed" Emm eq_refl).
      destruct tf, sf; cbn; (split; [exists W; exact G2|split; [exact Hdir|exact Hg]]). }
  destruct (tyis s "keyword") eqn:Ekw.
  { cbv zeta. destruct (mem_string (raw_upper s) ["MERGE"; "INTO"]) eqn:Emi.
    - assert (Eu : String.eqb (raw_upper s) "USING" = false).
      { cbn [mem_string] in Emi. destruct (String.eqb_spec (raw_upper s) "USING") as [Eq|]; [|reflexivity]. rewrite Eq in Emi. discriminate Emi. }
      rewrite Eu in Hg. cbn. split; [exists W; exact G|split; [exact Hdir|exact Hg]].
    - destruct (String.eqb (raw_upper s) "USING"); cbn; (split; [exists W; exact G|split; [exact Hdir|exact Hg]]). }
  cbv beta iota. apply andb_true_iff in Hg. destruct Hg as [Hnx Hg].
  assert (Hesc : escape_free s = true) by (rewrite efn_spec in Es; apply andb_true_iff in Es; exact (proj1 Es)).
  destruct (ty_in s ["table_reference"; "object_reference"]) eqn:Eref.
  - rewrite (find_table_ref e s Eref).
    pose proof (TotalLeaves.table_of_seg_ok e s None Hesc (TotalExtract.ty_in_2_3 s Eref)) as Kt.
    assert (K2 : okr (fun g2 => exists W2, Q W2 g2) (if tf then do t <- (do t <- table_of_seg e s None; Ok (Some t)); Ok (match t with Some d => add_write g d | None => g end) else Ok g)).
    { destruct tf; [|exists W; exact G]. apply (okr_bind (fun o : option dataset => exists d, o = Some d /\ dk d = KTable)).
      - apply (okr_bind _ _ _ _ Kt). intros t Ht. exists t. split; [reflexivity|exact Ht].
      - intros o (d & -> & Hkd). cbn [okg]. exists (d :: W). apply Q_write_any; [exact G|exact (ktable_ok d Hkd)]. }
    apply (okr_bind _ _ _ _ K2). intros g2 (W2 & G2).
    destruct sf.
    + apply (okr_bind (fun o : option dataset => exists d, o = Some d /\ dk d = KTable)).
      * apply (okr_bind _ _ _ _ Kt). intros t Ht. exists t. split; [reflexivity|exact Ht].
      * intros o (d & -> & Hkd). cbn. split; [exists W2; apply Q_add_read; [exact G2|exact (ktable_ok d Hkd)]|]. split; [intros d0 K; inversion K; subst; exact (ktable_ok d0 Hkd)|exact Hg].
    + cbn. split; [exists W2; exact G2|]. split; [exact Hdir|exact Hg].
  - rewrite (find_table_noref e s Eref). cbn [negb] in Hnx. rewrite andb_true_r in Hnx.
    assert (E2 : (if tf then do t <- Ok (@None dataset); Ok (match t with Some d => add_write g d | None => g end) else Ok g) = Ok g) by (destruct tf; reflexivity).
    rewrite E2. cbv beta iota.
    destruct sf; [|cbn; split; [exists W; exact G|split; [exact Hdir|exact Hg]]].
    cbv beta iota. destruct (tyis s "bracketed") eqn:Ebr; [|cbn; split; [exists W; exact G|split; [exact Hdir|exact Hg]]].
    cbn [andb] in Hnx. rewrite Eseg, nth_after. destruct r as [|nx r']; [discriminate Hnx|]. change (nth_res (nx :: r') 0) with (Ok nx). cbv beta iota.
    pose proof (Hk nx (Hin nx (or_intror (or_introl eq_refl)))) as Enx.
    apply (okr_bind TT).
    { destruct (tyis nx "alias_expression") eqn:Ea; [|exact I]. apply (okr_bind TT); [|intros i _; exact I].
      apply extract_identifier_ok; [exact Enx|rewrite Ea; reflexivity]. }
    intros alias _. cbv zeta.
    set (q := extract_innermost_bracketed s). set (ds := mk_subquery q alias).
    destruct (D_eib s Es) as [Eq Dq]. fold q in Eq, Dq.
    assert (G3 : Q W (add_read g ds)) by (apply Q_add_read; [exact G|apply mk_subquery_ds_ok]).
    set (cls := match get_child q ["with_compound_statement"] with Some _ => XCte | None => XSelect end).
    set (cx := {| c_cte := Some (sq_cte (add_read g ds)); c_write := Some [ds]; c_write_columns := None |}).
    assert (K : okr (Q [ds]) (extract fuel e cls q cx)).
    { apply (extract_strict fuel e cls q cx); [unfold cls; destruct (get_child q _); reflexivity|exact Eq|lia| |].
      - split; [|split]; cbn; intros l Hl; inversion Hl; subst; [exact (sq_cte_ok2 _ (proj1 G3))|constructor; [apply mk_subquery_ds_ok|constructor]].
      - split; [intros a b [<-|[]] [<-|[]]; apply deqb_refl|intros cols Hc; discriminate Hc]. }
    apply (okr_bind _ _ _ _ K). intros sub Gsub. cbn [okg MQ]. split; [|split; [intros d K0; inversion K0; subst; apply mk_subquery_ds_ok|exact Hg]].
    exists (ds :: W). apply Q_compose; [apply Q_grow; exact G3|]. apply (Q_mono [ds]); [|exact Gsub]. intros w [<-|[]]. apply near_self. left; reflexivity.
Qed.

Lemma merge_fold_strict fuel e stmt : kids_ok stmt -> tyis stmt "bracketed" = false -> depth stmt <= fuel ->
  forall l pre ra, list_child_segments stmt true = pre ++ l -> okr (MQ l) ra ->
  okr (MQ []) (fst (fold_left (fun (accp : res mstate * nat) s => let '(acc, i) := accp in
                  (do a <- acc; merge_step fuel e (list_child_segments stmt true) a i s, S i)) l (ra, List.length pre))).
Proof.
  intros Hk Hb Hfuel. induction l as [|s r IH]; intros pre ra Eseg Hra; cbn [fold_left fst]; [exact Hra|].
  assert (E2 : list_child_segments stmt true = (pre ++ [s]) ++ r) by (rewrite <- app_assoc; exact Eseg).
  replace (S (List.length pre)) with (List.length (pre ++ [s])) by (rewrite app_length; cbn; lia).
  apply (IH (pre ++ [s]) _ E2). apply (okr_bind _ _ _ _ Hra). intros a Ha. exact (merge_step_strict fuel e stmt pre s r a Hk Hb Hfuel Eseg Ha).
Qed.

Theorem extract_merge_strict fuel e stmt : escape_free stmt = true -> forallb nw (children stmt) = true ->
  tyis stmt "merge_statement" = true -> depth stmt <= fuel -> okr TT (extract_merge fuel e stmt).
Proof.
  intros H Hn T Hd. rewrite extract_merge_eq. cbv zeta. apply (okr_bind (MQ [])); [|intros r _; exact I].
  apply (merge_fold_strict fuel e stmt (kids_ok_of stmt H Hn) (tyis_other stmt _ "bracketed" T eq_refl) Hd (list_child_segments stmt true) [] _ eq_refl).
  cbn [okg MQ]. split; [exists []; apply Q_empty|]. split; [intros d K; discriminate K|exact (TotalLeaves.L7 stmt H T)].
Qed.

(* ================================================================== *)
(** * WITH .. INSERT / WITH .. UPDATE at top level: one write statement among the children, no SELECT after it *)
Fixpoint with_guard (segs : list seg) (seen : bool) : bool :=
  match segs with
  | [] => true
  | s :: r =>
      if tyis s "insert_statement" then
        negb seen && forallb nw (children s) && ci_guard (list_child_segments s true) false false && with_guard r true
      else if tyis s "update_statement" then negb seen && forallb nw (children s) && with_guard r true
      else nw s && negb (seen && ty_in s ["select_statement"; "set_expression"]) && with_guard r seen
  end.

Definition WQ (stmt : seg) (l : list seg) (a : graph * list dataset) : Prop :=
  exists seen W, Q W (fst a) /\ (seen = false -> W = []) /\ with_guard l seen = true /\ Forall (subDs stmt) (snd a).

Lemma AW_nil : AW []. Proof. intros a b []. Qed.

Lemma with_step_strict f e stmt s r ra : escape_free stmt = true -> In s (children stmt) -> depth stmt <= S f ->
  okr (WQ stmt (s :: r)) ra -> okr (WQ stmt r) (cte_step f e ra s).
Proof.
  intros H Hs Hd Hra. pose proof (depth_child stmt s Hs) as Dsx.
  assert (Hesc : escape_free s = true).
  { rewrite TotalDefs.escape_free_eq in H. apply andb_true_iff in H. destruct H as [_ H]. rewrite forallb_forall in H. exact (H s Hs). }
  unfold cte_step. apply (okr_bind _ _ _ _ Hra). intros [g subs] (seen & W & G & Hw & Hg & S0). cbn [fst snd] in G, S0. cbn [with_guard] in Hg.
  assert (Hcomp : forall k' (P : graph -> Prop), (forall sub, P sub -> exists W', Q W' sub) -> seen = false ->
            okr P (extract f e k' s {| c_cte := Some (sq_cte g); c_write := None; c_write_columns := None |}) -> with_guard r true = true ->
            okr (WQ stmt r) (do g' <- ex_delegate f e k' s g false; Ok (g', subs))).
  { intros k' P HP Hseen K Hg'. unfold ex_delegate. apply (okr_bind (fun g' => exists W', Q W' g')).
    - apply (okr_bind _ _ _ _ K). intros sub Psub. destruct (HP sub Psub) as (W' & Gs). cbn [okg]. exists W'.
      apply Q_compose; [|exact Gs]. rewrite (Hw Hseen) in G. apply (Q_mono [] W'); [intros w []|exact G].
    - intros g' (W' & G'). cbn [okg]. exists true, W'. cbn [fst snd]. split; [exact G'|split; [intros K0; discriminate K0|split; [exact Hg'|exact S0]]]. }
  assert (Hctx : ctx_ok {| c_cte := Some (sq_cte g); c_write := None; c_write_columns := None |}).
  { split; [|split]; cbn; intros l Hl; inversion Hl; subst. exact (sq_cte_ok2 g (proj1 G)). }
  assert (Hf : exists f', f = S f') by (destruct f as [|f']; [pose proof (depth_pos s); lia|exists f'; reflexivity]).
  destruct Hf as (f' & ->).
  destruct (tyis s "insert_statement") eqn:Ei.
  { assert (T0 : ty_in s ["select_statement"; "set_expression"] = false) by (apply tyis_eq in Ei; unfold ty_in; rewrite Ei; reflexivity). rewrite T0.
    apply andb_true_iff in Hg. destruct Hg as [Hg Hg']. apply andb_true_iff in Hg. destruct Hg as [Hg Hci]. apply andb_true_iff in Hg. destruct Hg as [Hseen Hn].
    rewrite negb_true_iff in Hseen.
    apply (Hcomp XCreateInsert (fun g0 => exists W0, AW W0 /\ Q W0 g0)); [intros sub (W0 & _ & G0); exists W0; exact G0|exact Hseen| |exact Hg'].
    apply (extract_ci_strict f' e s _ Hesc Hn (tyis_other s _ "bracketed" Ei eq_refl) Hci ltac:(lia) Hctx eq_refl eq_refl). }
  destruct (tyis s "update_statement") eqn:Eu.
  { assert (T0 : ty_in s ["select_statement"; "set_expression"] = false) by (apply tyis_eq in Eu; unfold ty_in; rewrite Eu; reflexivity). rewrite T0.
    apply andb_true_iff in Hg. destruct Hg as [Hg Hg']. apply andb_true_iff in Hg. destruct Hg as [Hseen Hn]. rewrite negb_true_iff in Hseen.
    apply (Hcomp XUpdate (fun g0 => exists W0, Q W0 g0)); [intros sub K0; exact K0|exact Hseen| |exact Hg'].
    apply (extract_update_strict f' e s _ Hesc Hn (tyis_other s _ "bracketed" Eu eq_refl) ltac:(lia) Hctx eq_refl eq_refl). }
  apply andb_true_iff in Hg. destruct Hg as [Hg Hg']. apply andb_true_iff in Hg. destruct Hg as [Hnw Hsel].
  assert (Es : efn s = true) by (rewrite efn_spec, Hesc, Hnw; reflexivity).
  assert (Hkeep : forall g', Q W g' -> WQ stmt r (g', subs)).
  { intros g' G'. exists seen, W. cbn [fst snd]. split; [exact G'|split; [exact Hw|split; [exact Hg'|exact S0]]]. }
  destruct (ty_in s ["select_statement"; "set_expression"]) eqn:Esel.
  { rewrite andb_true_r, negb_true_iff in Hsel. rewrite (Hw Hsel) in *.
    apply (okr_bind (Q [])); [apply (ex_delegate_strict [] (S f') e XSelect s g eq_refl AW_nil Es ltac:(lia) G)|]. intros g' G'. exact (Hkeep g' G'). }
  destruct (tyis s "common_table_expression"); [|exact (Hkeep g G)].
  refine (okr_weaken _ _ _ _ (cte_inner_ok2 W stmt (list_child_segments s true) (Ok (g, subs)) None _ (conj G S0))).
  - intros [g' subs'] [G' S']. exists seen, W. split; [exact G'|split; [exact Hw|split; [exact Hg'|exact S']]].
  - intros sub Hsub. destruct (Ds_lcs s true sub Es Hsub) as [E1 D1]. split; [exact E1|lia].
Qed.

Theorem extract_with_strict f e stmt : escape_free stmt = true -> tyis stmt "bracketed" = false ->
  with_guard (list_child_segments stmt true) false = true -> depth stmt <= S f ->
  okr (fun g => exists W, Q W g) (extract (S f) e XCte stmt empty_ctx).
Proof.
  intros H Hb Hg Hd. rewrite extract_cte_eq.
  assert (K : forall l ra, (forall s, In s l -> In s (children stmt)) -> okr (WQ stmt l) ra -> okr (WQ stmt []) (fold_left (cte_step f e) l ra)).
  { induction l as [|s r IH]; intros ra Hl Hra; cbn [fold_left]; [exact Hra|].
    apply IH; [intros x Hx; apply Hl; right; exact Hx|]. exact (with_step_strict f e stmt s r ra H (Hl s (or_introl eq_refl)) Hd Hra). }
  apply (okr_bind (WQ stmt [])).
  - apply K; [intros s Hs; exact (lcs_children stmt true s Hb Hs)|]. cbn [okg]. exists false, []. cbn [fst snd].
    split; [exact (Q_init_holder empty_ctx ctx_ok_empty CTXE_empty)|split; [reflexivity|split; [exact Hg|constructor]]].
  - intros [g subs] (seen & W & G & _ & _ & S0). cbn [fst snd] in *.
    refine (okr_weaken _ _ _ _ (ex_subquery_strict W f e subs g _ G)); [intros g2 G2; exists W; exact G2|].
    apply Forall_forall. intros d Hin. rewrite Forall_forall in S0. destruct (S0 d Hin) as [K0 (q & Hq1 & Hq2 & Hq3)].
    split; [exact K0|]. exists q. split; [exact Hq1|split; [exact Hq2|lia]].
Qed.

(* ================================================================== *)
(** * every statement type *)
From SV Require Import Tree.TotalTop.

(** the remaining executable guard: below the top-level write statement there is no further write site
    ([nw]: no SELECT .. INTO clause, no nested INSERT / UPDATE statement, no vertica SWAP_PARTITIONS_BETWEEN_TABLES call);
    an INSERT / CREATE records at most one written dataset ([ci_guard]); a WITH has at most one INSERT / UPDATE among
    its statements and no SELECT after it ([with_guard]) *)
Definition nw_inner (t : seg) : bool :=
  if mem_string (ty t) ["select_statement"; "set_expression"; "bracketed"] then nw t
  else if mem_string (ty t) ["create_table_statement"; "create_table_as_statement"; "create_view_statement";
                             "insert_statement"; "insert_overwrite_directory_hive_fmt_statement"]
       then forallb nw (children t) && ci_guard (list_child_segments t true) false false
  else if String.eqb (ty t) "with_compound_statement" then nw t || with_guard (list_child_segments t true) false
  else if String.eqb (ty t) "update_statement" then forallb nw (children t)
  else if String.eqb (ty t) "merge_statement" then forallb nw (children t)
  else true.

Theorem c10_total_on_all_trees_strict : forall e silent t,
  escape_free t = true -> nw_inner t = true ->
  match analyze e silent t with Ok _ => True | Err k => allowed_err k = true end.
Proof.
  intros e silent t H Hn.
  assert (S0 : forall (P : graph -> Prop) (r : res graph), okr P r -> match r with Ok _ => True | Err k => allowed_err k = true end)
    by (intros P [g|k] K; [exact I|exact K]).
  assert (Hd : depth t <= 3 * depth t + 9) by lia.
  unfold analyze, nw_inner in *. cbv zeta.
  replace (3 * depth t + 10) with (S (3 * depth t + 9)) by lia.
  destruct (mem_string (ty t) ["select_statement"; "set_expression"; "bracketed"]) eqn:E1.
  { assert (Hefn : efn t = true) by (rewrite efn_spec, H, Hn; reflexivity).
    exact (S0 _ _ (extract_strict (S (3 * depth t + 9)) e XSelect t empty_ctx eq_refl Hefn ltac:(lia) ctx_ok_empty CTXE_empty)). }
  assert (Hb : tyis t "bracketed" = false).
  { cbn [mem_string] in E1. apply orb_false_iff in E1. destruct E1 as [_ E1]. apply orb_false_iff in E1. destruct E1 as [_ E1].
    apply orb_false_iff in E1. exact (proj1 E1). }
  destruct (mem_string (ty t) ["create_table_statement"; "create_table_as_statement"; "create_view_statement";
                                "insert_statement"; "insert_overwrite_directory_hive_fmt_statement"]) eqn:E2.
  { apply andb_true_iff in Hn. destruct Hn as [Hn Hci].
    exact (S0 _ _ (extract_ci_strict (3 * depth t + 9) e t empty_ctx H Hn Hb Hci ltac:(lia) ctx_ok_empty eq_refl eq_refl)). }
  destruct (String.eqb (ty t) "with_compound_statement") eqn:E3.
  { apply orb_true_iff in Hn. destruct Hn as [Hn|Hn].
    - assert (Hefn : efn t = true) by (rewrite efn_spec, H, Hn; reflexivity).
      exact (S0 _ _ (extract_strict (S (3 * depth t + 9)) e XCte t empty_ctx eq_refl Hefn ltac:(lia) ctx_ok_empty CTXE_empty)).
    - exact (S0 _ _ (extract_with_strict (3 * depth t + 9) e t H Hb Hn ltac:(lia))). }
  destruct (String.eqb (ty t) "update_statement") eqn:E4.
  { exact (S0 _ _ (extract_update_strict (3 * depth t + 9) e t empty_ctx H Hn Hb ltac:(lia) ctx_ok_empty eq_refl eq_refl)). }
  destruct (String.eqb (ty t) "merge_statement") eqn:E5.
  { exact (S0 _ _ (extract_merge_strict (S (3 * depth t + 9)) e t H Hn E5 ltac:(lia))). }
  destruct (mem_string (ty t) ["copy_statement"; "copy_into_table_statement"]); [exact (S0 _ _ (extract_copy_ok e t H))|].
  destruct (mem_string (ty t) ["drop_table_statement"; "drop_view_statement"]); [exact (S0 _ _ (extract_drop_ok e t H))|].
  destruct (mem_string (ty t) ["alter_table_statement"; "rename_statement"; "rename_table_statement"]); [exact (S0 _ _ (extract_rename_ok e t H))|].
  destruct (mem_string (ty t) NOOP_TYPES); [exact I|]. destruct silent; [exact I|reflexivity].
Qed.
Print Assumptions c10_total_on_all_trees_strict.

(** non-vacuity: the guard holds on sixteen of the seventeen parser-produced witness statements of Props/Witness.v
    (INSERT .. SELECT with joins, sub-queries, unions, CTEs, column lists, VALUES; CREATE TABLE; MERGE; DROP); the
    seventeenth, the vertica SWAP_PARTITIONS_BETWEEN_TABLES call, is one of the excluded shapes *)
Example strict_applies_to_witnesses :
  forallb (fun t => escape_free t && nw_inner t)
    [Props.Witness.w_mixed_join; Props.Witness.w_scalar_subquery; Props.Witness.w_having_subquery; Props.Witness.w_in_list;
     Props.Witness.w_union_literal; Props.Witness.w_alias_shadow; Props.Witness.w_self_insert; Props.Witness.w_union_alias_reuse;
     Props.Witness.w_group_alias; Props.Witness.w_guess; Props.Witness.w_merge_values;
     Props.Witness.w_dangling_qualifier; Props.Witness.w_explicit_list; Props.Witness.w_insert_values; Props.Witness.w_drop;
     Props.Witness.w_cte_mixed_case] = true /\ nw_inner Props.Witness.w_vertica_swap = false.
Proof. split; vm_compute; reflexivity. Qed.
