(** C10 on ALL segment trees, part 8: where the residual outcome [Err EValue] ("ValueError": networkx's add_edge(None, ..))
    of [c10_total_on_all_trees_partial] can come from.  PARTIAL: the gap is narrowed, not closed. *)
From SV Require Import Tree.Observe Tree.TotalDefs Tree.TotalLeaves Tree.TotalHolder Tree.TotalExtract Tree.TotalMain
     Tree.TotalMerge Tree.TotalTop.
Open Scope string_scope.
Open Scope list_scope.

(** the statement types whose extractor can add column lineage *)
Definition LINEAGE_TYPES : list string :=
  ["select_statement"; "set_expression"; "bracketed";
   "create_table_statement"; "create_table_as_statement"; "create_view_statement";
   "insert_statement"; "insert_overwrite_directory_hive_fmt_statement";
   "with_compound_statement"; "update_statement"; "merge_statement"].

(** every other statement (COPY, DROP, ALTER / RENAME, the no-op types, unsupported types, in both modes): the
    outcome is a holder or one of the library's own exceptions - no [EValue] disjunct *)
Theorem c10_total_strict_outside_lineage_types : forall e silent t,
  escape_free t = true -> mem_string (ty t) LINEAGE_TYPES = false ->
  match analyze e silent t with Ok _ => True | Err k => allowed_err k = true end.
Proof.
  intros e silent t H Hm. unfold LINEAGE_TYPES in Hm. cbn [mem_string] in Hm.
  repeat (apply orb_false_iff in Hm; destruct Hm as [?E Hm]).
  assert (S : forall Q (r : res graph), okr Q r -> match r with Ok _ => True | Err k => allowed_err k = true end)
    by (intros Q [g|k] K; [exact I|exact K]).
  unfold analyze. cbv zeta. cbn [mem_string]. rewrite E, E0, E1, E2, E3, E4, E5, E6, E7, E8, E9. cbn [orb].
  match goal with |- context [if ?b then extract_copy e t else _] => destruct b; [exact (S _ _ (extract_copy_ok e t H))|] end.
  match goal with |- context [if ?b then extract_drop e t else _] => destruct b; [exact (S _ _ (extract_drop_ok e t H))|] end.
  match goal with |- context [if ?b then extract_rename e t else _] => destruct b; [exact (S _ _ (extract_rename_ok e t H))|] end.
  destruct (mem_string (ty t) NOOP_TYPES); [exact I|]. destruct silent; [exact I|reflexivity].
Qed.
Print Assumptions c10_total_strict_outside_lineage_types.

(** Inside the lineage extractors [EValue] has two sites only (see the proofs of [eoq_okv] and [replace_wildcard_okv] in
    Tree/TotalHolder.v; every other call of [add_column_lineage] is proved there and in TotalMain / TotalMerge with a
    target column that has exactly one parent):
    (A) end_of_query_cleanup: the target column is an element of [write_columns g], i.e. the end of a has_column edge
        leaving the single written dataset of a SELECT holder;
    (B) replace_wildcard: a source column is an element of [get_table_columns g st] for a SubQuery [st].
    Both need a has_column edge NData d -> NCol c with [col_parent c = None]. *)
Definition one_parent_edge (ed : node * node * eattrs) : Prop :=
  match fst (fst ed), snd (fst ed) with
  | NData d, NCol c => exists p, cparents c = [p] /\ dataset_eqb p d = true
  | _, _ => True
  end.

(** NOT PROVED, not assumed anywhere: the invariant that would close the gap.  Such an edge with two parents is created
    only by [add_write_column] (inherited write columns in [init_holder], provider columns in XCreateInsert) in a holder
    whose first written dataset differs from the column's parent - a holder with two written datasets.  Written
    Table / Path nodes never lose the write tag ([GI]); a written SubQuery loses it only when a sub-query with the same
    raw text is extracted inside it.  The statement below says that the edges relevant for (A) and (B) are never of
    that kind in a holder the extractor returns. *)
Definition evalue_invariant_statement : Prop :=
  forall fuel e k stmt ctx g, escape_free stmt = true -> ctx_ok ctx ->
    (forall cols, c_write_columns ctx = Some cols -> forall c, In c cols -> exists p, cparents c = [p]) ->
    extract fuel e k stmt ctx = Ok g ->
    forall ed, In ed (gedges g) ->
      match fst (fst ed) with
      | NData d => (dk d = KSubq \/ forall w, In w (sq_write g) -> dataset_eqb w d = true) -> one_parent_edge ed
      | _ => True
      end.
