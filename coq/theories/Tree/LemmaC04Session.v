(** Property C04, session clause: a table created by an earlier statement of a script is known - with the columns the
    script gave it - to a later SELECT * over it, whatever the catalog says about that table. *)
From Coq Require Import Permutation.
From SV Require Import Tree.Render Tree.LemmaA Tree.LemmaAProofs Tree.LemmaAMeta Tree.LemmaB Tree.LemmaBProofs
     Ident.Escape Ident.EscapeProofs Holder.PathProofs Holder.SortProofs Ast.SpecMeta Tree.LemmaBMeta Tree.LemmaBMeta2
     Tree.ScriptExact.
From SV Require Holder.RefineDefs Holder.RefineGraph Holder.CompDefs Holder.Composition.
From SV Require TriviaProofs.

(* ================================================================== *)
(** * Part H: every edge from a dataset to a column is a has_column edge *)
Definition HC (e0 : Graph.node * Graph.node * eattrs) : Prop :=
  forall dd cc, fst (fst e0) = NData dd -> snd (fst e0) = NCol cc -> etype (snd e0) = "has_column".
Definition hc_inv (g : graph) : Prop := forall e0, In e0 (gedges g) -> HC e0.

Lemma eqb_data_shape n dd : node_eqb n (NData dd) = true -> exists d', n = NData d'.
Proof. destruct n as [d'| |]; cbn [node_eqb]; try discriminate. eexists. reflexivity. Qed.
Lemma eqb_col_shape n cc : node_eqb n (NCol cc) = true -> exists c', n = NCol c'.
Proof. destruct n as [|c'|]; cbn [node_eqb]; try discriminate. eexists. reflexivity. Qed.

Lemma hc_upsert u v a l :
  (forall e0, In e0 l -> HC e0) ->
  (forall dd cc, u = NData dd -> v = NCol cc -> etype a = "has_column") ->
  forall e0, In e0 (upsert_edge u v a l) -> HC e0.
Proof.
  intros Hl Ha e0 He0. apply In_upsert_edge' in He0. destruct He0 as [->|[He0|(e1 & He1 & E1 & ->)]].
  - intros dd cc E2 E3. cbn [fst snd] in *. exact (Ha dd cc E2 E3).
  - apply Hl. exact He0.
  - intros dd cc E2 E3. cbn [fst snd eattr_update etype] in *. unfold edge_is in E1. apply andb_true_iff in E1. destruct E1 as [K1 K2].
    rewrite E2 in K1. rewrite E3 in K2. destruct (eqb_data_shape u dd K1) as (d' & Eu). destruct (eqb_col_shape v cc K2) as (c' & Ev).
    exact (Ha d' c' Eu Ev).
Qed.

Lemma hc_add_edge g u v a :
  hc_inv g -> (forall dd cc, u = NData dd -> v = NCol cc -> etype a = "has_column") -> hc_inv (add_edge g u v a).
Proof.
  intros Hg Ha e0 He0. unfold add_edge in He0. cbn [gedges add_node] in He0. set (ns := gnodes _) in He0.
  apply (hc_upsert (canon_l u ns) (canon_l v ns) a (gedges g)); [exact Hg| |exact He0].
  intros dd cc E1 E2. pose proof (canon_eqb u ns) as K1. pose proof (canon_eqb v ns) as K2. rewrite E1 in K1. rewrite E2 in K2.
  destruct (eqb_data_shape u dd K1) as (d' & Eu). destruct (eqb_col_shape v cc K2) as (c' & Ev). exact (Ha d' c' Eu Ev).
Qed.

Lemma hc_add_read g v : hc_inv g -> hc_inv (add_read g v).
Proof.
  intros H. unfold add_read. destruct (has_alias_attr v); [|exact H]. apply hc_add_edge; [exact H|]. intros dd cc _ K. discriminate K.
Qed.

Lemma hc_add_reads l : forall g, hc_inv g -> hc_inv (fold_left add_read l g).
Proof. induction l as [|v r IH]; intros g H; [exact H|]. cbn [fold_left]. apply IH. apply hc_add_read. exact H. Qed.

Lemma hc_acl g s t g' : add_column_lineage g s t = Ok g' -> hc_inv g -> hc_inv g'.
Proof.
  unfold add_column_lineage. intros E H. destruct (col_parent t) as [tp|]; [|discriminate]. inversion E. subst g'. clear E.
  assert (H2 : hc_inv (add_edge (add_edge g (NCol s) (NCol t) lineage_edge) (NData tp) (NCol t) (e_has_column None))).
  { apply hc_add_edge; [apply hc_add_edge; [exact H|intros dd cc K; discriminate K]|intros; reflexivity]. }
  destruct (col_parent s); [apply hc_add_edge; [exact H2|intros; reflexivity]|exact H2].
Qed.

Lemma fold_res_err {A B} (F : B -> A -> res B) l x : fold_left (fun acc a => do y <- acc; F y a) l (Err x) = Err x.
Proof. induction l as [|a r IH]; [reflexivity|]. cbn [fold_left]. exact IH. Qed.

Lemma fold_res_ok_inv {A B} (P : B -> Prop) (F : B -> A -> res B) l :
  (forall b a b', F b a = Ok b' -> P b -> P b') ->
  forall b b', fold_left (fun acc a => do y <- acc; F y a) l (Ok b) = Ok b' -> P b -> P b'.
Proof.
  intros HF. induction l as [|a r IH]; intros b b' E Hb; cbn [fold_left] in E; [inversion E; subst; exact Hb|].
  destruct (F b a) as [b1|x] eqn:E1; [|rewrite fold_res_err in E; discriminate]. apply (IH b1 b' E). apply (HF b a b1 E1 Hb).
Qed.

Lemma hc_eoq_step e ts n d g idx x g' : eoq_step e ts n d g idx x = Ok g' -> hc_inv g -> hc_inv g'.
Proof.
  unfold eoq_step. intros E H. destruct (to_source_columns e x (get_alias_mapping g ts)) as [srcs|err]; [|discriminate].
  cbv zeta in E. match type of E with fold_left (fun acc3 s => do g3 <- acc3; add_column_lineage g3 s ?T) srcs (Ok g) = Ok g' =>
    apply (fold_res_ok_inv hc_inv (fun g3 s => add_column_lineage g3 s T) srcs (fun b a b' Ea Hb => hc_acl _ _ _ _ Ea Hb) g g' E H) end.
Qed.

Lemma hc_eoq_steps e ts n d : forall l g idx g',
  fst (fold_left (fun (acc2 : res graph * nat) x => let '(rg, idx) := acc2 in (do g2 <- rg; eoq_step e ts n d g2 idx x, S idx)) l (Ok g, idx)) = Ok g' ->
  hc_inv g -> hc_inv g'.
Proof.
  induction l as [|x r IH]; intros g idx g' E H; cbn [fold_left fst] in E; [inversion E; subst; exact H|].
  destruct (eoq_step e ts n d g idx x) as [g1|err] eqn:E1.
  - apply (IH g1 (S idx) g' E). exact (hc_eoq_step _ _ _ _ _ _ _ _ E1 H).
  - exfalso. clear -E. assert (K : forall l i, fst (fold_left (fun (acc2 : res graph * nat) x => let '(rg, idx) := acc2 in (do g2 <- rg; eoq_step e ts n d g2 idx x, S idx)) l (Err err, i)) = Err err).
    { induction l as [|y l' IHl]; intros i; [reflexivity|]. cbn [fold_left]. apply IHl. }
    rewrite K in E. discriminate.
Qed.

Lemma hc_eoq e g ts cols g' : end_of_query_cleanup e g ts cols [] = Ok g' -> hc_inv g -> hc_inv g'.
Proof.
  rewrite eoq_single. cbv zeta. intros E H. pose proof (hc_add_reads ts g H) as H0.
  destruct (sq_write (fold_left add_read ts g)) as [|w [|w' r]]; [inversion E; subst; exact H0| |discriminate].
  exact (hc_eoq_steps e ts _ w cols _ 0 g' E H0).
Qed.

Lemma hc_compose g h : hc_inv g -> hc_inv h -> hc_inv (compose g h).
Proof.
  intros Hg Hh. unfold hc_inv, compose. cbn [gedges]. set (ns := fold_left _ (gnodes h) (gnodes g)). clearbody ns.
  revert Hh. unfold hc_inv in *. generalize (gedges g) Hg. induction (gedges h) as [|e1 r IH]; intros l Hl Hr; cbn [fold_left]; [exact Hl|].
  apply IH.
  - apply hc_upsert; [exact Hl|]. intros dd cc E1 E2. pose proof (canon_eqb (fst (fst e1)) ns) as K1. pose proof (canon_eqb (snd (fst e1)) ns) as K2.
    rewrite E1 in K1. rewrite E2 in K2. destruct (eqb_data_shape _ dd K1) as (d' & Eu). destruct (eqb_col_shape _ cc K2) as (c' & Ev).
    exact (Hr e1 (or_introl eq_refl) d' c' Eu Ev).
  - intros e0 He0. apply Hr. right. exact He0.
Qed.

(* ================================================================== *)
(** * Part G: the columns the runner registers for the written table *)
Lemma In_gtc g w c :
  In c (get_table_columns g w) <->
  exists e0, In e0 (gedges g) /\ node_eqb (NData w) (fst (fst e0)) = true /\ etype (snd e0) = "has_column" /\
             snd (fst e0) = NCol c /\ craw c <> "*".
Proof.
  unfold get_table_columns. rewrite in_flat_map. unfold out_edges. split.
  - intros (e0 & He0 & H). apply filter_In in He0. destruct He0 as [He0 E1]. destruct (String.eqb (etype (snd e0)) "has_column") eqn:Et; [|destruct H].
    destruct (snd (fst e0)) as [|c0|] eqn:Es; [destruct H| |destruct H]. destruct (String.eqb (craw c0) "*") eqn:Ec; [destruct H|]. destruct H as [<-|[]].
    exists e0. apply String.eqb_eq in Et. apply String.eqb_neq in Ec. auto.
  - intros (e0 & He0 & E1 & Et & Es & Ec). exists e0. split; [apply filter_In; auto|]. rewrite Et, Es. cbn. apply String.eqb_neq in Ec. rewrite Ec. left. reflexivity.
Qed.

(** the cleanup alone (as in [select_core_noexp], before the expansion) *)
Lemma select_core_eoq (PC : column -> Prop) e d ts cols (S : xcol -> list column) :
  group_ok d ts -> Forall data_ok ts -> dk d = KTable ->
  (forall g2, sel_inv PC d ts g2 -> forall x, In x cols -> to_source_columns e x (get_alias_mapping g2 ts) = Ok (S x)) ->
  (forall x, In x cols -> cparents (xc x) = [] /\ PC (own_col d x) /\ List.length (S x) <= 1 /\
                          forall s, In s (S x) -> PC s /\ forall p, In p (cparents s) -> In p ts) ->
  exists sub, end_of_query_cleanup e (add_write empty_graph d) ts cols [] = Ok sub /\
              ext (add_write empty_graph d) sub (map (fun v => (NData v, NStr (dalias v))) ts ++ sel_edges d S (own_pairs d cols)) /\
              sel_inv PC d ts sub.
Proof.
  intros Hgo Hdo Hd HS HX. set (g_b := add_write empty_graph d).
  assert (Lb : lits_in (QK (d :: ts) PC) g_b) by (split; [intros n [<-|[]]; left; reflexivity|intros e0 []]).
  assert (Eb : edges_inv ts g_b) by (intros e0 []).
  assert (Db : drop_free g_b) by (intros n a [H|[]]; inversion H; intros [K|[]]; discriminate K).
  destruct (add_reads_ok PC d ts ts g_b Hgo Hdo (fun v Hv => Hv) Lb Eb) as (A1 & A2 & A3 & A4 & A5 & A6).
  rewrite eoq_single. cbv zeta. set (g0 := fold_left add_read ts g_b) in *.
  assert (Hw : sq_write g0 = [d]) by (unfold sq_write; rewrite A4 by discriminate; reflexivity).
  rewrite Hw.
  assert (Hinv0 : sel_inv PC d ts g0).
  { constructor; [exact A1|exact A2| |exact (A6 Db)]. intros v Hv.
    assert (Hin : In (NData v, NStr (dalias v)) (map (fun v => (NData v, NStr (dalias v))) ts)) by (apply in_map_iff; exists v; auto).
    split.
    - rewrite (ext_edges _ _ _ A3). apply orb_true_iff. right. unfold ematch. apply existsb_exists. eexists. split; [exact Hin|].
      cbn [fst snd]. rewrite !node_eqb_refl. reflexivity.
    - exact (proj1 (ext_new _ _ _ A3 _ Hin)). }
  destruct (eoq_fold PC e d ts cols S Hgo Hd HS HX cols g0 0 (fun x Hx => Hx) Hinv0 Hw) as (g' & E' & X' & Hinv' & T').
  - rewrite A5. cbn. lia.
  - reflexivity.
  - exists g'. split; [exact E'|]. split; [apply (ext_trans g_b g0 g'); assumption|exact Hinv'].
Qed.

(* ================================================================== *)
(** * Part 1: the creating statement: its holder, and what the runner registers *)
Lemma holder_ctas_md noise e base t items from cj :
  noise_ok noise = true -> env_ok_md e = true ->
  let s1 := SCtas t (QSelect items from cj None) in
  stmt_ok s1 = true -> sshape s1 = true -> colshape s1 = true -> sel_tables_syntactic s1 = true -> unq_single s1 = true ->
  items_plain_b items = true -> items <> [] ->
  let d := tbl e t None in let ts := map (tbl_of e) from in let xs := map xcol_of items in
  let FL := flows_of (S_of ts) (own_pairs d xs) in
  exists G, analyze (with_cols e (view_cols [] base)) false (r_stmt noise s1) = Ok G /\ core_facts G FL /\
            (forall f, In f FL -> tcol (fst f) /\ tcol (snd f)) /\
            exists cl, registration G = Some (tref_str (e_cfg e) t, cl) /\ (forall nm, In nm cl <-> In nm (map item_name items)).
Proof.
  intros Hn He s1 Hok Hss Hc Hsh Huq Hpl Hine d ts xs FL.
  set (e' := with_cols e (view_cols [] base)). assert (He' : env_ok_md e' = true) by exact He.
  pose proof Hsh as Hsh0. cbn [sel_tables_syntactic s1] in Hsh0. apply andb_true_iff in Hsh0. destruct Hsh0 as [Hrt Hd].
  pose proof Hok as Hok0. cbn [stmt_ok s1] in Hok0.
  destruct (stmt_ok_select t items from cj Hok0 Hrt) as (Ht & Hit & Hne & Hrel).
  assert (Hs' : (exists cols, s1 = SInsert t cols (QSelect items from cj None)) \/ s1 = SCtas t (QSelect items from cj None) \/ s1 = SView t (QSelect items from cj None))
    by (right; left; reflexivity).
  destruct (colshape_tables (e_cfg e) s1 t items from cj Hs' Hc Ht Hne Hrel Hit Hd) as (Htc & Hic & Hnq).
  cbn [unq_single stmt_query s1] in Huq.
  pose proof (unq_single_unres e items from Huq Hit) as Hun. fold ts xs in Hun.
  pose proof (group_ok_of e t from Hrel Htc) as Hgo. pose proof (ts_inj_of e t from Hrel Htc) as Hinj.
  pose proof (names_nodot_of e from Hrel) as Hnd. pose proof (xref_ok_of e t from items Hrel Hit Htc Hic) as Hxs. fold d ts in Hgo. fold ts in Hinj, Hnd, Hxs. fold xs in Hxs.
  assert (Hdo : Forall data_ok ts).
  { apply Forall_forall. intros v Hv. unfold data_ok. rewrite (go_tables _ _ Hgo v Hv).
    apply in_map_iff in Hv. destruct Hv as (r & <- & _). destruct r; reflexivity. }
  pose proof (analyze_create_md noise Hn e' He' false t items from cj Ht Hit Hne Hrel) as Ea.
  unfold holder_on in Ea. change (tbl e' t None) with d in Ea. change (map (tbl_of e') from) with ts in Ea. fold xs in Ea.
  set (PC := PC5 d ts [] nostar).
  assert (HA : forall x, In x xs -> cparents (xc x) = [] /\ PC (own_col d x) /\ List.length (S_of ts x) <= 1 /\
                 (forall s0, In s0 (S_of ts x) -> PC s0 /\ forall p, In p (cparents s0) -> In p ts) /\
                 (forall s0, In s0 (S_of ts x) -> exists v, In v ts /\ cparents s0 = [v])).
  { intros x Hx. destruct (S_of_props d ts xs x Hgo Hinj eq_refl Hx (Hxs x Hx)) as (A1 & A2 & A3 & A4 & A5). rewrite Hun in A2, A4, A5.
    destruct (plain_P e t from items Hrel Hit Hpl Htc x Hx) as [P1 P2].
    split; [exact A1|]. split; [split; [exact A2|split; [rewrite (own_col_eq d x A1); intros p [<-|[]]; left; reflexivity|exact P1]]|].
    split; [exact A3|]. split.
    - intros s0 Hs0. destruct (A4 s0 Hs0) as [B1 B2]. split; [|exact B2]. split; [exact B1|]. split; [intros p Hp0; right; apply B2; exact Hp0|apply P2; exact Hs0].
    - intros s0 Hs0. destruct (A5 s0 Hs0) as [K|(nm & [] & _)]. exact K. }
  destruct (select_core_eoq PC e' d ts xs (S_of ts) Hgo Hdo eq_refl) as (sub & Esub & Xsub & Isub).
  { intros g2 Hinv x Hx. apply (HS_of PC e' d ts g2 x Hgo Hinj Hnd Hinv (Hxs x Hx)). }
  { intros x Hx. destruct (HA x Hx) as (A1 & A2 & A3 & A4 & _). auto. }
  rewrite Esub in Ea. rewrite (HE_nostar e' d ts [] sub (si_lits _ _ _ _ Isub)) in Ea.
  set (gb := add_write empty_graph d) in *. set (G := compose gb sub) in *.
  exists G. split; [exact Ea|].
  assert (Isub4 : sel_inv (PC4 ts []) d ts sub) by (apply (sel_inv_weaken PC); [intros c Hc0; exact (proj1 Hc0)|exact Isub]).
  assert (Hop : forall p0, In p0 (own_pairs d xs) -> In (fst p0) xs /\ snd p0 = own_col d (fst p0)).
  { intros p0 Hp0. unfold own_pairs in Hp0. apply in_map_iff in Hp0. destruct Hp0 as (x & <- & Hx). auto. }
  assert (CF : core_facts G FL).
  { apply (holder_facts d ts (own_pairs d xs) (S_of ts) gb sub Hgo Hinj eq_refl).
    - intros p0 Hp0. destruct (Hop p0 Hp0) as [Hx Ep]. destruct (HA _ Hx) as (A1 & _ & _ & _ & A5). split; [|exact A5].
      rewrite Ep, (own_col_eq d _ A1). eexists. reflexivity.
    - split; [intros n [<-|[]]; left; reflexivity|intros e0 []].
    - intros n a [H|[]]; inversion H; intros [K|[]]; discriminate K.
    - intros e0 [].
    - reflexivity.
    - reflexivity.
    - intros x y Hxy. discriminate Hxy.
    - exact Xsub.
    - exact Isub4. }
  split; [exact CF|]. split.
  { intros f Hf. unfold FL, flows_of in Hf. apply in_flat_map in Hf. destruct Hf as (p0 & Hp0 & Hf). apply in_map_iff in Hf.
    destruct Hf as (s0 & <- & Hs0). destruct (Hop p0 Hp0) as [Hx Ep]. destruct (HA _ Hx) as (A1 & _ & _ & _ & A5). cbn [fst snd]. split.
    - destruct (A5 s0 Hs0) as (v & Hv & Ev). exists v. split; [exact Ev|]. exact (ts_tcol e from v Hrel Hv).
    - rewrite Ep, (own_col_eq d _ A1). exists d. split; [reflexivity|]. apply tbl_tcol_parent. }
  (* the registration *)
  assert (LG : lits_in (QK (d :: ts) (PCs d ts)) G).
  { apply lits_compose.
    - split; [intros n [<-|[]]; left; reflexivity|intros e0 []].
    - apply (lits_weaken (QK (d :: ts) PC)); [|exact (si_lits _ _ _ _ Isub)]. intros n Hq. destruct n as [v0|c0|s0]; cbn [QK] in *; auto.
      destruct Hq as (Q1 & Q2 & _). split; [|exact Q2]. destruct Q1 as [Q1|(nm & [] & _)]. exact Q1. }
  assert (HG : hc_inv G).
  { apply hc_compose; [intros e0 []|]. apply (hc_eoq e' gb ts xs sub Esub). intros e0 []. }
  assert (HEG : forall a b, has_edge G a b = ematch a b (map (fun v => (NData v, NStr (dalias v))) ts ++ sel_edges d (S_of ts) (own_pairs d xs))).
  { intros a b. unfold G. rewrite has_edge_compose, (ext_edges _ _ _ Xsub). reflexivity. }
  assert (Hdstr : forall v, In v ts -> dstr v <> dstr d).
  { intros v Hv K. pose proof (go_target _ _ Hgo v Hv) as Hgt. unfold ts in Hv. apply in_map_iff in Hv. destruct Hv as (r & <- & Hr).
    pose proof Hrel as H. rewrite forallb_forall in H. rewrite (tbl_of_table e r (rel_ok_table _ (H r Hr))) in *. unfold dataset_eqb in Hgt.
    cbn [tbl dk deq dstr dkind_beq andb d] in *. rewrite K, String.eqb_refl in Hgt. discriminate. }
  (* the columns of the created table in the holder *)
  assert (Hcols : forall nm, In nm (map craw (get_table_columns G d)) <-> In nm (map item_name items)).
  { intros nm. rewrite in_map_iff. split.
    - intros (c & <- & Hcin). apply In_gtc in Hcin. destruct Hcin as (e0 & He0 & E1 & _ & Es & _).
      assert (Hh : has_edge G (NData d) (NCol c) = true).
      { apply has_edge_In. exists e0. split; [exact He0|]. rewrite Es. split; [exact E1|apply node_eqb_refl]. }
      rewrite HEG, ematch_app, ematch_alias_ycol in Hh. cbn [orb] in Hh. apply ematch_sel_data in Hh.
      destruct Hh as (p0 & s0 & Hp0 & Hs0 & [[_ K]|(sp & Esp & K1 & _)]).
      + destruct (Hop p0 Hp0) as [Hx Ep]. destruct (HA _ Hx) as (A1 & _). rewrite Ep, (own_col_eq d _ A1) in K.
        unfold xs in Hx. apply in_map_iff in Hx. destruct Hx as (i & Ei & Hi). rewrite forallb_forall in Hit.
        destruct (xcol_of_facts i (Hit i Hi)) as (F1 & _). rewrite <- Ei, F1 in K. cbn [craw] in K.
        assert (Hc0 : PCs d ts c) by (destruct (proj2 LG e0 He0) as [_ Q]; rewrite Es in Q; exact Q).
        cbn [node_eqb] in K. fold (Scol d (item_name i)) in K.
        assert (K' : col_eqb (Scol d (item_name i)) c = true).
        { pose proof (node_eqb_true_sym (NCol c) (NCol (Scol d (item_name i))) K) as K2. exact K2. }
        rewrite (pin_col d ts Hgo eq_refl (item_name i) d c Hc0 (or_introl eq_refl) K'). cbn [Scol craw]. apply in_map. exact Hi.
      + exfalso. destruct (Hop p0 Hp0) as [Hx _]. destruct (HA _ Hx) as (_ & _ & _ & _ & A5). destruct (A5 s0 Hs0) as (v & Hv & Ev).
        unfold col_parent in Esp. rewrite Ev in Esp. inversion Esp. subst sp. rewrite dataset_eqb_sym, (go_target _ _ Hgo v Hv) in K1. discriminate.
    - intros Hnm. apply in_map_iff in Hnm. destruct Hnm as (i & <- & Hi).
      set (x := xcol_of i). assert (Hx : In x xs) by (apply in_map; exact Hi).
      destruct (HA x Hx) as (A1 & _ & A3 & _ & A5).
      pose proof Hit as Hit'. rewrite forallb_forall in Hit'. destruct (xcol_of_facts i (Hit' i Hi)) as (F1 & _). fold x in F1.
      assert (Eo : own_col d x = Scol d (item_name i)) by (rewrite (own_col_eq d x A1), F1; reflexivity).
      destruct (S_of_single ts x (Hxs x Hx)) as (s0 & Es0).
      assert (Hh : has_edge G (NData d) (NCol (Scol d (item_name i))) = true).
      { rewrite HEG, ematch_app. apply orb_true_iff. right. unfold ematch. apply existsb_exists. exists (NData d, NCol (own_col d x)). split.
        - unfold sel_edges. apply in_flat_map. exists (x, own_col d x). split; [unfold own_pairs; apply in_map_iff; exists x; auto|].
          cbn [fst snd]. rewrite Es0. cbn [flat_map]. apply in_app_iff. left. right. left. reflexivity.
        - cbn [fst snd]. rewrite Eo, !node_eqb_refl. reflexivity. }
      apply has_edge_In in Hh. destruct Hh as (e0 & He0 & E1 & E2). destruct (proj2 LG e0 He0) as [Q1 Q2].
      pose proof (pin_data d ts Hgo d (fst (fst e0)) Q1 (or_introl eq_refl) E1) as P1.
      pose proof (pin_ncol d ts Hgo eq_refl (item_name i) d (snd (fst e0)) Q2 (or_introl eq_refl) E2) as P2.
      exists (Scol d (item_name i)). split; [reflexivity|]. apply In_gtc. exists e0. split; [exact He0|]. rewrite P1. split; [apply node_eqb_refl|].
      split; [exact (HG e0 He0 d _ P1 P2)|]. split; [exact P2|].
      unfold items_plain_b in Hpl. rewrite forallb_forall in Hpl. exact (proj2 (plain_not_star i (Hit' i Hi) (Hpl i Hi))). }
  (* the written table *)
  assert (Hf0 : frag_query (S (q_size (QSelect items from cj None))) (QSelect items from cj None) = true /\
                names_ok_q (S (q_size (QSelect items from cj None))) [] (QSelect items from cj None) = true).
  { apply andb_true_iff in Hok0. destruct Hok0 as [Hok0 Hnm]. apply andb_true_iff in Hok0. destruct Hok0 as [_ Hf]. auto. }
  destruct (create_ok_md noise Hn e' He' false t (QSelect items from cj None) Ht (src_ok_of _ (proj1 Hf0) (proj2 Hf0) Hss)) as (g & E & G1 & _ & G3).
  assert (Ea' : analyze e' false (r_stmt noise s1) = Ok G) by exact Ea.
  assert (E' : analyze e' false (r_stmt noise s1) = Ok g) by exact E.
  rewrite Ea' in E'. inversion E'. subst g. clear E E'.
  assert (Hw : exists w r, st_write G = w :: r /\ dstr w = dstr d).
  { assert (K : In (dstr d) (map dstr (st_write G))) by (apply (st_write_tset G _ G1); apply G3; reflexivity).
    destruct (st_write G) as [|w r] eqn:Ew; [destruct K|]. exists w, r. split; [reflexivity|].
    apply G3. apply (st_write_tset G _ G1). rewrite Ew. left. reflexivity. }
  destruct Hw as (w & r & Ew & Edw).
  assert (Ewd : w = d).
  { assert (Hin : In w (st_write G)) by (rewrite Ew; left; reflexivity). unfold st_write in Hin. apply filter_In in Hin. destruct Hin as [Hin _].
    unfold sq_write, holder_nodes in Hin. apply in_flat_map in Hin. destruct Hin as ([n a] & Hna & Hin). cbn [fst snd] in Hin.
    destruct n as [w'| |]; try destruct Hin. destruct (attr_true "write" a); [|destruct Hin]. destruct Hin as [<-|[]].
    assert (Q : In w' (d :: ts)) by (apply (proj1 LG (NData w')); apply in_map_iff; exists (NData w', a); auto).
    destruct Q as [Q|Q]; [symmetry; exact Q|exfalso; exact (Hdstr w' Q Edw)]. }
  subst w.
  exists (map craw (get_table_columns G d)). split; [|exact Hcols].
  unfold registration. rewrite Ew. change (dk d) with KTable. cbv iota.
  destruct (get_table_columns G d) as [|c0 cr] eqn:Egt; [|reflexivity]. exfalso.
  destruct items as [|i0 ir]; [contradiction|]. assert (K : In (item_name i0) (map craw (@nil column))) by (apply Hcols; left; reflexivity). destruct K.
Qed.

(* ================================================================== *)
(** * Part 2: the reading statement: INSERT .. SELECT * over a table the (session) catalog knows: its holder *)
Lemma holder_star_md noise e base t qq from cj :
  noise_ok noise = true -> env_ok_md e = true -> p_truthy (e_provider e) = true ->
  let s := SInsert t None (QSelect [IStar qq] from cj None) in
  is_known base (tref_str (e_cfg e) t) = false ->
  stmt_ok s = true -> sshape s = true -> colshape s = true -> sel_tables_syntactic s = true ->
  (forall r, In r from -> match qq with Some q => rname r = q | None => True end ->
             exists cols, rel_known (e_cfg e) base r = Some cols /\ forallb id_ok cols = true) ->
  exists G r0 cols, analyze (with_cols e (view_cols [] base)) false (r_stmt noise s) = Ok G /\
    In r0 from /\ match qq with Some q => rname r0 = q | None => True end /\ rel_known (e_cfg e) base r0 = Some cols /\
    let FL := map (fun cn => (Scol (tbl_of e r0) cn, Scol (tbl e t None) cn)) cols in
    core_facts G FL /\ (forall f, In f FL -> tcol (fst f) /\ tcol (snd f)).
Proof.
  intros Hn He Hp s Hu Hok Hss Hc Hsh HK. set (items := [IStar qq]) in *.
  pose proof Hsh as Hsh0. cbn [sel_tables_syntactic s] in Hsh0. apply andb_true_iff in Hsh0. destruct Hsh0 as [Hrt Hd].
  pose proof Hok as Hok0. cbn [stmt_ok s] in Hok0. apply andb_true_iff in Hok0. destruct Hok0 as [Hok' _].
  destruct (stmt_ok_select t items from cj Hok' Hrt) as (Ht & Hit & Hne & Hrel).
  assert (Hs' : (exists cols, s = SInsert t cols (QSelect items from cj None)) \/ s = SCtas t (QSelect items from cj None) \/ s = SView t (QSelect items from cj None))
    by (left; exists None; reflexivity).
  destruct (colshape_tables (e_cfg e) s t items from cj Hs' Hc Ht Hne Hrel Hit Hd) as (Htc & Hic & Hnq).
  set (ds := e_cfg e) in *. set (e' := with_cols e (view_cols [] base)).
  set (d := tbl e t None). set (ts := map (tbl_of e) from).
  pose proof (group_ok_of e t from Hrel Htc) as Hgo. pose proof (ts_inj_of e t from Hrel Htc) as Hinj.
  pose proof (names_nodot_of e from Hrel) as Hndot. fold d ts in Hgo. fold ts in Hinj, Hndot.
  set (x := xcol_of (IStar qq)).
  assert (Hi0 : item_ok (IStar qq) = true) by (cbn [forallb items] in Hit; apply andb_true_iff in Hit; exact (proj1 Hit)).
  destruct (xcol_of_facts (IStar qq) Hi0) as (F1 & F2 & _ & F4). fold x in F1, F2. cbn [item_name item_ref fst snd] in F1, F2, F4.
  pose proof (xref_ok_of e t from items Hrel Hit Htc Hic x (or_introl eq_refl)) as Hx. fold ts in Hx.
  assert (R0 : exists r0, In r0 from /\ match qq with Some q => rname r0 = q | None => True end /\ S_of ts x = [Scol (tbl_of e r0) "*"]).
  { pose proof (Hic (IStar qq) (or_introl eq_refl)) as Hq. cbn [item_ref snd fst] in Hq. unfold S_of. rewrite F2. destruct qq as [q|].
    - destruct Hq as (r0 & Hr0 & En & Hu0). exists r0. split; [exact Hr0|]. split; [exact En|].
      rewrite (find_dalias ts q (tbl_of e r0)); [reflexivity|apply in_map; exact Hr0| |].
      + rewrite forallb_forall in Hrel. rewrite (tbl_of_table e r0 (rel_ok_table _ (Hrel r0 Hr0))). exact En.
      + intros w Hw Ew. unfold ts in Hw. apply in_map_iff in Hw. destruct Hw as (r & <- & Hr). rewrite forallb_forall in Hrel.
        rewrite (Hu0 r Hr); [reflexivity|]. left. rewrite (tbl_of_table e r (rel_ok_table _ (Hrel r Hr))) in Ew. exact Ew.
    - destruct Hq as [(r & Er)|[_ Hq]]; [|exfalso; apply Hq; reflexivity]. exists r. split; [rewrite Er; left; reflexivity|]. split; [exact I|].
      unfold ts; rewrite Er; reflexivity. }
  destruct R0 as (r0 & Hr0 & Hrq & ES).
  destruct (HK r0 Hr0 Hrq) as (cols & Hkn & Hid).
  set (v := tbl_of e r0) in *. assert (Hv : In v ts) by (apply in_map; exact Hr0).
  assert (Edv : dstr v = rel_tname ds r0).
  { unfold v. pose proof Hrel as Hrel2. rewrite forallb_forall in Hrel2. rewrite (tbl_of_table e r0 (rel_ok_table _ (Hrel2 r0 Hr0))). reflexivity. }
  assert (Hcne : cols <> []) by (intros ->; unfold rel_known, known in Hkn; destruct (assoc_s _ base) as [[|c0 l]|]; discriminate).
  assert (Hpc : provider_columns e' v = map (Scol v) cols).
  { unfold provider_columns. change (provider_cols (e_provider e') v) with (provider_cols (pB e base) v). rewrite provider_cols_known, Edv.
    unfold rel_known in Hkn. rewrite Hkn. apply map_ext_in. intros c Hc0. rewrite forallb_forall in Hid. rewrite (id_ok_escape c (Hid c Hc0)). reflexivity. }
  assert (Hdo : Forall data_ok ts).
  { apply Forall_forall. intros w Hw. unfold data_ok. rewrite (go_tables _ _ Hgo w Hw).
    apply in_map_iff in Hw. destruct Hw as (r & <- & _). destruct r; reflexivity. }
  destruct (star1_core e' d ts v cols x Hgo Hdo eq_refl Hv) as (sub & Esub & Xsub & Isub); try assumption.
  { rewrite F1. reflexivity. }
  { rewrite F1. reflexivity. }
  { intros g2 Hinv. rewrite <- ES. apply (HS_of (PCs d ts) e' d ts g2 x Hgo Hinj Hndot Hinv Hx). }
  assert (He' : env_ok_md e' = true) by exact He.
  assert (Ea : analyze e' false (r_stmt noise s) = holder_on e' (add_write empty_graph (tbl e' t None)) items from).
  { apply (analyze_insert_md noise Hn e' He' t None items from cj); try assumption; try exact I; try reflexivity.
    assert (Htg : target_cols e' t = []) by (apply (provider_columns_unknown e base (tbl e t None)); exact Hu).
    cbv zeta. destruct (p_truthy (e_provider e')); [|reflexivity]. rewrite Htg. reflexivity. }
  unfold holder_on in Ea. change (tbl e' t None) with d in Ea. change (map (tbl_of e') from) with ts in Ea.
  change (map xcol_of items) with [x] in Ea. rewrite Esub in Ea.
  set (S' := fun x' : xcol => [Scol v (craw (xc x'))]). set (XS := map (fun cn => (xq cn, Scol d cn)) cols).
  assert (ESE : sel_edges d S' XS = flat_map (fun cn => acl_edges (Scol v cn) (Scol d cn) d) cols) by (apply sel_edges_star).
  assert (EFL : flows_of S' XS = map (fun cn => (Scol v cn, Scol d cn)) cols) by (apply flows_of_star).
  rewrite <- ESE in Xsub.
  assert (Isub' : sel_inv (PC4 ts []) d ts sub) by (apply (sel_inv_weaken (PCs d ts)); [intros c Hc0; left; exact (proj1 Hc0)|exact Isub]).
  exists (compose (add_write empty_graph d) sub), r0, cols. split; [exact Ea|]. split; [exact Hr0|]. split; [exact Hrq|]. split; [exact Hkn|].
  cbv zeta. fold v d. rewrite <- EFL. split.
  - apply (holder_facts d ts XS S' (add_write empty_graph d) sub Hgo Hinj eq_refl).
    + intros p0 Hp0. unfold XS in Hp0. apply in_map_iff in Hp0. destruct Hp0 as (cn & <- & _). cbn [fst snd]. split; [eexists; reflexivity|].
      intros s0 [<-|[]]. exists v. split; [exact Hv|reflexivity].
    + split; [intros n [<-|[]]; left; reflexivity|intros e0 []].
    + intros n a [H|[]]; inversion H; intros [K|[]]; discriminate K.
    + intros e0 [].
    + reflexivity.
    + reflexivity.
    + intros a b Hab. discriminate Hab.
    + exact Xsub.
    + exact Isub'.
  - intros f Hf. rewrite EFL in Hf. apply in_map_iff in Hf. destruct Hf as (cn & <- & _). cbn [fst snd]. split.
    + exists v. split; [reflexivity|]. exact (ts_tcol e from v Hrel Hv).
    + exists d. split; [reflexivity|]. apply tbl_tcol_parent.
Qed.

(* ================================================================== *)
(** * Part 3: the two-statement script *)
Lemma plain_name_id_ok i : item_ok i = true -> (match i with IExpr _ _ => true | IStar _ => false end) = true -> id_ok (item_name i) = true.
Proof.
  destruct i as [[qq c| | | | | |] al|qq]; cbn [item_ok]; try discriminate. intros H _.
  apply andb_true_iff in H. destruct H as [H Ha]. apply andb_true_iff in H. destruct H as [Hc _]. cbn [item_name]. destruct al; assumption.
Qed.

Theorem c04_created_table_known_to_later_star : forall noise e base t items from cj x cj',
  let s1 := SCtas t (QSelect items from cj None) in
  let s2 := SInsert x None (QSelect [IStar None] [RTable t None] cj' None) in
  noise_ok noise = true -> env_ok_md e = true -> p_truthy (e_provider e) = true ->
  stmt_ok s1 = true -> sshape s1 = true -> colshape s1 = true -> sel_tables_syntactic s1 = true -> unq_single s1 = true ->
  items_plain_b items = true -> items <> [] ->
  stmt_ok s2 = true -> sshape s2 = true -> colshape s2 = true ->
  is_known base (tref_str (e_cfg e) x) = false ->
  script_pairs e false base [r_stmt noise s1; r_stmt noise s2] =
  uniq_sorted (sort_strings (pairs_of (stmt_edges (e_cfg e) s1 ++
     map (fun nm => ((tref_str (e_cfg e) t, nm), (tref_str (e_cfg e) x, nm))) (map item_name items)))).
Proof.
  intros noise e base t items from cj x cj' s1 s2 Hn He Hp Hok1 Hss1 Hc1 Hsh1 Huq1 Hpl Hine Hok2 Hss2 Hc2 Hux.
  set (ds := e_cfg e) in *.
  destruct (holder_ctas_md noise e base t items from cj Hn He Hok1 Hss1 Hc1 Hsh1 Huq1 Hpl Hine) as (G1 & Ea1 & CF1 & HT1 & cl & Ereg & Hcl).
  (* facts about the first statement *)
  pose proof Hsh1 as Hsh0. cbn [sel_tables_syntactic s1] in Hsh0. apply andb_true_iff in Hsh0. destruct Hsh0 as [Hrt Hd].
  pose proof Hok1 as Hok0. cbn [stmt_ok s1] in Hok0.
  destruct (stmt_ok_select t items from cj Hok0 Hrt) as (Ht & Hit & Hne & Hrel).
  assert (Hs' : (exists cols, s1 = SInsert t cols (QSelect items from cj None)) \/ s1 = SCtas t (QSelect items from cj None) \/ s1 = SView t (QSelect items from cj None))
    by (right; left; reflexivity).
  destruct (colshape_tables ds s1 t items from cj Hs' Hc1 Ht Hne Hrel Hit Hd) as (Htc & Hic & _).
  pose proof Huq1 as Huq0. cbn [unq_single stmt_query s1] in Huq0. pose proof (unq_single_res items from Huq0 Hic) as Hres.
  (* the session catalog *)
  set (base2 := (tref_str ds t, cl) :: base).
  assert (Hclne : cl <> []).
  { destruct items as [|i0 ir]; [contradiction|]. intros K. assert (K2 : In (item_name i0) cl) by (apply Hcl; left; reflexivity). rewrite K in K2. destruct K2. }
  assert (Hclid : forallb id_ok cl = true).
  { apply forallb_forall. intros nm Hnm. apply Hcl in Hnm. apply in_map_iff in Hnm. destruct Hnm as (i & <- & Hi).
    rewrite forallb_forall in Hit. unfold items_plain_b in Hpl. rewrite forallb_forall in Hpl. exact (plain_name_id_ok i (Hit i Hi) (Hpl i Hi)). }
  assert (Hxt : tref_str ds x <> tref_str ds t).
  { intros K. pose proof Hc2 as Hc2'. unfold colshape in Hc2'. apply andb_true_iff in Hc2'. destruct Hc2' as [Hc2' _]. apply andb_true_iff in Hc2'. destruct Hc2' as [Hc2' _].
    apply andb_true_iff in Hc2'. destruct Hc2' as [Hns _]. cbn in Hns. rewrite andb_true_r in Hns. apply negb_true_iff in Hns.
    pose proof Hok2 as Hok2'. cbn [stmt_ok s2] in Hok2'. apply andb_true_iff in Hok2'. destruct Hok2' as [Hok2' _]. apply andb_true_iff in Hok2'. destruct Hok2' as [Hok2' _].
    apply andb_true_iff in Hok2'. destruct Hok2' as [Htx _]. unfold tref_ok in Htx, Ht. apply andb_true_iff in Htx, Ht.
    rewrite (tref_str_eq_clash ds x t (proj1 Htx) (proj1 Ht) K) in Hns. discriminate. }
  assert (Hux2 : is_known base2 (tref_str ds x) = false).
  { unfold is_known, known, base2 in *. cbn [assoc_s]. apply String.eqb_neq in Hxt. rewrite Hxt. exact Hux. }
  destruct (holder_star_md noise e base2 x None [RTable t None] cj' Hn He Hp Hux2 Hok2 Hss2 Hc2 eq_refl) as (G2 & r0 & cols & Ea2 & Hr0 & _ & Hkn & CF2 & HT2).
  { intros r [<-|[]] _. exists cl. split; [|exact Hclid]. unfold rel_known, rel_tname, known, base2. cbn [rtref assoc_s]. rewrite String.eqb_refl.
    destruct cl; [contradiction|reflexivity]. }
  destruct Hr0 as [<-|[]].
  assert (Ecols : cols = cl).
  { unfold rel_known, rel_tname, known, base2 in Hkn. cbn [rtref assoc_s] in Hkn. rewrite String.eqb_refl in Hkn. destruct cl; [contradiction|]. inversion Hkn. reflexivity. }
  subst cols. cbv zeta in CF2, HT2.
  (* the statement loop *)
  unfold s1, s2. unfold script_pairs, script_graph. cbn [run_statements]. rewrite Ea1. cbv beta iota zeta. rewrite Ereg. cbv beta iota zeta.
  change (with_cols e (view_cols [(tref_str (e_cfg e) t, cl)] base)) with (with_cols e (view_cols [] base2)). rewrite Ea2.
  cbv beta iota zeta. cbn [rev app fst snd map].
  set (FL1 := flows_of (S_of (map (tbl_of e) from)) (own_pairs (tbl e t None) (map xcol_of items))) in *.
  set (FL2 := map (fun cn => (Scol (tbl_of e (RTable t None)) cn, Scol (tbl e x None) cn)) cl) in *.
  assert (HM : Forall2 edges_match [G1; G2] [map phi FL1; map phi FL2]).
  { constructor; [exact (realises_match G1 FL1 (cf_real _ _ CF1) HT1)|]. constructor; [exact (realises_match G2 FL2 (cf_real _ _ CF2) HT2)|constructor]. }
  assert (Hh : Composition.c04_hyps (map holder_of [G1; G2]) = true).
  { unfold Composition.c04_hyps. cbn [map forallb].
    rewrite (core_plain G1 (cf_clean _ _ CF1)), (core_plain G2 (cf_clean _ _ CF2)), (core_resolved G1 (cf_res _ _ CF1)), (core_resolved G2 (cf_res _ _ CF2)),
      (core_cwf G1 _ CF1), (core_cwf G2 _ CF2). reflexivity. }
  match goal with |- context [build ?P (holder_of G1 :: holder_of G2 :: nil)] => set (p := P) end.
  destruct (Composition.c04_main p (map holder_of [G1; G2]) Hh) as (g & Hb & _). cbn [map] in Hb. rewrite Hb.
  apply us_ext. intros y. rewrite (lineage_match [G1; G2] _ HM p g Hh Hb y). cbn [List.concat]. rewrite app_nil_r.
  apply pairs_of_ext. intros pr.
  assert (E1 : map phi FL1 = stmt_edges ds s1).
  { rewrite (stmt_edges_select ds s1 t items from cj (or_intror (or_introl eq_refl)) Hrt).
    unfold FL1, flows_of, own_pairs. rewrite !flat_map_map', map_flat_map'. cbn [fst snd]. apply flat_map_ext_in'. intros i Hi.
    symmetry. apply item_corr_v; [exact Hrel| |exact (Hres i Hi)]. rewrite forallb_forall in Hit. apply Hit. exact Hi. }
  rewrite E1, !in_app_iff. unfold FL2. rewrite map_map, !in_map_iff. split.
  - intros [H|(cn & <- & Hcn)]; [left; exact H|]. right. apply Hcl in Hcn. apply in_map_iff in Hcn. destruct Hcn as (i & Ei & Hi).
    exists cn. split; [reflexivity|]. apply in_map_iff. exists i. auto.
  - intros [H|(nm & <- & Hnm)]; [left; exact H|]. right. exists nm. split; [reflexivity|]. apply Hcl. exact Hnm.
Qed.
Print Assumptions c04_created_table_known_to_later_star.

(** non-vacuity, with a STALE catalog entry for the created table (the script's definition wins) and a known source *)
Example c04_created_table_known_to_later_star_nonvacuous :
  let e := MdB.E "main" in
  let base : catalog := [("main.t", ["old1"; "old2"; "old3"]); ("main.src", ["a"; "b"; "c"])] in
  let items := [MdB.col "a"; MdB.acol "b" "z"] in
  let s1 := SCtas (None, "t") (QSelect items [MdB.T "src"] false None) in
  let s2 := SInsert MdB.X None (QSelect [IStar None] [RTable (None, "t") None] false None) in
  noise_ok [MdB.W; MdB.Cm] && env_ok_md e && p_truthy (e_provider e) && stmt_ok s1 && sshape s1 && colshape s1 && sel_tables_syntactic s1
  && unq_single s1 && items_plain_b items && stmt_ok s2 && sshape s2 && colshape s2 && negb (is_known base (tref_str (e_cfg e) MdB.X)) = true /\
  script_pairs e false base [r_stmt [MdB.W; MdB.Cm] s1; r_stmt [MdB.W; MdB.Cm] s2] = ["main.src.a>main.x.a"; "main.src.b>main.x.z"] /\
  uniq_sorted (sort_strings (pairs_of (stmt_edges (e_cfg e) s1 ++
     map (fun nm => ((tref_str (e_cfg e) (None, "t"), nm), (tref_str (e_cfg e) MdB.X, nm))) (map item_name items)))) =
  ["main.src.a>main.x.a"; "main.src.b>main.x.z"].
Proof. repeat split; vm_compute; reflexivity. Qed.

(** tested only: a table re-created with other columns between two readers (the latest definition is the one seen) *)
Example c04_recreated_table_instance :
  let e := MdB.E "main" in
  script_pairs e false [] (map (r_stmt [MdB.W])
    [SCtas (None, "t") (QSelect [MdB.col "a"] [MdB.T "s1"] false None);
     SInsert MdB.X None (QSelect [IStar None] [MdB.T "t"] false None);
     SCtas (None, "t") (QSelect [MdB.col "k"] [MdB.T "s2"] false None);
     SInsert (None, "y") None (QSelect [IStar None] [MdB.T "t"] false None)]) =
  ["main.s1.a>main.x.a"; "main.s2.k>main.y.k"].
Proof. vm_compute. reflexivity. Qed.
