(** Lemma B, step 5b, second round: the holder of a UNION whose branches may read the same table under different aliases.
    The table objects [ts] of both branches are no longer pairwise distinct: two objects for one table, equal as graph
    nodes; the holder stores the first.  Source columns are known up to Python equality (as in LemmaB5a.v, Part 2).
    Part G'  alias mapping of a group     Part F'  cleanup of one group     Part T'  cleanup with one barrier *)
From Coq Require Import Permutation Lia.
From SV Require Import Tree.Render Tree.LemmaA Tree.LemmaAProofs Tree.LemmaB Tree.LemmaBProofs Tree.LemmaB5a Tree.LemmaB5bDefs
     Tree.LemmaB5bCore Tree.LemmaB5b2Defs Ident.Escape Ident.EscapeProofs Holder.PathProofs Holder.SortProofs.

Lemma ts_tab (d : dataset) ts w : tabs_ok d ts -> In w ts -> tab_ok w.
Proof. intros H Hw. split; [exact (to_tables _ _ H w Hw)|exact (to_dok _ _ H w Hw)]. Qed.

(* ================================================================== *)
(** * Part G': the alias mapping of a group *)
Section AliasE.
Variable PC : column -> Prop.
Variables (d : dataset) (ts grp : list dataset).
Hypothesis Hto : tabs_ok d ts.
Hypothesis Hsub : sub_grp grp ts.
Hypothesis Hgg : group_ok d grp.

Lemma alias_edge_e g e x a :
  lits_in (QK (d :: ts) PC) g -> edges_inv ts g ->
  In e (gedges g) -> fst e = (NData x, NStr a) -> memd x grp = true ->
  In x ts /\ (exists v, In v ts /\ dataset_eqb v x = true /\ a = dalias v) /\ (exists w, In w grp /\ dataset_eqb x w = true).
Proof.
  intros Hl Hei He Hf Hm. specialize (Hei e He). unfold edge_inv in Hei. rewrite Hf in Hei. cbn [fst snd] in Hei.
  destruct Hei as [_ (src & v & E1 & E2 & E3 & E4)]. inversion E1. subst src.
  destruct (proj2 Hl e He) as [Hq _]. rewrite Hf in Hq. cbn [fst QK] in Hq. destruct Hq as [<-|Hx].
  - exfalso. rewrite (to_target _ _ Hto v E3) in E2. discriminate.
  - split; [exact Hx|]. split; [exists v; auto|]. apply memd_In_eqb in Hm. exact Hm.
Qed.

Lemma grp_tables_e : forall v, In v grp -> dk v = KTable.
Proof. intros v Hv. apply (to_tables _ _ Hto). apply Hsub. exact Hv. Qed.

Lemma am_sound_e g q u :
  lits_in (QK (d :: ts) PC) g -> edges_inv ts g ->
  assoc_list q (get_alias_mapping g grp) = Some u ->
  (In u grp /\ (draw u = q \/ dstr u = q)) \/
  (In u ts /\ (exists v, In v ts /\ dataset_eqb v u = true /\ dalias v = q) /\ exists w, In w grp /\ dataset_eqb u w = true).
Proof.
  intros Hl Hei H. rewrite get_alias_mapping_eq in H. cbv zeta in H. rewrite (filter_tables grp grp_tables_e) in H.
  apply fold_tables_sound in H. destruct H as [[H1 H2]|H]; [left; auto|].
  apply fold_tables_sound in H. destruct H as [[H1 H2]|H]; [left; auto|].
  apply alias_fold_sound in H. destruct H as [(e & He & Ht & Hf & Hm)|H]; [|discriminate].
  apply edges_nx_In in He. destruct (alias_edge_e g e u q Hl Hei He Hf Hm) as (K1 & (v & Hv & Ev & Eq) & K3).
  right. split; [exact K1|]. split; [exists v; auto|exact K3].
Qed.

Lemma am_values_e g x :
  lits_in (QK (d :: ts) PC) g -> edges_inv ts g ->
  In x (map snd (get_alias_mapping g grp)) -> In x grp \/ (In x ts /\ exists w, In w grp /\ dataset_eqb x w = true).
Proof.
  intros Hl Hei H. rewrite get_alias_mapping_eq in H. cbv zeta in H. rewrite (filter_tables grp grp_tables_e) in H.
  apply fold_tables_values in H. destruct H as [H|H]; [left; exact H|].
  apply fold_tables_values in H. destruct H as [H|H]; [left; exact H|].
  apply alias_fold_values in H. destruct H as [(e & a & He & Ht & Hf & Hm)|H]; [|destruct H].
  apply edges_nx_In in He. destruct (alias_edge_e g e x a Hl Hei He Hf Hm) as (K1 & _ & K3). right. auto.
Qed.

Lemma am_complete_e g v :
  edges_inv ts g -> In v grp ->
  has_edge g (NData v) (NStr (dalias v)) = true -> has_node g (NData v) = true ->
  is_some (assoc_list (dalias v) (get_alias_mapping g grp)) = true.
Proof.
  intros Hei Hv He Hn. rewrite get_alias_mapping_eq. cbv zeta. rewrite (filter_tables grp grp_tables_e).
  apply fold_tables_mono. apply fold_tables_mono.
  apply has_edge_In in He. destruct He as (e & He & E1 & E2). apply eqb_shape_str in E2.
  pose proof (Hei e He) as Hi. unfold edge_inv in Hi. rewrite E2 in Hi. destruct Hi as [Ht (src & w & F1 & F2 & F3 & F4)].
  apply (alias_fold_complete grp (edges_nx g) [] e src (dalias v)).
  - apply edges_nx_complete; [exact He|]. unfold has_node in *. rewrite <- (has_node_l_cong _ _ _ E1). exact Hn.
  - exact Ht.
  - destruct e as [[u y] a]. cbn [fst snd] in *. subst u y. reflexivity.
  - rewrite F1 in E1. cbn [node_eqb] in E1. unfold memd. apply existsb_exists. exists v. split; [exact Hv|].
    apply dataset_eqb_true_sym. exact E1.
Qed.

Lemma am_lookup_e g q v :
  sel_inv PC d ts g -> qual_ok_g ts grp q v ->
  exists u, assoc_list q (get_alias_mapping g grp) = Some u /\ dataset_eqb u v = true /\ In u ts.
Proof.
  intros Hinv (Hv & Eq & Hu3 & Hu4). subst q.
  pose proof (am_complete_e g v (si_edges _ _ _ _ Hinv) Hv (proj1 (si_alias _ _ _ _ Hinv v (Hsub v Hv)))
                (proj2 (si_alias _ _ _ _ Hinv v (Hsub v Hv)))) as Hs.
  destruct (assoc_list (dalias v) (get_alias_mapping g grp)) as [u|] eqn:E; [|discriminate]. exists u. split; [reflexivity|].
  destruct (am_sound_e g _ u (si_lits _ _ _ _ Hinv) (si_edges _ _ _ _ Hinv) E) as [[Hin Hor]|(Hin & (v' & Hv' & Ev' & Eq') & (w & Hw & Ew))].
  - rewrite (Hu3 u Hin) by tauto. split; [apply dataset_eqb_refl|apply Hsub; exact Hv].
  - assert (w = v) by (apply (Hu4 w v' Hw Hv' (dataset_eqb_trans _ _ _ Ev' Ew) Eq')). subst w. auto.
Qed.

Lemma am_covers_e g w :
  ts_inj grp -> names_nodot ts -> sel_inv PC d ts g -> In w grp -> In w (map snd (get_alias_mapping g grp)).
Proof.
  intros Hinj Hnd Hinv Hw.
  assert (Hs : is_some (assoc_list (dstr w) (get_alias_mapping g grp)) = true).
  { rewrite get_alias_mapping_eq. cbv zeta. rewrite (filter_tables grp grp_tables_e). apply fold_tables_complete. exact Hw. }
  destruct (assoc_list (dstr w) (get_alias_mapping g grp)) as [u|] eqn:E; [|discriminate].
  pose proof (assoc_list_In _ _ _ E) as Hin.
  destruct (am_sound_e g _ u (si_lits _ _ _ _ Hinv) (si_edges _ _ _ _ Hinv) E) as [[Hu [K|K]]|(_ & (v' & Hv' & _ & K) & _)].
  - exfalso. exact (proj2 (Hnd w u (Hsub w Hw) (Hsub u Hu)) K).
  - rewrite <- (proj2 Hinj u w Hu Hw K). exact Hin.
  - exfalso. exact (proj1 (Hnd w v' (Hsub w Hw) Hv') K).
Qed.

(** the source columns of an item, up to Python equality: [s] is what the model computes, [s0] the nominal column *)
Lemma HS_e (UN : list (list dataset * string)) e g x :
  PC = PCe d ts UN -> ts_inj grp -> names_nodot ts -> sel_inv PC d ts g -> xref_ok_g ts grp x ->
  (forall c, xsrc x = [(c, None)] -> multi grp -> In (grp, c) UN) ->
  exists s s0, to_source_columns e x (get_alias_mapping g grp) = Ok [s] /\ S_of grp x = [s0] /\ col_eqb s s0 = true /\
               PC s /\ (forall p, In p (cparents s) -> In p ts).
Proof.
  intros EPC Hinj Hnd Hinv (_ & c & qq & Hx & Hc & Hq) HUN. unfold S_of. rewrite Hx.
  assert (Hdo : Forall data_ok grp) by (apply Forall_forall; intros v Hv; apply (to_dok _ _ Hto); apply Hsub; exact Hv).
  assert (Hsingle : forall u v, In u ts -> In v grp -> dataset_eqb u v = true ->
            col_eqb {| craw := c; cparents := [u] |} {| craw := c; cparents := [v] |} = true).
  { intros u v Hu Hv Eu. unfold col_eqb, col_str, col_parent. cbn [cparents craw opt_dataset_eqb]. rewrite Eu, andb_true_r.
    rewrite (to_tables _ _ Hto u Hu), (to_tables _ _ Hto v (Hsub v Hv)),
            (tab_ok_eqb_dstr u v (ts_tab d ts u Hto Hu) (ts_tab d ts v Hto (Hsub v Hv)) Eu). apply String.eqb_refl. }
  destruct qq as [q|].
  - destruct Hq as (v & Hqv). destruct (am_lookup_e g q v Hinv Hqv) as (u & Ea & Eu & Hut). destruct Hqv as (Hv & Eq & Hu3 & _).
    rewrite (find_dalias grp q v Hv Eq (fun w Hw E => Hu3 w Hw (or_introl E))).
    exists {| craw := c; cparents := [u] |}, {| craw := c; cparents := [v] |}.
    split; [apply (tsc_qualified e x _ c q u); assumption|]. split; [reflexivity|]. split; [apply Hsingle; assumption|].
    split; [rewrite EPC; left; exists u; split; [reflexivity|right; exact Hut]|intros p [<-|[]]; exact Hut].
  - destruct Hq as [(d1 & Ed)|(Hm & Hstar)].
    + assert (Hd1 : In d1 grp) by (rewrite Ed; left; reflexivity).
      assert (Hall : forall y, In y (map snd (get_alias_mapping g grp)) -> dataset_eqb y d1 = true /\ In y ts).
      { intros y Hy. destruct (am_values_e g y (si_lits _ _ _ _ Hinv) (si_edges _ _ _ _ Hinv) Hy) as [K|[K (w & Hw & E)]].
        - rewrite Ed in K. destruct K as [<-|[]]. split; [apply dataset_eqb_refl|apply Hsub; exact Hd1].
        - rewrite Ed in Hw. destruct Hw as [<-|[]]. auto. }
      destruct (dedup_all_eqb (map snd (get_alias_mapping g grp)) d1) as (u & Hu & Eu).
      { pose proof (am_covers_e g d1 Hinj Hnd Hinv Hd1) as K. intros E0. rewrite E0 in K. destruct K. }
      { intros y Hy. exact (proj1 (Hall y Hy)). }
      destruct (Hall u Hu) as [Equ Hut]. rewrite Ed.
      exists {| craw := c; cparents := [u] |}, {| craw := c; cparents := [d1] |}.
      split; [apply tsc_unq_single; [exact Hx|exact Hc|rewrite <- Ed; exact Eu]|]. split; [reflexivity|].
      split; [apply Hsingle; assumption|].
      split; [rewrite EPC; left; exists u; split; [reflexivity|right; exact Hut]|intros p [<-|[]]; exact Hut].
    + rewrite (multi_not_single grp _ _ _ Hm).
      set (values := dedup_ds (map snd (get_alias_mapping g grp)) []).
      set (U := fold_left add_parent values {| craw := c; cparents := [] |}).
      assert (Hval : forall y, In y values -> In y ts /\ exists w, In w grp /\ dataset_eqb y w = true).
      { intros y Hy. apply In_dedup_ds in Hy. destruct (am_values_e g y (si_lits _ _ _ _ Hinv) (si_edges _ _ _ _ Hinv) Hy) as [K|K].
        - split; [apply Hsub; exact K|]. exists y. split; [exact K|apply dataset_eqb_refl].
        - exact K. }
      destruct (pfold_f values [] (fun y Hy => ts_tab d ts y Hto (proj1 (Hval y Hy))) (fun y Hy => match Hy with end) (NoDup_nil _)) as (P1 & P2 & P3).
      assert (EU : U = {| craw := c; cparents := pfold values [] |}) by (unfold U; rewrite fold_add_parent_eq; reflexivity).
      assert (Hcov : forall w, In w grp -> exists p, In p (pfold values []) /\ tab_ok p /\ dataset_eqb p w = true).
      { intros w Hw. destruct (memd_dedup w _ [] (am_covers_e g w Hinj Hnd Hinv Hw)) as [K|K]; [|discriminate K].
        apply memd_In_eqb in K. destruct K as (y & Hy & Ey). fold values in Hy.
        pose proof (P3 y (or_intror Hy)) as K2. apply memd_In_eqb in K2. destruct K2 as (p & Hp & Ep).
        exists p. destruct (P2 p Hp) as [[]|Hpv]. split; [exact Hp|]. split; [exact (ts_tab d ts p Hto (proj1 (Hval p Hpv)))|].
        apply dataset_eqb_true_sym. apply (dataset_eqb_trans w y p Ey Ep). }
      assert (Hlen : 2 <= List.length (pfold values [])) by (apply (multi_len2 d grp Hgg Hm); exact Hcov).
      exists U, (Ucol grp c). split; [|split; [reflexivity|split; [|split]]].
      * unfold to_source_columns. rewrite Hx. cbn [map concat_res]. rewrite Hc. apply String.eqb_neq in Hstar. rewrite Hstar. reflexivity.
      * unfold col_eqb, col_str. rewrite (col_parent_none U) by (rewrite EU; exact Hlen).
        rewrite (col_parent_none _ (Ucol_multi d grp Hgg Hinj Hdo c Hm)). rewrite EU, (proj1 (Ucol_props grp c Hinj)). cbn [craw opt_dataset_eqb].
        rewrite String.eqb_refl. reflexivity.
      * rewrite EPC. right. exists grp, c. split; [exact (HUN c Hx Hm)|]. rewrite EU. unfold UPg. cbn [craw cparents].
        split; [reflexivity|]. split; [exact Hc|]. split; [exact Hlen|]. split; [|split; [|exact P1]].
        -- intros p Hp0. destruct (P2 p Hp0) as [[]|Hpv]. exact (Hval p Hpv).
        -- intros w Hw. destruct (Hcov w Hw) as (p & Hp0 & _ & Ep). exists p. auto.
      * rewrite EU. cbn [cparents]. intros p Hp0. destruct (P2 p Hp0) as [[]|Hpv]. exact (proj1 (Hval p Hpv)).
Qed.
End AliasE.

(* ================================================================== *)
(** * Part F': one source column feeding one target column; the cleanup of one group *)
Lemma acl_ok_e (PC : column -> Prop) d ts g src tgt :
  tabs_ok d ts -> col_parent tgt = Some d -> PC tgt -> PC src -> (forall p, In p (cparents src) -> In p ts) ->
  lits_in (QK (d :: ts) PC) g -> edges_inv ts g ->
  exists g', add_column_lineage g src tgt = Ok g' /\ ext g g' (acl_edges src tgt d) /\
             lits_in (QK (d :: ts) PC) g' /\ edges_inv ts g' /\ (forall k, holder_nodes g' k = holder_nodes g k) /\
             List.length (out_edges g' (NData d)) <= S (List.length (out_edges g (NData d))) /\
             (drop_free g -> drop_free g').
Proof.
  intros Hto Ht Hqt Hqs Hps Hl He. unfold add_column_lineage. rewrite Ht.
  set (g1 := add_edge g (NCol src) (NCol tgt) lineage_edge).
  set (g2 := add_edge g1 (NData d) (NCol tgt) (e_has_column None)).
  assert (L1 : lits_in (QK (d :: ts) PC) g1) by (apply lits_add_edge; [exact Hl|exact Hqs|exact Hqt]).
  assert (L2 : lits_in (QK (d :: ts) PC) g2) by (apply lits_add_edge; [exact L1|left; reflexivity|exact Hqt]).
  assert (E1 : edges_inv ts g1) by (apply edges_inv_add_edge; [exact He|left; reflexivity]).
  assert (E2 : edges_inv ts g2) by (apply edges_inv_add_edge; [exact E1|right; reflexivity]).
  assert (X2 : ext g g2 ([(NCol src, NCol tgt)] ++ [(NData d, NCol tgt)])).
  { apply (ext_trans g g1 g2); apply ext_add_edge. }
  assert (O1 : out_edges g1 (NData d) = out_edges g (NData d)) by (apply out_edges_add_edge_other; reflexivity).
  assert (O2 : List.length (out_edges g2 (NData d)) <= S (List.length (out_edges g (NData d)))).
  { rewrite <- O1. apply out_edges_add_edge_len. }
  assert (T2 : forall k, holder_nodes g2 k = holder_nodes g k) by (intros k; unfold g2, g1; rewrite !tag_add_edge; reflexivity).
  unfold acl_edges. destruct (col_parent src) as [sp|] eqn:Es.
  - eexists. split; [reflexivity|]. pose proof (col_parent_some _ _ Es) as Ep.
    assert (Hsp : In sp ts) by (apply Hps; rewrite Ep; left; reflexivity).
    split; [|split; [|split; [|split; [|split]]]].
    + change ([(NCol src, NCol tgt); (NData d, NCol tgt)] ++ [(NData sp, NCol src)])
        with (([(NCol src, NCol tgt)] ++ [(NData d, NCol tgt)]) ++ [(NData sp, NCol src)]).
      apply (ext_trans g g2 _ _ _ X2). apply ext_add_edge.
    + apply lits_add_edge; [exact L2|right; exact Hsp|exact Hqs].
    + apply edges_inv_add_edge; [exact E2|right; reflexivity].
    + intros k. rewrite tag_add_edge. apply T2.
    + rewrite out_edges_add_edge_other; [exact O2|]. cbn [node_eqb]. rewrite dataset_eqb_sym. apply (to_target _ _ Hto). exact Hsp.
    + intros Hdf. repeat apply drop_free_add_edge. exact Hdf.
  - eexists. split; [reflexivity|]. rewrite app_nil_r. repeat (split; [assumption|]).
    intros Hdf. repeat apply drop_free_add_edge. exact Hdf.
Qed.

Lemma acl_out_new_e (PC : column -> Prop) d ts g s nm done g' :
  tabs_ok d ts -> dk d = KTable -> lits_in (QK (d :: ts) PC) g -> PC (Wcol d nm) -> PC s -> wcol_lit d PC ->
  (forall p, In p (cparents s) -> In p ts) ->
  add_column_lineage g s (Wcol d nm) = Ok g' ->
  out_edges g (NData d) = OEn d done -> ~ In nm done ->
  out_edges g' (NData d) = OEn d (done ++ [nm]).
Proof.
  intros Hto Hd Hl Hw Hs HPW Hps E Ho Hnm. unfold add_column_lineage in E. change (col_parent (Wcol d nm)) with (Some d) in E. cbv iota in E.
  set (tgt := Wcol d nm) in *.
  set (g1 := add_edge g (NCol s) (NCol tgt) lineage_edge) in *.
  set (g2 := add_edge g1 (NData d) (NCol tgt) (e_has_column None)) in *.
  assert (L1 : lits_in (QK (d :: ts) PC) g1) by (apply lits_add_edge; assumption).
  assert (O1 : out_edges g1 (NData d) = OEn d done) by (unfold g1; rewrite out_edges_add_edge_other; [exact Ho|reflexivity]).
  assert (O2 : out_edges g2 (NData d) = OEn d (done ++ [nm])).
  { unfold g2, add_edge, out_edges. cbn [gedges gnodes add_node].
    set (ns := upsert_node (NCol tgt) [] (upsert_node (NData d) [] (gnodes g1))).
    assert (Ln : lits_in (QK (d :: ts) PC) (add_node (add_node g1 (NData d) []) (NCol tgt) [])).
    { apply lits_add_node; [apply lits_add_node; [exact L1|left; reflexivity]|exact Hw]. }
    assert (C1 : canon_l (NData d) ns = NData d).
    { pose proof (canon_eqb (NData d) ns) as Ee.
      destruct (canon_cases (NData d) ns) as [K|K]; [exact K|].
      pose proof (proj1 Ln _ K) as Q. destruct (canon_l (NData d) ns) as [x| |]; cbn [node_eqb] in Ee; try discriminate.
      cbn [QK] in Q. destruct Q as [<-|Q]; [reflexivity|]. rewrite dataset_eqb_sym, (to_target _ _ Hto x Q) in Ee. discriminate. }
    assert (C2 : canon_l (NCol tgt) ns = NCol tgt).
    { pose proof (canon_eqb (NCol tgt) ns) as Ee.
      destruct (canon_cases (NCol tgt) ns) as [K|K]; [exact K|].
      pose proof (proj1 Ln _ K) as Q. destruct (canon_l (NCol tgt) ns) as [|c'|]; cbn [node_eqb] in Ee; try discriminate.
      cbn [QK] in Q. rewrite (HPW c' nm Q Ee). reflexivity. }
    rewrite C1, C2, upsert_edge_fresh.
    - rewrite filter_app. fold (out_edges g1 (NData d)). rewrite O1. cbn [filter fst]. rewrite node_eqb_refl. unfold OEn. rewrite map_app. reflexivity.
    - destruct (has_edge_l (NData d) (NCol tgt) (gedges g1)) eqn:Eh; [|reflexivity]. exfalso.
      change (has_edge g1 (NData d) (NCol tgt) = true) in Eh. apply has_edge_In in Eh. destruct Eh as (e0 & He0 & E1 & E2).
      assert (Hin : In e0 (out_edges g1 (NData d))) by (unfold out_edges; apply filter_In; auto).
      rewrite O1 in Hin. unfold OEn in Hin. apply in_map_iff in Hin. destruct Hin as (c & <- & Hc). cbn [fst snd node_eqb] in E2.
      apply Hnm. rewrite (Wcol_eqb d nm c Hd E2). exact Hc. }
  destruct (col_parent s) as [sp|] eqn:Es; inversion E; subst g'; [|exact O2].
  rewrite out_edges_add_edge_other; [exact O2|]. cbn [node_eqb]. rewrite dataset_eqb_sym. apply (to_target _ _ Hto). apply Hps.
  rewrite (col_parent_some _ _ Es). left. reflexivity.
Qed.

Lemma add_reads_e (PC : column -> Prop) d ts : forall l g,
  tabs_ok d ts -> (forall v, In v l -> In v ts) ->
  lits_in (QK (d :: ts) PC) g -> edges_inv ts g ->
  lits_in (QK (d :: ts) PC) (fold_left add_read l g) /\ edges_inv ts (fold_left add_read l g) /\
  ext g (fold_left add_read l g) (map (fun v => (NData v, NStr (dalias v))) l) /\
  (forall k, k <> "read" -> holder_nodes (fold_left add_read l g) k = holder_nodes g k) /\
  out_edges (fold_left add_read l g) (NData d) = out_edges g (NData d) /\
  (drop_free g -> drop_free (fold_left add_read l g)).
Proof.
  induction l as [|v r IH]; intros g Hto Hl Hlit Hei; cbn [fold_left map].
  - split; [exact Hlit|]. split; [exact Hei|]. split; [apply ext_refl|]. split; [reflexivity|]. split; [reflexivity|auto].
  - assert (Hv : In v ts) by (apply Hl; left; reflexivity).
    pose proof (to_tables _ _ Hto v Hv) as Hk.
    assert (L1 : lits_in (QK (d :: ts) PC) (add_read g v)).
    { rewrite (add_read_table g v Hk). apply lits_add_edge; [apply lits_add_node; [exact Hlit|right; exact Hv]|right; exact Hv|exact I]. }
    assert (E1 : edges_inv ts (add_read g v)).
    { rewrite (add_read_table g v Hk). apply edges_inv_add_edge; [apply edges_inv_add_node; exact Hei|].
      split; [reflexivity|]. exists v. auto. }
    assert (X1 : ext g (add_read g v) [(NData v, NStr (dalias v))]).
    { rewrite (add_read_table g v Hk).
      apply (ext_trans g (add_node g (NData v) [("read", true)]) _ [] _ (ext_add_node g _ _) (ext_add_edge _ _ _ _)). }
    assert (O1 : out_edges (add_read g v) (NData d) = out_edges g (NData d)).
    { rewrite (add_read_table g v Hk). rewrite out_edges_add_edge_other; [reflexivity|].
      cbn [node_eqb]. rewrite dataset_eqb_sym. apply (to_target _ _ Hto v Hv). }
    assert (D1 : drop_free g -> drop_free (add_read g v)).
    { intros Hdf. rewrite (add_read_table g v Hk). apply drop_free_add_edge. apply drop_free_add_node; [exact Hdf|].
      intros [K|[]]. discriminate K. }
    destruct (IH (add_read g v) Hto (fun w Hw => Hl w (or_intror Hw)) L1 E1) as (A1 & A2 & A3 & A4 & A5 & A6).
    split; [exact A1|]. split; [exact A2|]. split.
    + apply (ext_trans g (add_read g v) _ [(NData v, NStr (dalias v))] _ X1 A3).
    + split; [|split; [rewrite A5; exact O1|auto]]. intros k Hk'. rewrite (A4 k Hk'). apply tag_add_read_other; [apply (to_dok _ _ Hto); exact Hv|exact Hk'].
Qed.

Lemma g0_facts_e (PC : column -> Prop) d ts gb :
  tabs_ok d ts -> lits_in (QK (d :: ts) PC) gb -> edges_inv ts gb -> drop_free gb ->
  (forall k, holder_nodes gb k = holder_nodes (add_write empty_graph d) k) ->
  let g0 := fold_left add_read ts gb in
  sel_inv PC d ts g0 /\ sq_write g0 = [d] /\ memd d (sq_read g0) = false /\
  out_edges g0 (NData d) = out_edges gb (NData d) /\ ext gb g0 (map (fun v => (NData v, NStr (dalias v))) ts).
Proof.
  intros Hto Lb Eb D C g0.
  destruct (add_reads_e PC d ts ts gb Hto (fun v Hv => Hv) Lb Eb) as (A1 & A2 & A3 & A4 & A5 & A6). fold g0 in A1, A2, A3, A4, A5, A6.
  assert (Hw : sq_write g0 = [d]) by (unfold sq_write; rewrite A4 by discriminate; rewrite C; reflexivity).
  assert (Hr : memd d (sq_read g0) = false).
  { destruct (memd d (sq_read g0)) eqn:E; [|reflexivity]. exfalso. apply memd_In_eqb in E. destruct E as (v & Hv & Ev).
    unfold sq_read, g0 in Hv. apply reads_after_add_reads in Hv; [|exact (to_tables _ _ Hto)].
    destruct Hv as [Hv|(w & Hw' & Ew)]; [rewrite C in Hv; destruct Hv|].
    assert (K : dataset_eqb w d = true) by (apply (dataset_eqb_trans w v d Ew); apply dataset_eqb_true_sym; exact Ev).
    rewrite (to_target _ _ Hto w Hw') in K. discriminate. }
  split; [|split; [exact Hw|split; [exact Hr|split; [exact A5|exact A3]]]].
  constructor; [exact A1|exact A2| |exact (A6 D)]. intros v Hv.
  assert (Hin : In (NData v, NStr (dalias v)) (map (fun v => (NData v, NStr (dalias v))) ts)) by (apply in_map_iff; exists v; auto).
  split.
  - rewrite (ext_edges _ _ _ A3). apply orb_true_iff. right. unfold ematch. apply existsb_exists. eexists. split; [exact Hin|].
    cbn [fst snd]. rewrite !node_eqb_refl. reflexivity.
  - exact (proj1 (ext_new _ _ _ A3 _ Hin)).
Qed.

(** what the model computes for the items of one group, up to Python equality *)
Definition grp_srcs_e (PC : column -> Prop) (e : env) (d : dataset) (ts grp : list dataset) (cols : list xcol) (S : xcol -> list column) : Prop :=
  forall g2, sel_inv PC d ts g2 -> forall x, In x cols ->
    exists s s0, to_source_columns e x (get_alias_mapping g2 grp) = Ok [s] /\ S x = [s0] /\ col_eqb s s0 = true /\
                 PC s /\ (forall p, In p (cparents s) -> In p ts).

Lemma eoq_fold_own_e (PC : column -> Prop) e d ts grp cols (S : xcol -> list column) :
  tabs_ok d ts -> dk d = KTable -> wcol_lit d PC -> grp_srcs_e PC e d ts grp cols S ->
  (forall x, In x cols -> cparents (xc x) = [] /\ PC (Wcol d (xname x))) ->
  NoDup (map xname cols) ->
  forall l done g2,
    cols = done ++ l -> sel_inv PC d ts g2 -> sq_write g2 = [d] ->
    out_edges g2 (NData d) = OEn d (map xname done) ->
    exists g', fst (fold_left (fun acc2 x => let '(rg, idx) := acc2 in
                                  (do g2 <- rg; eoq_step e grp (List.length cols) d g2 idx x, Datatypes.S idx)) l (Ok g2, List.length done)) = Ok g' /\
               ext g2 g' (sel_edges d S (wpairs d l (map xname l))) /\ sel_inv PC d ts g' /\
               (forall k, holder_nodes g' k = holder_nodes g2 k) /\ out_edges g' (NData d) = OEn d (map xname cols).
Proof.
  intros Hto Hd HPW HS HX Hnd. induction l as [|x r IH]; intros done g2 Hc Hinv Hw Ho; cbn [fold_left].
  - exists g2. split; [reflexivity|]. split; [apply ext_refl|]. split; [exact Hinv|]. split; [reflexivity|].
    rewrite Hc, app_nil_r. exact Ho.
  - assert (Hxin : In x cols) by (rewrite Hc; apply in_app_iff; right; left; reflexivity).
    destruct (HX x Hxin) as (Hx1 & Hx0). destruct (HS g2 Hinv x Hxin) as (s & s0 & Et & ES & Ecol & Hps & Hpp).
    assert (Hlen : List.length done < List.length cols) by (rewrite Hc, app_length; cbn [List.length]; lia).
    assert (Hnew : ~ In (xname x) (map xname done)).
    { rewrite Hc, map_app in Hnd. cbn [map] in Hnd. apply NoDup_remove_2 in Hnd. intros K. apply Hnd. apply in_app_iff. left. exact K. }
    assert (Estep : eoq_step e grp (List.length cols) d g2 (List.length done) x = add_column_lineage g2 s (Wcol d (xname x))).
    { unfold eoq_step. rewrite Et.
      pose proof (write_columns_len g2 d Hw) as Hwl. rewrite Ho in Hwl. unfold OEn in Hwl. rewrite !map_length in Hwl.
      replace (Nat.eqb (List.length (write_columns g2)) (List.length cols)) with false by (symmetry; apply Nat.eqb_neq; lia).
      cbv zeta. cbn [fold_left]. fold (own_col d x). rewrite (own_col_eq d x Hx1). reflexivity. }
    rewrite Estep.
    destruct (acl_ok_e PC d ts g2 s (Wcol d (xname x)) Hto eq_refl Hx0 Hps Hpp (si_lits _ _ _ _ Hinv) (si_edges _ _ _ _ Hinv))
      as (g3 & E3 & X3 & L3 & I3 & T3 & _ & D3).
    rewrite E3.
    assert (O3 : out_edges g3 (NData d) = OEn d (map xname (done ++ [x]))).
    { rewrite map_app. cbn [map].
      apply (acl_out_new_e PC d ts g2 s (xname x) (map xname done) g3 Hto Hd (si_lits _ _ _ _ Hinv) Hx0 Hps HPW Hpp E3 Ho Hnew). }
    assert (Hinv3 : sel_inv PC d ts g3) by (apply (sel_inv_ext PC d ts g2 g3 _ Hinv X3 L3 I3 (D3 (si_drop _ _ _ _ Hinv)))).
    assert (Hw3 : sq_write g3 = [d]) by (unfold sq_write; rewrite T3; exact Hw).
    replace (Datatypes.S (List.length done)) with (List.length (done ++ [x])) by (rewrite app_length; cbn [List.length]; lia).
    destruct (IH (done ++ [x]) g3 ltac:(rewrite <- app_assoc; exact Hc) Hinv3 Hw3 O3) as (g' & E' & X' & Hinv' & T' & O').
    exists g'. split; [exact E'|]. split.
    + unfold wpairs, sel_edges. cbn [map combine flat_map fst snd]. rewrite ES. cbn [flat_map]. rewrite app_nil_r.
      apply (ext_trans g2 g3 g' _ _ (ext_eqb _ _ _ _ X3 (acl_edges_eqb d s s0 _ Ecol))). exact X'.
    + split; [exact Hinv'|]. split; [intros k; rewrite T', T3; reflexivity|exact O'].
Qed.

Lemma eoq_fold_given_e (PC : column -> Prop) e d ts grp cs (O : list (Graph.node * Graph.node * eattrs)) cols (S : xcol -> list column) :
  tabs_ok d ts -> dk d = KTable -> List.length cols = List.length cs ->
  (forall g, sq_write g = [d] -> memd d (sq_read g) = false -> out_edges g (NData d) = O -> write_columns g = map (Wcol d) cs) ->
  (forall e0, In e0 O -> eattr_update (snd e0) (e_has_column None) = snd e0) ->
  (forall c, In c cs -> exists e0, In e0 O /\ fst e0 = (NData d, NCol (Wcol d c))) ->
  grp_srcs_e PC e d ts grp cols S ->
  (forall c, In c cs -> PC (Wcol d c)) ->
  forall l g2 idx,
    (forall x, In x l -> In x cols) -> sel_inv PC d ts g2 -> sq_write g2 = [d] -> memd d (sq_read g2) = false ->
    out_edges g2 (NData d) = O -> idx + List.length l = List.length cols ->
    exists g', fst (fold_left (fun acc2 x => let '(rg, idx) := acc2 in
                                  (do g2 <- rg; eoq_step e grp (List.length cols) d g2 idx x, Datatypes.S idx)) l (Ok g2, idx)) = Ok g' /\
               ext g2 g' (sel_edges d S (combine l (skipn idx (map (Wcol d) cs)))) /\ sel_inv PC d ts g' /\
               (forall k, holder_nodes g' k = holder_nodes g2 k) /\ out_edges g' (NData d) = O.
Proof.
  intros Hto Hd Hlen HWC HO HOc HS HW. induction l as [|x r IH]; intros g2 idx Hl Hinv Hw Hr Ho Hn; cbn [fold_left].
  - exists g2. split; [reflexivity|]. split; [apply ext_refl|]. split; [exact Hinv|]. split; [reflexivity|exact Ho].
  - destruct (HS g2 Hinv x (Hl x (or_introl eq_refl))) as (s & s0 & Et & ES & Ecol & Hps & Hpp). cbn [List.length] in Hn.
    assert (Hidx : idx < List.length cs) by lia.
    destruct (nth_error cs idx) as [c|] eqn:Ec; [|apply nth_error_None in Ec; lia].
    pose proof (nth_error_In _ _ Ec) as Hc.
    pose proof (HWC g2 Hw Hr Ho) as Ewc.
    assert (Estep : eoq_step e grp (List.length cols) d g2 idx x = add_column_lineage g2 s (Wcol d c)).
    { unfold eoq_step. rewrite Et, Ewc, map_length, Hlen, Nat.eqb_refl.
      rewrite (map_nth_error (Wcol d) idx cs Ec). reflexivity. }
    rewrite Estep.
    destruct (acl_ok_e PC d ts g2 s (Wcol d c) Hto eq_refl (HW c Hc) Hps Hpp (si_lits _ _ _ _ Hinv) (si_edges _ _ _ _ Hinv))
      as (g3 & E3 & X3 & L3 & I3 & T3 & _ & D3).
    rewrite E3.
    assert (O3 : out_edges g3 (NData d) = O).
    { apply (acl_oed_g d O g2 s c g3 E3 Ho HO (HOc c Hc)). intros p Hp. apply (to_target _ _ Hto). apply Hpp. exact Hp. }
    assert (Hinv3 : sel_inv PC d ts g3) by (apply (sel_inv_ext PC d ts g2 g3 _ Hinv X3 L3 I3 (D3 (si_drop _ _ _ _ Hinv)))).
    assert (Hw3 : sq_write g3 = [d]) by (unfold sq_write; rewrite T3; exact Hw).
    assert (Hr3 : memd d (sq_read g3) = false) by (unfold sq_read; rewrite T3; exact Hr).
    destruct (IH g3 (Datatypes.S idx) (fun y Hy => Hl y (or_intror Hy)) Hinv3 Hw3 Hr3 O3 ltac:(lia)) as (g' & E' & X' & Hinv' & T' & O').
    exists g'. split; [exact E'|]. split.
    + rewrite (skipn_nth (map (Wcol d) cs) idx (Wcol d c) (map_nth_error (Wcol d) idx cs Ec)).
      unfold sel_edges. cbn [combine flat_map fst snd]. rewrite ES. cbn [flat_map]. rewrite app_nil_r.
      apply (ext_trans g2 g3 g' _ _ (ext_eqb _ _ _ _ X3 (acl_edges_eqb d s s0 _ Ecol))). exact X'.
    + split; [exact Hinv'|]. split; [intros k; rewrite T', T3; reflexivity|exact O'].
Qed.

(* ================================================================== *)
(** * Part T': the cleanup with one barrier *)
Lemma union_core_own_e (PC : column -> Prop) e d ts1 ts2 xs1 xs2 (S1 S2 : xcol -> list column) :
  p_truthy (e_provider e) = false -> tabs_ok d (ts1 ++ ts2) -> dk d = KTable ->
  (forall c, PC c -> col_qk c) -> wcol_lit d PC ->
  grp_srcs_e PC e d (ts1 ++ ts2) ts1 xs1 S1 -> grp_srcs_e PC e d (ts1 ++ ts2) ts2 xs2 S2 ->
  (forall x, In x xs1 -> cparents (xc x) = [] /\ PC (Wcol d (xname x))) ->
  NoDup (map xname xs1) -> List.length xs2 = List.length xs1 ->
  exists sub, (do g2 <- end_of_query_cleanup e (add_write empty_graph d) (ts1 ++ ts2) (xs1 ++ xs2) [(List.length xs1, List.length ts1)];
               expand_wildcard e g2) = Ok sub /\
              ext (add_write empty_graph d) sub
                  (map (fun v => (NData v, NStr (dalias v))) (ts1 ++ ts2) ++
                   sel_edges d S1 (wpairs d xs1 (map xname xs1)) ++ sel_edges d S2 (wpairs d xs2 (map xname xs1))) /\
              sel_inv PC d (ts1 ++ ts2) sub.
Proof.
  intros Hp Hto Hd HPC HPW HS1 HS2 HO1 Hnd Hlen. rewrite eoq_two. set (ts := ts1 ++ ts2) in *. set (gb := add_write empty_graph d).
  assert (Lb : lits_in (QK (d :: ts) PC) gb) by (split; [intros n [<-|[]]; left; reflexivity|intros e0 []]).
  assert (Eb : edges_inv ts gb) by (intros e0 []).
  assert (Db : drop_free gb) by (intros n a [H|[]]; inversion H; intros [K|[]]; discriminate K).
  destruct (g0_facts_e PC d ts gb Hto Lb Eb Db (fun k => eq_refl)) as (Hinv0 & Hw0 & Hr0 & Ho0 & X0).
  set (g0 := fold_left add_read ts gb) in *.
  unfold eoq_grp at 1. rewrite Hw0.
  destruct (eoq_fold_own_e PC e d ts ts1 xs1 S1 Hto Hd HPW HS1 HO1 Hnd xs1 [] g0 eq_refl Hinv0 Hw0)
    as (g1 & E1 & X1 & Hinv1 & T1 & O1).
  { rewrite Ho0. reflexivity. }
  cbn [List.length] in E1. rewrite E1. cbn beta iota.
  assert (Hw1 : sq_write g1 = [d]) by (unfold sq_write; rewrite T1; exact Hw0).
  assert (Hr1 : memd d (sq_read g1) = false) by (unfold sq_read; rewrite T1; exact Hr0).
  unfold eoq_grp. rewrite Hw1.
  destruct (eoq_fold_given_e PC e d ts ts2 (map xname xs1) (OEn d (map xname xs1)) xs2 S2 Hto Hd
              ltac:(rewrite map_length; exact Hlen) (fun g => write_columns_OEn g d (map xname xs1))) with (l := xs2) (g2 := g1) (idx := 0)
    as (g2 & E2 & X2 & Hinv2 & T2 & O2); try assumption.
  - intros e0 He0. unfold OEn in He0. apply in_map_iff in He0. destruct He0 as (c & <- & _). reflexivity.
  - intros c Hc. eexists. split; [unfold OEn; apply in_map_iff; exists c; split; [reflexivity|exact Hc]|reflexivity].
  - intros c Hc. apply in_map_iff in Hc. destruct Hc as (x & <- & Hx). exact (proj2 (HO1 x Hx)).
  - intros x Hx. exact Hx.
  - reflexivity.
  - rewrite E2. cbn beta iota. rewrite (expand_wildcard_id e g2 Hp (QK_col_qk _ PC g2 HPC (si_lits _ _ _ _ Hinv2))).
    exists g2. split; [reflexivity|]. split; [|exact Hinv2]. cbn [skipn] in X2.
    apply (ext_trans gb g0 g2 _ _ X0). apply (ext_trans g0 g1 g2 _ _ X1). exact X2.
Qed.

Lemma union_core_cols_e (PC : column -> Prop) e d ts1 ts2 cs xs1 xs2 (S1 S2 : xcol -> list column) :
  p_truthy (e_provider e) = false -> tabs_ok d (ts1 ++ ts2) -> dk d = KTable ->
  (forall c, PC c -> col_qk c) -> NoDup cs ->
  grp_srcs_e PC e d (ts1 ++ ts2) ts1 xs1 S1 -> grp_srcs_e PC e d (ts1 ++ ts2) ts2 xs2 S2 ->
  (forall c, In c cs -> PC (Wcol d c)) ->
  List.length xs1 = List.length cs -> List.length xs2 = List.length cs ->
  exists sub, (do g2 <- end_of_query_cleanup e (gb_of d cs) (ts1 ++ ts2) (xs1 ++ xs2) [(List.length xs1, List.length ts1)];
               expand_wildcard e g2) = Ok sub /\
              ext (gb_of d cs) sub
                  (map (fun v => (NData v, NStr (dalias v))) (ts1 ++ ts2) ++
                   sel_edges d S1 (wpairs d xs1 cs) ++ sel_edges d S2 (wpairs d xs2 cs)) /\
              sel_inv PC d (ts1 ++ ts2) sub.
Proof.
  intros Hp Hto Hd HPC Hnd HS1 HS2 HW Hl1 Hl2. rewrite eoq_two. set (ts := ts1 ++ ts2) in *. set (gb := gb_of d cs).
  destruct (gb_facts d cs Hd Hnd) as (A & B & C & D & O). fold gb in A, B, C, D, O.
  assert (Lb : lits_in (QK (d :: ts) PC) gb).
  { split.
    - intros n Hn. rewrite B in Hn. destruct Hn as [<-|Hn]; [left; reflexivity|]. apply in_map_iff in Hn. destruct Hn as (c & <- & Hc). apply HW. exact Hc.
    - intros e0 He0. rewrite A in He0. destruct (OE_edge d cs e0 He0) as (j & c & Hc & ->). cbn [fst snd QK]. split; [left; reflexivity|apply HW; exact Hc]. }
  assert (Eb : edges_inv ts gb).
  { intros e0 He0. rewrite A in He0. destruct (OE_edge d cs e0 He0) as (j & c & Hc & ->). unfold edge_inv. cbn [fst snd etype e_has_column]. right. reflexivity. }
  destruct (g0_facts_e PC d ts gb Hto Lb Eb D C) as (Hinv0 & Hw0 & Hr0 & Ho0 & X0).
  set (g0 := fold_left add_read ts gb) in *.
  assert (HO : forall e0, In e0 (OE d cs) -> eattr_update (snd e0) (e_has_column None) = snd e0).
  { intros e0 He0. destruct (OE_edge d cs e0 He0) as (j & c & _ & ->). reflexivity. }
  assert (HOc : forall c, In c cs -> exists e0, In e0 (OE d cs) /\ fst e0 = (NData d, NCol (Wcol d c))).
  { intros c Hc. destruct (In_OE d cs c Hc) as (j & Hj). eexists. split; [exact Hj|reflexivity]. }
  unfold eoq_grp at 1. rewrite Hw0.
  destruct (eoq_fold_given_e PC e d ts ts1 cs (OE d cs) xs1 S1 Hto Hd Hl1 (fun g => write_columns_exact g d cs) HO HOc HS1 HW
              xs1 g0 0 (fun x Hx => Hx) Hinv0 Hw0 Hr0 ltac:(rewrite Ho0; exact O) eq_refl)
    as (g1 & E1 & X1 & Hinv1 & T1 & O1).
  rewrite E1. cbn beta iota.
  assert (Hw1 : sq_write g1 = [d]) by (unfold sq_write; rewrite T1; exact Hw0).
  assert (Hr1 : memd d (sq_read g1) = false) by (unfold sq_read; rewrite T1; exact Hr0).
  unfold eoq_grp. rewrite Hw1.
  destruct (eoq_fold_given_e PC e d ts ts2 cs (OE d cs) xs2 S2 Hto Hd Hl2 (fun g => write_columns_exact g d cs) HO HOc HS2 HW
              xs2 g1 0 (fun x Hx => Hx) Hinv1 Hw1 Hr1 O1 eq_refl)
    as (g2 & E2 & X2 & Hinv2 & T2 & O2).
  rewrite E2. cbn beta iota. rewrite (expand_wildcard_id e g2 Hp (QK_col_qk _ PC g2 HPC (si_lits _ _ _ _ Hinv2))).
  exists g2. split; [reflexivity|]. split; [|exact Hinv2]. cbn [skipn] in X1, X2.
  apply (ext_trans gb g0 g2 _ _ X0). apply (ext_trans g0 g1 g2 _ _ X1). exact X2.
Qed.

(** the column objects of the holder belong to tables; a stored write column is literally the write column *)
Lemma PCe_qk d ts UN c : tabs_ok d ts -> dk d = KTable -> PCe d ts UN c -> col_qk c.
Proof.
  intros Hto Hd [(p & Ep & Hp)|(grp & nm & _ & (_ & _ & _ & HP & _))]; unfold col_qk.
  - rewrite Ep. constructor; [|constructor]. destruct Hp as [<-|Hp]; [exact Hd|apply (to_tables _ _ Hto); exact Hp].
  - apply Forall_forall. intros p Hp. apply (to_tables _ _ Hto). exact (proj1 (HP p Hp)).
Qed.

Lemma PCe_wcol d ts UN : tabs_ok d ts -> dk d = KTable -> wcol_lit d (PCe d ts UN).
Proof.
  intros Hto Hd c nm [(p & Ep & Hp)|(grp & nm' & _ & (_ & _ & Hl & _))] E; unfold col_eqb in E; apply andb_true_iff in E; destruct E as [E1 E2].
  - unfold col_parent in E2. cbn [Wcol cparents] in E2. rewrite Ep in E2. cbn [opt_dataset_eqb] in E2.
    assert (p = d).
    { destruct Hp as [<-|Hp]; [reflexivity|]. rewrite dataset_eqb_sym, (to_target _ _ Hto p Hp) in E2. discriminate. }
    subst p. apply String.eqb_eq in E1. unfold col_str, col_parent, Wcol in E1. cbn [cparents craw] in E1. rewrite Ep, Hd in E1.
    apply append_cancel in E1. apply append_cancel in E1. destruct c as [cr cp]. cbn [craw cparents] in *. subst. reflexivity.
  - rewrite (col_parent_none _ Hl) in E2. discriminate E2.
Qed.

Print Assumptions HS_e.
Print Assumptions union_core_own_e.
Print Assumptions union_core_cols_e.
