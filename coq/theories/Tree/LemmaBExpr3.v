(** Stage 2, the last case: INSERT with an explicit column list and expression items, so that
    [lemma_Bx_statement] of LemmaBExpr.v holds without the guard [no_cols] of LemmaBExpr2.v. *)
From Coq Require Import Lia Permutation.
From SV Require Import Tree.Render Tree.RenderExpr Tree.ExprItem Tree.LemmaA Tree.LemmaAProofs Tree.LemmaB Tree.LemmaBProofs
     Tree.LemmaBExpr Tree.LemmaBExpr2 Ident.Escape Ident.EscapeProofs Holder.PathProofs Holder.SortProofs.
From SV Require TriviaProofs.

(* ================================================================== *)
(** * Part K: the clean-up when the target columns are given, items with any number of sources (also none) *)
Lemma acl_fold_oed d cs c srcs : forall g g',
  fold_left (fun acc s => do g3 <- acc; add_column_lineage g3 s (Wcol d c)) srcs (Ok g) = Ok g' ->
  out_edges g (NData d) = OE d cs -> In c cs ->
  (forall s, In s srcs -> forall p, In p (cparents s) -> dataset_eqb p d = false) ->
  out_edges g' (NData d) = OE d cs.
Proof.
  induction srcs as [|s r IH]; intros g g' E Ho Hc Hp; cbn [fold_left] in E; [inversion E; subst; exact Ho|].
  destruct (add_column_lineage g s (Wcol d c)) as [g1|m] eqn:E1; [|rewrite fold_err in E; discriminate].
  apply (IH g1 g' E); [|exact Hc|intros s' Hs'; apply Hp; right; exact Hs'].
  apply (acl_oed d cs g s c g1 E1 Ho Hc). apply Hp. left. reflexivity.
Qed.

Lemma eoq_fold_cols_x (PC : column -> Prop) e d ts cs cols (S : xcol -> list column) :
  group_ok d ts -> dk d = KTable -> List.length cols = List.length cs ->
  (forall g2, sel_inv PC d ts g2 -> forall x, In x cols -> to_source_columns e x (get_alias_mapping g2 ts) = Ok (S x)) ->
  (forall x, In x cols -> forall s, In s (S x) -> PC s /\ forall p, In p (cparents s) -> In p ts) ->
  (forall c, In c cs -> PC (Wcol d c)) ->
  forall l g2 idx,
    (forall x, In x l -> In x cols) -> sel_inv PC d ts g2 -> sq_write g2 = [d] -> memd d (sq_read g2) = false ->
    out_edges g2 (NData d) = OE d cs -> idx + List.length l = List.length cols ->
    exists g', fst (fold_left (fun acc2 x => let '(rg, idx) := acc2 in
                                  (do g2 <- rg; eoq_step e ts (List.length cols) d g2 idx x, Datatypes.S idx)) l (Ok g2, idx)) = Ok g' /\
               ext g2 g' (sel_edges d S (combine l (skipn idx (map (Wcol d) cs)))) /\ sel_inv PC d ts g' /\
               (forall k, holder_nodes g' k = holder_nodes g2 k) /\ out_edges g' (NData d) = OE d cs.
Proof.
  intros Hgo Hd Hlen HS HX HW. induction l as [|x r IH]; intros g2 idx Hl Hinv Hw Hr Ho Hn; cbn [fold_left].
  - exists g2. split; [reflexivity|]. split; [apply ext_refl|]. split; [exact Hinv|]. split; [reflexivity|exact Ho].
  - pose proof (HX x (Hl x (or_introl eq_refl))) as Hx3. cbn [List.length] in Hn.
    assert (Hidx : idx < List.length cs) by lia.
    destruct (nth_error cs idx) as [c|] eqn:Ec; [|apply nth_error_None in Ec; lia].
    pose proof (nth_error_In _ _ Ec) as Hc.
    assert (Ewc : write_columns g2 = map (Wcol d) cs) by (apply write_columns_exact; assumption).
    assert (Estep : eoq_step e ts (List.length cols) d g2 idx x =
                    fold_left (fun acc3 s0 => do g3 <- acc3; add_column_lineage g3 s0 (Wcol d c)) (S x) (Ok g2)).
    { unfold eoq_step. rewrite (HS g2 Hinv x (Hl x (or_introl eq_refl))). destruct (S x) as [|s0 sr]; [reflexivity|].
      rewrite Ewc, map_length, Hlen, Nat.eqb_refl. rewrite (map_nth_error (Wcol d) idx cs Ec). reflexivity. }
    rewrite Estep.
    destruct (acl_fold_ok PC d ts (Wcol d c) (S x) g2 Hgo eq_refl (HW c Hc) Hx3 (si_lits _ _ _ _ Hinv) (si_edges _ _ _ _ Hinv))
      as (g3 & E3 & X3 & L3 & I3 & T3 & _ & D3).
    rewrite E3.
    assert (O3 : out_edges g3 (NData d) = OE d cs).
    { apply (acl_fold_oed d cs c (S x) g2 g3 E3 Ho Hc).
      intros s Hs p Hp. apply (go_target _ _ Hgo). apply (proj2 (Hx3 s Hs)). exact Hp. }
    assert (Hinv3 : sel_inv PC d ts g3) by (apply (sel_inv_ext PC d ts g2 g3 _ Hinv X3 L3 I3 (D3 (si_drop _ _ _ _ Hinv)))).
    assert (Hw3 : sq_write g3 = [d]) by (unfold sq_write; rewrite T3; exact Hw).
    assert (Hr3 : memd d (sq_read g3) = false) by (unfold sq_read; rewrite T3; exact Hr).
    destruct (IH g3 (Datatypes.S idx) (fun y Hy => Hl y (or_intror Hy)) Hinv3 Hw3 Hr3 O3 ltac:(lia)) as (g' & E' & X' & Hinv' & T' & O').
    exists g'. split; [exact E'|]. split.
    + rewrite (skipn_nth (map (Wcol d) cs) idx (Wcol d c) (map_nth_error (Wcol d) idx cs Ec)).
      unfold sel_edges. cbn [combine flat_map fst snd]. apply (ext_trans g2 g3 g'); assumption.
    + split; [exact Hinv'|]. split; [intros k; rewrite T', T3; reflexivity|exact O'].
Qed.

Lemma select_core_cols_x (PC : column -> Prop) e d ts cs cols (S : xcol -> list column) :
  p_truthy (e_provider e) = false -> group_ok d ts -> Forall data_ok ts -> dk d = KTable -> NoDup cs ->
  List.length cols = List.length cs -> (forall c, PC c -> col_qk c) ->
  (forall g2, sel_inv PC d ts g2 -> forall x, In x cols -> to_source_columns e x (get_alias_mapping g2 ts) = Ok (S x)) ->
  (forall x, In x cols -> forall s, In s (S x) -> PC s /\ forall p, In p (cparents s) -> In p ts) ->
  (forall c, In c cs -> PC (Wcol d c)) ->
  exists sub, (do g2 <- end_of_query_cleanup e (gb_of d cs) ts cols []; expand_wildcard e g2) = Ok sub /\
              ext (gb_of d cs) sub (map (fun v => (NData v, NStr (dalias v))) ts ++ sel_edges d S (combine cols (map (Wcol d) cs))) /\
              sel_inv PC d ts sub.
Proof.
  intros Hp Hgo Hdo Hd Hnd Hlen HPC HS HX HW. set (g_b := gb_of d cs).
  destruct (gb_facts d cs Hd Hnd) as (A & B & C & D & O). fold g_b in A, B, C, D, O.
  assert (Lb : lits_in (QK (d :: ts) PC) g_b).
  { split.
    - intros n Hn. rewrite B in Hn. destruct Hn as [<-|Hn]; [left; reflexivity|]. apply in_map_iff in Hn. destruct Hn as (c & <- & Hc). apply HW. exact Hc.
    - intros e0 He0. rewrite A in He0. destruct (OE_edge d cs e0 He0) as (j & c & Hc & ->). cbn [fst snd QK]. split; [left; reflexivity|apply HW; exact Hc]. }
  assert (Eb : edges_inv ts g_b).
  { intros e0 He0. rewrite A in He0. destruct (OE_edge d cs e0 He0) as (j & c & Hc & ->). unfold edge_inv. cbn [fst snd etype e_has_column]. right. reflexivity. }
  destruct (add_reads_ok PC d ts ts g_b Hgo Hdo (fun v Hv => Hv) Lb Eb) as (A1 & A2 & A3 & A4 & A5 & A6).
  rewrite eoq_single. cbv zeta. set (g0 := fold_left add_read ts g_b) in *.
  assert (Hw : sq_write g0 = [d]) by (unfold sq_write; rewrite A4 by discriminate; rewrite C; reflexivity).
  rewrite Hw.
  assert (Hr : memd d (sq_read g0) = false).
  { destruct (memd d (sq_read g0)) eqn:E; [|reflexivity]. exfalso. apply memd_In_eqb in E. destruct E as (v & Hv & Ev).
    unfold sq_read, g0 in Hv. apply reads_after_add_reads in Hv; [|exact (go_tables _ _ Hgo)].
    destruct Hv as [Hv|(w & Hw' & Ew)]; [rewrite C in Hv; destruct Hv|].
    assert (K : dataset_eqb w d = true) by (apply (dataset_eqb_trans w v d Ew); apply dataset_eqb_true_sym; exact Ev).
    rewrite (go_target _ _ Hgo w Hw') in K. discriminate. }
  assert (Hinv0 : sel_inv PC d ts g0).
  { constructor; [exact A1|exact A2| |exact (A6 D)]. intros v Hv.
    assert (Hin : In (NData v, NStr (dalias v)) (map (fun v => (NData v, NStr (dalias v))) ts)) by (apply in_map_iff; exists v; auto).
    split.
    - rewrite (ext_edges _ _ _ A3). apply orb_true_iff. right. unfold ematch. apply existsb_exists. eexists. split; [exact Hin|].
      cbn [fst snd]. rewrite !node_eqb_refl. reflexivity.
    - exact (proj1 (ext_new _ _ _ A3 _ Hin)). }
  destruct (eoq_fold_cols_x PC e d ts cs cols S Hgo Hd Hlen HS HX HW cols g0 0 (fun x Hx => Hx) Hinv0 Hw Hr) as (g' & E' & X' & Hinv' & T' & O').
  - rewrite A5. exact O.
  - reflexivity.
  - rewrite E'. rewrite (expand_wildcard_id e g' Hp (QK_col_qk _ PC g' HPC (si_lits _ _ _ _ Hinv'))).
    exists g'. split; [reflexivity|]. split; [|exact Hinv']. cbn [skipn] in X'. apply (ext_trans g_b g0 g'); assumption.
Qed.

(* ================================================================== *)
(** * Part M: the model side with a column list *)
Theorem model_pairs_insert_cols_x noise e t cs items from cj :
  noise_ok noise = true -> env_ok e = true ->
  tref_ok t = true -> forallb id_ok cs = true -> NoDup cs -> List.length cs = List.length items ->
  forallb item_ok_x items = true -> from <> [] -> forallb rel_ok from = true ->
  let d := tbl e t None in let ts := map (tbl_of e) from in let xs := map xcol_x items in let xs' := flat_map split_x xs in
  group_ok d ts -> ts_inj ts -> names_nodot ts -> (forall x', In x' xs' -> xref_ok ts x') -> noqual ts xs' ->
  script_pairs e false [] [r_stmt_x noise (SInsert t (Some cs) (QSelect items from cj None))] =
  uniq_sorted (sort_strings (map flow_str (flows_of (S_x ts) (combine xs (map (Wcol d) cs))))).
Proof.
  intros Hn He Ht Hcs Hnd Hlen Hit Hne Hrel d ts xs xs' Hgo Hinj Hndot Hxs Hnq.
  set (e' := with_cols e (view_cols [] [])).
  assert (He' : env_ok e' = true) by exact He.
  assert (Hp : p_truthy (e_provider e') = false) by exact (proj1 (env_facts e' He')).
  assert (Hdo : Forall data_ok ts).
  { apply Forall_forall. intros v Hv. unfold data_ok. rewrite (go_tables _ _ Hgo v Hv).
    apply in_map_iff in Hv. destruct Hv as (r & <- & _). destruct r; reflexivity. }
  pose proof (analyze_insert_x noise Hn e' He' t (Some cs) items from cj Ht (conj Hcs Hnd) Hit Hne Hrel) as Ea.
  unfold sel_holder_x in Ea. change (tbl e' t None) with d in Ea. change (map (tbl_of e') from) with ts in Ea. fold xs in Ea.
  set (NM := unres_names ts xs').
  assert (Hlx : List.length xs = List.length cs) by (unfold xs; rewrite map_length; lia).
  assert (HW : forall c, In c cs -> PC4 ts NM (Wcol d c)) by (intros c _; left; exists d; auto).
  assert (Hsp : forall x, In x xs -> forall x', In x' (split_x x) -> In x' xs' /\ xref_ok ts x').
  { intros x Hx x' Hx'. assert (Hin : In x' xs') by (apply in_flat_map; exists x; auto). split; [exact Hin|apply Hxs; exact Hin]. }
  assert (HSm : forall x, In x xs -> forall s0, In s0 (S_x ts x) <-> exists x', In x' (split_x x) /\ In s0 (S_of ts x')).
  { intros x Hx. apply (S_x_members d ts xs' x Hgo Hinj eq_refl (Hsp x Hx)). }
  destruct (select_core_cols_x (PC4 ts NM) e' d ts cs xs (S_x ts) Hp Hgo Hdo eq_refl Hnd Hlx (fun c Hc => PC4_qk d ts NM c Hgo Hinj Hc)) as (sub & Esub & Xsub & Isub).
  - intros g2 Hinv x Hx. apply (HS_of_x (PC4 ts NM) e' d ts g2 x Hgo Hinj Hndot Hinv). intros x' Hx'. apply (Hsp x Hx x' Hx').
  - intros x Hx s0 Hs0. apply (HSm x Hx) in Hs0. destruct Hs0 as (x' & Hx' & Hs0). destruct (Hsp x Hx x' Hx') as [Hin Hok].
    destruct (S_of_props d ts xs' x' Hgo Hinj eq_refl Hin Hok) as (_ & _ & _ & A4 & _). exact (A4 s0 Hs0).
  - exact HW.
  - rewrite Esub in Ea.
    destruct (gb_facts d cs eq_refl Hnd) as (GA & GB & GC & GD & GO).
    assert (Hop : forall p0, In p0 (combine xs (map (Wcol d) cs)) -> In (fst p0) xs /\ exists c, In c cs /\ snd p0 = Wcol d c).
    { intros [x w] Hp0. split; [exact (in_combine_l _ _ _ _ Hp0)|]. apply in_combine_r in Hp0. apply in_map_iff in Hp0.
      destruct Hp0 as (c & <- & Hc). exists c. auto. }
    destruct (holder_realises d ts NM (combine xs (map (Wcol d) cs)) (S_x ts) (gb_of d cs) sub Hgo Hinj eq_refl) as (C1 & C2 & C3 & C4);
      [| | | | | | | |exact Xsub|exact Isub|].
    + intros p0 Hp0. destruct (Hop p0 Hp0) as [Hx (c & _ & Ep)]. split; [rewrite Ep; eexists; reflexivity|].
      intros s0 Hs0. apply (HSm _ Hx) in Hs0. destruct Hs0 as (x' & Hx' & Hs0). destruct (Hsp _ Hx x' Hx') as [Hin Hok].
      destruct (S_of_props d ts xs' x' Hgo Hinj eq_refl Hin Hok) as (_ & _ & _ & _ & A5). exact (A5 s0 Hs0).
    + intros nm Hnm. unfold NM, unres_names in Hnm.
      assert (Hns : forall (A : Type) (f : dataset -> A) (g : A), In nm (match ts with [_] => [] | _ => [nm] end) -> match ts with [d1] => f d1 | _ => g end = g).
      { intros A f g. destruct ts as [|a [|b r]]; [reflexivity|intros []|reflexivity]. }
      assert (Hin : In nm (flat_map (fun x => match xsrc x with [(c, None)] => [c] | _ => [] end) xs') /\ In nm (match ts with [_] => [] | _ => [nm] end)).
      { destruct ts as [|a [|b r]]; [split; [exact Hnm|left; reflexivity]|destruct Hnm|split; [exact Hnm|left; reflexivity]]. }
      destruct Hin as [Hin Hsh]. apply in_flat_map in Hin. destruct Hin as (x' & Hx' & Hin).
      assert (HU : In (Ucol ts nm) (S_of ts x')).
      { unfold S_of. destruct (xsrc x') as [|[c qq] rest]; [destruct Hin|]. destruct qq as [q|]; [destruct Hin|].
        destruct rest as [|p r]; [|destruct Hin]. destruct Hin as [->|[]]. rewrite (Hns _ _ _ Hsh). left. reflexivity. }
      unfold xs' in Hx'. apply in_flat_map in Hx'. destruct Hx' as (x & Hx & Hx').
      destruct (In_combine_l_ex xs (map (Wcol d) cs) x ltac:(rewrite map_length; exact Hlx) Hx) as (w & Hw). exists (x, w).
      split; [exact Hw|]. cbn [fst]. apply (HSm x Hx). exists x'. auto.
    + intros p' s' nm v Hnm Hp' Hs' Ev. destruct (Hop p' Hp') as [Hx0 _].
      apply (HSm _ Hx0) in Hs'. destruct Hs' as (x' & Hx'sp & Hs'). destruct (Hsp _ Hx0 x' Hx'sp) as [Hx' _].
      unfold NM, unres_names in Hnm.
      assert (Hm : In nm (flat_map (fun x => match xsrc x with [(c, None)] => [c] | _ => [] end) xs') /\ (forall d1, ts <> [d1])).
      { destruct ts as [|a [|b r]]; [split; [exact Hnm|discriminate]|destruct Hnm|split; [exact Hnm|discriminate]]. }
      destruct Hm as [Hin Hns]. apply in_flat_map in Hin. destruct Hin as (x & Hx & Hin).
      destruct (Hxs x Hx) as (_ & c & qq & Ex & _ & Hq). rewrite Ex in Hin. destruct qq as [q|]; [destruct Hin|]. destruct Hin as [->|[]].
      destruct Hq as [(d1 & Ed)|[Hmul _]]; [exfalso; exact (Hns d1 Ed)|].
      destruct (Hxs x' Hx') as (_ & c' & qq' & Ex' & _ & Hq'). unfold S_of in Hs'. rewrite Ex' in Hs'. destruct qq' as [q'|].
      * destruct Hq' as (v' & Hv' & Eq' & Hu'). rewrite (find_dalias ts q' v' Hv' Eq' (fun w Hw E => Hu' w Hw (or_introl E))) in Hs'.
        destruct Hs' as [<-|[]]. cbn [craw]. apply (Hnq x x' nm c' q' Hx Hx' Ex Ex' Hmul).
      * rewrite (multi_not_single ts _ _ _ Hmul) in Hs'. destruct Hs' as [<-|[]].
        destruct (Ucol_props ts c' Hinj) as (_ & _ & U3). destruct Hmul as (a & b & Ha & Hb & Hab).
        pose proof (two_members _ a b (proj2 (U3 a) Ha) (proj2 (U3 b) Hb) Hab) as Hl. rewrite Ev in Hl. cbn in Hl. lia.
    + split.
      * intros n Hn0. rewrite GB in Hn0. destruct Hn0 as [<-|Hn0]; [left; reflexivity|]. apply in_map_iff in Hn0. destruct Hn0 as (c & <- & Hc). apply HW. exact Hc.
      * intros e0 He0. rewrite GA in He0. destruct (OE_edge d cs e0 He0) as (j & c & Hc & ->). cbn [fst snd QK]. split; [left; reflexivity|apply HW; exact Hc].
    + exact GD.
    + intros e0 He0. rewrite GA in He0. destruct (OE_edge d cs e0 He0) as (j & c & _ & ->). reflexivity.
    + intros x y Hx. destruct (has_edge (gb_of d cs) x y) eqn:E; [|reflexivity]. apply has_edge_In in E. destruct E as (e0 & He0 & E1 & _).
      rewrite GA in He0. destruct (OE_edge d cs e0 He0) as (j & c & _ & ->). cbn [fst] in E1. destruct x; try discriminate.
    + intros p c Hp0. destruct (has_edge (gb_of d cs) (NData p) (NCol c)) eqn:E; [|reflexivity]. apply has_edge_In in E. destruct E as (e0 & He0 & E1 & _).
      rewrite GA in He0. destruct (OE_edge d cs e0 He0) as (j & c0 & _ & ->). cbn [fst node_eqb] in E1.
      rewrite (go_target _ _ Hgo p Hp0) in E1. discriminate.
    + apply (script_pairs_of_holder e _ _ _ Ea (proj1 (env_facts e He)) C1 C2 C3 C4).
Qed.

(* ================================================================== *)
(** * Part S: the specification with a column list *)
Lemma spec_strs_insert_cols_x ds t cs items from cj :
  forallb is_rtable from = true -> List.length cs = List.length items ->
  (forall i, In i items -> exists nm srcs, item_cols (map (sbind ds) from) i = [(nm, srcs)]) ->
  map (fun p => (show_src (fst p) ++ ">" ++ snd p)%string) (spec_flows ds (SInsert t (Some cs) (QSelect items from cj None))) =
  flat_map (fun ic : item * string =>
              map (fun sr => (show_src sr ++ ">" ++ tref_str ds t ++ "." ++ snd ic)%string)
                  (flat_map snd (item_cols (map (sbind ds) from) (fst ic)))) (combine items cs).
Proof.
  intros Hrt Hlen Hs. unfold spec_flows. rewrite (q_cols_select _ ds items from cj None Hrt).
  set (IC := item_cols (map (sbind ds) from)) in *.
  assert (Hl : List.length (flat_map IC items) = List.length items).
  { apply length_flat_single. intros i Hi. destruct (Hs i Hi) as (nm & srcs & E). eexists. exact E. }
  rewrite Hl, Hlen, Nat.eqb_refl. clear Hl.
  revert cs Hlen. induction items as [|i r IH]; intros [|c cr] Hlen; cbn [List.length] in Hlen; try discriminate; [reflexivity|].
  destruct (Hs i (or_introl eq_refl)) as (nm & srcs & E). cbn [flat_map combine fst snd]. rewrite E. cbn [app combine flat_map fst snd map].
  rewrite map_app, app_nil_r. f_equal; [rewrite map_map; reflexivity|].
  apply IH; [intros i' Hi'; apply Hs; right; exact Hi'|lia].
Qed.

Definition e_plain : env := mk_env "ansi" "" "" {| p_truthy := false; p_cols := [] |} [].

(* ================================================================== *)
(** * Part Z: INSERT with a column list *)
Theorem lemma_Bx_insert_cols noise e t cs items from cj :
  noise_ok noise = true -> env_ok e = true ->
  tref_ok t = true -> forallb id_ok cs = true -> forallb item_ok_x items = true -> from <> [] -> forallb rel_ok from = true ->
  trefs_distinct (map rtref from) = true ->
  let s := SInsert t (Some cs) (QSelect items from cj None) in
  colshape s = true ->
  script_pairs e false [] [r_stmt_x noise s] = spec_pairs (e_cfg e) s.
Proof.
  intros Hn He Ht Hcs Hit Hne Hrel Hd s Hc.
  assert (Hs' : (exists cols, s = SInsert t cols (QSelect items from cj None)) \/ s = SCtas t (QSelect items from cj None) \/ s = SView t (QSelect items from cj None)).
  { left. exists (Some cs). reflexivity. }
  pose proof (colshape_expand s t items from cj Hs' Hit Hc) as Hc2.
  pose proof (items2_ok items Hit) as Hit2.
  destruct (colshape_tables (e_cfg e) _ t (items2 items) from cj (or_intror (or_introl eq_refl)) Hc2 Ht Hne Hrel Hit2 Hd) as (Htc & Hic & Hnq).
  destruct (colshape_tables "" _ t (items2 items) from cj (or_intror (or_introl eq_refl)) Hc2 Ht Hne Hrel Hit2 Hd) as (Htc0 & _ & _).
  assert (Hrt : forallb is_rtable from = true).
  { rewrite forallb_forall in *. intros r Hr. apply rel_ok_table. apply Hrel. exact Hr. }
  assert (Hitem : forall i, In i items -> item_ok_x i = true) by (apply forallb_forall; exact Hit).
  assert (Hin2 : forall i i', In i items -> In i' (expand i) -> In i' (items2 items)).
  { intros i i' Hi Hi'. unfold items2. apply in_flat_map. exists i. auto. }
  (* every item is one output column *)
  assert (Hsingle : forall ds (e1 : env), e_cfg e1 = ds -> tables_cond ds t from ->
            forall i, In i items -> exists nm srcs, item_cols (map (sbind ds) from) i = [(nm, srcs)]).
  { intros ds e1 Ecfg Htc1 i Hi. destruct i as [ex al|qq]; [cbn [item_cols]; eexists; eexists; reflexivity|].
    assert (Hst : In (IStar qq) (items2 items)) by (apply (Hin2 (IStar qq)); [exact Hi|left; reflexivity]).
    subst ds. destruct (item_cols_single e1 t from (items2 items) Hrel Hit2 Htc1 Hic (IStar qq) Hst) as (srcs & E). eexists. eexists. exact E. }
  (* the column list *)
  assert (Hcc : NoDup cs /\ List.length cs = List.length items).
  { unfold colshape in Hc. apply andb_true_iff in Hc. destruct Hc as [Hc _]. apply andb_true_iff in Hc. destruct Hc as [Hc _].
    apply andb_true_iff in Hc. destruct Hc as [_ Hcc]. cbn [cs_cols s] in Hcc. apply andb_true_iff in Hcc. destruct Hcc as [H1 H2].
    split; [apply nodup_s_NoDup; exact H1|]. apply Nat.eqb_eq in H2. rewrite H2. rewrite (q_cols_select _ "" items from cj None Hrt).
    apply length_flat_single. intros i Hi. destruct (Hsingle "" e_plain eq_refl Htc0 i Hi) as (nm & srcs & E). eexists. exact E. }
  destruct Hcc as [Hnd Hlen].
  set (d := tbl e t None). set (ts := map (tbl_of e) from). set (xs := map xcol_x items). set (xs' := flat_map split_x xs).
  pose proof (group_ok_of e t from Hrel Htc) as Hgo. pose proof (ts_inj_of e t from Hrel Htc) as Hinj. pose proof (names_nodot_of e from Hrel) as Hndot.
  fold d ts in Hgo, Hinj, Hndot.
  pose proof (xref_ok_of e t from (items2 items) Hrel Hit2 Htc Hic) as Hx2. pose proof (noqual_of e from (items2 items) Hit2 Hnq) as Hn2.
  fold ts in Hx2, Hn2.
  assert (HF4 : forall x', In x' xs' <-> In x' (map xcol_of (items2 items))).
  { intros x'. unfold xs', xs, items2. rewrite flat_map_map', map_flat_map', !in_flat_map.
    split; intros (i & Hi & H); exists i; (split; [exact Hi|]); apply (split_expand i x' (Hitem i Hi)); exact H. }
  assert (Hxs : forall x', In x' xs' -> xref_ok ts x') by (intros x' Hx'; apply Hx2; apply HF4; exact Hx').
  assert (Hnq' : noqual ts xs').
  { intros x x' c c' q Hx Hx'. apply Hn2; apply HF4; assumption. }
  unfold s. rewrite (model_pairs_insert_cols_x noise e t cs items from cj Hn He Ht Hcs Hnd Hlen Hit Hne Hrel Hgo Hinj Hndot Hxs Hnq').
  unfold spec_pairs. rewrite (spec_strs_insert_cols_x (e_cfg e) t cs items from cj Hrt Hlen (Hsingle (e_cfg e) e eq_refl Htc)).
  apply us_ext. intros str. fold d ts xs. unfold flows_of, xs. rewrite combine_map, flat_map_map', map_flat_map'. cbn [fst snd]. rewrite !in_flat_map.
  set (tstr := tref_str (e_cfg e) t). set (scope := map (sbind (e_cfg e)) from).
  assert (Hper : forall i c, In i items ->
            (In str (map flow_str (map (fun s0 => (s0, Wcol d c)) (S_x ts (xcol_x i)))) <->
             In str (map (fun sr => (show_src sr ++ ">" ++ tstr ++ "." ++ c)%string) (flat_map snd (item_cols scope i))))).
  { intros i c Hi. pose proof (Hitem i Hi) as Hok.
    assert (Hsp : forall x', In x' (split_x (xcol_x i)) -> In x' xs' /\ xref_ok ts x').
    { intros x' Hx'. assert (Hin : In x' xs') by (unfold xs', xs; apply in_flat_map; exists (xcol_x i); split; [apply in_map; exact Hi|exact Hx']).
      split; [exact Hin|apply Hxs; exact Hin]. }
    pose proof (S_x_members d ts xs' (xcol_x i) Hgo Hinj eq_refl Hsp) as HSm.
    set (Fc := fun sr => (show_src sr ++ ">" ++ tstr ++ "." ++ c)%string).
    assert (HA : In str (map flow_str (map (fun s0 => (s0, Wcol d c)) (S_x ts (xcol_x i)))) <->
                 exists i', In i' (expand i) /\ In str (map Fc (flat_map snd (item_cols scope i')))).
    { assert (Hcorr : forall i', In i' (expand i) ->
                map Fc (flat_map snd (item_cols scope i')) = map flow_str (map (fun s0 => (s0, Wcol d c)) (S_of ts (xcol_of i')))).
      { intros i' Hi'. pose proof (Hin2 i i' Hi Hi') as Hi2.
        destruct (item_corr_n e t from i' c Hrel (proj1 (forallb_forall _ _) Hit2 i' Hi2) Htc (Hic i' Hi2)) as (srcs & E1 & E2).
        unfold scope. rewrite E1. cbn [flat_map snd app]. rewrite app_nil_r. exact E2. }
      rewrite map_map, in_map_iff. split.
      - intros (s0 & <- & Hs0). apply HSm in Hs0. destruct Hs0 as (x' & Hx' & Hs0). apply (split_expand i x' Hok) in Hx'.
        apply in_map_iff in Hx'. destruct Hx' as (i' & <- & Hi'). exists i'. split; [exact Hi'|]. rewrite (Hcorr i' Hi'), map_map.
        apply in_map_iff. exists s0. auto.
      - intros (i' & Hi' & H). rewrite (Hcorr i' Hi'), map_map in H. apply in_map_iff in H. destruct H as (s0 & <- & Hs0).
        exists s0. split; [reflexivity|]. apply HSm. exists (xcol_of i'). split; [|exact Hs0].
        apply (split_expand i _ Hok). apply in_map. exact Hi'. }
    rewrite HA. destruct i as [ex [a|]|qq].
    - assert (E0 : forall ex0, map Fc (flat_map snd (item_cols scope (IExpr ex0 (Some a)))) = spec_item_strs tstr scope (IExpr ex0 (Some c))).
      { intros ex0. unfold spec_item_strs. cbn [item_cols flat_map fst snd]. rewrite !app_nil_r. reflexivity. }
      rewrite E0. unfold scope. rewrite spec_expr_strs. cbn [expand]. split.
      + intros (i' & Hi' & H). apply in_map_iff in Hi'. destruct Hi' as (r & <- & Hr). exists r. split; [exact Hr|].
        fold scope. rewrite <- E0. exact H.
      + intros (r & Hr & H). eexists. split; [apply in_map_iff; exists r; split; [reflexivity|exact Hr]|]. fold scope in H. rewrite <- E0 in H. exact H.
    - destruct ex; try discriminate. cbn [expand]. split; [intros (i' & [<-|[]] & H); exact H|intros H; eexists; split; [left; reflexivity|exact H]].
    - cbn [expand]. split; [intros (i' & [<-|[]] & H); exact H|intros H; eexists; split; [left; reflexivity|exact H]]. }
  split; intros ([i c] & Hic' & H); exists (i, c); (split; [exact Hic'|]); cbn [fst snd] in *;
    apply (Hper i c (in_combine_l _ _ _ _ Hic')); exact H.
Qed.
Print Assumptions lemma_Bx_insert_cols.

(** ** [lemma_Bx_statement] of LemmaBExpr.v, proved: INSERT (with or without column list) / CTAS / VIEW over one SELECT from
    base tables whose items are stars, column references or aliased expressions (any depth), any trivia *)
Theorem lemma_Bx_cols : lemma_Bx_cols_statement.
Proof.
  intros noise e s Hn He Hok Hc Hnc.
  destruct s as [t [cs|] q|t q|t q|q|kind]; try discriminate Hnc. cbn [stmt_ok_x] in Hok.
  destruct q as [items from cj [wh|]| |]; try discriminate.
  apply andb_true_iff in Hok. destruct Hok as [H Hcs]. apply andb_true_iff in H. destruct H as [H Hd]. apply andb_true_iff in H. destruct H as [H Hrel].
  apply andb_true_iff in H. destruct H as [H Hne]. apply andb_true_iff in H. destruct H as [Ht Hit].
  apply (lemma_Bx_insert_cols noise e t cs items from cj Hn He Ht Hcs Hit); [|exact Hrel|exact Hd|exact Hc].
  destruct from; [discriminate Hne|discriminate].
Qed.

Theorem lemma_Bx : lemma_Bx_statement.
Proof.
  intros noise e s Hn He Hok Hc. destruct (no_cols s) eqn:E.
  - apply lemma_Bx_partial; assumption.
  - apply lemma_Bx_cols; assumption.
Qed.
Print Assumptions lemma_Bx.

(** non-vacuity: the column-list instances of [tx1] (LemmaBExpr.v): a literal-only item in first / last position, two
    expression items *)
Example ex_Bx_cols_hyps :
  map (fun s => noise_ok [ws; cmt] && env_ok e_cxB && stmt_ok_x s && colshape s && negb (no_cols s)) tx1 =
  [false; false; false; true; true; true; false; false; false; false; false; false; false; true].
Proof. vm_compute. reflexivity. Qed.
Example ex_Bx_cols_instance :
  script_pairs e_cxB false [] [r_stmt_x [ws; cmt] (nth 3 tx1 (SNoData 0))] =
  ["<default>.t.a><default>.x.p"; "<default>.t.a><default>.x.q"; "<default>.t.b><default>.x.p"].
Proof. vm_compute. reflexivity. Qed.
